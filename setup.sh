#!/bin/sh
# Offline build of the whole framework: translator -> Generated.v, full Coq
# build (.vo), extraction + OCaml oracle, Go harness from /repo's working tree.
set -e
cd "$(dirname "$0")"
export GOFLAGS=-mod=mod GOPROXY=off GOSUMDB=off GOTOOLCHAIN=local
python3 - <<'PY'
import sys, os
sys.path.insert(0, os.getcwd())
from vlib import core
info = core.build_all()
ok = info["make_rc"] == 0 and info["oracle_ok"] and info["harness_ok"] and info["gen_ok"]
if not ok:
    print(info.get("gen_log", "")); print(info["make_log"][-5000:]); print(info.get("oracle_log", "")); print(info.get("harness_log", ""))
    sys.exit(1)
hits = core.scan_forbidden()
if hits:
    print("forbidden constructs:", hits); sys.exit(1)
print("setup ok in %.0fs" % info["build_s"])
PY
