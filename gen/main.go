// Command gen translates the declarative parts of gebn/bmc (constants, tables,
// package-level state) into Coq: coq/gen/Generated.v.  It matches declarations
// by name and shape and fails loudly when one is not found - it never
// substitutes a default.
package main

import (
	"flag"
	"fmt"
	"go/ast"
	"go/constant"
	"go/token"
	"go/types"
	"os"
	"sort"
	"strings"

	"golang.org/x/tools/go/packages"
)

var out strings.Builder

type genErr string

// fail aborts the current section (see section): the definitions of that section are replaced by placeholders that
// no tie lemma accepts, so that only the properties depending on that table stop, not every property.
func fail(format string, a ...any) { panic(genErr(fmt.Sprintf(format, a...))) }

func fatal(format string, a ...any) {
	fmt.Fprintf(os.Stderr, "gen: "+format+"\n", a...)
	os.Exit(1)
}

type def struct{ name, typ, placeholder string }

var warnings []string

// section runs f; if it fails (a declaration the translator reads was renamed, moved or rewritten) what it emitted is
// dropped and each of its definitions gets a placeholder value.
func section(defs []def, f func()) {
	saved := out.String()
	defer func() {
		if r := recover(); r != nil {
			out.Reset()
			out.WriteString(saved)
			msg := fmt.Sprint(r)
			warnings = append(warnings, msg)
			fmt.Fprintf(os.Stderr, "gen: section failed: %s\n", msg)
			for _, d := range defs {
				emit("(* gen: NOT FOUND in the source (%s) *)", strings.ReplaceAll(msg, "*)", "* )"))
				emit("Definition %s : %s := %s.", d.name, d.typ, d.placeholder)
			}
		}
	}()
	f()
}

const missingN = "18446744073709551615%N"

func emit(format string, a ...any) { fmt.Fprintf(&out, format+"\n", a...) }

type pkgs map[string]*packages.Package

func (p pkgs) get(path string) *packages.Package {
	if x, ok := p[path]; ok {
		return x
	}
	fail("package %s not loaded", path)
	return nil
}

func constVal(p *packages.Package, name string) int64 {
	o := p.Types.Scope().Lookup(name)
	c, ok := o.(*types.Const)
	if !ok {
		fail("%s.%s: constant not found", p.PkgPath, name)
	}
	v, exact := constant.Int64Val(constant.ToInt(c.Val()))
	if !exact {
		fail("%s.%s: not an integer constant", p.PkgPath, name)
	}
	return v
}

// evalInt evaluates an expression the type checker knows the constant value of.
func evalInt(p *packages.Package, e ast.Expr) (int64, bool) {
	tv, ok := p.TypesInfo.Types[e]
	if !ok || tv.Value == nil {
		return 0, false
	}
	v, exact := constant.Int64Val(constant.ToInt(tv.Value))
	return v, exact
}

func findVar(p *packages.Package, name string) (*ast.ValueSpec, int) {
	for _, f := range p.Syntax {
		for _, d := range f.Decls {
			gd, ok := d.(*ast.GenDecl)
			if !ok || gd.Tok != token.VAR {
				continue
			}
			for _, s := range gd.Specs {
				vs := s.(*ast.ValueSpec)
				for i, n := range vs.Names {
					if n.Name == name {
						return vs, i
					}
				}
			}
		}
	}
	fail("%s: variable %s not found", p.PkgPath, name)
	return nil, 0
}

func findFunc(p *packages.Package, recv, name string) *ast.FuncDecl {
	for _, f := range p.Syntax {
		for _, d := range f.Decls {
			fd, ok := d.(*ast.FuncDecl)
			if !ok || fd.Name.Name != name {
				continue
			}
			r := ""
			if fd.Recv != nil && len(fd.Recv.List) > 0 {
				t := fd.Recv.List[0].Type
				if s, ok := t.(*ast.StarExpr); ok {
					t = s.X
				}
				if id, ok := t.(*ast.Ident); ok {
					r = id.Name
				}
			}
			if r == recv {
				return fd
			}
		}
	}
	fail("%s: function %s.%s not found", p.PkgPath, recv, name)
	return nil
}

// structLit reads the integer fields of a composite literal (keyed), resolving constants.
func structLit(p *packages.Package, e ast.Expr) map[string]int64 {
	cl, ok := e.(*ast.CompositeLit)
	if !ok {
		fail("%s: expected a composite literal at %v", p.PkgPath, p.Fset.Position(e.Pos()))
	}
	m := map[string]int64{}
	for idx, el := range cl.Elts {
		kv, ok := el.(*ast.KeyValueExpr)
		if !ok {
			// positional: field names from the struct type
			st, ok2 := p.TypesInfo.Types[cl].Type.Underlying().(*types.Struct)
			v, ok3 := evalInt(p, el)
			if !ok2 || !ok3 || idx >= st.NumFields() {
				fail("unkeyed composite literal at %v", p.Fset.Position(el.Pos()))
			}
			m[st.Field(idx).Name()] = v
			continue
		}
		v, ok := evalInt(p, kv.Value)
		if !ok {
			fail("non-constant field at %v", p.Fset.Position(kv.Value.Pos()))
		}
		m[kv.Key.(*ast.Ident).Name] = v
	}
	return m
}

func operations(ps pkgs) {
	emit("(* Operation table: pkg/ipmi/operation.go, pkg/dcmi/operations.go, and which operation each command uses *)")
	type op struct {
		name                   string
		fn, body, ent, command int64
	}
	var ops []op
	for _, path := range []string{"github.com/gebn/bmc/pkg/ipmi", "github.com/gebn/bmc/pkg/dcmi"} {
		p := ps.get(path)
		for _, f := range p.Syntax {
			for _, d := range f.Decls {
				gd, ok := d.(*ast.GenDecl)
				if !ok || gd.Tok != token.VAR {
					continue
				}
				for _, s := range gd.Specs {
					vs := s.(*ast.ValueSpec)
					for i, n := range vs.Names {
						if !strings.HasPrefix(strings.ToLower(n.Name), "operation") || i >= len(vs.Values) {
							continue
						}
						cl, ok := vs.Values[i].(*ast.CompositeLit)
						if !ok {
							continue
						}
						if t, ok := p.TypesInfo.Types[cl]; !ok || !strings.HasSuffix(t.Type.String(), "ipmi.Operation") {
							continue
						}
						m := structLit(p, cl)
						ops = append(ops, op{n.Name, m["Function"], m["Body"], m["Enterprise"], m["Command"]})
					}
				}
			}
		}
	}
	if len(ops) < 20 {
		fail("only %d Operation variables found", len(ops))
	}
	sort.Slice(ops, func(i, j int) bool { return ops[i].name < ops[j].name })
	emit("Definition operations : list (string * (N * N * N * N)) := [")
	for i, o := range ops {
		sep := ";"
		if i == len(ops)-1 {
			sep = ""
		}
		emit("  (%q, (%d, %d, %d, %d))%s", o.name, o.fn, o.body, o.ent, o.command, sep)
	}
	emit("]%%N.")
	// command -> operation variable returned by its Operation() method
	type cm struct{ cmd, op string }
	var cms []cm
	for _, path := range []string{"github.com/gebn/bmc/pkg/ipmi", "github.com/gebn/bmc/pkg/dcmi"} {
		p := ps.get(path)
		for _, f := range p.Syntax {
			for _, d := range f.Decls {
				fd, ok := d.(*ast.FuncDecl)
				if !ok || fd.Name.Name != "Operation" || fd.Recv == nil || fd.Body == nil {
					continue
				}
				t := fd.Recv.List[0].Type
				if s, ok := t.(*ast.StarExpr); ok {
					t = s.X
				}
				recv := t.(*ast.Ident).Name
				if len(fd.Body.List) != 1 {
					fail("%s.Operation: unexpected body", recv)
				}
				rs, ok := fd.Body.List[0].(*ast.ReturnStmt)
				if !ok || len(rs.Results) != 1 {
					fail("%s.Operation: unexpected body", recv)
				}
				u, ok := rs.Results[0].(*ast.UnaryExpr)
				if !ok {
					fail("%s.Operation: unexpected result", recv)
				}
				cms = append(cms, cm{recv, u.X.(*ast.Ident).Name})
			}
		}
	}
	sort.Slice(cms, func(i, j int) bool { return cms[i].cmd < cms[j].cmd })
	emit("Definition command_operation : list (string * string) := [")
	for i, c := range cms {
		sep := ";"
		if i == len(cms)-1 {
			sep = ""
		}
		emit("  (%q, %q)%s", c.cmd, c.op, sep)
	}
	emit("].")
}

// switchTable extracts `case <const>[, <const>]: return ...` tables of a function as (case value -> tokens of the result)
func caseValues(p *packages.Package, fd *ast.FuncDecl) [][]int64 {
	var res [][]int64
	ast.Inspect(fd.Body, func(n ast.Node) bool {
		cc, ok := n.(*ast.CaseClause)
		if !ok {
			return true
		}
		var vals []int64
		for _, e := range cc.List {
			v, ok := evalInt(p, e)
			if !ok {
				return true
			}
			vals = append(vals, v)
		}
		res = append(res, vals)
		return true
	})
	return res
}

func exprString(p *packages.Package, e ast.Expr) string {
	var b strings.Builder
	ast.Inspect(e, func(n ast.Node) bool {
		switch x := n.(type) {
		case *ast.Ident:
			b.WriteString(x.Name + " ")
		case *ast.BasicLit:
			b.WriteString(x.Value + " ")
		case *ast.UnaryExpr:
			b.WriteString(x.Op.String() + " ")
		case *ast.BinaryExpr:
			b.WriteString("(" + x.Op.String() + ") ")
		}
		return true
	})
	return strings.TrimSpace(b.String())
}

// algorithm tables: for each case of the switch the hash constructor named in the returned literal and the integer literal(s)
// switchFunc finds the (package-level, receiver-less) function whose body switches on a value of the named type: the
// function's own name is the author's choice and may change.
func switchFunc(p *packages.Package, tagType string) *ast.FuncDecl {
	for _, f := range p.Syntax {
		for _, d := range f.Decls {
			fd, ok := d.(*ast.FuncDecl)
			if !ok || fd.Body == nil || fd.Recv != nil {
				continue
			}
			found := false
			ast.Inspect(fd.Body, func(n ast.Node) bool {
				if sw, ok := n.(*ast.SwitchStmt); ok && sw.Tag != nil {
					if t := p.TypesInfo.TypeOf(sw.Tag); t != nil && strings.HasSuffix(t.String(), tagType) {
						found = true
					}
				}
				return !found
			})
			if found {
				return fd
			}
		}
	}
	return nil
}

// algRow is the normalised content of one alternative of an algorithm table: which hash constructor it names
// (1 = sha1.New, 2 = md5.New, 3 = sha256.New, 0 = none), the integer constants it mentions (literals or named
// constants, in source order) and whether it builds an error.
type algRow struct {
	keys []int64
	hash int64
	ints []int64
	err  bool
}

func scanAlg(p *packages.Package, nodes []ast.Node, row *algRow) {
	for _, nd := range nodes {
		ast.Inspect(nd, func(m ast.Node) bool {
			switch x := m.(type) {
			case *ast.SelectorExpr:
				if id, ok := x.X.(*ast.Ident); ok {
					switch {
					case x.Sel.Name == "New" && id.Name == "sha1":
						row.hash = 1
					case x.Sel.Name == "New" && id.Name == "md5":
						row.hash = 2
					case x.Sel.Name == "New" && id.Name == "sha256":
						row.hash = 3
					case (id.Name == "fmt" && x.Sel.Name == "Errorf") || (id.Name == "errors" && x.Sel.Name == "New"):
						row.err = true
					}
					if c, ok := p.TypesInfo.Uses[x.Sel].(*types.Const); ok {
						if v, exact := constant.Int64Val(constant.ToInt(c.Val())); exact && c.Val().Kind() == constant.Int {
							row.ints = append(row.ints, v)
						}
					}
				}
				return false
			case *ast.BasicLit:
				if x.Kind == token.INT {
					if v, ok := evalInt(p, x); ok {
						row.ints = append(row.ints, v)
					}
				}
			case *ast.Ident:
				if c, ok := p.TypesInfo.Uses[x].(*types.Const); ok && c.Val().Kind() == constant.Int {
					if v, exact := constant.Int64Val(constant.ToInt(c.Val())); exact {
						row.ints = append(row.ints, v)
					}
				}
			}
			return true
		})
	}
}

// algTable: the table of one algorithm family, whether written as a switch over the algorithm type in some function or
// as a package-level map keyed by it; rows sorted by key, the default alternative (no key) last.
func algTable(p *packages.Package, fn string, name string) {
	var rows []algRow
	if strings.HasPrefix(fn, "switch:") {
		tagType := fn[len("switch:"):]
		if fd := switchFunc(p, tagType); fd != nil {
			ast.Inspect(fd.Body, func(n ast.Node) bool {
				cc, ok := n.(*ast.CaseClause)
				if !ok {
					return true
				}
				var row algRow
				for _, e := range cc.List {
					v, ok := evalInt(p, e)
					if !ok {
						fail("%s: non-constant case", fn)
					}
					row.keys = append(row.keys, v)
				}
				var nodes []ast.Node
				for _, st := range cc.Body {
					nodes = append(nodes, st)
				}
				scanAlg(p, nodes, &row)
				rows = append(rows, row)
				return false
			})
		} else {
			// a package-level map keyed by the algorithm type
			found := false
			for _, f := range p.Syntax {
				for _, d := range f.Decls {
					gd, ok := d.(*ast.GenDecl)
					if !ok || gd.Tok != token.VAR {
						continue
					}
					for _, sp := range gd.Specs {
						vs := sp.(*ast.ValueSpec)
						for _, val := range vs.Values {
							cl, ok := val.(*ast.CompositeLit)
							if !ok {
								continue
							}
							mt, ok := p.TypesInfo.TypeOf(cl).Underlying().(*types.Map)
							if !ok || !strings.HasSuffix(mt.Key().String(), tagType) {
								continue
							}
							found = true
							for _, e := range cl.Elts {
								kv := e.(*ast.KeyValueExpr)
								k, ok := evalInt(p, kv.Key)
								if !ok {
									fail("%s: non-constant map key", fn)
								}
								row := algRow{keys: []int64{k}}
								scanAlg(p, []ast.Node{kv.Value}, &row)
								rows = append(rows, row)
							}
						}
					}
				}
			}
			if !found {
				fail("%s: neither a switch nor a map over %s", p.PkgPath, tagType)
			}
			rows = append(rows, algRow{err: true}) // a map has no default alternative: a miss is an error
		}
	} else {
		fd := findFunc(p, "", fn)
		ast.Inspect(fd.Body, func(n ast.Node) bool {
			cc, ok := n.(*ast.CaseClause)
			if !ok {
				return true
			}
			var row algRow
			for _, e := range cc.List {
				v, ok := evalInt(p, e)
				if !ok {
					fail("%s: non-constant case", fn)
				}
				row.keys = append(row.keys, v)
			}
			var nodes []ast.Node
			for _, st := range cc.Body {
				nodes = append(nodes, st)
			}
			scanAlg(p, nodes, &row)
			rows = append(rows, row)
			return false
		})
	}
	sort.SliceStable(rows, func(i, j int) bool {
		if len(rows[i].keys) == 0 || len(rows[j].keys) == 0 {
			return len(rows[j].keys) == 0 && len(rows[i].keys) != 0
		}
		return rows[i].keys[0] < rows[j].keys[0]
	})
	emit("Definition %s : list (list N * (N * list N * bool)) := [", name)
	var out []string
	for _, r := range rows {
		out = append(out, fmt.Sprintf("  (%s, (%d%%N, %s, %v))", nlist(r.keys), r.hash, nlist(r.ints), r.err))
	}
	emit("%s", strings.Join(out, ";\n"))
	emit("].")
}

func intList(p *packages.Package, vs *ast.ValueSpec, i int, what string) []int64 {
	cl, ok := vs.Values[i].(*ast.CompositeLit)
	if !ok {
		fail("%s: not a composite literal", what)
	}
	var res []int64
	for _, e := range cl.Elts {
		v, ok := evalInt(p, e)
		if !ok {
			fail("%s: non-constant element", what)
		}
		res = append(res, v)
	}
	return res
}

// sixteenRunes: the BCD-plus alphabet - the package-level table of pkg/ipmi with exactly 16 constant rune/byte elements
// (by name if it is still called bcdPlusRunes, else by shape)
func sixteenRunes(p *packages.Package) []int64 {
	var found [][]int64
	for _, f := range p.Syntax {
		for _, d := range f.Decls {
			gd, ok := d.(*ast.GenDecl)
			if !ok || gd.Tok != token.VAR {
				continue
			}
			for _, s := range gd.Specs {
				vs := s.(*ast.ValueSpec)
				for i := range vs.Names {
					if i >= len(vs.Values) {
						continue
					}
					cl, ok := vs.Values[i].(*ast.CompositeLit)
					if !ok || len(cl.Elts) != 16 {
						continue
					}
					var vals []int64
					for _, e := range cl.Elts {
						tv, ok := p.TypesInfo.Types[e]
						if !ok || tv.Value == nil {
							vals = nil
							break
						}
						if b, ok := tv.Type.Underlying().(*types.Basic); !ok || (b.Kind() != types.Int32 && b.Kind() != types.Uint8 && b.Kind() != types.UntypedRune) {
							vals = nil
							break
						}
						v, _ := evalInt(p, e)
						vals = append(vals, v)
					}
					if vals != nil {
						if vs.Names[i].Name == "bcdPlusRunes" {
							return vals
						}
						found = append(found, vals)
					}
				}
			}
		}
	}
	if len(found) == 1 {
		return found[0]
	}
	fail("BCD-plus alphabet: %d candidate tables", len(found))
	return nil
}

func nlist(xs []int64) string {
	var s []string
	for _, x := range xs {
		s = append(s, fmt.Sprint(x))
	}
	return "[" + strings.Join(s, "; ") + "]%N"
}

// footprint: package-level variables and every write to one outside declarations / init
func footprint(ps pkgs, paths []string) {
	emit("(* Footprint: package-level variables of the library and every write to one outside its declaration.")
	emit("   kind: assign / incdec / mapstore / append / addr (address taken) *)")
	type w struct{ pkg, v, fn, kind string }
	var vars []string
	var kinds [][2]string
	var writes []w
	var aliases []w
	for _, path := range paths {
		p := ps.get(path)
		globals := map[types.Object]bool{}
		for _, name := range p.Types.Scope().Names() {
			if v, ok := p.Types.Scope().Lookup(name).(*types.Var); ok {
				globals[v] = true
				vars = append(vars, path[strings.LastIndex(path, "/")+1:]+"."+name)
				kinds = append(kinds, [2]string{path[strings.LastIndex(path, "/")+1:] + "." + name, varKind(v.Type())})
			}
		}
		root := func(e ast.Expr) types.Object {
			for {
				switch x := e.(type) {
				case *ast.Ident:
					return p.TypesInfo.Uses[x]
				case *ast.IndexExpr:
					e = x.X
				case *ast.SelectorExpr:
					// pkg-qualified or field: follow X for fields of a global struct
					if o := p.TypesInfo.Uses[x.Sel]; o != nil && globals[o] {
						return o
					}
					e = x.X
				case *ast.StarExpr:
					e = x.X
				case *ast.ParenExpr:
					e = x.X
				default:
					return nil
				}
			}
		}
		for _, f := range p.Syntax {
			if strings.HasSuffix(p.Fset.Position(f.Pos()).Filename, "verif_hooks.go") {
				continue
			}
			for _, d := range f.Decls {
				fd, ok := d.(*ast.FuncDecl)
				if !ok || fd.Body == nil {
					continue
				}
				fname := fd.Name.Name
				if fd.Recv != nil && len(fd.Recv.List) > 0 {
					t := fd.Recv.List[0].Type
					if s, ok := t.(*ast.StarExpr); ok {
						t = s.X
					}
					if id, ok := t.(*ast.Ident); ok {
						fname = id.Name + "." + fname
					}
				}
				short := path[strings.LastIndex(path, "/")+1:]
				aliasRows(p, globals, fd, short, fname, func(v, kind string) { aliases = append(aliases, w{short, v, fname, kind}) })
				ast.Inspect(fd.Body, func(n ast.Node) bool {
					switch x := n.(type) {
					case *ast.AssignStmt:
						for _, l := range x.Lhs {
							if o := root(l); o != nil && globals[o] {
								kind := "assign"
								if _, ok := l.(*ast.IndexExpr); ok {
									kind = "mapstore"
								}
								writes = append(writes, w{short, o.Name(), fname, kind})
							}
						}
					case *ast.IncDecStmt:
						if o := root(x.X); o != nil && globals[o] {
							writes = append(writes, w{short, o.Name(), fname, "incdec"})
						}
					case *ast.UnaryExpr:
						if x.Op == token.AND {
							if o := root(x.X); o != nil && globals[o] {
								writes = append(writes, w{short, o.Name(), fname, "addr"})
							}
						}
					}
					return true
				})
			}
		}
	}
	sort.Strings(vars)
	emit("Definition package_vars : list string := [")
	for i, v := range vars {
		sep := ";"
		if i == len(vars)-1 {
			sep = ""
		}
		emit("  %q%s", v, sep)
	}
	emit("].")
	sort.Slice(kinds, func(i, j int) bool { return kinds[i][0] < kinds[j][0] })
	emit("(* the shape of each package-level variable: value (no pointers inside), map, slice, func, pointer, interface, chan,")
	emit("   sync (anything from sync or sync/atomic: a pool, a mutex, a counter) *)")
	emit("Definition package_var_kinds : list (string * string) := [")
	for i, k := range kinds {
		sep := ";"
		if i == len(kinds)-1 {
			sep = ""
		}
		emit("  (%q, %q)%s", k[0], k[1], sep)
	}
	emit("].")
	sort.Slice(writes, func(i, j int) bool {
		a, b := writes[i], writes[j]
		return a.pkg+a.v+a.fn+a.kind < b.pkg+b.v+b.fn+b.kind
	})
	emit("Definition global_writes : list (string * string * string * string) := [")
	var rows []string
	seen := map[string]bool{}
	for _, x := range writes {
		r := fmt.Sprintf("  (%q, %q, %q, %q)", x.pkg, x.v, x.fn, x.kind)
		if !seen[r] {
			seen[r] = true
			rows = append(rows, r)
		}
	}
	emit("%s", strings.Join(rows, ";\n"))
	emit("].")
	emit("(* Aliases: uses of package-level variables of reference type (slice, map, pointer, channel), directly or through a")
	emit("   local variable assigned from one, in a position from which the shared backing store can be written:")
	emit("   arg:<callee> / store / append / addr / return / alias (the assignment to the local itself) *)")
	sort.Slice(aliases, func(i, j int) bool {
		a, b := aliases[i], aliases[j]
		return a.pkg+a.v+a.fn+a.kind < b.pkg+b.v+b.fn+b.kind
	})
	emit("Definition global_aliases : list (string * string * string * string) := [")
	rows = nil
	seen = map[string]bool{}
	for _, x := range aliases {
		r := fmt.Sprintf("  (%q, %q, %q, %q)", x.pkg, x.v, x.fn, x.kind)
		if !seen[r] {
			seen[r] = true
			rows = append(rows, r)
		}
	}
	emit("%s", strings.Join(rows, ";\n"))
	emit("].")
}

// paramWrites lists, for the package that holds the drivers and procedures (bmc), every place where a function writes THROUGH a
// parameter other than its receiver - a field, element or pointee of a pointer / slice / map the caller handed in - or
// re-slices a slice parameter to length zero (p[:0]: appending to that overwrites the caller's elements).  One
// level of local aliasing (x := p; x.f = ...) is followed.  (function, parameter path, kind: assign / incdec / reslice)
func paramWrites(ps pkgs, paths []string) {
	emit("(* writes through parameters other than the receiver (the caller's own values): function, parameter, kind *)")
	type row struct{ fn, v, kind string }
	var rows []row
	var cmdIface *types.Interface
	if o := ps.get("github.com/gebn/bmc/pkg/ipmi").Types.Scope().Lookup("Command"); o != nil {
		cmdIface, _ = o.Type().Underlying().(*types.Interface)
	}
	for _, path := range paths {
		p := ps.get(path)
		short := path[strings.LastIndex(path, "/")+1:]
		for _, f := range p.Syntax {
			if strings.HasSuffix(p.Fset.Position(f.Pos()).Filename, "_test.go") || strings.Contains(p.Fset.Position(f.Pos()).Filename, "verif_hooks") {
				continue
			}
			for _, d := range f.Decls {
				fd, ok := d.(*ast.FuncDecl)
				if !ok || fd.Body == nil {
					continue
				}
				fname := fd.Name.Name
				if fd.Recv != nil && len(fd.Recv.List) > 0 {
					fname = exprString(p, fd.Recv.List[0].Type) + "." + fname
				}
				params := map[types.Object]string{}
				for _, fl := range fd.Type.Params.List {
					for _, n := range fl.Names {
						o := p.TypesInfo.Defs[n]
						if o == nil {
							continue
						}
						// (a command value is the one thing a caller hands over TO BE written: requests are set by the
						// helpers that walk a repository, the response is decoded into it)
						if cmdIface != nil && types.Implements(o.Type(), cmdIface) {
							continue
						}
						switch o.Type().Underlying().(type) {
						case *types.Pointer, *types.Slice, *types.Map:
							params[o] = n.Name
						}
					}
				}
				if len(params) == 0 {
					continue
				}
				// one level of aliasing: x := p  /  x = p
				ast.Inspect(fd.Body, func(n ast.Node) bool {
					if as, ok := n.(*ast.AssignStmt); ok && len(as.Lhs) == len(as.Rhs) {
						for i, r := range as.Rhs {
							if id, ok := r.(*ast.Ident); ok {
								if pn, isp := params[p.TypesInfo.Uses[id]]; isp {
									if l, ok := as.Lhs[i].(*ast.Ident); ok {
										if o := p.TypesInfo.Defs[l]; o != nil {
											params[o] = pn
										} else if o := p.TypesInfo.Uses[l]; o != nil {
											if _, self := params[o]; !self {
												params[o] = pn
											}
										}
									}
								}
							}
						}
					}
					return true
				})
				rootOf := func(e ast.Expr) (string, bool) {
					depth := 0
					for {
						switch x := e.(type) {
						case *ast.Ident:
							if pn, ok := params[p.TypesInfo.Uses[x]]; ok && depth > 0 {
								return pn, true
							}
							return "", false
						case *ast.IndexExpr:
							e = x.X
						case *ast.SelectorExpr:
							e = x.X
						case *ast.StarExpr:
							e = x.X
						case *ast.ParenExpr:
							e = x.X
							continue
						default:
							return "", false
						}
						depth++
					}
				}
				ast.Inspect(fd.Body, func(n ast.Node) bool {
					switch x := n.(type) {
					case *ast.AssignStmt:
						for _, l := range x.Lhs {
							if pn, ok := rootOf(l); ok {
								rows = append(rows, row{short + "." + fname, pn + ":" + exprString(p, l), "assign"})
							}
						}
					case *ast.IncDecStmt:
						if pn, ok := rootOf(x.X); ok {
							rows = append(rows, row{short + "." + fname, pn + ":" + exprString(p, x.X), "incdec"})
						}
					case *ast.SliceExpr:
						hi, hiok := evalInt(p, x.High)
						if id, ok := x.X.(*ast.Ident); ok && x.Low == nil && x.High != nil && hiok && hi == 0 {
							if pn, isp := params[p.TypesInfo.Uses[id]]; isp {
								if _, isSlice := p.TypesInfo.TypeOf(id).Underlying().(*types.Slice); isSlice {
									rows = append(rows, row{short + "." + fname, pn + ":" + exprString(p, x), "reslice"})
								}
							}
						}
					}
					return true
				})
			}
		}
	}
	sort.Slice(rows, func(i, j int) bool { return rows[i].fn+rows[i].v+rows[i].kind < rows[j].fn+rows[j].v+rows[j].kind })
	emit("Definition param_writes : list (string * string * string) := [")
	var out []string
	seen := map[string]bool{}
	for _, r := range rows {
		t := fmt.Sprintf("  (%q, %q, %q)", r.fn, r.v, r.kind)
		if !seen[t] {
			seen[t] = true
			out = append(out, t)
		}
	}
	emit("%s", strings.Join(out, ";\n"))
	emit("].")
}

// varKind classifies a package-level variable by what sharing it between goroutines can mean.
func varKind(t types.Type) string {
	var hasSync func(t types.Type, depth int) bool
	hasSync = func(t types.Type, depth int) bool {
		if depth > 6 {
			return false
		}
		if n, ok := t.(*types.Named); ok && n.Obj().Pkg() != nil {
			if pp := n.Obj().Pkg().Path(); pp == "sync" || pp == "sync/atomic" {
				return true
			}
		}
		switch u := t.Underlying().(type) {
		case *types.Struct:
			for i := 0; i < u.NumFields(); i++ {
				if hasSync(u.Field(i).Type(), depth+1) {
					return true
				}
			}
		case *types.Pointer:
			return hasSync(u.Elem(), depth+1)
		case *types.Array:
			return hasSync(u.Elem(), depth+1)
		}
		return false
	}
	if hasSync(t, 0) {
		return "sync"
	}
	// Prometheus collectors (and structs / pointers to structs made only of them): safe for concurrent use by the
	// client library's contract, and commutative (C19_counters)
	var onlyMetrics func(t types.Type, depth int) bool
	onlyMetrics = func(t types.Type, depth int) bool {
		if depth > 4 {
			return false
		}
		if n, ok := t.(*types.Named); ok && n.Obj().Pkg() != nil && strings.HasPrefix(n.Obj().Pkg().Path(), "github.com/prometheus/client_golang/prometheus") {
			return true
		}
		switch u := t.Underlying().(type) {
		case *types.Pointer:
			return onlyMetrics(u.Elem(), depth+1)
		case *types.Struct:
			if u.NumFields() == 0 {
				return false
			}
			for i := 0; i < u.NumFields(); i++ {
				if !onlyMetrics(u.Field(i).Type(), depth+1) {
					return false
				}
			}
			return true
		}
		return false
	}
	if _, named := t.(*types.Named); !named || !strings.HasPrefix(t.String(), "github.com/prometheus") {
		if _, isPtrOrStruct := t.Underlying().(*types.Interface); !isPtrOrStruct && onlyMetrics(t, 0) {
			return "metric"
		}
	}
	if t.String() == "error" {
		return "error" // a sentinel error value
	}
	switch u := t.Underlying().(type) {
	case *types.Map:
		return "map"
	case *types.Slice:
		return "slice"
	case *types.Signature:
		return "func"
	case *types.Pointer:
		return "pointer"
	case *types.Interface:
		return "interface"
	case *types.Chan:
		return "chan"
	case *types.Struct:
		for i := 0; i < u.NumFields(); i++ {
			if k := varKind(u.Field(i).Type()); k != "value" {
				return k
			}
		}
	}
	return "value"
}

func isRefType(t types.Type) bool {
	switch t.Underlying().(type) {
	case *types.Slice, *types.Map, *types.Pointer, *types.Chan:
		return true
	}
	return false
}

// aliasRows reports, for one function, every use of a package-level variable of reference type - or of a local
// variable assigned from one (one level of aliasing, flow-insensitive, to a fixpoint) - that can lead to a write
// of the shared backing store.
func aliasRows(p *packages.Package, globals map[types.Object]bool, fd *ast.FuncDecl, short, fname string, add func(v, kind string)) {
	obj := func(id *ast.Ident) types.Object {
		if o := p.TypesInfo.Uses[id]; o != nil {
			return o
		}
		return p.TypesInfo.Defs[id]
	}
	tainted := map[types.Object]string{} // local -> name of the global it may alias
	// the value expression denotes the variable's backing store: the variable itself or a slice of it
	var source func(e ast.Expr) (string, bool)
	source = func(e ast.Expr) (string, bool) {
		switch x := e.(type) {
		case *ast.ParenExpr:
			return source(x.X)
		case *ast.SliceExpr:
			return source(x.X)
		case *ast.Ident:
			o := obj(x)
			if o == nil {
				return "", false
			}
			if globals[o] && isRefType(o.Type()) {
				return o.Name(), true
			}
			if g, ok := tainted[o]; ok {
				return g, true
			}
		case *ast.SelectorExpr:
			if o := p.TypesInfo.Uses[x.Sel]; o != nil && globals[o] && isRefType(o.Type()) {
				return o.Name(), true
			}
		}
		return "", false
	}
	for changed := true; changed; {
		changed = false
		ast.Inspect(fd.Body, func(n ast.Node) bool {
			switch x := n.(type) {
			case *ast.AssignStmt:
				if len(x.Lhs) == len(x.Rhs) {
					for i, l := range x.Lhs {
						if id, ok := l.(*ast.Ident); ok {
							if g, ok := source(x.Rhs[i]); ok {
								if o := obj(id); o != nil && !globals[o] {
									if _, have := tainted[o]; !have {
										tainted[o] = g
										changed = true
									}
								}
							}
						}
					}
				}
			case *ast.ValueSpec:
				if len(x.Names) == len(x.Values) {
					for i, id := range x.Names {
						if g, ok := source(x.Values[i]); ok {
							if o := obj(id); o != nil {
								if _, have := tainted[o]; !have {
									tainted[o] = g
									changed = true
								}
							}
						}
					}
				}
			}
			return true
		})
	}
	for o, g := range tainted {
		_ = o
		add(g, "alias")
	}
	calleeName := func(c *ast.CallExpr) string {
		switch f := c.Fun.(type) {
		case *ast.Ident:
			return f.Name
		case *ast.SelectorExpr:
			if x, ok := f.X.(*ast.Ident); ok {
				return x.Name + "." + f.Sel.Name
			}
			return f.Sel.Name
		case *ast.IndexExpr: // generic instantiation
			if s, ok := f.X.(*ast.SelectorExpr); ok {
				if x, ok := s.X.(*ast.Ident); ok {
					return x.Name + "." + s.Sel.Name
				}
			}
		}
		return "?"
	}
	ast.Inspect(fd.Body, func(n ast.Node) bool {
		switch x := n.(type) {
		case *ast.AssignStmt:
			for _, l := range x.Lhs {
				if ix, ok := l.(*ast.IndexExpr); ok {
					if g, ok := source(ix.X); ok {
						if id, isId := ix.X.(*ast.Ident); !isId || !globals[obj(id)] { // direct stores are in global_writes
							add(g, "store")
						}
					}
				}
			}
		case *ast.CallExpr:
			name := calleeName(x)
			for i, a := range x.Args {
				g, ok := source(a)
				if !ok {
					continue
				}
				switch {
				case name == "len" || name == "cap":
				case name == "append" && i == 0:
					add(g, "append")
				case name == "copy" && i == 0:
					add(g, "store")
				case name == "copy":
				default:
					add(g, "arg:"+name)
				}
			}
		case *ast.UnaryExpr:
			if x.Op == token.AND {
				if ix, ok := x.X.(*ast.IndexExpr); ok {
					if g, ok := source(ix.X); ok {
						add(g, "addr")
					}
				}
			}
		case *ast.ReturnStmt:
			for _, r := range x.Results {
				if g, ok := source(r); ok {
					add(g, "return")
				}
			}
		}
		return true
	})
}

func main() {
	repo := flag.String("repo", "/repo", "repository root")
	outp := flag.String("out", "Generated.v", "output file")
	flag.Parse()
	cfg := &packages.Config{Mode: packages.NeedName | packages.NeedFiles | packages.NeedSyntax | packages.NeedTypes | packages.NeedTypesInfo | packages.NeedImports | packages.NeedDeps,
		Dir: *repo, Env: append(os.Environ(), "GOFLAGS=-mod=mod", "GOPROXY=off", "GOSUMDB=off", "GOTOOLCHAIN=local")}
	loaded, err := packages.Load(cfg, "github.com/gebn/bmc", "github.com/gebn/bmc/pkg/ipmi", "github.com/gebn/bmc/pkg/dcmi",
		"github.com/gebn/bmc/internal/pkg/transport", "github.com/gebn/bmc/pkg/layerexts", "github.com/gebn/bmc/pkg/iana",
		"github.com/gebn/bmc/internal/pkg/bcd", "github.com/gebn/bmc/internal/pkg/complement")
	if err != nil {
		fatal("load: %v", err)
	}
	ps := pkgs{}
	for _, p := range loaded {
		if len(p.Errors) > 0 {
			fatal("package %s: %v", p.PkgPath, p.Errors[0])
		}
		ps[p.PkgPath] = p
	}
	root, ipmi, dcmi := ps.get("github.com/gebn/bmc"), ps.get("github.com/gebn/bmc/pkg/ipmi"), ps.get("github.com/gebn/bmc/pkg/dcmi")

	emit("(* Generated.v - GENERATED from /repo by /verif/gen on every run; do not edit. *)")
	emit("From Coq Require Import List NArith String.")
	emit("Import ListNotations.")
	emit("Open Scope string_scope.")
	emit("")
	// enumerations
	emit("(* constants *)")
	for _, c := range []struct {
		p    *packages.Package
		name string
	}{
		{ipmi, "NetworkFunctionChassisReq"}, {ipmi, "NetworkFunctionSensorReq"}, {ipmi, "NetworkFunctionAppReq"},
		{ipmi, "NetworkFunctionStorageReq"}, {ipmi, "NetworkFunctionGroupReq"}, {ipmi, "NetworkFunctionGroupRsp"},
		{ipmi, "NetworkFunctionOEMReq"}, {ipmi, "NetworkFunctionOEMRsp"},
		{ipmi, "PayloadTypeIPMI"}, {ipmi, "PayloadTypeOEM"}, {ipmi, "PayloadTypeOpenSessionReq"}, {ipmi, "PayloadTypeOpenSessionRsp"},
		{ipmi, "PayloadTypeRAKPMessage1"}, {ipmi, "PayloadTypeRAKPMessage2"}, {ipmi, "PayloadTypeRAKPMessage3"}, {ipmi, "PayloadTypeRAKPMessage4"},
		{ipmi, "CompletionCodeNormal"}, {ipmi, "CompletionCodeNodeBusy"}, {ipmi, "CompletionCodeTimeout"}, {ipmi, "StatusCodeOK"},
		{ipmi, "AuthenticationAlgorithmNone"}, {ipmi, "AuthenticationAlgorithmHMACSHA1"}, {ipmi, "AuthenticationAlgorithmHMACMD5"}, {ipmi, "AuthenticationAlgorithmHMACSHA256"},
		{ipmi, "IntegrityAlgorithmNone"}, {ipmi, "IntegrityAlgorithmHMACSHA196"}, {ipmi, "IntegrityAlgorithmHMACMD5128"}, {ipmi, "IntegrityAlgorithmHMACSHA256128"},
		{ipmi, "ConfidentialityAlgorithmNone"}, {ipmi, "ConfidentialityAlgorithmAESCBC128"},
		{ipmi, "LinearisationLinear"}, {ipmi, "LinearisationNonLinear"}, {ipmi, "LinearisationCubeRt"},
		{ipmi, "AnalogDataFormatUnsigned"}, {ipmi, "AnalogDataFormatOnesComplement"}, {ipmi, "AnalogDataFormatTwosComplement"}, {ipmi, "AnalogDataFormatNotAnalog"},
		{ipmi, "RecordTypeFullSensor"}, {ipmi, "RecordIDFirst"}, {ipmi, "RecordIDLast"}, {ipmi, "BodyCodeDCMI"},
		{ipmi, "SessionIndexHandle"}, {ipmi, "SessionIndexID"}, {ipmi, "ChannelPresentInterface"}, {ipmi, "PrivilegeLevelCallback"},
		{ipmi, "EntityIDAirInlet"}, {ipmi, "EntityIDProcessor"}, {ipmi, "EntityIDSystemBoard"},
		{ipmi, "EntityIDDCMIAirInlet"}, {ipmi, "EntityIDDCMIProcessor"}, {ipmi, "EntityIDDCMISystemBoard"}, {ipmi, "SensorTypeTemperature"},
		{ipmi, "SlaveAddressBMC"}, {ipmi, "SoftwareIDRemoteConsole1"}, {ipmi, "AuthenticationTypeRMCPPlus"}, {ipmi, "AuthenticationTypeNone"},
		{dcmi, "SystemPowerStatisticsModeEnhanced"},
	} {
		c := c
		section([]def{{c.name, "N", missingN}}, func() { emit("Definition %s : N := %d%%N.", c.name, constVal(c.p, c.name)) })
	}
	emit("")
	section([]def{{"operations", "list (string * (N * N * N * N))", "[]"}, {"command_operation", "list (string * string)", "[]"}},
		func() { operations(ps) })
	emit("")
	// cipher suites
	for _, n := range []string{"CipherSuite3", "CipherSuite17"} {
		n := n
		section([]def{{n, "N * N * N", "(255, 255, 255)%N"}}, func() {
			vs, i := findVar(ipmi, n)
			m := structLit(ipmi, vs.Values[i])
			emit("Definition %s : N * N * N := (%d, %d, %d)%%N.", n, m["AuthenticationAlgorithm"], m["IntegrityAlgorithm"], m["ConfidentialityAlgorithm"])
		})
	}
	section([]def{{"defaultCipherSuites", "list (N * N * N)", "[]"}}, func() {
		vs, i := findVar(root, "defaultCipherSuites")
		cl := vs.Values[i].(*ast.CompositeLit)
		var names []string
		for _, e := range cl.Elts {
			names = append(names, e.(*ast.SelectorExpr).Sel.Name)
		}
		emit("Definition defaultCipherSuites : list (N * N * N) := [%s].", strings.Join(names, "; "))
	})
	emit("")
	emit("(* algorithm tables: case values and the identifiers / integer literals of the case body *)")
	for _, t := range []struct {
		p        *packages.Package
		fn, name string
	}{{root, "switch:ipmi.AuthenticationAlgorithm", "auth_table"}, {root, "switch:ipmi.IntegrityAlgorithm", "integrity_table"},
		{root, "switch:ipmi.ConfidentialityAlgorithm", "confidentiality_table"}, {dcmi, "secondsMultiplier", "seconds_multiplier_table"}} {
		t := t
		section([]def{{t.name, "list (list N * (N * list N * bool))", "[]"}}, func() { algTable(t.p, t.fn, t.name) })
	}
	emit("")
	// temporary completion codes: the constants compared in IsTemporary
	section([]def{{"temporary_codes", "list N", "[]"}}, func() {
		fd := findFunc(ipmi, "CompletionCode", "IsTemporary")
		var codes []int64
		ast.Inspect(fd.Body, func(n ast.Node) bool {
			switch x := n.(type) {
			case *ast.BinaryExpr:
				if x.Op == token.EQL {
					if v, ok := evalInt(ipmi, x.Y); ok {
						codes = append(codes, v)
					}
				}
			case *ast.CaseClause:
				returnsTrue := false
				for _, st := range x.Body {
					if r, ok := st.(*ast.ReturnStmt); ok && len(r.Results) == 1 {
						if id, ok := r.Results[0].(*ast.Ident); ok && id.Name == "true" {
							returnsTrue = true
						}
					}
				}
				if returnsTrue {
					for _, e := range x.List {
						if v, ok := evalInt(ipmi, e); ok {
							codes = append(codes, v)
						}
					}
				}
			}
			return true
		})
		if len(codes) == 0 {
			fail("IsTemporary: no compared constants found")
		}
		sort.Slice(codes, func(i, j int) bool { return codes[i] < codes[j] })
		emit("Definition temporary_codes : list N := %s.", nlist(codes))
	})
	// kConstantLength
	section([]def{{"kConstantLength", "N", missingN}}, func() {
		fd := findFunc(root, "additionalKeyMaterialGenerator", "K")
		var v int64 = -1
		ast.Inspect(fd.Body, func(n ast.Node) bool {
			if vs, ok := n.(*ast.ValueSpec); ok && len(vs.Names) == 1 && vs.Names[0].Name == "kConstantLength" {
				if x, ok := evalInt(root, vs.Values[0]); ok {
					v = x
				}
			}
			return true
		})
		if v < 0 {
			// hoisted to package level
			if c, ok := root.Types.Scope().Lookup("kConstantLength").(*types.Const); ok {
				if x, exact := constant.Int64Val(constant.ToInt(c.Val())); exact {
					v = x
				}
			}
		}
		if v < 0 {
			fail("kConstantLength not found")
		}
		emit("Definition kConstantLength : N := %d%%N.", v)
	})
	// bcdPlusRunes
	section([]def{{"bcdPlusRunes", "list N", "[]"}}, func() {
		emit("Definition bcdPlusRunes : list N := %s.", nlist(sixteenRunes(ipmi)))
	})
	// map key -> function name tables
	for _, t := range []struct{ v, name string }{{"linearisationLinearisers", "linearisers"}} {
		t := t
		section([]def{{t.name, "list (N * string)", "[]"}}, func() {
			vs, i := findVar(ipmi, t.v)
			cl := vs.Values[i].(*ast.CompositeLit)
			var rows []string
			for _, e := range cl.Elts {
				kv := e.(*ast.KeyValueExpr)
				k, ok := evalInt(ipmi, kv.Key)
				if !ok {
					fail("%s: non-constant key", t.v)
				}
				rows = append(rows, fmt.Sprintf("(%d%%N, %q)", k, exprString(ipmi, kv.Value)))
			}
			emit("Definition %s : list (N * string) := [%s].", t.name, strings.Join(rows, "; "))
		})
	}
	// DCMI entity lists
	section([]def{{"entity_groups", "list (list N)", "[]"}}, func() {
		// every package-level composite literal of pkg/dcmi whose elements are all ipmi.EntityID constants (the entity
		// families GetSensorInfo enumerates), whatever the variables are called and however they are grouped
		var groups []string
		for _, f := range dcmi.Syntax {
			for _, d := range f.Decls {
				gd, ok := d.(*ast.GenDecl)
				if !ok || gd.Tok != token.VAR {
					continue
				}
				ast.Inspect(gd, func(n ast.Node) bool {
					cl, ok := n.(*ast.CompositeLit)
					if !ok || len(cl.Elts) == 0 {
						return true
					}
					var vals []int64
					for _, e := range cl.Elts {
						if kv, ok := e.(*ast.KeyValueExpr); ok {
							e = kv.Value
						}
						tv, ok := dcmi.TypesInfo.Types[e]
						if !ok || tv.Value == nil || !strings.HasSuffix(tv.Type.String(), "ipmi.EntityID") {
							return true
						}
						v, _ := evalInt(dcmi, e)
						vals = append(vals, v)
					}
					groups = append(groups, nlist(vals))
					return true
				})
			}
		}
		sort.Strings(groups)
		emit("Definition entity_groups : list (list N) := [%s].", strings.Join(groups, "; "))
	})
	section([]def{{"sdr_length_consts", "list N", "[]"}, {"sdr_offset_consts", "list N", "[]"}, {"sdr_max_consts", "list N", "[]"}}, func() {
		// the constants the SDR walk puts into the Length / Offset fields of a Get SDR request, and the constants a record
		// header's length is compared with - by the types of the fields, not by the names of constants or functions
		sets := map[string]map[int64]bool{"Length": {}, "Offset": {}, "max": {}}
		isReqField := func(e ast.Expr) string {
			se, ok := e.(*ast.SelectorExpr)
			if !ok {
				return ""
			}
			if sel, ok := root.TypesInfo.Selections[se]; ok && strings.HasSuffix(sel.Recv().String(), "ipmi.GetSDRReq") {
				return se.Sel.Name
			}
			return ""
		}
		for _, f := range root.Syntax {
			if strings.Contains(root.Fset.Position(f.Pos()).Filename, "verif_hooks") {
				continue
			}
			ast.Inspect(f, func(n ast.Node) bool {
				switch x := n.(type) {
				case *ast.CompositeLit:
					if tv, ok := root.TypesInfo.Types[x]; ok && strings.HasSuffix(tv.Type.String(), "ipmi.GetSDRReq") {
						for _, e := range x.Elts {
							if kv, ok := e.(*ast.KeyValueExpr); ok {
								if id, ok := kv.Key.(*ast.Ident); ok && sets[id.Name] != nil {
									if v, ok := evalInt(root, kv.Value); ok {
										sets[id.Name][v] = true
									}
								}
							}
						}
					}
				case *ast.AssignStmt:
					for i, l := range x.Lhs {
						if fld := isReqField(l); sets[fld] != nil && fld != "" && i < len(x.Rhs) {
							if v, ok := evalInt(root, x.Rhs[i]); ok {
								sets[fld][v] = true
							}
						}
					}
				case *ast.BinaryExpr:
					if x.Op == token.GTR || x.Op == token.GEQ || x.Op == token.LSS || x.Op == token.LEQ {
						for _, pair := range [][2]ast.Expr{{x.X, x.Y}, {x.Y, x.X}} {
							if se, ok := pair[0].(*ast.SelectorExpr); ok && se.Sel.Name == "Length" {
								if sel, ok := root.TypesInfo.Selections[se]; ok && strings.HasSuffix(sel.Recv().String(), "ipmi.SDR") {
									if v, ok := evalInt(root, pair[1]); ok {
										sets["max"][v] = true
									}
								}
							}
						}
					}
				}
				return true
			})
		}
		for _, k := range []struct{ key, name string }{{"Length", "sdr_length_consts"}, {"Offset", "sdr_offset_consts"}, {"max", "sdr_max_consts"}} {
			var vs []int64
			for v := range sets[k.key] {
				vs = append(vs, v)
			}
			sort.Slice(vs, func(i, j int) bool { return vs[i] < vs[j] })
			emit("Definition %s : list N := %s.", k.name, nlist(vs))
		}
	})
	emit("")
	section([]def{{"package_vars", "list string", "[]"}, {"package_var_kinds", "list (string * string)", `[("?", "?")]`}, {"global_writes", "list (string * string * string * string)", `[("?", "?", "?", "?")]`},
		{"global_aliases", "list (string * string * string * string)", `[("?", "?", "?", "?")]`}}, func() {
		footprint(ps, []string{"github.com/gebn/bmc", "github.com/gebn/bmc/pkg/ipmi", "github.com/gebn/bmc/pkg/dcmi",
			"github.com/gebn/bmc/internal/pkg/transport", "github.com/gebn/bmc/pkg/layerexts", "github.com/gebn/bmc/pkg/iana",
			"github.com/gebn/bmc/internal/pkg/bcd", "github.com/gebn/bmc/internal/pkg/complement"})
	})
	emit("")
	section([]def{{"param_writes", "list (string * string * string)", `[("?", "?", "?")]`}}, func() {
		paramWrites(ps, []string{"github.com/gebn/bmc"})
	})
	if len(warnings) > 0 {
		emit("(* %d section(s) could not be read from the source *)", len(warnings))
	}
	if err := os.WriteFile(*outp, []byte(out.String()), 0o644); err != nil {
		fatal("%v", err)
	}
}
