#!/bin/sh
# evaluation aid (not used by any registered command): an isolated copy of /verif and /repo under <dir>, with every
# /repo and /verif path rewritten, so that seeded / harmless evaluations can run side by side with other work.
# usage: mk_eval_copy.sh <dir>     -> <dir>/verif, <dir>/repo        (remove <dir> when done)
set -e
d=$1
[ -n "$d" ] || { echo "usage: $0 <dir>"; exit 1; }
rm -rf "$d"; mkdir -p "$d"
git clone -q /repo "$d/repo"
rsync -a --exclude .git --exclude replays --exclude 'harness/harness*' /verif/ "$d/verif/"
mkdir -p "$d/verif/replays"
cd "$d/verif"
sed -i "s#/repo#$d/repo#g" vlib/core.py harness/build.sh harness/go.mod tools/run_harmless.sh tools/run_seeded.sh tools/run_all.sh
sed -i "s#/verif#$d/verif#g" tools/run_harmless.sh tools/run_seeded.sh tools/run_all.sh
grep -rn "/repo\b" vlib/*.py | grep -v "$d" | grep -v '"""\|#\|RULE\|assum\|"hand\|"Go h\|spec tables' | head
echo "copy ready in $d"
