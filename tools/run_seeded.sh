#!/bin/sh
# apply each seeded change to /repo, run the quick check of its property (and any further checks named in
# EXTRA_<id>), undo; one line per change.   usage: run_seeded.sh [ids...]   (reads /verif/seeded/<id>/<m>/patch.diff)
cd /verif
ids=${@:-C01 C02 C03 C04 C05 C06 C07 C08 C09 C10 C11 C12 C13 C14 C15 C16 C17 C18 C19 C20}
for id in $ids; do
  for m in ${MS:-m1 m2 m3 m4 m5 m6}; do
    d=/verif/seeded/$id/$m/patch.diff
    [ -f "$d" ] || continue
    git -C /repo apply "$d" || { echo "$id $m APPLY-FAILED"; continue; }
    out=$(timeout 1800 ./check $id --tier quick 2>&1 | grep -E "VIOLATION|quick:" | tr '\n' ' ')
    git -C /repo checkout -- . ; git -C /repo clean -fdq
    case "$out" in *VIOLATION*) r=CAUGHT;; *) r=MISSED;; esac
    echo "$id $m $r :: $out"
  done
done
