#!/usr/bin/env python3
"""import_seeded.py <dir with m<k>.diff, m<k>_demo_test.go, m<k>.txt> <property id> <m<k>> :
confirm the change in a scratch worktree (tools/confirm_seeded.py) and, if confirmed, keep it under seeded/<id>/<m>/"""
import json, os, re, shutil, subprocess, sys
src, pid, m = sys.argv[1:4]
out = subprocess.run([sys.executable, "/verif/tools/confirm_seeded.py", src, pid, m], stdout=subprocess.PIPE, text=True).stdout.strip().split("\n")[-1]
r = json.loads(out)
if not r.get("confirmed"):
    print("NOT CONFIRMED", pid, m, json.dumps(r)[:600]); sys.exit(1)
d = "/verif/seeded/%s/%s" % (pid, m)
os.makedirs(d, exist_ok=True)
shutil.copy("%s/%s.diff" % (src, m), d + "/patch.diff")
shutil.copy("%s/%s_demo_test.go" % (src, m), d + "/demo_test.go.txt")
txt = open("%s/%s.txt" % (src, m)).read()
open(d + "/description.txt", "w").write(txt)
start = re.compile(r'(?i)^[ \t]*(what is needed|needs? to manifest|needed to manifest|needed for it to manifest|circumstances|what it needs|needs\b|manifests?\b|trigger|when it (shows|manifests))')
stop = re.compile(r'(?i)^[ \t]*(observed|demo|mechanism|full suite|why|change|how|result|with m|without m|unchanged|what stays)')
acc = None
for l in txt.split("\n"):
    if acc is None:
        if start.match(l): acc = [l]
    else:
        if stop.match(l) or not l.strip(): break
        acc.append(l)
meta = {"property": pid, "id": "%s-%s" % (pid, m), "round": int(m[1:]) // 2 + (1 if int(m[1:]) % 2 else 0),
        "origin": "fresh sub-agent given only the property text and a scratch worktree of /repo",
        "summary": txt.strip().split("\n")[0][:300],
        "needs_to_manifest": " ".join(" ".join(acc).split()) if acc else None,
        "confirmed_by": "tools/confirm_seeded.py in a scratch worktree of /repo (removed afterwards)",
        "what_i_ran": {"apply": "git apply patch.diff", "build": "go build ./... && go build -tags verif ./...",
                       "suite": "go test -vet=off -count=1 ./... (passes with the change)",
                       "demo": r["demo_cmd"] + " (demo_test.go.txt copied to a _test.go in that package): fails with the change, passes without it"},
        "demo_failure_tail": r["demo_with_change_tail"][-300:]}
json.dump(meta, open(d + "/meta.json", "w"), indent=1)
open("/verif/seeded/confirm_results.jsonl", "a").write(json.dumps(r) + "\n")
print("IMPORTED", pid, m, meta["summary"][:120])
