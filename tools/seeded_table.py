#!/usr/bin/env python3
"""seeded_table.py <run log> : record in seeded/<id>/<m>/meta.json which check caught the change and how, and
write seeded/RESULTS.md (the table DESIGN.md refers to)."""
import json, os, re, sys
log = sys.argv[1]
rows = []
for line in open(log):
    m = re.match(r"(C\d\d) (m\d+) (CAUGHT|MISSED|APPLY-FAILED)(?: :: (.*))?", line)
    if not m:
        continue
    pid, mm, res, rest = m.groups()
    rest = rest or ""
    d = "/verif/seeded/%s/%s" % (pid, mm)
    meta = json.load(open(d + "/meta.json"))
    how = ""
    if res == "CAUGHT":
        how = "proof/tie broken, no failing input found" if "no-failing-input-found" in rest else "failing input found (replay written)"
    ob = re.search(r"(\d+)/(\d+) obligations", rest)
    meta["check_result"] = {"check": "./check %s --tier quick" % pid, "result": res.lower(), "how": how,
                            "obligations": ob.group(0) if ob else None}
    json.dump(meta, open(d + "/meta.json", "w"), indent=1)
    rows.append((pid, mm, meta["summary"], res, how, ob.group(0) if ob else ""))
with open("/verif/seeded/RESULTS.md", "w") as f:
    f.write("# Seeded changes and the checks that catch them\n\n"
            "Produced by `tools/run_seeded.sh` (apply the patch to /repo, run the property's quick check, undo) and "
            "`tools/seeded_table.py`.  Every change compiles, passes the repository's own test suite and was confirmed in a "
            "scratch worktree with the demonstration kept beside it.\n\n| change | what it does | quick check | how |\n|---|---|---|---|\n")
    for pid, mm, summ, res, how, ob in rows:
        f.write("| %s/%s | %s | %s | %s |\n" % (pid, mm, summ.replace("|", "/")[:160], res, how))
    c = sum(1 for r in rows if r[3] == "CAUGHT")
    f.write("\n%d of %d caught by the quick check of the property they were written against.\n" % (c, len(rows)))
print(len(rows), "rows")
