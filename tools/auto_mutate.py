#!/usr/bin/env python3
"""auto_mutate.py <evaluation copy dir> <seed> <count> : crude mutation testing as a measurement (not a registered check).
Picks <count> random single-token mutants of the library's non-test Go files (relational / logical operator flips,
integer literals +1, hex masks with one bit dropped), keeps those that compile and pass the repository's own suite, runs
ALL twenty quick checks on each and prints one line per mutant: which checks alarmed, or SURVIVED.  Works in an
evaluation copy made by mk_eval_copy.sh (never in /repo)."""
import os, random, re, subprocess, sys
root, seed, count = sys.argv[1], int(sys.argv[2]), int(sys.argv[3])
repo, verif = root + "/repo", root + "/verif"
ENV = dict(os.environ, GOFLAGS="-mod=mod", GOPROXY="off", GOSUMDB="off", GOTOOLCHAIN="local")
rng = random.Random(seed)
files = []
for d, _, fs in os.walk(repo):
    if "/cmd" in d or "/.git" in d or "/specifications" in d:
        continue
    for f in fs:
        if f.endswith(".go") and not f.endswith("_test.go") and not f.startswith("verif_hooks") and f != "doc.go":
            path = os.path.join(d, f)
            if os.environ.get("MUT_FOCUS"):
                # only files with wire / procedure logic (skips the many files that only name things)
                txt = open(path).read()
                if not re.search(r"DecodeFromBytes|SerializeTo|SendCommand|backoff\.|func checksum|Parse\(|ConvertReading|Lineari|func decode|rollingAvg|Twos|Ones|Decode\(", txt):
                    continue
            files.append(path)
OPS = [(r"<=", "<"), (r">=", ">"), (r"==", "!="), (r"!=", "=="), (r"&&", "||"), (r"\|\|", "&&"), (r" < ", " <= "), (r" > ", " >= ")]
def candidates(path):
    src = open(path).read()
    out = []
    in_comment = False
    pos = 0
    fn = ""
    for line in src.split("\n"):
        m0 = re.match(r"func (?:\([^)]*\) )?(\w+)", line)
        if m0:
            fn = m0.group(1)
        code = line.split("//")[0]
        if os.environ.get("MUT_FOCUS") and (fn in ("String", "Description", "Symbol", "Format", "GoString") or "Errorf(" in code or "errors.New(" in code or code.strip().startswith('"')):
            pos += len(line) + 1; continue
        if code.strip().startswith(("import", "package")) or '"' in code and code.count('"') >= 2 and re.search(r'"[^"]*(<=|>=|==|!=|&&|\|\|)[^"]*"', code):
            pos += len(line) + 1; continue
        for pat, rep in OPS:
            for m in re.finditer(pat, code):
                out.append((pos + m.start(), pos + m.end(), rep, "%s -> %s" % (m.group(0).strip(), rep.strip())))
        for m in re.finditer(r"(?<![\w.])(0x[0-9a-fA-F]+|\d+)(?![\w.])", code):
            lit = m.group(1)
            v = int(lit, 0)
            if v > 0xffff:
                continue
            if lit.startswith("0x") and v not in (0, 1):
                nv = v & (v - 1)       # drop the lowest set bit
                rep = hex(nv)
            else:
                rep = str(v + 1)
            out.append((pos + m.start(1), pos + m.end(1), rep, "%s -> %s" % (lit, rep)))
        pos += len(line) + 1
    return src, out
def sh(cmd, cwd, t=1800):
    p = subprocess.run(cmd, shell=True, cwd=cwd, env=ENV, stdout=subprocess.PIPE, stderr=subprocess.STDOUT, text=True, timeout=t)
    return p.returncode, p.stdout
done = 0
tries = 0
ALL = " ".join("C%02d" % i for i in range(1, 21))
while done < count and tries < count * 12:
    tries += 1
    path = rng.choice(files)
    src, cands = candidates(path)
    if not cands:
        continue
    a, b, rep, what = rng.choice(cands)
    mut = src[:a] + rep + src[b:]
    line = src.count("\n", 0, a) + 1
    open(path, "w").write(mut)
    try:
        rc, _ = sh("go build ./... && go build -tags verif ./... && go vet ./... >/dev/null 2>&1; go build ./... && go test -vet=off -count=1 ./... >/dev/null 2>&1", repo, 600)
        if rc != 0:
            continue        # does not compile or the repository's own suite notices it
        sh("./check C20 --tier quick >/dev/null 2>&1", verif)
        rc, out = sh("printf '%s\\n' " + ALL + " | xargs -P 4 -I{} sh -c 'timeout 1500 ./check {} --tier quick --no-build 2>&1 | grep -E \"^VIOLATION\" | head -1'", verif, 3000)
        hits = sorted(set(re.findall(r"property=(C\d\d)", out)))
        nf = "no-failing-input-found" in out and all("no-failing-input-found" in l for l in out.strip().split("\n") if l)
        done += 1
        print("%s:%d  %s  ::  %s%s" % (os.path.relpath(path, repo), line, what, " ".join(hits) if hits else "SURVIVED", " (tie only)" if hits and nf else ""), flush=True)
    finally:
        open(path, "w").write(src)
