#!/bin/sh
# usage: one_seeded.sh Cxx mN   - apply one seeded change to /repo, run the property's quick check, undo
cd /verif
git -C /repo apply /verif/seeded/$1/$2/patch.diff || exit 1
out=$(timeout 1800 ./check $1 --tier quick 2>&1 | grep -E "VIOLATION|quick:" | tr '\n' ' ')
git -C /repo checkout -- . ; git -C /repo clean -fdq
case "$out" in *VIOLATION*) r=CAUGHT;; *) r=MISSED;; esac
echo "$1 $2 $r :: $out"
