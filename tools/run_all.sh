#!/bin/sh
# run every check of one tier on the current tree, one summary line per property
cd /verif
tier=${1:-quick}; shift
ids=${@:-C01 C02 C03 C04 C05 C06 C07 C08 C09 C10 C11 C12 C13 C14 C15 C16 C17 C18 C19 C20}
for id in $ids; do
  s=$(date +%s)
  out=$(./check $id --tier $tier 2>&1 | grep -E "VIOLATION|KNOWN-FINDING|$tier:" | tr '\n' ' ')
  echo "$id rc=$? $(( $(date +%s) - s ))s :: $out"
done
