#!/usr/bin/env python3
"""Confirm seeded changes in a scratch worktree of /repo: the change applies, the repository still builds and its
test suite passes, the demonstration fails with the change and passes without it.
usage: confirm_seeded.py <mutdir> <id> <m1|m2> -> prints one JSON line"""
import json, os, re, subprocess, sys, tempfile, shutil

ENV = dict(os.environ, GOFLAGS="-mod=mod", GOPROXY="off", GOSUMDB="off", GOTOOLCHAIN="local")


def sh(cmd, cwd, timeout=900):
    p = subprocess.run(cmd, shell=True, cwd=cwd, env=ENV, stdout=subprocess.PIPE, stderr=subprocess.STDOUT, text=True, timeout=timeout)
    return p.returncode, p.stdout


def main():
    mutdir, pid, m = sys.argv[1:4]
    diff = os.path.join(mutdir, m + ".diff")
    demo = os.path.join(mutdir, m + "_demo_test.go")
    out = {"id": pid, "m": m}
    wt = tempfile.mkdtemp(prefix="wt-confirm-%s-%s-" % (pid, m), dir="/tmp")
    os.rmdir(wt)
    try:
        rc, o = sh("git -C /repo worktree add -q --detach %s HEAD" % wt, "/")
        if rc:
            out["error"] = "worktree: " + o; print(json.dumps(out)); return
        rc, o = sh("git apply --check %s" % diff, wt)
        out["applies"] = rc == 0
        if rc:
            out["apply_log"] = o[-500:]; print(json.dumps(out)); return
        src = open(demo).read()
        cmdm = re.search(r"go test[^\n]*", src)
        cmd = cmdm.group(0).strip().rstrip("`").strip()
        cmd = re.sub(r"\s+-v\b", "", cmd)
        path = cmd.split()[-1]
        ddir = os.path.normpath(os.path.join(wt, path))
        if not os.path.isdir(ddir):
            ddir = wt
        dst = os.path.join(ddir, "verifdemo_%s_%s_test.go" % (pid.lower(), m))
        out["demo_cmd"] = cmd
        # with the change
        sh("git apply %s" % diff, wt)
        rc, o = sh("go build ./... && go build -tags verif ./...", wt)
        out["builds"] = rc == 0
        rc, o = sh("go test -vet=off -count=1 ./...", wt)
        out["suite_passes_with_change"] = rc == 0
        if rc:
            out["suite_log"] = o[-800:]
        shutil.copy(demo, dst)
        rc, o = sh(cmd, wt)
        out["demo_fails_with_change"] = rc != 0
        out["demo_with_change_tail"] = o[-400:]
        # without the change
        sh("git apply -R %s" % diff, wt)
        rc, o = sh(cmd, wt)
        out["demo_passes_without_change"] = rc == 0
        if rc:
            out["demo_without_change_tail"] = o[-600:]
        out["confirmed"] = bool(out["builds"] and out["suite_passes_with_change"] and out["demo_fails_with_change"] and out["demo_passes_without_change"])
    finally:
        sh("git -C /repo worktree remove --force %s" % wt, "/")
        shutil.rmtree(wt, ignore_errors=True)
    print(json.dumps(out))


main()
