#!/bin/sh
# apply each behaviour-preserving refactor to /repo, confirm the repository's own suite still passes, run EVERY quick
# check, undo; a VIOLATION line here is a false alarm of the machinery (or, with no-failing-input-found, a tie that the
# refactor invalidated).   usage: [CHECKS="C01 C13"] [HS="h1 h2"] run_harmless.sh [ids...]
cd /verif
export GOFLAGS=-mod=mod GOPROXY=off GOSUMDB=off GOTOOLCHAIN=local
ids=${@:-$(ls harmless)}
all=${CHECKS:-"C01 C02 C03 C04 C05 C06 C07 C08 C09 C10 C11 C12 C13 C14 C15 C16 C17 C18 C19 C20"}
for id in $ids; do
  for h in ${HS:-h1 h2 h3 h4}; do
    d=/verif/harmless/$id/$h/patch.diff
    [ -f "$d" ] || continue
    git -C /repo apply "$d" || { echo "$id $h APPLY-FAILED"; continue; }
    (cd /repo && go build ./... && go test -vet=off -count=1 ./... >/dev/null 2>&1) || echo "$id $h SUITE-FAILED"
    # build once, then the twenty checks four at a time
    ./check C20 --tier quick >/dev/null 2>&1
    bad=$(printf '%s\n' $all | xargs -P 4 -I{} sh -c 'timeout 1800 ./check {} --tier quick --no-build 2>&1 | grep -E "VIOLATION" | head -1' | tr '\n' ' ')
    git -C /repo checkout -- . ; git -C /repo clean -fdq
    if [ -z "$(echo $bad | tr -d ' ')" ]; then echo "$id $h QUIET"; else echo "$id $h ALARM :: $bad"; fi
  done
done
