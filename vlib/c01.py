"""C01 — session establishment agrees on keys with every conforming BMC."""
from . import core, conn, hist, hs

RULE = ("all 9 combinations authentication {HMAC-SHA1, HMAC-MD5, HMAC-SHA256} x integrity {HMAC-SHA1-96, HMAC-MD5-128, HMAC-SHA256-128} "
        "with AES-CBC-128, x KG {absent, 20 bytes} x lookup {privilege, name-only} x privilege 0..5, user names of length {0,1,15,16} and "
        "random, passwords of length {0,1,16,19,20} and random, random BMC randoms / GUIDs / session IDs (seeded), 1-6 commands per "
        "session; plus suites with integrity or confidentiality None (must be refused with an error, never a panic).  predicates: the "
        "session opens; the SIK, K1, K2 the session exposes equal the simulated BMC's *and* those the Coq SpecBmc derives from the same "
        "exchange (its own view: stored key zero-padded to 20 bytes, received R_M, its R_C ...); RAKP 2 / RAKP 4 sent by the simulated "
        "BMC equal the SpecBmc's byte for byte (validates the fixture); every subsequent command is accepted by the BMC's integrity "
        "check and decryption and its response is returned.  tie: Coq new_session on the delivered bytes gives the same datagrams, keys "
        "and IDs.  + for each of the nine suites: three or four sessions one after the other on one connection (other user, other password, same password under another name; the caller's options value kept and re-assigned with KG never set, or fresh; the earlier session closed or left open), same predicates for each.  distinct by the configuration tuple")


def configs(ch):
    rng = ch.rng
    out = []
    ulen = [0, 1, 15, 16]
    plen = [0, 1, 16, 19, 20]
    k = 0
    for su in hist.SUITES:
        for kg in (False, True):
            for lookup in (False, True):
                for priv in range(6):
                    k += 1
                    if ch.quick() and (k % 3):
                        continue
                    ul = rng.choice(ulen + [rng.randrange(17)])
                    pl = rng.choice(plen + [rng.randrange(21)])
                    user = "".join(rng.choice("abcdefghijklmnopqrstuvwxyzADMIN0123456789_-") for _ in range(ul))
                    pw = bytes(rng.randrange(256) for _ in range(pl))
                    kgv = b""
                    if kg:
                        # binary keys: zero bytes first / inside / last, all ones, printable, random
                        kgv = rng.choice([b"\x00" + bytes(rng.randrange(1, 256) for _ in range(19)),
                                          bytes(rng.randrange(1, 256) for _ in range(7)) + b"\x00" + bytes(rng.randrange(1, 256) for _ in range(12)),
                                          bytes(rng.randrange(1, 256) for _ in range(19)) + b"\x00", b"\xff" * 20,
                                          b"0123456789abcdefghij", bytes(rng.randrange(256) for _ in range(20)),
                                          bytes(20), bytes(19) + b"\x01", b"\x01" + bytes(19)])
                    if pl and rng.randrange(3) == 0:
                        pw = rng.choice([b"\x00" + pw[1:], pw[:-1] + b"\x00", pw[:len(pw) // 2] + b"\x00" + pw[len(pw) // 2 + 1:]])
                    # "no KG" as callers produce it: nil, or a zero-length non-nil slice ([]byte(""), hex.DecodeString(""))
                    out.append({"suite": su, "kg": kgv, "lookup": lookup, "kg_empty": (not kg) and k % 2 == 0,
                                "priv": priv, "user": user, "pw": pw, "seed": rng.randrange(1 << 30),
                                "guid": bytes(rng.randrange(256) for _ in range(16))})
    return out


def reopen(ch):
    """several sessions one after the other on ONE connection - other user, other password, the caller's options value kept
    and re-assigned (KG never set by the caller) or fresh, the earlier session closed or still open: each must open with the
    BMC's keys and carry commands, whatever was opened before"""
    rng = ch.rng
    scns = []
    for k, su in enumerate(hist.SUITES):
        for reuse in (True, False):
            pa = bytes(rng.randrange(1, 256) for _ in range(rng.randrange(1, 21)))
            pb = bytes(rng.randrange(1, 256) for _ in range(rng.randrange(1, 21)))
            bmc = conn.default_bmc(seed=900 + k, suites=[[100, su[0], su[1], su[2]]],
                                   users=[{"name": "alice", "password": pa.hex(), "maxpriv": 4}, {"name": "bob", "password": pb.hex(), "maxpriv": 4},
                                          {"name": "carol", "password": pa.hex(), "maxpriv": 4}])
            order = [("alice", pa), ("bob", pb), ("carol", pa), ("alice", pa)] if k % 2 else [("bob", pb), ("alice", pa), ("bob", pb)]
            steps = []
            for j, (u, p) in enumerate(order):
                steps.append(dict(hs.open_step(user=u, password=p, priv=4, lookup=bool((k + j) % 2), suites=[su]), reuse_opts=reuse))
                steps.append({"op": "cmd", "conn": "session", "cmd": {"name": "getdeviceid"}, "script": ["ok"]})
                if (k + j) % 3:
                    steps.append({"op": "close"})
            scns.append({"bmc": bmc, "timeout_ms": 40, "steps": steps, "reuse": reuse, "suite": su})
    outs = conn.run_scenarios(scns)
    lines, idx = [], []
    for scn, out in zip(scns, outs):
        su = tuple(scn["suite"])
        n_open = 0
        for ti, (st, res) in enumerate(zip(scn["steps"], out["steps"])):
            desc = {"kind": "c01-reopen", "suite": list(su), "reuse_opts": scn["reuse"], "nth_open": n_open}
            if res.get("panic"):
                ch.violation(dict(desc, kind="panic"), {"scenario": scn, "step_index": ti, "panic": res["panic"]}); break
            if st["op"] == "open":
                n_open += 1
                desc["nth_open"] = n_open
                ch.note_case("c01-reopen", "%s|%s|%d" % (su, scn["reuse"], n_open))
                if res["err"] != "nil":
                    ch.violation(desc, {"scenario": scn, "step_index": ti, "err": res["err"], "errtext": res.get("errtext"),
                                        "what": "session %d on this connection failed to open against a conforming BMC (user %s)" % (n_open, st["user"])})
                    break
                b = hs.bmc_session_for(out, res)
                s = res["session"]
                if b is None or (s["sik"], s["k1"], s["k2"]) != (b["sik"], b["k1"], b["k2"]):
                    ch.violation(desc, {"scenario": scn, "step_index": ti, "what": "keys of session %d differ from the BMC's" % n_open, "console": s, "bmc": b})
                    break
                lines.append(hs.hs_line(st, res, su)); idx.append((scn, st, res, desc))
            elif st["op"] == "cmd":
                if not all(e["accepted"] for e in res["bmc"]) or res["err"] != "nil" or (res["bmc"] and res["code"] != res["bmc"][-1]["cc"]):
                    ch.violation(desc, {"scenario": scn, "step_index": ti, "what": "command on session %d rejected by the BMC or response not returned" % n_open,
                                        "events": res["bmc"], "err": res["err"]})
                    break
    for (scn, st, res, desc), mo in zip(idx, core.oracle(lines)):
        hs.tie_open(ch, "c01", scn, st, res, mo, tuple(scn["suite"]), desc)


def run(ch, build):
    core.proof_status(ch, "C01", build)
    rng = ch.rng
    cfgs = configs(ch)
    scns = []
    for c in cfgs:
        su = c["suite"]
        bmc = conn.default_bmc(seed=c["seed"], suites=[[100, su[0], su[1], su[2]]], guid=c["guid"].hex(), kg=c["kg"].hex(),
                               users=[{"name": "other", "password": b"x".hex(), "maxpriv": 5},
                                      {"name": c["user"], "password": c["pw"].hex(), "maxpriv": 5}])
        steps = [dict(hs.open_step(user=c["user"], password=c["pw"], kg=c["kg"], priv=c["priv"], lookup=c["lookup"], suites=[su]),
                      kg_empty=c["kg_empty"])]
        if c["seed"] % 4 == 0:
            # the caller's context has NO deadline (cancelled from outside much later) and one datagram of the handshake goes
            # unanswered for a whole per-attempt timeout: a conforming BMC, a legal network - the session must still open
            k = c["seed"] % 3
            steps[0].update(cancel_ms=8000, script=["ok"] * k + ["silence"])
        pool = [x for x in hist.command_pool(rng, True) if x["name"] not in ("setpriv", "chassiscontrol")]
        for _ in range(rng.randrange(1, 7)):
            steps.append({"op": "cmd", "conn": "session", "cmd": rng.choice(pool), "script": ["ok"]})
        steps.append({"op": "close"})
        scns.append({"bmc": bmc, "timeout_ms": 40, "steps": steps, "cfg": {k: (v.hex() if isinstance(v, bytes) else v) for k, v in c.items()}})
    # suites with None: must be refused cleanly
    nones = [(a, 0, 1) for a in (1, 2, 3)] + [(a, i, 0) for a in (1, 3) for i in (1, 4)] + [(1, 0, 0), (0, 0, 0), (0, 1, 1)]
    for su in nones:
        bmc = conn.default_bmc(seed=7, suites=[[100, su[0], su[1], su[2]]])
        scns.append({"bmc": bmc, "timeout_ms": 40, "none": True,
                     "steps": [hs.open_step(suites=[su]), {"op": "cmd", "conn": "session", "cmd": {"name": "getdeviceid"}, "script": ["ok"]}]})
    outs = conn.run_scenarios(scns)
    hs_lines, bmc_lines, idx = [], [], []
    for scn, out in zip(scns, outs):
        step, res = scn["steps"][0], out["steps"][0]
        su = tuple(step["suites"][0])
        desc = {"kind": "c01", "suite": list(su), "none": bool(scn.get("none"))}
        ch.note_case("c01-none" if scn.get("none") else "c01-open", str(scn.get("cfg", su)))
        if any(r.get("panic") for r in out["steps"]):
            ch.violation(dict(desc, kind="panic"), {"scenario": scn, "what": "panic", "panic": [r.get("panic") for r in out["steps"]]})
            continue
        if scn.get("none"):
            if res["err"] == "nil":
                # allowed only "with the same guarantees": the command must then be accepted and answered
                r2 = out["steps"][1]
                if r2["err"] != "nil" or not all(e["accepted"] for e in r2["bmc"]):
                    ch.violation(desc, {"scenario": scn, "what": "session with a None algorithm was returned but does not work"})
            hs_lines.append(hs.hs_line(step, res, su)); idx.append((scn, out, desc, None))
            continue
        if res["err"] != "nil":
            ch.violation(desc, {"scenario": scn, "what": "session establishment failed against a conforming BMC", "err": res["err"], "errtext": res.get("errtext")})
            hs_lines.append(hs.hs_line(step, res, su)); idx.append((scn, out, desc, None))
            continue
        b = hs.bmc_session_for(out, res)
        s = res["session"]
        if b is None or (s["sik"], s["k1"], s["k2"]) != (b["sik"], b["k1"], b["k2"]) or int(s["remoteid"]) != b["bmcid"]:
            ch.violation(desc, {"scenario": scn, "what": "session keys differ from the BMC's", "console": s, "bmc": b})
        # the specification's BMC on the same exchange
        c = scn["cfg"]
        bmc_lines.append("bmc_rakp %d %d %d %s %s %s %d %d %s %s %d %s" % (
            su[0], su[1], su[2], c["pw"] or "-", c["kg"] or "-", c["guid"], b["consoleid"], b["bmcid"], b["rm"], b["rc"], b["role"],
            c["user"].encode().hex() or "-"))
        hs_lines.append(hs.hs_line(step, res, su)); idx.append((scn, out, desc, len(bmc_lines) - 1))
        # every command accepted and answered
        for st, r in list(zip(scn["steps"], out["steps"]))[1:]:
            if st["op"] == "cmd":
                ch.note_case("c01-command", "%s|%s" % (st["cmd"], c))
                if not all(e["accepted"] for e in r["bmc"]) or r["err"] not in ("nil", "other") or (r["bmc"] and r["code"] != r["bmc"][-1]["cc"]):
                    ch.violation(dict(desc, cmd=st["cmd"]["name"]), {"scenario": scn, "what": "in-session command rejected by the BMC or response not returned",
                                 "events": r["bmc"], "err": r["err"], "code": r["code"]})
            if st["op"] == "close" and (r["err"] != "nil" or not all(e["accepted"] for e in r["bmc"])):
                ch.violation(desc, {"scenario": scn, "what": "Close Session failed"})
    hs_out = core.oracle(hs_lines)
    bmc_out = core.oracle(bmc_lines)
    for (scn, out, desc, bi), ho in zip(idx, hs_out):
        step, res = scn["steps"][0], out["steps"][0]
        su = tuple(step["suites"][0])
        hs.tie_open(ch, "c01", scn, step, res, ho, su, desc)
        if bi is not None:
            bo = bmc_out[bi]
            if not bo.startswith("ok"):
                ch.violation(desc, {"scenario": scn, "what": "the specification's BMC does not complete the exchange", "spec": bo})
                continue
            kv = dict(x.split("=", 1) for x in bo.split(" ")[1:])
            s = res["session"]
            if (s["sik"], s["k1"], s["k2"]) != (kv["sik"], kv["k1"], kv["k2"]):
                ch.violation(desc, {"scenario": scn, "what": "session keys differ from those the specification's BMC derives",
                                    "console": s, "spec": kv})
            g = hs.split_exchanges(res)
            sim2 = g["12"][1][-1][32:] if g["12"][1] else ""
            sim4 = g["14"][1][-1][32:] if g["14"][1] else ""
            if sim2 != kv["rakp2"] or sim4 != kv["rakp4"]:
                ch.corr_break(dict(desc, kind="fixture"), {"scenario": scn, "what": "simulated BMC's RAKP 2/4 differ from the Coq SpecBmc's",
                                                           "sim": [sim2, sim4], "spec": [kv["rakp2"], kv["rakp4"]]})
    reopen(ch)
    ch.extra["configurations"] = len(cfgs)
    return ch.finish(rule=RULE, assumptions=[
        "Go crypto = the named algorithms (Gallina instances validated against it in C05's crypto family)",
        "crypto/rand modelled as a tape recovered from the transmitted RAKP 1"])


def replay(ch, build, path):
    from . import c10
    return c10.replay(ch, build, path)
