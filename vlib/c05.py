"""C05 — no received bytes can crash or hang the library (layer level + pipeline level)."""
from . import coqreplay, core, layers as L

RULE = ("layer level: every decoder x every length 0..Lmax x contents {zeros, 0xFF, random, structured "
        "(control-flow bytes set), guard-passing (valid checksums / signatures / AES pads with the key known)}; each input is run "
        "by the harness on an exact-capacity copy under recover() and on two poisoned 1024-byte buffers (a result that "
        "depends on the poison is an over-read); predicate = implementation output is not 'fault'; tie = implementation "
        "output == Impl model output.  connection level: the reply at every position of a session-less command, each handshake "
        "exchange and an in-session command replaced by every prefix / byte substitutions / garbage.  procedure level: "
        "cipher-suite discovery on record data cut at every position and with every byte replaced by each tag class.  "
        "A case is distinct by (layer, bytes) / (position, mutation) / record data.")


def gen(ch):
    rng = ch.rng
    lmax = 96 if ch.quick() else 512
    cases = []   # (family, layer, data)
    for name in L.ALL:
        for n in range(0, lmax + 1):
            cases.append(("len-zeros", name, bytes(n)))
            cases.append(("len-ff", name, b"\xff" * n))
            cases.append(("len-random", name, bytes(rng.randrange(256) for _ in range(n))))
        reps = 40 if ch.quick() else 400
        for n in L.plausible_lengths(name):
            for _ in range(reps):
                cases.append(("structured", name, L.structured(rng, name, n)))
    # guard-passing messages: every length 7..40, both parities of NetFn, group/OEM
    for n in range(0, 36):
        for nf in (0x06, 0x07, 0x2c, 0x2d, 0x2e, 0x2f, 0x0b):
            for _ in range(3 if ch.quick() else 30):
                m = L.message(rng, netfn=nf, n=n)
                cases.append(("message-valid", "message", m))
                # every truncation keeping the last byte a valid checksum2
                for cut in range(3, len(m)):
                    t = bytearray(m[:cut])
                    t[-1] = L.checksum(t[3:-1]) if cut > 3 else t[-1]
                    cases.append(("message-truncated-valid", "message", bytes(t)))
    # shortest checksum-valid messages, exhaustively over the NetFn byte
    for b1 in range(256):
        h = [0x81, b1]; h.append(L.checksum(h))
        for extra in range(0, 6):
            rest = [0x20, 0x04, 0x01] + [0] * extra
            rest.append(L.checksum(rest))
            cases.append(("message-minimal", "message", bytes(h + rest)))
    # session wrappers with valid signatures, all pads, truncated trailers
    for name in L.V2:
        for plen in range(0, 40):
            for auth in (True, False):
                for oem in (False, True):
                    p = L.v2session(rng, name, payload=bytes(rng.randrange(256) for _ in range(plen)), auth=auth, oem=oem)
                    cases.append(("v2-valid", name, p))
                    if auth:
                        for cut in range(max(0, len(p) - 22), len(p)):
                            cases.append(("v2-truncated", name, p[:cut]))
                        cases.append(("v2-allff-trailer", name, p[:12 + (6 if oem else 0) + plen] + b"\xff" * rng.randrange(0, 6)))
                        cases.append(("v2-badsig", name, L.v2session(rng, name, payload=p[:4], auth=True, oem=oem, good_sig=False)))
                for pad in range(0, 8):
                    cases.append(("v2-oddpad", name, L.v2session(rng, name, payload=bytes(plen), auth=True, oem=False, pad=pad)))
    return cases


def aes_cases(ch):
    """payloads crafted with the key: every pad-length byte value, good and bad pads, 1..3 blocks"""
    rng = ch.rng
    plains = []
    for blocks in (1, 2, 3):
        n = 16 + 16 * blocks
        for padb in range(256):
            for variant in range(3 if ch.quick() else 8):
                d = bytearray(rng.randrange(256) for _ in range(n))   # IV ++ plaintext
                d[-1] = padb
                if variant >= 1:
                    # the pad bytes 1..padb in front of the length byte, wherever they fall
                    # (for padb > 16*blocks-1 they reach into the IV)
                    for k in range(padb):
                        i = n - 1 - padb + k
                        if 0 <= i < n - 1:
                            d[i] = (k + 1) % 256
                plains.append((bytes(d[:16]), bytes(d[16:])))
    for n in range(0, 48):
        plains.append((bytes(rng.randrange(256) for _ in range(16)), L.aes_plain(rng, n)))
        plains.append((bytes(rng.randrange(256) for _ in range(16)), L.aes_plain(rng, n, goodpad=False)))
    cmds = ["cbcenc %s %s %s" % (L.AESKEY.hex(), iv.hex(), pt.hex()) for iv, pt in plains]
    cts = core.oracle(cmds)
    cts_go = core.harness(cmds)
    ch.compare("crypto-cbc", cmds, cts_go, cts, None)
    out = []
    for (iv, pt), ct in zip(plains, cts):
        out.append(("aes-crafted", L.AES, iv + bytes.fromhex(ct)))
    return out


def run(ch, build):
    core.proof_status(ch, "C05", build)
    cases = gen(ch) + aes_cases(ch)
    cmds = ["dec %s _ %s" % (name, L.hx(data)) for (_, name, data) in cases]
    go = core.harness(cmds)
    model = core.oracle(cmds)
    coqreplay.cross_check(ch, cmds, model, 300 if ch.quick() else 3000, "C05")
    by = {}
    for i, (fam, name, data) in enumerate(cases):
        by.setdefault(fam, []).append(i)
    for fam, idx in by.items():
        # predicate: never 'fault'
        spec = [("fault-free" if go[i] != "fault" else None) for i in idx]
        for i in idx:
            ch.note_case(fam, cmds[i])
            d = {"kind": "layer-decode", "layer": cases[i][1].split(":")[0], "len": len(cases[i][2]), "input": cmds[i]}
            if go[i] == "fault":
                ch.violation(d, {"input": cmds[i], "impl": go[i], "model": model[i],
                                 "what": "decoder panicked or read beyond the datagram"})
            elif go[i] != model[i]:
                ch.corr_break(d, {"input": cmds[i], "impl": go[i], "model": model[i]})
        k = idx[ch.rng.randrange(len(idx))]
        ch.sample({"family": fam, "input": cmds[k][:200], "impl": go[k][:200], "model": model[k][:200]})
    ch.extra["layers"] = len(L.ALL)
    ch.extra["outcome_distribution"] = {k: sum(1 for g in go if g.split(" ")[0] == k) for k in ("ok", "err", "fault")}
    # pipeline level (connection): see vlib/conn.py
    try:
        from . import conn
        conn.c05_pipeline(ch, build)
    except ImportError:
        ch.notes.append("pipeline level not built yet")
    procedures(ch)
    return ch.finish(rule=RULE, assumptions=[
        "a panic is observed on an exact-capacity copy; an over-read as a poison-dependent result (two poisons)",
        "AES/HMAC instances of the model are validated against Go's crypto on the inputs of this run",
    ])


def procedures(ch):
    """cipher-suite discovery (run by default inside session establishment) on record data cut at EVERY position:
    every prefix of record streams mixing standard and OEM records, and every single byte of them replaced by each
    tag class; predicate: a value or an error, never a panic; tie: Coq retrieve_chunks + parse_records"""
    from . import conn
    rng = ch.rng
    streams = [bytes.fromhex("c00301410180" "c1051122330242438182" "c011034481"),
               bytes.fromhex("c10901000001" "c0020140" "c1070a0b0c0341428283" "c00c02"),
               bytes.fromhex("c0010141" "c102aabbcc01" "c103ddeeff02418183" "c00403444180")]
    datas = []
    for st in streams:
        datas += [("prefix", st[:k]) for k in range(len(st) + 1)]
        pos = range(len(st)) if not ch.quick() else rng.sample(range(len(st)), 12)
        for k in pos:
            for v in (0x00, 0x41, 0x81, 0xC0, 0xC1, 0xFF):
                b = bytearray(st); b[k] = v
                datas.append(("setbyte", bytes(b)))
    # a BMC that keeps answering with full 16-byte chunks (record data of 1 KiB and more): the 6-bit list index is
    # exhausted after 64 chunks; discovery must stop there, with a value or an error, not go round again
    filler = bytes.fromhex("c00301410180") * 200
    for n in (1008, 1024, 1040, 1100, 1200):
        datas.append(("full-chunks-for-ever", filler[:n]))
    scns = [{"bmc": conn.default_bmc(seed=6, records=d.hex()), "timeout_ms": 40, "steps": [{"op": "ciphersuites"}]} for _, d in datas]
    outs = conn.run_scenarios(scns)
    lines = []
    for _, d in datas:
        chunks = [d[i:i + 16] for i in range(0, len(d), 16)]
        if len(d) % 16 == 0:
            chunks.append(b"")
        lines.append("csretrieve %s" % ",".join((c.hex() or "-") for c in chunks))
    model = core.oracle(lines)
    for (kind, d), scn, out, mo in zip(datas, scns, outs, model):
        res = out["steps"][0]
        desc = {"kind": "procedure", "procedure": "ciphersuites", "family": kind, "len": len(d)}
        ch.note_case("procedure-ciphersuites-" + kind, d.hex())
        if res.get("runaway") or len(res["sent"]) > 65:
            ch.violation(desc, {"scenario": scn, "requests": len(res["sent"]), "record_data_len": len(d),
                                "what": "cipher-suite discovery does not stop: %d requests and going (a BMC can make every session establishment "
                                        "with default options hang)" % len(res["sent"])})
            continue
        if res.get("panic") or res["err"] == "panic":
            ch.violation(desc, {"scenario": scn, "panic": res.get("panic"), "record_data": d.hex(),
                                "what": "cipher-suite discovery panicked on record data a BMC can send before any authentication"})
            continue
        impl = ("ok " + res.get("value", "")).strip() if res["err"] == "nil" else "err"
        m_n, m_res = mo.split(" ", 1)
        if (m_res.strip() if m_res.startswith("ok") else "err") != impl:
            ch.corr_break(desc, {"scenario": scn, "impl": impl, "model": mo})
    ch.extra["procedure_cases"] = len(datas)


def replay(ch, build, path):
    import json
    r = json.load(open(path))
    if "scenario" in r["detail"]:
        from . import conn
        out = conn.run_scenarios([r["detail"]["scenario"]])[0]
        bad = any(st.get("panic") or st["err"] == "panic" for st in out["steps"])
        print(json.dumps(out["steps"])[:1500])
        if bad:
            print("VIOLATION property=C05 replay=%s" % path)
        return 1 if bad else 0
    cmd = r["detail"]["input"]
    go = core.harness([cmd])[0]
    model = core.oracle([cmd])[0]
    print("input:", cmd); print("impl :", go); print("model:", model)
    if go == "fault" or go != model:
        print("VIOLATION property=C05 replay=%s" % path)
        return 1
    return 0
