"""C16 — paged enumerations are complete, ordered and terminate."""
from . import core, conn, hist, hs

RULE = ("cipher suites: record lists of 0..20 records (standard and OEM, 0..3 integrity and 0..3 confidentiality algorithms each), "
        "sized so that the encoding spans 1..5 chunks including exact multiples of 16 bytes, served by the simulated BMC through "
        "Get Channel Cipher Suites; predicate: the result is exactly one entry per (integrity, confidentiality) combination of each "
        "record, in order (None when a list is empty); malformed data (truncations, corrupted tag bits, trailing bytes) gives an "
        "error, never a partial list.  DCMI: every instance count 0..255 x page size 1..8 for each of the three entities, both "
        "entity-ID families, and error injection on each request: predicate: all record IDs in order without duplicates, "
        "max(1, ceil(n/p)) requests per entity, the DCMI-specific IDs are used iff the standard ones yield an error or no IDs at all.  "
        "tie: Coq retrieve_cipher_suites / get_sensor_info over the same served data.  distinct by the record list / (counts, page size, family)")


def enc_records(recs):
    out = bytearray()
    for r in recs:
        if r["ent"]:
            out += bytes([0xC1, r["id"], r["ent"] & 255, (r["ent"] >> 8) & 255, (r["ent"] >> 16) & 255])
        else:
            out += bytes([0xC0, r["id"]])
        out.append(r["auth"])
        out += bytes(0x40 | i for i in r["integ"])
        out += bytes(0x80 | c for c in r["conf"])
    return bytes(out)


def expand(recs):
    out = []
    for r in recs:
        for i in (r["integ"] or [0]):
            for c in (r["conf"] or [0]):
                out.append("%d:%d:%d:%d:%d" % (r["id"], r["ent"], r["auth"], i, c))
    return " ".join(out)


def gen_recs(rng, n):
    recs = []
    for _ in range(n):
        recs.append({"id": rng.randrange(256), "ent": rng.choice([0, 0, 0, rng.randrange(1, 1 << 24)]), "auth": rng.randrange(4),
                     "integ": [rng.randrange(64) for _ in range(rng.randrange(4))],
                     "conf": [rng.randrange(64) for _ in range(rng.randrange(4))]})
    return recs


def cipher_cases(ch):
    rng = ch.rng
    cases = []
    for n in range(0, 21):
        for _ in range(3 if ch.quick() else 30):
            cases.append(("valid", gen_recs(rng, n)))
    # exact multiples of 16 bytes and +-1
    for target in (16, 32, 48, 64, 80):
        for _ in range(6 if ch.quick() else 60):
            recs = []
            while len(enc_records(recs)) < target - 8:
                recs += gen_recs(rng, 1)
            # fill to the exact target with a record of the right size
            for extra in range(0, 12):
                cand = recs + [{"id": 1, "ent": 0, "auth": 1, "integ": [1] * min(extra, 3), "conf": [1] * max(0, min(extra - 3, 3))}]
                if len(enc_records(cand)) in (target, target - 1, target + 1):
                    cases.append(("boundary", cand))
    # lists whose record data repeats with period 16 on the chunk grid: consecutive chunks are byte-for-byte the same (a BMC
    # may list a suite twice; eight identical 4-byte records; a pair of 8-byte OEM records twice) - still a list to return whole
    r4 = {"id": rng.randrange(256), "ent": 0, "auth": rng.randrange(4), "integ": [rng.randrange(64)], "conf": []}
    r8 = lambda: {"id": rng.randrange(256), "ent": rng.randrange(1, 1 << 24), "auth": rng.randrange(4), "integ": [rng.randrange(64)], "conf": [rng.randrange(64)]}
    p1, p2 = r8(), r8()
    for reps in (2, 3, 4):
        cases.append(("periodic", [dict(r4) for _ in range(4 * reps)]))
        cases.append(("periodic", [p1, p2] * reps))
        cases.append(("periodic", [p1, p2] * reps + gen_recs(rng, 1)))
        cases.append(("periodic", gen_recs(rng, 0) + [dict(r4) for _ in range(4 * reps)] + [p1]))
    out = []
    # record data of 1008..1100 bytes: the 6-bit list index wraps after 64 chunks; whatever the BMC keeps serving, the
    # loop must stop after 65 requests (C16_chunk_loop_at_most_65_requests) - a BMC that always answers with a full chunk
    for target in (1008, 1023, 1024, 1025, 1040, 1100):
        recs = []
        while len(enc_records(recs)) < target:
            recs += gen_recs(rng, 1)
        out.append(("oversize", enc_records(recs)[:target], None))
    for kind, recs in cases:
        data = enc_records(recs)
        out.append((kind, data, expand(recs)))
        # malformed variants
        if data and rng.random() < (0.5 if ch.quick() else 1.0):
            k = rng.randrange(len(data))
            bad = bytearray(data); bad[k] ^= rng.choice([0x40, 0x80, 0xC0, 0x01, 0x3f])
            out.append(("corrupt", bytes(bad), None))
            out.append(("truncated", data[:rng.randrange(len(data))], None))
            out.append(("trailing", data + bytes([rng.randrange(256)]), None))
    return out


def run(ch, build):
    core.proof_status(ch, "C16", build)
    rng = ch.rng
    # ---- cipher suites ----
    cc = cipher_cases(ch)
    scns = [{"bmc": conn.default_bmc(seed=5, records=data.hex() or ""), "timeout_ms": 40, "steps": [{"op": "ciphersuites"}]} for (_, data, _) in cc]
    for s, (_, data, _) in zip(scns, cc):
        s["bmc"]["records"] = data.hex()
    outs = conn.run_scenarios(scns)
    lines = []
    for (_, data, _) in cc:
        chunks = [data[i:i + 16] for i in range(0, len(data), 16)]
        if len(data) % 16 == 0:
            chunks.append(b"")
        lines.append("csretrieve %s" % ",".join((c.hex() or "-") for c in chunks))
    model = core.oracle(lines)
    for (kind, data, exp), scn, out, mo in zip(cc, scns, outs, model):
        res = out["steps"][0]
        desc = {"kind": "c16-ciphersuites", "family": kind, "len": len(data)}
        ch.note_case("c16-cs-" + kind, data.hex())
        if res.get("panic"):
            ch.violation(dict(desc, kind="panic"), {"scenario": scn, "panic": res["panic"]}); continue
        impl = ("ok " + res.get("value", "")).strip() if res["err"] == "nil" else "err"
        nreq = len(res["sent"])
        if exp is not None:
            want = ("ok " + exp).strip()
            if impl != want:
                ch.violation(desc, {"scenario": scn, "what": "cipher suite list differs from the records' expansion", "impl": impl, "want": want})
            if nreq != len(data) // 16 + 1:
                ch.violation(desc, {"scenario": scn, "what": "%d requests for %d bytes of record data" % (nreq, len(data))})
        if res.get("runaway") or nreq > 65:
            ch.violation(desc, {"scenario": scn, "what": "%d requests: the chunk loop does not stop after the 65 list indices the field can address" % nreq})
            continue
        m_n, m_res = mo.split(" ", 1)
        if (m_res.strip() if m_res.startswith("ok") else "err") != impl or int(m_n) != nreq:
            ch.corr_break(desc, {"scenario": scn, "impl": impl, "requests": nreq, "model": mo})
    # a slow enumeration: the first request of EVERY chunk goes unanswered for a whole per-attempt timeout (then it is
    # answered); the caller's context leaves ample time - the list is still returned whole, however many chunks it has
    slow = []
    for nrec in ((6, 12, 20) if ch.quick() else (3, 6, 9, 12, 16, 20, 24)):
        recs = gen_recs(rng, nrec)
        data = enc_records(recs)
        nch = len(data) // 16 + 1
        slow.append({"bmc": conn.default_bmc(seed=8, records=data.hex()), "timeout_ms": 30, "exp": expand(recs), "len": len(data),
                     "steps": [{"op": "ciphersuites", "script": ["silence", "ok"] * nch, "ctx_ms": 20000}]})
    for scn, out in zip(slow, conn.run_scenarios(slow, spread=True)):
        res = out["steps"][0]
        ch.note_case("c16-cs-slow", "%d" % scn["len"])
        impl = ("ok " + res.get("value", "")).strip() if res["err"] == "nil" else "err:" + res["err"]
        if res.get("panic") or impl != ("ok " + scn["exp"]).strip():
            ch.violation({"kind": "c16-ciphersuites", "family": "slow", "len": scn["len"]},
                         {"scenario": scn, "what": "every chunk was served after one retransmission and the context had 20 s: the whole list is expected",
                          "impl": impl[:300], "want": ("ok " + scn["exp"])[:300], "requests": len(res["sent"]), "elapsed_ms": res.get("elapsed_ms")})
    # ---- DCMI paging ----
    steps_cfg = []
    counts = range(0, 256) if not ch.quick() else sorted(set(list(range(0, 20)) + [31, 32, 33, 63, 64, 100, 127, 128, 200, 247, 248, 249, 254, 255]))
    for n in counts:
        for p in range(1, 9):
            if ch.quick() and (n * 7 + p) % 3:
                continue
            for fam in ("ipmi", "dcmi"):
                steps_cfg.append((n, p, fam))
    scns2, meta = [], []
    cur = None
    for (n, p, fam) in steps_cfg:
        if cur is None or len(cur["steps"]) >= 60:
            su = hist.SUITES[len(scns2) % 9]
            cur = {"bmc": conn.default_bmc(seed=9, suites=[[100, su[0], su[1], su[2]]]), "timeout_ms": 40, "steps": [hs.open_step(suites=[su])]}
            scns2.append(cur)
        ent = {"ipmi": [0x37, 3, 7], "dcmi": [0x40, 0x41, 0x42]}[fam]
        which = rng.randrange(3)
        table = {}
        ids_all = {}
        for k, e in enumerate(ent):
            cnt = n if k == which else rng.choice([0, 0, 1, rng.randrange(0, 30)])
            ids = [rng.randrange(65536) for _ in range(cnt)]
            table[str(e)] = ids; ids_all[e] = ids
        # the other family may hold IDs too: they must be ignored (ipmi present) or irrelevant
        other = {"ipmi": [0x40, 0x41, 0x42], "dcmi": [0x37, 3, 7]}[fam]
        if fam == "ipmi":
            for e in other:
                table[str(e)] = [rng.randrange(65536) for _ in range(rng.randrange(0, 4))]
        cur["steps"].append({"op": "bmcset", "bmcset": {"dcmisensors": table, "pagesize": p}})
        cur["steps"].append({"op": "dcmisensorinfo", "conn": "session", "table": table, "page": p, "fam": fam})
        meta.append((len(scns2) - 1, len(cur["steps"]) - 1))
    # error injection on each request of a small configuration
    for errat in range(0, 8):
        su = hist.SUITES[errat % 9]
        table = {"55": [1, 2, 3], "3": [4, 5], "7": [6], "64": [7, 8], "65": [9], "66": [10, 11, 12]}
        s = {"bmc": conn.default_bmc(seed=9, suites=[[100, su[0], su[1], su[2]]]), "timeout_ms": 40, "steps": [
            hs.open_step(suites=[su]), {"op": "bmcset", "bmcset": {"dcmisensors": table, "pagesize": 2}},
            {"op": "dcmisensorinfo", "conn": "session", "table": table, "page": 2, "fam": "ipmi", "script": ["ok"] * errat + ["cc:201"], "errat": errat}]}
        scns2.append(s); meta.append((len(scns2) - 1, 2))
    # a BMC that announces more instances than it serves (its total counts sensors it then does not list): the pages run
    # dry, and the enumeration ends there with what was served - it does not ask for ever
    over = []
    for k, (n, p, extra) in enumerate([(0, 1, 1), (3, 1, 1), (5, 2, 7), (8, 8, 1), (9, 4, 200), (17, 8, 3), (30, 5, 225)]):
        su = hist.SUITES[k % 9]
        table = {"55": [rng.randrange(65536) for _ in range(n)], "3": [rng.randrange(65536) for _ in range(2)], "7": []}
        over.append({"bmc": conn.default_bmc(seed=10, suites=[[100, su[0], su[1], su[2]]], dcmisensors=table, pagesize=p, overcount=extra),
                     "timeout_ms": 40, "table": table, "steps": [hs.open_step(suites=[su]), {"op": "dcmisensorinfo", "conn": "session", "ctx_ms": 15000}]})
    for scn, out in zip(over, conn.run_scenarios(over)):
        res = out["steps"][1]
        t = scn["table"]
        want = "inlet=%s cpu=%s baseboard=%s" % tuple("[" + " ".join(str(x) for x in t[e]) + "]" for e in ("55", "3", "7"))
        impl = res.get("value", "") if res["err"] == "nil" else "err:" + res["err"]
        ch.note_case("c16-dcmi-overcount", "%s|%s" % (t, scn["bmc"]["overcount"]))
        nmax = sum(-(-len(t[e]) // scn["bmc"]["pagesize"]) + 1 for e in ("55", "3", "7")) + 8
        if res.get("panic") or res.get("runaway") or impl != want or len(res["sent"]) > nmax:
            ch.violation({"kind": "c16-dcmi", "family": "overcount", "page": scn["bmc"]["pagesize"]},
                         {"scenario": scn, "what": "the BMC announces %d more instances than it serves: expected the served IDs after at most %d requests"
                          % (scn["bmc"]["overcount"], nmax), "impl": impl[:300], "want": want[:300], "requests": len(res["sent"]), "runaway": res.get("runaway")})
    outs2 = conn.run_scenarios(scns2)
    lines = []
    for (si, ti) in meta:
        st = scns2[si]["steps"][ti]
        tbl = ";".join("%s=%s" % (k, ",".join(str(x) for x in v)) for k, v in st["table"].items())
        fail = "."
        if "errat" in st:
            # which entity the failing request belongs to (requests are issued entity by entity, page by page)
            order = [55, 3, 7]
            k = st["errat"]; failing = None
            for e in order:
                nreq = max(1, -(-len(st["table"][str(e)]) // st["page"]))
                if k < nreq:
                    failing = e; break
                k -= nreq
            fail = str(failing) if failing is not None else "."
            st["failing"] = failing
        lines.append("dcmiinfo %d %s %s" % (st["page"], tbl, fail))
    model2 = core.oracle(lines)
    for (si, ti), mo in zip(meta, model2):
        scn, out = scns2[si], outs2[si]
        st, res = scn["steps"][ti], out["steps"][ti]
        desc = {"kind": "c16-dcmi", "page": st["page"], "fam": st["fam"], "errat": st.get("errat")}
        ch.note_case("c16-dcmi", "%s|%s|%s" % (st["table"], st["page"], st.get("errat")))
        if res.get("panic"):
            ch.violation(dict(desc, kind="panic"), {"scenario": scn, "step_index": ti, "panic": res["panic"]}); continue
        t = {int(k): v for k, v in st["table"].items()}
        std = [t.get(0x37, []), t.get(3, []), t.get(7, [])]
        alt = [t.get(0x40, []), t.get(0x41, []), t.get(0x42, [])]
        std_fails = st.get("failing") in (55, 3, 7) if "errat" in st else False
        use_std = (not std_fails) and sum(len(x) for x in std) > 0
        exp = std if use_std else alt
        if "errat" in st and not use_std and st.get("failing") is None:
            pass
        want = "inlet=%s cpu=%s baseboard=%s" % tuple("[" + " ".join(str(x) for x in l) + "]" for l in exp)
        impl = res.get("value", "") if res["err"] == "nil" else "err"
        if "errat" not in st:
            if impl != want:
                ch.violation(desc, {"scenario": scn, "step_index": ti, "what": "sensor info differs from what the BMC holds", "impl": impl, "want": want})
            # number of requests
            reqs = sum(max(1, -(-len(l) // st["page"])) for l in std) + (0 if use_std else sum(max(1, -(-len(l) // st["page"])) for l in alt))
            if len(res["sent"]) != reqs:
                ch.violation(desc, {"scenario": scn, "step_index": ti, "what": "%d requests, expected %d" % (len(res["sent"]), reqs)})
        else:
            if st.get("failing") is not None and impl != want:
                ch.violation(desc, {"scenario": scn, "step_index": ti, "what": "fallback after an error in the standard family", "impl": impl, "want": want})
        mo_val = "err"
        if mo.startswith("ok"):
            parts = [p.strip() for p in mo[3:].split("|")]
            while len(parts) < 3:
                parts.append("")
            mo_val = "inlet=%s cpu=%s baseboard=%s" % tuple("[" + " ".join(x for x in p.split(",") if x) + "]" for p in parts)
        if "errat" not in st or st.get("failing") is not None:
            if mo_val != impl:
                ch.corr_break(desc, {"scenario": scn, "step_index": ti, "impl": impl, "model": mo_val})
    ch.extra["cipher_cases"] = len(cc); ch.extra["dcmi_cases"] = len(meta)
    return ch.finish(rule=RULE, assumptions=["as C10"])


def replay(ch, build, path):
    from . import c10
    return c10.replay(ch, build, path)
