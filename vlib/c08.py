"""C08 — serialise-then-decode is the identity for two-way layers."""
from . import core, layers as L

RULE = ("for V1Session (authentication type None and authenticated), V2Session (standard and OEM payload descriptors; unauthenticated "
        "and authenticated with each of the three integrity algorithms and no algorithm), Message (every NetFn 0..63: request/response, "
        "plain/group/OEM), RAKP Message 1 (user names 0..16) and AES-128-CBC: canonical encodings with every inner payload length "
        "0..200 (thorough: 0..300) and random field values are decoded, the decoded value is serialised again over its payload (the "
        "IV aside for AES) and decoded once more.  predicates: the re-serialised bytes equal the original bytes; the second decode "
        "equals the first, field for field, with the same inner payload.  Since every field value arises from some canonical "
        "encoding this is both directions of the round trip.  tie: the Coq decode/ser pair produces the same bytes and values.  "
        "distinct by (layer, bytes)")


def v1(rng, n, auth):
    p = bytes(rng.randrange(256) for _ in range(n))
    h = bytes([rng.choice([1, 2, 4, 5]) if auth else 0]) + bytes(rng.randrange(256) for _ in range(8))
    if auth:
        h += bytes(rng.randrange(256) for _ in range(16))
    return h + bytes([n % 256]) + p


def rakp1(rng, ulen):
    return bytes([rng.randrange(256), 0, 0, 0]) + bytes(rng.randrange(256) for _ in range(20)) + \
        bytes([rng.randrange(16) | (rng.randrange(2) << 4), 0, 0, ulen]) + bytes(rng.randrange(256) for _ in range(ulen))


def run(ch, build):
    core.proof_status(ch, "C08", build)
    rng = ch.rng
    maxlen = 200 if ch.quick() else 300
    cases = []
    for n in range(0, maxlen + 1):
        for auth in (False, True):
            if n < 256:
                cases.append(("v1session", v1(rng, n, auth)))
        for name in L.V2:
            for authd in (False, True):
                for oem in (False, True):
                    if ch.quick() and (n % 4 != hash((name, authd, oem)) % 4) and n > 40:
                        continue
                    cases.append((name, L.v2session(rng, name, payload=bytes(rng.randrange(256) for _ in range(n)), auth=authd, oem=oem)))
        nfs = range(64) if (n < 8 or not ch.quick()) else [rng.randrange(64), 0x2c + rng.randrange(4), 6, 7]
        for nf in nfs:
            if (nf in (0x2c, 0x2d) and n < 1) or (nf in (0x2e, 0x2f) and n < 3):
                continue      # group / OEM messages carry their body code / enterprise number
            cases.append(("message", L.message(rng, netfn=nf, n=n)))
    for ulen in range(0, 17):
        for _ in range(10):
            cases.append(("rakp1", rakp1(rng, ulen)))
    cmds = ["rt %s %s" % (name, L.hx(b)) for name, b in cases]
    go = core.harness(cmds)
    mo = core.oracle(cmds)
    for (name, b), c, g, m in zip(cases, cmds, go, mo):
        base = name.split(":")[0]
        desc = {"kind": "c08", "layer": base, "len": len(b)}
        ch.note_case("c08-" + base + (":" + name.split(":")[1] if base == "v2session" else ""), c)
        if not g.startswith("ok "):
            ch.violation(desc, {"input": c, "impl": g, "what": "a canonical encoding was not decoded / re-serialised"}); continue
        rest = g[3:]
        hex2, shows = rest.split(" ", 1)
        first, second = shows.split(" || ")
        if hex2 != L.hx(b):
            ch.violation(desc, {"input": c, "what": "re-serialised bytes differ from the original", "reserialised": hex2})
        elif first != second:
            ch.violation(desc, {"input": c, "what": "decoding the serialisation of a value does not give the value back", "first": first, "second": second})
        elif g != m:
            ch.corr_break(desc, {"input": c, "impl": g[:300], "model": m[:300]})
    # the same through values that have decoded something else before (forall old in the theorems): the prior
    # content is a canonical encoding of the same layer of another kind (for messages: a group-extension or OEM
    # message, whose extra fields must not survive)
    by_layer = {}
    for name, b in cases:
        by_layer.setdefault(name, []).append(b)
    special = [L.message(rng, netfn=nf, n=6) for nf in (0x2c, 0x2d, 0x2e, 0x2f) for _ in range(3)]
    pri = []
    for (name, b), g in zip(cases, go):
        if name == "message":
            prior = rng.choice(special)
        else:
            prior = rng.choice(by_layer[name])
        if ch.quick() and len(b) > 60 and rng.randrange(4):
            continue
        pri.append((name, prior, b, g))
        if name.startswith("v2session") and len(b) > 24:
            # ... or a packet that was REFUSED: cut off after its payload, inside its pad, inside its AuthCode (what a
            # decoder leaves behind on its error paths - in the layer and in the integrity algorithm it shares with the
            # next packet - is part of "the previous contents")
            for cut in rng.sample(range(len(b) - 22, len(b)), 2 if ch.quick() else 8):
                pri.append((name, rng.choice(by_layer[name])[:cut] if rng.randrange(2) else b[:cut], b, g))
    gp = core.harness(["rtp %s %s %s" % (name, L.hx(prior), L.hx(b)) for name, prior, b, _ in pri])
    for (name, prior, b, g), g2 in zip(pri, gp):
        ch.note_case("c08-reused-" + name.split(":")[0], L.hx(prior) + "|" + L.hx(b))
        if g2 != g:
            ch.violation({"kind": "c08", "layer": name.split(":")[0], "reused": True},
                         {"input": "rtp %s %s %s" % (name, L.hx(prior), L.hx(b)), "what": "decoding the serialisation into a value that held "
                          "another packet before does not give the value back (the round trip depends on the previous contents)",
                          "fresh": g[:400], "reused": g2[:400]})
    # AES: every payload length
    plains = []
    for n in range(0, maxlen + 1):
        plains.append((bytes(rng.randrange(256) for _ in range(16)), L.aes_plain(rng, n)))
    cts = core.oracle(["cbcenc %s %s %s" % (L.AESKEY.hex(), iv.hex(), pt.hex()) for iv, pt in plains])
    cmds = ["rt %s %s" % (L.AES, (iv + bytes.fromhex(ct)).hex()) for (iv, _), ct in zip(plains, cts)]
    go = core.harness(cmds)
    tie = []
    for (iv, pt), c, g in zip(plains, cmds, go):
        n = len(pt) - 1 - pt[-1]
        desc = {"kind": "c08", "layer": "aes", "len": n}
        ch.note_case("c08-aes", c)
        if not g.startswith("ok "):
            ch.violation(desc, {"input": c, "impl": g, "what": "a canonical AES payload was not decoded / re-serialised"}); tie.append(None); continue
        hex2, shows = g[3:].split(" ", 1)
        first, second = shows.split(" || ")
        want = "ok x" + (pt[:n].hex() or "-")
        if first != want or second != want or len(hex2) != len(c.split(" ")[2]):
            ch.violation(desc, {"input": c, "what": "AES round trip lost or changed the payload / length", "first": first, "second": second, "want": want})
        tie.append("rtaes %s %s %s" % (L.AESKEY.hex(), hex2[:32], c.split(" ")[2]))
    mo = core.oracle([t for t in tie if t])
    k = 0
    for t, g, c in zip(tie, go, cmds):
        if t is None:
            continue
        m = mo[k]; k += 1
        hex2 = g[3:].split(" ", 1)[0]
        if not m.startswith("ok " + hex2 + " "):
            ch.corr_break({"kind": "c08", "layer": "aes"}, {"input": c, "impl": hex2, "model": m[:200]})
    ch.extra["max_payload"] = maxlen
    return ch.finish(rule=RULE, assumptions=["the IV of a re-serialised AES payload is read back from the implementation's output"])


def replay(ch, build, path):
    import json
    r = json.load(open(path)); c = r["detail"]["input"]
    g = core.harness([c])[0]
    bad = False
    if c.startswith("rtp "):
        w = c.split(" "); c0 = "rt %s %s" % (w[1], w[3])
        g0 = core.harness([c0])[0]
        print("input:", c); print("reused:", g[:400]); print("fresh :", g0[:400])
        bad = g != g0
    else:
        m = core.oracle([c])[0] if not c.startswith("rt aes") else ""
        print("input:", c); print("impl :", g[:400]); print("model:", m[:400])
        if g.startswith("ok "):
            hex2, shows = g[3:].split(" ", 1); first, second = shows.split(" || ")
            bad = (not c.startswith("rt aes") and hex2 != c.split(" ")[2]) or first != second or (m != "" and g != m)
        else:
            bad = True
    if bad:
        print("VIOLATION property=C08 replay=%s" % path)
    return 1 if bad else 0
