"""C14 — SDR repository retrieval returns one consistent, complete set of records."""
from . import core, conn, hist, hs, layers as L

RULE = ("generated repositories: 1..40 records, IDs anywhere in 0x0000..0xFFFE (sparse, unordered, first ID zero or non-zero), "
        "types full (0x01) / compact (0x02) / locator (0x11, 0x12) / OEM (0xC0), Full Sensor Record bodies of 43..64 bytes with all "
        "four ID-string encodings and lengths from 0, served by the simulated BMC (reservation semantics, Next chaining in storage "
        "order); predicate: exactly the Full Sensor Records, each once, under its own ID, every field equal to the reference decoding "
        "(Coq decode_fsr, tied to the specification by C07).  Modification (new content, newer addition or erase timestamp) or "
        "reservation loss injected before each Get SDR / info request of the walk in turn: predicate: the returned set is the "
        "snapshot of a single repository state (the state in force during the last walk), or an error - never a mixture.  tie: Coq "
        "walk over the same repository.  distinct by repository content / injection point")

TYPES = [0x01, 0x01, 0x01, 0x02, 0x11, 0x12, 0xC0]


def gen_repo(rng, n, first_zero=None):
    # record ID 0000h addresses "the first record" in Get SDR, so only the first record may carry it
    ids = rng.sample(range(1, 0xFFFF), n)
    if first_zero is True:
        ids[0] = 0
    recs = []
    for i in ids:
        t = rng.choice(TYPES)
        if t == 0x01:
            enc = rng.randrange(4)
            # (21 eight-bit characters, or 28 six-bit ones, make the record body exactly 64 bytes - the largest a Full Sensor
            # Record can be, and the most the walk reads in one request)
            c = rng.choice([0, 0, 1, 2, 3, 4, 5, 7, 8, 11, 16, 21, 21, 28, 31])
            need = {0: c, 3: c, 1: (c + 1) // 2, 2: c - c // 4}[enc]
            if enc in (0, 3) and c == 1:
                c, need = 2, 2
            while need > 21:
                c -= 1; need = {0: c, 3: c, 1: (c + 1) // 2, 2: c - c // 4}[enc]
            body = bytearray(rng.randrange(256) for _ in range(43 + need))
            body[42] = (enc << 6) | c
            body = bytes(body)
        else:
            body = bytes(rng.randrange(256) for _ in range(rng.randrange(5, 60)))
        data = bytes([i & 255, i >> 8, 0x51, t, len(body)]) + body
        recs.append({"id": i, "data": data.hex(), "type": t, "body": body.hex()})
    return recs


def snapshot(recs, dec):
    """expected value string for a repository"""
    parts = []
    for r in sorted([r for r in recs if r["type"] == 0x01], key=lambda r: r["id"]):
        parts.append("%d=%s" % (r["id"], dec[r["body"]]))
    return " ".join(parts)


def run(ch, build):
    core.proof_status(ch, "C14", build)
    rng = ch.rng
    nrepo = 24 if ch.quick() else 200
    repos = []
    for k in range(nrepo):
        n = rng.choice([1, 2, 3, 5, 8, 13, 20, 40]) if k > 4 else [1, 1, 2, 3, 40][k]
        repos.append(gen_repo(rng, n, first_zero=(k % 3 == 0) if k % 3 != 2 else None))
    # reference decoding of every body
    bodies = sorted(set(r["body"] for rp in repos for r in rp if r["type"] == 0x01))
    # (also the bodies of the replacement repositories generated below)
    inj = []
    ninj = 12 if ch.quick() else 120
    for k in range(ninj):
        a = gen_repo(rng, rng.choice([2, 3, 4, 6]), first_zero=rng.random() < 0.5)
        b = gen_repo(rng, rng.choice([1, 2, 3, 5]), first_zero=rng.random() < 0.5)
        inj.append((a, b))
        bodies += [r["body"] for rp in (a, b) for r in rp if r["type"] == 0x01]
    # related states: the later repository keeps the records the walk is in the middle of (same IDs, same order) but has
    # lost earlier ones and gained later ones - a walk that resumes instead of restarting returns a set no state ever held
    for k in range(6 if ch.quick() else 60):
        a = gen_repo(rng, rng.choice([4, 5, 6]), first_zero=False)
        for r in a[:2]:
            if r["type"] != 0x01:      # make sure something already collected can disappear
                r2 = gen_repo(rng, 1)[0]
                while r2["type"] != 0x01:
                    r2 = gen_repo(rng, 1)[0]
                data = bytes([r["id"] & 255, r["id"] >> 8, 0x51, 0x01, len(bytes.fromhex(r2["body"]))]) + bytes.fromhex(r2["body"])
                r.update(type=0x01, body=r2["body"], data=data.hex())
        extra = gen_repo(rng, 2)
        b = [dict(r) for r in a[rng.choice([1, 2]):]] + [r for r in extra if r["id"] not in [x["id"] for x in a] and r["id"] != 0]
        inj.append((a, b))
        bodies += [r["body"] for rp in (a, b) for r in rp if r["type"] == 0x01]
    # same IDs, same order, same record lengths, different CONTENT (a sensor replaced by another of the same size - record
    # IDs may be reassigned on modification): whatever was read before the change must not survive into the result
    for k in range(6 if ch.quick() else 60):
        a = gen_repo(rng, rng.choice([3, 4, 6]), first_zero=rng.random() < 0.3)
        for r in a[:3]:
            if r["type"] != 0x01:
                r2 = gen_repo(rng, 1)[0]
                while r2["type"] != 0x01:
                    r2 = gen_repo(rng, 1)[0]
                data = bytes([r["id"] & 255, r["id"] >> 8, 0x51, 0x01, len(bytes.fromhex(r2["body"]))]) + bytes.fromhex(r2["body"])
                r.update(type=0x01, body=r2["body"], data=data.hex())
        b = []
        for r in a:
            r = dict(r)
            if r["type"] == 0x01:
                body = bytearray(bytes.fromhex(r["body"]))
                for pos in rng.sample([p for p in range(len(body)) if p != 42], 6):
                    body[pos] ^= rng.randrange(1, 256)
                r["body"] = bytes(body).hex()
                r["data"] = (bytes.fromhex(r["data"])[:5] + bytes(body)).hex()
            b.append(r)
        inj.append((a, b))
        bodies += [r["body"] for rp in (a, b) for r in rp if r["type"] == 0x01]
    bodies = sorted(set(bodies))
    decs = core.oracle(["dec fsr _ %s" % b for b in bodies])
    dec = {}
    for b, d in zip(bodies, decs):
        # drop the payload token, same flattening as the harness ("ok,f1,f2,...")
        toks = d.split(" ")
        dec[b] = ",".join(toks[:-1])
    scns, meta = [], []
    for k, rp in enumerate(repos):
        su = hist.SUITES[k % 9]
        scns.append({"bmc": conn.default_bmc(seed=31 + k, suites=[[100, su[0], su[1], su[2]]], sdrs=[{"id": r["id"], "data": r["data"]} for r in rp],
                                             addition=1000, erase=900),
                     "timeout_ms": 40, "steps": [hs.open_step(suites=[su]), {"op": "sdr", "conn": "session", "ctx_ms": 8000}]})
        meta.append(("plain", rp, None))
    # injections: learn the number of requests of an undisturbed retrieval, then inject before each
    probe = [{"bmc": conn.default_bmc(seed=61 + k, suites=[[100, 1, 1, 1]], sdrs=[{"id": r["id"], "data": r["data"]} for r in a], addition=1000, erase=900),
              "timeout_ms": 40, "steps": [hs.open_step(suites=[(1, 1, 1)]), {"op": "sdr", "conn": "session", "ctx_ms": 8000}]} for k, (a, b) in enumerate(inj)]
    pouts = conn.run_scenarios(probe)
    for k, ((a, b), po) in enumerate(zip(inj, pouts)):
        nreq = len(po["steps"][1]["sent"])
        points = range(nreq) if not ch.quick() else sorted(set([0, 1, 2, nreq - 1] + rng.sample(range(nreq), min(nreq, 2))))
        for at in points:
            for kind in ("modify_add", "modify_erase", "cancel_reservation", "modify_same_second"):
                if ch.quick() and kind not in ("modify_add", "modify_same_second") and (at + k) % 3:
                    continue
                ev = {"before": at, "kind": "modify_sdr" if kind.startswith("modify") else "cancel_reservation",
                      "sdrs": [{"id": r["id"], "data": r["data"]} for r in b],
                      "addition": 1001 if kind == "modify_add" else 1000, "erase": 901 if kind == "modify_erase" else 900}
                # modify_same_second: the content changes and the reservation is cancelled, but both timestamps (one-second
                # resolution) stay: only the lost reservation tells; whatever is returned must still be ONE state
                s = dict(probe[k]); s = {"bmc": probe[k]["bmc"], "timeout_ms": 40,
                                        "steps": [probe[k]["steps"][0], {"op": "sdr", "conn": "session", "ctx_ms": 12000, "events": [ev]}]}
                scns.append(s); meta.append((kind, a, (b, at, nreq)))
    outs = conn.run_scenarios(scns)
    walk_lines, widx = [], []
    for i, ((kind, rp, extra), scn, out) in enumerate(zip(meta, scns, outs)):
        res = out["steps"][1]
        desc = {"kind": "c14", "family": kind, "records": len(rp), "first_id": rp[0]["id"]}
        ch.note_case("c14-" + kind, "%s|%s" % ([r["data"] for r in rp], extra and (extra[1], [r["data"] for r in extra[0]])))
        if res.get("panic"):
            ch.violation(dict(desc, kind="panic"), {"scenario": scn, "panic": res["panic"]}); continue
        impl = res.get("value", "") if res["err"] == "nil" else "err:" + res["err"]
        if kind == "plain":
            want = snapshot(rp, dec)
            if impl != want:
                ch.violation(desc, {"scenario": scn, "what": "retrieved set differs from the repository's Full Sensor Records", "impl": impl[:600], "want": want[:600]})
            walk_lines.append("sdrwalk %s" % (",".join("%d=%s" % (r["id"], r["data"]) for r in rp) or ".")); widx.append((i, impl, desc, scn))
        else:
            b, at, nreq = extra
            old, new = snapshot(rp, dec), snapshot(b, dec)
            allowed = {new} if kind.startswith("modify") else {old}
            if kind == "cancel_reservation":
                allowed = {old}
            if kind == "modify_same_second":
                allowed = {old, new}    # no client can tell after the last reservation-checked request; never a mixture
            if res["err"] != "nil":
                continue      # an error is acceptable
            if impl not in allowed:
                what = "mixture of two repository states" if impl not in (old, new) else "stale snapshot returned although the repository changed during the walk"
                ch.violation(desc, {"scenario": scn, "what": what, "impl": impl[:600], "old": old[:300], "new": new[:300], "inject_before_request": at})
    wm = core.oracle(walk_lines)
    for (i, impl, desc, scn), mo in zip(widx, wm):
        mv = mo[3:].strip() if mo.startswith("ok") else "err"
        iv = impl if not impl.startswith("err") else "err"
        if mv != iv:
            ch.corr_break(desc, {"scenario": scn, "impl": iv[:500], "model": mv[:500]})
    ch.extra["repositories"] = nrepo; ch.extra["injections"] = len(scns) - nrepo
    return ch.finish(rule=RULE, assumptions=["the outer back-off of RetrieveSDRRepository is the real exponential one (>= 250 ms per injected retry)",
                                             "as C10"])


def replay(ch, build, path):
    from . import c10
    return c10.replay(ch, build, path)
