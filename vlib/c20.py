"""C20 — primitive conversions, exhaustive correspondence Go == Impl model == Spec."""
from . import core

RULE = ("every case is one call of a primitive; domains are enumerated completely where finite "
        "(all bytes, all widths x values, all nibbles/6-bit codes at every position of strings of 0..31 characters, "
        "all period bytes, whole-second durations); a case is distinct by its input line; all are non-trivial "
        "except repeated inputs")


def gen_cases(ch):
    rng = ch.rng
    fam = []   # (family, impl_cmd, spec_cmd or None, literal expected or None)
    for b in range(256):
        fam.append(("bcd", "bcd %d" % b, "spec_bcd %d" % b, None))
        fam.append(("ones", "ones %d" % b, "spec_ones %d" % b, None))
        fam.append(("rdur", "rdur %d" % b, "spec_rdur %d" % b, None))
        if b < 128:
            fam.append(("entity", "ent %d" % b, None,
                        "%s %s" % ("true" if b <= 0x5f else "false", "true" if b >= 0x60 else "false")))
        else:
            fam.append(("entity", "ent %d" % b, None, None))
    for w in range(1, 17):
        for v in range(1 << w):
            fam.append(("twos", "twos %d %d %d" % (v >> 8, v & 255, w), "spec_twos %d %d" % (w, v), None))
    for fmt in list(range(0, 8)) + [63, 255]:
        for raw in range(256):
            fam.append(("parse", "parse %d %d" % (fmt, raw), "spec_interpret %d %d" % (fmt, raw), None))
    # checksum: every length 0..64, one byte swept at a random position, plus random strings
    for ln in range(0, 65):
        base = [rng.randrange(256) for _ in range(ln)]
        if ln == 0:
            fam.append(("checksum", "checksum -", None, "0"))
            continue
        pos = rng.randrange(ln)
        for x in range(256):
            bs = list(base); bs[pos] = x
            exp = (-sum(bs)) % 256
            fam.append(("checksum", "checksum %s" % bytes(bs).hex(), None, str(exp)))
    return fam


def string_cases(ch):
    """(family, str-cmd, expected, pack-cmd-for-oracle or None)"""
    rng = ch.rng
    runes = [48, 49, 50, 51, 52, 53, 54, 55, 56, 57, 32, 45, 46, 58, 44, 95]
    out = []   # (family, enc, c, payload spec: ('nib', ns, tail) / ('six', cs, tail) / ('raw', bytes), expected)
    # BCD plus: every nibble at every position of strings of 0..31 characters
    for c in range(0, 32):
        positions = range(c) if c else [None]
        for p in positions:
            for nib in (range(16) if p is not None else [0]):
                ns = [rng.randrange(16) for _ in range(c)]
                if p is not None:
                    ns[p] = nib
                tail = bytes(rng.randrange(256) for _ in range(rng.choice([0, 0, 1, 3])))
                exp = "ok %s %d" % (bytes(runes[n] for n in ns).hex() or "-", (c + 1) // 2)
                out.append(("bcdplus", 1, c, ("nib", ns, tail), exp))
        # one byte short -> error
        if c > 0:
            ns = [rng.randrange(16) for _ in range(c)]
            out.append(("bcdplus-short", 1, c, ("nibshort", ns, b""), "err"))
    # packed 6-bit: every code at every position
    for c in range(0, 32):
        positions = range(c) if c else [None]
        for p in positions:
            for code in (range(64) if p is not None else [0]):
                cs = [rng.randrange(64) for _ in range(c)]
                if p is not None:
                    cs[p] = code
                tail = bytes(rng.randrange(256) for _ in range(rng.choice([0, 0, 1, 2])))
                exp = "ok %s %d" % (bytes(x + 0x20 for x in cs).hex() or "-", c - c // 4)
                out.append(("packed6", 2, c, ("six", cs, tail), exp))
        if c > 0:
            cs = [rng.randrange(64) for _ in range(c)]
            out.append(("packed6-short", 2, c, ("sixshort", cs, b""), "err"))
    # 8-bit ASCII + Latin-1 (encodings 3 and 0): every byte value, every length
    for enc in (3, 0):
        for c in range(0, 32):
            for rep in range(8 if c else 1):
                bs = bytes(rng.randrange(256) for _ in range(c))
                tail = bytes(rng.randrange(256) for _ in range(rng.choice([0, 0, 2])))
                data = bs + tail
                if c == 0:
                    exp = "ok - 0"           # no ID string: zero characters, nothing consumed
                elif len(data) < 2:
                    exp = None               # 1 character: reserved by the specification; tie only
                else:
                    exp = "ok %s %d" % (bs.hex(), c)
                out.append(("latin1", enc, c, ("raw", data), exp))
            if c >= 2:
                bs = bytes(rng.randrange(256) for _ in range(c - 1))
                out.append(("latin1-short", enc, c, ("raw", bs), "err"))
        for x in range(256):
            out.append(("latin1", enc, 2, ("raw", bytes([x, 255 - x])), "ok %s 2" % bytes([x, 255 - x]).hex()))
    return out


def run(ch, build):
    core.proof_status(ch, "C20", build)
    fam = gen_cases(ch)
    impl_cmds = [f[1] for f in fam]
    spec_cmds = [f[2] for f in fam if f[2] is not None]
    go = core.harness(impl_cmds)
    model_all = core.oracle(impl_cmds + spec_cmds)
    model = model_all[:len(impl_cmds)]
    spec_out = iter(model_all[len(impl_cmds):])
    spec = []
    for f in fam:
        if f[2] is not None:
            spec.append(next(spec_out))
        else:
            spec.append(f[3])
    by = {}
    for i, f in enumerate(fam):
        by.setdefault(f[0], []).append(i)
    for name, idx in by.items():
        ch.compare(name, [impl_cmds[i] for i in idx], [go[i] for i in idx], [model[i] for i in idx],
                   [spec[i] for i in idx],
                   descs=[{"kind": name} for _ in idx])
    # strings: payload packed by the Spec side
    sc = string_cases(ch)
    pack_cmds = []
    for (name, enc, c, pl, exp) in sc:
        if pl[0] in ("nib", "nibshort"):
            pack_cmds.append("spec_pack_nibbles %s" % (bytes(pl[1]).hex() or "-"))
        elif pl[0] in ("six", "sixshort"):
            pack_cmds.append("spec_pack6 %s" % (bytes(pl[1]).hex() or "-"))
    packed = iter(core.oracle(pack_cmds))
    cmds, exps, descs = [], [], []
    for (name, enc, c, pl, exp) in sc:
        if pl[0] == "raw":
            data = pl[1]
        else:
            h = next(packed)
            data = bytes.fromhex(h) if h != "-" else b""
            if pl[0].endswith("short"):
                data = data[:-1]
            else:
                data = data + pl[2]
        cmds.append("str %d %d %s" % (enc, c, data.hex() or "-"))
        exps.append(exp)
        descs.append({"kind": "str", "enc": enc, "c": c, "family": name})
    go = core.harness(cmds)
    model = core.oracle(cmds)
    by = {}
    for i, (name, *_r) in enumerate(sc):
        by.setdefault(name, []).append(i)
    for name, idx in by.items():
        ch.compare("str-" + name, [cmds[i] for i in idx], [go[i] for i in idx], [model[i] for i in idx],
                   [exps[i] for i in idx], descs=[descs[i] for i in idx])
    # durations -> byte: every whole-second duration up to 64 days (thorough) / a stride plus all
    # unit boundaries (quick)
    top = 64 * 86400
    if ch.quick():
        ds = set(range(0, 7300)) | set(range(0, top + 1, 41))
        for b in (60, 3600, 86400, top):
            for k in range(1, 64):
                for d in (-2, -1, 0, 1):
                    ds.add(max(0, min(top, b * k + d)))
        ds = sorted(ds)
    else:
        ds = range(0, top + 1)
    cmds = ["rbyte %d" % d for d in ds]
    go = core.harness(cmds)
    model_all = core.oracle(cmds + ["spec_rbyte %d" % d for d in ds])
    ch.compare("rbyte", cmds, go, model_all[:len(cmds)], model_all[len(cmds):])
    # the checksum as the wire sees it: IPMI messages of every NetFn class serialised by the library into a serialize
    # buffer that has been used before (as every connection's is) must carry the two two's-complement checksums
    from . import layers as L
    msgs = [L.message(ch.rng, netfn=nf, n=n) for nf in (0x06, 0x07, 0x0a, 0x2c, 0x2d, 0x2e, 0x2f, 0x04)
            for n in ((0, 1, 2, 5, 16, 40) if ch.quick() else range(0, 64)) if not (nf in (0x2c, 0x2d) and n < 1) and not (nf in (0x2e, 0x2f) and n < 3)]
    cmds = ["rt message %s" % L.hx(m) for m in msgs]
    go = core.harness(cmds)
    mo = core.oracle(cmds)
    ch.compare("message-checksums-on-the-wire", cmds, go, mo, mo)
    ch.exhaustive = True
    ch.extra["exhaustive_note"] = ("all finite domains enumerated completely; durations: %s" %
                                   ("every whole second 0..64 days" if not ch.quick() else
                                    "all of 0..7299 s, a stride of 41 s up to 64 days, and +-2 s around every unit multiple (thorough tier: every second)"))
    # the conversions are functions of their arguments - also when several goroutines use them at once (one per connection)
    for k, out in enumerate(core.harness(["concprim 16 %d %d" % (1500 if ch.quick() else 20000, ch.rng.randrange(1 << 30)) for _ in range(3)])):
        ch.note_case("c20-concurrent", str(k))
        if out != "ok":
            ch.violation({"kind": "c20-concurrent"}, {"what": "a conversion returned another result when other goroutines were converting too", "detail": out})
    return ch.finish(rule=RULE, assumptions=[
        "Go's float conversions in rollingAvgPeriodByte (Seconds/Minutes/Hours) are modelled as integer division; the exhaustive duration sweep checks that model against the code",
    ])


def replay(ch, build, path):
    import json
    r = json.load(open(path))
    cmd = r["detail"]["input"]
    go = core.harness([cmd])[0]
    model = core.oracle([cmd])[0]
    print("input:", cmd); print("impl :", go); print("model:", model); print("spec :", r["detail"].get("spec"))
    bad = (r["detail"].get("spec") is not None and go != r["detail"]["spec"]) or go != model
    if bad:
        print("VIOLATION property=C20 replay=%s" % path)
    return 1 if bad else 0
