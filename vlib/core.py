"""Shared machinery of the /verif checks: build steps, running the oracle
(extracted Coq model) and the Go harness, triage, evidence, replay files."""
import fcntl, hashlib, json, os, random, re, subprocess, sys, time

ROOT = os.path.dirname(os.path.dirname(os.path.abspath(__file__)))
COQ = os.path.join(ROOT, "coq")
ORACLE_DIR = os.path.join(ROOT, "oracle")
HARNESS_DIR = os.path.join(ROOT, "harness")
GEN_DIR = os.path.join(ROOT, "gen")
ORACLE = os.path.join(ORACLE_DIR, "oracle")
HARNESS = os.path.join(HARNESS_DIR, "harness")
GOENV = dict(os.environ, GOFLAGS="-mod=mod", GOPROXY="off", GOSUMDB="off",
             GOTOOLCHAIN="local", CGO_ENABLED=os.environ.get("CGO_ENABLED", "1"))

FORBIDDEN = re.compile(
    r"\bAdmitted\b|\badmit\b|\bAxiom\b|\bParameter\b|\bConjecture\b|Unset\s+Guard|"
    r"bypass_check|type-in-type|impredicative-set|\bAdmit Obligations\b|Unset\s+Positivity|"
    r"Unset\s+Universe")


def log(*a):
    print(*a, file=sys.stderr, flush=True)


def sh(cmd, cwd=None, env=None, timeout=3600, check=False):
    p = subprocess.run(cmd, cwd=cwd, env=env, shell=isinstance(cmd, str),
                       stdout=subprocess.PIPE, stderr=subprocess.STDOUT,
                       timeout=timeout, text=True)
    if check and p.returncode != 0:
        raise RuntimeError("command failed: %s\n%s" % (cmd, p.stdout[-4000:]))
    return p.returncode, p.stdout


class Lock:
    def __init__(self, path):
        self.path = path
    def __enter__(self):
        self.f = open(self.path, "w")
        fcntl.flock(self.f, fcntl.LOCK_EX)
    def __exit__(self, *a):
        fcntl.flock(self.f, fcntl.LOCK_UN)
        self.f.close()


def coq_sources():
    out = []
    for d in ("theories", "props", "gen"):
        p = os.path.join(COQ, d)
        if os.path.isdir(p):
            for f in sorted(os.listdir(p)):
                if f.endswith(".v"):
                    out.append(os.path.join(d, f))
    return out


def scan_forbidden():
    """grep the whole development for escapes; returns list of hits."""
    hits = []
    for rel in coq_sources() + [os.path.join("..", "oracle", "Extract.v")]:
        p = os.path.join(COQ, rel)
        if not os.path.exists(p):
            continue
        txt = open(p).read()
        # strip comments (non-nested approximation is enough: we never nest)
        txt_nc = re.sub(r"\(\*.*?\*\)", "", txt, flags=re.S)
        for m in FORBIDDEN.finditer(txt_nc):
            hits.append("%s: %s" % (rel, m.group(0)))
    return hits


def build_all(verbose=False):
    """Regenerate Generated.v from /repo, build the Coq development (full .vo
    build, make -k so that the model still builds when a proof is broken),
    re-extract + rebuild the oracle when the model changed, rebuild the harness
    from /repo's working tree.  Returns a dict describing what happened."""
    info = {"gen_ok": True, "gen_log": "", "make_rc": 0, "make_log": "",
            "oracle_ok": True, "harness_ok": True, "harness_log": ""}
    with Lock(os.path.join(COQ, ".lock")):
        t0 = time.time()
        # 1. translator: /repo -> coq/gen/Generated.v
        gen_bin = os.path.join(GEN_DIR, "gen")
        if os.path.isdir(GEN_DIR) and os.path.exists(os.path.join(GEN_DIR, "main.go")):
            rc, out = sh("cp /repo/go.sum go.sum 2>/dev/null; go build -o gen . ", cwd=GEN_DIR, env=GOENV)
            if rc != 0:
                info["gen_ok"] = False; info["gen_log"] = out
            else:
                os.makedirs(os.path.join(COQ, "gen"), exist_ok=True)      # (untracked: absent in a fresh checkout)
                tmp = os.path.join(COQ, "gen", "Generated.v.new")
                rc, out = sh([gen_bin, "-repo", "/repo", "-out", tmp], cwd=GEN_DIR, env=GOENV)
                if rc != 0:
                    info["gen_ok"] = False; info["gen_log"] = out
                    # keep the last good Generated.v so the model still builds,
                    # but remember the translator failed
                else:
                    dst = os.path.join(COQ, "gen", "Generated.v")
                    new = open(tmp).read()
                    old = open(dst).read() if os.path.exists(dst) else None
                    if new != old:
                        os.replace(tmp, dst)
                    else:
                        os.remove(tmp)
        # 2. Coq build
        write_coqproject()
        if not os.path.exists(os.path.join(COQ, "Makefile")) or \
           os.path.getmtime(os.path.join(COQ, "_CoqProject")) > os.path.getmtime(os.path.join(COQ, "Makefile")):
            sh("coq_makefile -f _CoqProject -o Makefile", cwd=COQ, check=True)
        rc, out = sh("timeout 3000 make -k -j16 2>&1", cwd=COQ, timeout=3100)
        info["make_rc"] = rc
        info["make_log"] = out
        # 3. oracle
        try:
            need = not os.path.exists(ORACLE)
            if not need:
                om = os.path.getmtime(ORACLE)
                for f in os.listdir(os.path.join(COQ, "theories")):
                    if f.endswith(".vo") and os.path.getmtime(os.path.join(COQ, "theories", f)) > om:
                        need = True
                for f in os.listdir(os.path.join(COQ, "gen")):
                    if f.endswith(".vo") and os.path.getmtime(os.path.join(COQ, "gen", f)) > om:
                        need = True
                for f in ("Extract.v", "oracle.ml", "conv.ml"):
                    if os.path.getmtime(os.path.join(ORACLE_DIR, f)) > om:
                        need = True
            if need:
                rc, out = sh("./build.sh", cwd=ORACLE_DIR, timeout=1200)
                if rc != 0:
                    info["oracle_ok"] = False
                    info["oracle_log"] = out
        except Exception as e:  # pragma: no cover
            info["oracle_ok"] = False; info["oracle_log"] = str(e)
        # 4. harness, always from the current working tree of /repo
        rc, out = sh("./build.sh", cwd=HARNESS_DIR, env=GOENV, timeout=1200)
        if rc != 0:
            info["harness_ok"] = False
            info["harness_log"] = out
        info["build_s"] = round(time.time() - t0, 1)
    return info


def write_coqproject():
    lines = ["-Q theories BMC", "-Q gen BMCGen", "-Q props BMCProps"] + coq_sources()
    txt = "\n".join(lines) + "\n"
    p = os.path.join(COQ, "_CoqProject")
    if not os.path.exists(p) or open(p).read() != txt:
        open(p, "w").write(txt)


def vo_ok(rel_v):
    """a .vo exists and is newer than its source"""
    v = os.path.join(COQ, rel_v)
    vo = v + "o"
    return os.path.exists(vo) and os.path.getmtime(vo) >= os.path.getmtime(v)


def theorems_in(rel_v):
    txt = open(os.path.join(COQ, rel_v)).read()
    txt = re.sub(r"\(\*.*?\*\)", "", txt, flags=re.S)
    return re.findall(r"^\s*(?:Theorem|Corollary)\s+([A-Za-z0-9_']+)", txt, flags=re.M)


def print_assumptions(modname, thms):
    """Ask Coq for the axioms each theorem depends on (re-loads the .vo)."""
    src = "From BMCProps Require Import %s.\n" % modname
    for t in thms:
        src += 'Print Assumptions %s.\n' % t
    tmpd = os.path.join(COQ, ".pa")
    os.makedirs(tmpd, exist_ok=True)
    f = os.path.join(tmpd, "PA_%s_%d.v" % (modname, os.getpid()))
    open(f, "w").write(src)
    rc, out = sh(["coqc", "-Q", "theories", "BMC", "-Q", "gen", "BMCGen", "-Q", "props", "BMCProps", f],
                 cwd=COQ, timeout=600)
    for ext in ("", "o", "os", "ok"):
        try: os.remove(f + ext)
        except OSError: pass
    for g in os.listdir(tmpd):
        if g.startswith("PA_%s_%d" % (modname, os.getpid())) or g.startswith(".PA_%s_%d" % (modname, os.getpid())):
            try: os.remove(os.path.join(tmpd, g))
            except OSError: pass
    axioms = []
    if rc != 0:
        return None, out
    blocks = re.split(r"(?=Closed under the global context|Axioms:)", out)
    closed = out.count("Closed under the global context")
    for m in re.finditer(r"^([A-Za-z_][A-Za-z0-9_.']*)\s*:", out, flags=re.M):
        if m.group(1) not in ("Axioms",):
            axioms.append(m.group(1))
    return {"closed": closed, "axioms": sorted(set(axioms)), "n": len(thms)}, out


def coqchk(modname, timeout=3000):
    """thorough tier: re-check every compiled property file and everything they depend on with the independent
    checker and list the axioms of the whole context (coqchk -o).  One run per tree: the result is cached under
    the digest of all compiled files, so the twenty thorough checks of one tree share it."""
    import glob
    vos = sorted(glob.glob(os.path.join(COQ, "*", "*.vo")))
    h = hashlib.sha1()
    for v in vos:
        h.update(v.encode()); h.update(hashlib.sha1(open(v, "rb").read()).digest())
    key = h.hexdigest()
    cache = os.path.join(COQ, ".coqchk_cache.json")
    with Lock(os.path.join(COQ, ".coqchk.lock")):
        try:
            c = json.load(open(cache))
            if c.get("key") == key:
                return c["ok"], c["axioms"], c["out"]
        except (OSError, ValueError, KeyError):
            pass
        mods = ["BMCProps." + os.path.basename(v)[:-3] for v in vos if os.path.basename(os.path.dirname(v)) == "props"]
        rc, out = sh(["coqchk", "-silent", "-o", "-Q", "theories", "BMC", "-Q", "gen", "BMCGen", "-Q", "props", "BMCProps"] + mods,
                     cwd=COQ, timeout=timeout)
        axioms = []
        m = re.search(r"\* Axioms:\s*(.*?)(?:\n\s*\n|\n\* |\Z)", out, flags=re.S)
        if m:
            axioms = [a.strip() for a in m.group(1).split("\n") if a.strip() and a.strip() != "<none>"]
        json.dump({"key": key, "ok": rc == 0, "axioms": axioms, "out": out[-4000:]}, open(cache, "w"))
        return rc == 0, axioms, out


def run_lines(binary, lines, timeout=3600, cwd=None):
    """feed lines to a line-protocol binary, return the list of output lines"""
    if not lines:
        return []
    p = subprocess.run([binary], input="\n".join(lines) + "\n", stdout=subprocess.PIPE,
                       stderr=subprocess.PIPE, text=True, timeout=timeout, cwd=cwd)
    out = p.stdout.split("\n")
    if out and out[-1] == "":
        out.pop()
    if p.returncode != 0 or len(out) != len(lines):
        raise RuntimeError("%s: rc=%d, %d lines for %d inputs; stderr: %s" %
                           (os.path.basename(binary), p.returncode, len(out), len(lines), p.stderr[-2000:]))
    return out


def run_parallel(binary, lines, shards=16, timeout=3600):
    """same as run_lines, sharded over processes (order preserved)"""
    if len(lines) < 2000:
        return run_lines(binary, lines, timeout)
    import concurrent.futures as cf
    n = len(lines)
    size = (n + shards - 1) // shards
    chunks = [lines[i:i + size] for i in range(0, n, size)]
    with cf.ThreadPoolExecutor(max_workers=shards) as ex:
        outs = list(ex.map(lambda c: run_lines(binary, c, timeout), chunks))
    res = []
    for o in outs:
        res.extend(o)
    return res


def oracle(lines, **kw):
    return run_parallel(ORACLE, lines, **kw)


def harness(lines, **kw):
    return run_parallel(HARNESS, lines, **kw)


def load_known():
    p = os.path.join(ROOT, "known_findings.json")
    if not os.path.exists(p):
        return []
    return json.load(open(p)).get("findings", [])


def finding_matches(f, prop, desc):
    if f.get("property") != prop or f.get("status") != "known":
        return False
    for k, v in f.get("match", {}).items():
        dv = desc.get(k)
        if isinstance(v, list):
            if dv not in v:
                return False
        elif dv != v:
            return False
    return True


class Check:
    """One run of one property's check."""
    def __init__(self, prop, tier, seed):
        self.prop, self.tier, self.seed = prop, tier, seed
        self.rng = random.Random(seed)
        self.t0 = time.time()
        self.evaluations = 0
        self.distinct = set()
        self._sampled = {}
        self.samples = []
        self.hist = {}
        self.violations = []      # (desc, detail) not matched by a known finding
        self.known_hits = {}      # finding id -> count
        self.corr_breaks = []     # model != impl where the predicate still holds
        self.proof = None
        self.notes = []
        self.exhaustive = None
        self.extra = {}
        self.known = load_known()

    def quick(self):
        return self.tier == "quick"

    def count(self, family, n=1):
        self.hist[family] = self.hist.get(family, 0) + n

    def sample(self, s, cap=6):
        if len(self.samples) < cap:
            self.samples.append(s)

    def note_case(self, family, key, nontrivial=True):
        self.evaluations += 1
        self.count(family)
        # one written-out case per family (up to 8), unless the check supplies its own samples
        if family not in self._sampled and len(self._sampled) < 8:
            self._sampled[family] = {"family": family, "case": str(key)[:400]}
        if nontrivial:
            self.distinct.add(hashlib.blake2b(("%s|%s" % (family, key)).encode(), digest_size=8).digest())

    def violation(self, desc, detail):
        """a case on which the property's own predicate fails on the implementation"""
        for f in self.known:
            if finding_matches(f, self.prop, desc):
                self.known_hits.setdefault(f["id"], [0, f.get("what", "")])[0] += 1
                return
        self.violations.append((desc, detail))

    def corr_break(self, desc, detail):
        """model and implementation differ but the predicate holds / is not decidable here"""
        for f in self.known:
            if finding_matches(f, self.prop, desc):
                self.known_hits.setdefault(f["id"], [0, f.get("what", "")])[0] += 1
                return
        self.corr_breaks.append((desc, detail))

    # ---- standard three-way comparison ----
    def compare(self, family, cmds, go, model, spec=None, descs=None, nontrivial=None):
        """cmds[i]: the input line; go/model: outputs of the implementation and
        of the Impl model; spec: the value the specification demands (None =
        no independent expectation for this case: only the tie is checked)."""
        for i, c in enumerate(cmds):
            nt = True if nontrivial is None else nontrivial[i]
            self.note_case(family, c, nt)
            d = dict(descs[i]) if descs else {}
            d.setdefault("kind", family)
            d.setdefault("input", c)
            if spec is not None and spec[i] is not None and go[i] != spec[i]:
                self.violation(d, {"input": c, "impl": go[i], "spec": spec[i], "model": model[i]})
            elif go[i] != model[i]:
                self.corr_break(d, {"input": c, "impl": go[i], "model": model[i],
                                    "spec": None if spec is None else spec[i]})
        if cmds:
            k = self.rng.randrange(len(cmds))
            self.sample({"family": family, "input": cmds[k], "impl": go[k], "model": model[k],
                         "spec": None if spec is None else spec[k]})

    # ---- finishing ----
    def finish(self, level="proof", technique_note="", assumptions=None, rule=""):
        wall = round(time.time() - self.t0, 2)
        os.makedirs(os.path.join(ROOT, "evidence"), exist_ok=True)
        os.makedirs(os.path.join(ROOT, "replays"), exist_ok=True)
        rc = 0
        out_lines = []
        for fid, (n, what) in sorted(self.known_hits.items()):
            out_lines.append("KNOWN-FINDING: property=%s %s (%s; %d cases this run)" % (self.prop, what, fid, n))
        proof = self.proof or {}
        proof_broken = bool(proof) and proof.get("discharged", 0) != proof.get("obligations", 0)
        if self.violations:
            desc, detail = self.violations[0]
            path = self.write_replay("violation", desc, detail, len(self.violations))
            out_lines.append("VIOLATION property=%s replay=%s" % (self.prop, path))
            rc = 1
        elif self.corr_breaks or proof_broken:
            if self.corr_breaks:
                desc, detail = self.corr_breaks[0]
                detail = dict(detail, broken="correspondence between the Coq model and the implementation",
                              count=len(self.corr_breaks))
            else:
                desc = {"kind": "proof"}
                detail = {"broken": "proof obligation", "theorems_not_checked": proof.get("failed", []),
                          "log": proof.get("log", "")[-3000:]}
            path = self.write_replay("unproved", desc, detail, len(self.corr_breaks))
            out_lines.append("VIOLATION property=%s replay=%s no-failing-input-found" % (self.prop, path))
            rc = 1
        cov = {
            "evaluations": self.evaluations,
            "distinct_nontrivial": len(self.distinct),
            "rule": rule,
            "samples": self.samples or list(self._sampled.values()),
            "input_distribution": self.hist,
            "obligations": proof.get("obligations", 0),
            "discharged": proof.get("discharged", 0),
            "checker_cmd": proof.get("checker_cmd", ""),
            "trusted_base": proof.get("trusted_base", []),
            "theorems": proof.get("theorems", []),
            "axioms_reported": proof.get("axioms", []),
            "known_findings_hit": {k: v[0] for k, v in self.known_hits.items()},
            "correspondence_mismatches": len(self.corr_breaks),
        }
        if proof_broken or not proof.get("obligations"):
            # not a proof-level result on this run: the schema's proof keys promise discharged >= 1
            level = "other"
            cov["checker_cmd_attempted"] = cov.pop("checker_cmd")
            cov["explanation"] = ("proof obligations of this property did not all check on this tree (%d of %d); the run below is "
                                  "the search for a failing input" % (proof.get("discharged", 0), proof.get("obligations", 0)))
        if self.exhaustive is not None:
            cov["exhaustive"] = self.exhaustive
        cov.update(self.extra)
        ev = {"property_id": self.prop, "tier": self.tier, "seed": self.seed, "level": level,
              "coverage": cov, "assumptions": assumptions or [], "wall_s": wall,
              "violations": len(self.violations) + (1 if (rc and not self.violations) else 0)}
        json.dump(ev, open(os.path.join(ROOT, "evidence", "%s.json" % self.prop), "w"), indent=1)
        for l in out_lines:
            print(l)
        print("%s %s: %d evaluations, %d distinct, %d/%d obligations, %.1fs -> %s" % (
            self.prop, self.tier, self.evaluations, len(self.distinct),
            proof.get("discharged", 0), proof.get("obligations", 0), wall, "FAIL" if rc else "ok"))
        return rc

    def write_replay(self, kind, desc, detail, count):
        body = {"property": self.prop, "kind": kind, "seed": self.seed, "tier": self.tier,
                "descriptor": desc, "detail": detail, "similar_cases": count}
        h = hashlib.sha1(json.dumps(body, sort_keys=True, default=str).encode()).hexdigest()[:12]
        path = os.path.join(ROOT, "replays", "%s-%s.json" % (self.prop, h))
        json.dump(body, open(path, "w"), indent=1, default=str)
        return os.path.relpath(path, ROOT)


TRUSTED_BASE_COMMON = [
    "Coq 8.16.1 kernel incl. the vm_compute reduction machine (finite sweeps); no native_compute; default guard/positivity/universe checks",
    "hand-written Gallina model of the Go code (coq/theories), tied to /repo by the correspondence run of this check (OCaml extraction of the same definitions vs the Go harness built from /repo's working tree with -tags verif)",
    "Coq extraction with ExtrOcamlBasic only (Extract Inductive for bool, option, list, prod, unit, sumbool, sumor; no Extract Constant); OCaml driver oracle/oracle.ml + conv.ml",
    "translator gen/ (Go constants and tables -> coq/gen/Generated.v), when the property's theorems mention Generated",
    "Go harness /verif/harness and the add-only verif-tagged hook files in /repo",
    "Python orchestrator /verif/check + vlib",
]


def proof_status(ch, modname, build):
    """fill ch.proof from props/<modname>.v"""
    rel = os.path.join("props", modname + ".v")
    thms = theorems_in(rel)
    ok = vo_ok(rel) and build["make_rc"] in (0,) or vo_ok(rel)
    hits = scan_forbidden()
    proof = {"obligations": len(thms), "discharged": 0, "theorems": thms,
             "checker_cmd": "cd /verif/coq && coq_makefile -f _CoqProject -o Makefile && make -j16 (full .vo build) ; coqc Print Assumptions on props/%s.vo" % modname,
             "trusted_base": list(TRUSTED_BASE_COMMON), "failed": [], "axioms": []}
    if hits:
        proof["failed"] = ["forbidden construct: " + h for h in hits]
        proof["log"] = "\n".join(hits)
    elif ok:
        pa, out = print_assumptions(modname, thms)
        if pa is None:
            proof["failed"] = thms; proof["log"] = out
            if build.get("make_rc"):
                # a file this one depends on did not compile (its own .vo is then stale): name the file and the error
                ml = build.get("make_log", "")
                errs = re.findall(r'(File "[^"]+", line \d+[^\n]*\n(?:[^\n]*\n){0,12}?[^\n]*Error[^\n]*(?:\n[^\n]+){0,6})', ml)
                proof["log"] = "a dependency of props/%s.v no longer compiles:\n%s\n--- Print Assumptions said: %s" % (
                    modname, "\n".join(errs)[:4000] or ml[-3000:], out[-600:])
        else:
            proof["discharged"] = len(thms)
            proof["axioms"] = pa["axioms"]
            proof["trusted_base"].append(
                "Print Assumptions: %d/%d theorems closed under the global context; axioms: %s" %
                (pa["closed"], len(thms), ", ".join(pa["axioms"]) or "none"))
            if ch.tier == "thorough" and not os.environ.get("VERIF_NO_COQCHK"):
                try:
                    okc, ax, outc = coqchk(modname)
                except subprocess.TimeoutExpired:
                    okc, ax, outc = None, [], "coqchk timed out"
                if okc is None:
                    proof["trusted_base"].append("coqchk: timed out (not counted as a failure; the kernel's own check stands)")
                elif okc:
                    proof["trusted_base"].append("coqchk -silent -o on every property file (incl. BMCProps.%s) and all their dependencies: accepted; axioms in the whole context: %s"
                                                 % (modname, ", ".join(ax) or "none"))
                    proof["checker_cmd"] += " ; coqchk -silent -o BMCProps.C01 .. BMCProps.C20 (once per tree)"
                else:
                    proof["discharged"] = 0
                    proof["failed"] = thms
                    proof["log"] = "coqchk rejected the compiled development:\n" + outc[-3000:]
    else:
        proof["failed"] = thms
        proof["log"] = build.get("make_log", "")[-6000:]
    if not build.get("gen_ok", True):
        proof["discharged"] = 0
        proof["failed"] = thms
        proof["log"] = "translator gen failed: " + build.get("gen_log", "")[-3000:]
    ch.proof = proof
    return proof
