"""C07 — responses decode exactly as specified; malformed ones are rejected."""
from . import core, layers as L

SHAPES = {"deviceid": 2, "chassis": 2, "sessioninfo": 3, "sensorreading": 2, "fsr": 4, "opensessionrsp": 3,
          "rakp2": 2, "rakp4": 2}
C07_LAYERS = ["rmcp", "deviceid", "chassis", "authcaps", "ciphersuites", "sessioninfo", "setpriv", "guid", "reserve",
              "getsdrrsp", "sdrhdr", "sdrrepoinfo", "sensorreading", "fsr", "opensessionrsp", "rakp2", "rakp4",
              "dcmicaps", "dcmimand", "dcmiopt", "dcmimgmt", "dcmipower", "powerreading", "dcmisensor"]

RULE = ("field records are obtained by decoding arbitrary (random / structured / single-byte-swept) byte strings with the "
        "model, so every well-formed record can arise; the Spec encoder (SpecLayers.v, arithmetic, written from the "
        "specification tables) produces the wire bytes for each admissible shape (optional tails, ID-string encodings, "
        "DCMI versions); predicate = the implementation decodes those bytes to exactly that record; tie = the Impl model "
        "does too, into a fresh value and into one that decoded another (longer) response before.  Reject families: every single-byte corruption of either checksum and of every covered byte, cancelling "
        "two-byte corruptions, wrapper length field larger than the data, every length below each layer's minimum.  "
        "distinct by (layer, shape, spec bytes); non-trivial = the spec encoding exists and differs from a previous one")


def seeds(ch, name):
    rng = ch.rng
    reps = 60 if ch.quick() else 600
    out = []
    for n in L.plausible_lengths(name):
        for _ in range(reps):
            out.append(L.structured(rng, name, n))
    # single-byte sweeps over a base input: every position x 256 values
    lens = [x for x in L.plausible_lengths(name) if x >= 1]
    base_n = max(lens[: max(1, len(lens) - 1)])
    base = bytearray(L.structured(rng, name, base_n))
    npos = len(base)
    positions = range(npos) if (not ch.quick() or npos <= 24) else sorted(rng.sample(range(npos), 24))
    for p in positions:
        for x in range(256):
            b = bytearray(base); b[p] = x
            out.append(bytes(b))
    # extremes: all zero / all ones at each plausible length
    for n in L.plausible_lengths(name):
        out.append(bytes(n)); out.append(b"\xff" * n)
    return out


def fsr_strings(ch):
    """Full Sensor Records with every ID-string encoding and every length 0..31"""
    rng = ch.rng
    out = []
    for enc in range(4):
        for c in range(32):
            for _ in range(2 if ch.quick() else 10):
                b = bytearray(rng.randrange(256) for _ in range(43 + 40))
                b[42] = (enc << 6) | c
                need = {0: c, 3: c, 1: (c + 1) // 2, 2: c - c // 4}[enc]
                tail = rng.choice([0, 0, 1, 5])
                out.append(bytes(b[:43 + need + tail]))
    return out


def run(ch, build):
    core.proof_status(ch, "C07", build)
    gen_cmds, meta = [], []
    for name in C07_LAYERS:
        sd = seeds(ch, name)
        if name == "fsr":
            sd += fsr_strings(ch)
        for s in sd:
            for shape in range(SHAPES.get(name, 1)):
                gen_cmds.append("c07 %s %d %s" % (name, shape, L.hx(s)))
                meta.append((name, shape))
    gen_out = core.oracle(gen_cmds)
    dec_cmds, expect, dmeta = [], [], []
    seen = set()
    na = 0
    for (name, shape), o in zip(meta, gen_out):
        if o == "n/a":
            na += 1
            continue
        h, exp = o.split(" ", 1)
        key = (name, h)
        nontrivial = key not in seen
        seen.add(key)
        dec_cmds.append("dec %s _ %s" % (name, h))
        expect.append(exp)
        dmeta.append((name, shape, nontrivial))
    go = core.harness(dec_cmds)
    model = core.oracle(dec_cmds)
    by = {}
    for i, (name, shape, nt) in enumerate(dmeta):
        by.setdefault("roundtrip-%s" % name, []).append(i)
    for fam, idx in by.items():
        ch.compare(fam, [dec_cmds[i] for i in idx], [go[i] for i in idx], [model[i] for i in idx],
                   [expect[i] for i in idx],
                   descs=[{"kind": "c07-roundtrip", "layer": dmeta[i][0], "shape": dmeta[i][1]} for i in idx],
                   nontrivial=[dmeta[i][2] for i in idx])
    ch.extra["generator_not_applicable"] = na
    # the same through a layer value that has decoded ANOTHER response before (the theorems hold for every previous content
    # of the layer; the library itself reuses one command value across pages, entities and retries): the prior response is
    # a specification encoding of the same layer, preferably a longer one
    pools = {}
    for (name, shape, nt), c in zip(dmeta, dec_cmds):
        pools.setdefault(name, []).append(c.split(" ")[3])
    rcmds, rexp, rdesc = [], [], []
    for i, (name, shape, nt) in enumerate(dmeta):
        if not nt or (ch.quick() and ch.rng.randrange(6)):
            continue
        h = dec_cmds[i].split(" ")[3]
        cands = pools[name]
        longer = [x for x in (ch.rng.choice(cands) for _ in range(6)) if len(x) > len(h)]
        prior = longer[0] if longer else ch.rng.choice(cands)
        rcmds.append("dec %s %s %s" % (name, prior if prior != "-" else "-", h)); rexp.append(expect[i])
        rdesc.append({"kind": "c07-roundtrip-reused", "layer": name, "shape": shape})
    rgo = core.harness(rcmds)
    rmodel = core.oracle(rcmds)
    ch.compare("roundtrip-reused-layer", rcmds, rgo, rmodel, rexp, descs=rdesc)
    # reserved bits a BMC may set: bit 5 of the ID string type/length byte of a Full Sensor Record (IPMI v2.0 43.1, byte 48:
    # [7:6] type, [5] reserved, [4:0] length) is ignored - the record decodes to the same value
    vcmds, vexp, vdesc = [], [], []
    for i, (name, shape, nt) in enumerate(dmeta):
        h = dec_cmds[i].split(" ")[3]
        if name != "fsr" or h == "-" or len(h) < 86 or (ch.quick() and ch.rng.randrange(3)):
            continue
        b = bytearray(bytes.fromhex(h)); b[42] |= 0x20
        vcmds.append("dec fsr _ %s" % bytes(b).hex()); vexp.append(expect[i]); vdesc.append({"kind": "c07-reserved-bit", "layer": "fsr", "shape": shape})
    ch.compare("fsr-reserved-bit-set", vcmds, core.harness(vcmds), core.oracle(vcmds), vexp, descs=vdesc)
    reject(ch)
    return ch.finish(rule=RULE, assumptions=[
        "spec tables written from IPMI v2.0 rev 1.1 / DCMI 1.5 as reproduced in the code's field comments and pinned tests (the PDFs under /repo/specifications are LFS stubs); observations O1-O6 of DESIGN.md follow the library's documented choice",
    ])


def reject(ch):
    rng = ch.rng
    cmds, exp, fams = [], [], []
    def add(fam, layer, data, e):
        cmds.append("dec %s _ %s" % (layer, L.hx(data))); exp.append(e); fams.append(fam)
    # checksums: every single-byte corruption of a valid message is rejected unless it hits a byte no checksum
    # covers (none: byte 2 is checksum1, the last is checksum2, 0-1 are covered by 1, 3.. by 2)
    for _ in range(12 if ch.quick() else 120):
        m = L.message(rng, cc=0)
        add("message-valid", "message", m, None)
        for p in range(len(m)):
            for x in ([rng.randrange(256) for _ in range(6)] if ch.quick() else range(256)):
                if x == m[p]:
                    continue
                b = bytearray(m); b[p] = x
                add("message-1byte-corrupt", "message", bytes(b), "err")
        # both checksums wrong with cancelling deltas (the whole message still sums to 0)
        for _k in range(40 if ch.quick() else 400):
            d = rng.randrange(1, 256)
            p1 = rng.randrange(0, 3); p2 = rng.randrange(3, len(m))
            b = bytearray(m); b[p1] = (b[p1] + d) % 256; b[p2] = (b[p2] - d) % 256
            add("message-2byte-cancelling", "message", bytes(b), "err")
    # wrapper length field exceeding the data, every excess 1..300, both descriptor forms
    for name in L.V2[:2]:
        for oem in (False, True):
            for plen in (0, 1, 5, 16, 40):
                pkt = bytearray(L.v2session(rng, name, payload=bytes(rng.randrange(256) for _ in range(plen)), auth=False, oem=oem))
                off = 16 if oem else 10
                for excess in list(range(1, 20)) + [255, 256, 300, 65535 - plen]:
                    b = bytearray(pkt); v = plen + excess
                    if v > 65535:
                        continue
                    b[off] = v & 255; b[off + 1] = v >> 8
                    add("v2-length-exceeds", name, bytes(b), "err")
    # bodies shorter than the layer's minimum
    MIN = {"rmcp": 4, "selector": 1, "v1session": 10, "message": 7, "rakp1": 28, "rakp2": 8, "rakp4": 8, "deviceid": 11,
           "chassis": 3, "authcaps": 8, "ciphersuites": 1, "sessioninfo": 3, "setpriv": 1, "guid": 16, "reserve": 2,
           "getsdrrsp": 2, "sdrhdr": 5, "sdrrepoinfo": 14, "sensorreading": 3, "fsr": 43, "dcmicaps": 6, "dcmimand": 7,
           "dcmiopt": 5, "dcmimgmt": 6, "dcmipower": 4, "powerreading": 17, "dcmisensor": 2}
    for name, mn in MIN.items():
        for n in range(mn):
            for _ in range(2):
                add("below-minimum", name, L.structured(rng, name, n), "err" if not (name == "opensessionrsp") else None)
    for n in (0, 2, 3, 4, 5, 6):
        add("below-minimum", "opensessionrsp", L.structured(rng, "opensessionrsp", n), "err")
    for n in range(8, 40):    # a successful RAKP 2 needs both 16-byte fields
        b = bytearray(L.structured(rng, "rakp2", n)); b[1] = 0
        add("below-minimum", "rakp2", bytes(b), "err")
    for n in list(range(7, 36)) + list(range(37, 50)):   # a successful Open Session Response is exactly 36 bytes
        b = bytearray(L.structured(rng, "opensessionrsp", n)); b[1] = 0
        add("below-minimum", "opensessionrsp", bytes(b), "err")
    go = core.harness(cmds)
    model = core.oracle(cmds)
    by = {}
    for i, f in enumerate(fams):
        by.setdefault(f, []).append(i)
    for fam, idx in by.items():
        ch.compare("reject-" + fam, [cmds[i] for i in idx], [go[i] for i in idx], [model[i] for i in idx],
                   [exp[i] for i in idx], descs=[{"kind": "c07-reject", "family": fam} for _ in idx])


def replay(ch, build, path):
    import json
    r = json.load(open(path))
    cmd = r["detail"]["input"]
    go = core.harness([cmd])[0]; model = core.oracle([cmd])[0]
    print("input:", cmd); print("impl :", go); print("model:", model); print("spec :", r["detail"].get("spec"))
    bad = (r["detail"].get("spec") is not None and go != r["detail"]["spec"]) or go != model
    if bad:
        print("VIOLATION property=C07 replay=%s" % path)
    return 1 if bad else 0
