"""C09 — session sequence numbers strictly increase and are never reused."""
from . import core, conn, hist

RULE = ("histories of commands on one session (all 9 suites), each command with a per-attempt outcome script over "
        "{valid reply, node busy, timeout code, garbage, truncated body, lost reply, bad signature}, exhaustive to the stated "
        "depth plus longer random histories, and histories with a real 50 ms back-off in which a command's context is cancelled or "
        "expires between two attempts, followed by further commands; predicate: the session sequence numbers of the datagrams the (simulated and the "
        "specification's) BMC receives are 1,2,3,... in transmission order across the whole history, and session-less "
        "datagrams (commands and the handshake payloads) carry session ID 0 and sequence 0; tie: Coq session_loop reproduces "
        "every datagram. distinct by (command, script, suite, position in history)")


class Hook:
    def __init__(self):
        self.expect = {}      # scenario index -> next expected sequence number
    def __call__(self, ch, ctx):
        step, res = ctx["step"], ctx["res"]
        desc = dict(ctx["desc"], kind="c09")
        detail = {"scenario": ctx["scn"], "step_index": ctx["ti"]}
        if step.get("conn") == "session":
            nxt = self.expect.get(ctx["si"], 1)
            seqs = [e["seq"] for e in res["bmc"]]
            want = list(range(nxt, nxt + len(res["sent"])))
            # as the BMC model of the specification reads them
            spec = []
            for a in ctx["accepts"]:
                if a.startswith("ok"):
                    spec.append(int(a.split("seq=")[1].split(" ")[0]))
                else:
                    spec.append(None)
            if seqs != want or spec != want:
                ch.violation(desc, dict(detail, what="sequence numbers received %s (spec reading %s), expected %s" % (seqs, spec, want)))
            if not all(e["inorder"] for e in res["bmc"]):
                ch.violation(desc, dict(detail, what="BMC saw an out-of-order sequence number"))
            self.expect[ctx["si"]] = nxt + len(res["sent"])
        else:
            for e in res["bmc"]:
                if e["sid"] != 0 or e["seq"] != 0 or e["auth"] or e["enc"]:
                    ch.violation(desc, dict(detail, what="session-less datagram with session ID %d sequence %d" % (e["sid"], e["seq"])))


def run(ch, build):
    from . import c10
    h = Hook()
    core.proof_status(ch, "C09", build)
    depth = 3 if ch.quick() else 5
    # in-session histories
    alpha = hist.ALPHA_SS
    scripts = [s for s in hist.all_scripts(alpha, depth) if hist.useful(s, True)]
    for _ in range(80 if ch.quick() else 800):
        k = ch.rng.randrange(1, 9)
        scripts.append([ch.rng.choice(alpha) for _ in range(k)])
    ch.rng.shuffle(scripts)
    scns = hist.build_scenarios(ch, True, scripts, per_scn=ch.rng.choice([12, 20, 40]))
    outs = conn.run_scenarios(scns)
    # handshake payloads are session-less too
    for scn, out in zip(scns, outs):
        for step, res in zip(scn["steps"], out["steps"]):
            if step["op"] == "open":
                ch.note_case("c09-handshake", str(scn["bmc"]["suites"]))
                for e in res["bmc"]:
                    if e["sid"] != 0 or e["seq"] != 0 or e["auth"] or e["enc"]:
                        ch.violation({"kind": "c09", "conn": "handshake"}, {"scenario": scn, "event": e,
                                     "what": "handshake datagram with non-null session header"})
    hist.replay(ch, scns, outs, (h,), "c09")
    # histories in which a command ENDS between attempts - its context is cancelled or expires during a real back-off pause -
    # followed by further commands on the session: the numbers already transmitted must not be forgotten
    scns = []
    for k in range(4 if ch.quick() else 18):
        su = hist.SUITES[k % 9]
        pool = hist.command_pool(ch.rng, True)
        steps = [{"op": "open", "user": "admin", "password": b"secret".hex(), "priv": 4, "lookup": True, "suites": [list(su)]}]
        for j in range(6):
            steps.append({"op": "cmd", "conn": "session", "cmd": ch.rng.choice(pool), "script": ch.rng.choice([["busy"] * 6, ["garbage"] * 6, ["badsig", "busy", "c3", "busy", "c3"]]),
                          **ch.rng.choice([{"cancel_ms": 25}, {"cancel_ms": 75}, {"cancel_ms": 125}, {"ctx_ms": 75}, {"ctx_ms": 130}])})
            steps.append({"op": "cmd", "conn": "session", "cmd": ch.rng.choice(pool), "script": ch.rng.choice([["ok"], ["busy", "ok"]])})
        for j in range(3):
            # the context ends WHILE an attempt waits for its reply (deadline or cancellation before the per-attempt timeout)
            steps.append({"op": "cmd", "conn": "session", "cmd": ch.rng.choice(pool), "script": ch.rng.choice([["silence"], ["busy", "silence"]]),
                          **ch.rng.choice([{"ctx_ms": 15}, {"cancel_ms": 15}, {"ctx_ms": 70}])})
            steps.append({"op": "cmd", "conn": "session", "cmd": ch.rng.choice(pool), "script": ["ok"]})
        scns.append({"bmc": conn.default_bmc(seed=300 + k, suites=[[100, su[0], su[1], su[2]]]), "timeout_ms": 40, "backoff_ms": 50, "steps": steps})
    outs = conn.run_scenarios(scns)
    hist.replay(ch, scns, outs, (Hook(),), "c09")
    # the same numbering through the library's own UDP transport (sockets, deadlines): replies that arrive late but inside
    # the attempt's window, lost replies, temporary codes - one number per datagram the BMC receives, none twice
    scns = []
    for k in range(3 if ch.quick() else 9):
        su = hist.SUITES[k % 9]
        pool = [c for c in hist.command_pool(ch.rng, True)]
        steps = [{"op": "open", "user": "admin", "password": b"secret".hex(), "priv": 4, "lookup": True, "suites": [list(su)]}]
        for j in range(6):
            steps.append({"op": "cmd", "conn": "session", "cmd": ch.rng.choice(pool),
                          "script": ch.rng.choice([["slow:520"], ["slow:470"], ["busy", "slow:500"], ["slow:480", "busy", "ok"], ["ok"], ["c3", "ok"]])})
        # (per-attempt timeout 900 ms, replies after a good half of it: wide margins on both sides, the run shares the machine)
        scns.append({"bmc": conn.default_bmc(seed=330 + k, suites=[[100, su[0], su[1], su[2]]]), "timeout_ms": 900, "udp": True, "steps": steps})
    outs = conn.run_scenarios(scns, spread=True)
    hist.replay(ch, scns, outs, (Hook(),), "c09")
    # session-less histories
    scripts = [s for s in hist.all_scripts(hist.ALPHA_SL, depth) if hist.useful(s, False)]
    # replies whose wrapper carries a non-null session ID / sequence number (the library does not reject them):
    # whatever was received, the next session-less datagram carries the null header
    scripts += [["setbytes:6=%d;7=%d;10=%d;13=%d" % (ch.rng.randrange(1, 256), ch.rng.randrange(256), ch.rng.randrange(1, 256), ch.rng.randrange(256))]
                for _ in range(40)]
    # ... and when such a reply is NOT the end of the command - it carries node busy / timeout, is garbage behind the
    # wrapper, or answers another command - the retransmission that follows carries the null header again
    hdr = lambda: "setbytes:5=%d;6=%d;7=%d;10=%d;13=%d" % (ch.rng.choice([0x00, 0x40, 0x80, 0xc0]), ch.rng.randrange(1, 256), ch.rng.randrange(256),
                                                           ch.rng.randrange(1, 256), ch.rng.randrange(256))
    scripts += [[a + "|" + hdr(), "ok"] for a in ("busy", "c3", "busy", "truncbody") for _ in range(6)]
    scripts += [["busy|" + hdr(), "c3|" + hdr(), "ok"] for _ in range(6)]
    ch.rng.shuffle(scripts)
    scns = hist.build_scenarios(ch, False, scripts)
    outs = conn.run_scenarios(scns)
    hist.replay(ch, scns, outs, (h,), "c09")
    # ... and the handshake that follows such a reply
    scns = []
    for k in range(6):
        su = hist.SUITES[k]
        scns.append({"bmc": conn.default_bmc(seed=40 + k, suites=[[100, su[0], su[1], su[2]]]), "timeout_ms": 40, "steps": [
            {"op": "cmd", "conn": "sessionless", "cmd": {"name": "getsystemguid"}, "script": ["setbytes:6=68;7=51;10=7"]},
            {"op": "open", "user": "admin", "password": b"secret".hex(), "priv": 4, "lookup": True, "suites": [list(su)]},
            {"op": "cmd", "conn": "sessionless", "cmd": {"name": "authcaps", "p": [1, 14, 4]}, "script": ["ok"]}]})
    outs = conn.run_scenarios(scns)
    for scn, out in zip(scns, outs):
        for step, res in zip(scn["steps"], out["steps"]):
            ch.note_case("c09-after-nonnull-reply", str(scn["bmc"]["suites"]) + step["op"])
            if res.get("runaway"):
                ch.violation({"kind": "runaway", "conn": "sessionless-after-nonnull-reply"}, {"scenario": scn, "what": "unbounded retransmission"})
            for e in res["bmc"]:
                if e["kind"] in ("opensession", "rakp1", "rakp3", "ipmi-sessionless") and (e["sid"] != 0 or e["seq"] != 0 or e["auth"] or e["enc"]):
                    ch.violation({"kind": "c09", "conn": "sessionless-after-nonnull-reply"}, {"scenario": scn, "event": e,
                                 "what": "session-less datagram with session ID %d sequence %d" % (e["sid"], e["seq"])})
            if step["op"] != "cmd" and res["err"] != "nil":
                ch.violation({"kind": "c09", "conn": "sessionless-after-nonnull-reply"}, {"scenario": scn, "what": "handshake failed after a reply with a non-null header", "err": res.get("errtext")})
    ch.extra["depth"] = depth
    ch.exhaustive = True
    return ch.finish(rule=RULE, assumptions=["as C10"])


def replay(ch, build, path):
    from . import c10
    return c10.replay(ch, build, path, hooks=(Hook(),))
