"""Handshake scenarios and their replay (shared by C01, C02, C12)."""
from . import core, conn, hist


def open_step(user="admin", password=b"secret", kg=b"", priv=4, lookup=True, suites=None, script=None):
    st = {"op": "open", "user": user, "password": password.hex(), "kg": kg.hex(), "priv": priv, "lookup": lookup,
          "suites": [list(s) for s in (suites or [])]}
    if script:
        st["script"] = script
    return st


def split_exchanges(res):
    """group the transmissions of an 'open' step by payload type: discovery commands (00), 10, 12, 14"""
    groups = {"00": ([], []), "10": ([], []), "12": ([], []), "14": ([], [])}
    for s, d in zip(res["sent"], res["delivered"]):
        pt = s[10:12]
        pt = "%02x" % (int(pt, 16) & 0x3f)
        if pt in groups:
            groups[pt][0].append(s); groups[pt][1].append(d)
    return groups


def hs_line(step, res, suite):
    g = split_exchanges(res)
    rm = None
    if g["12"][0]:
        rm = g["12"][0][0][48:80]
    if rm is None:
        rm = "00" * 16
    return "hs %s %s %s %d %d %d %d %d %s %s %s %s" % (
        step["user"].encode().hex() or "-", step["password"] or "-", step.get("kg") or "-", step["priv"], 1 if step["lookup"] else 0,
        suite[0], suite[1], suite[2], rm, conn.script_arg(g["10"][1]), conn.script_arg(g["12"][1]), conn.script_arg(g["14"][1]))


def parse_hs(o):
    w = o.split(" ")
    d = {"ok": w[0] == "ok"}
    if not d["ok"]:
        d["err"] = w[1]
    for kv in w[1:]:
        if "=" in kv:
            k, v = kv.split("=", 1); d[k] = v
    d["sent"] = [] if d.get("sent", ".") == "." else d["sent"].split(",")
    return d


HS_ERR = {"incorrectpassword": "ErrIncorrectPassword"}


def tie_open(ch, fam, scn, step, res, model_out, suite, desc):
    m = parse_hs(model_out)
    g = split_exchanges(res)
    sent = g["10"][0] + g["12"][0] + g["14"][0]
    why = []
    if m["sent"] != sent:
        why.append("handshake datagrams differ")
    if m["ok"]:
        if res["err"] != "nil":
            why.append("model establishes a session, implementation returned %s" % res["err"])
        else:
            s = res["session"]
            if (m["sik"], m["k1"], m["k2"], int(m["local"]), int(m["remote"])) != (s["sik"], s["k1"], s["k2"], int(s["localid"]), int(s["remoteid"])):
                why.append("session keys / IDs differ from the model's")
    else:
        want = HS_ERR.get(m["err"], "deadline" if m["err"].startswith("payload") else "other")
        if res["err"] == "nil" or (want == "ErrIncorrectPassword") != (res["err"] == "ErrIncorrectPassword"):
            why.append("model: error %s, implementation: %s" % (m["err"], res["err"]))
    if why:
        ch.corr_break(desc, {"scenario": scn, "impl": {"err": res["err"], "errtext": res.get("errtext"), "session": res.get("session")},
                             "model": model_out[:400], "why": why})
    return m


def bmc_session_for(out, res):
    if res.get("session"):
        for b in out["bmc_sessions"]:
            if str(b["bmcid"]) == res["session"]["remoteid"]:
                return b
    return None
