"""Cross-check of the extraction path: a sample of the decoder cases the extracted OCaml oracle answered is
evaluated a second way, inside Coq by vm_compute on the same Gallina definitions, and the two answers are compared.
This validates Coq extraction (ExtrOcamlBasic), conv.ml and the driver's dispatch/printing for the decoders, which
are the bulk of the model; a disagreement is reported as a broken correspondence naming the extraction."""
import os, re
from . import core

PLAIN = ["rmcp", "selector", "v1session", "message", "opensessionrsp", "rakp1", "rakp2", "rakp4", "deviceid", "chassis",
         "authcaps", "ciphersuites", "sessioninfo", "setpriv", "guid", "reserve", "getsdrrsp", "sdrhdr", "sdrrepoinfo",
         "sensorreading", "fsr", "dcmicaps", "dcmimand", "dcmiopt", "dcmimgmt", "dcmipower", "powerreading", "dcmisensor"]


def coq_bytes(h):
    if h in ("-", ""):
        return "[]"
    return "[" + ";".join(str(b) for b in bytes.fromhex(h)) + "]"


def coq_expected(out):
    """the oracle's printed answer as a Gallina term of type option (res (list flat))"""
    if out == "olderr":
        return "None"
    if out == "err":
        return "Some Err"
    if out == "fault":
        return "Some Fault"
    assert out.startswith("ok"), out
    toks = out[2:].split()
    items = []
    for t in toks:
        if t in ("t", "f"):
            items.append("FB %s" % ("true" if t == "t" else "false"))
        elif t.startswith("x"):
            items.append("FY %s" % coq_bytes(t[1:]))
        else:
            items.append("FZ (%s)%%Z" % t)
    return "Some (Ok [" + "; ".join(items) + "])"


def decoder_term(layer):
    parts = layer.split(":")
    if parts[0] in PLAIN and len(parts) == 1:
        n = parts[0]
        return "run_decode decode_%s %s_zero show_%s" % (n, n, n)
    if parts[0] == "v2session" and len(parts) == 3:
        return ("(match integrity_sign %s %s with Some sg => run_decode (decode_v2session sg) v2session_zero show_v2session "
                "| None => fun _ _ => None end)" % (parts[1], coq_bytes(parts[2])))
    return None


HEADER = """From BMC Require Import Base Prim Layers Layers2 Hmac Dispatch.
From Coq Require Import ZArith.
Inductive flat := FZ (z : Z) | FB (b : bool) | FY (bs : bytes).
Definition flat_of (t : tok) : flat := match t with TN n => FZ (Z.of_N n) | TZ z => FZ z | TB b => FB b | TY bs => FY bs end.
Definition flat_eqb (a b : flat) : bool :=
  match a, b with
  | FZ x, FZ y => Z.eqb x y | FB x, FB y => Bool.eqb x y
  | FY x, FY y => if list_eq_dec N.eq_dec x y then true else false
  | _, _ => false end.
Fixpoint flats_eqb (a b : list flat) : bool :=
  match a, b with [], [] => true | x :: r, y :: s => flat_eqb x y && flats_eqb r s | _, _ => false end.
Definition same (got : option (res (list tok))) (want : option (res (list flat))) : bool :=
  match got, want with
  | None, None => true
  | Some (Ok ts), Some (Ok fs) => flats_eqb (map flat_of ts) fs
  | Some Err, Some Err => true
  | Some Fault, Some Fault => true
  | _, _ => false end.
Fixpoint failing (i : nat) (l : list bool) : list nat :=
  match l with [] => [] | b :: r => (if b then [] else [i]) ++ failing (S i) r end.
"""


def cross_check(ch, cmds, outs, k, tag):
    """cmds: oracle command lines ('dec layer old hex'), outs: the oracle's answers; evaluates k of them in Coq"""
    pool = [(c, o) for c, o in zip(cmds, outs) if c.startswith("dec ") and decoder_term(c.split(" ")[1]) and len(c) < 1500]
    if not pool:
        return 0
    step = max(1, len(pool) // k)
    sample = pool[::step][:k]
    lines = [HEADER, "Definition results : list bool := ["]
    items = []
    for c, o in sample:
        _, layer, old, h = c.split(" ")
        oldt = "None" if old == "_" else "(Some %s)" % coq_bytes(old)
        items.append("  same (%s %s %s) (%s)" % (decoder_term(layer), oldt, coq_bytes(h), coq_expected(o)))
    lines.append(";\n".join(items))
    lines.append("]%N.\nDefinition bad := Eval vm_compute in failing 0 results.\nPrint bad.\n")
    d = os.path.join(core.COQ, ".pa")
    os.makedirs(d, exist_ok=True)
    f = os.path.join(d, "Replay_%s_%d.v" % (tag, os.getpid()))
    open(f, "w").write("\n".join(lines))
    rc, out = core.sh(["coqc", "-Q", "theories", "BMC", "-Q", "gen", "BMCGen", "-Q", "props", "BMCProps", f], cwd=core.COQ, timeout=1200)
    for g in os.listdir(d):
        if g.startswith("Replay_%s_%d" % (tag, os.getpid())) or g.startswith(".Replay_%s_%d" % (tag, os.getpid())):
            try: os.remove(os.path.join(d, g))
            except OSError: pass
    m = re.search(r"bad\s*=\s*\[(.*?)\]", out, flags=re.S)
    if rc != 0 or not m:
        ch.corr_break({"kind": "extraction-crosscheck"}, {"broken": "the in-Coq evaluation of the sample did not run", "log": out[-2000:]})
        return 0
    idx = [int(x) for x in re.findall(r"\d+", m.group(1))]
    for i in idx[:5]:
        ch.corr_break({"kind": "extraction-crosscheck"},
                      {"broken": "extraction: the extracted OCaml model and vm_compute inside Coq disagree on the same Gallina definition",
                       "input": sample[i][0], "oracle": sample[i][1]})
    ch.extra["evaluated_inside_coq_as_well"] = len(sample)
    return len(sample)
