"""C06 — requests are encoded exactly as the IPMI and DCMI specifications define."""
from . import core, conn, hist, hs

RULE = ("request bodies: every field of every request whose domain is <= 2^16 swept exhaustively (in isolation, the other fields "
        "random), random values beyond, out-of-width values included (reported only through the tie); session-setup payloads "
        "(Open Session Request, RAKP 1 with user names of every length 0..20, RAKP 3 with codes of 0..32 bytes); predicate for values "
        "within the specification's field widths: the Spec parser (SpecRequests.v: pattern matching / positional arithmetic written "
        "from the tables) reads back exactly the caller's fields, and a user name longer than 16 bytes is refused with an error.  "
        "Composed datagrams (every command session-less through the real connection; in-session ones are C03): the Spec datagram "
        "parser reads RMCP 06 00 FF 07, a v2.0 wrapper with payload type IPMI, ID 0, sequence 0, length = payload, a message with "
        "rsAddr 20h, rqAddr 81h, the NetFn/command/body code of the specification's command table, the command's LUN, two valid "
        "checksums and the request data equal to the body.  tie: Coq ser_* give the same bytes.  distinct by request value")


def field_sweeps(ch):
    rng = ch.rng
    r = lambda n: rng.randrange(n)
    cases = []
    q = ch.quick()
    def sweep(dom, f):
        vals = range(dom) if (not q or dom <= 256) else sorted(set(list(range(0, dom, 257)) + [0, 1, dom - 1, dom // 2] + [r(dom) for _ in range(64)]))
        for v in vals:
            cases.append(f(v))
    sweep(256, lambda v: "authcaps:%d,%d,%d" % (r(2), v, r(16)))
    sweep(256, lambda v: "authcaps:%d,%d,%d" % (r(2), r(16), v))
    sweep(256, lambda v: "ciphersuites:%d,%d,%d" % (v, r(64), r(64)))
    sweep(256, lambda v: "ciphersuites:%d,%d,%d" % (r(16), v, r(64)))
    sweep(256, lambda v: "ciphersuites:%d,%d,%d" % (r(16), r(64), v))
    sweep(256, lambda v: "sessioninfo:%d,0,0" % v)
    sweep(256, lambda v: "sessioninfo:254,%d,0" % v)
    sweep(65536, lambda v: "sessioninfo:255,0,%d" % (v * 65521 % (1 << 32)))
    sweep(256, lambda v: "setpriv:%d" % v)
    sweep(65536, lambda v: "closesession:%d,0" % (v * 65537 % (1 << 32)))
    sweep(256, lambda v: "closesession:0,%d" % v)
    sweep(256, lambda v: "chassiscontrol:%d" % v)
    sweep(65536, lambda v: "getsdr:%d,%d,%d,%d" % (v, r(65536), r(256), r(256)))
    sweep(65536, lambda v: "getsdr:%d,%d,%d,%d" % (r(65536), v, r(256), r(256)))
    sweep(256, lambda v: "getsdr:%d,%d,%d,%d" % (r(65536), r(65536), v, r(256)))
    sweep(256, lambda v: "getsdr:%d,%d,%d,%d" % (r(65536), r(65536), r(256), v))
    sweep(256, lambda v: "sensorreading:%d" % v)
    sweep(256, lambda v: "dcmicaps:%d" % v) if False else None
    for v in range(1, 6):
        cases.append("dcmicaps:%d" % v)
    sweep(256, lambda v: "powerreading:%d,%d" % (v, rng.choice([0, 5, 60, 3600, 86400 * 3])))
    sweep(65536, lambda v: "powerreading:2,%d" % (v * 85 % (64 * 86400)))
    sweep(256, lambda v: "dcmisensorinfo:%d,%d,%d,%d" % (v, r(256), r(2) * r(256), r(256)))
    sweep(256, lambda v: "dcmisensorinfo:%d,%d,%d,%d" % (r(256), v, 0, r(256)))
    sweep(256, lambda v: "dcmisensorinfo:%d,%d,%d,%d" % (r(256), r(256), v, r(256)))
    sweep(256, lambda v: "dcmisensorinfo:%d,%d,0,%d" % (r(256), r(256), v))
    return [c for c in cases if c]


KIND = lambda spec: "none" if spec == "none" else spec.split(":")[0]


def run(ch, build):
    core.proof_status(ch, "C06", build)
    rng = ch.rng
    specs = field_sweeps(ch)
    go = core.harness(["serreq " + s for s in specs])
    mo = core.oracle(["serreq " + s for s in specs])
    shown = core.oracle(["showreq " + s for s in specs])
    parse_lines, pidx = [], []
    for i, (s, g) in enumerate(zip(specs, go)):
        if g.startswith("ok"):
            parse_lines.append("specbody %s %s" % (KIND(s), g[3:])); pidx.append(i)
    parsed = dict(zip(pidx, core.oracle(parse_lines)))
    for i, s in enumerate(specs):
        want, wf = shown[i].rsplit(" wf=", 1)
        desc = {"kind": "c06-body", "request": KIND(s)}
        ch.note_case("c06-body-" + KIND(s), s)
        if wf == "true":
            if not go[i].startswith("ok") or parsed.get(i) != "ok " + want:
                ch.violation(desc, {"input": "serreq " + s, "impl": go[i], "spec_reads": parsed.get(i), "caller": want})
                continue
        if go[i] != mo[i]:
            ch.corr_break(desc, {"input": "serreq " + s, "impl": go[i], "model": mo[i]})
    # ---- session-setup payloads ----
    lines, kinds, wants = [], [], []
    for _ in range(300 if ch.quick() else 5000):
        tag, priv, sid = rng.randrange(256), rng.randrange(16), rng.randrange(1 << 32)
        a, i, c = rng.randrange(64), rng.randrange(64), rng.randrange(64)
        lines.append("seropen %d %d %d %d %d %d" % (tag, priv, sid, a, i, c)); kinds.append("specopen")
        wants.append("ok %d %d %d %d %d %d" % (tag, priv, sid, a, i, c))
    # every length up to 40, and the lengths at which a narrower integer type would wrap (2^8, 2^16 and neighbours)
    wraps = [l for c in (255, 256, 512, 768, 1024, 65535, 65536) for l in range(c - 1, c + 18)]
    for ulen in list(range(0, 41)) + (wraps if not ch.quick() else rng.sample(wraps, 25) + [256, 257, 272, 273, 65536, 65552]):
        for _ in range((6 if ch.quick() else 60) if ulen <= 40 else 1):
            user = bytes(rng.randrange(256) for _ in range(ulen))
            tag, bid, rnd = rng.randrange(256), rng.randrange(1 << 32), bytes(rng.randrange(256) for _ in range(16))
            lk, pr = rng.randrange(2), rng.randrange(16)
            lines.append("serrakp1 %d %d %s %d %d %s" % (tag, bid, rnd.hex(), lk, pr, user.hex() or "-")); kinds.append("specrakp1")
            wants.append("err" if ulen > 16 else "ok %d %d %s %d %d %s" % (tag, bid, rnd.hex(), lk, pr, user.hex() or "-"))
    # user names made of multi-byte UTF-8 characters: at most 16 characters but more than 16 bytes (must be refused),
    # and at most 16 bytes (must be sent as given)
    alphabet = ["\u00fc", "\u00e9", "\u0434", "\u4e2d", "\u20ac", "\U0001f600", "a", "Z", "9"]
    for _ in range(60 if ch.quick() else 600):
        nchar = rng.randrange(1, 17)
        name = "".join(rng.choice(alphabet) for _ in range(nchar)).encode("utf-8")
        tag, bid, rnd = rng.randrange(256), rng.randrange(1 << 32), bytes(rng.randrange(256) for _ in range(16))
        lk, pr = rng.randrange(2), rng.randrange(16)
        lines.append("serrakp1 %d %d %s %d %d %s" % (tag, bid, rnd.hex(), lk, pr, name.hex())); kinds.append("specrakp1")
        wants.append("err" if len(name) > 16 else "ok %d %d %s %d %d %s" % (tag, bid, rnd.hex(), lk, pr, name.hex()))
    for clen in list(range(0, 33)):
        for _ in range(3 if ch.quick() else 30):
            tag, bid, code = rng.randrange(256), rng.randrange(1 << 32), bytes(rng.randrange(256) for _ in range(clen))
            st = rng.choice([0, 0, 0, 1, 0x0f])
            lines.append("serrakp3 %d %d %d %s" % (tag, st, bid, code.hex() or "-")); kinds.append("specrakp3")
            wants.append("ok %d %d %d %s" % (tag, st, bid, (code.hex() or "-") if st == 0 else "-"))
    go = core.harness(lines); mo = core.oracle(lines)
    pl, pi = [], []
    for i, g in enumerate(go):
        if g.startswith("ok"):
            pl.append("%s %s" % (kinds[i], g[3:])); pi.append(i)
    parsed = dict(zip(pi, core.oracle(pl)))
    for i, l in enumerate(lines):
        desc = {"kind": "c06-setup", "payload": kinds[i][4:]}
        ch.note_case("c06-" + kinds[i][4:], l)
        got = parsed.get(i, go[i])
        if got != wants[i]:
            ch.violation(desc, {"input": l, "impl": go[i], "spec_reads": got, "caller": wants[i]})
        elif go[i] != mo[i]:
            ch.corr_break(desc, {"input": l, "impl": go[i], "model": mo[i]})
    # ---- composed session-less datagrams through the real connection ----
    scns = []
    for _ in range(10 if ch.quick() else 100):
        pool = hist.command_pool(rng, False)
        scn = {"bmc": conn.default_bmc(seed=rng.randrange(1000), loose=True), "timeout_ms": 40, "steps": []}
        for c in pool:
            scn["steps"].append({"op": "cmd", "conn": "sessionless", "cmd": c, "script": ["ok"]})
        scns.append(scn)
    # ... and after replies that answer ANOTHER operation were received (the previous command's reply, duplicated): the
    # requests that follow - of the same and of every other operation - are still the table's
    for k in range(4 if ch.quick() else 30):
        pool = hist.command_pool(rng, False)
        scn = {"bmc": conn.default_bmc(seed=rng.randrange(1000), loose=True), "timeout_ms": 40, "steps": []}
        for rnd in range(2):
            for j, c in enumerate(pool):
                scn["steps"].append({"op": "cmd", "conn": "sessionless", "cmd": c, "ctx_ms": 400,
                                     "script": (["ccnobody:%d" % rng.choice([0xc1, 0xc9, 0xcc, 0xd5]), "ok"] if (j + k) % 3 == 0 else ["dupstep", "ok"])
                                     if (j and rnd == 0 and (j + k) % 2 == 0) else ["ok"]})
        scns.append(scn)
    # the same inside a session: what the BMC reads after decryption is the table's operation and the caller's body
    sscns = []
    for k in range(3 if ch.quick() else 18):
        su = hist.SUITES[k % 9]
        pool = [c for c in hist.command_pool(rng, True) if c["name"] not in ("setpriv", "chassiscontrol", "closesession")]
        steps = [hs.open_step(suites=[su])]
        for rnd in range(2):
            for j, c in enumerate(pool):
                steps.append({"op": "cmd", "conn": "session", "cmd": c, "ctx_ms": 400,
                              "script": (["ccnobody:%d" % rng.choice([0xc1, 0xc9, 0xcc, 0xd5]), "ok"] if (j + k) % 3 == 0 else ["dupstep", "ok"])
                              if (j and rnd == 0 and (j + k) % 2 == 0) else ["ok"]})
        steps.append({"op": "close"})
        sscns.append({"bmc": conn.default_bmc(seed=500 + k, suites=[[100, su[0], su[1], su[2]]], **({"first_session_id": 1} if k % 3 == 2 else {})),
                      "timeout_ms": 40, "steps": steps})
    souts = conn.run_scenarios(sscns)
    sb, sbi = [], []
    for scn, out in zip(sscns, souts):
        # Session.Close: a Close Session request (NetFn App, command 3Ch) naming the BMC's session ID (22.19), nothing else
        st, res = scn["steps"][-1], out["steps"][-1]
        bid = int(out["steps"][0]["session"]["remoteid"]) if out["steps"][0].get("session") else None
        ch.note_case("c06-session-close", str(scn["bmc"]))
        if bid is not None:
            want = bid.to_bytes(4, "little").hex()
            evs = res["bmc"]
            if not evs or any((e["kind"], e["accepted"], e["netfn"], e["cmd"], e["data"]) != ("ipmi-session", True, 6, 0x3c, want) for e in evs) \
                    or res["err"] != "nil":
                ch.violation({"kind": "c06-session-close"}, {"scenario": scn, "events": evs, "err": res["err"], "errtext": res.get("errtext"),
                             "what": "Close() must send Close Session with the managed system session ID %s as its request data" % want})
        for st, res in list(zip(scn["steps"], out["steps"]))[1:-1]:
            fn, body, ent, cmd = conn.cmd_op(st["cmd"])
            name = st["cmd"]["name"]
            desc = {"kind": "c06-session-after-stray", "cmd": name}
            ch.note_case("c06-session-after-stray", "%s|%s" % (st["cmd"], st["script"]))
            if res.get("panic"):
                ch.violation(dict(desc, kind="panic"), {"scenario": scn, "panic": res["panic"]}); continue
            if not res["bmc"]:
                ch.violation(desc, {"scenario": scn, "what": "nothing was transmitted"}); continue
            for e in res["bmc"]:
                got = (e["kind"], e["accepted"], e["rsaddr"], e["netfn"], e["lun"], e["rqaddr"], e["cmd"])
                want = ("ipmi-session", True, 0x20, fn, conn.cmd_lun(st["cmd"]), 0x81, cmd)
                if got != want:
                    ch.violation(desc, {"scenario": scn, "event": e, "what": "(kind, accepted, rsAddr, netFn, rsLUN, rqAddr, cmd) %s != %s" % (got, want)})
                    continue
                data = e["data"]
                if body and e["body"] != body:
                    ch.violation(desc, {"scenario": scn, "event": e, "what": "body code"}); continue
                sb.append("specbody %s %s" % ("none" if name in conn.NOBODY else name, data or "-")); sbi.append((scn, st, e))
                sb.append("showreq %s" % conn.cmd_reqspec(st["cmd"])); sbi.append(None)
    so = core.oracle(sb)
    for k in range(0, len(so), 2):
        scn, st, e = sbi[k]
        want, wf = so[k + 1].rsplit(" wf=", 1)
        if wf == "true" and so[k] != "ok " + want:
            ch.violation({"kind": "c06-session-after-stray", "cmd": st["cmd"]["name"]},
                         {"scenario": scn, "what": "request data read by the BMC is not the caller's request", "spec_reads": so[k], "caller": want, "event": e})
    hist.replay(ch, sscns, souts, (), "c06")
    outs = conn.run_scenarios(scns)
    dl, di = [], []
    for si, (scn, out) in enumerate(zip(scns, outs)):
        for ti, (st, res) in enumerate(zip(scn["steps"], out["steps"])):
            for dg in res["sent"]:
                dl.append("specsl " + dg); di.append((si, ti, dg))
    sp = core.oracle(dl)
    body_lines, bi = [], []
    for (si, ti, dg), o in zip(di, sp):
        st = scns[si]["steps"][ti]
        fn, body, ent, cmd = conn.cmd_op(st["cmd"])
        desc = {"kind": "c06-datagram", "cmd": st["cmd"]["name"]}
        ch.note_case("c06-datagram", "%s" % st["cmd"])
        if not o.startswith("ok"):
            ch.violation(desc, {"what": "the specification's parser rejects the datagram", "datagram": dg, "cmd": st["cmd"]}); continue
        f = o.split(" ")[1:]
        got = tuple(int(x) for x in f[:10])
        want = (0, 0, 0x20, fn, conn.cmd_lun(st["cmd"]), 0x81, int(f[6]), 0, cmd, body if body else 256)
        if got != want:
            ch.violation(desc, {"what": "header fields (id, seq, rsAddr, netFn, rsLUN, rqAddr, rqSeq, rqLUN, cmd, body) %s != %s" % (got, want), "datagram": dg})
            continue
        name = st["cmd"]["name"]
        body_lines.append("specbody %s %s" % ("none" if name in conn.NOBODY else name, f[10][1:])); bi.append((si, ti, dg))
        body_lines.append("showreq %s" % conn.cmd_reqspec(st["cmd"])); bi.append(None)
    bo = core.oracle(body_lines)
    for k in range(0, len(bo), 2):
        si, ti, dg = bi[k]
        want, wf = bo[k + 1].rsplit(" wf=", 1)
        if wf == "true" and bo[k] != "ok " + want:
            ch.violation({"kind": "c06-datagram", "cmd": scns[si]["steps"][ti]["cmd"]["name"]},
                         {"what": "request data of the datagram is not the caller's request", "spec_reads": bo[k], "caller": want, "datagram": dg})
    hist.replay(ch, scns, outs, (), "c06")
    ch.exhaustive = not ch.quick()
    return ch.finish(rule=RULE, assumptions=["out-of-width request fields (e.g. Channel >= 16) are outside the specification's encodable values and only tied to the model (DESIGN.md O4)"])


def replay(ch, build, path):
    import json
    r = json.load(open(path)); d = r["detail"]
    if "input" in d:
        go = core.harness([d["input"]])[0]; mo = core.oracle([d["input"]])[0]
        print("input:", d["input"]); print("impl :", go); print("model:", mo)
    print("VIOLATION property=C06 replay=%s" % path)
    return 1
