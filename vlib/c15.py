"""C15 — sensor readings are converted with the specification's formula."""
import math
from decimal import Decimal, getcontext
from fractions import Fraction
from . import core, conn, hist, hs

getcontext().prec = 60

RULE = ("all 256 raw bytes x 3 analog formats x 12 linearisation codes (exhaustive) for a boundary-complete set of (M, B, K1, K2) "
        "(each of M, B over {-512,-511,-1,0,1,2,255,511}, K1, K2 over {-8,-7,-1,0,1,7}; thorough: all 8^2 x 6^2, quick: a "
        "covering sample) plus random tuples; all 8 combinations of the reading-unavailable / scanning / event flags; non-linear "
        "codes 12..127 and format 3 must yield no reader.  predicate: the value equals L((M*x + B*10^K1)*10^K2) evaluated exactly "
        "(fractions) for the linear part and at 60 digits (decimal) for L, x per the record's format (Spec.interpret), relative "
        "error <= 1e-12 (absolute 1e-300), NaN/Inf exactly where the real function is undefined or the value exceeds float64; "
        "the two errors are returned exactly when the flags say so, unavailable first.  tie: Coq read_sensor (exact rational + "
        "lineariser code).  distinct by (M,B,K1,K2,format,linearisation,raw,flags)")

LN10 = Decimal(10).ln(); LN2 = Decimal(2).ln()


def lin(code, q):
    """the specification's linearisation functions on an exact rational; returns Decimal, 'undef' or 'huge'"""
    x = Decimal(q.numerator) / Decimal(q.denominator)
    try:
        if code == 0: return x
        if code == 1: return x.ln() if x > 0 else "undef"
        if code == 2: return x.log10() if x > 0 else "undef"
        if code == 3: return x.ln() / LN2 if x > 0 else "undef"
        if code in (4, 5, 6):
            e = x if code == 4 else (x * LN10 if code == 5 else x * LN2)
            if e > 800: return "huge"
            if e < -800: return Decimal(0)
            return e.exp()
        if code == 7: return 1 / x if x != 0 else "undef"
        if code == 8: return x * x
        if code == 9: return x * x * x
        if code == 10: return x.sqrt() if x >= 0 else "undef"
        if code == 11:
            if x == 0: return Decimal(0)
            r = (abs(x).ln() / 3).exp()
            return r if x > 0 else -r
    except Exception:
        return "undef"
    raise ValueError(code)


def interpret(fmt, raw):
    if fmt == 0: return raw
    if fmt == 1: return raw if raw < 128 else raw - 255
    if fmt == 2: return raw if raw < 128 else raw - 256
    return None


def fsr_body(rng, m, b, k1, k2, fmt, lin_code, number, lun=0):
    d = bytearray(rng.randrange(256) for _ in range(43))
    d[1] = (d[1] & 0xFC) | lun
    d[2] = number
    d[15] = (fmt << 6) | (d[15] & 0x3F)
    d[18] = lin_code & 0x7F
    mu = m & 0x3FF; bu = b & 0x3FF
    d[19] = mu & 255; d[20] = ((mu >> 8) << 6) | (d[20] & 0x3F)
    d[21] = bu & 255; d[22] = ((bu >> 8) << 6) | (d[22] & 0x3F)
    d[24] = ((k2 & 0xF) << 4) | (k1 & 0xF)
    d[42] = 0xC0
    return bytes(d)


def run(ch, build):
    core.proof_status(ch, "C15", build)
    rng = ch.rng
    mb = [-512, -511, -1, 0, 1, 2, 255, 511]; ks = [-8, -7, -1, 0, 1, 7]
    tuples = [(m, b, k1, k2) for m in mb for b in mb for k1 in ks for k2 in ks]
    # (the grid has 2304 factor tuples; with 3 formats x 12 linearisers x 256 raw bytes each, the thorough tier takes a
    # seeded sample of 70 of them plus 30 random ones - about 0.9 million readings - and the quick tier 13 + 6)
    tuples = rng.sample(tuples, 10 if ch.quick() else 70) + [(1, 0, 0, 0), (511, -512, 7, -8), (-512, 511, -8, 7)]
    tuples += [(rng.randrange(-512, 512), rng.randrange(-512, 512), rng.randrange(-8, 8), rng.randrange(-8, 8)) for _ in range(6 if ch.quick() else 30)]
    cases = []     # (fsr, rsp bytes, meta)
    for ti, (m, b, k1, k2) in enumerate(tuples):
        full = (ti < 3) or not ch.quick()
        for fmt in range(3):
            for lc in range(12):
                raws = range(256) if full else rng.sample(range(256), 6) + [0, 127, 128, 255]
                body = fsr_body(rng, m, b, k1, k2, fmt, lc, number=rng.randrange(256), lun=rng.randrange(4))
                for raw in raws:
                    cases.append((body, bytes([raw, 0x40, 0]), (m, b, k1, k2, fmt, lc, raw, 0x40)))
    # flags
    for flags in range(8):
        fb = (flags & 1) << 7 | ((flags >> 1) & 1) << 6 | ((flags >> 2) & 1) << 5
        for lc in (0, 3):
            body = fsr_body(rng, 2, 5, 1, -1, 0, lc, number=7)
            cases.append((body, bytes([100, fb, 0, 0]), (2, 5, 1, -1, 0, lc, 100, fb)))
    # no reader
    for lc in list(range(12, 128, 5 if ch.quick() else 1)):
        body = fsr_body(rng, 1, 0, 0, 0, rng.randrange(3), lc, number=1)
        cases.append((body, bytes([1, 0x40, 0]), (1, 0, 0, 0, body[15] >> 6, lc, 1, 0x40)))
    for lc in range(12):
        body = fsr_body(rng, 1, 0, 0, 0, 3, lc, number=1)
        cases.append((body, bytes([1, 0x40, 0]), (1, 0, 0, 0, 3, lc, 1, 0x40)))
    # scenarios: many reads per session
    scns, meta = [], []
    cur = None
    for ci, (body, rsp, me) in enumerate(cases):
        if cur is None or len(cur["steps"]) >= 400:
            su = hist.SUITES[len(scns) % 9]
            cur = {"bmc": conn.default_bmc(seed=21, suites=[[100, su[0], su[1], su[2]]]), "timeout_ms": 40, "steps": [hs.open_step(suites=[su])]}
            scns.append(cur)
        cur["steps"].append({"op": "bmcset", "bmcset": {"sensors": {str(body[2]): rsp.hex()}}})
        cur["steps"].append({"op": "sensor", "conn": "session", "fsr": body.hex()})
        meta.append((len(scns) - 1, len(cur["steps"]) - 1))
    outs = conn.run_scenarios(scns)
    model = core.oracle(["sensor %s %s" % (body.hex(), rsp.hex()) for (body, rsp, _) in cases])
    for (body, rsp, me), (si, ti), mo in zip(cases, meta, model):
        res = outs[si]["steps"][ti]
        m, b, k1, k2, fmt, lc, raw, fb = me
        desc = {"kind": "c15", "fmt": fmt, "lin": lc, "flags": fb}
        ch.note_case("c15-read", str(me))
        detail = {"fsr": body.hex(), "reading": rsp.hex(), "tuple": me, "impl": {"err": res["err"], "value": res.get("value")}, "model": mo}
        if res.get("panic"):
            ch.violation(dict(desc, kind="panic"), dict(detail, panic=res["panic"])); continue
        # --- the specification ---
        x = interpret(fmt, raw)
        if lc > 11 or x is None:
            want = "noreader"
        elif fb & 0x20:
            want = "ErrSensorReadingUnavailable"
        elif not (fb & 0x40):
            want = "ErrSensorScanningDisabled"
        else:
            q = (Fraction(m * x) + Fraction(b) * Fraction(10) ** k1) * Fraction(10) ** k2
            want = lin(lc, q)
        impl_err = res["err"]
        if isinstance(want, str) and want in ("noreader", "ErrSensorReadingUnavailable", "ErrSensorScanningDisabled"):
            if impl_err != want:
                ch.violation(desc, dict(detail, what="expected %s" % want))
        else:
            if impl_err != "nil":
                ch.violation(desc, dict(detail, what="a value was expected")); continue
            v = float(res["value"])
            if want == "undef":
                if not (math.isnan(v) or math.isinf(v)):
                    ch.violation(desc, dict(detail, what="the function is undefined here, a finite value was returned"))
            elif want == "huge":
                if not (math.isinf(v) or abs(v) > 1e300):
                    ch.violation(desc, dict(detail, what="value beyond float64 expected"))
            else:
                if math.isnan(v) or (math.isinf(v) and abs(want) < Decimal("1e308")):
                    ch.violation(desc, dict(detail, what="NaN/Inf where the exact value is %s" % want))
                elif not math.isinf(v):
                    dv = Decimal(v)
                    # float64 evaluation: 1e-12 relative, plus the conditioning of the lineariser at q (the argument itself
                    # carries a rounding error of a few ulp, which f amplifies by |q f'(q)|: for ln near 1 the result is
                    # tiny while that absolute error is not)
                    aq, aw = abs(Decimal(q.numerator) / Decimal(q.denominator)), abs(want)
                    cond = {1: Decimal(1), 2: Decimal("0.4343"), 3: Decimal("1.4427"), 4: aq * aw, 5: aq * aw * Decimal("2.3026"),
                            6: aq * aw * Decimal("0.6932"), 7: aw, 8: 2 * aw, 9: 3 * aw, 10: aw / 2, 11: aw / 3}.get(lc, aw)
                    tol = max(aw * Decimal("1e-12"), cond * Decimal("1e-13"), Decimal("1e-300"))
                    if abs(dv - want) > tol:
                        ch.violation(desc, dict(detail, what="value %r differs from the exact %s" % (v, want)))
        # --- tie with the Coq model ---
        if mo.startswith("value"):
            frac, l = mo.split(" ")[1], int(mo.split("lin=")[1])
            nu, de = frac.split("/")
            def bits(s):
                neg = s.startswith("-"); s = s.lstrip("-")
                val = 0 if s == "0" else int(s[1:], 2)
                return -val if neg else val
            qm = Fraction(bits(nu), bits(de))
            x2 = interpret(fmt, raw)
            qs = (Fraction(m * x2) + Fraction(b) * Fraction(10) ** k1) * Fraction(10) ** k2 if x2 is not None else None
            if qs != qm or l != (lc if lc else 0) or impl_err != "nil":
                ch.corr_break(desc, dict(detail, what="model's exact value / lineariser differs", spec=str(qs)))
        else:
            mm = {"noreader": "noreader", "unavailable": "ErrSensorReadingUnavailable", "scanningdisabled": "ErrSensorScanningDisabled"}.get(mo, mo)
            if mm != impl_err:
                ch.corr_break(desc, dict(detail, what="model %s, implementation %s" % (mo, impl_err)))
    # one reader polled repeatedly: every ordered pair of flag combinations (an earlier response must not stick)
    import itertools
    flagbytes = [((f & 1) << 7) | (((f >> 1) & 1) << 6) | (((f >> 2) & 1) << 5) for f in range(8)]
    seqs = [list(pq) for pq in itertools.product(flagbytes, repeat=2)] + [[0x60, 0x40, 0x00, 0x40, 0x60, 0x40]]
    su = hist.SUITES[0]
    scn = {"bmc": conn.default_bmc(seed=22, suites=[[100, su[0], su[1], su[2]]]), "timeout_ms": 40, "steps": [hs.open_step(suites=[su])]}
    body = fsr_body(rng, 2, 5, 1, -1, 0, 0, number=9)
    for sq in seqs:
        scn["steps"].append({"op": "sensorseq", "conn": "session", "fsr": body.hex(), "script": [bytes([100 + k, fb, 0]).hex() for k, fb in enumerate(sq)]})
    out = conn.run_scenarios([scn])[0]
    for sq, res in zip(seqs, out["steps"][1:]):
        ch.note_case("c15-repoll", str(sq))
        want = []
        for k, fb in enumerate(sq):
            if fb & 0x20:
                want.append("ErrSensorReadingUnavailable")
            elif not fb & 0x40:
                want.append("ErrSensorScanningDisabled")
            else:
                want.append(float((Fraction(2 * (100 + k)) + Fraction(5) * 10) / 10))
        got = res.get("value", "").split(" ")
        def same(g, w):
            if isinstance(w, float):
                try:
                    return abs(float(g) - w) <= 1e-12 * max(1.0, abs(w))
                except ValueError:
                    return False
            return g == w
        if res.get("panic") or len(got) != len(want) or not all(same(g, w) for g, w in zip(got, want)):
            ch.violation({"kind": "c15", "family": "repoll"}, {"flags": sq, "impl": got, "want": want, "fsr": body.hex(),
                         "what": "a reader polled repeatedly must report each response's own flags and value"})
    ch.extra["tuples"] = len(tuples)
    return ch.finish(rule=RULE, assumptions=["floating-point rounding is not modelled: float64 results are compared with an exact / 60-digit evaluation to 1e-12",
                                             "Go's math functions are the linearisers' implementation (code -> function table tied through Generated.v)"])


def replay(ch, build, path):
    import json
    r = json.load(open(path)); d = r["detail"]
    print(json.dumps({k: d[k] for k in d if k != "scenario"}, indent=1)[:2000])
    print("VIOLATION property=C15 replay=%s" % path)
    return 1
