"""C18 — exported metrics account exactly for what happened."""
import re
from . import core, conn, hist, hs

RULE = ("random histories (length up to 60 in the thorough tier) over {DialV2 ok / failing address, close of a dialled connection "
        "(succeeding / failing), session open ok / wrong password / no supported suite (with and without discovery) / failing at a later exchange (non-OK status in each handshake reply, damaged or short RAKP 4 ICV), in-session and "
        "session-less commands with retry scripts over the full outcome alphabet incl. non-normal codes with truncated bodies, "
        "Close Session ok / failing}, and histories with a real 50 ms back-off in which a context without deadline is cancelled "
        "during a pause or a deadline falls into one; after every step the deltas of all bmc_* metrics (prometheus DefaultGatherer) are compared with "
        "the conservation laws: attempts[name] = calls; failures[name] = calls that returned an error; retries = transmissions - 1; "
        "responses[code] = valid responses received (the Coq model's list of counted codes for the delivered bytes); command duration "
        "observations = calls; session/connection open attempts and failures; gauges = opens - closes.  distinct by history")

NAMES = {"getdeviceid": "Get Device ID", "getchassisstatus": "Get Chassis Status", "getsystemguid": "Get System GUID",
         "authcaps": "Get Channel Authentication Capabilities", "ciphersuites": "Get Channel Cipher Suites",
         "sessioninfo": "Get Session Info", "setpriv": "Set Session Privilege Level", "closesession": "Close Session",
         "chassiscontrol": "Chassis Control", "getsdrrepoinfo": "Get SDR Repository Info", "reservesdr": "Reserve SDR Repository",
         "getsdr": "Get SDR", "sensorreading": "Get Sensor Reading", "powerreading": "Get Power Reading",
         "dcmisensorinfo": "Get DCMI Sensor Info", "raw": "Raw"}
DCMI_NAMES = {1: "Get DCMI Capabilities Info (Supported Capabilities)", 2: "Get DCMI Capabilities Info (Mandatory Platform Attributes)",
              3: "Get DCMI Capabilities Info (Optional Platform Attributes)", 4: "Get DCMI Capabilities Info (Manageability Access Attributes)",
              5: "Get DCMI Capabilities Info (Enhanced System Power Statistics Attributes)"}


def cmd_name(cmd):
    if cmd["name"] == "dcmicaps":
        return DCMI_NAMES[cmd["p"][0]]
    return NAMES[cmd["name"]]


def norm(metrics):
    """metric deltas -> canonical dict; response codes keyed by number"""
    out = {}
    for k, v in metrics.items():
        if k.startswith("bmc_transport_"):
            continue
        m = re.match(r"bmc_command_responses_total\{code=0x([0-9a-f]+)", k)
        if m:
            out[("responses", int(m.group(1), 16))] = out.get(("responses", int(m.group(1), 16)), 0) + v
            continue
        m = re.match(r"bmc_command_(attempts|failures)_total\{command=(.*)\}", k)
        if m:
            out[(m.group(1), m.group(2))] = v
            continue
        out[k] = v
    return out


def add(d, k, v=1):
    if v:
        d[k] = d.get(k, 0) + v


def gen_history(ch, n):
    rng = ch.rng
    steps = []
    have_session = False
    dials = 0
    su = rng.choice(hist.SUITES)
    while len(steps) < n:
        r = rng.random()
        if r < 0.08:
            steps.append({"op": "dial", "cmd": {"name": "", "hex": rng.choice(["127.0.0.1:9", "127.0.0.1", "localhost:623", "256.1.1.1:623", "nonexistent.invalid:1", "[::1"])}})
            dials += 1
        elif r < 0.13 and dials:
            steps.append({"op": "closedial", "script": [rng.choice(["ok", "ok", "fail"])]}); dials -= 1
        elif r < 0.25:
            kind = rng.choice(["ok", "ok", "wrongpw", "nosuite", "discovery", "newsession", "newsession-wrongpw", "latefail", "latefail"])
            if kind.startswith("newsession"):
                # the version-agnostic entry point (default suites with discovery; succeeds when the BMC offers suite 17 or 3's
                # algorithms, fails otherwise): accounted exactly like NewV2Session
                steps.append(dict(hs.open_step(password=b"secret" if kind == "newsession" else b"nope", suites=[]), via_newsession=True))
                have_session = have_session or (kind == "newsession" and tuple(su) in ((1, 1, 1), (3, 4, 1)))
            elif kind == "ok":
                steps.append(hs.open_step(suites=[su])); have_session = True
            elif kind == "latefail":
                # the handshake fails at a later exchange: non-OK status in the Open Session Response / RAKP 2 / RAKP 4, a
                # damaged or short RAKP 4 integrity check value - after RAKP 3 the BMC considers the session open, the
                # console does not: an open that failed is a failure, whatever tidying up follows it
                steps.append(hs.open_step(suites=[su], script=rng.choice([["setbytes:17=%d" % rng.choice([1, 2, 17, 18])], ["ok", "setbytes:17=%d" % rng.choice([2, 13, 14])],
                                                                         ["ok", "ok", "flip:%d" % rng.randrange(192, 192 + 96)], ["ok", "ok", "setbytes:17=15"],
                                                                         ["ok", "ok", "truncpayload:%d" % rng.choice([9, 12, 16, 19])]])))
            elif kind == "wrongpw":
                steps.append(hs.open_step(password=b"nope", suites=[su]))
            elif kind == "nosuite":
                steps.append(hs.open_step(suites=[(2, 4, 1), (1, 2, 1)]))
            else:
                steps.append(hs.open_step(suites=[(2, 4, 1), su])); have_session = True
        elif r < 0.32 and have_session:
            steps.append({"op": "close", "script": [rng.choice(["ok", "ok", "lost", "cc:135"])]}); have_session = False
        else:
            session = have_session and rng.random() < 0.7
            pool = hist.command_pool(rng, session)
            if not session:
                pool = [c for c in pool if c["name"] in conn.SESSIONLESS_OK]
            alpha = hist.ALPHA_SS if session else hist.ALPHA_SL
            k = rng.choice([0, 0, 1, 1, 2, 3])
            sc = [rng.choice([a for a in alpha if not hist.is_final(a)]) for _ in range(k)] + \
                 [rng.choice(["ok", "ok", "ok", "truncbody", "emptybody", "cc:193", "cc:204", "cc:213", "cc:255"])]
            if session:
                # a lost reply ends an in-session command
                for i, a in enumerate(sc):
                    if a == "lost":
                        sc = sc[:i + 1]; break
            steps.append({"op": "cmd", "conn": "session" if session else "sessionless", "cmd": rng.choice(pool), "script": sc})
    return su, steps


def run(ch, build):
    core.proof_status(ch, "C18", build)
    rng = ch.rng
    nh = 40 if ch.quick() else 300
    scns = []
    for h in range(nh):
        n = rng.choice([8, 15, 25]) if ch.quick() else rng.randrange(10, 61)
        su, steps = gen_history(ch, n)
        scns.append({"bmc": conn.default_bmc(seed=1000 + h, suites=[[100, su[0], su[1], su[2]]]), "timeout_ms": 40, "steps": steps})
    # histories with a real back-off pause (50 ms) in which the caller gives up: a context WITHOUT deadline is cancelled
    # during the first / second pause, or a deadline falls into a pause; retries must count transmissions, not plans
    for h in range(4 if ch.quick() else 30):
        su = rng.choice(hist.SUITES)
        pool = [c for c in hist.command_pool(rng, False) if c["name"] in conn.SESSIONLESS_OK]
        steps = []
        for _ in range(3):
            steps.append({"op": "cmd", "conn": "sessionless", "cmd": rng.choice(pool), "script": ["busy"] * 6, "cancel_ms": rng.choice([20, 30])})
            steps.append({"op": "cmd", "conn": "sessionless", "cmd": rng.choice(pool), "script": ["busy", "c3", "ok"]})
            steps.append({"op": "cmd", "conn": "sessionless", "cmd": rng.choice(pool), "script": ["c3"] * 6, "cancel_ms": rng.choice([70, 80])})
            steps.append({"op": "cmd", "conn": "sessionless", "cmd": rng.choice(pool), "script": ["busy"] * 6, "ctx_ms": rng.choice([25, 75, 125])})
        steps.append(hs.open_step(suites=[su]))
        spool = hist.command_pool(rng, True)
        steps.append({"op": "cmd", "conn": "session", "cmd": rng.choice(spool), "script": ["busy"] * 6, "cancel_ms": 25})
        steps.append({"op": "cmd", "conn": "session", "cmd": rng.choice(spool), "script": ["busy", "ok"]})
        steps.append({"op": "cmd", "conn": "session", "cmd": rng.choice(spool), "script": ["c3"] * 6, "cancel_ms": 75})
        scns.append({"bmc": conn.default_bmc(seed=5000 + h, suites=[[100, su[0], su[1], su[2]]]), "timeout_ms": 40, "backoff_ms": 50, "steps": steps})
    # a parseable packet WITHOUT an IPMI message (a late Open Session Response) read after a temporary completion code:
    # it is not a response to the command and must not be counted as one
    stray = "raw:0600ff07061100000000000000000800" "0001000001000000"
    for h in range(3 if ch.quick() else 20):
        pool = [c for c in hist.command_pool(rng, False) if c["name"] in conn.SESSIONLESS_OK]
        steps = []
        for sc in (["busy", stray, "ok"], ["c3", stray, stray, "ok"], ["busy", stray, "busy", stray, "cc:204"], [stray, "ok"]):
            steps.append({"op": "cmd", "conn": "sessionless", "cmd": rng.choice(pool), "script": sc})
        scns.append({"bmc": conn.default_bmc(seed=7000 + h), "timeout_ms": 40, "steps": steps})
    # commands that share one operation but have different names (the five Get DCMI Capabilities Info selectors), back to back
    for h in range(2 if ch.quick() else 12):
        su = rng.choice(hist.SUITES)
        steps = [hs.open_step(suites=[su])]
        order = list(range(1, 6)); rng.shuffle(order)
        for sc in (["ok"], ["truncbody"], ["busy", "ok"]):
            for pnum in order:
                steps.append({"op": "cmd", "conn": "session", "cmd": {"name": "dcmicaps", "p": [pnum]}, "script": sc})
        scns.append({"bmc": conn.default_bmc(seed=8000 + h, suites=[[100, su[0], su[1], su[2]]]), "timeout_ms": 40, "steps": steps})
    outs = conn.run_scenarios(scns)

    got = {}
    def hook(ch_, ctx):
        got[(ctx["si"], ctx["ti"])] = ctx["model"]
    hist.replay(ch, scns, outs, (hook,), "c18")
    for si, (scn, out) in enumerate(zip(scns, outs)):
        ch.note_case("c18-history", str(scn["steps"]))
        gauge_s = 0
        for ti, (step, res) in enumerate(zip(scn["steps"], out["steps"])):
            want = {}
            m = norm(res["metrics"])
            op = step["op"]
            desc = {"kind": "c18", "op": op, "err": res["err"]}
            if res.get("panic"):
                ch.violation(dict(desc, kind="panic"), {"scenario": scn, "step_index": ti, "panic": res["panic"]}); continue
            if op == "cmd":
                if res["err"] == "nosession":
                    continue
                name = cmd_name(step["cmd"])
                add(want, ("attempts", name)); add(want, "bmc_command_duration_seconds_count")
                if res["err"] != "nil":
                    add(want, ("failures", name))
                add(want, "bmc_command_retries_total", max(0, len(res["sent"]) - 1))
                mod = got.get((si, ti))
                if mod is not None:
                    for c in mod["codes"]:
                        add(want, ("responses", c))
                else:
                    continue
            elif op == "open":
                add(want, "bmc_session_open_attempts_total")
                if res["err"] != "nil":
                    add(want, "bmc_session_open_failures_total")
                else:
                    add(want, "bmc_sessions_open")
                disc = [e for e in res["bmc"] if e["kind"] == "ipmi-sessionless" and e["cmd"] == 0x54]
                if disc:
                    add(want, ("attempts", "Get Channel Cipher Suites"), len(disc))
                    add(want, "bmc_command_duration_seconds_count", len(disc))
                    for e in disc:
                        add(want, ("responses", e["cc"]))
            elif op == "close":
                if res["err"] == "nosession":
                    continue
                add(want, ("attempts", "Close Session")); add(want, "bmc_command_duration_seconds_count")
                # Close() turns a non-normal completion code into an error *after* SendCommand returned without one
                answered = bool(res["delivered"]) and bool(res["delivered"][-1]) and res["bmc"] and res["bmc"][-1]["accepted"] \
                    and res["bmc"][-1]["cc"] not in (0xc0, 0xc3)
                if res["err"] != "nil" and not answered:
                    add(want, ("failures", "Close Session"))
                add(want, "bmc_sessions_open", -1)
                add(want, "bmc_command_retries_total", max(0, len(res["sent"]) - 1))
                for e, d in zip(res["bmc"], res["delivered"]):
                    if d and e["accepted"]:
                        add(want, ("responses", e["cc"]))
            elif op == "dial":
                add(want, "bmc_connection_open_attempts_total{version=2.0}")
                if res["err"] != "nil":
                    add(want, "bmc_connection_open_failures_total{version=2.0}")
                else:
                    add(want, "bmc_connections_open{version=2.0}")
            elif op == "closedial":
                if res["err"] == "nosession":
                    continue
                add(want, "bmc_connections_open{version=2.0}", -1)
            want = {k: v for k, v in want.items() if v}
            if m != want:
                diff = {str(k): (m.get(k, 0), want.get(k, 0)) for k in set(m) | set(want) if m.get(k, 0) != want.get(k, 0)}
                ch.violation(desc, {"scenario": scn, "step_index": ti, "what": "metric deltas (got, expected) differ", "diff": diff,
                                    "step": step, "result": {k: res[k] for k in ("err", "code", "actions")}})
    ch.extra["histories"] = nh
    return ch.finish(rule=RULE, assumptions=["metrics are process-global: histories run sequentially inside one harness process per shard; deltas are taken around each step",
                                             "transport-level histograms (bmc_transport_*) are outside the property"])


def replay(ch, build, path):
    from . import c10
    return c10.replay(ch, build, path)
