"""C04 — only authentic packets addressed to this session are accepted as responses."""
from . import core, conn, hist

CATALOGUE = ["noauth", "plain", "emptysig", "shortsig", "randsig", "wrongkey", "wrongsid", "bmcsid", "zerosid",
             "badpad", "padover", "padzero", "v15none", "v15md5"]
CONTROLS = ("valid", "pad16ok")

RULE = ("for every suite with integrity (all 9) and commands of the pool: (1) every forged reply of the catalogue {authenticated flag "
        "cleared; unsigned plaintext; empty / short / random AuthCode; signed with another key; addressed to another / the BMC's / "
        "the null session ID; correctly signed with a malformed confidentiality pad (wrong last pad byte, pad length > 16, pad not "
        "starting at 01, and for every pad length 0..15 every single position of one wrong pad byte)} - each carrying a well-formed response to the right command with a value the BMC never produced, with completion code 00h and with permanent non-zero codes - "
        "delivered as the first reply, followed by the authentic one: predicate = the forged reply is treated as no response "
        "(one more transmission) and the value returned is the authentic one; a correctly protected control forgery must be "
        "accepted (non-vacuity); (2) every single-bit flip and every truncation of the authentic reply: predicate = the value "
        "returned is the authentic value or an error, never another value.  tie: Coq session_loop on the delivered bytes.  "
        "distinct by (suite, command, mutation)")


def auth_values(ctx):
    step = ctx["step"]
    fn, body, ent, cmd = conn.cmd_op(step["cmd"])
    return [(e["cc"], e["rspdata"]) for e in ctx["res"]["bmc"] if e["accepted"] and e["netfn"] == fn and e["cmd"] == cmd]


def hook(ch, ctx):
    ch.extra.setdefault("_c04", []).append(ctx)


def run(ch, build):
    core.proof_status(ch, "C04", build)
    rng = ch.rng
    scns = []
    cmds_fixed = [{"name": "getdeviceid"}, {"name": "getchassisstatus"}, {"name": "getsystemguid"}, {"name": "getsdrrepoinfo"},
                  {"name": "sessioninfo", "p": [0, 0, 0]}, {"name": "reservesdr"}, {"name": "dcmicaps", "p": [1]},
                  {"name": "powerreading", "p": [1, 0]}, {"name": "chassiscontrol", "p": [1]}]
    for k, su in enumerate(hist.SUITES):
        # (1) catalogue
        for c in (cmds_fixed if not ch.quick() else rng.sample(cmds_fixed, 3)):
            # (a BMC may number its sessions from 1 - the ID this console always uses for its own side: then "the session's
            # ID" no longer tells the two directions apart)
            scn = {"bmc": conn.default_bmc(seed=100 + k, suites=[[100, su[0], su[1], su[2]]], **({"first_session_id": 1} if (k + len(scns)) % 2 else {})),
                   "timeout_ms": 40, "steps": [
                {"op": "open", "user": "admin", "password": b"secret".hex(), "priv": 4, "lookup": True, "suites": [list(su)]}]}
            # every pad length (0..15, through the length of the forged value) x every position of the one wrong pad byte
            pads = ["padbyte:%d:%d" % (e, k) for e in range(16) for k in range(15)]
            if ch.quick():
                pads = ["padbyte:%d:0" % e for e in rng.sample(range(16), 4)] + rng.sample(pads, 8)
            # several pad bytes wrong together (2 x bit 7, 4 x bit 6, 8 x bit 5, 16 x bit 4): sums and xors of the differences cancel
            pads += ["padmulti:%d:%d" % (e, k) for e in range(16) for k in range(4)] if not ch.quick() else \
                    ["padmulti:%d:%d" % (rng.randrange(16), k) for k in range(4)] + ["padmulti:%d:%d" % (e, 0) for e in rng.sample(range(16), 3)]
            # a pad longer than 15 bytes whose every byte is right (01 02 .. N, N), on a ciphertext long enough to hold it
            pads += ["padlong:%d" % n for n in ((17, 24, 40, 104, 248) if not ch.quick() else (17, rng.choice([24, 40, 104]), 248))]
            # the 16-byte form of the pad (01 .. 10, 10 behind a message that fills its block): each of its bytes wrong in turn
            pads += ["pad16:%d" % k for k in (range(16) if not ch.quick() else [0, 15] + rng.sample(range(1, 15), 3))]
            # the same forgeries carrying a permanent non-zero completion code: a refusal the BMC never issued is a value too
            coded = ["%s@%d" % (f, cc) for f in ("noauth", "plain", "emptysig", "randsig", "wrongkey", "wrongsid", "zerosid", "v15none", "badpad")
                     for cc in ((0xc1, 0xd4, 0xff, 0x80, 0xcc, 0x01) if not ch.quick() else (rng.choice([0xc1, 0xd4, 0xcc]), rng.choice([0xff, 0x80, 0x01])))]
            for f in CATALOGUE + coded + pads + ["valid", "pad16ok"]:
                if f == "bmcsid" and scn["bmc"].get("first_session_id") == 1:
                    continue        # both IDs are 1 there: a packet addressed to "the BMC's ID" is addressed correctly
                scn["steps"].append({"op": "cmd", "conn": "session", "cmd": c, "script": ["forge:" + f, "ok"], "forgery": f})
            scns.append(scn)
        # (2) bit flips and truncations of the authentic reply: learn its length from a clean run first
    probe = []
    for k, su in enumerate(hist.SUITES):
        c = cmds_fixed[k % len(cmds_fixed)] if ch.quick() else None
        for c in ([c] if c else cmds_fixed):
            probe.append((su, c, {"bmc": conn.default_bmc(seed=200 + k, suites=[[100, su[0], su[1], su[2]]]), "timeout_ms": 40, "steps": [
                {"op": "open", "user": "admin", "password": b"secret".hex(), "priv": 4, "lookup": True, "suites": [list(su)]},
                {"op": "cmd", "conn": "session", "cmd": c, "script": ["ok"]}]}))
    pouts = conn.run_scenarios([p[2] for p in probe])
    for (su, c, base), po in zip(probe, pouts):
        n = len(po["steps"][1]["delivered"][0]) // 2
        muts = ["flip:%d" % b for b in range(n * 8)] + ["trunc:%d" % t for t in range(n)]
        if ch.quick():
            muts = rng.sample(muts, 120)
        for i in range(0, len(muts), 40):
            scn = {"bmc": base["bmc"], "timeout_ms": 40, "steps": [base["steps"][0]]}
            for mu in muts[i:i + 40]:
                scn["steps"].append({"op": "cmd", "conn": "session", "cmd": c, "script": [mu, "ok"], "mutation": mu})
            scns.append(scn)
    # a forged reply as the LAST datagram of a command: after an authentic node-busy / timeout code (or straight away) the
    # forgery arrives, and then the command ends - its retry policy gives up, or its context expires while nothing more
    # arrives.  Whatever the call returns, it is not the forged value
    last = []
    for k, su in enumerate(hist.SUITES if not ch.quick() else rng.sample(hist.SUITES, 3)):
        for f in ("plain", "noauth", "emptysig", "wrongkey", "wrongsid", "v15none", "badpad"):
            for pre in (["busy"], ["c3", "busy"], []):
                c = rng.choice(cmds_fixed)
                op = {"op": "open", "user": "admin", "password": b"secret".hex(), "priv": 4, "lookup": True, "suites": [list(su)]}
                last.append({"bmc": conn.default_bmc(seed=150 + k, suites=[[100, su[0], su[1], su[2]]]), "timeout_ms": 40, "backoff_max_retries": len(pre) or 1,
                             "forgery": f, "steps": [op, {"op": "cmd", "conn": "session", "cmd": c, "script": pre + ["forge:" + f] * (2 - len(pre) if not pre else 1), "cancel_ms": 3000}]})
                last.append({"bmc": conn.default_bmc(seed=150 + k, suites=[[100, su[0], su[1], su[2]]]), "timeout_ms": 40, "forgery": f,
                             "steps": [op, {"op": "cmd", "conn": "session", "cmd": c, "script": pre + ["forge:" + f] + ["silence"] * 4, "ctx_ms": 100}]})
    if ch.quick():
        last = rng.sample(last, 40)
    for scn, out in zip(last, conn.run_scenarios(last)):
        st, res = scn["steps"][1], out["steps"][1]
        desc = {"kind": "c04", "conn": "session", "cmd": st["cmd"]["name"], "forgery": scn["forgery"], "family": "forgery-last"}
        ch.note_case("c04-forgery-last", "%s|%s|%s" % (scn["forgery"], st["script"], scn["bmc"]["suites"]))
        if res.get("panic"):
            ch.violation(dict(desc, kind="panic"), {"scenario": scn, "panic": res["panic"]})
        elif res["err"] == "nil" and ("a5a5a5" in (res.get("rsp") or "") or res["code"] == 0):
            # the only normal-code reply in these histories is the forged one (the BMC's own were temporary codes)
            ch.violation(desc, {"scenario": scn, "returned": {"code": res["code"], "err": res["err"], "rsp": res.get("rsp")},
                                "what": "the command ended without an authentic final response, yet returned a result (the forged reply's)"})
    outs = conn.run_scenarios(scns)
    hist.replay(ch, scns, outs, (hook,), "c04")
    pend = ch.extra.pop("_c04", [])
    # what the authentic answer decodes to
    lines, idx = [], []
    for ctx in pend:
        layer = conn.cmd_rsp_layer(ctx["step"]["cmd"])
        for (cc, data) in set(auth_values(ctx)):
            body = data[2:] if conn.cmd_op(ctx["step"]["cmd"])[1] else data
            if layer:
                lines.append("dec %s _ %s" % (layer, body or "-")); idx.append((ctx, cc, True))
            else:
                idx.append((ctx, cc, False))
    dec = iter(core.oracle(lines))
    allowed = {}
    for (ctx, cc, has) in idx:
        d = next(dec) if has else ""
        allowed.setdefault(id(ctx), (ctx, set()))[1].add((cc, d))
    nfam = {}
    for ctx, al in allowed.values():
        step, res = ctx["step"], ctx["res"]
        desc = dict(ctx["desc"], kind="c04", forgery=step.get("forgery"), mutation=(step.get("mutation") or "").split(":")[0])
        detail = {"scenario": ctx["scn"], "step_index": ctx["ti"], "returned": {"code": res["code"], "err": res["err"], "rsp": res["rsp"]},
                  "authentic": sorted(al)}
        authentic = any(res["code"] == cc and ((res["err"] == "nil" and (not d or res["rsp"] == d)) or (d == "err" and res["err"] == "other"))
                        for (cc, d) in al)
        f = step.get("forgery")
        nfam[f or "mutation"] = nfam.get(f or "mutation", 0) + 1
        if f in CONTROLS:
            # control: the forged value (0xA5...) is accepted, so the catalogue exercises the acceptance path
            if len(res["sent"]) != 1:
                ch.corr_break(desc, dict(detail, what="control forgery (correctly signed and encrypted) was not accepted: the catalogue is vacuous"))
            continue
        if f:
            if len(res["sent"]) != 2 or not authentic:
                ch.violation(desc, dict(detail, what="forged reply '%s' was not treated as 'no valid response'" % f))
        else:
            if res["err"] in ("nil", "other") and res["code"] != 0 and not authentic and res["err"] == "nil":
                ch.violation(desc, dict(detail, what="a mutated reply changed the value the caller received"))
            elif res["err"] == "nil" and not authentic:
                ch.violation(desc, dict(detail, what="a mutated reply changed the value the caller received"))
    ch.extra["cases_by_kind"] = nfam
    return ch.finish(rule=RULE, assumptions=["as C10; forgeries are built by the harness from the simulated BMC's session keys"])


def replay(ch, build, path):
    from . import c10
    return c10.replay(ch, build, path)
