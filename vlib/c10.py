"""C10 — retries re-send the same well-formed request until a final answer arrives."""
from . import core, conn, hist

RULE = ("every per-attempt outcome script over {final (genuine reply), node busy 0xC0, timeout 0xC3, garbage, truncated body, lost reply"
        " [, bad signature in a session]} up to the stated depth, exhaustively (scripts are cut at their deciding attempt), each on a "
        "randomly drawn command, session-less and inside sessions of all 9 suites, plus every completion code 0..255 as the answer "
        "(alone and after a temporary code); predicate (reference model of the documented "
        "SendCommand contract): number of transmissions, every transmission is accepted by the BMC and decodes to the same command "
        "with the same request data, the result is the first final outcome's; tie: the Coq retry-loop model reproduces every "
        "datagram byte for byte and the result.  distinct by (command, script, suite)")


def expected_request_data(ch, step):
    return None


def hook(ch, ctx):
    step, res = ctx["step"], ctx["res"]
    sess = step.get("conn") == "session"
    n, kind = hist.reference(step["script"], sess)
    desc = dict(ctx["desc"], kind="c10")
    detail = {"scenario": ctx["scn"], "step_index": ctx["ti"], "impl": {k: res[k] for k in ("err", "code", "sent", "actions")}}
    if hist.refused_locally(step):
        # a request outside the specification's encodable values: an error, and nothing on the wire
        if res["sent"] or res["bmc"] or res["err"] == "nil":
            ch.violation(desc, dict(detail, what="a request the library refuses must end in an error with nothing transmitted"))
        return
    udp = bool(ctx["scn"].get("udp"))
    if len(res["sent"]) != n and not (udp and len(res["sent"]) > n and kind != "transport-error"):
        # (over real sockets a reply that arrives after the attempt's window costs one more transmission: not a fault)
        ch.violation(desc, dict(detail, what="expected %d transmissions, saw %d" % (n, len(res["sent"]))))
        return
    n = len(res["sent"])
    # every transmission is a complete, correctly addressed encoding of that command
    fn, body, ent, cmd = conn.cmd_op(step["cmd"])
    evs = [e for e in res["bmc"]]
    if len(evs) != n:
        ch.violation(desc, dict(detail, what="BMC saw %d datagrams for %d transmissions" % (len(evs), n)))
        return
    datas = set()
    for e in evs:
        good = e["accepted"] and e["netfn"] == fn and e["cmd"] == cmd and e["rsaddr"] == 0x20 and e["rqaddr"] == 0x81 \
            and e["lun"] == conn.cmd_lun(step["cmd"]) and (e["body"] == body)
        if not good:
            ch.violation(desc, dict(detail, what="a transmission is not a well-formed encoding of the command", event=e))
            return
        datas.add(e["data"])
    if len(datas) > 1:
        ch.violation(desc, dict(detail, what="retransmissions carry different request data", datas=sorted(datas)))
        return
    # result
    if kind == "transport-error":
        if res["err"] in ("nil",):
            ch.violation(desc, dict(detail, what="transport failure inside a session must end the command with an error"))
    elif kind == "ok":
        # a genuine reply: its code is returned; with a normal code the body decodes, with any other the
        # BMC may truncate the body (documented: the error can then be non-nil, the code is still set)
        if res["code"] != evs[-1]["cc"] or res["err"] not in ("nil", "other") or (evs[-1]["cc"] == 0 and res["err"] != "nil"):
            ch.violation(desc, dict(detail, what="final response not returned (err=%s code=%d, BMC answered %d)" % (res["err"], res["code"], evs[-1]["cc"])))
    elif kind in ("truncbody", "emptybody"):
        has_rsp = conn.cmd_rsp_layer(step["cmd"]) is not None
        if has_rsp and (res["err"] == "nil" and kind == "emptybody" and conn.cmd_rsp_layer(step["cmd"]) not in ("ciphersuites",)):
            pass   # an empty body may be a valid (short) response for some layers: decided by the layer's own decoder (C07)
        if res["code"] != 0:
            ch.violation(desc, dict(detail, what="completion code of the final response not returned"))
    elif kind.startswith("cc:"):
        if res["code"] != int(kind[3:]):
            ch.violation(desc, dict(detail, what="completion code of the final response not returned"))


def run(ch, build, hooks=(hook,), prop="C10"):
    core.proof_status(ch, prop, build)
    started = start_real_udp() if prop == "C10" else None
    depth = 3 if ch.quick() else 5
    for session, alpha in ((False, hist.ALPHA_SL), (True, hist.ALPHA_SS)):
        scripts = [s for s in hist.all_scripts(alpha, depth) if hist.useful(s, session)]
        # longer random scripts
        for _ in range(60 if ch.quick() else 600):
            k = ch.rng.randrange(depth + 1, depth + 6)
            s = [ch.rng.choice([a for a in alpha if not hist.is_final(a) and not (session and a == "lost")]) for _ in range(k)]
            s.append(ch.rng.choice(alpha + ["cc:193", "cc:213", "cc:255"]))
            scripts.append(s)
        # every completion code as the answer, alone and after a temporary one: only C0h and C3h are temporary (IPMI
        # v2.0 table 5-2; the library's documented contract), every other code is a final answer
        codes = range(256) if (not ch.quick() or not session) else ch.rng.sample(range(256), 40)
        for n in codes:
            scripts.append(["cc:%d" % n] if n not in (0xc0, 0xc3) else ["cc:%d" % n, "ok"])
            if n % 4 == 1 or not ch.quick():
                scripts.append(["busy", "cc:%d" % n] if n not in (0xc0, 0xc3) else ["busy", "cc:%d" % n, "ok"])
        scns = hist.build_scenarios(ch, session, scripts)
        outs = conn.run_scenarios(scns)
        hist.replay(ch, scns, outs, hooks, prop.lower())
        ch.extra["scripts_%s" % ("session" if session else "sessionless")] = len(scripts)
    if prop == "C10":
        wrappers(ch)
        udp_histories(ch, hooks)
        real_udp_loss(ch, started)
    ch.extra["depth"] = depth
    ch.exhaustive = True
    return ch.finish(rule=RULE, assumptions=[
        "the in-memory transport returns an error immediately for a lost reply (no wall-clock wait); back-off replaced by a zero back-off through the verif hook",
        "the simulated BMC (harness/sim, stdlib-only) is validated against the Coq SpecBmc in C01",
    ])


def udp_requests():
    """over real UDP with the library's OWN back-off (500 ms exponential, no hook): the first k replies are lost or carry a
    temporary code, then the BMC answers.  k = 7 takes the back-off past ten seconds: the loop must go on for as long as
    the context allows, not for as long as some internal budget does."""
    reqs = [{"call": "sessionless", "fault": "blackhole", "from": 0, "until": k, "timeout_ms": 100, "deadline_ms": 4000} for k in (1, 2)]
    reqs += [{"call": "sessionless", "fault": "busy", "from": 0, "until": 2, "timeout_ms": 100, "deadline_ms": 4000}]
    reqs += [{"call": "sessionless", "fault": "busy", "from": 0, "until": 7, "timeout_ms": 100, "deadline_ms": 40000},
             {"call": "session", "fault": "busy", "from": 0, "until": 7, "timeout_ms": 100, "deadline_ms": 40000}]
    return reqs


def start_real_udp():
    import json
    from concurrent.futures import ThreadPoolExecutor
    reqs = udp_requests()
    ex = ThreadPoolExecutor(len(reqs))
    futs = [ex.submit(lambda r=r: core.run_lines(core.HARNESS, ["c13 " + json.dumps(r, separators=(",", ":"))], 120)[0]) for r in reqs]
    return reqs, futs


def real_udp_loss(ch, started):
    import json
    reqs, futs = started
    for rq, f in zip(reqs, futs):
        res = json.loads(f.result())
        ch.note_case("c10-real-udp", json.dumps(rq))
        if res.get("setup"):
            ch.corr_break({"kind": "setup"}, {"request": rq, "result": res}); continue
        if res["err"] != "nil" or res["datagrams"] != rq["until"] + 1:
            ch.violation({"kind": "c10", "conn": rq["call"], "family": "real-udp-loss"},
                         {"request": rq, "result": res, "what": "after %d unanswered / temporary attempts the genuine answer must be returned "
                          "(expected %d transmissions; the context had %d ms)" % (rq["until"], rq["until"] + 1, rq["deadline_ms"])})


WRAPPED = {   # typed helper -> the command it must be equivalent to
    "GetSystemGUID": {"name": "getsystemguid"}, "GetChannelAuthenticationCapabilities": {"name": "authcaps", "p": [1, 14, 4]},
    "DCMISupportedCapabilities": {"name": "dcmicaps", "p": [1]}, "DCMIMandatoryPlatformAttrs": {"name": "dcmicaps", "p": [2]},
    "DCMIOptionalPlatformAttrs": {"name": "dcmicaps", "p": [3]}, "DCMIManageabilityAccessAttrs": {"name": "dcmicaps", "p": [4]},
    "DCMIEnhancedSystemPowerStatisticsAttrs": {"name": "dcmicaps", "p": [5]},
    "GetSessionInfo": {"name": "sessioninfo", "p": [0, 0, 0]}, "GetDeviceID": {"name": "getdeviceid"}, "GetChassisStatus": {"name": "getchassisstatus"},
    "GetSDRRepositoryInfo": {"name": "getsdrrepoinfo"}, "GetSensorReading": {"name": "sensorreading", "p": [3, 0]},
    "DCMIGetPowerReading": {"name": "powerreading", "p": [1, 0]}, "DCMIGetDCMISensorInfo": {"name": "dcmisensorinfo", "p": [1, 0x41, 0, 1]},
}


def wrappers(ch):
    """the typed helpers (V2Session / V2Sessionless methods, the DCMI commanders) are thin: each returns exactly what
    SendCommand and the command's response layer give for the same BMC, and an error when the BMC refuses"""
    rng = ch.rng
    caps = {"1": "010502" + "010f0f", "2": "010502" + "1234560708", "3": "010502" + "2040", "4": "010502" + "010203", "5": "010502" + "02" + "4182"}
    scns = []
    for k in range(3 if ch.quick() else 9):
        su = hist.SUITES[(k * 4) % 9]
        bmc = conn.default_bmc(seed=800 + k, suites=[[100, su[0], su[1], su[2]]], loose=True, dcmicaps=caps,
                               guid=bytes(rng.randrange(256) for _ in range(16)).hex(),
                               sensors={"3": bytes([rng.randrange(256), 0x40 | rng.randrange(32), rng.randrange(256)]).hex()},
                               dcmisensors={"65": [rng.randrange(65536) for _ in range(rng.randrange(1, 6))]})
        w = {"op": "wrappers", "cmd": {"name": "x", "p": [3, rng.randrange(6)]}}
        direct = lambda cn, names: [{"op": "cmd", "conn": cn, "cmd": WRAPPED[n], "script": ["ok"], "wrapped": n} for n in names]
        sl = [n for n in WRAPPED if n.startswith("DCMI") and "Get" not in n] + ["GetSystemGUID", "GetChannelAuthenticationCapabilities"]
        scns.append({"bmc": bmc, "timeout_ms": 40, "steps":
                     direct("sessionless", sl) + [dict(w, conn="sessionless")] + [dict(w, conn="sessionless", script=["cc:%d" % rng.choice([0xc1, 0xc9, 0xcc, 0xd4])] * 60, refused=True)] +
                     [__import__("vlib.hs", fromlist=["x"]).open_step(suites=[su])] + direct("session", list(WRAPPED)) + [dict(w, conn="session")] +
                     [dict(w, conn="session", script=["cc:%d" % rng.choice([0xc1, 0xc9, 0xcc, 0xd4, 0xff])] * 60, refused=True)]})
    for scn, out in zip(scns, conn.run_scenarios(scns)):
        seen = {}
        for st, res in zip(scn["steps"], out["steps"]):
            if st["op"] == "cmd" and st.get("wrapped"):
                want = res["rsp"].replace(" ", ",") if res["err"] == "nil" and res["code"] == 0 else "err:other"
                if st["wrapped"] == "GetSystemGUID" and want.startswith("ok,x"):
                    want = want[4:]
                seen[(st["conn"], st["wrapped"])] = want
                continue
            if st["op"] == "wrappers":
                vals = dict(x.split("=", 1) for x in (res.get("value") or "").split(" ") if "=" in x)
                ch.note_case("c10-wrappers", "%s|%s|%s" % (st["conn"], bool(st.get("refused")), scn["bmc"]["seed"]))
                if res.get("panic"):
                    ch.violation({"kind": "panic", "family": "wrappers"}, {"scenario": scn, "panic": res["panic"]}); continue
                if st.get("refused"):
                    bad = [n for n, v in vals.items() if not v.startswith("err:")]
                    if bad or not vals:
                        ch.violation({"kind": "c10", "family": "wrappers", "conn": st["conn"]}, {"scenario": scn, "values": vals,
                                     "what": "the BMC refused every command with a permanent completion code, yet these helpers returned no error: %s" % bad})
                else:
                    for (cn, n), want in seen.items():
                        if cn == st["conn"] and vals.get(n) != want:
                            ch.violation({"kind": "c10", "family": "wrappers", "conn": cn, "helper": n},
                                         {"scenario": scn, "what": "the typed helper returned something else than SendCommand + response layer for the same BMC",
                                          "helper": vals.get(n), "command": want})


def udp_histories(ch, hooks):
    """the same contract through the library's own UDP transport (socket, read deadline, receive buffer) on loopback:
    datagrams too short to be RMCP (0..3 bytes), garbage, temporary codes and lost replies, session-less, in-session and
    during each of the three handshake exchanges"""
    from . import hs
    rng = ch.rng
    short = ["raw:", "raw:06", "raw:0600", "raw:0600ff"]
    for session in (False, True):
        scripts = [[a] for a in short] + [[a, b] for a in short for b in ("busy", "garbage", rng.choice(short))]
        scripts += [["busy", a] for a in short] + [["garbage", "c3"], ["c3", "busy"]]
        if not session:
            scripts += [["lost"], ["lost", "busy"], ["garbage", "lost"], ["lost", rng.choice(short), "lost"]]
        if ch.quick():
            scripts = scripts[:4] + rng.sample(scripts[4:], 8)
        scns = hist.build_scenarios(ch, session, scripts, per_scn=6)
        for s in scns:
            s["udp"] = True
            s["timeout_ms"] = 250      # real sockets on a shared machine: a genuine reply must never look lost
        outs = conn.run_scenarios(scns, spread=True)
        hist.replay(ch, scns, outs, hooks, "c10")
    # a reply that arrives a few bytes short, after an earlier reply of the same or a similar shape has been through the
    # transport's receive buffer: the bytes behind the end of the datagram are not part of it - the short reply cannot be
    # decoded, the command is re-sent, and the value returned is the BMC's
    scns = []
    for k, name in enumerate(("getsystemguid", "getdeviceid", "getchassisstatus")):
        cuts = list(range(1, 12)) if not ch.quick() else sorted(rng.sample(range(1, 12), 4))
        for session in (False, True):
            if session and name == "getsystemguid" and ch.quick():
                continue
            cn = "session" if session else "sessionless"
            if not session and name not in conn.SESSIONLESS_OK:
                continue
            su = hist.SUITES[k % 9]
            steps = [{"op": "open", "user": "admin", "password": b"secret".hex(), "priv": 4, "lookup": True, "suites": [list(su)]}] if session else []
            for c in cuts:
                steps.append({"op": "cmd", "conn": cn, "cmd": {"name": name}, "script": ["ok"], "ctx_ms": 3000})
                steps.append({"op": "cmd", "conn": cn, "cmd": {"name": name}, "script": ["cuttail:%d" % c], "ctx_ms": 3000})
            scns.append({"bmc": conn.default_bmc(seed=88 + k, suites=[[100, su[0], su[1], su[2]]]), "timeout_ms": 250, "udp": True, "steps": steps})
    outs = conn.run_scenarios(scns, spread=True)
    hist.replay(ch, scns, outs, hooks, "c10")
    # handshake payloads: a reply lost or undecodable in each exchange, then the genuine one
    scns = []
    su = hist.SUITES[rng.randrange(9)]
    pats = [(ex, fault) for ex in range(3) for fault in (["lost"], ["lost", "lost"], ["garbage"], ["raw:0600"], ["garbage", "lost"], ["lost", "garbage", "garbage"])]
    for ex, fault in (pats if not ch.quick() else rng.sample(pats, 6) + [(0, ["lost"]), (1, ["lost"]), (2, ["lost"])]):
        scns.append({"bmc": conn.default_bmc(seed=77, suites=[[100, su[0], su[1], su[2]]]), "timeout_ms": 250, "udp": True, "fault": (ex, fault),
                     "steps": [hs.open_step(suites=[su], script=["ok"] * ex + fault), {"op": "cmd", "conn": "session", "cmd": {"name": "getdeviceid"}, "script": ["ok"]}]})
    for scn, out in zip(scns, conn.run_scenarios(scns, spread=True)):
        res = out["steps"][0]
        ex, fault = scn["fault"]
        ch.note_case("c10-udp-handshake", "%d|%s" % (ex, fault))
        desc = {"kind": "c10", "conn": "handshake-udp", "exchange": ex, "fault": fault}
        if res.get("panic"):
            ch.violation(dict(desc, kind="panic"), {"scenario": scn, "panic": res["panic"]}); continue
        if res["err"] != "nil" or len(res["sent"]) != 3 + len(fault) or out["steps"][1]["err"] != "nil":
            ch.violation(desc, {"scenario": scn, "err": res["err"], "errtext": res.get("errtext"), "transmissions": len(res["sent"]),
                                "what": "a handshake payload whose reply is lost or undecodable is sent again until the genuine reply arrives: "
                                        "expected a session after %d transmissions" % (3 + len(fault))})


def replay(ch, build, path, hooks=None):
    """run the recorded scenario again on the current tree: the transcript of the recorded step is printed; with the
    property's per-step predicates (hooks) and the model tie the verdict is re-evaluated - exit 0 if nothing fails now"""
    import json
    r = json.load(open(path))
    d = r["detail"]
    prop = r.get("property") or ch.prop
    if "scenario" not in d:
        print("replay file carries no scenario"); return 1
    scn = d["scenario"]
    out = conn.run_scenarios([scn])[0]
    k = d.get("step_index", 0)
    if k < len(out["steps"]):
        print(json.dumps(out["steps"][k], indent=1)[:3000])
    if hooks is None and prop == "C10":
        hooks = (hook,)
    if hooks is None:
        # the property's predicate is not a per-step one: the transcript above is the replay; the verdict is the recorded one
        print("VIOLATION property=%s replay=%s" % (prop, path))
        return 1
    hist.replay(ch, [scn], [out], hooks, prop.lower())
    bad = ch.violations or ch.corr_breaks
    for desc, detail in (ch.violations + ch.corr_breaks)[:3]:
        print("still failing:", json.dumps(desc), (detail.get("what") or detail.get("why") or "")[:300] if isinstance(detail, dict) else "")
    if bad:
        print("VIOLATION property=%s replay=%s" % (prop, path))
        return 1
    print("not reproduced on the current tree: every step of the recorded scenario satisfies the predicate and the model tie")
    return 0
