"""C02 — no session unless the BMC proves knowledge of the password."""
from . import core, conn, hist, hs

RULE = ("for each of the three authentication algorithms (x integrity algorithms in turn), KG absent/present: a correct transcript is "
        "mutated by (a) the BMC using another password, another password that differs only beyond 20 bytes / by zero padding "
        "(must still succeed), another KG; (b) every single-bit flip of the Open Session Response, RAKP 2 and RAKP 4 payloads "
        "(console session ID echo, BMC random, GUID, AuthCode, BMC session ID, ICV included), delivered instead of the genuine reply; "
        "(c) every status code 1..255 and other tags in each reply; (d) every truncation length of each reply.  predicates: "
        "a session is returned only if its SIK/K1/K2 equal those of an *active* session of the BMC with the same IDs (so both codes "
        "were the right keyed hashes of what was exchanged); a BMC password mismatch yields exactly ErrIncorrectPassword; status != 0 / "
        "tag != 0 / truncated payload yields an error.  tie: Coq new_session on the delivered bytes predicts session/keys/error class.  "
        "+ sequences of opens on one connection (right / wrong password, same and other user, options value kept or fresh): each open judged on its own.  distinct by (suite, mutation)")


def _bits(lo, hi):
    return [(16 + k) * 8 + j for k in range(lo, hi) for j in range(8)]


# per exchange: the bit positions (in the datagram) of the fields whose single-bit flips must prevent a session
FIELDS = {0: lambda pl: [_bits(8, 12)],
          1: lambda pl: [_bits(4, 8), _bits(8, 24), _bits(24, 40), _bits(40, pl)],
          2: lambda pl: [_bits(8, pl)]}
NAMED = {ex: (lambda pl, ex=ex: [b for f in FIELDS[ex](pl) for b in f]) for ex in FIELDS}


def again(ch, pw):
    """what an earlier handshake on the same connection leaves behind must not stand in for the password: after a session
    opened with the right password (closed or not), an open with a wrong password - same user, or another user whose
    password it is not - must fail with ErrIncorrectPassword; after a failed open with a wrong password the right one opens"""
    scns = []
    for k, su in enumerate(hist.SUITES):
        for reuse in (False, True):
            other = b"quite another one"
            bmc = conn.default_bmc(seed=950 + k, suites=[[100, su[0], su[1], su[2]]],
                                   users=[{"name": "admin", "password": pw.hex(), "maxpriv": 4}, {"name": "guest", "password": other.hex(), "maxpriv": 4}])
            seqs = [[("admin", pw, True), ("admin", b"incorrect horse", False), ("admin", pw, True)],
                    [("admin", b"incorrect horse", False), ("admin", pw, True), ("guest", pw, False), ("guest", other, True), ("admin", other, False)]]
            for seq in seqs:
                steps = []
                for j, (u, p, ok) in enumerate(seq):
                    steps.append(dict(hs.open_step(user=u, password=p, suites=[su]), reuse_opts=reuse, expect_ok=ok))
                    if ok and (j + k) % 2:
                        steps.append({"op": "close"})
                scns.append({"bmc": bmc, "timeout_ms": 40, "steps": steps, "suite": su, "reuse": reuse})
    for scn, out in zip(scns, conn.run_scenarios(scns)):
        n = 0
        for ti, (st, res) in enumerate(zip(scn["steps"], out["steps"])):
            if st["op"] != "open":
                continue
            n += 1
            desc = {"kind": "c02-again", "suite": list(scn["suite"]), "reuse_opts": scn["reuse"], "nth_open": n}
            ch.note_case("c02-again", "%s|%s|%d|%s" % (scn["suite"], scn["reuse"], n, st["expect_ok"]))
            if res.get("panic"):
                ch.violation(dict(desc, kind="panic"), {"scenario": scn, "step_index": ti, "panic": res["panic"]}); break
            if st["expect_ok"]:
                b = hs.bmc_session_for(out, res) if res["err"] == "nil" else None
                if res["err"] != "nil":
                    ch.violation(desc, {"scenario": scn, "step_index": ti, "what": "open %d with the right password failed: %s" % (n, res.get("errtext"))}); break
                s = res["session"]
                if b is None or not b["active"] or (s["sik"], s["k1"], s["k2"]) != (b["sik"], b["k1"], b["k2"]):
                    ch.violation(desc, {"scenario": scn, "step_index": ti, "what": "open %d returned a session the BMC did not authenticate" % n}); break
            else:
                if res["err"] == "nil":
                    ch.violation(desc, {"scenario": scn, "step_index": ti, "what": "open %d returned a session although the password is not the BMC's for user %s "
                                        "(an earlier handshake on this connection used the right one)" % (n, st["user"])}); break
                if res["err"] != "ErrIncorrectPassword":
                    ch.violation(desc, {"scenario": scn, "step_index": ti, "what": "open %d with a wrong password must yield ErrIncorrectPassword, got %s (%s)" % (n, res["err"], res.get("errtext"))}); break


def run(ch, build):
    core.proof_status(ch, "C02", build)
    rng = ch.rng
    scns = []
    pw = b"correct horse"
    kgv = bytes(range(1, 8)) + b"\x00" + bytes(range(9, 21))   # a binary key with a zero byte inside
    combos = [(a, [1, 2, 4][(a + k) % 3]) for a in (1, 2, 3) for k in range(1 if ch.quick() else 3)]
    for (a, i) in combos:
        su = (a, i, 1)
        for kg in (b"", kgv):
            def base(seed, **bmckw):
                return {"bmc": conn.default_bmc(seed=seed, suites=[[100, a, i, 1]], kg=kg.hex(),
                                                users=[{"name": "admin", "password": pw.hex(), "maxpriv": 4}], **bmckw), "timeout_ms": 40}
            # (a) password / KG variants
            variants = [("same", None, None, True), ("wrongpw", b"incorrect horse", None, False),
                        ("zeropadded", pw + b"\x00\x00", None, True), ("pad20", pw + b"\x00" * (20 - len(pw)), None, True),
                        ("prefix", pw[:-1], None, False), ("emptypw", b"", None, False)]
            # a 20-byte password of which the BMC only holds a prefix (16, 17, 19 bytes), or the caller only a prefix
            variants += [("bmcprefix16", "LONG16", None, False), ("bmcprefix17", "LONG17", None, False), ("bmcprefix19", "LONG19", None, False)]
            if kg:
                variants += [("wrongkg", None, bytes(range(1, 21)), False), ("kgprefix", None, kgv[:7] + bytes(13), False),
                             # the caller uses K_G, the BMC has none (its SIK is keyed with the user's password), or its K_G IS the password
                             ("bmcnokg", None, b"", False), ("bmckgispw", None, pw, False)]
            else:
                variants += [("bmchaskg", None, kgv, False)]
            longpw = b"a-twenty-byte-secret"
            for name, opw, okg, expect_ok in variants:
                use_pw = pw
                if isinstance(opw, str):            # the caller's password is the long one, the BMC's its first n bytes
                    use_pw, opw = longpw, longpw[:int(opw[4:])]
                s = base(11, **({"override_password": opw.hex()} if opw is not None else {}),
                         **({"override_kg": okg.hex()} if okg is not None else {}))
                if use_pw is not pw:
                    s["bmc"]["users"] = [{"name": "admin", "password": use_pw.hex(), "maxpriv": 4}]
                s["steps"] = [hs.open_step(password=use_pw, kg=kg, suites=[su])]
                s["variant"] = name; s["expect_ok"] = expect_ok; s["suite"] = su
                scns.append(s)
            # learn the genuine reply lengths
            probe = base(12); probe["steps"] = [hs.open_step(password=pw, kg=kg, suites=[su])]
            po = conn.run_scenarios([probe])[0]["steps"][0]
            lens = [len(d) // 2 for d in po["delivered"]]
            muts = []
            for ex, n in enumerate(lens):
                bits = list(range(16 * 8, n * 8))          # the wrapper payload (the authenticated fields live there)
                if ch.quick():
                    bits = rng.sample(bits, min(len(bits), 48))
                muts += [(ex, "flip:%d" % b) for b in bits]
                # the fields C02 names are always exercised: BMC session ID (Open Session Response payload 8..11),
                # console session ID echo / BMC random / GUID / AuthCode (RAKP 2 payload 4..), ICV (RAKP 4 payload 8..)
                named = NAMED[ex](n - 16)
                muts += [(ex, "flip:%d" % b) for b in (named if not ch.quick() else
                                                        [x for f in FIELDS[ex](n - 16) for x in rng.sample(f, min(len(f), 3))])]
                hdr_bits = list(range(0, 16 * 8))
                muts += [(ex, "flip:%d" % b) for b in (rng.sample(hdr_bits, 8) if ch.quick() else hdr_bits)]
                muts += [(ex, "trunc:%d" % t) for t in (range(n) if not ch.quick() else rng.sample(range(n), min(n, 24)))]
                # the BMC sends a shorter message (wrapper length consistent): every payload length below the genuine one
                pl = n - 16
                muts += [(ex, "truncpayload:%d" % t) for t in (range(pl) if not ch.quick() else sorted(set(rng.sample(range(pl), min(pl, 12)) + [0, 1, 7, 8, 9, pl - 1])))]
                sts = range(1, 256) if not ch.quick() else rng.sample(range(1, 256), 12)
                muts += [(ex, "setbytes:17=%d" % st) for st in sts]
                muts += [(ex, "setbytes:16=%d" % tg) for tg in (1, 0x80, 0xff)]
            if kg:
                for t in (8, 9, 12, 16):
                    sx = base(13, override_kg=bytes(range(1, 21)).hex())
                    sx["steps"] = [hs.open_step(password=pw, kg=kg, suites=[su], script=["ok", "ok", "truncpayload:%d" % t])]
                    sx["variant"] = "wrongkg-shortrakp4"; sx["expect_ok"] = False; sx["suite"] = su
                    scns.append(sx)
            for (ex, mu) in muts:
                s = base(12)
                s["steps"] = [hs.open_step(password=pw, kg=kg, suites=[su], script=["ok"] * ex + [mu])]
                s["variant"] = "%d:%s" % (ex, mu.split(":")[0]); s["mutation"] = (ex, mu); s["suite"] = su
                scns.append(s)
    # the version-agnostic entry point NewSession(ctx, *SessionOpts) (what programs written against the Session interface
    # call): the same verdicts and the same sentinel
    nscns = []
    for name, use_pw, expect in (("same", pw, "nil"), ("wrongpw", b"incorrect horse", "ErrIncorrectPassword"), ("prefix", pw[:-1], "ErrIncorrectPassword"),
                                 ("emptypw", b"", "ErrIncorrectPassword"), ("zeropadded", pw + b"\x00\x00", "nil")):
        for modern in (True, False):
            nscns.append({"bmc": conn.default_bmc(seed=14, suites=[[3, 1, 1, 1]] + ([[17, 3, 4, 1]] if modern else []),
                                                  users=[{"name": "admin", "password": pw.hex(), "maxpriv": 4}]), "timeout_ms": 40,
                          "variant": name, "expect": expect,
                          "steps": [dict(hs.open_step(password=use_pw, suites=[]), via_newsession=True),
                                    {"op": "cmd", "conn": "session", "cmd": {"name": "getdeviceid"}, "script": ["ok"]}]})
    for scn, out in zip(nscns, conn.run_scenarios(nscns)):
        res = out["steps"][0]
        desc = {"kind": "c02", "variant": "newsession-" + scn["variant"]}
        ch.note_case("c02-newsession", "%s|%s" % (scn["variant"], scn["bmc"]["suites"]))
        if res.get("panic"):
            ch.violation(dict(desc, kind="panic"), {"scenario": scn, "panic": res["panic"]})
        elif res["err"] != scn["expect"]:
            ch.violation(desc, {"scenario": scn, "what": "NewSession: expected %s, got %s (%s)" % (scn["expect"], res["err"], res.get("errtext"))})
        elif res["err"] == "nil":
            b = hs.bmc_session_for(out, res)
            if b is None or not b["active"] or out["steps"][1]["err"] != "nil":
                ch.violation(desc, {"scenario": scn, "what": "NewSession returned a session the BMC did not authenticate"})
    again(ch, pw)
    outs = conn.run_scenarios(scns)
    lines = []
    for scn, out in zip(scns, outs):
        lines.append(hs.hs_line(scn["steps"][0], out["steps"][0], scn["suite"]))
    model = core.oracle(lines)
    fam = {}
    for scn, out, mo in zip(scns, outs, model):
        step, res = scn["steps"][0], out["steps"][0]
        v = scn["variant"]
        fam[v.split(":")[-1] if ":" in v else v] = fam.get(v.split(":")[-1] if ":" in v else v, 0) + 1
        desc = {"kind": "c02", "suite": list(scn["suite"]), "variant": v}
        ch.note_case("c02-" + (v if ":" not in v else "exchange%s-%s" % tuple(v.split(":"))), "%s|%s|%s" % (scn["suite"], scn.get("mutation"), scn["bmc"]["kg"]))
        if res.get("panic"):
            ch.violation(dict(desc, kind="panic"), {"scenario": scn, "panic": res["panic"]}); continue
        hs.tie_open(ch, "c02", scn, step, res, mo, scn["suite"], desc)
        if res["err"] == "nil":
            b = hs.bmc_session_for(out, res)
            s = res["session"]
            # (the console-ID echo of the Open Session Response is not covered by either hash and is not
            # compared here: DESIGN.md observation O7)
            okk = b is not None and b["active"] and (s["sik"], s["k1"], s["k2"]) == (b["sik"], b["k1"], b["k2"])
            if not okk:
                ch.violation(desc, {"scenario": scn, "what": "a session was returned that the BMC did not authenticate (keys/IDs differ or not active)",
                                    "console": s, "bmc": b})
            if scn.get("expect_ok") is False:
                ch.violation(desc, {"scenario": scn, "what": "a session was returned although the BMC uses another password / KG"})
        else:
            if scn.get("expect_ok") is True:
                ch.violation(desc, {"scenario": scn, "what": "establishment failed although the keys are equal after zero padding", "err": res.get("errtext")})
            if v in ("wrongpw", "prefix", "emptypw") and res["err"] != "ErrIncorrectPassword":
                ch.violation(desc, {"scenario": scn, "what": "a wrong RAKP 2 code must yield ErrIncorrectPassword, got %s (%s)" % (res["err"], res.get("errtext"))})
            pass
        if res["err"] == "nil" and scn.get("mutation") and scn["mutation"][1].startswith("setbytes:17="):
            ch.violation(desc, {"scenario": scn, "what": "a session was returned although handshake reply %d carried the non-OK status %s"
                                % (scn["mutation"][0] + 1, scn["mutation"][1].split("=")[1])})
        if res["err"] == "nil" and scn.get("mutation") and scn["mutation"][1].startswith("setbytes:16="):
            ch.violation(desc, {"scenario": scn, "what": "a session was returned although handshake reply %d carried the mismatched message tag %s"
                                % (scn["mutation"][0] + 1, scn["mutation"][1].split("=")[1])})
        if res["err"] == "nil" and scn.get("mutation") and scn["mutation"][1].startswith("flip:"):
            ex, mu = scn["mutation"]; bit = int(mu.split(":")[1])
            n = len(res["delivered"][ex]) // 2 if ex < len(res["delivered"]) else 0
            if bit in NAMED[ex](n - 16):
                ch.violation(desc, {"scenario": scn, "what": "a session was returned although bit %d of payload byte %d of handshake reply %d "
                                    "(an authenticated field: the code received is not the keyed hash of the values exchanged) was flipped"
                                    % (bit % 8, bit // 8 - 16, ex + 1)})
        if res["err"] == "nil" and scn.get("mutation") and scn["mutation"][1].startswith("truncpayload"):
            ch.violation(desc, {"scenario": scn, "what": "a session was returned although a handshake message was truncated"})
    ch.extra["cases_by_kind"] = fam
    return ch.finish(rule=RULE, assumptions=["as C01"])


def replay(ch, build, path):
    from . import c10
    return c10.replay(ch, build, path)
