"""C03 — every packet sent in a session is authenticated, encrypted and well-formed."""
from . import core, conn, hist

RULE = ("command histories on sessions of all 9 suites: every command of the pool with random field values, plus a caller-defined "
        "command with request bodies of every length 0..70 (all residues mod 4 and mod 16, and bodies larger than anything sent "
        "before on the connection), with retry scripts; predicate: the specification's BMC (Coq SpecBmc.accept: session ID, "
        "both flags, integrity pad 0xFF x p with p<4 and (range mod 4 = 0), pad-length byte, next header 07, AuthCode = "
        "algorithm(K1) over auth-type..next-header, AES-CBC under K2[0..16), pad 01..n n with n<16, both checksums) accepts "
        "every transmitted datagram and reads exactly the requested command (addresses 20/81, NetFn/LUN, command, body code, "
        "request data equal to the Spec encoding of the request); no IV occurs twice in a run.  tie: Coq session_loop reproduces "
        "the bytes.  distinct by (command, fields, suite)")

IVS = {}


def hook(ch, ctx):
    step, res = ctx["step"], ctx["res"]
    if step.get("conn") != "session":
        return
    desc = dict(ctx["desc"], kind="c03")
    detail = {"scenario": ctx["scn"], "step_index": ctx["ti"]}
    fn, body, ent, cmd = conn.cmd_op(step["cmd"])
    lun = conn.cmd_lun(step["cmd"])
    for dg, a in zip(res["sent"], ctx["accepts"]):
        if not a.startswith("ok"):
            ch.violation(desc, dict(detail, what="the specification's BMC rejects a transmitted datagram", datagram=dg))
            return
        w = a.split(" ")
        iv = w[1][3:]
        f = w[3:]
        # rsaddr netfn rslun rqaddr rqseq rqlun cmd body data
        got = (int(f[0]), int(f[1]), int(f[2]), int(f[3]), int(f[5]), int(f[6]), int(f[7]))
        want = (0x20, fn, lun, 0x81, 0, cmd, body if body else 256)
        if got != want:
            ch.violation(desc, dict(detail, what="decrypted message is not the requested command: %s != %s" % (got, want)))
            return
        ctx.setdefault("datas", []).append(f[8][1:])
        key = (ctx["si"],)
        seen = IVS.setdefault(key, set())
        if iv in seen:
            ch.violation(desc, dict(detail, what="initialisation vector used twice", iv=iv))
        seen.add(iv)
    ch.extra.setdefault("_c03", []).append(ctx)


def run(ch, build):
    core.proof_status(ch, "C03", build)
    rng = ch.rng
    IVS.clear()
    steps_all = []
    # every body length 0..70 through the caller-defined command, first in ascending then random order
    raws = []
    for n in list(range(0, 71)) + [rng.randrange(0, 120) for _ in range(20 if ch.quick() else 200)]:
        raws.append({"name": "raw", "p": [rng.choice([0x06, 0x0a, 0x04, 0x30]), rng.randrange(256), rng.randrange(4), 0],
                     "hex": bytes(rng.randrange(256) for _ in range(n)).hex()})
    cmds = list(raws)
    for _ in range(8 if ch.quick() else 80):
        cmds += hist.command_pool(rng, True)
    scripts = []
    for c in cmds:
        r = rng.random()
        scripts.append(["ok"] if r < 0.6 else rng.choice([["busy", "ok"], ["garbage", "ok"], ["badsig", "c3", "ok"], ["lost"], ["truncbody"],
                                                            ["extend:1", "ok"], ["extend:5", "busy", "ok"], ["cutsig:1", "ok"], ["cutsig:4", "ok"],
                                                            ["cutsig:12", "ok"], ["cutsig:16", "c3", "ok"]]))
    scns, cur = [], None
    k = 0
    for c, sc in zip(cmds, scripts):
        if cur is None or len(cur["steps"]) >= 20:
            su = hist.SUITES[k % 9]; k += 1
            cur = {"bmc": conn.default_bmc(seed=k, suites=[[100, su[0], su[1], su[2]]]), "timeout_ms": 40,
                   "steps": [{"op": "open", "user": "admin", "password": b"secret".hex(), "priv": 4, "lookup": True, "suites": [list(su)]}]}
            scns.append(cur)
        cur["steps"].append({"op": "cmd", "conn": "session", "cmd": c, "script": sc})
    # a large body as the very first in-session command (nothing that large was serialised before)
    for n in (40, 59, 64, 100, 200):
        for su in hist.SUITES[:3]:
            scns.append({"bmc": conn.default_bmc(seed=n, suites=[[100, su[0], su[1], su[2]]]), "timeout_ms": 40, "steps": [
                {"op": "open", "user": "admin", "password": b"secret".hex(), "priv": 4, "lookup": True, "suites": [list(su)]},
                {"op": "cmd", "conn": "session", "cmd": {"name": "raw", "p": [0x30, 1, 0, 0], "hex": bytes(rng.randrange(256) for _ in range(n)).hex()}, "script": ["ok"]},
                {"op": "cmd", "conn": "session", "cmd": {"name": "getdeviceid"}, "script": ["ok"]}]})
    # long sessions: hundreds of datagrams under one K2 (an exporter's normal life); every IV must still be new
    for su in (hist.SUITES[0], hist.SUITES[8]) if ch.quick() else hist.SUITES:
        nlong = 330 if ch.quick() else 1500
        pool = [{"name": "getdeviceid"}, {"name": "sensorreading", "p": [3, 0]}, {"name": "getsdrrepoinfo"}]
        scns.append({"bmc": conn.default_bmc(seed=77, suites=[[100, su[0], su[1], su[2]]]), "timeout_ms": 40, "steps": [
            {"op": "open", "user": "admin", "password": b"secret".hex(), "priv": 4, "lookup": True, "suites": [list(su)]}] +
            [{"op": "cmd", "conn": "session", "cmd": pool[i % 3] if i % 7 else rng.choice(pool), "script": ["ok"] if i % 50 else ["busy", "ok"]}
             for i in range(nlong)]})
    outs = conn.run_scenarios(scns)
    hist.replay(ch, scns, outs, (hook,), "c03")
    # request data must equal the Spec encoding of the request (SpecParse round trip is C06; here: parse what the BMC saw)
    pend = ch.extra.pop("_c03", [])
    lines, idx = [], []
    for ctx in pend:
        name = ctx["step"]["cmd"]["name"]
        kind = "none" if name in conn.NOBODY else name
        for d in ctx.get("datas", []):
            lines.append("specbody %s %s" % (kind, d)); idx.append(ctx)
        lines.append("showreq %s" % conn.cmd_reqspec(ctx["step"]["cmd"])); idx.append(ctx)
    outs2 = core.oracle(lines)
    cur_ctx, parsed = None, []
    for ctx, o in zip(idx, outs2):
        if o.startswith("ok ") or o == "reject":
            parsed.append((ctx, o))
        else:
            want, wf = o.rsplit(" wf=", 1)
            for (c2, got) in parsed:
                if wf == "true" and got != "ok " + want:
                    ch.violation(dict(c2["desc"], kind="c03"), {"scenario": c2["scn"], "step_index": c2["ti"],
                                 "what": "request data read by the BMC is not the caller's request", "got": got, "want": want})
            parsed = []
    ch.extra["body_lengths"] = "0..70 each, plus random up to 120, plus {40,59,64,100,200} as first in-session command"
    return ch.finish(rule=RULE, assumptions=[
        "IV uniqueness is a statistical check of crypto/rand use (a constant or reused IV is caught; the randomness itself is Go's)",
        "keys used by the accepting BMC are the simulated BMC's own (equal to the Coq SpecBmc's by C01)"])


def replay(ch, build, path):
    from . import c10
    return c10.replay(ch, build, path)
