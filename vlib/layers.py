"""Input generators for the layer decoders (shared by C05, C07, C17).
Everything random derives from the Check's rng."""
import hashlib, hmac as pyhmac

PLAIN = ["rmcp", "selector", "v1session", "message", "opensessionrsp", "rakp1", "rakp2", "rakp4",
         "deviceid", "chassis", "authcaps", "ciphersuites", "sessioninfo", "setpriv", "guid", "reserve",
         "getsdrrsp", "sdrhdr", "sdrrepoinfo", "sensorreading", "fsr", "dcmicaps", "dcmimand", "dcmiopt",
         "dcmimgmt", "dcmipower", "powerreading", "dcmisensor"]

K1 = bytes(range(0x10, 0x30))           # a fixed, known integrity key (32 bytes)
AESKEY = bytes(range(0xA0, 0xB0))
V2 = ["v2session:0:-", "v2session:1:" + K1[:20].hex(), "v2session:2:" + K1[:16].hex(), "v2session:4:" + K1.hex()]
AES = "aes:" + AESKEY.hex()
ALL = PLAIN + V2 + [AES]


def hx(b):
    return b.hex() if b else "-"


def checksum(bs):
    return (-sum(bs)) % 256


def message(rng, netfn=None, cc=None, body=None, n=None):
    """a checksum-valid IPMI message"""
    if netfn is None:
        netfn = rng.choice([0x00, 0x01, 0x04, 0x05, 0x06, 0x07, 0x0a, 0x0b, 0x2c, 0x2d, 0x2e, 0x2f, rng.randrange(64)])
    h = [rng.choice([0x20, 0x81, rng.randrange(256)]), (netfn << 2) | rng.randrange(4)]
    h.append(checksum(h))
    if body is None:
        body = bytes(rng.randrange(256) for _ in range(rng.choice([0, 0, 1, 2, 3, 4, 8, 16, 17]) if n is None else n))
    rest = [rng.choice([0x20, 0x81, rng.randrange(256)]), rng.randrange(256), rng.randrange(256)]
    if netfn % 2 == 1:
        rest.append(rng.choice([0, 0, 0xc0, 0xc3, 0xc1, rng.randrange(256)]) if cc is None else cc)
    rest += list(body)
    rest.append(checksum(rest))
    return bytes(h + rest)


def integ_sign(alg, key, msg):
    if alg == 0:
        return b""
    if alg == 1:
        return pyhmac.new(key, msg, hashlib.sha1).digest()[:12]
    if alg == 2:
        return pyhmac.new(key, msg, hashlib.md5).digest()
    if alg == 4:
        return pyhmac.new(key, msg, hashlib.sha256).digest()[:16]
    raise ValueError(alg)


def v2_params(name):
    _, alg, key = name.split(":")
    return int(alg), (bytes.fromhex(key) if key != "-" else b"")


def v2session(rng, name, payload=None, auth=None, oem=None, ptype=None, pad=None, good_sig=True):
    alg, key = v2_params(name)
    if payload is None:
        payload = bytes(rng.randrange(256) for _ in range(rng.choice([0, 1, 2, 3, 4, 7, 8, 15, 16, 17, 31, 32, 33])))
    if auth is None:
        auth = rng.random() < 0.6
    if oem is None:
        oem = rng.random() < 0.2
    if ptype is None:
        ptype = 2 if oem else rng.choice([0, 0, 0x10, 0x11, 0x12, 0x13, 0x14, 0x15, rng.randrange(64)])
        if not oem and ptype == 2:
            ptype = 0
    b1 = ptype | (0x40 if auth else 0) | (0x80 if rng.random() < 0.5 else 0)
    hdr = [6, b1]
    if ptype == 2:
        hdr += [rng.randrange(256) for _ in range(6)]
    hdr += [rng.randrange(256) for _ in range(8)]
    hdr += [len(payload) & 255, len(payload) >> 8]
    out = bytes(hdr) + payload
    if auth:
        p = (4 - (len(out) + 2) % 4) % 4 if pad is None else pad
        out += b"\xff" * p + bytes([p, 7])
        sig = integ_sign(alg, key, out)
        if not good_sig:
            sig = bytes((x ^ 0x55) for x in sig) if sig else b"\x01"
        out += sig
    return out


def aes_plain(rng, n=None, padlen=None, goodpad=True):
    """plaintext (payload + pad + padlen) of length multiple of 16"""
    if n is None:
        n = rng.choice([0, 1, 7, 8, 14, 15, 16, 17, 30, 31, 32, 47])
    data = bytes(rng.randrange(256) for _ in range(n))
    p = (15 - n % 16) if padlen is None else padlen
    pad = bytes(range(1, p + 1))
    if not goodpad and p > 0:
        k = rng.randrange(p)
        pad = pad[:k] + bytes([(pad[k] + 1) % 256]) + pad[k + 1:]
    return data + pad + bytes([p])


def plausible_lengths(name):
    """lengths around every guard of the decoder (and some beyond)"""
    base = {
        "rmcp": [3, 4, 5, 20], "selector": [0, 1, 2, 10], "v1session": [9, 10, 11, 25, 26, 27, 40],
        "message": [6, 7, 8, 9, 10, 11, 12, 20], "opensessionrsp": [0, 1, 2, 6, 7, 8, 35, 36, 37],
        "rakp1": [27, 28, 29, 36, 44, 45], "rakp2": [7, 8, 9, 23, 24, 39, 40, 41, 52, 56, 60, 72],
        "rakp4": [7, 8, 9, 20, 24], "deviceid": [10, 11, 12, 13, 14, 15, 16, 20], "chassis": [2, 3, 4, 5],
        "authcaps": [7, 8, 9], "ciphersuites": [0, 1, 2, 16, 17, 18, 30], "sessioninfo": [2, 3, 4, 5, 6, 7, 17, 18, 19],
        "setpriv": [0, 1, 2], "guid": [15, 16, 17], "reserve": [1, 2, 3], "getsdrrsp": [1, 2, 3, 7, 60],
        "sdrhdr": [4, 5, 6, 20], "sdrrepoinfo": [13, 14, 15], "sensorreading": [2, 3, 4, 5],
        "fsr": [42, 43, 44, 45, 50, 59, 60, 64, 74, 75], "dcmicaps": [2, 3, 5, 6, 7], "dcmimand": [6, 7, 8, 9],
        "dcmiopt": [4, 5, 6], "dcmimgmt": [5, 6, 7], "dcmipower": [3, 4, 5, 8, 12], "powerreading": [0, 16, 17, 18],
        "dcmisensor": [1, 2, 3, 4, 10, 18, 19],
    }
    return base.get(name.split(":")[0], [0, 11, 12, 13, 17, 18, 19, 32, 48, 49, 64])


def structured(rng, name, n):
    """random bytes of length n with the fields that steer control flow set to interesting values"""
    b = bytearray(rng.randrange(256) for _ in range(n))
    base = name.split(":")[0]
    r = rng.random()
    if base == "opensessionrsp" and n >= 2:
        b[1] = 0 if r < 0.7 else rng.randrange(256)
        if n == 1:
            b[0] = rng.choice([0, 1, 0x11])
        if n >= 36:
            b[12], b[20], b[28] = 0, 1, 2
            for o in (15, 23, 31):
                b[o] = rng.choice([8, 8, 8, 0])
            for o in (16, 24, 32):
                b[o] = rng.choice([0, 1, 2, 3, 4, 0x41, 0xff])
            for o in (15, 23, 31):
                if b[o] == 0 and rng.random() < 0.8:
                    b[o + 1] = 0
    elif base in ("rakp2", "rakp4") and n >= 2:
        b[1] = 0 if r < 0.7 else rng.randrange(256)
    elif base == "rakp1" and n >= 28:
        b[27] = rng.choice([0, 1, 8, 16, 17, n - 28 if 0 <= n - 28 < 256 else 0])
    elif base == "v1session" and n >= 1:
        b[0] = rng.choice([0, 0, 1, 2, 4, 5, 6])
    elif base == "selector" and n >= 1:
        b[0] = rng.choice([6, 6, 0, 2, rng.randrange(256)])
    elif base == "sessioninfo" and n >= 1:
        b[0] = rng.choice([0, 0, 1, rng.randrange(256)])
    elif base == "fsr" and n >= 43:
        enc = rng.randrange(4)
        b[42] = (enc << 6) | rng.choice([0, 0, 1, 2, 3, 4, 5, 8, 16, n - 43 if 0 <= n - 43 < 32 else 7, 31])
    elif base in ("dcmicaps", "dcmimand", "dcmiopt", "dcmimgmt", "dcmipower") and n >= 3:
        b[0], b[1] = rng.choice([(1, 0), (1, 1), (1, 5), (2, 0), (1, 0)])
        if base == "dcmipower" and n >= 4:
            b[3] = rng.choice([0, 1, n - 4, n - 3, 255])
    elif base == "sdrhdr" and n >= 3 and r < 0.9:
        b[2] = rng.randrange(10) * 16 + rng.randrange(10)
    elif base == "sdrrepoinfo" and n >= 1 and r < 0.9:
        b[0] = rng.randrange(10) * 16 + rng.randrange(10)
    elif base == "deviceid" and n >= 4 and r < 0.9:
        b[3] = rng.randrange(10) * 16 + rng.randrange(10)
    elif base == "dcmisensor" and n >= 2:
        b[1] = rng.choice([0, 1, (n - 2) // 2, (n - 2) // 2 + 1, 8, 255])
    return bytes(b)


def valid_pool(rng, name, count):
    """inputs that the decoder accepts (mostly) with differing optional tails/branches"""
    base = name.split(":")[0]
    out = []
    for _ in range(count):
        if base == "message":
            out.append(message(rng))
        elif base == "v2session":
            out.append(v2session(rng, name))
        else:
            n = rng.choice(plausible_lengths(name)[1:] + [rng.randrange(0, 80)])
            out.append(structured(rng, name, n))
    return out
