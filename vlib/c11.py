"""C11 — a result always comes from a response to the command that was sent."""
from . import core, conn, hist

RULE = ("every ordered pair (A, B) of distinct commands from the pool, session-less (all commands allowed by the simulated BMC) and "
        "inside a session, under three reply-misdelivery patterns: B's first read returns a duplicate of A's reply; A's reply is "
        "delayed and arrives at B's first read (the duplicate produced by a retransmission after a slow reply); the delay persists "
        "over a third command; a duplicate of a REFUSAL (permanent non-zero code) of A arrives at B; three stale replies in a row; a run of 4..12 stale replies; session-less additionally: B answered node busy, then a stray duplicate of A's reply, then silence "
        "until B's context expires.  predicate: the value each call returns is the decoding of the BMC's own answer to *that* call "
        "(completion code and response data logged by the BMC), never of another command's reply; tie: the Coq retry model "
        "reproduces transmissions and results.  distinct by (A, B, pattern, connection kind)")


def hook(ch, ctx):
    step, res = ctx["step"], ctx["res"]
    desc = dict(ctx["desc"], kind="c11")
    detail = {"scenario": ctx["scn"], "step_index": ctx["ti"]}
    fn, body, ent, cmd = conn.cmd_op(step["cmd"])
    mine = [e for e in res["bmc"] if e["accepted"] and e["netfn"] == fn and e["cmd"] == cmd]
    if hist.refused_locally(step):
        if res["err"] == "nil":
            ch.violation(desc, dict(detail, what="a request the library refuses to send returned a result"))
        return
    if not mine:
        ch.violation(desc, dict(detail, what="no well-formed transmission of the command reached the BMC"))
        return
    if res["err"] in ("lost", "deadline"):
        return          # no value was returned
    if res["err"] == "nil" and not any(res["delivered"]) and not ctx["scn"].get("udp"):
        # (in-memory transport only: over real sockets the transcript is written by the peer's side of the socket and can
        # lag behind the call)
        # nothing at all was read during this call, yet it returned a result
        ch.violation(desc, dict(detail, what="the call returned a result although no datagram was delivered to it",
                                returned={"code": res["code"], "err": res["err"], "rsp": res["rsp"]}))
        return
    # the BMC's own answer(s) to this call: the result must be one of them
    answers = set((e["cc"], e["rspdata"]) for e in mine)
    ctx["answers"] = answers
    ch.extra.setdefault("_c11", []).append((ctx, answers))


def run(ch, build):
    core.proof_status(ch, "C11", build)
    rng = ch.rng
    scns = []
    for session in (False, True):
        pool = hist.command_pool(rng, session)
        # (a request the library refuses locally transmits nothing, so there is no reply of it to misdeliver: a pattern
        # built on it degenerates into a duplicate of a reply to the same operation, which C11 excludes)
        pool = [c for c in pool if c["name"] not in ("raw",) and not hist.refused_locally({"cmd": c})]
        pairs = [(a, b) for a in pool for b in pool if conn.cmd_op(a) != conn.cmd_op(b)]
        if ch.quick():
            pairs = rng.sample(pairs, min(len(pairs), 150))
        # caller-defined commands (the ipmi.Command interface is open): two commands that share their Name() - the metrics
        # label - but not their operation, and a group-extension / OEM command whose command number (and zero body code /
        # enterprise number) coincides with a command of another network function
        raw = lambda fn, cmd, body=0, hx="": {"name": "raw", "p": [fn, cmd, 0, body], "hex": hx}
        special = [(raw(6, 0x01), raw(6, 0x37)), (raw(6, 0x37), raw(0x0a, 0x20)), (raw(0x0a, 0x22), raw(6, 0x01)),
                   (raw(0x2c, 0x01), {"name": "getchassisstatus"}), (raw(0x2c, 0x01), {"name": "getdeviceid"}),
                   (raw(0x2c, 0x02), {"name": "chassiscontrol", "p": [1]}), (raw(0x2c, 0x37), {"name": "getsystemguid"}),
                   (raw(0x2c, 0x20), {"name": "getsdrrepoinfo"}),
                   ({"name": "getchassisstatus"}, raw(0x2c, 0x01)), ({"name": "dcmicaps", "p": [1]}, raw(0x2c, 0x01))]
        pairs = pairs + special
        for k, (a, b) in enumerate(pairs):
            su = hist.SUITES[k % 9]
            for pattern in ("dup", "delay", "delay3", "errstray", "threestrays", "manystrays") + (("busystray",) if not session else ("nobody-lost",)):
                scn = {"bmc": conn.default_bmc(seed=k + 1, suites=[[100, su[0], su[1], su[2]]], loose=True), "timeout_ms": 40, "steps": []}
                cn = "session" if session else "sessionless"
                if session:
                    scn["steps"].append({"op": "open", "user": "admin", "password": b"secret".hex(), "priv": 4, "lookup": True, "suites": [list(su)]})
                c3 = rng.choice([c for c in pool if conn.cmd_op(c) not in (conn.cmd_op(a), conn.cmd_op(b))])
                if pattern == "dup":
                    scn["steps"] += [{"op": "cmd", "conn": cn, "cmd": a, "script": ["ok"]},
                                     {"op": "cmd", "conn": cn, "cmd": b, "script": ["dupprev", "ok"]},
                                     {"op": "cmd", "conn": cn, "cmd": c3, "script": ["ok"]}]
                elif pattern == "errstray":
                    # A is refused with a permanent completion code; a duplicate of that refusal arrives at B's first read
                    code = rng.choice([0xc1, 0xc9, 0xcc, 0xd4, 0xd5, 0xff])
                    scn["steps"] += [{"op": "cmd", "conn": cn, "cmd": a, "script": ["cc:%d" % code]},
                                     {"op": "cmd", "conn": cn, "cmd": b, "script": ["dupstep", "ok"]},
                                     {"op": "cmd", "conn": cn, "cmd": c3, "script": ["ok"]}]
                elif pattern == "threestrays":
                    # three stale replies to A in a row before B's own answer
                    scn["steps"] += [{"op": "cmd", "conn": cn, "cmd": a, "script": ["ok"]},
                                     {"op": "cmd", "conn": cn, "cmd": b, "script": ["dupstep", "dupstep", "dupstep", "ok"]},
                                     {"op": "cmd", "conn": cn, "cmd": c3, "script": ["dupstep", "ok"]}]
                elif pattern == "manystrays":
                    # a longer run of stale replies (4..12) before B's own answer: however many were skipped, the next one
                    # is still not B's
                    nstr = rng.randrange(4, 13)
                    scn["steps"] += [{"op": "cmd", "conn": cn, "cmd": a, "script": ["ok"]},
                                     {"op": "cmd", "conn": cn, "cmd": b, "script": ["dupstep"] * nstr + ["ok"]},
                                     {"op": "cmd", "conn": cn, "cmd": c3, "script": ["ok"]}]
                elif pattern == "nobody-lost":
                    # inside a session: the reply to a command WITHOUT a response body (Chassis Control, a caller-defined
                    # command) never arrives - there is no result then, least of all "completion code 00h"
                    nb = rng.choice([{"name": "chassiscontrol", "p": [rng.randrange(6)]}, {"name": "raw", "p": [0x06, 0x01, 0, 0], "hex": ""}])
                    scn["steps"] += [{"op": "cmd", "conn": cn, "cmd": a, "script": ["ok"]},
                                     {"op": "cmd", "conn": cn, "cmd": nb, "script": [rng.choice(["lost", "silence"])], "ctx_ms": 400},
                                     {"op": "cmd", "conn": cn, "cmd": b, "script": ["ok"]}]
                elif pattern == "busystray":
                    # B is answered "node busy", its retransmission reads a stray duplicate of A's reply (not an answer to
                    # B), then nothing arrives until B's context expires: B must end in an error, never in A's value
                    scn["steps"] += [{"op": "cmd", "conn": cn, "cmd": a, "script": ["ok"]},
                                     {"op": "cmd", "conn": cn, "cmd": b, "script": ["busy", "dupstep", "silence", "silence", "silence", "silence"], "ctx_ms": 100},
                                     {"op": "cmd", "conn": cn, "cmd": c3, "script": ["ok"]}]
                elif pattern == "delay" and not session:
                    # A's first reply is slow (the read times out), A is retransmitted and answered;
                    # the slow reply then shows up at B's first read
                    scn["steps"] += [{"op": "cmd", "conn": cn, "cmd": a, "script": ["delay", "ok"]},
                                     {"op": "cmd", "conn": cn, "cmd": b, "script": ["flush", "flush", "ok"]},
                                     {"op": "cmd", "conn": cn, "cmd": c3, "script": ["flush", "ok"]}]
                elif pattern == "delay":
                    scn["steps"] += [{"op": "cmd", "conn": cn, "cmd": a, "script": ["ok"]},
                                     {"op": "cmd", "conn": cn, "cmd": b, "script": ["dupprev", "dupprev", "ok"]},
                                     {"op": "cmd", "conn": cn, "cmd": c3, "script": ["dupprev", "ok"]}]
                else:
                    scn["steps"] += [{"op": "cmd", "conn": cn, "cmd": a, "script": ["ok"]},
                                     {"op": "cmd", "conn": cn, "cmd": b, "script": ["ok"]},
                                     {"op": "cmd", "conn": cn, "cmd": a, "script": ["dupprev", "ok"]},
                                     {"op": "cmd", "conn": cn, "cmd": b, "script": ["dupprev", "ok"]}]
                scns.append(scn)
    outs = conn.run_scenarios(scns)
    hist.replay(ch, scns, outs, (hook,), "c11")
    # over the library's real UDP transport: every reply is followed, hard on its heels, by a duplicate of the previous
    # command's reply (a stray that is in the socket while the accepted reply is being used); many exchanges, because what
    # such a stray can disturb depends on scheduling
    uscns = []
    for k in range(16 if ch.quick() else 64):
        pool = [c for c in hist.command_pool(rng, False) if c["name"] in ("getsystemguid", "authcaps", "getdeviceid", "getchassisstatus", "ciphersuites", "getsdrrepoinfo")]
        steps = [{"op": "cmd", "conn": "sessionless", "cmd": pool[0], "script": ["ok"]}]
        for j in range(60):
            steps.append({"op": "cmd", "conn": "sessionless", "cmd": pool[(j * 7 + k) % len(pool)], "script": ["okstray"] * 6})
        uscns.append({"bmc": conn.default_bmc(seed=900 + k, loose=True, guid=bytes(rng.randrange(256) for _ in range(16)).hex()), "timeout_ms": 1500, "udp": True, "steps": steps})
    for si, (scn, out) in enumerate(zip(uscns, conn.run_scenarios(uscns, spread=True))):
        seen = []
        for ti, (step, res) in enumerate(zip(scn["steps"], out["steps"])):
            # the BMC's answers to this command anywhere in the scenario so far: on a busy machine a reply can arrive after
            # its attempt's window, and what the next call of the same command then reads first is that (equal) answer
            seen += res["bmc"]
            res = dict(res, bmc=list(seen))
            desc = {"kind": "c11", "conn": "sessionless-udp", "cmd": step["cmd"]["name"], "script": step["script"][:1]}
            ch.note_case("c11-udp-stray-behind-reply", "%d|%d|%s" % (si, ti, step["cmd"]))
            if res.get("panic"):
                ch.violation(dict(desc, kind="panic"), {"scenario": scn, "panic": res["panic"]}); continue
            hook(ch, {"step": step, "res": res, "desc": desc, "scn": scn, "ti": ti})
    pend = ch.extra.pop("_c11", [])
    # decode the BMC's own answers with the model and compare with what the call returned
    lines, idx = [], []
    for ctx, answers in pend:
        layer = conn.cmd_rsp_layer(ctx["step"]["cmd"])
        for (cc, data) in answers:
            body = data
            if conn.cmd_op(ctx["step"]["cmd"])[1]:      # group extension: body code echoed first
                body = data[2:]
            if layer:
                lines.append("dec %s _ %s" % (layer, body or "-")); idx.append((ctx, cc, True))
            elif ctx["step"]["cmd"]["name"] == "raw":
                # a caller-defined command: the response data as the BMC sent it (group extension: behind the body code,
                # OEM: behind the enterprise number)
                fn = conn.cmd_op(ctx["step"]["cmd"])[0]
                idx.append((ctx, cc, "raw " + (data[2:] if fn == 0x2c else data[6:] if fn == 0x2e else data)))
            else:
                idx.append((ctx, cc, False))
    dec = iter(core.oracle(lines))
    allowed = {}
    for (ctx, cc, has) in idx:
        d = next(dec) if has is True else (has or "")
        allowed.setdefault(id(ctx), (ctx, set()))[1].add((cc, d))
    for ctx, al in allowed.values():
        res = ctx["res"]
        got_ok = any(res["code"] == cc and (res["err"] == "nil" and (not d or res["rsp"] == d) or (res["err"] == "other" and d in ("err",)))
                     for (cc, d) in al)
        if not got_ok:
            ch.violation(dict(ctx["desc"], kind="c11"), {"scenario": ctx["scn"], "step_index": ctx["ti"],
                         "what": "the value returned is not the BMC's answer to this command",
                         "returned": {"code": res["code"], "err": res["err"], "rsp": res["rsp"]}, "bmc_answers": sorted(al)})
    ch.extra["scenarios"] = len(scns)
    return ch.finish(rule=RULE, assumptions=["as C10; a duplicate of a reply to the *same* command cannot be told apart (the library uses message sequence number 1 throughout) and is outside the property"])


def replay(ch, build, path):
    from . import c10
    return c10.replay(ch, build, path)
