"""C12 — the cipher suite used is the caller's first supported preference, never another."""
import itertools
from . import core, conn, hist, hs

RULE = ("universe of 4 suites {3=(1,1,1), 17=(3,4,1), (2,2,1), (1,4,1)}: every ordered preference list of length 0..3 x every subset "
        "of suites the BMC advertises (served as real cipher-suite records through Get Channel Cipher Suites), exhaustive; predicates: "
        "the Open Session Request the BMC receives proposes the first preference (defaults 17 then 3 for an empty list) the BMC "
        "advertises, ErrNoSupportedCipherSuite if none, and a single preference is proposed with no discovery traffic.  Confirmation: "
        "the algorithm triple of the Open Session Response is overwritten with every triple of {0..7, 0x30, 0x3f}^3 (and the wildcard "
        "form): a session is returned iff the triple equals the proposal (and then uses it), anything else is an error, never a "
        "panic.  Sequences of three establishments on one connection with the advertised set changed in between.  tie: Coq determine / new_session.  distinct by (preferences, advertised set) / (suite, triple)")

UNIVERSE = [(1, 1, 1), (3, 4, 1), (2, 2, 1), (1, 4, 1)]
IDS = {(1, 1, 1): 3, (3, 4, 1): 17, (2, 2, 1): 6, (1, 4, 1): 200}
DEFAULTS = [(3, 4, 1), (1, 1, 1)]


def expected(pref, adv):
    d = pref or DEFAULTS
    if len(d) == 1:
        return d[0], False
    for s in d:
        if s in adv:
            return s, True
    return None, True


def run(ch, build):
    core.proof_status(ch, "C12", build)
    rng = ch.rng
    scns = []
    prefs = [[]]
    for n in (1, 2, 3):
        prefs += [list(p) for p in itertools.permutations(UNIVERSE, n)]
    # also lists with a repeated element
    prefs += [[UNIVERSE[0], UNIVERSE[0]], [UNIVERSE[2], UNIVERSE[2], UNIVERSE[1]]]
    subsets = [[s for k, s in enumerate(UNIVERSE) if m >> k & 1] for m in range(16)]
    for pref in prefs:
        for adv in subsets:
            bmc = conn.default_bmc(seed=3, suites=[[IDS[s], s[0], s[1], s[2]] for s in adv])
            scns.append({"bmc": bmc, "timeout_ms": 40, "pref": pref, "adv": adv, "steps": [
                hs.open_step(suites=pref), {"op": "cmd", "conn": "session", "cmd": {"name": "getdeviceid"}, "script": ["ok"]}]})
    nsel = len(scns)
    # confirmation sweep
    vals = [0, 1, 2, 3, 4, 5, 6, 7, 0x30, 0x3f]
    triples = list(itertools.product(vals, repeat=3))
    if ch.quick():
        triples = rng.sample(triples, 160) + [(1, 1, 1), (3, 4, 1), (2, 2, 1), (1, 1, 0), (1, 0, 1), (0, 1, 1), (0, 0, 0), (3, 4, 0), (3, 0, 1)]
    for su in ([(1, 1, 1), (3, 4, 1)] if ch.quick() else hist.SUITES):
        # every triple that differs from the proposal in exactly one algorithm (the silent downgrade / swap)
        near = [tuple(su[:k]) + (v,) + tuple(su[k + 1:]) for k in range(3) for v in vals if v != su[k]]
        # ... including the proposed number with bit 5 set (another 6-bit algorithm number) and with the reserved bits 7:6 set
        near += [tuple(su[:k]) + (su[k] | hi,) + tuple(su[k + 1:]) for k in range(3) for hi in (0x20, 0x40, 0x80, 0xc0, 0xe0)]
        for t in list(dict.fromkeys(triples + near + [tuple(su)])):
            bmc = conn.default_bmc(seed=4, suites=[[100, su[0], su[1], su[2]]])
            # Open Session Response: datagram = 16 header + payload; algorithms at payload offsets 16, 24, 32
            mu = "setbytes:32=%d;40=%d;48=%d" % t
            scns.append({"bmc": bmc, "timeout_ms": 40, "suite": su, "triple": t,
                         "steps": [hs.open_step(suites=[su], script=[mu]),
                                   {"op": "cmd", "conn": "session", "cmd": {"name": "getdeviceid"}, "script": ["ok"]}]})
        # wildcard form (length byte 0) of each payload
        for off in (31, 39, 47):
            scns.append({"bmc": conn.default_bmc(seed=4, suites=[[100, su[0], su[1], su[2]]]), "timeout_ms": 40, "suite": su, "triple": ("wild", off),
                         "steps": [hs.open_step(suites=[su], script=["setbytes:%d=0" % off]),
                                   {"op": "cmd", "conn": "session", "cmd": {"name": "getdeviceid"}, "script": ["ok"]}]})
    outs = conn.run_scenarios(scns)
    # --- selection ---
    det_lines = []
    for scn in scns[:nsel]:
        f = lambda l: ",".join("%d/%d/%d" % s for s in l) or "."
        det_lines.append("determine %s %s" % (f(scn["pref"]), f(scn["adv"])))
    det = core.oracle(det_lines)
    for scn, out, dm in zip(scns[:nsel], outs[:nsel], det):
        res = out["steps"][0]
        desc = {"kind": "c12-select", "pref": [list(s) for s in scn["pref"]], "adv": [list(s) for s in scn["adv"]]}
        ch.note_case("c12-select", "%s|%s" % (scn["pref"], scn["adv"]), nontrivial=len(scn["pref"]) != 1)
        if res.get("panic"):
            ch.violation(dict(desc, kind="panic"), {"scenario": scn, "panic": res["panic"]}); continue
        want, disc = expected([tuple(s) for s in scn["pref"]], [tuple(s) for s in scn["adv"]])
        discovery = [e for e in res["bmc"] if e["kind"] == "ipmi-sessionless" and e["cmd"] == 0x54]
        opens = [e for e in res["bmc"] if e["kind"] == "opensession"]
        proposed = None
        if opens:
            p = bytes.fromhex(opens[0]["payload"])
            proposed = (p[12], p[20], p[28])
        if want is None:
            got = "nosupported" if res["err"] == "ErrNoSupportedCipherSuite" else "other"
            if res["err"] != "ErrNoSupportedCipherSuite" or opens:
                ch.violation(desc, {"scenario": scn, "what": "expected ErrNoSupportedCipherSuite and no Open Session Request", "err": res["err"], "proposed": proposed})
            model_want = "nosupported"
        else:
            if proposed != want:
                ch.violation(desc, {"scenario": scn, "what": "proposed %s, the first supported preference is %s" % (proposed, want), "err": res["err"]})
            # ... and is the suite the session then USES: the BMC, which checks and decrypts with the algorithms it confirmed,
            # accepts the first command (UNIVERSE contains a suite whose authentication and integrity hashes differ)
            r2 = out["steps"][1]
            if res["err"] == "nil" and (r2["err"] != "nil" or not r2["bmc"] or not all(e["accepted"] for e in r2["bmc"])):
                ch.violation(desc, {"scenario": scn, "what": "the session does not use the negotiated suite %s: its first command is not accepted by the BMC" % (want,),
                                    "events": r2["bmc"], "err": r2["err"]})
            if bool(discovery) != disc:
                ch.violation(desc, {"scenario": scn, "what": "discovery traffic %s expected %s" % (bool(discovery), disc)})
            model_want = "%d/%d/%d discovery=%s" % (want + ("true" if disc else "false",))
        # tie: Coq determine
        got_model = dm
        impl = "nosupported" if res["err"] == "ErrNoSupportedCipherSuite" else (
            "%d/%d/%d discovery=%s" % (proposed + ("true" if discovery else "false",)) if proposed else "none")
        if got_model != impl:
            ch.corr_break(desc, {"scenario": scn, "impl": impl, "model": got_model})
    # --- confirmation ---
    lines = [hs.hs_line(s["steps"][0], o["steps"][0], s["suite"]) for s, o in zip(scns[nsel:], outs[nsel:])]
    model = core.oracle(lines)
    for scn, out, mo in zip(scns[nsel:], outs[nsel:], model):
        res = out["steps"][0]
        desc = {"kind": "c12-confirm", "suite": list(scn["suite"]), "triple": list(scn["triple"])}
        ch.note_case("c12-confirm", "%s|%s" % (scn["suite"], scn["triple"]))
        if any(r.get("panic") for r in out["steps"]):
            ch.violation(dict(desc, kind="panic"), {"scenario": scn, "panic": [r.get("panic") for r in out["steps"]]}); continue
        hs.tie_open(ch, "c12", scn, scn["steps"][0], res, mo, scn["suite"], desc)
        # (bits 7:6 of an algorithm byte are reserved and ignored on receipt: the algorithm number is the low six bits)
        same = tuple((x & 0x3f) if isinstance(x, int) else x for x in scn["triple"]) == tuple(scn["suite"])
        if res["err"] == "nil":
            s = res["session"]
            if not same or (int(s["auth"]), int(s["integ"]), int(s["conf"])) != tuple(scn["suite"]):
                ch.violation(desc, {"scenario": scn, "what": "a session was returned although the BMC confirmed other algorithms", "session": s})
        elif same:
            ch.violation(desc, {"scenario": scn, "what": "confirmation of exactly the proposed algorithms was refused", "err": res.get("errtext")})
    # --- every authentication algorithm number 0..63 proposed as the only preference to a BMC that confirms it and answers
    # RAKP Message 1 with status OK: the three implemented ones aside, the result is an error - never a panic, never a session ---
    rakp2 = bytes([0, 0, 0, 0, 1, 0, 0, 0]) + bytes(range(16)) + bytes(range(16, 32)) + bytes(20)
    fake = (bytes.fromhex("0600ff07" "0613" "00000000" "00000000") + len(rakp2).to_bytes(2, "little") + rakp2).hex()
    ascns = [{"bmc": conn.default_bmc(seed=8, suites=[[100, a, 1, 1]]), "timeout_ms": 40, "alg": a,
              "steps": [hs.open_step(suites=[(a, 1, 1)], script=["ok", "raw:" + fake])]} for a in range(64) if a not in (1, 2, 3)]
    for scn, out in zip(ascns, conn.run_scenarios(ascns)):
        res = out["steps"][0]
        ch.note_case("c12-unknown-auth", str(scn["alg"]))
        desc = {"kind": "c12-unknown-auth", "alg": scn["alg"]}
        if res.get("panic") or res["err"] == "panic":
            ch.violation(dict(desc, kind="panic"), {"scenario": scn, "panic": res.get("panic"),
                         "what": "authentication algorithm %d, confirmed by the BMC, made the library panic" % scn["alg"]})
        elif res["err"] == "nil":
            ch.violation(desc, {"scenario": scn, "what": "a session was returned for the unimplemented authentication algorithm %d" % scn["alg"]})
    # ... and every integrity and confidentiality algorithm number: the handshake completes (they only matter afterwards);
    # the implemented ones aside, the result is an error - never a panic, never a session
    iscns = [{"bmc": conn.default_bmc(seed=9, suites=[[100, 1, i, 1]]), "timeout_ms": 40, "alg": ("integrity", i),
              "steps": [hs.open_step(suites=[(1, i, 1)])]} for i in range(64) if i not in (1, 2, 4)]
    iscns += [{"bmc": conn.default_bmc(seed=9, suites=[[100, 1, 1, c]]), "timeout_ms": 40, "alg": ("confidentiality", c),
               "steps": [hs.open_step(suites=[(1, 1, c)])]} for c in range(64) if c != 1]
    for scn, out in zip(iscns, conn.run_scenarios(iscns)):
        res = out["steps"][0]
        ch.note_case("c12-unknown-%s" % scn["alg"][0], str(scn["alg"][1]))
        desc = {"kind": "c12-unknown-alg", "alg": list(scn["alg"])}
        if res.get("panic") or res["err"] == "panic":
            ch.violation(dict(desc, kind="panic"), {"scenario": scn, "panic": res.get("panic"),
                         "what": "%s algorithm %d, confirmed by the BMC, made the library panic" % scn["alg"]})
        elif res["err"] == "nil":
            ch.violation(desc, {"scenario": scn, "what": "a session was returned for the unimplemented %s algorithm %d" % scn["alg"]})
    # --- several establishments on ONE connection while the BMC's advertised set changes in between: every
    # establishment must choose against what the BMC advertises at that moment, not against anything seen earlier ---
    seqs = []
    for _ in range(40 if ch.quick() else 400):
        pref = rng.choice([[], [UNIVERSE[1], UNIVERSE[0]], [UNIVERSE[2], UNIVERSE[1], UNIVERSE[0]], [UNIVERSE[3], UNIVERSE[1]]])
        advs = [rng.choice(subsets) for _ in range(3)]
        steps = []
        for adv in advs:
            steps.append({"op": "bmcset", "bmcset": {"suites": [[IDS[x], x[0], x[1], x[2]] for x in adv]}})
            steps.append(hs.open_step(suites=pref))
            steps.append({"op": "close", "script": ["ok"]})
        seqs.append((pref, advs, {"bmc": conn.default_bmc(seed=6, suites=[[IDS[x], x[0], x[1], x[2]] for x in advs[0]]), "timeout_ms": 40, "steps": steps}))
    souts = conn.run_scenarios([x[2] for x in seqs])
    for (pref, advs, scn), out in zip(seqs, souts):
        for k, adv in enumerate(advs):
            res = out["steps"][3 * k + 1]
            desc = {"kind": "c12-sequence", "pref": [list(x) for x in pref], "adv": [list(x) for x in adv], "establishment": k + 1}
            ch.note_case("c12-sequence", "%s|%s|%d" % (pref, advs, k))
            if res.get("panic"):
                ch.violation(dict(desc, kind="panic"), {"scenario": scn, "panic": res["panic"]}); continue
            want, _ = expected([tuple(x) for x in pref], [tuple(x) for x in adv])
            opens = [e for e in res["bmc"] if e["kind"] == "opensession"]
            proposed = None
            if opens:
                pl = bytes.fromhex(opens[0]["payload"]); proposed = (pl[12], pl[20], pl[28])
            if want is None:
                if res["err"] != "ErrNoSupportedCipherSuite" or opens:
                    ch.violation(desc, {"scenario": scn, "what": "establishment %d: expected ErrNoSupportedCipherSuite and no proposal (advertised now: %s)" % (k + 1, adv),
                                        "err": res["err"], "proposed": proposed})
            elif proposed != want or res["err"] != "nil":
                ch.violation(desc, {"scenario": scn, "what": "establishment %d proposed %s (err %s); the first preference advertised NOW is %s" % (k + 1, proposed, res["err"], want)})
    ch.exhaustive = True
    ch.extra["selection_cases"] = nsel
    return ch.finish(rule=RULE, assumptions=["as C01"])


def replay(ch, build, path):
    from . import c10
    return c10.replay(ch, build, path)
