"""Connection-level machinery: scenarios for the Go harness (real library against the simulated BMC with a
scripted fault injector), replay of the transcripts through the Coq model (oracle) and the Spec-side checks."""
import json
from . import core, layers as L

# command table: harness name -> (request NetFn, body code, enterprise, command, response layer or None)
# written from IPMI v2.0 appendix G / DCMI 1.5 table 6-1 (= SpecParse.command_code)
CMDS = {
    "getchassisstatus": (0x00, 0, 0, 0x01, "chassis"), "chassiscontrol": (0x00, 0, 0, 0x02, None),
    "getdeviceid": (0x06, 0, 0, 0x01, "deviceid"), "getsystemguid": (0x06, 0, 0, 0x37, "guid"),
    "authcaps": (0x06, 0, 0, 0x38, "authcaps"), "setpriv": (0x06, 0, 0, 0x3b, "setpriv"),
    "closesession": (0x06, 0, 0, 0x3c, None), "sessioninfo": (0x06, 0, 0, 0x3d, "sessioninfo"),
    "ciphersuites": (0x06, 0, 0, 0x54, "ciphersuites"),
    "getsdrrepoinfo": (0x0a, 0, 0, 0x20, "sdrrepoinfo"), "reservesdr": (0x0a, 0, 0, 0x22, "reserve"),
    "getsdr": (0x0a, 0, 0, 0x23, "getsdrrsp"), "sensorreading": (0x04, 0, 0, 0x2d, "sensorreading"),
    "dcmicaps": (0x2c, 0xdc, 0, 0x01, None), "powerreading": (0x2c, 0xdc, 0, 0x02, "powerreading"),
    "dcmisensorinfo": (0x2c, 0xdc, 0, 0x07, "dcmisensor"),
}
DCMICAPS_LAYER = {1: "dcmicaps", 2: "dcmimand", 3: "dcmiopt", 4: "dcmimgmt", 5: "dcmipower"}
NOBODY = {"getchassisstatus", "getdeviceid", "getsystemguid", "getsdrrepoinfo", "reservesdr"}
SESSIONLESS_OK = {"authcaps", "ciphersuites", "getsystemguid"}


def cmd_op(cmd):
    if cmd["name"] == "raw":
        p = cmd.get("p", [])
        return (p[0], p[3] if len(p) > 3 else 0, 0, p[1])
    return CMDS[cmd["name"]][:4]


def cmd_lun(cmd):
    if cmd["name"] == "sensorreading":
        return (cmd.get("p", [0, 0]) + [0, 0])[1]
    if cmd["name"] == "raw":
        return cmd["p"][2]
    return 0


def cmd_rsp_layer(cmd):
    if cmd["name"] == "raw":
        return None
    if cmd["name"] == "dcmicaps":
        return DCMICAPS_LAYER.get(cmd["p"][0], "dcmipower")
    return CMDS[cmd["name"]][4]


def cmd_reqspec(cmd):
    """request in the oracle's syntax"""
    n = cmd["name"]
    if n in NOBODY:
        return "none"
    if n == "raw":
        return "raw:" + (cmd.get("hex") or "-")
    p = cmd.get("p", [])
    if n == "sensorreading":
        p = p[:1]
    return "%s:%s" % (n, ",".join(str(x) for x in p))


def default_bmc(seed=1, **kw):
    b = {"users": [{"name": "admin", "password": b"secret".hex(), "maxpriv": 4}], "kg": "",
         "guid": "00112233445566778899aabbccddeeff", "seed": seed,
         "suites": [[3, 1, 1, 1], [17, 3, 4, 1]]}
    b.update(kw)
    return b


def run_scenarios(scns, shards=16, spread=False):
    """spread: one harness process per scenario even for a handful (scenarios that spend their time waiting)"""
    lines = ["scn " + json.dumps(s, separators=(",", ":")) for s in scns]
    if len(lines) >= 32 or (spread and len(lines) > 1):
        import concurrent.futures as cf
        size = (len(lines) + shards - 1) // shards
        chunks = [lines[i:i + size] for i in range(0, len(lines), size)]
        with cf.ThreadPoolExecutor(max_workers=shards) as ex:
            outs = list(ex.map(lambda c: core.run_lines(core.HARNESS, c, 3600), chunks))
        out = [x for o in outs for x in o]
    else:
        out = core.run_lines(core.HARNESS, lines, 3600)
    res = [json.loads(o) for o in out]
    for r in res:
        for st in r.get("steps") or []:
            for k in ("sent", "delivered", "bmc", "actions"):      # a step that transmitted nothing: null -> []
                if st.get(k) is None:
                    st[k] = []
    return res


def script_arg(delivered):
    if not delivered:
        return "."
    return ",".join(d if d else "-" for d in delivered)


def parse_loop(s):
    """oracle show_loop -> dict"""
    w = s.split(" ")
    d = {"outcome": int(w[0])}
    for kv in w[1:]:
        k, v = kv.split("=", 1)
        d[k] = v
    d["sent"] = [] if d["sent"] == "." else d["sent"].split(",")
    d["codes"] = [] if d["codes"] == "." else [int(x) for x in d["codes"].split(",")]
    return d


class SessionKeys:
    def __init__(self, go_sess, bmc_sess):
        self.integ = int(go_sess["integ"]); self.conf = int(go_sess["conf"]); self.auth = int(go_sess["auth"])
        self.k1 = go_sess["k1"]; self.k2 = go_sess["k2"]; self.sik = go_sess["sik"]
        self.local = int(go_sess["localid"]); self.remote = int(go_sess["remoteid"])
        self.bmc = bmc_sess
        self.seq = 0


def model_cmd_line(step, res, keys=None):
    """the oracle command replaying one 'cmd' step from what was delivered to the library"""
    fn, body, ent, cmd = cmd_op(step["cmd"])
    lun = cmd_lun(step["cmd"])
    req = cmd_reqspec(step["cmd"])
    script = script_arg(res["delivered"])
    if step.get("conn") == "session":
        ivs = ",".join(s[32:64] for s in res["sent"]) or "."
        return "sssend %d %s %s %d %d %d %s %d %d %d %d %d %s %s" % (
            keys.integ, keys.k1, keys.k2[:32], keys.local, keys.remote, keys.seq, ivs, fn, body, ent, cmd, lun, req, script)
    return "slsend %d %d %d %d %d %s %s" % (fn, body, ent, cmd, lun, req, script)


OUTCOME_ERR = {0: None, 1: "deadline", 2: "lost", 3: "other", 4: "panic"}


def check_cmd_step(ch, fam, step, res, model, desc, udp=False):
    """tie for one command step: transmissions, completion code, error class; returns the model's payload"""
    m = parse_loop(model)
    ok = True
    why = []
    if m["sent"] != res["sent"]:
        # over real sockets the transcript pairs each datagram with the reply the BMC gave, not with what the library had
        # read when its window closed: a reply that arrived late costs a retransmission the model cannot know of
        if not (udp and len(res["sent"]) > len(m["sent"]) and res["sent"][:len(m["sent"])] == m["sent"] and step.get("conn") != "session"):
            if not (udp and step.get("conn") == "session" and len(res["sent"]) > len(m["sent"])):
                ok = False; why.append("transmitted datagrams differ")
    go_err = res["err"]
    if udp and go_err in ("other", "lost") and "i/o timeout" in (res.get("errtext") or "") and m["outcome"] == 0:
        # real sockets: the reply the transcript shows arrived after the attempt's window had closed (a busy machine);
        # what the library then did is judged by the property's predicate, not by this tie
        return m
    if m["outcome"] == 0:
        if go_err not in ("nil", "other"):
            ok = False; why.append("model: final response, impl error %s" % go_err)
        if int(m["code"]) != res["code"]:
            ok = False; why.append("completion code")
    else:
        want = OUTCOME_ERR[m["outcome"]]
        # "silence": no reply until the caller's context ends; the model's script reads that attempt as a transport failure
        # (outcome 2) where the library reports the context's own error
        silent = want == "lost" and go_err == "deadline" and ("silence" in res.get("actions", []) or (res.get("delivered") or ["x"])[-1] == "")
        if go_err != want and not (want == "other" and go_err != "nil") and not silent:
            ok = False; why.append("model outcome %d, impl error %s" % (m["outcome"], go_err))
    if not ok:
        ch.corr_break(desc, {"step": step, "impl": {k: res[k] for k in ("err", "code", "sent", "delivered", "actions")},
                             "model": model, "why": why})
    return m


def dcmi_strip(cmd, payload_hex):
    return payload_hex


# ---------------------------------------------------------------------------------------------
# C05 (pipeline level) and C17 (connection level), called from vlib/c05.py and vlib/c17.py
def c05_pipeline(ch, build):
    """substitute the reply at every position of a session-less command, of each handshake exchange and of an
    in-session command by {every prefix of the genuine reply, the genuine reply with each byte replaced by 00 / FF,
    random bytes}; predicate: no panic, a value or an error is returned; tie: the Coq retry / handshake model."""
    from . import hist, hs
    rng = ch.rng
    su = (1, 1, 1)
    def base(seed):
        return {"bmc": default_bmc(seed=seed, suites=[[3, 1, 1, 1]]), "timeout_ms": 40}
    # learn the genuine reply lengths
    probe = base(70)
    probe["steps"] = [{"op": "cmd", "conn": "sessionless", "cmd": {"name": "authcaps", "p": [1, 14, 4]}, "script": ["ok"]},
                      hs.open_step(suites=[su]),
                      {"op": "cmd", "conn": "session", "cmd": {"name": "getdeviceid"}, "script": ["ok"]}]
    po = run_scenarios([probe])[0]
    lens = {"sl": len(po["steps"][0]["delivered"][0]) // 2,
            "hs": [len(d) // 2 for d in po["steps"][1]["delivered"]],
            "ss": len(po["steps"][2]["delivered"][0]) // 2}
    def muts(n):
        m = ["trunc:%d" % k for k in range(n)] + ["setbytes:%d=0" % k for k in range(n)] + ["setbytes:%d=255" % k for k in range(n)]
        m += ["garbage"] * 8
        return m if not ch.quick() else rng.sample(m, min(len(m), 40))
    scns = []
    # session-less command
    s = base(70); s["steps"] = [{"op": "cmd", "conn": "sessionless", "cmd": {"name": "authcaps", "p": [1, 14, 4]}, "script": [mu, "ok"]} for mu in muts(lens["sl"])]
    scns.append(s)
    # handshake: one mutated reply per attempt to open
    for ex, n in enumerate(lens["hs"]):
        # ... and the BMC sending a SHORTER message with a consistent wrapper (every payload length below the genuine one):
        # the setup-payload decoders and what newV2Session does with a short AuthCode / ICV see these, a cut datagram
        # never gets past the wrapper
        short = ["truncpayload:%d" % k for k in range(n - 16)]
        for mu in muts(n) + short:
            s = base(70); s["steps"] = [hs.open_step(suites=[su], script=["ok"] * ex + [mu])]; s["hs"] = True
            scns.append(s)
    # in-session command
    ms = muts(lens["ss"])
    for i in range(0, len(ms), 40):
        s = base(70); s["steps"] = [hs.open_step(suites=[su])] + [
            {"op": "cmd", "conn": "session", "cmd": {"name": "getdeviceid"}, "script": [mu, "ok"]} for mu in ms[i:i + 40]]
        scns.append(s)
    # termination without a deadline: the caller's context never ends by itself and the back-off policy gives up after N
    # retries; a peer that answers every attempt with a well-formed temporary code (or garbage) must not keep the loop going
    bounded = []
    for nmax in (1, 3, 5):
        for act in ("busy", "c3", "garbage", "busy,c3", "truncpayload:3"):
            script = (act.split(",") * 60)[:60]
            for cn in ("sessionless", "session"):
                s = base(71); s["backoff_max_retries"] = nmax; s["bounded"] = nmax
                s["steps"] = ([hs.open_step(suites=[su])] if cn == "session" else []) + [
                    {"op": "cmd", "conn": cn, "cmd": {"name": "getsystemguid"}, "script": script, "cancel_ms": 4000}]
                bounded.append(s)
    for s, o in zip(bounded, run_scenarios(bounded)):
        st, res = s["steps"][-1], o["steps"][-1]
        ch.note_case("pipeline-bounded-policy", "%s|%s|%d" % (st["conn"], st["script"][:2], s["bounded"]))
        desc = {"kind": "pipeline", "op": "bounded-policy", "conn": st["conn"]}
        if res.get("panic") or res["err"] == "panic":
            ch.violation(desc, {"scenario": s, "panic": res.get("panic")})
        elif len(res["sent"]) > s["bounded"] + 1 or res["err"] == "nil" or res.get("runaway"):
            ch.violation(desc, {"scenario": s, "transmissions": len(res["sent"]), "err": res["err"], "elapsed_ms": res.get("elapsed_ms"),
                                "what": "the retry policy gives up after %d retries and the context has no deadline: the call must end after at most "
                                        "%d transmissions with an error; it went on" % (s["bounded"], s["bounded"] + 1)})
    outs = run_scenarios(scns)
    hs_lines, hidx = [], []
    for scn, out in zip(scns, outs):
        for ti, (st, res) in enumerate(zip(scn["steps"], out["steps"])):
            ch.note_case("pipeline-" + st["op"] + ("-" + st.get("conn", "") if st["op"] == "cmd" else ""), "%s|%s" % (st.get("script"), st.get("cmd")))
            if res.get("panic") or res["err"] == "panic":
                ch.violation({"kind": "pipeline", "op": st["op"], "conn": st.get("conn")},
                             {"scenario": scn, "step_index": ti, "panic": res.get("panic"), "what": "a substituted reply made the library panic"})
        if scn.get("hs"):
            hs_lines.append(hs.hs_line(scn["steps"][0], out["steps"][0], su)); hidx.append((scn, out))
    hist.replay(ch, [s for s in scns if not s.get("hs")], [o for s, o in zip(scns, outs) if not s.get("hs")], (), "pipeline")
    for (scn, out), mo in zip(hidx, core.oracle(hs_lines)):
        hs.tie_open(ch, "pipeline", scn, scn["steps"][0], out["steps"][0], mo, su, {"kind": "pipeline", "op": "open"})
    ch.extra["pipeline_scenarios"] = len(scns)


STATELESS = [{"name": "getdeviceid"}, {"name": "getchassisstatus"}, {"name": "getsystemguid"}, {"name": "authcaps", "p": [1, 14, 4]},
             {"name": "ciphersuites", "p": [14, 0, 0]}, {"name": "getsdrrepoinfo"}, {"name": "powerreading", "p": [1, 0]},
             {"name": "dcmicaps", "p": [1]}, {"name": "sensorreading", "p": [1, 0]}, {"name": "getsdr", "p": [0, 0, 0, 5]},
             {"name": "dcmisensorinfo", "p": [1, 65, 0, 1]}]


def c17_connection(ch, build):
    """every ordered pair (A, B): A (any command, with clean / faulty replies) then B on one connection or session, versus B
    alone on a fresh one; predicate: B returns the same result and (session-less) transmits the same datagram."""
    from . import hist, hs
    rng = ch.rng
    scns, meta = [], []
    for session in (False, True):
        poolA = [c for c in hist.command_pool(rng, session)]
        pairs = [(a, b) for a in poolA for b in STATELESS]
        if ch.quick():
            pairs = rng.sample(pairs, 80)
        for k, (a, b) in enumerate(pairs):
            su = hist.SUITES[k % 9]
            cn = "session" if session else "sessionless"
            sa = rng.choice([["ok"], ["ok"], ["garbage", "ok"], ["busy", "ok"], ["truncbody"], ["cc:201"]] +
                            ([["setbytes:6=17;7=34;10=9"]] * 3 if not session else []))
            pre = [hs.open_step(suites=[su])] if session else []
            both = {"bmc": default_bmc(seed=300 + k, suites=[[100, su[0], su[1], su[2]]], loose=True), "timeout_ms": 40,
                    "steps": pre + [{"op": "cmd", "conn": cn, "cmd": a, "script": sa}, {"op": "cmd", "conn": cn, "cmd": b, "script": ["ok"]}]}
            alone = {"bmc": both["bmc"], "timeout_ms": 40, "steps": pre + [{"op": "cmd", "conn": cn, "cmd": b, "script": ["ok"]}]}
            scns += [both, alone]; meta.append((session, a, b))
    # the same COMMAND VALUE sent again (the polling idiom: one ipmi.Command per sensor, re-sent for ever): what the second
    # call leaves in the response layer must not depend on the first - also when the BMC refuses the second call with a
    # permanent completion code and an untruncated body, or the second reply is short
    for session in (False, True):
        cn = "session" if session else "sessionless"
        for k, b in enumerate(STATELESS):
            su = hist.SUITES[k % 9]
            pre = [hs.open_step(suites=[su])] if session else []
            for second in (["ccfull:%d" % rng.choice([0xc1, 0xc9, 0xcc, 0xd4, 0xd5, 0xff])], ["ccfull:203"], ["ok"], ["busy", "ccfull:213"]):
                both = {"bmc": default_bmc(seed=400 + k, suites=[[100, su[0], su[1], su[2]]], loose=True), "timeout_ms": 40,
                        "steps": pre + [{"op": "cmd", "conn": cn, "cmd": b, "script": ["ok"]},
                                        {"op": "cmd", "conn": cn, "cmd": b, "script": second, "reuse": True}]}
                alone = {"bmc": both["bmc"], "timeout_ms": 40, "steps": pre + [{"op": "cmd", "conn": cn, "cmd": b, "script": second}]}
                scns += [both, alone]; meta.append((session, dict(b, reused=True), b))
    # contexts: command A runs under a long-lived context that stays alive (the program's root context); command B then runs
    # under its own short one against a BMC that is busy for longer than that: B ends with its OWN context, exactly as on a
    # fresh connection - never later, never with another command's context error
    for session in (False, True):
        cn = "session" if session else "sessionless"
        for k, b in enumerate(STATELESS[:4] if ch.quick() else STATELESS):
            su = hist.SUITES[k % 9]
            pre = [hs.open_step(suites=[su])] if session else []
            stepb = {"op": "cmd", "conn": cn, "cmd": b, "script": ["busy"] * 40, "ctx_ms": 120}
            both = {"bmc": default_bmc(seed=450 + k, suites=[[100, su[0], su[1], su[2]]], loose=True), "timeout_ms": 40, "backoff_ms": 25,
                    "steps": [dict(s, keep_ctx=True) for s in pre] + [{"op": "cmd", "conn": cn, "cmd": rng.choice(STATELESS), "script": ["busy", "ok"], "keep_ctx": True, "ctx_ms": 60000}, stepb]}
            alone = {"bmc": both["bmc"], "timeout_ms": 40, "backoff_ms": 25, "steps": pre + [stepb]}
            scns += [both, alone]; meta.append((session, {"name": "kept-context"}, b))
    # SDR repository retrieval: a retrieval whose first round was invalidated (the repository changed under it: records
    # erased, renumbered, replaced) returns what a retrieval on a fresh session of the FINAL repository returns - nothing read
    # in the discarded round survives; and a second retrieval on the same session returns what a fresh one does
    from . import c14
    sdr_meta = []
    gens = []
    for k in range(6 if ch.quick() else 40):
        a = c14.gen_repo(rng, rng.choice([3, 4, 5]), first_zero=False)
        # (the first record is a Full Sensor Record, so that something has been collected when the change comes)
        tries = 0
        while a[0]["type"] != 0x01 and tries < 50:
            a = c14.gen_repo(rng, rng.choice([3, 4, 5]), first_zero=False); tries += 1
        gens.append(a)
    # the number of requests of an undisturbed retrieval of each repository: the change is injected late in the walk
    probes = [{"bmc": default_bmc(seed=480 + k, suites=[[100, 1, 1, 1]], sdrs=[{"id": r["id"], "data": r["data"]} for r in a], addition=1000, erase=900),
               "timeout_ms": 40, "steps": [hs.open_step(suites=[(1, 1, 1)]), {"op": "sdr", "conn": "session", "ctx_ms": 12000}]} for k, a in enumerate(gens)]
    nreqs = [len(o["steps"][1]["sent"]) for o in run_scenarios(probes)]
    for k, a in enumerate(gens):
        keep = [dict(r) for r in a[rng.choice([1, 2]):]]
        extra = [r for r in c14.gen_repo(rng, 2) if r["id"] not in [x["id"] for x in a] and r["id"] != 0]
        b = keep + extra if k % 2 else [dict(r, id=r["id"] + 7, data=(bytes([(r["id"] + 7) & 255, (r["id"] + 7) >> 8]) + bytes.fromhex(r["data"])[2:]).hex()) for r in a if r["id"] + 7 < 0xffff]
        if not b:
            continue
        su = hist.SUITES[k % 9]
        ra = [{"id": r["id"], "data": r["data"]} for r in a]
        rb = [{"id": r["id"], "data": r["data"]} for r in b]
        pre = [hs.open_step(suites=[su])]
        # requests of a retrieval: 0 info, 1 reserve, 2.. headers and bodies, last: info again.  The change comes before the
        # closing info or one or two requests earlier: records of the old state have been collected by then
        nreq = nreqs[k]
        if nreq < 5:
            continue
        at = nreq - rng.choice([1, 1, 2, 3])
        ev = {"before": at, "kind": "modify_sdr", "sdrs": rb, "addition": 1001, "erase": 901}
        both = {"bmc": default_bmc(seed=480 + k, suites=[[100, su[0], su[1], su[2]]], sdrs=ra, addition=1000, erase=900), "timeout_ms": 40,
                "steps": pre + [{"op": "sdr", "conn": "session", "ctx_ms": 12000, "events": [ev]}]}
        alone = {"bmc": default_bmc(seed=480 + k, suites=[[100, su[0], su[1], su[2]]], sdrs=rb, addition=1001, erase=901), "timeout_ms": 40,
                 "steps": pre + [{"op": "sdr", "conn": "session", "ctx_ms": 12000}]}
        twice = {"bmc": alone["bmc"], "timeout_ms": 40, "steps": pre + [{"op": "sdr", "conn": "session", "ctx_ms": 12000}, {"op": "sdr", "conn": "session", "ctx_ms": 12000}]}
        sdr_meta.append((len(scns), both, "disturbed-round")); scns += [both, alone]; meta.append(None)
        sdr_meta.append((len(scns), twice, "second-retrieval")); scns += [twice, alone]; meta.append(None)
    outs = run_scenarios(scns)
    for (i, scn, what) in sdr_meta:
        rb_, ra_ = outs[i]["steps"][-1], outs[i + 1]["steps"][-1]
        desc = {"kind": "connection-reuse", "conn": "session", "a": what, "b": "sdr"}
        ch.note_case("reuse-sdr", "%s|%s" % (what, scn["bmc"]["sdrs"]))
        if rb_.get("panic"):
            ch.violation(dict(desc, kind="panic"), {"scenario": scn, "panic": rb_["panic"]})
        elif ra_["err"] == "nil" and rb_["err"] == "nil" and rb_.get("value") != ra_.get("value"):
            ch.violation(desc, {"scenario": scn, "what": "SDR retrieval (%s) returns a different set than a retrieval of the same repository on a fresh session" % what,
                                "after": (rb_.get("value") or "")[:600], "fresh": (ra_.get("value") or "")[:600]})
    for k, (session, a, b) in [(k, m) for k, m in enumerate(meta) if m is not None]:
        ob, oa = outs[2 * k], outs[2 * k + 1]
        rb, ra = ob["steps"][-1], oa["steps"][-1]
        desc = {"kind": "connection-reuse", "conn": "session" if session else "sessionless", "a": a["name"], "b": b["name"]}
        ch.note_case("reuse-" + desc["conn"], "%s|%s" % (a, b))
        same = (rb["err"], rb["code"], rb["rsp"]) == (ra["err"], ra["code"], ra["rsp"])
        if not session and a.get("name") != "kept-context":      # (there the number of transmissions is a matter of timing)
            same = same and rb["sent"] == ra["sent"]
        if not same:
            ch.violation(desc, {"scenario": scns[2 * k], "what": "the same command gives a different result (or datagram) after another command",
                                "after": {k2: rb[k2] for k2 in ("err", "code", "rsp", "sent")}, "fresh": {k2: ra[k2] for k2 in ("err", "code", "rsp", "sent")}})
    hist.replay(ch, scns, outs, (), "reuse")
