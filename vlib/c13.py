"""C13 — blocking calls never outlive their context (partial: deadline arithmetic proved, wall clock measured)."""
import json
from . import core

RULE = ("real UDP sockets on loopback (DialV2, the library's own transport and 500 ms exponential back-off), a fault-injecting server "
        "in front of the simulated BMC: fault patterns {black hole, reply after the per-attempt timeout, garbage on every attempt, "
        "temporary code forever, truncated replies, a flood of bare RMCP ACK datagrams} applied from every step k of each blocking call {session-less command, session "
        "handshake (with discovery), in-session command, session close, SDR repository retrieval}, deadline/timeout ratios "
        "{0.5, 1, 3.5}, an already expired context, and a call made while an earlier, longer context of a previous call on the "
        "same connection is still live.  predicates: the call returns within deadline + 250 ms (a watchdog turns a "
        "hang into a violation) with an error when no valid response could be obtained; never success without a valid response; an "
        "expired context returns within 250 ms with an error and at most one datagram.  distinct by (call, fault, step, ratio)")

CALLS = {"sessionless": 1, "open": 5, "session": 1, "close": 1, "sdr": 6}
ALLOW_MS = 250


def run(ch, build):
    core.proof_status(ch, "C13", build)
    rng = ch.rng
    reqs = []
    T = 120
    ratios = [0.5, 1.0, 3.5]
    for call, steps in CALLS.items():
        for fault in ("blackhole", "slow", "garbage", "busy", "trunc"):
            for frm in range(steps):
                # quick: one ratio at random, but a silent peer with the deadline well beyond one attempt (3.5) always - the
                # case in which an attempt times out while the caller's context is still alive
                rs = ratios if not ch.quick() else sorted({rng.choice(ratios)} | ({3.5} if fault == "blackhole" else set()))
                if ch.quick() and call in ("open", "sdr") and frm not in (0, 1, steps - 1) and rng.random() < 0.6:
                    continue
                for r in rs:
                    reqs.append({"call": call, "fault": fault, "from": frm, "timeout_ms": T, "deadline_ms": int(T * r)})
        # the peer floods bare RMCP ACKs instead of answering: still bounded by the context
        reqs.append({"call": call, "fault": "ackflood", "from": 0, "timeout_ms": T, "deadline_ms": int(T * 3.5)})
        # an earlier call on the same connection had a longer context that is still live: this call is bounded by its own
        if call in ("sessionless", "session"):
            for fault in ("busy", "blackhole"):
                reqs.append({"call": call, "fault": fault, "from": 0, "prior_ms": 3000, "timeout_ms": T, "deadline_ms": int(T * 2.5)})
        reqs.append({"call": call, "fault": "none", "from": 0, "timeout_ms": T, "deadline_ms": 0})
        reqs.append({"call": call, "fault": "none", "from": 0, "timeout_ms": T, "deadline_ms": int(T * 3.5)})
    lines = ["c13 " + json.dumps(r, separators=(",", ":")) for r in reqs]
    # run 8-wide: wall-clock measurements must not be starved
    import concurrent.futures as cf
    with cf.ThreadPoolExecutor(max_workers=8) as ex:
        outs = list(ex.map(lambda l: core.run_lines(core.HARNESS, [l], 120)[0], lines))
    worst = 0.0
    worst_jitter = 0.0
    for rq, o in zip(reqs, outs):
        res = json.loads(o)
        desc = {"kind": "c13", "call": rq["call"], "fault": rq["fault"], "from": rq["from"]}
        ch.note_case("c13-%s-%s" % (rq["call"], rq["fault"]), json.dumps(rq))
        detail = {"request": rq, "result": res}
        if res.get("setup"):
            ch.corr_break(dict(desc, kind="setup"), dict(detail, what="scenario setup failed: " + res["setup"]))
            continue
        # the allowance grows with what a plain 5 ms sleep was late by during the call (a busy machine delays the library's
        # timers just the same); on an idle machine that is a millisecond or two
        limit = max(rq["deadline_ms"], 0) + ALLOW_MS + 3 * res.get("jitter_ms", 0)
        worst_jitter = max(worst_jitter, res.get("jitter_ms", 0))
        worst = max(worst, res["elapsed_ms"] - max(rq["deadline_ms"], 0))
        if res["hang"] or res["elapsed_ms"] > limit:
            ch.violation(desc, dict(detail, what="returned after %.0f ms, context allowed %d ms" % (res["elapsed_ms"], rq["deadline_ms"])))
            continue
        if rq["deadline_ms"] <= 0:
            if res["err"] == "nil" or res["datagrams"] > 1:
                ch.violation(desc, dict(detail, what="expired context: expected a prompt error and at most one datagram"))
            continue
        if rq["fault"] == "none":
            if res["err"] != "nil":
                ch.violation(desc, dict(detail, what="fault-free call failed"))
            continue
        # a fault that persists from step k onwards: no valid response can complete the call unless k is beyond its last request
        # ("slow": the late replies are valid responses and may legitimately complete a retransmission)
        # ("busy" only exists for IPMI commands: the handshake payloads after discovery are not affected)
        unaffected = rq["fault"] == "slow" or (rq["fault"] == "busy" and rq["call"] == "open" and rq["from"] >= 1)
        if not unaffected and res["err"] == "nil" and res["datagrams"] > rq["from"]:
            # success is legitimate only when every request of the call was answered before the fault began
            ch.violation(desc, dict(detail, what="success reported although requests from #%d on never got a valid response" % rq["from"]))
    ch.extra["worst_overrun_ms"] = round(worst, 1)
    ch.extra["allowance_ms"] = ALLOW_MS
    ch.extra["worst_timer_lateness_ms"] = round(worst_jitter, 1)
    return ch.finish(rule=RULE, assumptions=[
        "the theorem part is about the deadline arithmetic of the retry loop (Timing.v); scheduler, kernel socket deadlines and wall-clock behaviour are measured, not proved",
        "loopback UDP; scheduling allowance 250 ms"])


def replay(ch, build, path):
    r = json.load(open(path)); rq = r["detail"]["request"]
    o = core.run_lines(core.HARNESS, ["c13 " + json.dumps(rq, separators=(",", ":"))], 120)[0]
    print(o)
    res = json.loads(o)
    bad = res["hang"] or res["elapsed_ms"] > max(rq["deadline_ms"], 0) + ALLOW_MS
    if bad:
        print("VIOLATION property=C13 replay=%s" % path)
    return 1 if bad else 0
