"""C13 — blocking calls never outlive their context (partial: deadline arithmetic proved, wall clock measured)."""
import json, os, re
from . import core

RULE = ("real UDP sockets on loopback (DialV2, the library's own transport and 500 ms exponential back-off), a fault-injecting server "
        "in front of the simulated BMC: fault patterns {black hole, reply after the per-attempt timeout, garbage on every attempt, "
        "temporary code forever, truncated replies, a flood of bare RMCP ACK datagrams} applied from every step k of each blocking call {session-less command, session "
        "handshake (with discovery), in-session command, session close, SDR repository retrieval}, deadline/timeout ratios "
        "{0.5, 1, 3.5}, an already expired context, and a call made while an earlier, longer context of a previous call on the "
        "same connection is still live.  predicates: the call returns within deadline + 250 ms (a watchdog turns a "
        "hang into a violation) with an error when no valid response could be obtained; never success without a valid response; an "
        "expired context returns within 250 ms with an error and at most one datagram.  distinct by (call, fault, step, ratio)")

TIE_RULE = (" + tie of the timing model (Timing.v / TimingProc.v) to the library: scenarios with a constant 100 ms back-off (DialV2ForVerif), timeout "
            "200 ms, deadline 895 ms - silent peer, garbage / busy on every attempt, two lost replies then an answer, a handshake whose k-th "
            "exchange meets the silent peer, an in-session command and a session close meeting the silent peer - are evaluated by vm_compute "
            "on run_calls inside Coq and run against the library over real sockets: the number of datagrams must equal the model's attempts, "
            "success must agree, and the elapsed time must lie within [end - 15 ms, end + allowance] of the model's end time "
            "(skipped, and counted as skipped, when a 5 ms sleep beside the call was more than 25 ms late)")


def tie_cases():
    """(harness request, model: (sess, [(attempts, sleeps)...]))  - times in ms; T = 200, back-off 100, D = 895"""
    T, D, S = 200, 895, 100
    silent = ("[" + ";".join(["(5000, Final)"] * 8) + "]", "[" + ";".join([str(S)] * 8) + "]")
    again = ("[" + ";".join(["(1, Again)"] * 20) + "]", "[" + ";".join([str(S)] * 20) + "]")
    ok = ("[(1, Final)]", "[%d]" % S)
    two_lost = ("[(5000, Final); (5000, Final); (1, Final)]", "[%d; %d; %d]" % (S, S, S))
    base = {"timeout_ms": T, "deadline_ms": D, "backoff_ms": S}
    cs = [
        (dict(base, call="sessionless", fault="blackhole", **{"from": 0}), (False, [silent])),
        (dict(base, call="sessionless", fault="garbage", **{"from": 0}), (False, [again])),
        (dict(base, call="sessionless", fault="busy", **{"from": 0}), (False, [again])),
        (dict(base, call="sessionless", fault="blackhole", until=2, **{"from": 0}), (False, [two_lost])),
        (dict(base, call="open", fault="blackhole", **{"from": 1}), (False, [ok, silent])),
        (dict(base, call="open", fault="blackhole", **{"from": 3}), (False, [ok, ok, ok, silent])),
        (dict(base, call="session", fault="blackhole", **{"from": 0}), (True, [silent])),
        (dict(base, call="close", fault="blackhole", **{"from": 0}), (True, [silent])),
    ]
    return T, D, cs


def model_eval(cases, T, D):
    """evaluate run_calls on the cases inside Coq (vm_compute): [(end, ok, attempts)] or None"""
    items = []
    for _, (sess, calls) in cases:
        items.append("  out (run_calls %s 0 %d %d [%s])" % ("true" if sess else "false", D, T, "; ".join("(%s, %s)" % c for c in calls)))
    src = ("From BMC Require Import Base Timing TimingProc.\n"
           "Definition out (p : proc_result) : N * bool * N := (pr_end p, pr_ok p, N.of_nat (pr_attempts p)).\n"
           "Definition results := Eval vm_compute in [\n" + ";\n".join(items) + "\n]%N.\nPrint results.\n")
    d = os.path.join(core.COQ, ".pa")
    os.makedirs(d, exist_ok=True)
    name = "TimingTie_%d" % os.getpid()
    f = os.path.join(d, name + ".v")
    open(f, "w").write(src)
    rc, out = core.sh(["coqc", "-Q", "theories", "BMC", "-Q", "gen", "BMCGen", "-Q", "props", "BMCProps", f], cwd=core.COQ, timeout=600)
    for g in os.listdir(d):
        if g.startswith(name) or g.startswith("." + name):
            try: os.remove(os.path.join(d, g))
            except OSError: pass
    if rc != 0:
        return None, out
    res = [(int(a), b == "true", int(c)) for a, b, c in re.findall(r"\(\s*(\d+)(?:%N)?,\s*(true|false),\s*(\d+)(?:%N)?\)", out)]
    if len(res) != len(cases):
        return None, out
    return res, out


def run_tie(ch):
    T, D, cases = tie_cases()
    model, log = model_eval(cases, T, D)
    if model is None:
        ch.corr_break({"kind": "c13-tie", "call": "model"}, {"broken": "the timing model could not be evaluated inside Coq (Timing.v / TimingProc.v)", "log": log[-1500:]})
        return
    lines = ["c13 " + json.dumps(rq, separators=(",", ":")) for rq, _ in cases]
    import concurrent.futures as cf
    with cf.ThreadPoolExecutor(max_workers=4) as ex:
        outs = list(ex.map(lambda l: core.run_lines(core.HARNESS, [l], 120)[0], lines))
    skipped = 0
    for (rq, (sess, calls)), (end, ok, attempts), o in zip(cases, model, outs):
        res = json.loads(o)
        desc = {"kind": "c13-tie", "call": rq["call"], "fault": rq["fault"], "from": rq["from"]}
        ch.note_case("c13-tie-%s-%s" % (rq["call"], rq["fault"]), json.dumps(rq))
        detail = {"request": rq, "result": res, "model": {"end_ms": end, "ok": ok, "attempts": attempts}}
        if res.get("setup"):
            ch.corr_break(dict(desc, kind="setup"), dict(detail, what="scenario setup failed: " + res["setup"]))
            continue
        # the property's own predicate first: a call that outlives its context is a violation, whatever the model says
        if res["hang"] or res["elapsed_ms"] > rq["deadline_ms"] + ALLOW_MS + 3 * res.get("jitter_ms", 0):
            ch.violation(desc, dict(detail, what="returned after %.0f ms, context allowed %d ms" % (res["elapsed_ms"], rq["deadline_ms"])))
            continue
        if (res["err"] == "nil") and not ok:
            ch.violation(desc, dict(detail, what="success reported although no valid response can have arrived in this scenario"))
            continue
        for _ in range(3):
            # a late timer beside the call: measure again, on its own, before giving the comparison up
            if res.get("jitter_ms", 0) <= 25 or res.get("setup"):
                break
            res = json.loads(core.run_lines(core.HARNESS, ["c13 " + json.dumps(rq, separators=(",", ":"))], 120)[0])
            detail["result"] = res
        if res.get("jitter_ms", 0) > 25 or res.get("setup"):
            skipped += 1
            continue
        def differences(res):
            diffs = []
            if res["datagrams"] != attempts:
                diffs.append("datagrams %d, model attempts %d" % (res["datagrams"], attempts))
            if (res["err"] == "nil") != ok:
                diffs.append("library %s, model %s" % (res["err"], "success" if ok else "failure"))
            if not (end - 15 <= res["elapsed_ms"] <= end + ALLOW_MS):
                diffs.append("elapsed %.0f ms, model end %d ms" % (res["elapsed_ms"], end))
            return diffs
        diffs = differences(res)
        for _ in range(2):
            # a difference that is the library's shows on every measurement; one that many slightly late timers added up to does not
            if not diffs:
                break
            again = json.loads(core.run_lines(core.HARNESS, ["c13 " + json.dumps(rq, separators=(",", ":"))], 120)[0])
            if again.get("setup") or again.get("jitter_ms", 0) > 25:
                continue
            detail.setdefault("measured_again", []).append(again)
            diffs = differences(again)
        if diffs:
            ch.corr_break(desc, dict(detail, broken="correspondence of the timing model (TimingProc.run_calls / retry_k, theorems C13_loop_*, "
                                     "C13_procedure_*) with the library over real sockets: " + "; ".join(diffs)))
    ch.extra["timing_model_tie"] = {"scenarios": len(cases), "skipped_for_timer_lateness": skipped}


CALLS = {"sessionless": 1, "open": 5, "session": 1, "close": 1, "sdr": 6}
ALLOW_MS = 250


def run(ch, build):
    core.proof_status(ch, "C13", build)
    rng = ch.rng
    reqs = []
    T = 120
    ratios = [0.5, 1.0, 3.5]
    for call, steps in CALLS.items():
        for fault in ("blackhole", "slow", "garbage", "busy", "trunc"):
            for frm in range(steps):
                # quick: one ratio at random, but a silent peer with the deadline well beyond one attempt (3.5) always - the
                # case in which an attempt times out while the caller's context is still alive
                rs = ratios if not ch.quick() else sorted({rng.choice(ratios)} | ({3.5} if fault == "blackhole" else set()))
                if ch.quick() and call in ("open", "sdr") and frm not in (0, 1, steps - 1) and rng.random() < 0.6:
                    continue
                for r in rs:
                    reqs.append({"call": call, "fault": fault, "from": frm, "timeout_ms": T, "deadline_ms": int(T * r)})
        # the peer floods bare RMCP ACKs instead of answering: still bounded by the context
        reqs.append({"call": call, "fault": "ackflood", "from": 0, "timeout_ms": T, "deadline_ms": int(T * 3.5)})
        # an earlier call on the same connection had a longer context that is still live: this call is bounded by its own
        if call in ("sessionless", "session"):
            for fault in ("busy", "blackhole"):
                reqs.append({"call": call, "fault": fault, "from": 0, "prior_ms": 3000, "timeout_ms": T, "deadline_ms": int(T * 2.5)})
        reqs.append({"call": call, "fault": "none", "from": 0, "timeout_ms": T, "deadline_ms": 0})
        reqs.append({"call": call, "fault": "none", "from": 0, "timeout_ms": T, "deadline_ms": int(T * 3.5)})
    lines = ["c13 " + json.dumps(r, separators=(",", ":")) for r in reqs]
    # run 8-wide: wall-clock measurements must not be starved
    import concurrent.futures as cf
    with cf.ThreadPoolExecutor(max_workers=8) as ex:
        outs = list(ex.map(lambda l: core.run_lines(core.HARNESS, [l], 120)[0], lines))
    worst = 0.0
    worst_jitter = 0.0
    for rq, o in zip(reqs, outs):
        res = json.loads(o)
        desc = {"kind": "c13", "call": rq["call"], "fault": rq["fault"], "from": rq["from"]}
        ch.note_case("c13-%s-%s" % (rq["call"], rq["fault"]), json.dumps(rq))
        detail = {"request": rq, "result": res}
        if res.get("setup"):
            ch.corr_break(dict(desc, kind="setup"), dict(detail, what="scenario setup failed: " + res["setup"]))
            continue
        # the allowance grows with what a plain 5 ms sleep was late by during the call (a busy machine delays the library's
        # timers just the same); on an idle machine that is a millisecond or two
        limit = max(rq["deadline_ms"], 0) + ALLOW_MS + 3 * res.get("jitter_ms", 0)
        worst_jitter = max(worst_jitter, res.get("jitter_ms", 0))
        worst = max(worst, res["elapsed_ms"] - max(rq["deadline_ms"], 0))
        if res["hang"] or res["elapsed_ms"] > limit:
            ch.violation(desc, dict(detail, what="returned after %.0f ms, context allowed %d ms" % (res["elapsed_ms"], rq["deadline_ms"])))
            continue
        if rq["deadline_ms"] <= 0:
            if res["err"] == "nil" or res["datagrams"] > 1:
                ch.violation(desc, dict(detail, what="expired context: expected a prompt error and at most one datagram"))
            continue
        if rq["fault"] == "none":
            if res["err"] != "nil":
                ch.violation(desc, dict(detail, what="fault-free call failed"))
            continue
        # a fault that persists from step k onwards: no valid response can complete the call unless k is beyond its last request
        # ("slow": the late replies are valid responses and may legitimately complete a retransmission)
        # ("busy" only exists for IPMI commands: the handshake payloads after discovery are not affected)
        unaffected = rq["fault"] == "slow" or (rq["fault"] == "busy" and rq["call"] == "open" and rq["from"] >= 1)
        if not unaffected and res["err"] == "nil" and res["datagrams"] > rq["from"]:
            # success is legitimate only when every request of the call was answered before the fault began
            ch.violation(desc, dict(detail, what="success reported although requests from #%d on never got a valid response" % rq["from"]))
    run_tie(ch)
    ch.extra["worst_overrun_ms"] = round(worst, 1)
    ch.extra["allowance_ms"] = ALLOW_MS
    ch.extra["worst_timer_lateness_ms"] = round(worst_jitter, 1)
    return ch.finish(rule=RULE + TIE_RULE, assumptions=[
        "the theorem part is about the deadline arithmetic of the retry loops and their compositions (Timing.v, TimingProc.v: one loop, a procedure of exchanges under one context, the outer loop of SDR retrieval), with cenkalti/backoff v4.3.0's Retry re-modelled; scheduler, kernel socket deadlines and wall-clock behaviour are measured, not proved",
        "loopback UDP; scheduling allowance 250 ms"])


def replay(ch, build, path):
    r = json.load(open(path))
    if "request" not in r.get("detail", {}):
        print("replay names what no longer checks: %s" % json.dumps(r.get("detail"))[:600])
        print("VIOLATION property=C13 replay=%s no-failing-input-found" % path)
        return 1
    rq = r["detail"]["request"]
    if r.get("descriptor", {}).get("kind") == "c13-tie":
        # the scenario of the timing-model tie again: the model's answer and the library's
        T, D, cases = tie_cases()
        mine = [c for c in cases if c[0] == rq]
        if mine:
            model, _ = model_eval(mine, T, D)
            res = json.loads(core.run_lines(core.HARNESS, ["c13 " + json.dumps(rq, separators=(",", ":"))], 120)[0])
            print("model (end ms, ok, attempts):", model and model[0]); print("library:", json.dumps(res))
            if res["hang"] or res["elapsed_ms"] > rq["deadline_ms"] + ALLOW_MS:
                print("VIOLATION property=C13 replay=%s" % path); return 1
            end, ok, attempts = model[0] if model else (0, False, -1)
            if res["datagrams"] != attempts or (res["err"] == "nil") != ok or not (end - 15 <= res["elapsed_ms"] <= end + ALLOW_MS):
                print("VIOLATION property=C13 replay=%s no-failing-input-found" % path); return 1
            return 0
    o = core.run_lines(core.HARNESS, ["c13 " + json.dumps(rq, separators=(",", ":"))], 120)[0]
    print(o)
    res = json.loads(o)
    bad = res["hang"] or res["elapsed_ms"] > max(rq["deadline_ms"], 0) + ALLOW_MS
    if bad:
        print("VIOLATION property=C13 replay=%s" % path)
    return 1 if bad else 0
