"""Histories of commands with per-attempt outcome scripts, on session-less connections and inside sessions.
Shared by C03, C09, C10, C11, C18."""
import itertools
from . import core, conn

SUITES = [(a, i, 1) for a in (1, 2, 3) for i in (1, 2, 4)]
FINAL = {"ok", "truncbody", "emptybody"}
ALPHA_SL = ["ok", "busy", "c3", "garbage", "truncbody", "lost"]
ALPHA_SS = ["ok", "busy", "c3", "garbage", "truncbody", "lost", "badsig"]

# commands usable in histories (name, params)
def command_pool(rng, session):
    pool = [
        {"name": "getdeviceid"}, {"name": "getchassisstatus"}, {"name": "getsystemguid"},
        {"name": "authcaps", "p": [rng.randrange(2), rng.randrange(16), rng.randrange(16)]},
        {"name": "ciphersuites", "p": [rng.randrange(16), rng.randrange(64), rng.randrange(64)]},
        {"name": "sessioninfo", "p": [0, 0, 0]},
        {"name": "sessioninfo", "p": [0xfe, rng.randrange(256), 0]},
        {"name": "sessioninfo", "p": [0xff, 0, rng.randrange(1 << 32)]},
        {"name": "setpriv", "p": [rng.choice([0, 1, 1, 2, 3, 4])]},
        {"name": "chassiscontrol", "p": [rng.randrange(6)]},
        {"name": "getsdrrepoinfo"}, {"name": "reservesdr"},
        {"name": "getsdr", "p": [rng.randrange(65536), rng.randrange(65536), rng.randrange(256), rng.randrange(256)]},
        {"name": "sensorreading", "p": [rng.randrange(256), rng.randrange(4)]},
        {"name": "dcmicaps", "p": [rng.randrange(1, 6)]},
        {"name": "powerreading", "p": [1, 0]},
        {"name": "powerreading", "p": [2, rng.choice([5, 30, 60, 120, 3600, 7200, 86400])]},
        {"name": "dcmisensorinfo", "p": [1, rng.choice([0x40, 0x41, 0x42, 7]), 0, rng.randrange(1, 20)]},
        {"name": "dcmisensorinfo", "p": [1, 0x41, rng.randrange(1, 9), 0]},
    ]
    if session:
        pool.append({"name": "raw", "p": [rng.choice([0x06, 0x0a, 0x04, 0x30]), rng.randrange(256), 0, 0],
                     "hex": bytes(rng.randrange(256) for _ in range(rng.randrange(0, 40))).hex()})
    return pool


def is_final(a):
    return a in FINAL or (a.startswith("cc:") and int(a[3:]) not in (0xc0, 0xc3))


def refused_locally(step):
    """requests the library must refuse before anything is transmitted: Set Session Privilege Level to Callback
    (requested level 1h is reserved in IPMI v2.0 table 22-18)"""
    c = step["cmd"]
    return c["name"] == "setpriv" and (c.get("p") or [0])[0] % 256 == 1


def reference(script, session):
    """the documented behaviour (Connection.SendCommand): (number of transmissions, kind of result)"""
    for i, a in enumerate(script):
        if is_final(a):
            return i + 1, a
        if session and a == "lost":
            return i + 1, "transport-error"
    return len(script) + 1, "ok"      # the injector answers genuinely once the script is exhausted


def all_scripts(alpha, depth):
    for d in range(1, depth + 1):
        for t in itertools.product(alpha, repeat=d):
            # a script is cut at its first final / terminal action: longer ones are equivalent
            yield list(t)


def useful(script, session):
    n, _ = reference(script, session)
    return n >= len(script)            # nothing after the deciding attempt


def build_scenarios(ch, session, scripts, per_scn=24, suites=None, seed0=0):
    """pack (command, script) pairs into scenarios; in-session ones open a session first"""
    rng = ch.rng
    scns, cur, k = [], None, 0
    suites = suites or SUITES
    for sc in scripts:
        if cur is None or len(cur["steps"]) >= per_scn:
            su = suites[k % len(suites)]; k += 1
            cur = {"bmc": conn.default_bmc(seed=seed0 + k, suites=[[100, su[0], su[1], su[2]]]), "timeout_ms": 40, "steps": []}
            if session:
                cur["steps"].append({"op": "open", "user": "admin", "password": b"secret".hex(), "priv": 4, "lookup": True,
                                     "suites": [list(su)]})
            scns.append(cur)
        pool = command_pool(rng, session)
        if not session:
            pool = [c for c in pool if c["name"] in conn.SESSIONLESS_OK]
        cmd = rng.choice(pool)
        cur["steps"].append({"op": "cmd", "conn": "session" if session else "sessionless", "cmd": cmd, "script": sc,
                             "ctx_ms": 3000})
    return scns


def replay(ch, scns, outs, prop_hooks, fam):
    """Walk every transcript: tie each command step to the model, apply the property hooks.
    prop_hooks: object with optional methods on_cmd(ctx), on_session(ctx), on_end(ctx)"""
    model_lines, index = [], []
    accept_lines, aindex = [], []
    sessions = []
    for si, (scn, out) in enumerate(zip(scns, outs)):
        keys = None
        for ti, (step, res) in enumerate(zip(scn["steps"], out["steps"])):
            if step["op"] == "open":
                if res["err"] == "nil":
                    bs = out["bmc_sessions"][-1] if out["bmc_sessions"] else None
                    # the BMC session opened by this step: match by id
                    for b in out["bmc_sessions"]:
                        if str(b["bmcid"]) == res["session"]["remoteid"]:
                            bs = b
                    keys = conn.SessionKeys(res["session"], bs)
                    sessions.append((si, ti, keys))
                continue
            if step["op"] == "close" and keys is not None and res.get("sent") is not None:
                # Session.Close: the model's session_close decides operation and request (the BMC's session ID)
                ivs = ",".join(s[32:64] for s in res["sent"]) or "."
                model_lines.append("ssclose %d %s %s %d %d %d %s %s" % (keys.integ, keys.k1, keys.k2[:32], keys.local, keys.remote, keys.seq,
                                                                        ivs, conn.script_arg(res["delivered"])))
                index.append((si, ti, keys, keys.seq))
                keys.seq += len(res["sent"])
                keys = None
                continue
            if step["op"] != "cmd":
                continue
            sess = step.get("conn") == "session"
            if sess and keys is None:
                continue
            model_lines.append(conn.model_cmd_line(step, res, keys))
            index.append((si, ti, keys, keys.seq if keys else 0))
            if sess:
                for dg in res["sent"]:
                    accept_lines.append("accept %d %d %s %s %d %d %s" % (keys.integ, keys.conf, keys.bmc["k1"], keys.bmc["k2"],
                                                                       keys.bmc["consoleid"], keys.bmc["bmcid"], dg))
                    aindex.append((si, ti))
                keys.seq += len(res["sent"])
    model = core.oracle(model_lines) if model_lines else []
    accepts = core.oracle(accept_lines) if accept_lines else []
    acc_by = {}
    for (si, ti), a in zip(aindex, accepts):
        acc_by.setdefault((si, ti), []).append(a)
    for (si, ti, keys, seq0), ml in zip(index, model):
        scn, out = scns[si], outs[si]
        step, res = scn["steps"][ti], out["steps"][ti]
        if step["op"] == "close":
            ch.note_case(fam + "-close", "%s|%s" % (step.get("script"), scn["bmc"]["suites"]))
            if res.get("panic"):
                ch.violation({"kind": "panic", "conn": "session", "cmd": "close"}, {"step": step, "panic": res["panic"], "scenario": scn})
            elif conn.parse_loop(ml)["sent"] != res["sent"]:
                ch.corr_break({"kind": fam, "conn": "session", "cmd": "close"},
                              {"scenario": scn, "step_index": ti, "impl": res["sent"], "model": ml, "why": ["datagrams sent by Close() differ"]})
            continue
        sess = step.get("conn") == "session"
        desc = {"kind": fam, "conn": "session" if sess else "sessionless", "cmd": step["cmd"]["name"], "script": step["script"]}
        ch.note_case(fam + ("-session" if sess else "-sessionless"), "%s|%s|%s" % (step["cmd"], step["script"], scn["bmc"]["suites"]),
                     nontrivial=len(step["script"]) > 0)
        if res.get("panic"):
            ch.violation(dict(desc, kind="panic"), {"step": step, "panic": res["panic"], "scenario": scn})
            continue
        if res.get("runaway"):
            ch.violation(dict(desc, kind="runaway"), {"step": step, "scenario": scn, "step_index": ti,
                         "what": "the command kept transmitting without bound (cut off after %d datagrams)" % len(res["sent"])})
            continue
        m = conn.check_cmd_step(ch, fam, step, res, ml, desc, udp=bool(scn.get("udp")))
        ctx = {"scn": scn, "out": out, "step": step, "res": res, "model": m, "keys": keys, "seq0": seq0,
               "accepts": acc_by.get((si, ti), []), "desc": desc, "si": si, "ti": ti}
        for h in prop_hooks:
            h(ch, ctx)
    return sessions
