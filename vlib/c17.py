"""C17 — reuse never leaks earlier data into a result (layer level + connection level)."""
from . import coqreplay, core, layers as L

RULE = ("layer level: for every decodable layer, every ordered pair (earlier, later) from a pool of accepted "
        "encodings with differing optional tails / branches / lengths: decode earlier then later into one value; "
        "predicate = all observable fields equal those of decoding later into a fresh value; tie = equal to the Impl "
        "model's decode_into.  A pair is non-trivial when both decodes succeed and the two inputs differ; distinct by (layer, earlier, later).")


def pools(ch):
    rng = ch.rng
    size = 14 if ch.quick() else 40
    out = {}
    for name in L.ALL:
        if name == L.AES:
            continue
        cand = L.valid_pool(rng, name, size * 4)
        # keep inputs the implementation accepts, prefer distinct lengths
        res = core.harness(["dec %s _ %s" % (name, L.hx(c)) for c in cand])
        ok = [c for c, r in zip(cand, res) if r.startswith("ok")]
        seen, pool = set(), []
        for c in ok:
            key = (len(c), c[:2])
            if key not in seen or len(pool) < size // 2:
                seen.add(key); pool.append(c)
            if len(pool) >= size:
                break
        if name.split(":")[0] == "opensessionrsp":
            # always in the pool: successful responses naming concrete algorithms and responses with wildcard payloads
            # (payload length 0) in each position and in all three, so that every (concrete, wildcard) order occurs
            def osr(algs):
                b = bytes([rng.randrange(256), 0, rng.randrange(6), 0]) + bytes(rng.randrange(256) for _ in range(8))
                for t, a in enumerate(algs):
                    b += bytes([t, 0, 0, 0 if a is None else 8, 0 if a is None else a, 0, 0, 0])
                return b
            pool = pool[:max(4, size - 8)] + [osr(x) for x in ((3, 4, 1), (1, 1, 1), (2, 2, 1), (None, None, None), (None, 4, 1),
                                                               (3, None, 1), (3, 4, None), (None, None, 1))]
        out[name] = pool
    # AES: crafted with the key
    plains = [(bytes(rng.randrange(256) for _ in range(16)), L.aes_plain(rng)) for _ in range(size)]
    cts = core.oracle(["cbcenc %s %s %s" % (L.AESKEY.hex(), iv.hex(), pt.hex()) for iv, pt in plains])
    out[L.AES] = [iv + bytes.fromhex(ct) for (iv, _), ct in zip(plains, cts)]
    return out


def run(ch, build):
    core.proof_status(ch, "C17", build)
    ps = pools(ch)
    cmds, fresh_cmds, meta = [], [], []
    for name, pool in ps.items():
        for a in pool:
            for b in pool:
                cmds.append("dec %s %s %s" % (name, L.hx(a) if a else "-", L.hx(b)))
                fresh_cmds.append("dec %s _ %s" % (name, L.hx(b)))
                meta.append((name, a, b))
    go = core.harness(cmds)
    fresh = core.harness(fresh_cmds)
    model = core.oracle(cmds)
    coqreplay.cross_check(ch, cmds, model, 300 if ch.quick() else 3000, "C17")
    per_layer = {}
    for i, (name, a, b) in enumerate(meta):
        base = name.split(":")[0]
        per_layer[base] = per_layer.get(base, 0) + 1
        ch.note_case("pair-" + base, cmds[i], nontrivial=(a != b and go[i].startswith("ok")))
        d = {"kind": "layer-reuse", "layer": base, "input": cmds[i]}
        if go[i] != fresh[i]:
            ch.violation(d, {"input": cmds[i], "reused": go[i], "fresh": fresh[i], "model": model[i],
                             "what": "decoding into a used value differs from decoding into a fresh one"})
        elif go[i] != model[i]:
            ch.corr_break(d, {"input": cmds[i], "impl": go[i], "model": model[i]})
    if cmds:
        for _ in range(4):
            k = ch.rng.randrange(len(cmds))
            ch.sample({"input": cmds[k][:160], "reused": go[k][:120], "fresh": fresh[k][:120]})
    ch.extra["pairs_per_layer"] = per_layer
    ch.extra["pool_sizes"] = {k.split(":")[0] + (":" + k.split(":")[1] if ":" in k and k.startswith("v2") else ""): len(v) for k, v in ps.items()}
    try:
        from . import conn
        conn.c17_connection(ch, build)
    except ImportError:
        ch.notes.append("connection level not built yet")
    return ch.finish(rule=RULE, assumptions=["observable = exported fields (by reflection) plus BaseLayer.Payload for layers that assign it"])


def replay(ch, build, path):
    import json
    r = json.load(open(path))
    cmd = r["detail"]["input"]
    w = cmd.split()
    go = core.harness([cmd])[0]
    fresh = core.harness(["dec %s _ %s" % (w[1], w[3])])[0]
    model = core.oracle([cmd])[0]
    print("input :", cmd); print("reused:", go); print("fresh :", fresh); print("model :", model)
    if go != fresh or go != model:
        print("VIOLATION property=C17 replay=%s" % path)
        return 1
    return 0
