"""C19 — independent connections can be used concurrently without interference (partial)."""
import json, os, subprocess
from . import core

RULE = ("N goroutines (N in {2, 8, 16}; thorough: every N in 2..16), each with its own simulated BMC, in-memory transport, "
        "connection, sessions and a seeded random workload (session-less command, 1-2 handshakes with and without cipher-suite "
        "discovery, 3-10 in-session commands with retry scripts, SDR retrieval, DCMI enumeration, close), run concurrently in a "
        "binary built with -race and then one after the other; predicates: the race detector reports nothing; for every goroutine "
        "the results of all calls and the BMC's decoded view of every datagram (kind, accepted, session ID, sequence number, NetFn, "
        "command, request data, completion code) are identical to the solo run.  Theorem part: the frame argument over the "
        "regenerated write-footprint of package-level state.  distinct by (N, seed)")


def run(ch, build):
    core.proof_status(ch, "C19", build)
    rc, out = core.sh("./build.sh race", cwd=core.HARNESS_DIR, env=core.GOENV, timeout=1200)
    if rc != 0:
        ch.corr_break({"kind": "build"}, {"broken": "race-detector build of the harness failed", "log": out[-2000:]})
        return ch.finish(rule=RULE)
    ns = [2, 8, 16] if ch.quick() else list(range(2, 17))
    seeds = range(ch.seed, ch.seed + (3 if ch.quick() else 50))
    binr = os.path.join(core.HARNESS_DIR, "harness_race")
    total_steps = 0
    for n in ns:
        for sd in seeds:
            p = subprocess.run([binr], input="c19 %d %d\n" % (n, sd), stdout=subprocess.PIPE, stderr=subprocess.PIPE, text=True, timeout=600,
                               env=dict(os.environ, GORACE="halt_on_error=0 exitcode=66"))
            ch.note_case("c19-run", "%d|%d" % (n, sd))
            desc = {"kind": "c19", "n": n}
            if "DATA RACE" in p.stderr or p.returncode == 66:
                ch.violation(desc, {"n": n, "seed": sd, "what": "the race detector reported a data race", "report": p.stderr[:3000]})
                continue
            if p.returncode != 0:
                ch.violation(desc, {"n": n, "seed": sd, "what": "harness exited with %d" % p.returncode, "stderr": p.stderr[-2000:]})
                continue
            r = json.loads(p.stdout.strip())
            total_steps += r["steps"]
            if r["differing"]:
                ch.violation(desc, {"n": n, "seed": sd, "what": "a goroutine's observations differ from its solo run", "result": r})
            ch.sample({"n": n, "seed": sd, "steps": r["steps"], "differing": r["differing"]})
    ch.extra["goroutine_steps"] = total_steps
    return ch.finish(rule=RULE, assumptions=[
        "freedom from data races in the Go memory model is not a theorem here: it is what the race detector observed on the schedules that occurred",
        "IVs and the console random come from crypto/rand and are not compared (the BMC's decrypted view is)"])


def replay(ch, build, path):
    r = json.load(open(path)); d = r["detail"]
    core.sh("./build.sh race", cwd=core.HARNESS_DIR, env=core.GOENV, timeout=1200)
    p = subprocess.run([os.path.join(core.HARNESS_DIR, "harness_race")], input="c19 %d %d\n" % (d["n"], d["seed"]),
                       stdout=subprocess.PIPE, stderr=subprocess.PIPE, text=True, timeout=600)
    print(p.stdout[:2000]); print(p.stderr[:2000])
    bad = "DATA RACE" in p.stderr or p.returncode != 0 or json.loads(p.stdout.strip())["differing"]
    if bad:
        print("VIOLATION property=C19 replay=%s" % path)
    return 1 if bad else 0
