"""C19 — independent connections can be used concurrently without interference (partial)."""
import json, os, subprocess
from . import core

RULE = ("N goroutines (N in {2, 8, 16}; thorough: every N in 2..16), each with its own simulated BMC, in-memory transport, "
        "connection, sessions and a seeded random workload (session-less command, 1-2 handshakes with and without cipher-suite "
        "discovery, 3-10 in-session commands with retry scripts, SDR retrieval, DCMI enumeration, close), run concurrently in a "
        "binary built with -race and then once more one after the other in that process, once over in-memory transports and once over "
        "the library's own UDP transport on loopback (sockets, deadlines, receive buffers); the baseline is each workload ALONE IN A FRESH "
        "PROCESS; predicates: the race detector reports nothing; for every goroutine the results of all calls, the negotiated algorithms, "
        "the Open Session proposal and the BMC's decoded view of every datagram (kind, accepted, session ID, sequence number, NetFn, "
        "command, request data, completion code) are identical to the baseline in both phases.  Theorem part: the frame argument over the "
        "regenerated write-footprint of package-level state.  distinct by (N, seed)")


def solo_baseline(wseeds, udp=False):
    """each workload alone, in a fresh process of the (non-race) harness"""
    from concurrent.futures import ThreadPoolExecutor
    binh = os.path.join(core.HARNESS_DIR, "harness")

    def one(ws):
        try:
            p = subprocess.run([binh], input="c19solo %d%s\n" % (ws, " udp" if udp else ""), stdout=subprocess.PIPE, stderr=subprocess.PIPE, text=True, timeout=300)
        except subprocess.TimeoutExpired:
            return ws, None
        if p.returncode != 0:
            return ws, None
        return ws, json.loads(p.stdout.strip())["obs"]
    with ThreadPoolExecutor(16) as ex:
        return dict(ex.map(one, wseeds))


def first_diff(a, b):
    la, lb = a.split("\n"), b.split("\n")
    for k in range(max(len(la), len(lb))):
        x = la[k] if k < len(la) else ""; y = lb[k] if k < len(lb) else ""
        if x != y:
            return {"step": k, "alone": x[:1500], "here": y[:1500]}
    return None


def judge(ch, n, sd, p, base, udp=False):
    desc = {"kind": "c19", "n": n, "transport": "udp" if udp else "memory"}
    if "DATA RACE" in p.stderr or p.returncode == 66:
        ch.violation(desc, {"n": n, "seed": sd, "udp": udp, "what": "the race detector reported a data race", "report": p.stderr[:3000]})
        return 0
    if p.returncode != 0:
        ch.violation(desc, {"n": n, "seed": sd, "udp": udp, "what": "harness exited with %d" % p.returncode, "stderr": p.stderr[-2000:]})
        return 0
    r = json.loads(p.stdout.strip())
    differing = []
    for i in range(n):
        alone = base.get(sd * 100 + i)
        for phase in ("concurrent", "after"):
            if alone is None or r[phase][i] != alone:
                differing.append({"goroutine": i, "phase": phase, "workload_seed": sd * 100 + i,
                                  "first_difference": first_diff(alone or "", r[phase][i])})
    if differing:
        ch.violation(desc, {"n": n, "seed": sd, "udp": udp, "what": "a connection's observations differ from the same workload run alone in a fresh process "
                            "(phase concurrent = next to the other goroutines; after = one after the other in the process that ran them)",
                            "differing": differing[:4], "count": len(differing)})
    ch.sample({"n": n, "seed": sd, "steps": r["steps"], "differing": len(differing)})
    return r["steps"]


def run(ch, build):
    core.proof_status(ch, "C19", build)
    rc, out = core.sh("./build.sh race", cwd=core.HARNESS_DIR, env=core.GOENV, timeout=1200)
    if rc != 0:
        ch.corr_break({"kind": "build"}, {"broken": "race-detector build of the harness failed", "log": out[-2000:]})
        return ch.finish(rule=RULE)
    ns = [2, 8, 16] if ch.quick() else list(range(2, 17))
    seeds = list(range(ch.seed, ch.seed + (3 if ch.quick() else 50)))
    binr = os.path.join(core.HARNESS_DIR, "harness_race")
    total_steps = 0
    for udp in (False, True):
        # in memory (the harness's transport) and over the library's own UDP transport on loopback
        nsx = ns if not udp else ([8, 16] if ch.quick() else list(range(2, 17, 2)))
        sdx = seeds if not udp else seeds[:2 if ch.quick() else 20]
        base = solo_baseline(sorted({sd * 100 + i for sd in sdx for i in range(max(nsx))}), udp)
        missing = sorted(w for w, o in base.items() if o is None)
        if missing:
            # a workload that completes within seconds on a sound tree did not complete alone within five minutes
            ch.violation({"kind": "c19", "transport": "udp" if udp else "memory", "family": "alone"},
                         {"workload_seeds": missing[:8], "udp": udp, "what": "a workload run alone in a fresh process failed or did not finish within 300 s"})
        for n in nsx:
            for sd in sdx:
                if ch.violations:
                    break       # one counter-example is enough; the remaining configurations only repeat it (slowly, if commands now time out)
                try:
                    p = subprocess.run([binr], input="c19 %d %d%s\n" % (n, sd, " udp" if udp else ""), stdout=subprocess.PIPE, stderr=subprocess.PIPE,
                                       text=True, timeout=900, env=dict(os.environ, GORACE="halt_on_error=0 exitcode=66"))
                except subprocess.TimeoutExpired:
                    ch.violation({"kind": "c19", "n": n, "transport": "udp" if udp else "memory"},
                                 {"n": n, "seed": sd, "udp": udp, "what": "the concurrent run did not finish within 900 s (alone, each workload takes seconds)"})
                    continue
                ch.note_case("c19-run-" + ("udp" if udp else "memory"), "%d|%d" % (n, sd))
                total_steps += judge(ch, n, sd, p, base, udp)
        ch.extra["fresh_process_baselines_" + ("udp" if udp else "memory")] = len(base)
    ch.extra["goroutine_steps"] = total_steps
    return ch.finish(rule=RULE, assumptions=[
        "freedom from data races in the Go memory model is not a theorem here: it is what the race detector observed on the schedules that occurred",
        "IVs and the console random come from crypto/rand and are not compared (the BMC's decrypted view is)"])


def replay(ch, build, path):
    r = json.load(open(path)); d = r["detail"]
    core.sh("./build.sh race", cwd=core.HARNESS_DIR, env=core.GOENV, timeout=1200)
    udp = bool(d.get("udp"))
    p = subprocess.run([os.path.join(core.HARNESS_DIR, "harness_race")], input="c19 %d %d%s\n" % (d["n"], d["seed"], " udp" if udp else ""),
                       stdout=subprocess.PIPE, stderr=subprocess.PIPE, text=True, timeout=600)
    print(p.stdout[:2000]); print(p.stderr[:2000])
    bad = "DATA RACE" in p.stderr or p.returncode != 0
    if not bad:
        rr = json.loads(p.stdout.strip()); base = solo_baseline([d["seed"] * 100 + i for i in range(d["n"])], udp)
        bad = any(rr[ph][i] != base[d["seed"] * 100 + i] for ph in ("concurrent", "after") for i in range(d["n"]))
    if bad:
        print("VIOLATION property=C19 replay=%s" % path)
    return 1 if bad else 0
