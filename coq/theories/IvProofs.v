(* IvProofs.v — C03, "no initialisation vector is ever used twice": the k-th datagram a command transmits
   carries the k-th block drawn from the random source, each draw is used for exactly one datagram, so the IVs
   on the wire repeat only if the random source repeats a 16-byte draw. *)
From BMC Require Import Base Prim Layers Layers2 Serialize SpecRequests Packet Conn RequestProofs SentPacketProofs.

Definition iv_field (pkt : bytes) : bytes := firstn 16 (skipn 16 pkt).

Lemma NoDup_firstn {A} n (l : list A) : NoDup l -> NoDup (firstn n l).
Proof.
  revert n. induction l as [|x r IH]; intros n H; destruct n; cbn [firstn]; try constructor.
  - inversion H as [|? ? Hx Hr]; subst. intros Hin. apply Hx. clear -Hin.
    revert n Hin. induction r as [|y r IHr]; intros n Hin; destruct n; cbn [firstn] in Hin; try contradiction.
    destruct Hin as [->|Hin]; [left; reflexivity|right; eapply IHr; eauto].
  - inversion H; subst. apply IH. assumption.
Qed.

Section Ivs.
Variable s : session.
Hypothesis enc_len : forall b, length (s_enc s b) = 16%nat.
Variables (o : operation) (lun : N) (body : bytes).
Hypothesis Hf : op_fn o < 64.
Hypothesis He : op_fn o mod 2 = 0.
Hypothesis H2e : op_fn o <> 0x2e.
Hypothesis Hc : op_cmd o < 256.
Hypothesis Hl : lun < 4.
Hypothesis Hb : op_fn o = 0x2c -> op_body o < 256.
Hypothesis Hlen : request_message_length o body < 65504.

Theorem session_loop_ivs : forall script seq ivs sent codes,
  Forall (fun iv => length iv = 16%nat) ivs -> (length script <= length ivs)%nat ->
  exists new, lr_sent (session_loop s o lun body seq ivs script sent codes) = sent ++ new /\
              map iv_field new = firstn (length new) ivs.
Proof.
  induction script as [|r rest IH]; intros seq ivs sent codes Hiv Hn.
  - exists []. cbn. rewrite app_nil_r. auto.
  - destruct ivs as [|iv ivs']; [cbn [length] in Hn; inversion Hn|].
    pose proof (Forall_inv Hiv) as Hiv0. pose proof (Forall_inv_tail Hiv) as Hiv'. cbv beta in Hiv0. cbn [length] in Hn. apply le_S_n in Hn.
    cbn [session_loop hd tl].
    destruct (session_command_packet s (u32 (seq + 1)) iv o lun body) as [pkt| |] eqn:P;
      try solve [exists []; cbn [lr_sent map length firstn]; rewrite app_nil_r; auto].
    assert (F : iv_field pkt = iv)
      by (unfold iv_field; eapply iv_is_the_callers; eauto).
    assert (One : forall cs oc sq, exists new,
              lr_sent {| lr_sent := sent ++ [pkt]; lr_codes := cs; lr_outcome := oc; lr_seq := sq |} = sent ++ new /\
              map iv_field new = firstn (length new) (iv :: ivs')).
    { intros. exists [pkt]. cbn [lr_sent map length firstn]. rewrite F. auto. }
    assert (Rec : forall cs, exists new,
              lr_sent (session_loop s o lun body (u32 (seq + 1)) ivs' rest (sent ++ [pkt]) cs) = sent ++ new /\
              map iv_field new = firstn (length new) (iv :: ivs')).
    { intros cs. destruct (IH (u32 (seq + 1)) ivs' (sent ++ [pkt]) cs Hiv' Hn) as [new' [E M]].
      exists (pkt :: new'). split; [rewrite E, <- app_assoc; reflexivity|].
      cbn [map length firstn]. rewrite F, M. reflexivity. }
    destruct r as [bs|]; [|apply One].
    destruct (session_verdict s o bs); [apply One|apply Rec|apply Rec|apply One].
Qed.

(* distinct draws give distinct IVs on the wire, over the whole command *)
Corollary session_loop_ivs_distinct : forall script seq ivs sent codes,
  Forall (fun iv => length iv = 16%nat) ivs -> (length script <= length ivs)%nat -> NoDup ivs ->
  exists new, lr_sent (session_loop s o lun body seq ivs script sent codes) = sent ++ new /\ NoDup (map iv_field new).
Proof.
  intros script seq ivs sent codes Hiv Hn Hd.
  destruct (session_loop_ivs script seq ivs sent codes Hiv Hn) as [new [E M]].
  exists new. split; [exact E|]. rewrite M. apply NoDup_firstn. exact Hd.
Qed.
End Ivs.
