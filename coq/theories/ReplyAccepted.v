(* ReplyAccepted.v — the RESPONSE direction of an established session: a genuine
   reply, built the way IPMI v2.0 prescribes by a BMC that holds the session's
   keys (IPMI LAN response message | AES-128-CBC under K2 | RMCP+ wrapper
   addressed to the console's session ID, encrypted + authenticated, AuthCode
   under K1 | RMCP), is taken by the console's retry closure
   ([session_verdict], Packet.v) as the command's result, with exactly the
   BMC's completion code and data; a temporary code (C0h, C3h) is counted and
   retried.  At the loop level ([session_loop], Conn.v): when the first read
   returns such a reply with a non-temporary code, the command completes after
   exactly one transmission.

   The reply is built with the model's own serialisers (they are the layout of
   the specification; the reference BMC of SpecBmc.v only parses).

   Principal results (closed under the global context):
     genuine_reply_verdict_cbc      any block function that inverts on byte blocks
     genuine_reply_is_final         the concrete AES-128 of Aes.v, no premise about the cipher
     first_genuine_reply_completes  the loop-level corollary
     genuine_reply_is_final_udp     "fits in a UDP datagram" instead of the length bound
   The length bound (response message < 65504 bytes, so that IV + padded message fit the wrapper's
   16-bit length field) is sharp, see the note before [reply_udp_size_bound]. *)
From BMC Require Import Base BaseFacts Prim PrimProofs Layers Layers2 Serialize Packet Conn ConnProofs
                        TwoWayProofs Hmac Aes AesInverse AesCbcConcrete.
From Coq Require Import ZifyN ZifyNat ZifyBool.
Ltac Zify.zify_post_hook ::= Z.div_mod_to_equations.

Local Notation is_byte_list := (Forall (fun b : N => b < 256)).

(* ===================================================================== *)
(* the BMC's reply                                                        *)
(* ===================================================================== *)
(* IPMI LAN response: rqAddr | NetFn+1/rqLUN | chk | rsAddr | rqSeq/rsLUN | cmd | code | data | chk.
   The decoder names the first address "remote" and the second "local" whatever the direction, so
   w.r.t. [request_message] the two address/LUN pairs are swapped. *)
Definition response_message (o : operation) (lun : N) (code : N) : message :=
  {| m_function := op_fn o + 1; m_body := op_body o; m_enterprise := op_ent o; m_command := op_cmd o;
     m_remote_addr := 0x81; m_remote_lun := 0; m_checksum1 := 0; m_local_addr := 0x20; m_local_lun := lun;
     m_sequence := 1; m_code := code; m_checksum2 := 0; m_payload := [] |}.

(* the wrapper: IPMI payload, encrypted, authenticated, addressed to the CONSOLE's session ID *)
Definition reply_wrapper (s : session) (seq : N) : v2session :=
  {| v2_ptype := 0; v2_enterprise := 0; v2_pid := 0; v2_encrypted := true; v2_authenticated := true;
     v2_id := s_local_id s; v2_sequence := seq; v2_length := 0; v2_pad := 0; v2_signature := []; v2_payload := [] |}.

Definition reply_packet (s : session) (seq : N) (iv : bytes) (o : operation) (lun : N) (code : N) (data : bytes)
  : res bytes :=
  do '(_, b1) <- ser_message (response_message o lun code) data;
  do b2 <- ser_aescbc (s_enc s) iv b1;
  do '(_, b3) <- ser_v2session (s_sign s) (reply_wrapper s seq) b2;
  ser_rmcp rmcp_out b3.

(* what the console decodes from it: the response with both checksums filled in and the data *)
Definition reply_decoded (o : operation) (lun : N) (code : N) (data : bytes) : message :=
  match ser_message (response_message o lun code) data with
  | Ok (m', _) => m_set_payload m' data
  | _ => message_zero
  end.

(* length of the response message: 7 header bytes (with the completion code), the group body code
   or the enterprise number if any, the data, checksum 2 *)
Definition response_message_length (o : operation) (data : bytes) : N :=
  N.of_nat (length data) + (if op_fn o =? 0x2c then 9 else if op_fn o =? 0x2e then 11 else 8).

(* ===================================================================== *)
(* validation on the concrete model                                       *)
(* ===================================================================== *)
Module Check.
Definition k1 := map N.of_nat (seq 7 20).
Definition key := map N.of_nat (seq 50 16).
Definition s0 := {| s_local_id := 0xa0a1a2a3; s_remote_id := 0x01020304;
                    s_sign := fun m => firstn 12 (hmac_alg 1 k1 m);
                    s_enc := aes128_encrypt_block key; s_dec := aes128_decrypt_block key |}.
Definition iv0 := map N.of_nat (seq 100 16).
Definition run o lun code data : option verdict :=
  match reply_packet s0 5 iv0 o lun code data with Ok pkt => Some (session_verdict s0 o pkt) | _ => None end.
Definition expect o lun code data : option verdict :=
  Some (if is_temporary code then VTemporary code else VFinal (reply_decoded o lun code data)).
Definition get_device_id := {| op_fn := 6; op_body := 0; op_ent := 0; op_cmd := 1 |}.
Definition dcmi_power := {| op_fn := 0x2c; op_body := 0xdc; op_ent := 0; op_cmd := 2 |}.
Definition oem := {| op_fn := 0x2e; op_body := 0; op_ent := 0x123456; op_cmd := 2 |}.

Example reply_ok : run get_device_id 0 0 [1;2;3;4;5] = expect get_device_id 0 0 [1;2;3;4;5].
Proof. vm_compute. reflexivity. Qed.
Example reply_busy : run get_device_id 2 0xc0 [] = Some (VTemporary 0xc0).
Proof. vm_compute. reflexivity. Qed.
Example reply_timeout : run get_device_id 3 0xc3 [9] = Some (VTemporary 0xc3).
Proof. vm_compute. reflexivity. Qed.
Example reply_group : run dcmi_power 0 0xc1 [1;2;3;4;5;6;7;8] = expect dcmi_power 0 0xc1 [1;2;3;4;5;6;7;8].
Proof. vm_compute. reflexivity. Qed.
Example reply_oem : run oem 1 0 [1;2;3;4;5;6;7;8] = expect oem 1 0 [1;2;3;4;5;6;7;8].
Proof. vm_compute. reflexivity. Qed.
(* data ending in FFh bytes does not confuse the integrity-pad scan (it starts after the payload) *)
Example reply_ff : run get_device_id 0 0 (repeat 0xff 20) = expect get_device_id 0 0 (repeat 0xff 20).
Proof. vm_compute. reflexivity. Qed.
End Check.

(* ===================================================================== *)
(* ser_message: length and bytes, for every message                       *)
(* ===================================================================== *)
Definition msg_ext_len (fn : N) : nat :=
  if (fn =? 0x2c) || (fn =? 0x2d) then 1%nat else if (fn =? 0x2e) || (fn =? 0x2f) then 3%nat else 0%nat.

Lemma ser_message_length m p m' bs : ser_message m p = Ok (m', bs) ->
  length bs = (7 + (if msg_is_req (m_function m) then 0 else 1) + msg_ext_len (m_function m) + length p)%nat.
Proof.
  unfold ser_message, msg_ext_len. cbv zeta. intros H. apply ok_pair_inj in H. destruct H as [_ <-].
  destruct (msg_is_req (m_function m));
    (destruct ((m_function m =? 44) || (m_function m =? 45))%bool;
     [|destruct ((m_function m =? 46) || (m_function m =? 47))%bool]);
    cbn [length app]; rewrite ?app_length; cbn [length]; lia.
Qed.

Lemma lor_byte a b : a < 256 -> b < 256 -> N.lor a b < 256.
Proof.
  intros Ha Hb. apply N.ltb_lt.
  apply (sweep2 (fun a b => N.lor a b <? 256)); [vm_cast_no_check (eq_refl true)|exact Ha|exact Hb].
Qed.

Lemma ser_message_is_bytes m p m' bs :
  is_byte_list p -> ser_message m p = Ok (m', bs) -> is_byte_list bs.
Proof.
  unfold ser_message. cbv zeta. intros Fp H. apply ok_pair_inj in H. destruct H as [_ <-].
  destruct (msg_is_req (m_function m));
    (destruct ((m_function m =? 44) || (m_function m =? 45))%bool;
     [|destruct ((m_function m =? 46) || (m_function m =? 47))%bool]);
    repeat first [ apply Forall_nil | exact Fp | apply Forall_cons | apply Forall_app; split
                 | apply u8_lt | apply lor_byte | apply checksum_correct ].
Qed.

(* ===================================================================== *)
(* the response message of an operation                                   *)
(* ===================================================================== *)
Section ResponseMessage.
Variables (o : operation) (lun code : N).
Hypothesis Hfn : op_fn o < 64.
Hypothesis Heven : op_fn o mod 2 = 0.
Hypothesis Hcmd : op_cmd o < 256.
Hypothesis Hlun : lun < 4.
Hypothesis Hcode : code < 256.
Hypothesis Hbody : op_body o < 256.
Hypothesis Hbody0 : op_fn o <> 0x2c -> op_body o = 0.
Hypothesis Hent : op_ent o < 16777216.
Hypothesis Hent0 : op_fn o <> 0x2e -> op_ent o = 0.

Lemma response_message_in_range : msg_in_range (response_message o lun code).
Proof using Hfn Heven Hcmd Hlun Hcode Hbody Hbody0 Hent Hent0.
  constructor; unfold response_message;
    cbn [m_function m_body m_enterprise m_command m_remote_addr m_remote_lun m_checksum1 m_local_addr
         m_local_lun m_sequence m_code m_checksum2 m_payload]; lia.
Qed.

Lemma response_is_not_request : msg_is_req (op_fn o + 1) = false.
Proof using Hfn Heven. clear - Hfn Heven. unfold msg_is_req, u8. apply N.eqb_neq. lia. Qed.

Lemma response_message_length_ok data m' b1 :
  ser_message (response_message o lun code) data = Ok (m', b1) ->
  N.of_nat (length b1) = response_message_length o data.
Proof using Hfn Heven.
  clear Hcmd Hlun Hcode Hbody Hbody0 Hent Hent0. intros Sm. rewrite (ser_message_length _ _ _ _ Sm).
  unfold response_message at 1 2. cbn [m_function]. rewrite response_is_not_request.
  unfold msg_ext_len, response_message_length.
  destruct (N.eqb_spec (op_fn o) 44) as [E|E].
  - replace (op_fn o + 1 =? 45) with true by lia. rewrite Bool.orb_true_r. lia.
  - replace (op_fn o + 1 =? 44) with false by lia. replace (op_fn o + 1 =? 45) with false by lia.
    cbn [orb]. replace (op_fn o + 1 =? 46) with false by lia.
    destruct (N.eqb_spec (op_fn o) 46) as [E6|E6].
    + replace (op_fn o + 1 =? 47) with true by lia. cbn [orb]. lia.
    + replace (op_fn o + 1 =? 47) with false by lia. cbn [orb]. lia.
Qed.

Lemma response_decodes data m' b1 :
  ser_message (response_message o lun code) data = Ok (m', b1) ->
  decode_message message_zero b1 = Ok (reply_decoded o lun code data) /\
  reply_decoded o lun code data = m_set_payload m' data.
Proof using Hfn Heven Hcmd Hlun Hcode Hbody Hbody0 Hent Hent0.
  intros Sm. unfold reply_decoded. rewrite Sm. split; [|reflexivity].
  exact (message_roundtrip _ data message_zero m' b1 response_message_in_range Sm).
Qed.

(* the fields the caller and the retry closure look at *)
Lemma reply_decoded_fields data :
  let m := reply_decoded o lun code data in
  m_code m = code /\ m_payload m = data /\
  m_function m = op_fn o + 1 /\ m_command m = op_cmd o /\ m_body m = op_body o /\ m_enterprise m = op_ent o /\
  m_remote_addr m = 0x81 /\ m_remote_lun m = 0 /\ m_local_addr m = 0x20 /\ m_local_lun m = lun /\
  m_sequence m = 1.
Proof using Type.
  cbv zeta. unfold reply_decoded, ser_message. cbv zeta. unfold m_set_payload, response_message.
  cbn [m_function m_body m_enterprise m_command m_remote_addr m_remote_lun m_checksum1 m_local_addr
       m_local_lun m_sequence m_code m_checksum2 m_payload].
  repeat split.
Qed.

Lemma reply_decoded_matches data : response_matches o (reply_decoded o lun code data) = true.
Proof using Hfn.
  clear Heven Hcmd Hlun Hcode Hbody Hbody0 Hent Hent0. destruct (reply_decoded_fields data) as (_ & _ & F & C & B & E & _). unfold response_matches.
  rewrite F, C, B, E, !N.eqb_refl, !Bool.andb_true_r. apply N.eqb_eq. unfold u8. lia.
Qed.
End ResponseMessage.

(* ===================================================================== *)
(* the reply is the four serialisers in a row; all of them succeed        *)
(* ===================================================================== *)
Lemma reply_packet_steps s seq iv o lun code data pkt :
  reply_packet s seq iv o lun code data = Ok pkt ->
  exists m' b1 b2 w' b3,
    ser_message (response_message o lun code) data = Ok (m', b1) /\
    ser_aescbc (s_enc s) iv b1 = Ok b2 /\
    ser_v2session (s_sign s) (reply_wrapper s seq) b2 = Ok (w', b3) /\
    pkt = [6; 0; 255; 7] ++ b3.
Proof.
  intros S. unfold reply_packet in S.
  destruct (ser_message (response_message o lun code) data) as [[m' b1]| |] eqn:Sm; [|discriminate S ..].
  cbn [bind] in S.
  destruct (ser_aescbc (s_enc s) iv b1) as [b2| |] eqn:Sa; [|discriminate S ..].
  cbn [bind] in S.
  destruct (ser_v2session (s_sign s) (reply_wrapper s seq) b2) as [[w' b3]| |] eqn:Sw; [|discriminate S ..].
  cbn [bind] in S. unfold ser_rmcp, rmcp_out in S. cbn [rm_version rm_sequence rm_ack rm_class] in S.
  apply ok_inj in S. subst pkt.
  exists m', b1, b2, w', b3. repeat split; try assumption.
Qed.

Lemma reply_packet_always_ok s seq iv o lun code data : exists pkt, reply_packet s seq iv o lun code data = Ok pkt.
Proof. unfold reply_packet, ser_message, ser_aescbc, ser_v2session, reply_wrapper, ser_rmcp. cbn [bind v2_authenticated]. eauto. Qed.

(* the sequence number enters the datagram as its low 32 bits only *)
Lemma put_le32_u32 x : put_le32 (u32 x) = put_le32 x.
Proof.
  unfold put_le32, u32.
  replace ((x mod 4294967296) mod 256) with (x mod 256) by lia.
  replace ((x mod 4294967296 / 256) mod 256) with ((x / 256) mod 256) by lia.
  replace ((x mod 4294967296 / 65536) mod 256) with ((x / 65536) mod 256) by lia.
  replace ((x mod 4294967296 / 16777216) mod 256) with ((x / 16777216) mod 256) by lia.
  reflexivity.
Qed.

Lemma reply_packet_seq_u32 s seq iv o lun code data :
  reply_packet s (u32 seq) iv o lun code data = reply_packet s seq iv o lun code data.
Proof.
  unfold reply_packet, ser_v2session, reply_wrapper, v2_flags.
  cbn [v2_ptype v2_enterprise v2_pid v2_encrypted v2_authenticated v2_id v2_sequence v2_length v2_pad
       v2_signature v2_payload].
  rewrite put_le32_u32. reflexivity.
Qed.

(* what the wrapper's serialiser reports and how its bytes start *)
Lemma ser_v2_auth_fields sign v p w' bs :
  v2_authenticated v = true -> ser_v2session sign v p = Ok (w', bs) ->
  v2_ptype w' = v2_ptype v /\ v2_enterprise w' = v2_enterprise v /\ v2_pid w' = v2_pid v /\
  v2_encrypted w' = v2_encrypted v /\ v2_authenticated w' = true /\ v2_id w' = v2_id v /\
  exists r, bs = 6 :: r.
Proof.
  unfold ser_v2session. cbv zeta. intros A. rewrite A. intros H. apply ok_pair_inj in H. destruct H as [<- <-].
  cbn [v2_ptype v2_enterprise v2_pid v2_encrypted v2_authenticated v2_id]. repeat split.
  cbn [app]. eexists. reflexivity.
Qed.

(* ===================================================================== *)
(* the console accepts the reply                                          *)
(* ===================================================================== *)
Section Reply.
Variable s : session.
(* the confidentiality algorithm: a block function that is inverted on byte blocks *)
Hypothesis dec_enc : forall b, length b = 16%nat -> is_byte_list b -> s_dec s (s_enc s b) = b.
Hypothesis enc_bytes : forall b, length b = 16%nat -> is_byte_list b ->
  length (s_enc s b) = 16%nat /\ is_byte_list (s_enc s b).
Hypothesis local_range : s_local_id s < 4294967296.

Theorem genuine_reply_verdict_cbc : forall seq iv o lun code data pkt,
  length iv = 16%nat -> is_byte_list iv -> is_byte_list data ->
  op_fn o < 64 -> op_fn o mod 2 = 0 -> op_cmd o < 256 -> lun < 4 -> code < 256 ->
  op_body o < 256 -> (op_fn o <> 0x2c -> op_body o = 0) ->
  op_ent o < 16777216 -> (op_fn o <> 0x2e -> op_ent o = 0) ->
  response_message_length o data < 65504 ->
  reply_packet s seq iv o lun code data = Ok pkt ->
  session_verdict s o pkt =
    if is_temporary code then VTemporary code else VFinal (reply_decoded o lun code data).
Proof.
  intros seq iv o lun code data pkt Hiv Fiv Fd Hfn Hev Hcmd Hlun Hcode Hb Hb0 He He0 Hlen Spkt.
  rewrite <- reply_packet_seq_u32 in Spkt.
  destruct (reply_packet_steps _ _ _ _ _ _ _ _ Spkt) as (m' & b1 & b2 & w' & b3 & Sm & Sa & Sw & ->).
  (* sizes *)
  pose proof (response_message_length_ok o lun code Hfn Hev data m' b1 Sm) as L1.
  assert (F1 : is_byte_list b1) by exact (ser_message_is_bytes _ _ _ _ Fd Sm).
  assert (L2 : length b2 = (16 + 16 * (Nat.div (length b1) 16 + 1))%nat).
  { unfold ser_aescbc in Sa. cbv zeta in Sa. apply ok_inj in Sa. subst b2.
    assert (Ftr : is_byte_list (b1 ++ aes_trailer (length b1)))
      by (apply Forall_app; split; [exact F1|apply aes_trailer_byte]).
    assert (Hpt : length (b1 ++ aes_trailer (length b1)) = (16 * (Nat.div (length b1) 16 + 1))%nat).
    { rewrite aes_trailer_eq, !app_length, aes_padbytes_length. cbn [length].
      pose proof (aes_padded_length (length b1)). lia. }
    destruct (cbc_encrypt_bytes _ enc_bytes iv _ _ Hpt Hiv Fiv Ftr) as [Hl _].
    rewrite app_length, Hl, Hpt. lia. }
  assert (Hp : N.of_nat (length b2) < 65536) by lia.
  (* the wrapper *)
  assert (Rw : v2_in_range (reply_wrapper s (u32 seq))).
  { constructor; unfold reply_wrapper;
      cbn [v2_ptype v2_enterprise v2_pid v2_id v2_sequence]; unfold u32; lia. }
  pose proof (v2session_roundtrip_auth (s_sign s) _ b2 v2session_zero w' b3 Rw Hp eq_refl Sw) as Dw.
  destruct (ser_v2_auth_fields _ (reply_wrapper s (u32 seq)) _ _ _ eq_refl Sw) as (Wpt & Went & Wpid & Wenc & Wauth & Wid & r & Eb3).
  cbn [reply_wrapper v2_ptype v2_enterprise v2_pid v2_encrypted v2_id] in Wpt, Went, Wpid, Wenc, Wid.
  (* the confidentiality layer and the message *)
  pose proof (aes_roundtrip_bytes _ _ dec_enc enc_bytes iv b1 aescbc_zero b2 Hiv Fiv F1 Sa) as Da.
  destruct (response_decodes o lun code Hfn Hev Hcmd Hlun Hcode Hb Hb0 He He0 data m' b1 Sm) as [Dm _].
  (* the LayersDecoder pipeline *)
  unfold session_verdict, receive.
  assert (R : decode_rmcp rmcp_zero ([6; 0; 255; 7] ++ b3) =
              Ok {| rm_version := 6; rm_sequence := 255; rm_ack := false; rm_class := 7; rm_payload := b3 |}).
  { unfold decode_rmcp, guard. cbn [app length].
    destruct (Nat.ltb_spec (S (S (S (S (length b3))))) 4); [lia|]. reflexivity. }
  rewrite R. cbn [bind rm_payload rm_class].
  assert (Z3 : Nat.eqb (length b3) 0 = false) by (rewrite Eb3; reflexivity).
  rewrite Z3. cbn [N.eqb Pos.eqb negb].
  assert (Sel : decode_selector selector_zero b3 = Ok {| sel_plus := true; sel_payload := b3 |}).
  { rewrite Eb3. unfold decode_selector, guard. reflexivity. }
  rewrite Sel. cbn [bind sel_plus sel_payload negb].
  rewrite Dw. cbn [bind]. unfold v2_set_payload at 1 2. cbn [v2_payload].
  destruct (Nat.eqb_spec (length b2) 0) as [Z2|_]; [lia|].
  unfold v2_next, v2_set_payload. cbn [v2_ptype v2_enterprise v2_pid v2_encrypted].
  rewrite Wpt, Went, Wpid, Wenc. cbn [N.eqb andb v2_payload].
  rewrite Da. cbn [bind ae_payload].
  destruct (Nat.eqb_spec (length b1) 0) as [Z1|_];
    [exfalso; unfold response_message_length in L1; destruct (op_fn o =? 44), (op_fn o =? 46); lia|].
  rewrite Dm. cbn [bind v2_id v2_authenticated].
  rewrite Wid, Wauth, N.eqb_refl. cbn [negb].
  rewrite (reply_decoded_matches o lun code Hfn data).
  destruct (reply_decoded_fields o lun code data) as (-> & _). reflexivity.
Qed.
End Reply.

(* ===================================================================== *)
(* with the concrete AES-128                                              *)
(* ===================================================================== *)
Theorem genuine_reply_is_final : forall s seq iv o lun code data pkt key,
  s_enc s = aes128_encrypt_block key -> s_dec s = aes128_decrypt_block key ->
  length key = 16%nat -> is_byte_list key ->
  s_local_id s < 4294967296 ->
  length iv = 16%nat -> is_byte_list iv -> is_byte_list data ->
  op_fn o < 64 -> op_fn o mod 2 = 0 -> op_cmd o < 256 -> lun < 4 -> code < 256 ->
  op_body o < 256 -> (op_fn o <> 0x2c -> op_body o = 0) ->
  op_ent o < 16777216 -> (op_fn o <> 0x2e -> op_ent o = 0) ->
  response_message_length o data < 65504 ->
  reply_packet s seq iv o lun code data = Ok pkt ->
  exists m,
    session_verdict s o pkt = (if is_temporary code then VTemporary code else VFinal m) /\
    m = reply_decoded o lun code data /\
    m_code m = code /\ m_payload m = data /\ response_matches o m = true /\
    m_function m = op_fn o + 1 /\ m_command m = op_cmd o /\ m_body m = op_body o /\ m_enterprise m = op_ent o /\
    m_remote_addr m = 0x81 /\ m_remote_lun m = 0 /\ m_local_addr m = 0x20 /\ m_local_lun m = lun /\
    m_sequence m = 1.
Proof.
  intros s seq iv o lun code data pkt key Eenc Edec Hk Fk Hid Hiv Fiv Fd Hfn Hev Hcmd Hlun Hcode
         Hb Hb0 He He0 Hlen S.
  exists (reply_decoded o lun code data). split; [|split; [reflexivity|]].
  - apply (genuine_reply_verdict_cbc s) with (seq := seq) (iv := iv); try assumption.
    + rewrite Eenc, Edec. exact (aes128_dec_enc key Hk Fk).
    + rewrite Eenc. exact (aes128_enc_bytes key Hk Fk).
  - destruct (reply_decoded_fields o lun code data) as (F1 & F2 & F3).
    split; [exact F1|]. split; [exact F2|]. split; [|exact F3].
    apply reply_decoded_matches; assumption.
Qed.

(* the two readings of the conclusion *)
Corollary genuine_reply_final : forall s seq iv o lun code data pkt key,
  s_enc s = aes128_encrypt_block key -> s_dec s = aes128_decrypt_block key ->
  length key = 16%nat -> is_byte_list key ->
  s_local_id s < 4294967296 ->
  length iv = 16%nat -> is_byte_list iv -> is_byte_list data ->
  op_fn o < 64 -> op_fn o mod 2 = 0 -> op_cmd o < 256 -> lun < 4 -> code < 256 ->
  op_body o < 256 -> (op_fn o <> 0x2c -> op_body o = 0) ->
  op_ent o < 16777216 -> (op_fn o <> 0x2e -> op_ent o = 0) ->
  response_message_length o data < 65504 ->
  code <> 0xc0 -> code <> 0xc3 ->
  reply_packet s seq iv o lun code data = Ok pkt ->
  exists m, session_verdict s o pkt = VFinal m /\ m_code m = code /\ m_payload m = data /\
            response_matches o m = true.
Proof.
  intros s seq iv o lun code data pkt key Eenc Edec Hk Fk Hid Hiv Fiv Fd Hfn Hev Hcmd Hlun Hcode
         Hb Hb0 He He0 Hlen N0 N3 S.
  destruct (genuine_reply_is_final s seq iv o lun code data pkt key Eenc Edec Hk Fk Hid Hiv Fiv Fd
              Hfn Hev Hcmd Hlun Hcode Hb Hb0 He He0 Hlen S) as (m & V & _ & C & P & M & _).
  exists m. replace (is_temporary code) with false in V
    by (unfold is_temporary; replace (code =? 192) with false by lia; replace (code =? 195) with false by lia;
        reflexivity).
  auto.
Qed.

Corollary genuine_reply_temporary : forall s seq iv o lun code data pkt key,
  s_enc s = aes128_encrypt_block key -> s_dec s = aes128_decrypt_block key ->
  length key = 16%nat -> is_byte_list key ->
  s_local_id s < 4294967296 ->
  length iv = 16%nat -> is_byte_list iv -> is_byte_list data ->
  op_fn o < 64 -> op_fn o mod 2 = 0 -> op_cmd o < 256 -> lun < 4 ->
  op_body o < 256 -> (op_fn o <> 0x2c -> op_body o = 0) ->
  op_ent o < 16777216 -> (op_fn o <> 0x2e -> op_ent o = 0) ->
  response_message_length o data < 65504 ->
  code = 0xc0 \/ code = 0xc3 ->
  reply_packet s seq iv o lun code data = Ok pkt ->
  session_verdict s o pkt = VTemporary code.
Proof.
  intros s seq iv o lun code data pkt key Eenc Edec Hk Fk Hid Hiv Fiv Fd Hfn Hev Hcmd Hlun
         Hb Hb0 He He0 Hlen Hc S.
  destruct (genuine_reply_is_final s seq iv o lun code data pkt key Eenc Edec Hk Fk Hid Hiv Fiv Fd
              Hfn Hev Hcmd Hlun ltac:(lia) Hb Hb0 He He0 Hlen S) as (m & V & _).
  rewrite V. destruct Hc as [-> | ->]; reflexivity.
Qed.

(* ===================================================================== *)
(* at the loop level                                                      *)
(* ===================================================================== *)
(* whatever the request body, the sequence counter, the IVs and the rest of the script are: if the
   first read returns a genuine reply with a non-temporary code, SendCommand returns that code and
   data after exactly one transmission *)
Corollary first_genuine_reply_completes : forall s o lun body seq0 ivs rest bseq biv code data pkt key,
  s_enc s = aes128_encrypt_block key -> s_dec s = aes128_decrypt_block key ->
  length key = 16%nat -> is_byte_list key ->
  s_local_id s < 4294967296 ->
  length biv = 16%nat -> is_byte_list biv -> is_byte_list data ->
  op_fn o < 64 -> op_fn o mod 2 = 0 -> op_cmd o < 256 -> lun < 4 -> code < 256 ->
  op_body o < 256 -> (op_fn o <> 0x2c -> op_body o = 0) ->
  op_ent o < 16777216 -> (op_fn o <> 0x2e -> op_ent o = 0) ->
  response_message_length o data < 65504 ->
  code <> 0xc0 -> code <> 0xc3 ->
  reply_packet s bseq biv o lun code data = Ok pkt ->
  let r := session_loop s o lun body seq0 ivs (Some pkt :: rest) [] [] in
  exists m req,
    lr_outcome r = OFinal m /\ m_code m = code /\ m_payload m = data /\ response_matches o m = true /\
    session_command_packet s (u32 (seq0 + 1)) (hd (zeros 16) ivs) o lun body = Ok req /\
    lr_sent r = [req] /\ length (lr_sent r) = 1%nat /\
    lr_codes r = [code] /\ lr_seq r = u32 (seq0 + 1) /\
    send_result r = Some (code, data).
Proof.
  intros s o lun body seq0 ivs rest bseq biv code data pkt key Eenc Edec Hk Fk Hid Hiv Fiv Fd
         Hfn Hev Hcmd Hlun Hcode Hb Hb0 He He0 Hlen N0 N3 S. cbv zeta.
  destruct (genuine_reply_final s bseq biv o lun code data pkt key Eenc Edec Hk Fk Hid Hiv Fiv Fd
              Hfn Hev Hcmd Hlun Hcode Hb Hb0 He He0 Hlen N0 N3 S) as (m & V & C & P & M).
  destruct (session_packet_always_ok s (u32 (seq0 + 1)) (hd (zeros 16) ivs) o lun body) as [req Rq].
  exists m, req. cbn [session_loop]. rewrite Rq, V. unfold send_result.
  cbn [lr_outcome lr_sent lr_codes lr_seq app length]. rewrite C, P. repeat split; assumption.
Qed.

(* ===================================================================== *)
(* the length bound                                                       *)
(* ===================================================================== *)
(* The bound is sharp.  Checked on the concrete model of [Check] (vm_compute, needs a large stack,
   about 40 s, hence not part of this file): Get Device ID with 65495 data bytes (message of 65503
   bytes, length field F0 FF, datagram of 65552 bytes) gives VFinal with all 65495 bytes; with 65496
   data bytes the confidentiality payload is 65536 bytes, the length field wraps to 00 00, the
   datagram has 65568 bytes and decode_v2session fails: the verdict is VRetry, i.e. the genuine
   reply is dropped.  Both datagrams are longer than the 65507 bytes a UDP/IPv4 datagram carries,
   so the bound excludes nothing that can arrive: *)
Lemma ser_v2_length_ge sign v p w' bs :
  ser_v2session sign v p = Ok (w', bs) -> (12 + length p <= length bs)%nat.
Proof.
  unfold ser_v2session. cbv zeta. unfold put_le32, put_le16.
  destruct (v2_authenticated v); intros H; apply ok_pair_inj in H; destruct H as [_ <-];
    destruct (u8 (v2_ptype v) =? 2); cbn [app length]; rewrite ?app_length; cbn [length]; lia.
Qed.

Lemma reply_udp_size_bound s seq iv o lun code data pkt :
  (forall b, length b = 16%nat -> is_byte_list b ->
     length (s_enc s b) = 16%nat /\ is_byte_list (s_enc s b)) ->
  length iv = 16%nat -> is_byte_list iv -> is_byte_list data ->
  op_fn o < 64 -> op_fn o mod 2 = 0 ->
  reply_packet s seq iv o lun code data = Ok pkt ->
  N.of_nat (length pkt) <= 65507 -> response_message_length o data < 65504.
Proof.
  intros enc_bytes Hiv Fiv Fd Hfn Hev Spkt Hudp.
  destruct (reply_packet_steps _ _ _ _ _ _ _ _ Spkt) as (m' & b1 & b2 & w' & b3 & Sm & Sa & Sw & ->).
  pose proof (response_message_length_ok o lun code Hfn Hev data m' b1 Sm) as L1.
  assert (F1 : is_byte_list b1) by exact (ser_message_is_bytes _ _ _ _ Fd Sm).
  pose proof (ser_v2_length_ge _ _ _ _ _ Sw) as L3.
  assert (L2 : length b2 = (16 + 16 * (Nat.div (length b1) 16 + 1))%nat).
  { unfold ser_aescbc in Sa. cbv zeta in Sa. apply ok_inj in Sa. subst b2.
    assert (Ftr : is_byte_list (b1 ++ aes_trailer (length b1)))
      by (apply Forall_app; split; [exact F1|apply aes_trailer_byte]).
    assert (Hpt : length (b1 ++ aes_trailer (length b1)) = (16 * (Nat.div (length b1) 16 + 1))%nat).
    { rewrite aes_trailer_eq, !app_length, aes_padbytes_length. cbn [length].
      pose proof (aes_padded_length (length b1)). lia. }
    destruct (cbc_encrypt_bytes _ enc_bytes iv _ _ Hpt Hiv Fiv Ftr) as [Hl _].
    rewrite app_length, Hl, Hpt. lia. }
  rewrite app_length in Hudp. cbn [length] in Hudp. lia.
Qed.

(* "every genuine reply that can arrive": whatever fits in a UDP/IPv4 datagram *)
Theorem genuine_reply_is_final_udp : forall s seq iv o lun code data pkt key,
  s_enc s = aes128_encrypt_block key -> s_dec s = aes128_decrypt_block key ->
  length key = 16%nat -> is_byte_list key ->
  s_local_id s < 4294967296 ->
  length iv = 16%nat -> is_byte_list iv -> is_byte_list data ->
  op_fn o < 64 -> op_fn o mod 2 = 0 -> op_cmd o < 256 -> lun < 4 -> code < 256 ->
  op_body o < 256 -> (op_fn o <> 0x2c -> op_body o = 0) ->
  op_ent o < 16777216 -> (op_fn o <> 0x2e -> op_ent o = 0) ->
  reply_packet s seq iv o lun code data = Ok pkt ->
  N.of_nat (length pkt) <= 65507 ->
  session_verdict s o pkt =
    (if is_temporary code then VTemporary code else VFinal (reply_decoded o lun code data)) /\
  m_code (reply_decoded o lun code data) = code /\ m_payload (reply_decoded o lun code data) = data.
Proof.
  intros s seq iv o lun code data pkt key Eenc Edec Hk Fk Hid Hiv Fiv Fd Hfn Hev Hcmd Hlun Hcode
         Hb Hb0 He He0 Spkt Hudp.
  assert (Hlen : response_message_length o data < 65504).
  { apply (reply_udp_size_bound s seq iv o lun code data pkt); try assumption.
    rewrite Eenc. exact (aes128_enc_bytes key Hk Fk). }
  destruct (genuine_reply_is_final s seq iv o lun code data pkt key Eenc Edec Hk Fk Hid Hiv Fiv Fd
              Hfn Hev Hcmd Hlun Hcode Hb Hb0 He He0 Hlen Spkt) as (m & V & -> & C & P & _).
  auto.
Qed.

Print Assumptions genuine_reply_verdict_cbc.
Print Assumptions genuine_reply_is_final.
Print Assumptions genuine_reply_final.
Print Assumptions genuine_reply_temporary.
Print Assumptions first_genuine_reply_completes.
Print Assumptions genuine_reply_is_final_udp.
