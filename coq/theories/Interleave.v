(* Interleave.v — C19, the part that is logic: if every step of a connection
   is a function of that connection's own state and its input (it reads shared
   tables that nobody writes, and its only effect on shared state is a
   commutative counter increment), then under every interleaving of any number
   of connections each connection's outputs and final state are those of its
   solo run and the shared counter is the sum of the solo counts.
   The premise "nobody writes the shared tables" is what props/Tie.v checks
   against the write footprint regenerated from the source (tie_footprint). *)
From Coq Require Import List Arith Lia.
Import ListNotations.

Section Interleave.
  Variables St Inp Out : Type.
  Variable step : St -> Inp -> St * Out * nat.   (* new state, output, counter increment *)

  Definition upd {A} (f : nat -> A) (i : nat) (a : A) : nat -> A := fun j => if Nat.eqb j i then a else f j.

  (* the whole system: per-connection states and outputs, one shared counter *)
  Fixpoint run (sched : list (nat * Inp)) (st : nat -> St) (outs : nat -> list Out) (ctr : nat)
    : (nat -> St) * (nat -> list Out) * nat :=
    match sched with
    | [] => (st, outs, ctr)
    | (i, x) :: rest =>
        let '(s', o, d) := step (st i) x in
        run rest (upd st i s') (upd outs i (outs i ++ [o])) (ctr + d)
    end.

  Fixpoint solo (ins : list Inp) (s : St) (acc : list Out) (ctr : nat) : St * list Out * nat :=
    match ins with
    | [] => (s, acc, ctr)
    | x :: rest => let '(s', o, d) := step s x in solo rest s' (acc ++ [o]) (ctr + d)
    end.

  Definition project (i : nat) (sched : list (nat * Inp)) : list Inp :=
    map snd (filter (fun e => Nat.eqb (fst e) i) sched).

  Lemma upd_same {A} (f : nat -> A) i a : upd f i a i = a.
  Proof. unfold upd. rewrite Nat.eqb_refl. reflexivity. Qed.
  Lemma upd_other {A} (f : nat -> A) i j a : j <> i -> upd f i a j = f j.
  Proof. intros H. unfold upd. destruct (Nat.eqb_spec j i); [contradiction|reflexivity]. Qed.

  Lemma solo_ctr ins : forall s acc c, snd (solo ins s acc c) = c + snd (solo ins s acc 0).
  Proof.
    induction ins as [|x rest IH]; intros s acc c; cbn [solo]; [simpl; lia|].
    destruct (step s x) as [[s' o] d]. rewrite (IH s' (acc ++ [o]) (c + d)), (IH s' (acc ++ [o]) (0 + d)). lia.
  Qed.

  (* every connection sees exactly its solo run *)
  Theorem independent_outputs : forall sched st outs ctr i,
    let '(st', outs', _) := run sched st outs ctr in
    let '(s, o, _) := solo (project i sched) (st i) (outs i) 0 in
    st' i = s /\ outs' i = o.
  Proof.
    induction sched as [|[j x] rest IH]; intros st outs ctr i; cbn [run project filter map fst snd solo].
    - split; reflexivity.
    - destruct (step (st j) x) as [[s' o] d] eqn:E.
      specialize (IH (upd st j s') (upd outs j (outs j ++ [o])) (ctr + d) i).
      destruct (run rest (upd st j s') (upd outs j (outs j ++ [o])) (ctr + d)) as [[st' outs'] c'].
      destruct (Nat.eqb_spec j i) as [->|Hne].
      + cbn [map snd solo]. rewrite E. rewrite !upd_same in IH.
        fold (project i rest).
        destruct (solo (project i rest) s' (outs i ++ [o]) 0) as [[s2 o2] c2] eqn:S0.
        pose proof (solo_ctr (project i rest) s' (outs i ++ [o]) (0 + d)) as SC.
        destruct (solo (project i rest) s' (outs i ++ [o]) (0 + d)) as [[s3 o3] c3] eqn:S1.
        (* the counter argument does not influence state and outputs *)
        assert (G : forall ins s acc c1 c2, fst (solo ins s acc c1) = fst (solo ins s acc c2)).
        { clear. induction ins as [|y r IHr]; intros s acc c1 c2; cbn [solo]; [reflexivity|].
          destruct (step s y) as [[s'' o''] d'']. apply IHr. }
        pose proof (G (project i rest) s' (outs i ++ [o]) 0 (0 + d)) as GG. rewrite S0, S1 in GG. cbn [fst] in GG.
        injection GG as <- <-. exact IH.
      + rewrite !upd_other in IH by (intros ->; contradiction). fold (project i rest). exact IH.
  Qed.

  (* the shared counter is the sum of what each connection would count alone *)
  Fixpoint sum_over (ids : list nat) (f : nat -> nat) : nat :=
    match ids with [] => 0 | i :: r => f i + sum_over r f end.

  Lemma sum_over_ext ids f g : (forall i, In i ids -> f i = g i) -> sum_over ids f = sum_over ids g.
  Proof. induction ids as [|i r IH]; intros H; cbn; [reflexivity|]. rewrite (H i (or_introl eq_refl)), IH; auto. intros; apply H; right; assumption. Qed.

  Definition solo_count (i : nat) (sched : list (nat * Inp)) (st : nat -> St) : nat :=
    snd (solo (project i sched) (st i) [] 0).

  Lemma solo_count_acc ins : forall s a1 a2 c, snd (solo ins s a1 c) = snd (solo ins s a2 c).
  Proof.
    induction ins as [|x rest IH]; intros s a1 a2 c; cbn [solo]; [reflexivity|].
    destruct (step s x) as [[s' o] d]. apply IH.
  Qed.

  Theorem independent_counter : forall sched st outs ctr ids,
    NoDup ids -> (forall e, In e sched -> In (fst e) ids) ->
    snd (run sched st outs ctr) = ctr + sum_over ids (fun i => solo_count i sched st).
  Proof.
    induction sched as [|[j x] rest IH]; intros st outs ctr ids ND Hcov; cbn [run].
    - assert (Z : sum_over ids (fun i => solo_count i [] st) = 0).
      { clear. induction ids as [|i r IHr]; cbn [sum_over]; [reflexivity|]. rewrite IHr. reflexivity. }
      cbn [snd]. rewrite Z. lia.
    - destruct (step (st j) x) as [[s' o] d] eqn:E.
      rewrite (IH (upd st j s') (upd outs j (outs j ++ [o])) (ctr + d) ids ND)
        by (intros e He; apply Hcov; right; exact He).
      assert (Hj : In j ids) by (apply (Hcov (j, x)); left; reflexivity).
      (* only j's solo count changes, by d *)
      assert (G : forall ids', NoDup ids' ->
                  sum_over ids' (fun i => solo_count i ((j, x) :: rest) st) =
                  (if existsb (Nat.eqb j) ids' then d else 0) + sum_over ids' (fun i => solo_count i rest (upd st j s'))).
      { induction ids' as [|i r IHr]; intros ND'; cbn [sum_over existsb]; [reflexivity|].
        inversion ND' as [|? ? Hni NDr]; subst. rewrite (IHr NDr).
        unfold solo_count at 1 3. cbn [project filter map fst snd].
        destruct (Nat.eqb_spec j i) as [->|Hne].
        - cbn [map snd solo orb]. rewrite E, upd_same.
          assert (Hex : existsb (Nat.eqb i) r = false).
          { apply Bool.not_true_is_false. intros Hx. apply existsb_exists in Hx. destruct Hx as [k [Hk Ek]].
            apply Nat.eqb_eq in Ek. subst k. contradiction. }
          rewrite Hex. fold (project i rest).
          rewrite (solo_ctr (project i rest) s' ([] ++ [o]) (0 + d)).
          rewrite (solo_count_acc (project i rest) s' ([] ++ [o]) [] 0). lia.
        - rewrite upd_other by (intros ->; contradiction). fold (project i rest). cbn [orb].
          destruct (Nat.eqb_spec j i); [contradiction|]. cbn [orb]. lia. }
      rewrite (G ids ND).
      assert (Hex : existsb (Nat.eqb j) ids = true) by (apply existsb_exists; exists j; split; [exact Hj|apply Nat.eqb_refl]).
      rewrite Hex. lia.
  Qed.
End Interleave.
