(* KeyAgreement.v — C01: the console's handshake (Handshake.new_session)
   against the specification's BMC (SpecBmc.Bmc) over a perfect channel:
   the session opens and both sides hold the same SIK, K1 and K2. *)
From BMC Require Import Base BaseFacts Prim Layers Layers2 SpecLayers Serialize SpecRequests Packet Conn Hmac Md5 Sha1 Sha256
     Handshake HandshakeProofs ChannelFacts SpecBmc RoundTrip2 RequestProofs.
From Coq Require Import ZifyN ZifyNat ZifyBool.
Ltac Zify.zify_post_hook ::= Z.div_mod_to_equations.

(* ---------- small facts ---------- *)
Lemma fits_true w x : x < 2 ^ w -> fits w x = true.
Proof. intros H. unfold fits. apply N.ltb_lt. exact H. Qed.

Lemma payload_packet_ok ptype p : exists pkt, payload_packet ptype p = Ok pkt.
Proof. unfold payload_packet, ser_v2session, ser_rmcp. cbn -[put_le32 put_le16 v2_flags u16 u8 N.lor N.shiftl]. eauto. Qed.

Lemma exchange_one (ptype : N) (p pkt d r : bytes) (which : nat) :
  payload_packet ptype p = Ok pkt -> payload_verdict d = PAccept r ->
  exchange ptype (Ok p) [Some d] which = ([pkt], inl r).
Proof. intros Hp Hv. unfold exchange. rewrite Hp. cbn [payload_loop]. rewrite Hv. reflexivity. Qed.

Lemma role_byte_eq priv (lookup : bool) : priv < 16 ->
  N.lor (u8 priv) (if lookup then 0 else 16) = 16 * (if lookup then 0 else 1) + priv.
Proof.
  intros H.
  assert (S : forallb (fun p => (N.lor (u8 p) 0 =? p) && (N.lor (u8 p) 16 =? 16 + p)) (N_seq 16) = true) by (vm_cast_no_check (eq_refl true)).
  pose proof (sweep_n 16 _ S priv H) as P. apply andb_true_iff in P. destruct P as [P0 P1]. apply N.eqb_eq in P0, P1.
  destruct lookup; [rewrite P0|rewrite P1]; lia.
Qed.

Lemma pad20_hmac h k m : (length k <= 20)%nat -> hmac_alg h (Bmc.pad20 k) m = hmac_alg h k m.
Proof. intros H. unfold hmac_alg, Bmc.pad20. apply hmac_zero_pad. lia. Qed.

Lemma hmac_length h k m : length (hmac_alg h k m) = match h with 1 => 20%nat | 2 => 16%nat | 3 => 32%nat | _ => 0%nat end.
Proof.
  unfold hmac_alg, hmac, hash_of.
  destruct h as [|[[|[]|]|[|[]|]|]]; try reflexivity; [apply sha256_length|apply md5_length|apply sha1_length].
Qed.

(* ---------- the three replies of the specification's BMC decode to what it meant ---------- *)
Lemma bmc_osr_decodes old mp cid bid a i c :
  mp < 256 -> cid < 4294967296 -> bid < 4294967296 -> a < 64 -> i < 64 -> c < 64 ->
  decode_opensessionrsp old ([0; 0; mp; 0] ++ put_le32 cid ++ put_le32 bid
                             ++ [0; 0; 0; 8; a; 0; 0; 0] ++ [1; 0; 0; 8; i; 0; 0; 0] ++ [2; 0; 0; 8; c; 0; 0; 0]) =
  Ok {| os_tag := 0; os_status := 0; os_maxpriv := mp; os_console_id := cid; os_bmc_id := bid;
        os_auth := {| ap_wildcard := false; ap_alg := a |}; os_integ := {| ap_wildcard := false; ap_alg := i |};
        os_conf := {| ap_wildcard := false; ap_alg := c |} |}.
Proof.
  intros Hm Hc Hb Ha Hi Hcf. apply opensessionrsp_roundtrip_success.
  unfold SpecEnc.opensessionrsp, opt. cbn [os_tag os_status os_maxpriv os_console_id os_bmc_id os_auth os_integ os_conf ap_wildcard ap_alg].
  rewrite !fits_true by (cbn; lia). cbn [N.eqb negb andb orb]. reflexivity.
Qed.

Lemma slice_from_app_len (pre p : bytes) : slice_from (length pre) (pre ++ p) = Ok p.
Proof.
  unfold slice_from. rewrite app_length. destruct (Nat.leb_spec (length pre) (length pre + length p)); [|lia].
  rewrite skipn_app, skipn_all, Nat.sub_diag. reflexivity.
Qed.

Lemma bmc_rakp2_decodes old cid rc guid code :
  cid < 4294967296 -> length rc = 16%nat -> length guid = 16%nat ->
  decode_rakp2 old ([0; 0; 0; 0] ++ put_le32 cid ++ rc ++ guid ++ code) =
  Ok {| r2_tag := 0; r2_status := 0; r2_console_id := cid; r2_random := rc; r2_guid := guid; r2_authcode := code |}.
Proof.
  intros Hc Hr Hg. unfold decode_rakp2, guard, put_le32. cbn [app].
  set (hdr := [0; 0; 0; 0; cid mod 256; (cid / 256) mod 256; (cid / 65536) mod 256; (cid / 16777216) mod 256]).
  change (0 :: 0 :: 0 :: 0 :: cid mod 256 :: (cid / 256) mod 256 :: (cid / 65536) mod 256 :: (cid / 16777216) mod 256 :: rc ++ guid ++ code)
    with (hdr ++ rc ++ guid ++ code).
  assert (Hh : length hdr = 8%nat) by reflexivity.
  assert (Hl : length (hdr ++ rc ++ guid ++ code) = (40 + length code)%nat) by (rewrite !app_length, Hh, Hr, Hg; lia).
  rewrite Hl. set (L := (40 + length code)%nat) in *. destruct (Nat.ltb_spec L 8); [lia|].
  assert (G : forall i, (i < 8)%nat -> get i (hdr ++ rc ++ guid ++ code) = get i hdr) by (intros; apply get_app_l; lia).
  unfold get_le32. rewrite !G by lia. subst hdr. cbn [get nth_error bind N.eqb Nat.add].
  rewrite (le32_put cid Hc). destruct (Nat.ltb_spec L 40); [lia|].
  set (hdr := [0; 0; 0; 0; cid mod 256; (cid / 256) mod 256; (cid / 65536) mod 256; (cid / 16777216) mod 256]) in *.
  pose proof (slice_app_mid hdr rc (guid ++ code)) as S1. rewrite Hh, Hr in S1. cbn [Nat.add] in S1. rewrite S1. cbn [bind].
  pose proof (slice_app_mid (hdr ++ rc) guid code) as S2. rewrite app_length, Hh, Hr, Hg in S2. cbn [Nat.add] in S2.
  rewrite <- app_assoc in S2. rewrite S2. cbn [bind].
  destruct (Nat.ltb_spec 40 L) as [Hlt|Hge].
  - pose proof (slice_from_app_len (hdr ++ rc ++ guid) code) as S3. rewrite !app_length, Hh, Hr, Hg in S3. cbn [Nat.add] in S3.
    rewrite <- !app_assoc in S3. rewrite S3. reflexivity.
  - destruct code; [reflexivity|subst L; cbn [length] in Hge; lia].
Qed.

Lemma bmc_rakp4_decodes old cid icv :
  cid < 4294967296 ->
  decode_rakp4 old ([0; 0; 0; 0] ++ put_le32 cid ++ icv) =
  Ok {| r4_tag := 0; r4_status := 0; r4_console_id := cid; r4_icv := icv |}.
Proof.
  intros Hc. unfold decode_rakp4, guard, put_le32. cbn [app].
  set (hdr := [0; 0; 0; 0; cid mod 256; (cid / 256) mod 256; (cid / 65536) mod 256; (cid / 16777216) mod 256]).
  change (0 :: 0 :: 0 :: 0 :: cid mod 256 :: (cid / 256) mod 256 :: (cid / 65536) mod 256 :: (cid / 16777216) mod 256 :: icv)
    with (hdr ++ icv).
  assert (Hh : length hdr = 8%nat) by reflexivity.
  rewrite app_length, Hh. set (L := (8 + length icv)%nat) in *. destruct (Nat.ltb_spec L 8); [lia|].
  assert (G : forall i, (i < 8)%nat -> get i (hdr ++ icv) = get i hdr) by (intros; apply get_app_l; lia).
  unfold get_le32. rewrite !G by lia. subst hdr. cbn [get nth_error bind N.eqb andb Nat.add].
  rewrite (le32_put cid Hc).
  set (hdr := [0; 0; 0; 0; cid mod 256; (cid / 256) mod 256; (cid / 65536) mod 256; (cid / 16777216) mod 256]) in *.
  destruct (Nat.ltb_spec 8 L) as [Hlt|Hge].
  - pose proof (slice_from_app_len hdr icv) as S3. rewrite Hh in S3. rewrite S3. reflexivity.
  - destruct icv; [reflexivity|subst L; cbn [length] in Hge; lia].
Qed.

(* ---------- the run over a perfect channel ---------- *)
Section Agreement.
  Variables (o : session_opts) (s : suite) (random rc : bytes) (new_id : N).
  Variable cfg : Bmc.config.
  Variable supported : N -> N -> N -> bool.
  Variable pwb : bytes.      (* the key the BMC stores for the user *)

  Definition role_of : N := 16 * (if so_lookup o then 0 else 1) + so_priv o.

  Hypothesis Hauth : In (su_auth s) [1; 2; 3].
  Hypothesis Hinteg : In (su_integ s) [1; 2; 4].
  Hypothesis Hconf : su_conf s = 1.
  Hypothesis Hsup : supported (su_auth s) (su_integ s) (su_conf s) = true.
  Hypothesis Hpriv : so_priv o < 16.
  Hypothesis Huser : (length (so_user o) <= 16)%nat.
  Hypothesis Hrandom : length random = 16%nat.
  Hypothesis Hrc : length rc = 16%nat.
  Hypothesis Hguid : length (Bmc.guid cfg) = 16%nat.
  Hypothesis Hid : new_id < 4294967296.
  Hypothesis Hfind : Bmc.find_user cfg role_of (so_user o) = Some pwb.
  (* the BMC's stored key is the caller's password up to zero padding to 20 bytes *)
  Hypothesis Hpw : Bmc.pad20 pwb = Bmc.pad20 (so_password o).
  Hypothesis Hpwlen : (length pwb <= 20)%nat /\ (length (so_password o) <= 20)%nat.
  (* KG: not set on either side, or the same 20 bytes on both *)
  Hypothesis Hkg : Bmc.kg cfg = so_kg o /\ (so_kg o = [] \/ length (so_kg o) = 20%nat).

  Let a := su_auth s.
  Let user := [role_of; N.of_nat (length (so_user o))] ++ so_user o.

  Definition rsp0 : opensessionrsp :=
    {| os_tag := 0; os_status := 0; os_maxpriv := so_priv o; os_console_id := 1; os_bmc_id := new_id;
       os_auth := {| ap_wildcard := false; ap_alg := su_auth s |}; os_integ := {| ap_wildcard := false; ap_alg := su_integ s |};
       os_conf := {| ap_wildcard := false; ap_alg := su_conf s |} |}.
  Definition m1 : rakp1 := rakp1_request o rsp0 random.
  Definition code2 : bytes :=
    hmac_alg a (Bmc.pad20 pwb) (put_le32 1 ++ put_le32 new_id ++ random ++ rc ++ Bmc.guid cfg ++ user).
  Definition m2 : rakp2 :=
    {| r2_tag := 0; r2_status := 0; r2_console_id := 1; r2_random := rc; r2_guid := Bmc.guid cfg; r2_authcode := code2 |}.

  Lemma auth_small : a < 64 /\ su_integ s < 64 /\ su_conf s < 64.
  Proof. unfold a. rewrite Hconf. destruct Hauth as [<-|[<-|[<-|[]]]], Hinteg as [<-|[<-|[<-|[]]]]; repeat split; lia. Qed.

  Lemma auth_params_a : exists icvlen, auth_params a = Some (a, icvlen) /\
                                        icvlen = match a with 1 => 12%nat | 2 => 0%nat | _ => 16%nat end.
  Proof. unfold a. destruct Hauth as [<-|[<-|[<-|[]]]]; eexists; split; reflexivity. Qed.

  Lemma user_part_eq : user_part m1 = user.
  Proof.
    unfold user_part, m1, rakp1_request, hashed_role, user, role_of. cbn [r1_maxpriv r1_lookup r1_username].
    rewrite role_byte_eq by exact Hpriv. unfold u8. rewrite N.mod_small by lia. reflexivity.
  Qed.

  (* the byte strings both sides put under the HMACs are equal *)
  Lemma code2_input_eq : rakp2_authcode_input m1 m2 = put_le32 1 ++ put_le32 new_id ++ random ++ rc ++ Bmc.guid cfg ++ user.
  Proof. unfold rakp2_authcode_input. rewrite user_part_eq. reflexivity. Qed.
  Lemma code3_input_eq : rakp3_authcode_input m1 m2 = rc ++ put_le32 1 ++ user.
  Proof. unfold rakp3_authcode_input. rewrite user_part_eq. reflexivity. Qed.
  Lemma sik_input_eq : sik_input m1 m2 = random ++ rc ++ user.
  Proof. unfold sik_input. rewrite user_part_eq. reflexivity. Qed.
  Lemma icv_input_eq : icv_input m1 m2 = random ++ put_le32 new_id ++ Bmc.guid cfg.
  Proof. reflexivity. Qed.

  Lemma pw_key h m : hmac_alg h (Bmc.pad20 pwb) m = hmac_alg h (so_password o) m.
  Proof. rewrite Hpw. apply pad20_hmac. apply Hpwlen. Qed.

  (* the SIK key: KG if set (20 bytes: padding is the identity), else the user key *)
  Lemma kg_key h m :
    hmac_alg h (match Bmc.kg cfg with [] => Bmc.pad20 pwb | k => Bmc.pad20 k end) m =
    hmac_alg h (if Nat.eqb (length (so_kg o)) 0 then so_password o else so_kg o) m.
  Proof.
    destruct Hkg as [E [K|K]]; rewrite E.
    - rewrite K. cbn [length Nat.eqb]. apply pw_key.
    - destruct (so_kg o) as [|k0 kr] eqn:Ek; [discriminate|]. rewrite <- Ek in *.
      replace (Nat.eqb (length (so_kg o)) 0) with false by (rewrite K; reflexivity).
      rewrite Ek. rewrite <- Ek. apply pad20_hmac. lia.
  Qed.

  Definition sik0 : bytes := hmac_alg a (match Bmc.kg cfg with [] => Bmc.pad20 pwb | k => Bmc.pad20 k end) (random ++ rc ++ user).
  Definition icv0 : bytes := firstn (Bmc.icv_len a) (hmac_alg a sik0 (random ++ put_le32 new_id ++ Bmc.guid cfg)).

  Lemma icv_console_eq icvlen : auth_params a = Some (a, icvlen) ->
    icv_of a icvlen sik0 m1 m2 = icv0.
  Proof.
    intros AP. unfold icv_of, icv0. rewrite icv_input_eq. unfold a in *.
    destruct Hauth as [E|[E|[E|[]]]]; rewrite <- E in *; cbn in AP; injection AP as <-; cbn [Nat.eqb Bmc.icv_len]; try reflexivity.
    (* MD5: untruncated = first 16 of a 16-byte digest *)
    symmetry. apply firstn_all2. rewrite hmac_length. lia.
  Qed.

  Theorem key_agreement :
    exists q1 r1 pend d1 q2 r2 half d2 q3 r4 act d3 sent e k1 k2 k3,
      (* the three datagrams the console transmits carry exactly the payloads the BMC processes *)
      payload_packet 0x10 q1 = Ok k1 /\ payload_packet 0x12 q2 = Ok k2 /\ payload_packet 0x14 q3 = Ok k3 /\
      sent = [k1; k2; k3] /\
      ser_opensessionreq (open_request o s) [] = Ok q1 /\
      Bmc.open_session supported q1 new_id = Some (r1, Some pend) /\ payload_packet 0x11 r1 = Ok d1 /\
      ser_rakp1 m1 [] = Ok q2 /\
      Bmc.rakp1 cfg pend q2 rc = Some (r2, Some half) /\ payload_packet 0x13 r2 = Ok d2 /\
      Bmc.rakp3 cfg half q3 = Some (r4, Some act) /\ payload_packet 0x15 r4 = Ok d3 /\
      new_session o s random [Some d1] [Some d2] [Some d3] = (sent, inl e) /\
      es_sik e = Bmc.a_sik act /\ es_k1 e = Bmc.a_k1 act /\ es_k2 e = Bmc.a_k2 act /\
      es_remote_id e = Bmc.a_bmc_id act /\ es_local_id e = Bmc.a_console_id act /\
      es_suite e = s /\ Bmc.a_integ act = su_integ s /\ Bmc.a_conf act = su_conf s /\
      Bmc.a_bmc_id act = new_id /\ es_aes_key e = aes_key_of (es_k2 e).
  Proof.
    destruct auth_small as [Ha [Hi Hc]]. destruct auth_params_a as [icvlen [AP Eicv]].
    (* 1. Open Session *)
    assert (Q1 : exists q1, ser_opensessionreq (open_request o s) [] = Ok q1) by (unfold ser_opensessionreq; eauto).
    destruct Q1 as [q1 Q1].
    assert (P1 : SpecParse.open_session_request q1 = Some (open_request o s)).
    { apply open_request_roundtrip; cbn [open_request oq_tag oq_maxpriv oq_id oq_auth oq_integ oq_conf ap_wildcard ap_alg]; auto; lia. }
    set (r1 := [0; 0; so_priv o; 0] ++ put_le32 1 ++ put_le32 new_id
               ++ [0; 0; 0; 8; su_auth s; 0; 0; 0] ++ [1; 0; 0; 8; su_integ s; 0; 0; 0] ++ [2; 0; 0; 8; su_conf s; 0; 0; 0]).
    set (pend := {| Bmc.p_console_id := 1; Bmc.p_bmc_id := new_id; Bmc.p_auth := su_auth s; Bmc.p_integ := su_integ s; Bmc.p_conf := su_conf s |}).
    assert (B1 : Bmc.open_session supported q1 new_id = Some (r1, Some pend)).
    { unfold Bmc.open_session. rewrite P1. cbn [open_request oq_tag oq_maxpriv oq_id oq_auth oq_integ oq_conf ap_alg]. rewrite Hsup. reflexivity. }
    assert (L1 : N.of_nat (length r1) < 65536) by (subst r1; unfold put_le32; cbn [app length]; lia).
    destruct (setup_payload_accepted 0x11 r1 ltac:(simpl; tauto) L1) as [d1 [D1 V1]].
    assert (R1 : decode_opensessionrsp opensessionrsp_zero r1 = Ok rsp0).
    { subst r1. apply bmc_osr_decodes; try lia. }
    (* 2. RAKP 1 / 2 *)
    assert (Q2 : exists q2, ser_rakp1 m1 [] = Ok q2).
    { unfold ser_rakp1, m1, rakp1_request. cbn [r1_username]. destruct (Nat.ltb_spec 16 (length (so_user o))); [lia|]. eauto. }
    destruct Q2 as [q2 Q2].
    assert (P2 : SpecParse.rakp_message_1 q2 = Some m1).
    { apply rakp1_roundtrip; unfold m1, rakp1_request; cbn [r1_tag r1_maxpriv r1_bmc_id r1_random r1_username os_bmc_id rsp0]; auto; lia. }
    set (r2 := [0; 0; 0; 0] ++ put_le32 1 ++ rc ++ Bmc.guid cfg ++ code2).
    set (half := {| Bmc.h_pending := pend; Bmc.h_rm := random; Bmc.h_rc := rc; Bmc.h_role := role_of;
                    Bmc.h_name := so_user o; Bmc.h_kuid := Bmc.pad20 pwb |}).
    assert (B2 : Bmc.rakp1 cfg pend q2 rc = Some (r2, Some half)).
    { unfold Bmc.rakp1. rewrite P2. unfold m1, rakp1_request. cbn [r1_bmc_id r1_lookup r1_maxpriv r1_username r1_random r1_tag os_bmc_id rsp0 Bmc.p_bmc_id pend].
      rewrite N.eqb_refl. cbn [negb]. fold role_of. rewrite Hfind. reflexivity. }
    assert (L2 : N.of_nat (length r2) < 65536).
    { subst r2. unfold put_le32. rewrite !app_length. cbn [length]. rewrite Hrc, Hguid. unfold code2. rewrite hmac_length.
      unfold a. destruct Hauth as [E|[E|[E|[]]]]; rewrite <- E; lia. }
    destruct (setup_payload_accepted 0x13 r2 ltac:(simpl; tauto) L2) as [d2 [D2 V2]].
    assert (R2 : decode_rakp2 rakp2_zero r2 = Ok m2) by (subst r2; apply bmc_rakp2_decodes; auto; lia).
    (* 3. RAKP 3 / 4 *)
    set (m3 := {| r3_tag := 0; r3_status := 0; r3_bmc_id := new_id;
                  r3_authcode := hmac_alg a (so_password o) (rakp3_authcode_input m1 m2) |}).
    assert (Q3 : exists q3, ser_rakp3 m3 [] = Ok q3) by (unfold ser_rakp3; eauto). destruct Q3 as [q3 Q3].
    assert (P3 : SpecParse.rakp_message_3 q3 = Some m3).
    { apply rakp3_roundtrip; cbn [m3 r3_tag r3_status r3_bmc_id r3_authcode]; auto; lia. }
    set (act := {| Bmc.a_console_id := 1; Bmc.a_bmc_id := new_id; Bmc.a_integ := su_integ s; Bmc.a_conf := su_conf s;
                   Bmc.a_sik := sik0; Bmc.a_k1 := hmac_alg a sik0 (repeat 1 20); Bmc.a_k2 := hmac_alg a sik0 (repeat 2 20) |}).
    set (r4 := [0; 0; 0; 0] ++ put_le32 1 ++ icv0).
    assert (B3 : Bmc.rakp3 cfg half q3 = Some (r4, Some act)).
    { unfold Bmc.rakp3. rewrite P3. cbn [Bmc.h_pending half m3 r3_status r3_authcode r3_tag Bmc.h_role Bmc.h_name Bmc.h_kuid Bmc.h_rc Bmc.h_rm
                                         Bmc.p_auth Bmc.p_console_id Bmc.p_bmc_id Bmc.p_integ Bmc.p_conf pend N.eqb negb].
      fold a. fold user. rewrite code3_input_eq, <- pw_key.
      destruct (list_eq_dec N.eq_dec (hmac_alg a (Bmc.pad20 pwb) (rc ++ put_le32 1 ++ user))
                                     (hmac_alg a (Bmc.pad20 pwb) (rc ++ put_le32 1 ++ user))) as [_|N]; [|contradiction].
      cbn [negb]. reflexivity. }
    assert (L4 : N.of_nat (length r4) < 65536).
    { subst r4. unfold put_le32. rewrite !app_length. cbn [length]. unfold icv0. rewrite firstn_length. 
      pose proof (Nat.le_min_l (Bmc.icv_len a) (length (hmac_alg a sik0 (random ++ put_le32 new_id ++ Bmc.guid cfg)))) as M.
      assert (Bmc.icv_len a <= 16)%nat by (unfold Bmc.icv_len, a; destruct Hauth as [E|[E|[E|[]]]]; rewrite <- E; lia). lia. }
    destruct (setup_payload_accepted 0x15 r4 ltac:(simpl; tauto) L4) as [d3 [D3 V3]].
    assert (R4 : decode_rakp4 rakp4_zero r4 = Ok {| r4_tag := 0; r4_status := 0; r4_console_id := 1; r4_icv := icv0 |})
      by (subst r4; apply bmc_rakp4_decodes; lia).
    (* 4. the console's run *)
    destruct (payload_packet_ok 0x10 q1) as [k1 K1]. destruct (payload_packet_ok 0x12 q2) as [k2 K2].
    destruct (payload_packet_ok 0x14 q3) as [k3 K3].
    assert (IS : exists sg, integrity_sign (su_integ s) (hmac_alg a sik0 (k_const 1)) = Some sg).
    { unfold integrity_sign, integrity_params. destruct Hinteg as [<-|[<-|[<-|[]]]]; eauto. }
    destruct IS as [sg IS].
    assert (I0 : (su_integ s =? 0) = false) by (destruct Hinteg as [<-|[<-|[<-|[]]]]; reflexivity).
    set (e := {| es_local_id := 1; es_remote_id := new_id; es_sik := sik0; es_k1 := hmac_alg a sik0 (k_const 1);
                 es_k2 := hmac_alg a sik0 (k_const 2); es_suite := s; es_aes_key := aes_key_of (hmac_alg a sik0 (k_const 2)) |}).
    exists q1, r1, pend, d1, q2, r2, half, d2, q3, r4, act, d3, ([k1] ++ [k2] ++ [k3]), e, k1, k2, k3.
    repeat split; auto.
    unfold new_session. rewrite Q1, (exchange_one _ _ _ _ _ _ K1 V1), R1.
    cbn [os_tag os_status os_auth os_integ os_conf ap_alg rsp0 N.eqb negb].
    assert (SE : suite_eqb {| su_auth := su_auth s; su_integ := su_integ s; su_conf := su_conf s |} s = true)
      by (unfold suite_eqb; cbn [su_auth su_integ su_conf]; rewrite !N.eqb_refl; reflexivity).
    rewrite SE. cbn [negb]. fold m1. rewrite Q2, (exchange_one _ _ _ _ _ _ K2 V2), R2.
    cbn [r2_tag r2_status m2 N.eqb negb]. fold a. rewrite AP.
    assert (C2 : bytes_eqb (r2_authcode m2) (hmac_alg a (so_password o) (rakp2_authcode_input m1 m2)) = true).
    { unfold bytes_eqb. cbn [r2_authcode m2]. unfold code2. rewrite code2_input_eq, pw_key.
      destruct (list_eq_dec N.eq_dec _ _) as [_|N]; [reflexivity|contradiction]. }
    fold m2. rewrite C2. cbn [negb]. cbn [os_bmc_id rsp0]. fold m3. rewrite Q3, (exchange_one _ _ _ _ _ _ K3 V3), R4.
    cbn [r4_tag r4_status r4_icv N.eqb negb].
    assert (SK : hmac_alg a (if Nat.eqb (length (so_kg o)) 0 then so_password o else so_kg o) (sik_input m1 m2) = sik0).
    { unfold sik0. rewrite sik_input_eq, kg_key. reflexivity. }
    rewrite SK. fold (icv_of a icvlen sik0 m1 m2). rewrite (icv_console_eq icvlen AP).
    assert (C4 : bytes_eqb icv0 icv0 = true) by (unfold bytes_eqb; destruct (list_eq_dec N.eq_dec icv0 icv0); [reflexivity|contradiction]).
    rewrite C4. cbn [negb]. rewrite IS, I0, Hconf. cbn [N.eqb Pos.eqb negb os_console_id os_bmc_id rsp0]. reflexivity.
  Qed.
End Agreement.
