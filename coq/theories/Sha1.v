(* Executable model of SHA-1 (FIPS 180-4).
   Bytes and 32-bit words are [N]; byte strings are [list N]. *)

From Coq Require Import List NArith Lia.
Import ListNotations.
From BMC Require Import Word.
Local Open Scope N_scope.

(* a, b, c, d, e *)
Definition sha1_state : Type := (N * N * N * N * N)%type.

Definition sha1_H0 : sha1_state :=
  (0x67452301, 0xefcdab89, 0x98badcfe, 0x10325476, 0xc3d2e1f0).

(* Stage (t / 20) of each of the 80 rounds. *)
Definition sha1_stages : list N :=
  repeat 0 20 ++ repeat 1 20 ++ repeat 2 20 ++ repeat 3 20.

Definition sha1_f (stage b c d : N) : N :=
  match stage with
  | 0 => N.lxor (N.land b c) (N.land (not32 b) d)
  | 2 => N.lxor (N.lxor (N.land b c) (N.land b d)) (N.land c d)
  | _ => N.lxor (N.lxor b c) d
  end.

Definition sha1_k (stage : N) : N :=
  match stage with
  | 0 => 0x5a827999
  | 1 => 0x6ed9eba1
  | 2 => 0x8f1bbcdc
  | _ => 0xca62c1d6
  end.

(* The message schedule is kept as a sliding 16-word window: at round t the
   window is W[t..t+15] (so its head is W[t]); each sha1_round drops the head and
   appends W[t+16] = rotl1 (W[t+13] ^ W[t+8] ^ W[t+2] ^ W[t]). *)
Definition sha1_sched_next (w : list N) : N :=
  rotl32 (N.lxor (N.lxor (nth 13 w 0) (nth 8 w 0))
                 (N.lxor (nth 2 w 0) (nth 0 w 0))) 1.

Definition sha1_round (sw : sha1_state * list N) (stage : N) : sha1_state * list N :=
  let '(a, b, c, d, e, w) := sw in
  let t := w32 (rotl32 a 5 + sha1_f stage b c d + e + sha1_k stage + hd 0 w) in
  (t, a, rotl32 b 30, c, d, tl w ++ [sha1_sched_next w]).

(* [blk] : 64 bytes *)
Definition sha1_compress (H : sha1_state) (blk : list N) : sha1_state :=
  let '(a, b, c, d, e) := H in
  let '(a', b', c', d', e', _) :=
    fold_left sha1_round sha1_stages (H, be_words blk) in
  (add32 a a', add32 b b', add32 c c', add32 d d', add32 e e').

Definition sha1_digest_of_state (s : sha1_state) : list N :=
  let '(a, b, c, d, e) := s in
  be_bytes32 a ++ be_bytes32 b ++ be_bytes32 c ++ be_bytes32 d ++
  be_bytes32 e.

Definition sha1 (m : list N) : list N :=
  sha1_digest_of_state
    (fold_left sha1_compress (chunks 64 (md_pad be_bytes64 m)) sha1_H0).

Lemma sha1_digest_of_state_length : forall s, length (sha1_digest_of_state s) = 20%nat.
Proof.
  intros [[[[a b] c] d] e]. reflexivity.
Qed.

Lemma sha1_length : forall m, length (sha1 m) = 20%nat.
Proof.
  intros m. unfold sha1. apply sha1_digest_of_state_length.
Qed.

(* ------------------------------------------------------------------ *)
(* Test vectors                                                        *)
(* ------------------------------------------------------------------ *)

From Coq Require Import String.
Import TestUtil.

Example sha1_empty :
  sha1 [] = bytes_of_hex "da39a3ee5e6b4b0d3255bfef95601890afd80709".
Proof. vm_compute; reflexivity. Qed.

Example sha1_abc :
  sha1 (bytes_of_string "abc")
  = bytes_of_hex "a9993e364706816aba3e25717850c26c9cd0d89d".
Proof. vm_compute; reflexivity. Qed.

Example sha1_two_blocks :
  sha1 (bytes_of_string
          "abcdbcdecdefdefgefghfghighijhijkijkljklmklmnlmnomnopnopq")
  = bytes_of_hex "84983e441c3bd26ebaae4aa1f95129e5e54670f1".
Proof. vm_compute; reflexivity. Qed.
