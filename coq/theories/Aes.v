(* Executable model of AES-128 single-block encryption and decryption
   (FIPS 197).  A byte is an [N] (< 256).  Keys, blocks, round keys and the
   cipher state are 16-element [list N] in FIPS-197 input order, i.e.
   column-major: state byte (row r, column c) is element r + 4c. *)

From Coq Require Import List NArith Lia.
Import ListNotations.
Local Open Scope N_scope.

Definition sbox : list N :=
  [
   0x63; 0x7c; 0x77; 0x7b; 0xf2; 0x6b; 0x6f; 0xc5; 0x30; 0x01; 0x67; 0x2b; 0xfe; 0xd7; 0xab; 0x76;
   0xca; 0x82; 0xc9; 0x7d; 0xfa; 0x59; 0x47; 0xf0; 0xad; 0xd4; 0xa2; 0xaf; 0x9c; 0xa4; 0x72; 0xc0;
   0xb7; 0xfd; 0x93; 0x26; 0x36; 0x3f; 0xf7; 0xcc; 0x34; 0xa5; 0xe5; 0xf1; 0x71; 0xd8; 0x31; 0x15;
   0x04; 0xc7; 0x23; 0xc3; 0x18; 0x96; 0x05; 0x9a; 0x07; 0x12; 0x80; 0xe2; 0xeb; 0x27; 0xb2; 0x75;
   0x09; 0x83; 0x2c; 0x1a; 0x1b; 0x6e; 0x5a; 0xa0; 0x52; 0x3b; 0xd6; 0xb3; 0x29; 0xe3; 0x2f; 0x84;
   0x53; 0xd1; 0x00; 0xed; 0x20; 0xfc; 0xb1; 0x5b; 0x6a; 0xcb; 0xbe; 0x39; 0x4a; 0x4c; 0x58; 0xcf;
   0xd0; 0xef; 0xaa; 0xfb; 0x43; 0x4d; 0x33; 0x85; 0x45; 0xf9; 0x02; 0x7f; 0x50; 0x3c; 0x9f; 0xa8;
   0x51; 0xa3; 0x40; 0x8f; 0x92; 0x9d; 0x38; 0xf5; 0xbc; 0xb6; 0xda; 0x21; 0x10; 0xff; 0xf3; 0xd2;
   0xcd; 0x0c; 0x13; 0xec; 0x5f; 0x97; 0x44; 0x17; 0xc4; 0xa7; 0x7e; 0x3d; 0x64; 0x5d; 0x19; 0x73;
   0x60; 0x81; 0x4f; 0xdc; 0x22; 0x2a; 0x90; 0x88; 0x46; 0xee; 0xb8; 0x14; 0xde; 0x5e; 0x0b; 0xdb;
   0xe0; 0x32; 0x3a; 0x0a; 0x49; 0x06; 0x24; 0x5c; 0xc2; 0xd3; 0xac; 0x62; 0x91; 0x95; 0xe4; 0x79;
   0xe7; 0xc8; 0x37; 0x6d; 0x8d; 0xd5; 0x4e; 0xa9; 0x6c; 0x56; 0xf4; 0xea; 0x65; 0x7a; 0xae; 0x08;
   0xba; 0x78; 0x25; 0x2e; 0x1c; 0xa6; 0xb4; 0xc6; 0xe8; 0xdd; 0x74; 0x1f; 0x4b; 0xbd; 0x8b; 0x8a;
   0x70; 0x3e; 0xb5; 0x66; 0x48; 0x03; 0xf6; 0x0e; 0x61; 0x35; 0x57; 0xb9; 0x86; 0xc1; 0x1d; 0x9e;
   0xe1; 0xf8; 0x98; 0x11; 0x69; 0xd9; 0x8e; 0x94; 0x9b; 0x1e; 0x87; 0xe9; 0xce; 0x55; 0x28; 0xdf;
   0x8c; 0xa1; 0x89; 0x0d; 0xbf; 0xe6; 0x42; 0x68; 0x41; 0x99; 0x2d; 0x0f; 0xb0; 0x54; 0xbb; 0x16
  ].

Definition inv_sbox : list N :=
  [
   0x52; 0x09; 0x6a; 0xd5; 0x30; 0x36; 0xa5; 0x38; 0xbf; 0x40; 0xa3; 0x9e; 0x81; 0xf3; 0xd7; 0xfb;
   0x7c; 0xe3; 0x39; 0x82; 0x9b; 0x2f; 0xff; 0x87; 0x34; 0x8e; 0x43; 0x44; 0xc4; 0xde; 0xe9; 0xcb;
   0x54; 0x7b; 0x94; 0x32; 0xa6; 0xc2; 0x23; 0x3d; 0xee; 0x4c; 0x95; 0x0b; 0x42; 0xfa; 0xc3; 0x4e;
   0x08; 0x2e; 0xa1; 0x66; 0x28; 0xd9; 0x24; 0xb2; 0x76; 0x5b; 0xa2; 0x49; 0x6d; 0x8b; 0xd1; 0x25;
   0x72; 0xf8; 0xf6; 0x64; 0x86; 0x68; 0x98; 0x16; 0xd4; 0xa4; 0x5c; 0xcc; 0x5d; 0x65; 0xb6; 0x92;
   0x6c; 0x70; 0x48; 0x50; 0xfd; 0xed; 0xb9; 0xda; 0x5e; 0x15; 0x46; 0x57; 0xa7; 0x8d; 0x9d; 0x84;
   0x90; 0xd8; 0xab; 0x00; 0x8c; 0xbc; 0xd3; 0x0a; 0xf7; 0xe4; 0x58; 0x05; 0xb8; 0xb3; 0x45; 0x06;
   0xd0; 0x2c; 0x1e; 0x8f; 0xca; 0x3f; 0x0f; 0x02; 0xc1; 0xaf; 0xbd; 0x03; 0x01; 0x13; 0x8a; 0x6b;
   0x3a; 0x91; 0x11; 0x41; 0x4f; 0x67; 0xdc; 0xea; 0x97; 0xf2; 0xcf; 0xce; 0xf0; 0xb4; 0xe6; 0x73;
   0x96; 0xac; 0x74; 0x22; 0xe7; 0xad; 0x35; 0x85; 0xe2; 0xf9; 0x37; 0xe8; 0x1c; 0x75; 0xdf; 0x6e;
   0x47; 0xf1; 0x1a; 0x71; 0x1d; 0x29; 0xc5; 0x89; 0x6f; 0xb7; 0x62; 0x0e; 0xaa; 0x18; 0xbe; 0x1b;
   0xfc; 0x56; 0x3e; 0x4b; 0xc6; 0xd2; 0x79; 0x20; 0x9a; 0xdb; 0xc0; 0xfe; 0x78; 0xcd; 0x5a; 0xf4;
   0x1f; 0xdd; 0xa8; 0x33; 0x88; 0x07; 0xc7; 0x31; 0xb1; 0x12; 0x10; 0x59; 0x27; 0x80; 0xec; 0x5f;
   0x60; 0x51; 0x7f; 0xa9; 0x19; 0xb5; 0x4a; 0x0d; 0x2d; 0xe5; 0x7a; 0x9f; 0x93; 0xc9; 0x9c; 0xef;
   0xa0; 0xe0; 0x3b; 0x4d; 0xae; 0x2a; 0xf5; 0xb0; 0xc8; 0xeb; 0xbb; 0x3c; 0x83; 0x53; 0x99; 0x61;
   0x17; 0x2b; 0x04; 0x7e; 0xba; 0x77; 0xd6; 0x26; 0xe1; 0x69; 0x14; 0x63; 0x55; 0x21; 0x0c; 0x7d
  ].

Definition rcon : list N :=
  [0x01; 0x02; 0x04; 0x08; 0x10; 0x20; 0x40; 0x80; 0x1b; 0x36].

Definition sub_byte (b : N) : N := nth (N.to_nat b) sbox 0.
Definition inv_sub_byte (b : N) : N := nth (N.to_nat b) inv_sbox 0.

Definition sub_bytes (st : list N) : list N := map sub_byte st.
Definition inv_sub_bytes (st : list N) : list N := map inv_sub_byte st.

(* new[i] = old[idx[i]] *)
Definition permute (idx : list nat) (st : list N) : list N :=
  map (fun j => nth j st 0) idx.

(* new (r, c) = old (r, c + r mod 4) *)
Definition shift_rows_idx : list nat :=
  [0; 5; 10; 15; 4; 9; 14; 3; 8; 13; 2; 7; 12; 1; 6; 11]%nat.

(* new (r, c) = old (r, c - r mod 4) *)
Definition inv_shift_rows_idx : list nat :=
  [0; 13; 10; 7; 4; 1; 14; 11; 8; 5; 2; 15; 12; 9; 6; 3]%nat.

Definition shift_rows : list N -> list N := permute shift_rows_idx.
Definition inv_shift_rows : list N -> list N := permute inv_shift_rows_idx.

(* multiplication by x in GF(2^8) modulo x^8 + x^4 + x^3 + x + 1 *)
Definition xtime (b : N) : N :=
  let y := N.shiftl b 1 in
  if 0x100 <=? y then N.lxor y 0x11b else y.

Definition xor3 (a b c : N) : N := N.lxor (N.lxor a b) c.
Definition xor4 (a b c d : N) : N := N.lxor (N.lxor a b) (N.lxor c d).

Definition mul2 (b : N) : N := xtime b.
Definition mul3 (b : N) : N := N.lxor (xtime b) b.

Fixpoint mix_columns (st : list N) : list N :=
  match st with
  | a0 :: a1 :: a2 :: a3 :: r =>
      xor4 (mul2 a0) (mul3 a1) a2 a3 ::
      xor4 a0 (mul2 a1) (mul3 a2) a3 ::
      xor4 a0 a1 (mul2 a2) (mul3 a3) ::
      xor4 (mul3 a0) a1 a2 (mul2 a3) ::
      mix_columns r
  | _ => []
  end.

Definition mul9 (b : N) : N := N.lxor (xtime (xtime (xtime b))) b.
Definition mul11 (b : N) : N :=
  let b2 := xtime b in xor3 (xtime (xtime b2)) b2 b.
Definition mul13 (b : N) : N :=
  let b4 := xtime (xtime b) in xor3 (xtime b4) b4 b.
Definition mul14 (b : N) : N :=
  let b2 := xtime b in let b4 := xtime b2 in xor3 (xtime b4) b4 b2.

Fixpoint inv_mix_columns (st : list N) : list N :=
  match st with
  | a0 :: a1 :: a2 :: a3 :: r =>
      xor4 (mul14 a0) (mul11 a1) (mul13 a2) (mul9 a3) ::
      xor4 (mul9 a0) (mul14 a1) (mul11 a2) (mul13 a3) ::
      xor4 (mul13 a0) (mul9 a1) (mul14 a2) (mul11 a3) ::
      xor4 (mul11 a0) (mul13 a1) (mul9 a2) (mul14 a3) ::
      inv_mix_columns r
  | _ => []
  end.

(* pointwise xor, truncating to the shorter argument (AddRoundKey) *)
Fixpoint xor_bytes (a b : list N) : list N :=
  match a, b with
  | x :: a', y :: b' => N.lxor x y :: xor_bytes a' b'
  | _, _ => []
  end.

(* ------------------------------------------------------------------ *)
(* Key expansion                                                       *)
(* ------------------------------------------------------------------ *)

(* Round key i+1 from round key i (16 bytes) and Rcon[i+1]. *)
Definition next_round_key (k : list N) (rc : N) : list N :=
  let w0 := firstn 4 k in
  let w1 := firstn 4 (skipn 4 k) in
  let w2 := firstn 4 (skipn 8 k) in
  let w3 := firstn 4 (skipn 12 k) in
  let t :=
    match w3 with
    | [b0; b1; b2; b3] =>
        [N.lxor (sub_byte b1) rc; sub_byte b2; sub_byte b3; sub_byte b0]
    | _ => [0; 0; 0; 0]
    end in
  let w0' := xor_bytes w0 t in
  let w1' := xor_bytes w1 w0' in
  let w2' := xor_bytes w2 w1' in
  let w3' := xor_bytes w3 w2' in
  w0' ++ w1' ++ w2' ++ w3'.

(* [key_schedule k rcon] = the 11 round keys, round 0 first. *)
Fixpoint key_schedule (k : list N) (rcs : list N) : list (list N) :=
  match rcs with
  | [] => [k]
  | rc :: r => k :: key_schedule (next_round_key k rc) r
  end.

(* ------------------------------------------------------------------ *)
(* Cipher and inverse cipher                                           *)
(* ------------------------------------------------------------------ *)

Definition enc_round (st rk : list N) : list N :=
  xor_bytes (mix_columns (shift_rows (sub_bytes st))) rk.

Definition enc_final_round (st rk : list N) : list N :=
  xor_bytes (shift_rows (sub_bytes st)) rk.

Definition dec_round (st rk : list N) : list N :=
  inv_mix_columns (xor_bytes (inv_sub_bytes (inv_shift_rows st)) rk).

Definition dec_final_round (st rk : list N) : list N :=
  xor_bytes (inv_sub_bytes (inv_shift_rows st)) rk.

(* [ks] = first round key :: middle round keys ++ [last round key] *)
Definition run_rounds (mid fin : list N -> list N -> list N)
           (ks : list (list N)) (input : list N) : list N :=
  match ks with
  | k0 :: rest =>
      fin (fold_left mid (removelast rest) (xor_bytes input k0)) (last rest [])
  | [] => []
  end.

(* Makes the output length independent of the input lengths.  The identity
   on 16-element lists. *)
Definition norm16 (l : list N) : list N := firstn 16 (l ++ repeat 0 16).

Definition aes128_encrypt_block (key block : list N) : list N :=
  norm16 (run_rounds enc_round enc_final_round (key_schedule key rcon) block).

Definition aes128_decrypt_block (key block : list N) : list N :=
  norm16 (run_rounds dec_round dec_final_round
                     (rev (key_schedule key rcon)) block).

Lemma norm16_length : forall l, length (norm16 l) = 16%nat.
Proof.
  intros l. unfold norm16.
  rewrite firstn_length, app_length, repeat_length. lia.
Qed.

Lemma aes128_encrypt_block_length :
  forall k b, length (aes128_encrypt_block k b) = 16%nat.
Proof. intros k b. apply norm16_length. Qed.

Lemma aes128_decrypt_block_length :
  forall k b, length (aes128_decrypt_block k b) = 16%nat.
Proof. intros k b. apply norm16_length. Qed.

(* ------------------------------------------------------------------ *)
(* Test vectors (FIPS 197)                                             *)
(* ------------------------------------------------------------------ *)

From Coq Require Import Ascii String.

Module AesTest.

  Definition nibble (c : ascii) : N :=
    let n := N_of_ascii c in
    if andb (48 <=? n) (n <=? 57) then n - 48
    else if andb (97 <=? n) (n <=? 102) then n - 87
    else 0.

  Fixpoint hex (s : string) : list N :=
    match s with
    | String h (String l r) => (16 * nibble h + nibble l) :: hex r
    | _ => []
    end.

End AesTest.
Import AesTest.

(* Appendix C.1 *)
Example aes128_c1_encrypt :
  aes128_encrypt_block (hex "000102030405060708090a0b0c0d0e0f")
                       (hex "00112233445566778899aabbccddeeff")
  = hex "69c4e0d86a7b0430d8cdb78070b4c55a".
Proof. vm_compute; reflexivity. Qed.

Example aes128_c1_decrypt :
  aes128_decrypt_block (hex "000102030405060708090a0b0c0d0e0f")
                       (hex "69c4e0d86a7b0430d8cdb78070b4c55a")
  = hex "00112233445566778899aabbccddeeff".
Proof. vm_compute; reflexivity. Qed.

(* Appendix B *)
Example aes128_b_encrypt :
  aes128_encrypt_block (hex "2b7e151628aed2a6abf7158809cf4f3c")
                       (hex "3243f6a8885a308d313198a2e0370734")
  = hex "3925841d02dc09fbdc118597196a0b32".
Proof. vm_compute; reflexivity. Qed.

Example aes128_b_decrypt :
  aes128_decrypt_block (hex "2b7e151628aed2a6abf7158809cf4f3c")
                       (hex "3925841d02dc09fbdc118597196a0b32")
  = hex "3243f6a8885a308d313198a2e0370734".
Proof. vm_compute; reflexivity. Qed.

(* Appendix A.1: last round key of the Appendix B key *)
Example aes128_key_schedule_last :
  last (key_schedule (hex "2b7e151628aed2a6abf7158809cf4f3c") rcon) []
  = hex "d014f9a8c9ee2589e13f0cc8b6630ca6".
Proof. vm_compute; reflexivity. Qed.
