(* Prim.v — the primitive conversions of gebn/bmc, transcribed from the Go
   source expression by expression (Impl side), and their mathematical
   definitions (Spec side).  Property C20.

   Go sources mirrored:
     internal/pkg/bcd/bcd.go            Decode
     internal/pkg/complement/ones.go    Ones
     internal/pkg/complement/twos.go    Twos
     pkg/ipmi/analog_data_format.go     parseAnalogDataFormat{Unsigned,OnesComplement,TwosComplement}
     pkg/ipmi/message.go                checksum
     pkg/ipmi/id_string.go              decodeBCDPlus, decodePacked6BitAscii, decode8BitAsciiLatin1
     pkg/dcmi/rolling_average.go        secondsMultiplier, rollingAvgPeriodDuration, rollingAvgPeriodByte
     pkg/ipmi/entity_instance.go        IsSystemRelative, IsDeviceRelative *)
From BMC Require Import Base.

(* ---------- Go fixed-width helpers ---------- *)
Definition u8 (x : N) : N := x mod 256.
Definition u16 (x : N) : N := x mod 65536.
Definition int8_of (b : N) : Z := if b <? 128 then Z.of_N b else Z.of_N b - 256.
Definition int16_of (w : N) : Z := if w <? 32768 then Z.of_N w else Z.of_N w - 65536.

(* ---------- Impl ---------- *)
Module Impl.

(* ((b&0xf0)>>4)*10 + (b & 0x0f), in uint8 *)
Definition bcd_decode (b : N) : N :=
  u8 (u8 (N.shiftr (N.land b 0xf0) 4 * 10) + N.land b 0x0f).

(* if b&0x80 != 0 { b++ }; int8(b) *)
Definition ones (b : N) : Z :=
  let b' := if negb (N.land b 0x80 =? 0) then u8 (b + 1) else b in
  int8_of b'.

(* numerical := uint16(lo) | uint16(hi)<<8; mask := uint16(1) << (uint16(bits)-1);
   numerical = (numerical ^ mask) - mask; int16(numerical) *)
Definition twos (hi lo : N) (bits : N) : Z :=
  let numerical := N.lor lo (N.shiftl hi 8) in
  let sh := (bits + 65535) mod 65536 in          (* uint16(bits) - 1 *)
  let mask := if sh <? 16 then N.shiftl 1 sh else 0 in   (* Go: shift >= width gives 0 *)
  let x := N.lxor numerical mask in
  int16_of (u16 (x + 65536 - mask)).

Definition parse_unsigned (r : N) : Z := Z.of_N r.             (* int16(r) *)
Definition parse_ones (r : N) : Z := ones r.                   (* int16(complement.Ones(r)) *)
Definition parse_twos (r : N) : Z := int8_of r.                (* int16(int8(r)) *)

(* analogDataFormatParsers: format code -> parser *)
Definition analog_parser (fmt : N) : option (N -> Z) :=
  match fmt with
  | 0 => Some parse_unsigned
  | 1 => Some parse_ones
  | 2 => Some parse_twos
  | _ => None
  end.

(* c := uint8(0); for b in data { c += b }; return -c *)
Definition checksum (data : bytes) : N :=
  let c := fold_left (fun c b => u8 (c + b)) data 0 in
  u8 (256 - c).

Definition bcd_plus_runes : list N :=
  [48;49;50;51;52;53;54;55;56;57; 32;45;46;58;44;95].  (* 0-9 ' ' '-' '.' ':' ',' '_' *)

(* string decoders return (characters as bytes of the Go string, consumed) *)
Fixpoint map_res {A B} (f : A -> res B) (l : list A) : res (list B) :=
  match l with
  | [] => Ok []
  | a :: r => do b <- f a; do bs <- map_res f r; Ok (b :: bs)
  end.

Definition decode_bcd_plus (b : bytes) (c : nat) : res (bytes * nat) :=
  let nbytes := Nat.div (c + 1) 2 in                 (* int(math.Ceil(float64(c)/2)) *)
  if Nat.ltb (length b) nbytes then Err else
  do runes <- map_res (fun i =>
      let shift := if Nat.eqb (Nat.modulo i 2) 0 then 4 else 0 in
      do x <- get (Nat.div i 2) b;
      match nth_error bcd_plus_runes (N.to_nat (N.land (N.shiftr x shift) 0xf)) with
      | Some r => Ok r | None => Fault end) (seq 0 c);
  Ok (runes, nbytes).

(* offset := (i-1) - floor((i-1)/4), an int (may be 0 for i = 0) *)
Definition p6_offset (i : nat) : nat :=
  Z.to_nat ((Z.of_nat i - 1) - Z.div (Z.of_nat i - 1) 4).

Definition p6_char (b : bytes) (i : nat) : res N :=
  let offset := p6_offset i in
  do acc <-
    match Nat.modulo i 4 with
    | 0%nat => do x <- get offset b; Ok (N.land x 0x3f)
    | 1%nat => do x <- get offset b; do y <- get (offset+1) b;
               Ok (N.lor (N.shiftr x 6) (u8 (N.shiftl (N.land y 0xf) 2)))
    | 2%nat => do x <- get offset b; do y <- get (offset+1) b;
               Ok (N.lor (N.shiftr x 4) (u8 (N.shiftl (N.land y 0x3) 4)))
    | _ => do x <- get offset b; Ok (N.shiftr x 2)
    end;
  Ok (u8 acc + 0x20).                                   (* rune(acc + 0x20), acc a uint8 *)

Definition decode_packed6 (b : bytes) (c : nat) : res (bytes * nat) :=
  let nbytes := (c - Nat.div c 4)%nat in
  if Nat.ltb (length b) nbytes then Err else
  do runes <- map_res (p6_char b) (seq 0 c);
  Ok (runes, nbytes).

(* decode8BitAsciiLatin1 as repaired by the fix for finding F10 (zero
   characters need no data); see known_findings.json *)
Definition decode_latin1 (b : bytes) (c : nat) : res (bytes * nat) :=
  if Nat.eqb c 0 then Ok ([], 0%nat) else
  if Nat.ltb (length b) 2 then Err else
  if Nat.ltb (length b) c then Err else
  do s <- slice_to c b; Ok (s, c).

(* stringEncodingDecoders *)
Definition string_decoder (enc : N) : option (bytes -> nat -> res (bytes * nat)) :=
  match enc with
  | 0 => Some decode_latin1
  | 1 => Some decode_bcd_plus
  | 2 => Some decode_packed6
  | 3 => Some decode_latin1
  | _ => None
  end.

Definition seconds_multiplier (unit : N) : N :=
  match unit with 0 => 1 | 1 => 60 | 2 => 3600 | _ => 86400 end.

(* result in whole seconds (the Go value is seconds * time.Second) *)
Definition rolling_duration (b : N) : N :=
  let value := N.land b 0x3f in
  if value =? 0 then 0 else value * seconds_multiplier (N.shiftr b 6).

(* d in whole seconds; byte(float) truncates toward zero *)
Definition rolling_byte (d : N) : N :=
  if d <? 60 then u8 d
  else if d <? 3600 then N.lor (u8 (d / 60)) 0x40
  else if d <? 86400 then N.lor (u8 (d / 3600)) 0x80
  else let days := d / 86400 in
       let days := if 63 <? days then 63 else days in
       N.lor (u8 days) 0xc0.

Definition is_system_relative (i : N) : bool := i <=? 0x5f.
Definition is_device_relative (i : N) : bool := (0x60 <=? i) && (i <=? 0x7f).

End Impl.

(* ---------- Spec: the mathematical definitions ---------- *)
Module Spec.

Definition bcd (b : N) : N := 10 * (b / 16) + b mod 16.
Definition ones (b : N) : Z := if b <? 128 then Z.of_N b else Z.of_N b - 255.
Definition twos (w : N) (v : N) : Z :=
  if v <? 2 ^ (w - 1) then Z.of_N v else Z.of_N v - Z.of_N (2 ^ w).
Definition interpret (fmt : N) (raw : N) : option Z :=
  match fmt with
  | 0 => Some (Z.of_N raw)
  | 1 => Some (ones raw)
  | 2 => Some (twos 8 raw)
  | _ => None
  end.

(* packing of strings, the inverse direction of the decoders *)
Definition bcd_plus_code (r : N) : option N :=   (* rune -> nibble *)
  match r with
  | 48 => Some 0 | 49 => Some 1 | 50 => Some 2 | 51 => Some 3 | 52 => Some 4
  | 53 => Some 5 | 54 => Some 6 | 55 => Some 7 | 56 => Some 8 | 57 => Some 9
  | 32 => Some 10 | 45 => Some 11 | 46 => Some 12 | 58 => Some 13 | 44 => Some 14
  | 95 => Some 15 | _ => None
  end.
Definition bcd_plus_rune (n : N) : N :=
  match n with
  | 10 => 32 | 11 => 45 | 12 => 46 | 13 => 58 | 14 => 44 | 15 => 95
  | d => 48 + d
  end.

(* nibbles (each < 16), most significant nibble first, zero-filled *)
Fixpoint pack_nibbles (ns : list N) : bytes :=
  match ns with
  | [] => []
  | [a] => [16 * a]
  | a :: b :: r => (16 * a + b) :: pack_nibbles r
  end.

(* 6-bit codes (each < 64), IPMI packed ASCII: first char in the low bits *)
Fixpoint pack6 (cs : list N) : bytes :=
  match cs with
  | [] => []
  | [a] => [a]
  | [a; b] => [a + 64 * (b mod 4); b / 4]
  | [a; b; c] => [a + 64 * (b mod 4); b / 4 + 16 * (c mod 16); c / 16]
  | a :: b :: c :: d :: r =>
      (a + 64 * (b mod 4)) :: (b / 4 + 16 * (c mod 16)) :: (c / 16 + 4 * d) :: pack6 r
  end.

Definition unit_seconds (u : N) : N :=
  match u with 0 => 1 | 1 => 60 | 2 => 3600 | _ => 86400 end.
Definition rolling_duration (b : N) : N := (b mod 64) * unit_seconds (b / 64).
(* largest representable period not above d: unit chosen by magnitude *)
Definition rolling_unit (d : N) : N :=
  if d <? 60 then 0 else if d <? 3600 then 1 else if d <? 86400 then 2 else 3.
Definition rolling_byte (d : N) : N :=
  let u := rolling_unit d in
  64 * u + N.min 63 (d / unit_seconds u).

End Spec.
