(* SentPacketProofs.v — C03: every datagram the library transmits within an
   established session ([session_command_packet], Packet.v) is accepted by the
   specification's BMC ([Bmc.accept], SpecBmc.v), which checks the session ID,
   the encrypted/authenticated flags, the integrity pad, the AuthCode under its
   own K1, the AES-128-CBC confidentiality layer under its own K2 and the IPMI
   LAN request with both checksums — and recovers exactly the IV, the sequence
   number and the request the caller asked for.

   Principal results (all closed under the global context):
     sent_packet_accepted_aes128   no premise about the cipher (uses AesInverse/AesCbcConcrete)
     sent_packet_accepted_cbc      the same from a CBC round-trip premise for the one plaintext sent
     sent_packet_accepted          the same from "decrypt inverts encrypt on every 16-element block";
                                   that premise is FALSE for the concrete Aes.v on blocks with an
                                   element >= 256 ([block_premise_fails_concretely]), so this form
                                   says nothing about the concrete model: cite the _aes128 form
     sent_packet_spelled_out       the property text, clause by clause
     oversize_request_rejected     the corner: a message of 65504+ bytes wraps the 16-bit length
     established_session_accepted  instantiation at the session the handshake produces
     sent_packet_accepted_udp      "fits in a UDP datagram" instead of the length bound *)
From BMC Require Import Base BaseFacts Prim PrimProofs Layers Layers2 Serialize SpecRequests Packet
                        Hmac Aes SpecBmc RequestProofs TwoWayProofs KeyAgreement Handshake
                        AesInverse AesCbcConcrete.
From Coq Require Import ZifyN ZifyNat ZifyBool.
Ltac Zify.zify_post_hook ::= Z.div_mod_to_equations.
Import SpecParse.

Local Notation is_byte_list := (Forall (fun b : N => b < 256)).

(* ===================================================================== *)
(* small list facts                                                       *)
(* ===================================================================== *)
Lemma forallb_repeat_ff k : forallb (fun b => b =? 0xff) (repeat 0xff k) = true.
Proof. induction k as [|k IH]; cbn [repeat forallb]; [reflexivity|]. rewrite IH. reflexivity. Qed.

Lemma counts_up_pad_ok bs : forall v, Bmc.counts_up bs v = pad_ok bs v.
Proof.
  induction bs as [|b r IH]; intros v; cbn [Bmc.counts_up pad_ok]; [reflexivity|].
  rewrite IH. reflexivity.
Qed.

(* ===================================================================== *)
(* the AuthCode: its length is what the BMC expects for the algorithm     *)
(* ===================================================================== *)
Lemma authcode_supported integ k1 m c :
  Bmc.authcode integ k1 m = Some c -> In integ [1; 2; 4].
Proof.
  unfold Bmc.authcode. intros H. cbn [In].
  destruct (N.eq_dec integ 1) as [->|N1]; [auto|].
  destruct (N.eq_dec integ 2) as [->|N2]; [auto|].
  destruct (N.eq_dec integ 4) as [->|N4]; [auto|].
  exfalso. destruct integ as [|[[|[]|]|[|[]|]|]]; try discriminate; lia.
Qed.

Lemma Some_inj {A} (a b : A) : Some a = Some b -> a = b.
Proof. intros H. congruence. Qed.

Lemma authcode_length integ k1 m c :
  Bmc.authcode integ k1 m = Some c -> length c = Bmc.authcode_len integ.
Proof.
  intros H. pose proof (authcode_supported _ _ _ _ H) as S. cbn [In] in S.
  destruct S as [<-|[<-|[<-|[]]]]; cbn [Bmc.authcode Bmc.authcode_len] in *;
    apply Some_inj in H; subst c; rewrite ?firstn_length, hmac_length; reflexivity.
Qed.

(* ===================================================================== *)
(* the confidentiality layer as the BMC undoes it                         *)
(* ===================================================================== *)
(* the confidentiality payload for a message: the caller's IV, then AES-CBC of msg ‖ 01 02 .. n ‖ n *)
Definition conf_payload (enc : bytes -> bytes) (iv msg : bytes) : bytes :=
  iv ++ cbc_encrypt enc iv (msg ++ aes_trailer (length msg)).

Lemma padded_length msg :
  length (msg ++ aes_trailer (length msg)) = (16 * (Nat.div (length msg) 16 + 1))%nat.
Proof.
  rewrite aes_trailer_eq, !app_length, aes_padbytes_length. cbn [length].
  pose proof (aes_padded_length (length msg)) as P. lia.
Qed.

Lemma conf_payload_length enc iv msg :
  (forall b, length (enc b) = 16%nat) -> length iv = 16%nat ->
  length (conf_payload enc iv msg) = (16 * (Nat.div (length msg) 16 + 2))%nat.
Proof.
  intros He Hiv. unfold conf_payload. rewrite app_length, Hiv. unfold cbc_encrypt.
  assert (Hb : forall k prev pt, length (cbc_encrypt_blocks enc prev pt k) = (16 * k)%nat).
  { induction k as [|k IH]; intros prev pt; cbn [cbc_encrypt_blocks]; [reflexivity|].
    cbv zeta. rewrite app_length, He, IH. lia. }
  rewrite Hb, padded_length.
  replace (Nat.div (16 * (Nat.div (length msg) 16 + 1)) 16) with (Nat.div (length msg) 16 + 1)%nat by lia.
  lia.
Qed.

(* from the CBC round trip of the one plaintext that was sent *)
Lemma decrypt_payload_of_cbc k2 enc iv msg :
  (forall b, length (enc b) = 16%nat) -> length iv = 16%nat ->
  cbc_decrypt (aes128_decrypt_block (firstn 16 k2)) iv (cbc_encrypt enc iv (msg ++ aes_trailer (length msg)))
    = msg ++ aes_trailer (length msg) ->
  Bmc.decrypt_payload k2 (conf_payload enc iv msg) = Some (iv, msg).
Proof.
  intros Henc Hiv Hdec. pose proof (conf_payload_length enc iv msg Henc Hiv) as Hlen.
  pose proof (padded_length msg) as Hpt0.
  unfold conf_payload in *. rewrite aes_trailer_eq in *.
  set (pl := aes_padlen (length msg)) in *. set (pb := aes_padbytes (length msg)) in *.
  assert (Hpl : (pl <= 15)%nat) by apply aes_padlen_le.
  assert (Hpb : length pb = pl) by apply aes_padbytes_length.
  set (k := (Nat.div (length msg) 16 + 1)%nat) in *.
  assert (Hk : (length msg + pl + 1 = 16 * k)%nat) by apply aes_padded_length.
  set (pt := msg ++ pb ++ [N.of_nat pl]) in *.
  assert (Hpt : length pt = (16 * k)%nat) by exact Hpt0.
  set (ct := cbc_encrypt enc iv pt) in *.
  unfold Bmc.decrypt_payload. cbv zeta.
  rewrite (firstn_app_exact iv ct 16) by (symmetry; exact Hiv).
  rewrite (skipn_app_exact iv ct 16) by (symmetry; exact Hiv).
  rewrite Hlen, Hdec.
  destruct (Nat.ltb_spec (16 * (Nat.div (length msg) 16 + 2)) 32) as [Hlt|_]; [lia|].
  replace (Nat.modulo (16 * (Nat.div (length msg) 16 + 2)) 16) with 0%nat by lia.
  cbn [Nat.eqb negb orb].
  assert (Hrev : rev pt = N.of_nat pl :: rev (msg ++ pb))
    by (unfold pt; rewrite app_assoc, rev_unit; reflexivity).
  rewrite Hrev. rewrite Nat2N.id.
  replace (N.of_nat pl <? 16) with true by lia.
  replace (Nat.leb (pl + 1) (length pt)) with true by (symmetry; apply Nat.leb_le; lia).
  cbn [andb].
  assert (Hdata : firstn (length pt - 1 - pl) pt = msg)
    by (rewrite Hpt; unfold pt; apply firstn_app_exact; lia).
  rewrite Hdata.
  assert (Hpad : firstn pl (skipn (length msg) pt) = pb).
  { unfold pt. rewrite (skipn_app_exact msg _ (length msg)) by reflexivity.
    apply firstn_app_exact. lia. }
  rewrite Hpad, counts_up_pad_ok. unfold pb. rewrite aes_padbytes_ok. reflexivity.
Qed.

(* ===================================================================== *)
(* the bytes of an in-session datagram                                    *)
(* ===================================================================== *)
(* the integrity pad for a payload of [n] bytes behind the 12-byte header *)
Definition integrity_padlen (n : nat) : nat := Nat.modulo (4 - Nat.modulo (12 + n + 2) 4) 4.

(* the range the AuthCode covers: auth type .. next header *)
Definition covered_bytes (id seq : N) (payload : bytes) : bytes :=
  6 :: 192 :: put_le32 id ++ put_le32 seq ++ put_le16 (N.of_nat (length payload)) ++ payload
    ++ repeat 0xff (integrity_padlen (length payload)) ++ [N.of_nat (integrity_padlen (length payload)); 7].

Lemma integrity_padlen_lt n : (integrity_padlen n < 4)%nat.
Proof. unfold integrity_padlen. lia. Qed.

Lemma covered_bytes_length id seq payload :
  length (covered_bytes id seq payload) = (12 + length payload + integrity_padlen (length payload) + 2)%nat.
Proof.
  unfold covered_bytes, put_le32, put_le16. cbn [length app].
  rewrite !app_length, repeat_length. cbn [length]. lia.
Qed.

Lemma covered_bytes_aligned id seq payload :
  Nat.modulo (length (covered_bytes id seq payload)) 4 = 0%nat.
Proof. rewrite covered_bytes_length. unfold integrity_padlen. lia. Qed.

Lemma session_wrap_bytes sign id seq payload pkt :
  N.of_nat (length payload) < 65536 ->
  (do '(_, b3) <- ser_v2session sign
        {| v2_ptype := 0; v2_enterprise := 0; v2_pid := 0; v2_encrypted := true; v2_authenticated := true;
           v2_id := id; v2_sequence := seq; v2_length := 0; v2_pad := 0; v2_signature := []; v2_payload := [] |} payload;
   ser_rmcp rmcp_out b3) = Ok pkt ->
  pkt = [6; 0; 255; 7] ++ covered_bytes id seq payload ++ sign (covered_bytes id seq payload).
Proof.
  intros Hlen S. unfold ser_v2session, v2_flags in S. cbv zeta in S.
  cbn [v2_ptype v2_enterprise v2_pid v2_encrypted v2_authenticated v2_id v2_sequence v2_length v2_pad
       v2_signature v2_payload] in S.
  change (u8 0) with 0 in S. change (0 =? 2) with false in S. cbv iota in S.
  change (N.lor (N.lor 0 128) 64) with 192 in S.
  rewrite u16_small in S by assumption. rewrite !Nat2N.id in S.
  fold (integrity_padlen (length payload)) in S.
  cbn [bind] in S. unfold ser_rmcp, rmcp_out in S. cbn [rm_version rm_sequence rm_ack rm_class] in S.
  apply Ok_inj in S. subst pkt.
  change (u8 6) with 6. change (u8 255) with 255.
  change (N.lor (u8 (N.shiftl (b2n false) 7)) (u8 7)) with 7.
  unfold covered_bytes. cbn [app]. rewrite <- !app_assoc. cbn [app]. reflexivity.
Qed.

(* ===================================================================== *)
(* the specification's parser on such a datagram                          *)
(* ===================================================================== *)
Lemma datagram_session id seq payload tr :
  id < 4294967296 -> seq < 4294967296 -> N.of_nat (length payload) < 65536 ->
  datagram (6 :: 0 :: 255 :: 7 :: 6 :: 192 :: put_le32 id ++ put_le32 seq
              ++ put_le16 (N.of_nat (length payload)) ++ payload ++ tr)
  = Some {| w_ptype := 0; w_encrypted := true; w_authenticated := true; w_id := id; w_seq := seq;
            w_payload := payload; w_trailer := tr |}.
Proof.
  intros Hid Hsq Hlen. unfold put_le32, put_le16. cbn [app].
  cbv beta iota zeta delta [datagram].
  rewrite le16_put by assumption. rewrite !le32_put by assumption. rewrite Nat2N.id.
  change (192 mod 64 =? 2) with false. cbv iota.
  destruct (Nat.ltb_spec (length (payload ++ tr)) (length payload)) as [H|_];
    [rewrite app_length in H; lia|].
  change ((192 / 64) mod 2 =? 1) with true. cbn [negb andb].
  rewrite (firstn_app_exact payload tr) by reflexivity.
  rewrite (skipn_app_exact payload tr) by reflexivity.
  reflexivity.
Qed.

(* everything the BMC checks on the wrapper, given the right AuthCode *)
Lemma accept_wrapped act id seq payload sg :
  id = Bmc.a_bmc_id act -> id < 4294967296 -> seq < 4294967296 -> N.of_nat (length payload) < 65536 ->
  Bmc.authcode (Bmc.a_integ act) (Bmc.a_k1 act) (covered_bytes id seq payload) = Some sg ->
  Bmc.accept act ([6; 0; 255; 7] ++ covered_bytes id seq payload ++ sg)
  = match Bmc.decrypt_payload (Bmc.a_k2 act) payload with
    | Some (iv, msg) => match lan_request msg with Some r => Some (iv, seq, r) | None => None end
    | None => None
    end.
Proof.
  intros Eid Hid Hsq Hlen Hcode.
  pose proof (authcode_length _ _ _ _ Hcode) as Hsg.
  pose proof (covered_bytes_length id seq payload) as Hcl.
  pose proof (covered_bytes_aligned id seq payload) as Hal.
  pose proof (integrity_padlen_lt (length payload)) as Hpl.
  set (cov := covered_bytes id seq payload) in *.
  set (padn := integrity_padlen (length payload)) in *.
  set (tr := repeat 0xff padn ++ [N.of_nat padn; 7] ++ sg).
  assert (Hdg : [6; 0; 255; 7] ++ cov ++ sg
                = 6 :: 0 :: 255 :: 7 :: 6 :: 192 :: put_le32 id ++ put_le32 seq
                    ++ put_le16 (N.of_nat (length payload)) ++ payload ++ tr).
  { unfold cov, covered_bytes, tr. fold padn. cbn [app]. rewrite <- !app_assoc. cbn [app]. reflexivity. }
  assert (Hw := datagram_session id seq payload tr Hid Hsq Hlen). rewrite <- Hdg in Hw.
  assert (Hsk : skipn 4 ([6; 0; 255; 7] ++ cov ++ sg) = cov ++ sg) by reflexivity.
  assert (Hdl : length ([6; 0; 255; 7] ++ cov ++ sg) = (4 + length cov + length sg)%nat)
    by (rewrite !app_length; cbn [length]; lia).
  remember ([6; 0; 255; 7] ++ cov ++ sg) as dg eqn:Edg. clear Edg Hdg.
  unfold Bmc.accept. rewrite Hw. cbn [w_ptype w_id w_encrypted w_authenticated w_trailer w_payload w_seq].
  change (0 =? 0) with true. rewrite <- Eid, N.eqb_refl. cbn [negb orb].
  assert (Htl : length tr = (padn + 2 + Bmc.authcode_len (Bmc.a_integ act))%nat)
    by (unfold tr; rewrite !app_length, repeat_length; cbn [length]; lia).
  rewrite Htl, Hdl, Hsk, Hsg.
  destruct (Nat.ltb_spec (padn + 2 + Bmc.authcode_len (Bmc.a_integ act)) (2 + Bmc.authcode_len (Bmc.a_integ act)))
    as [H|_]; [lia|].
  replace (padn + 2 + Bmc.authcode_len (Bmc.a_integ act) - 2 - Bmc.authcode_len (Bmc.a_integ act))%nat with padn by lia.
  destruct (Nat.ltb_spec padn 4) as [_|H]; [|lia]. cbn [negb].
  replace (4 + length cov + Bmc.authcode_len (Bmc.a_integ act) - 4 - Bmc.authcode_len (Bmc.a_integ act))%nat
    with (length cov) by lia.
  rewrite (firstn_app_exact cov sg) by reflexivity.
  rewrite Hal. cbn [Nat.eqb negb].
  unfold tr at 1. rewrite (firstn_app_exact (repeat 255 padn)) by (rewrite repeat_length; reflexivity).
  rewrite forallb_repeat_ff. cbn [negb].
  unfold tr. rewrite (skipn_app_exact (repeat 255 padn)) by (rewrite repeat_length; reflexivity).
  cbn [app]. rewrite N.eqb_refl. change (7 =? 7) with true. cbn [negb orb].
  rewrite Hcode.
  destruct (list_eq_dec N.eq_dec sg sg) as [_|Hne]; [|exfalso; apply Hne; reflexivity].
  cbn [negb]. reflexivity.
Qed.

(* ===================================================================== *)
(* the layout of every in-session datagram                                *)
(* ===================================================================== *)
(* session_command_packet is the three serialisers in a row *)
Lemma session_command_packet_steps s seq iv o lun body pkt :
  session_command_packet s seq iv o lun body = Ok pkt ->
  exists m msg, ser_message (request_message o lun) body = Ok (m, msg) /\
    (do '(_, b3) <- ser_v2session (s_sign s)
        {| v2_ptype := 0; v2_enterprise := 0; v2_pid := 0; v2_encrypted := true; v2_authenticated := true;
           v2_id := s_remote_id s; v2_sequence := seq; v2_length := 0; v2_pad := 0; v2_signature := [];
           v2_payload := [] |} (conf_payload (s_enc s) iv msg);
     ser_rmcp rmcp_out b3) = Ok pkt.
Proof.
  intros S. unfold session_command_packet in S.
  destruct (ser_message (request_message o lun) body) as [[m msg]| |] eqn:Sm; [|discriminate S ..].
  exists m, msg. split; [reflexivity|]. exact S.
Qed.

Section Layout.
Variable s : session.
Hypothesis enc_length : forall b, length (s_enc s b) = 16%nat.

(* [request_message_length o body < 65504] keeps the payload (IV + padded message) under 65536 bytes,
   the range of the wrapper's 16-bit length field; see [oversize_*] below for what happens beyond *)
Theorem sent_packet_layout : forall seq iv o lun body pkt,
  length iv = 16%nat ->
  op_fn o < 64 -> op_fn o mod 2 = 0 -> op_fn o <> 0x2e -> op_cmd o < 256 -> lun < 4 ->
  (op_fn o = 0x2c -> op_body o < 256) ->
  request_message_length o body < 65504 ->
  session_command_packet s seq iv o lun body = Ok pkt ->
  exists m msg,
    ser_message (request_message o lun) body = Ok (m, msg) /\
    N.of_nat (length (conf_payload (s_enc s) iv msg)) < 65536 /\
    let cov := covered_bytes (s_remote_id s) seq (conf_payload (s_enc s) iv msg) in
    pkt = [6; 0; 255; 7] ++ cov ++ s_sign s cov.
Proof.
  intros seq iv o lun body pkt Hiv Hf He H2e Hc Hl Hb Hlen S.
  destruct (session_command_packet_steps s seq iv o lun body pkt S) as (m & msg & Sm & Sw).
  exists m, msg. split; [exact Sm|].
  pose proof (request_message_length_ok o lun body m msg Hf He H2e Hc Hl Hb Sm) as Lm.
  assert (Hp : N.of_nat (length (conf_payload (s_enc s) iv msg)) < 65536)
    by (rewrite (conf_payload_length _ iv msg enc_length Hiv); lia).
  split; [exact Hp|]. cbv zeta.
  exact (session_wrap_bytes (s_sign s) (s_remote_id s) seq _ pkt Hp Sw).
Qed.

(* bytes 0..13: RMCP header, auth type RMCP+, flags C0 (encrypted, authenticated, IPMI payload),
   the remote (BMC's) session ID, the sequence number; bytes 14..15 the payload length *)
Corollary sent_packet_addressed : forall seq iv o lun body pkt,
  length iv = 16%nat ->
  op_fn o < 64 -> op_fn o mod 2 = 0 -> op_fn o <> 0x2e -> op_cmd o < 256 -> lun < 4 ->
  (op_fn o = 0x2c -> op_body o < 256) ->
  request_message_length o body < 65504 ->
  session_command_packet s seq iv o lun body = Ok pkt ->
  firstn 16 pkt = [6; 0; 0xff; 7; 6; 0xC0] ++ put_le32 (s_remote_id s) ++ put_le32 seq
                    ++ put_le16 (16 * (request_message_length o body / 16 + 2)).
Proof.
  intros seq iv o lun body pkt Hiv Hf He H2e Hc Hl Hb Hlen S.
  destruct (sent_packet_layout seq iv o lun body pkt Hiv Hf He H2e Hc Hl Hb Hlen S)
    as (m & msg & Sm & Hp & E). cbv zeta in E. rewrite E.
  pose proof (request_message_length_ok o lun body m msg Hf He H2e Hc Hl Hb Sm) as Lm.
  unfold covered_bytes. rewrite (conf_payload_length _ iv msg enc_length Hiv).
  replace (N.of_nat (16 * (Nat.div (length msg) 16 + 2))) with (16 * (request_message_length o body / 16 + 2)) by lia.
  unfold put_le32, put_le16. reflexivity.
Qed.

(* bytes 16..31: the IV is exactly the caller's [iv] argument; its freshness is therefore a
   property of the caller's random source (crypto/rand in the library) and of nothing else *)
Corollary iv_is_the_callers : forall seq iv o lun body pkt,
  length iv = 16%nat ->
  op_fn o < 64 -> op_fn o mod 2 = 0 -> op_fn o <> 0x2e -> op_cmd o < 256 -> lun < 4 ->
  (op_fn o = 0x2c -> op_body o < 256) ->
  request_message_length o body < 65504 ->
  session_command_packet s seq iv o lun body = Ok pkt ->
  firstn 16 (skipn 16 pkt) = iv.
Proof.
  intros seq iv o lun body pkt Hiv Hf He H2e Hc Hl Hb Hlen S.
  destruct (sent_packet_layout seq iv o lun body pkt Hiv Hf He H2e Hc Hl Hb Hlen S)
    as (m & msg & Sm & Hp & E). cbv zeta in E. rewrite E.
  unfold covered_bytes, conf_payload, put_le32, put_le16. cbn [app skipn].
  rewrite <- !app_assoc. apply firstn_app_exact. symmetry. exact Hiv.
Qed.
End Layout.

(* ===================================================================== *)
(* a request message consists of bytes                                    *)
(* ===================================================================== *)
Lemma request_message_is_bytes o lun body m msg :
  op_fn o < 64 -> op_fn o mod 2 = 0 -> op_fn o <> 0x2e -> op_cmd o < 256 -> lun < 4 ->
  (op_fn o = 0x2c -> op_body o < 256) -> is_byte_list body ->
  ser_message (request_message o lun) body = Ok (m, msg) -> is_byte_list msg.
Proof.
  intros Hf He H2e Hc Hl Hb Fb Sm.
  rewrite (ser_message_request_bytes o lun body m msg Hf He H2e Hc Hl Hb Sm). cbv zeta.
  repeat (apply Forall_cons; [first [lia|apply checksum_correct]|]).
  apply Forall_app. split.
  - apply Forall_app. split; [|exact Fb].
    destruct (N.eqb_spec (op_fn o) 44) as [E|_]; [|apply Forall_nil].
    apply Forall_cons; [exact (Hb E)|apply Forall_nil].
  - apply Forall_cons; [apply checksum_correct|apply Forall_nil].
Qed.

(* ===================================================================== *)
(* C03: the specification's BMC accepts what the library sends            *)
(* ===================================================================== *)
Section SentPacket.
Variable act : Bmc.active.          (* the BMC's view of the session *)
Local Notation key := (firstn 16 (Bmc.a_k2 act)).
Variable s : session.                (* the console's view *)
Hypothesis s_remote : s_remote_id s = Bmc.a_bmc_id act.
Hypothesis s_remote_range : s_remote_id s < 4294967296.
(* the console's hash is the negotiated algorithm keyed with K1, truncated as the algorithm says;
   this implies [In (Bmc.a_integ act) [1; 2; 4]] ([authcode_supported]) *)
Hypothesis s_signs : forall m, Some (s_sign s m) = Bmc.authcode (Bmc.a_integ act) (Bmc.a_k1 act) m.
Hypothesis s_encrypts : s_enc s = aes128_encrypt_block key.

Lemma s_enc_length : forall b, length (s_enc s b) = 16%nat.
Proof. intros b. rewrite s_encrypts. apply aes128_encrypt_block_length. Qed.

(* core: all that is needed of the cipher is the CBC round trip of the plaintext that is sent *)
Theorem sent_packet_accepted_cbc : forall seq iv o lun body pkt,
  seq < 4294967296 -> length iv = 16%nat ->
  op_fn o < 64 -> op_fn o mod 2 = 0 -> op_fn o <> 0x2e -> op_cmd o < 256 -> lun < 4 ->
  (op_fn o = 0x2c -> op_body o < 256) ->
  request_message_length o body < 65504 ->
  (forall m msg, ser_message (request_message o lun) body = Ok (m, msg) ->
     cbc_decrypt (aes128_decrypt_block key) iv
       (cbc_encrypt (aes128_encrypt_block key) iv (msg ++ aes_trailer (length msg)))
     = msg ++ aes_trailer (length msg)) ->
  session_command_packet s seq iv o lun body = Ok pkt ->
  Bmc.accept act pkt = Some (iv, seq, expected_lanreq o lun body).
Proof.
  intros seq iv o lun body pkt Hsq Hiv Hf He H2e Hc Hl Hb Hlen Hcbc S.
  destruct (sent_packet_layout s s_enc_length seq iv o lun body pkt Hiv Hf He H2e Hc Hl Hb Hlen S)
    as (m & msg & Sm & Hp & E). cbv zeta in E. subst pkt.
  rewrite (accept_wrapped act (s_remote_id s) seq _ _ s_remote s_remote_range Hsq Hp (eq_sym (s_signs _))).
  rewrite s_encrypts.
  rewrite (decrypt_payload_of_cbc (Bmc.a_k2 act) (aes128_encrypt_block key) iv msg
             (aes128_encrypt_block_length key) Hiv (Hcbc m msg Sm)).
  rewrite (lan_request_roundtrip o lun body m msg Hf He H2e Hc Hl Hb Sm). reflexivity.
Qed.

(* C03 with no premise about the cipher: K2 has at least 16 bytes, and K2, the IV and the caller's
   data are bytes (the concrete AES-128 of Aes.v inverts on byte blocks: AesInverse.v) *)
Theorem sent_packet_accepted_aes128 : forall seq iv o lun body pkt,
  (16 <= length (Bmc.a_k2 act))%nat -> is_byte_list (Bmc.a_k2 act) ->
  seq < 4294967296 -> length iv = 16%nat -> is_byte_list iv -> is_byte_list body ->
  op_fn o < 64 -> op_fn o mod 2 = 0 -> op_fn o <> 0x2e -> op_cmd o < 256 -> lun < 4 ->
  (op_fn o = 0x2c -> op_body o < 256) ->
  request_message_length o body < 65504 ->
  session_command_packet s seq iv o lun body = Ok pkt ->
  Bmc.accept act pkt = Some (iv, seq, expected_lanreq o lun body).
Proof.
  intros seq iv o lun body pkt Hk2 Fk2 Hsq Hiv Fiv Fb Hf He H2e Hc Hl Hb Hlen S.
  apply sent_packet_accepted_cbc; try assumption.
  intros m msg Sm.
  apply (aes128_cbc_decrypt_encrypt key iv _ (Nat.div (length msg) 16 + 1)).
  - rewrite firstn_length. lia.
  - exact (proj1 (Forall_firstn_skipn _ 16 _ Fk2)).
  - exact Hiv.
  - exact Fiv.
  - apply padded_length.
  - apply Forall_app. split; [|apply aes_trailer_byte].
    exact (request_message_is_bytes o lun body m msg Hf He H2e Hc Hl Hb Fb Sm).
Qed.

(* the form with a premise on the block cipher, for every 16-element block.  NOTE: the concrete
   Aes.v does not satisfy this premise (elements >= 256, [block_premise_fails_concretely]); the
   theorem is about an ideal block function and is kept for comparison only *)
Theorem sent_packet_accepted : forall seq iv o lun body pkt,
  (forall b, length b = 16%nat -> aes128_decrypt_block key (aes128_encrypt_block key b) = b) ->
  seq < 4294967296 -> length iv = 16%nat ->
  op_fn o < 64 -> op_fn o mod 2 = 0 -> op_fn o <> 0x2e -> op_cmd o < 256 -> lun < 4 ->
  (op_fn o = 0x2c -> op_body o < 256) ->
  request_message_length o body < 65504 ->
  session_command_packet s seq iv o lun body = Ok pkt ->
  Bmc.accept act pkt = Some (iv, seq, expected_lanreq o lun body).
Proof.
  intros seq iv o lun body pkt Hinv Hsq Hiv Hf He H2e Hc Hl Hb Hlen S.
  apply sent_packet_accepted_cbc; try assumption.
  intros m msg Sm.
  exact (cbc_roundtrip _ _ Hinv (aes128_encrypt_block_length key) iv _ _ (padded_length msg) Hiv).
Qed.

(* the same with a plain bound on the caller's data *)
Corollary sent_packet_accepted_bound : forall seq iv o lun body pkt,
  (16 <= length (Bmc.a_k2 act))%nat -> is_byte_list (Bmc.a_k2 act) ->
  seq < 4294967296 -> length iv = 16%nat -> is_byte_list iv -> is_byte_list body ->
  N.of_nat (length body) <= 65495 ->
  op_fn o < 64 -> op_fn o mod 2 = 0 -> op_fn o <> 0x2e -> op_cmd o < 256 -> lun < 4 ->
  (op_fn o = 0x2c -> op_body o < 256) ->
  session_command_packet s seq iv o lun body = Ok pkt ->
  Bmc.accept act pkt = Some (iv, seq, expected_lanreq o lun body).
Proof.
  intros seq iv o lun body pkt Hk2 Fk2 Hsq Hiv Fiv Fb Hbd Hf He H2e Hc Hl Hb S.
  apply sent_packet_accepted_aes128; try assumption.
  unfold request_message_length. destruct (op_fn o =? 44); lia.
Qed.
End SentPacket.

Example block_premise_fails_concretely :
  let key := map N.of_nat (seq 50 16) in let b := 300 :: repeat 0 15 in
  length b = 16%nat /\ aes128_decrypt_block key (aes128_encrypt_block key b) <> b.
Proof. split; [reflexivity|vm_compute; discriminate]. Qed.

(* ===================================================================== *)
(* the corner: a payload of 65536 bytes or more                           *)
(* ===================================================================== *)
(* V2Session.SerializeTo stores uint16(len(payload)) in the length field without a range check.
   A request whose IPMI message is 65504 bytes or longer makes the confidentiality payload 65536
   bytes or longer; the length field wraps, and what is serialised is no longer a valid RMCP+
   packet: the specification's BMC sees 65536+ bytes of "integrity pad" and rejects it.  Such a
   datagram is also longer than the 65507 bytes a UDP/IPv4 datagram can carry, so it cannot leave
   the host; hence the bound in [sent_packet_accepted_aes128] excludes nothing that is transmitted.
   Checked on the concrete model (vm_compute, cipher suite 3 keys, NetFn 2Ch so the message is
   body + 8 bytes): a body of 65495 zero bytes gives length field F0 FF, datagram of 65552 bytes,
   Bmc.accept = Some _; a body of 65496 bytes gives length field 00 00, 65568 bytes, Bmc.accept = None. *)
Lemma session_wrap_bytes_gen sign id seq payload pkt :
  (do '(_, b3) <- ser_v2session sign
        {| v2_ptype := 0; v2_enterprise := 0; v2_pid := 0; v2_encrypted := true; v2_authenticated := true;
           v2_id := id; v2_sequence := seq; v2_length := 0; v2_pad := 0; v2_signature := []; v2_payload := [] |} payload;
   ser_rmcp rmcp_out b3) = Ok pkt ->
  let len := u16 (N.of_nat (length payload)) in
  let padn := integrity_padlen (N.to_nat len) in
  exists sg,
  pkt = 6 :: 0 :: 255 :: 7 :: 6 :: 192 :: put_le32 id ++ put_le32 seq ++ put_le16 len ++ payload
          ++ (repeat 255 padn ++ [N.of_nat padn; 7] ++ sg).
Proof.
  intros S len padn. unfold ser_v2session, v2_flags in S. cbv zeta in S.
  cbn [v2_ptype v2_enterprise v2_pid v2_encrypted v2_authenticated v2_id v2_sequence v2_length v2_pad
       v2_signature v2_payload] in S.
  change (u8 0) with 0 in S. change (0 =? 2) with false in S. cbv iota in S.
  change (N.lor (N.lor 0 128) 64) with 192 in S.
  fold len in S. fold (integrity_padlen (N.to_nat len)) in S. fold padn in S.
  cbn [bind] in S. unfold ser_rmcp, rmcp_out in S. cbn [rm_version rm_sequence rm_ack rm_class] in S.
  apply Ok_inj in S. subst pkt.
  change (u8 6) with 6. change (u8 255) with 255.
  change (N.lor (u8 (N.shiftl (b2n false) 7)) (u8 7)) with 7.
  rewrite !Nat2N.id. eexists. cbn [app]. rewrite <- !app_assoc. cbn [app]. reflexivity.
Qed.

Lemma datagram_session_any i0 i1 i2 i3 s0 s1 s2 s3 len rest :
  len < 65536 -> (N.to_nat len <= length rest)%nat ->
  datagram (6 :: 0 :: 255 :: 7 :: 6 :: 192 :: i0 :: i1 :: i2 :: i3 :: s0 :: s1 :: s2 :: s3
              :: len mod 256 :: (len / 256) mod 256 :: rest)
  = Some {| w_ptype := 0; w_encrypted := true; w_authenticated := true;
            w_id := le32 i0 i1 i2 i3; w_seq := le32 s0 s1 s2 s3;
            w_payload := firstn (N.to_nat len) rest; w_trailer := skipn (N.to_nat len) rest |}.
Proof.
  intros Hlen Hr. cbv beta iota zeta delta [datagram].
  rewrite le16_put by assumption.
  change (192 mod 64 =? 2) with false. cbv iota.
  destruct (Nat.ltb_spec (length rest) (N.to_nat len)) as [H|_]; [lia|].
  change ((192 / 64) mod 2 =? 1) with true. cbn [negb andb]. reflexivity.
Qed.

Lemma authcode_len_le integ : (Bmc.authcode_len integ <= 16)%nat.
Proof. unfold Bmc.authcode_len. destruct integ as [|[[]|[]|]]; lia. Qed.

Theorem oversize_wrap_rejected act sign id seq payload pkt :
  65536 <= N.of_nat (length payload) ->
  (do '(_, b3) <- ser_v2session sign
        {| v2_ptype := 0; v2_enterprise := 0; v2_pid := 0; v2_encrypted := true; v2_authenticated := true;
           v2_id := id; v2_sequence := seq; v2_length := 0; v2_pad := 0; v2_signature := []; v2_payload := [] |} payload;
   ser_rmcp rmcp_out b3) = Ok pkt ->
  Bmc.accept act pkt = None /\ 65507 < N.of_nat (length pkt).
Proof.
  intros Hbig S. destruct (session_wrap_bytes_gen sign id seq payload pkt S) as [sg E]. cbv zeta in E.
  set (len := u16 (N.of_nat (length payload))) in *.
  assert (Hlen : len < 65536) by (unfold len, u16; lia).
  assert (Hle : len = N.of_nat (length payload) mod 65536) by reflexivity.
  set (tr := repeat 255 (integrity_padlen (N.to_nat len)) ++ [N.of_nat (integrity_padlen (N.to_nat len)); 7] ++ sg) in *.
  assert (Hrest : length (payload ++ tr) = (length payload + length tr)%nat) by apply app_length.
  unfold put_le32, put_le16 in E. cbn [app] in E.
  split.
  - assert (Hw := datagram_session_any (id mod 256) ((id / 256) mod 256) ((id / 65536) mod 256) ((id / 16777216) mod 256)
                    (seq mod 256) ((seq / 256) mod 256) ((seq / 65536) mod 256) ((seq / 16777216) mod 256)
                    len (payload ++ tr) Hlen ltac:(lia)).
    rewrite <- E in Hw. unfold Bmc.accept. rewrite Hw.
    cbn [w_ptype w_id w_encrypted w_authenticated w_trailer w_payload w_seq].
    change (0 =? 0) with true. cbn [negb orb].
    destruct (negb _); [reflexivity|].
    pose proof (authcode_len_le (Bmc.a_integ act)) as Ha.
    assert (Ht : length (skipn (N.to_nat len) (payload ++ tr)) = (length payload + length tr - N.to_nat len)%nat)
      by (rewrite skipn_length, Hrest; reflexivity).
    rewrite Ht.
    destruct (Nat.ltb_spec (length payload + length tr - N.to_nat len) (2 + Bmc.authcode_len (Bmc.a_integ act)));
      [reflexivity|].
    destruct (Nat.ltb_spec (length payload + length tr - N.to_nat len - 2 - Bmc.authcode_len (Bmc.a_integ act)) 4)
      as [Hc|_]; [exfalso; lia|]. reflexivity.
  - rewrite E. cbn [length]. rewrite Hrest. lia.
Qed.

Theorem oversize_request_rejected act s seq iv o lun body pkt :
  (forall b, length (s_enc s b) = 16%nat) -> length iv = 16%nat ->
  op_fn o < 64 -> op_fn o mod 2 = 0 -> op_fn o <> 0x2e -> op_cmd o < 256 -> lun < 4 ->
  (op_fn o = 0x2c -> op_body o < 256) ->
  65504 <= request_message_length o body ->
  session_command_packet s seq iv o lun body = Ok pkt ->
  Bmc.accept act pkt = None /\ 65507 < N.of_nat (length pkt).
Proof.
  intros Henc Hiv Hf He H2e Hc Hl Hb Hlen S.
  destruct (session_command_packet_steps s seq iv o lun body pkt S) as (m & msg & Sm & Sw).
  pose proof (request_message_length_ok o lun body m msg Hf He H2e Hc Hl Hb Sm) as Lm.
  apply (oversize_wrap_rejected act _ _ _ _ pkt) in Sw; [exact Sw|].
  rewrite (conf_payload_length _ iv msg Henc Hiv). lia.
Qed.

(* every datagram that fits in a UDP/IPv4 datagram is within the bound *)
Lemma udp_size_bound s seq iv o lun body pkt :
  (forall b, length (s_enc s b) = 16%nat) -> length iv = 16%nat ->
  op_fn o < 64 -> op_fn o mod 2 = 0 -> op_fn o <> 0x2e -> op_cmd o < 256 -> lun < 4 ->
  (op_fn o = 0x2c -> op_body o < 256) ->
  session_command_packet s seq iv o lun body = Ok pkt ->
  N.of_nat (length pkt) <= 65507 -> request_message_length o body < 65504.
Proof.
  intros Henc Hiv Hf He H2e Hc Hl Hb S Hudp.
  destruct (N.lt_ge_cases (request_message_length o body) 65504) as [H|H]; [exact H|].
  destruct (oversize_request_rejected
              {| Bmc.a_console_id := 0; Bmc.a_bmc_id := 0; Bmc.a_integ := 0; Bmc.a_conf := 0;
                 Bmc.a_sik := []; Bmc.a_k1 := []; Bmc.a_k2 := [] |}
              s seq iv o lun body pkt Henc Hiv Hf He H2e Hc Hl Hb H S) as [_ Hbig]. lia.
Qed.

(* ===================================================================== *)
(* the pads, for every length                                             *)
(* ===================================================================== *)
Theorem sent_packet_pad_residues :
  (forall n, integrity_padlen n = Nat.modulo (4 - Nat.modulo (n + 14) 4) 4 /\ (integrity_padlen n <= 3)%nat /\
             Nat.modulo (12 + n + integrity_padlen n + 2) 4 = 0%nat) /\
  (forall n, let p := (15 - Nat.modulo n 16)%nat in
             aes_trailer n = map (fun i => N.of_nat (i + 1)) (seq 0 p) ++ [N.of_nat p] /\
             (p <= 15)%nat /\ Nat.modulo (n + length (aes_trailer n)) 16 = 0%nat).
Proof.
  split.
  - intros n. unfold integrity_padlen. repeat split; lia.
  - intros n p. split; [exact (aes_trailer_eq n)|]. split; [unfold p; lia|].
    rewrite aes_trailer_eq, app_length, aes_padbytes_length. cbn [length]. unfold aes_padlen. lia.
Qed.

(* behind an encrypted payload (a whole number of AES blocks) the integrity pad is always FF FF 02 *)
Lemma integrity_padlen_blocks k : integrity_padlen (16 * k) = 2%nat.
Proof. unfold integrity_padlen. lia. Qed.

(* ===================================================================== *)
(* C03 spelled out                                                        *)
(* ===================================================================== *)
Section SpelledOut.
Variable act : Bmc.active.
Local Notation key := (firstn 16 (Bmc.a_k2 act)).
Hypothesis k2_length : (16 <= length (Bmc.a_k2 act))%nat.
Hypothesis k2_bytes : is_byte_list (Bmc.a_k2 act).
Variable s : session.
Hypothesis s_remote : s_remote_id s = Bmc.a_bmc_id act.
Hypothesis s_signs : forall m, Some (s_sign s m) = Bmc.authcode (Bmc.a_integ act) (Bmc.a_k1 act) m.
Hypothesis s_encrypts : s_enc s = aes128_encrypt_block key.

(* wrapper addressed to the BMC's session ID with the caller's sequence number, both flags set;
   AuthCode = the negotiated keyed hash under K1 over exactly auth type .. next header, that range
   being a multiple of 4 bytes ending FF FF 02 07; payload = the caller's IV followed by
   AES-128-CBC under K2[0..15] of message ‖ 01 02 .. p ‖ p, a whole number of blocks, which the
   BMC's key decrypts to that plaintext; the message is a checksum-valid IPMI LAN request for
   exactly the caller's command *)
Theorem sent_packet_spelled_out : forall sqn iv o lun body pkt,
  length iv = 16%nat -> is_byte_list iv -> is_byte_list body ->
  op_fn o < 64 -> op_fn o mod 2 = 0 -> op_fn o <> 0x2e -> op_cmd o < 256 -> lun < 4 ->
  (op_fn o = 0x2c -> op_body o < 256) ->
  request_message_length o body < 65504 ->
  session_command_packet s sqn iv o lun body = Ok pkt ->
  exists msg ct code,
    let p := (15 - Nat.modulo (length msg) 16)%nat in
    let padded := msg ++ map (fun i => N.of_nat (i + 1)) (seq 0 p) ++ [N.of_nat p] in
    let cov := [6; 0xC0] ++ put_le32 (Bmc.a_bmc_id act) ++ put_le32 sqn
                 ++ put_le16 (N.of_nat (16 + length ct)) ++ (iv ++ ct) ++ [0xff; 0xff; 2; 7] in
    pkt = [6; 0; 0xff; 7] ++ cov ++ code /\
    N.of_nat (16 + length ct) < 65536 /\
    Nat.modulo (length cov) 4 = 0%nat /\
    Some code = Bmc.authcode (Bmc.a_integ act) (Bmc.a_k1 act) cov /\
    length code = Bmc.authcode_len (Bmc.a_integ act) /\
    ct = cbc_encrypt (aes128_encrypt_block key) iv padded /\
    cbc_decrypt (aes128_decrypt_block key) iv ct = padded /\
    Nat.modulo (length padded) 16 = 0%nat /\ length ct = length padded /\
    N.of_nat (length msg) = request_message_length o body /\
    lan_request msg = Some (expected_lanreq o lun body).
Proof.
  intros sqn iv o lun body pkt Hiv Fiv Fb Hf He H2e Hc Hl Hb Hlen S.
  assert (Henc : forall b, length (s_enc s b) = 16%nat)
    by (intros b; rewrite s_encrypts; apply aes128_encrypt_block_length).
  destruct (sent_packet_layout s Henc sqn iv o lun body pkt Hiv Hf He H2e Hc Hl Hb Hlen S)
    as (m & msg & Sm & Hp & E). cbv zeta in E.
  pose proof (conf_payload_length (s_enc s) iv msg Henc Hiv) as Lp.
  assert (Hrt : cbc_decrypt (aes128_decrypt_block key) iv
                  (cbc_encrypt (aes128_encrypt_block key) iv (msg ++ aes_trailer (length msg)))
                = msg ++ aes_trailer (length msg)).
  { apply (aes128_cbc_decrypt_encrypt key iv _ (Nat.div (length msg) 16 + 1)).
    - rewrite firstn_length. lia.
    - exact (proj1 (Forall_firstn_skipn _ 16 _ k2_bytes)).
    - exact Hiv.
    - exact Fiv.
    - apply padded_length.
    - apply Forall_app. split; [|apply aes_trailer_byte].
      exact (request_message_is_bytes o lun body m msg Hf He H2e Hc Hl Hb Fb Sm). }
  unfold conf_payload in *. rewrite s_encrypts, aes_trailer_eq in *.
  unfold aes_padbytes, aes_padlen in *.
  set (p := (15 - Nat.modulo (length msg) 16)%nat) in *.
  set (padded := msg ++ map (fun i => N.of_nat (i + 1)) (seq 0 p) ++ [N.of_nat p]) in *.
  set (ct := cbc_encrypt (aes128_encrypt_block key) iv padded) in *.
  assert (Lpad : length padded = (16 * (Nat.div (length msg) 16 + 1))%nat).
  { unfold padded. rewrite !app_length, map_length, seq_length. cbn [length]. unfold p. lia. }
  assert (Lct : length ct = length padded) by (rewrite app_length in Lp; lia).
  assert (Liv : length (iv ++ ct) = (16 + length ct)%nat) by (rewrite app_length; lia).
  exists msg, ct, (s_sign s (covered_bytes (s_remote_id s) sqn (iv ++ ct))). cbv zeta. fold p. fold padded.
  assert (Ecov : covered_bytes (s_remote_id s) sqn (iv ++ ct)
                 = [6; 192] ++ put_le32 (Bmc.a_bmc_id act) ++ put_le32 sqn
                     ++ put_le16 (N.of_nat (16 + length ct)) ++ (iv ++ ct) ++ [255; 255; 2; 7]).
  { unfold covered_bytes. rewrite Liv, s_remote.
    replace (16 + length ct)%nat with (16 * (Nat.div (length msg) 16 + 2))%nat at 2 3 by lia.
    rewrite integrity_padlen_blocks. reflexivity. }
  rewrite <- Ecov.
  split; [exact E|]. split; [rewrite <- Liv; exact Hp|].
  split; [apply covered_bytes_aligned|]. split; [apply s_signs|].
  split; [apply (authcode_length _ _ _ _ (eq_sym (s_signs _)))|].
  split; [reflexivity|].
  split; [exact Hrt|].
  split; [rewrite Lpad; lia|]. split; [exact Lct|].
  split; [exact (request_message_length_ok o lun body m msg Hf He H2e Hc Hl Hb Sm)|].
  exact (lan_request_roundtrip o lun body m msg Hf He H2e Hc Hl Hb Sm).
Qed.
End SpelledOut.

(* ===================================================================== *)
(* the premises hold for the session the handshake produces               *)
(* ===================================================================== *)
(* the library's signing function is the BMC's AuthCode for the three integrity algorithms it offers;
   HMAC-MD5-128: the library truncates to 16 bytes, the digest is 16 bytes *)
Lemma integrity_sign_authcode integ k1 sg :
  In integ [1; 2; 4] -> integrity_sign integ k1 = Some sg ->
  forall m, Some (sg m) = Bmc.authcode integ k1 m.
Proof.
  intros Hin Hs m. cbn [In] in Hin.
  destruct Hin as [<-|[<-|[<-|[]]]]; cbv beta iota delta [integrity_sign integrity_params] in Hs;
    apply Some_inj in Hs; subst sg; cbn [Bmc.authcode]; try reflexivity.
  f_equal. apply firstn_all2. rewrite hmac_length. lia.
Qed.

(* copy(key[:16], K2) takes the first 16 bytes of K2 *)
Lemma copy_into_zeros_firstn n : forall src, (n <= length src)%nat -> copy_into (zeros n) src = firstn n src.
Proof.
  unfold zeros. induction n as [|n IH]; intros src H; [reflexivity|].
  destruct src as [|x r]; [cbn [length] in H; lia|].
  cbn [repeat copy_into firstn]. f_equal. apply IH. cbn [length] in H. lia.
Qed.
Lemma aes_key_of_firstn k2 : (16 <= length k2)%nat -> aes_key_of k2 = firstn 16 k2.
Proof. apply copy_into_zeros_firstn. Qed.

(* [e] is what the console holds after RAKP 4, [act] what the BMC holds; the equations between
   them are the conclusion of [key_agreement] (KeyAgreement.v) *)
Theorem established_session_accepted : forall e s act,
  session_of e = Some s ->
  es_k1 e = Bmc.a_k1 act -> es_k2 e = Bmc.a_k2 act -> es_remote_id e = Bmc.a_bmc_id act ->
  Bmc.a_integ act = su_integ (es_suite e) -> In (su_integ (es_suite e)) [1; 2; 4] ->
  es_aes_key e = aes_key_of (es_k2 e) -> (16 <= length (es_k2 e))%nat -> is_byte_list (es_k2 e) ->
  es_remote_id e < 4294967296 ->
  forall seq iv o lun body pkt,
  seq < 4294967296 -> length iv = 16%nat -> is_byte_list iv -> is_byte_list body ->
  op_fn o < 64 -> op_fn o mod 2 = 0 -> op_fn o <> 0x2e -> op_cmd o < 256 -> lun < 4 ->
  (op_fn o = 0x2c -> op_body o < 256) ->
  request_message_length o body < 65504 ->
  session_command_packet s seq iv o lun body = Ok pkt ->
  Bmc.accept act pkt = Some (iv, seq, expected_lanreq o lun body).
Proof.
  intros e s act Hs Ek1 Ek2 Eid Einteg Hin Ekey Hk2 Fk2 Hid.
  unfold session_of in Hs.
  destruct (integrity_sign (su_integ (es_suite e)) (es_k1 e)) as [sg|] eqn:Hsg; [|discriminate Hs].
  apply Some_inj in Hs. subst s. intros seq iv o lun body pkt Hsq Hiv Fiv Fb Hf He H2e Hc Hl Hb Hlen S.
  rewrite Ek2 in Hk2, Fk2.
  apply (sent_packet_accepted_aes128 act) with (s := {| s_local_id := es_local_id e; s_remote_id := es_remote_id e;
          s_sign := sg; s_enc := aes128_encrypt_block (es_aes_key e); s_dec := aes128_decrypt_block (es_aes_key e) |});
    cbn [s_remote_id s_sign s_enc]; try assumption.
  - intros m. rewrite Einteg, <- Ek1. exact (integrity_sign_authcode _ _ _ Hin Hsg m).
  - rewrite Ekey, Ek2, aes_key_of_firstn by exact Hk2. reflexivity.
Qed.

(* "every datagram the library transmits": whatever fits in a UDP/IPv4 datagram *)
Theorem sent_packet_accepted_udp : forall act s,
  (16 <= length (Bmc.a_k2 act))%nat -> is_byte_list (Bmc.a_k2 act) ->
  s_remote_id s = Bmc.a_bmc_id act -> s_remote_id s < 4294967296 ->
  (forall m, Some (s_sign s m) = Bmc.authcode (Bmc.a_integ act) (Bmc.a_k1 act) m) ->
  s_enc s = aes128_encrypt_block (firstn 16 (Bmc.a_k2 act)) ->
  forall seq iv o lun body pkt,
  seq < 4294967296 -> length iv = 16%nat -> is_byte_list iv -> is_byte_list body ->
  op_fn o < 64 -> op_fn o mod 2 = 0 -> op_fn o <> 0x2e -> op_cmd o < 256 -> lun < 4 ->
  (op_fn o = 0x2c -> op_body o < 256) ->
  session_command_packet s seq iv o lun body = Ok pkt ->
  N.of_nat (length pkt) <= 65507 ->
  Bmc.accept act pkt = Some (iv, seq, expected_lanreq o lun body).
Proof.
  intros act s Hk2 Fk2 Eid Hid Hsign Henc seq iv o lun body pkt Hsq Hiv Fiv Fb Hf He H2e Hc Hl Hb S Hudp.
  apply (sent_packet_accepted_aes128 act s Eid Hid Hsign Henc); try assumption.
  apply (udp_size_bound s seq iv o lun body pkt); try assumption.
  intros b. rewrite Henc. apply aes128_encrypt_block_length.
Qed.

(* one concrete instance, computed: cipher suite 3 keys, Set Session Privilege Level *)
Example concrete_instance :
  let k1 := map N.of_nat (seq 1 20) in let k2 := map N.of_nat (seq 50 20) in
  let iv := map N.of_nat (seq 100 16) in
  let act := {| Bmc.a_console_id := 5; Bmc.a_bmc_id := 0x01020304; Bmc.a_integ := 1; Bmc.a_conf := 1;
                Bmc.a_sik := []; Bmc.a_k1 := k1; Bmc.a_k2 := k2 |} in
  let s := {| s_local_id := 5; s_remote_id := 0x01020304; s_sign := fun m => firstn 12 (hmac_alg 1 k1 m);
              s_enc := aes128_encrypt_block (firstn 16 k2); s_dec := aes128_decrypt_block (firstn 16 k2) |} in
  let o := {| op_fn := 6; op_body := 0; op_ent := 0; op_cmd := 0x3b |} in
  exists pkt, session_command_packet s 7 iv o 0 [4] = Ok pkt /\
              Bmc.accept act pkt = Some (iv, 7, expected_lanreq o 0 [4]).
Proof. cbv zeta. eexists. split; [vm_compute; reflexivity|]. vm_compute. reflexivity. Qed.

Print Assumptions sent_packet_accepted_aes128.
Print Assumptions sent_packet_accepted_cbc.
Print Assumptions sent_packet_accepted.
Print Assumptions sent_packet_spelled_out.
Print Assumptions oversize_request_rejected.
Print Assumptions established_session_accepted.
Print Assumptions sent_packet_accepted_udp.
