(* RejectProofs.v — malformed responses are rejected with an error ([= Err]),
   for every input and every prior state:
     1. the two IPMI message checksums (and: any single-byte corruption of an
        accepted message is rejected);
     2. the length field of the RMCP+ session wrapper (and what the v1.5
        wrapper does with its length field: nothing);
     3. every decoder rejects a body shorter than its layout
        ([all_short_rejected]). *)
From BMC Require Import Base BaseFacts Prim PrimProofs Layers Layers2 LayerTotal LayerTotal2.
From Coq Require Import ZifyN ZifyNat ZifyBool.
Ltac Zify.zify_post_hook ::= Z.div_mod_to_equations.

(* ---------- inversion of the monad (local copies; AcceptProofs has the same) ---------- *)
Lemma rj_bind_ok {A B} (r : res A) (f : A -> res B) b : bind r f = Ok b -> exists a, r = Ok a /\ f a = Ok b.
Proof. destruct r; simpl; intros E; try discriminate. eauto. Qed.
Lemma rj_guard_ok {A} c (k : res A) a : guard c k = Ok a -> c = false /\ k = Ok a.
Proof. unfold guard. destruct c; intros E; [discriminate|auto]. Qed.
Lemma rj_get_inv i bs b : get i bs = Ok b -> (i < length bs)%nat /\ b = nth i bs 0.
Proof.
  unfold get. destruct (nth_error bs i) eqn:E; intros H; [|discriminate]. injection H as <-.
  split; [apply nth_error_Some; congruence|]. symmetry. apply nth_error_nth. exact E.
Qed.
Lemma rj_get_le16 i bs : (i + 1 < length bs)%nat -> get_le16 i bs = Ok (le16 (nth i bs 0) (nth (i + 1) bs 0)).
Proof. intros H. unfold get_le16. rewrite !get_ok' by lia. reflexivity. Qed.
Lemma rj_get_le32 i bs : (i + 3 < length bs)%nat ->
  get_le32 i bs = Ok (le32 (nth i bs 0) (nth (i + 1) bs 0) (nth (i + 2) bs 0) (nth (i + 3) bs 0)).
Proof. intros H. unfold get_le32. rewrite !get_ok' by lia. reflexivity. Qed.

(* ---------- one element in the middle of a list ---------- *)
Lemma firstn_mid_gt {A} k (pre : list A) a post : (length pre < k)%nat ->
  firstn k (pre ++ a :: post) = pre ++ a :: firstn (k - length pre - 1) post.
Proof.
  intros H. rewrite firstn_app. rewrite firstn_all2 by lia. f_equal.
  destruct (k - length pre)%nat as [|j] eqn:E; [lia|]. cbn [firstn]. do 2 f_equal. lia.
Qed.
Lemma firstn_mid_le {A} k (pre : list A) a post : (k <= length pre)%nat ->
  firstn k (pre ++ a :: post) = firstn k pre.
Proof.
  intros H. rewrite firstn_app. replace (k - length pre)%nat with 0%nat by lia.
  cbn [firstn]. apply app_nil_r.
Qed.
Lemma skipn_mid_le {A} k (pre : list A) a post : (k <= length pre)%nat ->
  skipn k (pre ++ a :: post) = skipn k pre ++ a :: post.
Proof.
  intros H. rewrite skipn_app. replace (k - length pre)%nat with 0%nat by lia. reflexivity.
Qed.
Lemma skipn_mid_gt {A} k (pre : list A) a post : (length pre < k)%nat ->
  skipn k (pre ++ a :: post) = skipn (k - length pre - 1) post.
Proof.
  intros H. rewrite skipn_app. rewrite skipn_all2 by lia. cbn [app].
  destruct (k - length pre)%nat as [|j] eqn:E; [lia|]. cbn [skipn]. f_equal. lia.
Qed.
Lemma nth_mid_gt {A} k (pre : list A) a post d : (length pre < k)%nat ->
  nth k (pre ++ a :: post) d = nth (k - length pre - 1) post d.
Proof.
  intros H. rewrite app_nth2 by lia.
  destruct (k - length pre)%nat as [|j] eqn:E; [lia|]. cbn [nth]. f_equal. lia.
Qed.
Lemma nth_mid_eq {A} k (pre : list A) a post d : k = length pre -> nth k (pre ++ a :: post) d = a.
Proof. intros ->. apply nth_middle. Qed.
Lemma nth_mid_lt {A} k (pre : list A) a post d : (k < length pre)%nat ->
  nth k (pre ++ a :: post) d = nth k pre d.
Proof. intros H. apply app_nth1. exact H. Qed.

(* ---------- the checksum is injective in any one byte ---------- *)
Lemma sum_bytes_app xs ys : sum_bytes (xs ++ ys) = sum_bytes xs + sum_bytes ys.
Proof. induction xs as [|x r IH]; cbn [app sum_bytes]; [reflexivity|]. rewrite IH. lia. Qed.

Lemma checksum_sum data : Impl.checksum data = (256 - sum_bytes data mod 256) mod 256.
Proof. unfold Impl.checksum. rewrite checksum_fold by lia. reflexivity. Qed.

Theorem checksum_inj_byte xs ys a a' : a < 256 -> a' < 256 ->
  Impl.checksum (xs ++ a :: ys) = Impl.checksum (xs ++ a' :: ys) -> a = a'.
Proof.
  intros Ha Ha'. rewrite !checksum_sum, !sum_bytes_app. cbn [sum_bytes].
  generalize (sum_bytes xs) (sum_bytes ys). intros s t H. lia.
Qed.

(* =====================================================================
   1. IPMI message checksums
   ===================================================================== *)
Ltac msg_head :=
  unfold decode_message, guard; cbv zeta;
  match goal with |- context [Nat.ltb (length ?bs) 7] =>
    destruct (Nat.ltb_spec (length bs) 7); [try reflexivity; try lia|] end.

(* (a) header checksum *)
Theorem message_bad_checksum1 : forall old bs, (7 <= length bs)%nat ->
  nth 2 bs 0 <> Impl.checksum (firstn 2 bs) -> decode_message old bs = Err.
Proof.
  intros old bs Hn Hc. msg_head.
  rewrite ?get_ok' by lia. rewrite slice_to_ok by lia. cbn [bind].
  destruct (N.eqb_spec (nth 2 bs 0) (Impl.checksum (firstn 2 bs))); [contradiction|reflexivity].
Qed.

(* (b) body checksum: the last byte against bytes 3 .. n-2 *)
Theorem message_bad_checksum2 : forall old bs, (7 <= length bs)%nat ->
  nth 2 bs 0 = Impl.checksum (firstn 2 bs) ->
  nth (length bs - 1) bs 0 <> Impl.checksum (firstn (length bs - 4) (skipn 3 bs)) ->
  decode_message old bs = Err.
Proof.
  intros old bs Hn Hc1 Hc2. msg_head.
  rewrite ?get_ok' by lia. rewrite slice_to_ok by lia. cbn [bind].
  destruct (N.eqb_spec (nth 2 bs 0) (Impl.checksum (firstn 2 bs))); [|contradiction]. cbn [negb].
  rewrite slice_ok by lia. cbn [bind].
  replace (length bs - 1 - 3)%nat with (length bs - 4)%nat by lia.
  destruct (N.eqb_spec (nth (length bs - 1) bs 0) (Impl.checksum (firstn (length bs - 4) (skipn 3 bs))));
    [contradiction|reflexivity].
Qed.

Theorem message_short : forall old bs, (length bs < 7)%nat -> decode_message old bs = Err.
Proof. intros old bs H. msg_head. lia. Qed.

(* (c) an accepted message has the length and both checksums *)
Theorem message_accept_inv : forall old bs m, decode_message old bs = Ok m ->
  (7 <= length bs)%nat /\ nth 2 bs 0 = Impl.checksum (firstn 2 bs) /\
  nth (length bs - 1) bs 0 = Impl.checksum (firstn (length bs - 4) (skipn 3 bs)).
Proof.
  intros old bs m H.
  destruct (le_lt_dec 7 (length bs)) as [Hn|Hn]; [|rewrite message_short in H by exact Hn; discriminate].
  destruct (N.eq_dec (nth 2 bs 0) (Impl.checksum (firstn 2 bs))) as [E1|E1];
    [|rewrite message_bad_checksum1 in H by assumption; discriminate].
  destruct (N.eq_dec (nth (length bs - 1) bs 0) (Impl.checksum (firstn (length bs - 4) (skipn 3 bs)))) as [E2|E2];
    [|rewrite message_bad_checksum2 in H by assumption; discriminate].
  auto.
Qed.

(* the contrapositive reading: anything that is not [Err] satisfies the three facts; together with
   [message_total] (never [Fault]) the decoder's answer is [Err] exactly outside them *)
Corollary message_reject_iff_checks : forall old bs,
  ~ ((7 <= length bs)%nat /\ nth 2 bs 0 = Impl.checksum (firstn 2 bs) /\
     nth (length bs - 1) bs 0 = Impl.checksum (firstn (length bs - 4) (skipn 3 bs))) ->
  decode_message old bs = Err.
Proof.
  intros old bs H. destruct (decode_message old bs) eqn:E; [|reflexivity|].
  - exfalso. apply H. eapply message_accept_inv. exact E.
  - exfalso. exact (message_total old bs E).
Qed.

(* (d) the two checks pin every single byte: two datagrams that differ in exactly one byte (both values
   below 256) cannot both pass *)
Definition msg_checks (bs : bytes) : Prop :=
  (7 <= length bs)%nat /\ nth 2 bs 0 = Impl.checksum (firstn 2 bs) /\
  nth (length bs - 1) bs 0 = Impl.checksum (firstn (length bs - 4) (skipn 3 bs)).

Lemma msg_checks_single_byte pre a a' post : a < 256 -> a' < 256 ->
  msg_checks (pre ++ a :: post) -> msg_checks (pre ++ a' :: post) -> a = a'.
Proof.
  intros Ha Ha' (Hn & C1 & C2) (_ & C1' & C2').
  assert (L : forall x, length (pre ++ x :: post) = (length pre + S (length post))%nat)
    by (intros x; rewrite app_length; reflexivity).
  rewrite L in *.
  destruct (lt_dec (length pre) 2) as [P2|P2].
  { (* bytes 0, 1: covered by checksum 1 *)
    rewrite nth_mid_gt in C1, C1' by lia. rewrite firstn_mid_gt in C1, C1' by lia.
    rewrite C1 in C1'. eapply checksum_inj_byte; eassumption. }
  destruct (Nat.eq_dec (length pre) 2) as [E2|N2].
  { (* byte 2: checksum 1 itself *)
    rewrite nth_mid_eq in C1, C1' by lia. rewrite firstn_mid_le in C1, C1' by lia. congruence. }
  destruct post as [|p post].
  { (* the last byte: checksum 2 itself *)
    cbn [length] in *.
    rewrite nth_mid_eq in C2, C2' by lia.
    rewrite skipn_mid_le in C2, C2' by lia.
    rewrite firstn_mid_le in C2, C2' by (rewrite skipn_length; lia). congruence. }
  (* bytes 3 .. n-2: covered by checksum 2 *)
  cbn [length] in *.
  rewrite nth_mid_gt in C2, C2' by lia.
  rewrite skipn_mid_le in C2, C2' by lia.
  rewrite firstn_mid_gt in C2, C2' by (rewrite skipn_length; lia).
  rewrite C2 in C2'. eapply checksum_inj_byte; eassumption.
Qed.

Theorem message_single_byte_corruption : forall old old' pre a a' post m,
  a < 256 -> a' < 256 -> a <> a' ->
  decode_message old (pre ++ a :: post) = Ok m ->
  decode_message old' (pre ++ a' :: post) = Err.
Proof.
  intros old old' pre a a' post m Ha Ha' Hne H.
  apply message_accept_inv in H.
  apply message_reject_iff_checks. intros H'. apply Hne.
  eapply msg_checks_single_byte; eassumption.
Qed.

(* the same with the byte condition on whole datagrams *)
Corollary message_single_byte_corruption_all_bytes : forall old old' pre a a' post m,
  all_bytes (pre ++ a :: post) = true -> all_bytes (pre ++ a' :: post) = true -> a <> a' ->
  decode_message old (pre ++ a :: post) = Ok m ->
  decode_message old' (pre ++ a' :: post) = Err.
Proof.
  intros old old' pre a a' post m B B'. apply message_single_byte_corruption.
  - apply (all_bytes_In _ _ B). apply in_or_app. right. left. reflexivity.
  - apply (all_bytes_In _ _ B'). apply in_or_app. right. left. reflexivity.
Qed.

(* the two checksum bytes themselves need no byte condition *)
Corollary message_corrupt_checksum1_byte : forall old old' x y c c' post m, c <> c' ->
  decode_message old (x :: y :: c :: post) = Ok m -> decode_message old' (x :: y :: c' :: post) = Err.
Proof.
  intros old old' x y c c' post m Hne H. apply message_accept_inv in H. destruct H as (Hn & C1 & _).
  apply message_bad_checksum1; [exact Hn|]. cbn [nth firstn] in *. congruence.
Qed.
Corollary message_corrupt_checksum2_byte : forall old old' pre c c' m, c <> c' ->
  decode_message old (pre ++ [c]) = Ok m -> decode_message old' (pre ++ [c']) = Err.
Proof.
  intros old old' pre c c' m Hne H. apply message_accept_inv in H.
  apply message_reject_iff_checks. intros H'.
  destruct H as (Hn & C1 & C2), H' as (_ & C1' & C2').
  rewrite app_length in *. cbn [length] in *.
  rewrite nth_mid_eq in C2, C2' by lia.
  rewrite skipn_mid_le in C2, C2' by lia.
  rewrite firstn_mid_le in C2, C2' by (rewrite skipn_length; lia). congruence.
Qed.

(* the byte condition in (d) is necessary in the model, where a "byte" is any N: 0 and 256 have the same sum *)
Example message_corruption_needs_bytes :
  is_ok (decode_message message_zero [0x20; 0x18; 0xc8; 0x81; 0x00; 0x38; 0x47]) = true /\
  is_ok (decode_message message_zero [0x20; 0x18; 0xc8; 0x81; 0x100; 0x38; 0x47]) = true.
Proof. split; vm_compute; reflexivity. Qed.

(* =====================================================================
   2. the session wrappers' length fields
   ===================================================================== *)
(* RMCP+ : the 16-bit length field is checked against the bytes that follow the header (12 bytes; 18 for an
   OEM payload type, which carries a 4-byte enterprise number and a 2-byte payload id) *)
Definition v2_header_len (ptype : N) : nat := if ptype =? 2 then 18%nat else 12%nat.

Theorem v2session_accept_inv : forall sign old bs w, decode_v2session sign old bs = Ok w ->
  (v2_header_len (v2_ptype w) + N.to_nat (v2_length w) <= length bs)%nat /\
  v2_payload w = firstn (N.to_nat (v2_length w)) (skipn (v2_header_len (v2_ptype w)) bs).
Proof.
  intros sign old bs w H. unfold decode_v2session in H. cbv zeta in H.
  apply rj_guard_ok in H. destruct H as [_ H].
  apply rj_bind_ok in H. destruct H as [d0 [_ H]].
  apply rj_guard_ok in H. destruct H as [_ H].
  apply rj_bind_ok in H. destruct H as [d1 [_ H]].
  apply rj_bind_ok in H. destruct H as [[[offset ent] pid] [Ho H]].
  apply rj_bind_ok in H. destruct H as [id [_ H]].
  apply rj_bind_ok in H. destruct H as [sq [_ H]].
  apply rj_bind_ok in H. destruct H as [len [_ H]].
  apply rj_guard_ok in H. destruct H as [G H]. apply Nat.ltb_ge in G.
  apply rj_bind_ok in H. destruct H as [payload [Hp H]].
  assert (Hoff : (offset + 10)%nat = v2_header_len (N.land d1 63)).
  { unfold v2_header_len. destruct (N.land d1 63 =? 2).
    - apply rj_guard_ok in Ho. destruct Ho as [_ Ho].
      apply rj_bind_ok in Ho. destruct Ho as [e [_ Ho]]. apply rj_bind_ok in Ho. destruct Ho as [p [_ Ho]].
      injection Ho as <- _ _. reflexivity.
    - injection Ho as <- _ _. reflexivity. }
  assert (Hpl : payload = firstn (N.to_nat len) (skipn (offset + 10) bs)).
  { unfold slice in Hp. match type of Hp with (if ?c then _ else _) = _ => destruct c; [|discriminate] end.
    injection Hp as <-. f_equal. lia. }
  assert (Hw : v2_ptype w = N.land d1 63 /\ v2_length w = len /\ v2_payload w = payload).
  { destruct (negb (tbit 6 d1)).
    - injection H as <-. cbn. auto.
    - apply rj_bind_ok in H. destruct H as [rem [_ H]].
      apply rj_guard_ok in H. destruct H as [_ H].
      apply rj_bind_ok in H. destruct H as [sg [_ H]].
      apply rj_bind_ok in H. destruct H as [signed [_ H]].
      apply rj_guard_ok in H. destruct H as [_ H].
      injection H as <-. cbn. auto. }
  destruct Hw as (-> & -> & ->). rewrite <- Hoff. split; [lia|exact Hpl].
Qed.

(* rejection, any datagram: standard payload types *)
Theorem v2session_length_exceeds_std : forall sign old bs, (12 <= length bs)%nat ->
  N.land (nth 1 bs 0) 0x3f <> 2 ->
  (length bs < 12 + N.to_nat (le16 (nth 10 bs 0%N) (nth 11 bs 0%N)))%nat ->
  decode_v2session sign old bs = Err.
Proof.
  intros sign old bs Hn Hpt Hlen. unfold decode_v2session, guard. cbv zeta.
  destruct (Nat.ltb_spec (length bs) 12); [reflexivity|].
  rewrite !get_ok' by lia. cbn [bind].
  destruct (negb (nth 0 bs 0 =? 6)); [reflexivity|].
  destruct (N.eqb_spec (N.land (nth 1 bs 0) 63) 2); [contradiction|]. cbn [bind].
  rewrite !rj_get_le32 by lia. rewrite rj_get_le16 by lia. cbn [bind].
  match goal with |- context [Nat.ltb (length bs) ?n] => destruct (Nat.ltb_spec (length bs) n) end;
    [reflexivity|]. exfalso. cbn [Nat.add] in *. lia.
Qed.

(* rejection, any datagram: OEM payload type (18-byte header) *)
Theorem v2session_length_exceeds_oem : forall sign old bs, (18 <= length bs)%nat ->
  N.land (nth 1 bs 0) 0x3f = 2 ->
  (length bs < 18 + N.to_nat (le16 (nth 16 bs 0%N) (nth 17 bs 0%N)))%nat ->
  decode_v2session sign old bs = Err.
Proof.
  intros sign old bs Hn Hpt Hlen. unfold decode_v2session, guard. cbv zeta.
  destruct (Nat.ltb_spec (length bs) 12); [reflexivity|].
  rewrite !get_ok' by lia. cbn [bind].
  destruct (negb (nth 0 bs 0 =? 6)); [reflexivity|].
  rewrite Hpt. cbn [N.eqb Pos.eqb].
  destruct (Nat.ltb_spec (length bs) 18); [reflexivity|].
  rewrite !rj_get_le32 by lia. rewrite !rj_get_le16 by lia. cbn [bind].
  rewrite !rj_get_le32 by lia. rewrite !rj_get_le16 by lia. cbn [bind].
  match goal with |- context [Nat.ltb (length bs) ?n] => destruct (Nat.ltb_spec (length bs) n) end;
    [reflexivity|]. exfalso. cbn [Nat.add] in *. lia.
Qed.

(* an OEM wrapper shorter than its 18-byte header *)
Theorem v2session_oem_short : forall sign old bs, (length bs < 18)%nat ->
  N.land (nth 1 bs 0) 0x3f = 2 -> decode_v2session sign old bs = Err.
Proof.
  intros sign old bs Hn Hpt. unfold decode_v2session, guard. cbv zeta.
  destruct (Nat.ltb_spec (length bs) 12); [reflexivity|].
  rewrite !get_ok' by lia. cbn [bind].
  destruct (negb (nth 0 bs 0 =? 6)); [reflexivity|].
  rewrite Hpt. cbn [N.eqb Pos.eqb].
  destruct (Nat.ltb_spec (length bs) 18); [reflexivity|lia].
Qed.

(* the same on an explicit header *)
Theorem v2session_length_exceeds : forall sign old d1 i0 i1 i2 i3 s0 s1 s2 s3 l0 l1 rest,
  N.land d1 0x3f <> 2 -> (length rest < N.to_nat (le16 l0 l1))%nat ->
  decode_v2session sign old (6 :: d1 :: i0 :: i1 :: i2 :: i3 :: s0 :: s1 :: s2 :: s3 :: l0 :: l1 :: rest) = Err.
Proof.
  intros. apply v2session_length_exceeds_std; cbn [length nth]; [lia|assumption|lia].
Qed.
Theorem v2session_length_exceeds_oem_hdr :
  forall sign old d1 e0 e1 e2 e3 p0 p1 i0 i1 i2 i3 s0 s1 s2 s3 l0 l1 rest,
  N.land d1 0x3f = 2 -> (length rest < N.to_nat (le16 l0 l1))%nat ->
  decode_v2session sign old (6 :: d1 :: e0 :: e1 :: e2 :: e3 :: p0 :: p1 ::
                             i0 :: i1 :: i2 :: i3 :: s0 :: s1 :: s2 :: s3 :: l0 :: l1 :: rest) = Err.
Proof.
  intros. apply v2session_length_exceeds_oem; cbn [length nth]; [lia|assumption|lia].
Qed.

(* a wrapper that is not RMCP+ (auth type / format byte other than 6) *)
Theorem v2session_bad_authtype : forall sign old bs, nth 0 bs 0 <> 6 -> decode_v2session sign old bs = Err.
Proof.
  intros sign old bs H0. unfold decode_v2session, guard. cbv zeta.
  destruct (Nat.ltb_spec (length bs) 12); [reflexivity|].
  rewrite !get_ok' by lia. cbn [bind].
  destruct (N.eqb_spec (nth 0 bs 0) 6); [contradiction|reflexivity].
Qed.

(* the check is one-sided: bytes beyond the announced length are not an error.  Without the authenticated
   flag they are ignored (with it they are read as integrity pad, pad length, next header and AuthCode) *)
Example v2session_trailing_bytes_accepted : forall sign,
  exists w, decode_v2session sign v2session_zero [6; 0; 0;0;0;0; 0;0;0;0; 1;0; 0xaa; 0xbb; 0xcc] = Ok w /\
            v2_length w = 1 /\ v2_payload w = [0xaa].
Proof. intros sign. eexists. split; [reflexivity|]. split; reflexivity. Qed.

(* IPMI v1.5 wrapper: decode_v1session does NOT compare its length byte with the bytes that follow; it records
   the byte and hands on everything after the header.  What it does, exactly: *)
Theorem v1session_length_unchecked_noauth : forall old q0 q1 q2 q3 i0 i1 i2 i3 l rest,
  decode_v1session old (0 :: q0 :: q1 :: q2 :: q3 :: i0 :: i1 :: i2 :: i3 :: l :: rest) =
  Ok {| v1_authtype := 0; v1_sequence := le32 q0 q1 q2 q3; v1_id := le32 i0 i1 i2 i3;
        v1_authcode := zeros 16; v1_length := l; v1_payload := rest |}.
Proof. intros. reflexivity. Qed.

Theorem v1session_accept_inv : forall old bs w, decode_v1session old bs = Ok w ->
  let hdr := if v1_authtype w =? 0 then 10%nat else 26%nat in
  (hdr <= length bs)%nat /\ v1_authtype w = nth 0 bs 0 /\
  v1_length w = nth (hdr - 1) bs 0 /\ v1_payload w = skipn hdr bs.
Proof.
  intros old bs w H. unfold decode_v1session in H.
  apply rj_guard_ok in H. destruct H as [G H]. apply Nat.ltb_ge in G.
  apply rj_bind_ok in H. destruct H as [at_ [Hat H]]. apply rj_get_inv in Hat. destruct Hat as [_ ->].
  apply rj_bind_ok in H. destruct H as [sq [_ H]].
  apply rj_bind_ok in H. destruct H as [id [_ H]].
  destruct (nth 0 bs 0 =? 0) eqn:E.
  - apply rj_bind_ok in H. destruct H as [p [Hp H]]. apply rj_bind_ok in H. destruct H as [l [Hl H]].
    injection H as <-. cbn. rewrite E. cbn.
    apply rj_get_inv in Hl. destruct Hl as [_ ->].
    unfold slice_from in Hp. destruct (Nat.leb 10 (length bs)); [|discriminate]. injection Hp as <-. auto.
  - apply rj_guard_ok in H. destruct H as [G2 H]. apply Nat.ltb_ge in G2.
    apply rj_bind_ok in H. destruct H as [p [Hp H]]. apply rj_bind_ok in H. destruct H as [ac [_ H]].
    apply rj_bind_ok in H. destruct H as [l [Hl H]].
    injection H as <-. cbn. rewrite E. cbn.
    apply rj_get_inv in Hl. destruct Hl as [_ ->].
    unfold slice_from in Hp. destruct (Nat.leb 26 (length bs)); [|discriminate]. injection Hp as <-. auto.
Qed.

(* so a length byte that disagrees with the payload is accepted: *)
Example v1session_length_mismatch_accepted :
  exists w, decode_v1session v1session_zero [0; 0;0;0;0; 0;0;0;0; 200; 1; 2; 3] = Ok w /\
            v1_length w = 200 /\ v1_payload w = [1; 2; 3].
Proof. eexists. split; [reflexivity|]. split; reflexivity. Qed.

(* =====================================================================
   3. short bodies: every decoder's first guard
   ===================================================================== *)
Ltac short D :=
  intros old bs H; unfold D, guard; cbv zeta;
  match goal with |- context [Nat.ltb (length bs) ?n] =>
    destruct (Nat.ltb_spec (length bs) n); [reflexivity|lia] end.

Theorem rmcp_short : forall old bs, (length bs < 4)%nat -> decode_rmcp old bs = Err.
Proof. short decode_rmcp. Qed.
Theorem selector_short : forall old bs, (length bs < 1)%nat -> decode_selector old bs = Err.
Proof. short decode_selector. Qed.
Theorem v1session_short : forall old bs, (length bs < 10)%nat -> decode_v1session old bs = Err.
Proof. short decode_v1session. Qed.
Theorem rakp1_short : forall old bs, (length bs < 28)%nat -> decode_rakp1 old bs = Err.
Proof. short decode_rakp1. Qed.
Theorem rakp2_short : forall old bs, (length bs < 8)%nat -> decode_rakp2 old bs = Err.
Proof. short decode_rakp2. Qed.
Theorem rakp4_short : forall old bs, (length bs < 8)%nat -> decode_rakp4 old bs = Err.
Proof. short decode_rakp4. Qed.
Theorem deviceid_short : forall old bs, (length bs < 11)%nat -> decode_deviceid old bs = Err.
Proof. short decode_deviceid. Qed.
Theorem chassis_short : forall old bs, (length bs < 3)%nat -> decode_chassis old bs = Err.
Proof. short decode_chassis. Qed.
Theorem authcaps_short : forall old bs, (length bs < 8)%nat -> decode_authcaps old bs = Err.
Proof. short decode_authcaps. Qed.
Theorem ciphersuites_short : forall old bs, (length bs < 1)%nat -> decode_ciphersuites old bs = Err.
Proof. short decode_ciphersuites. Qed.
Theorem sessioninfo_short : forall old bs, (length bs < 3)%nat -> decode_sessioninfo old bs = Err.
Proof. short decode_sessioninfo. Qed.
Theorem guid_short : forall old bs, (length bs < 16)%nat -> decode_guid old bs = Err.
Proof. short decode_guid. Qed.
Theorem reserve_short : forall old bs, (length bs < 2)%nat -> decode_reserve old bs = Err.
Proof. short decode_reserve. Qed.
Theorem getsdrrsp_short : forall old bs, (length bs < 2)%nat -> decode_getsdrrsp old bs = Err.
Proof. short decode_getsdrrsp. Qed.
Theorem sdrhdr_short : forall old bs, (length bs < 5)%nat -> decode_sdrhdr old bs = Err.
Proof. short decode_sdrhdr. Qed.
Theorem sdrrepoinfo_short : forall old bs, (length bs < 14)%nat -> decode_sdrrepoinfo old bs = Err.
Proof. short decode_sdrrepoinfo. Qed.
Theorem sensorreading_short : forall old bs, (length bs < 3)%nat -> decode_sensorreading old bs = Err.
Proof. short decode_sensorreading. Qed.
Theorem fsr_short : forall old bs, (length bs < 43)%nat -> decode_fsr old bs = Err.
Proof. short decode_fsr. Qed.
Theorem powerreading_short : forall old bs, (length bs < 17)%nat -> decode_powerreading old bs = Err.
Proof. short decode_powerreading. Qed.
Theorem dcmisensor_short : forall old bs, (length bs < 2)%nat -> decode_dcmisensor old bs = Err.
Proof. short decode_dcmisensor. Qed.
Theorem v2session_short : forall sign old bs, (length bs < 12)%nat -> decode_v2session sign old bs = Err.
Proof. intros sign. short decode_v2session. Qed.

(* the confidentiality layer: an IV and at least one more byte, whole blocks only *)
Theorem aescbc_short : forall dec old bs, (length bs < 17)%nat -> decode_aescbc dec old bs = Err.
Proof.
  intros dec old bs H. unfold decode_aescbc, guard. cbv zeta.
  destruct (Nat.ltb_spec (length bs) 17); [reflexivity|lia].
Qed.
Theorem aescbc_unaligned : forall dec old bs, Nat.modulo (length bs) 16 <> 0%nat -> decode_aescbc dec old bs = Err.
Proof.
  intros dec old bs H. unfold decode_aescbc, guard. cbv zeta.
  destruct (Nat.eqb_spec (Nat.modulo (length bs) 16) 0); [contradiction|].
  cbn [negb]. rewrite orb_true_r. reflexivity.
Qed.

(* Set Session Privilege Level: exactly one byte *)
Theorem setpriv_wrong_length : forall old bs, length bs <> 1%nat -> decode_setpriv old bs = Err.
Proof.
  intros old bs H. unfold decode_setpriv, guard.
  destruct (Nat.eqb_spec (length bs) 1); [contradiction|reflexivity].
Qed.

(* ---- DCMI capability layers: 3-byte header, then the parameter's own minimum ---- *)
Theorem dcmi_header_short : forall bs, (length bs < 3)%nat -> dcmi_header bs = Err.
Proof. intros bs H. unfold dcmi_header, guard. destruct (Nat.ltb_spec (length bs) 3); [reflexivity|lia]. Qed.

Ltac dcmi_short D :=
  intros old bs H; unfold D;
  destruct (dcmi_header_cases bs) as [->|(mj & mn & rv & -> & Hlen)]; [reflexivity|];
  cbn [bind]; unfold guard;
  match goal with |- context [Nat.ltb (length ?b) ?n] =>
    destruct (Nat.ltb_spec (length b) n) as [|Hge]; [reflexivity|rewrite skipn_length in Hge; lia] end.

Theorem dcmicaps_short : forall old bs, (length bs < 3 + 3)%nat -> decode_dcmicaps old bs = Err.
Proof. dcmi_short decode_dcmicaps. Qed.
Theorem dcmimand_short : forall old bs, (length bs < 3 + 4)%nat -> decode_dcmimand old bs = Err.
Proof. dcmi_short decode_dcmimand. Qed.
Theorem dcmiopt_short : forall old bs, (length bs < 3 + 2)%nat -> decode_dcmiopt old bs = Err.
Proof. dcmi_short decode_dcmiopt. Qed.
Theorem dcmimgmt_short : forall old bs, (length bs < 3 + 3)%nat -> decode_dcmimgmt old bs = Err.
Proof. dcmi_short decode_dcmimgmt. Qed.
Theorem dcmipower_short : forall old bs, (length bs < 3 + 1)%nat -> decode_dcmipower old bs = Err.
Proof. dcmi_short decode_dcmipower. Qed.

(* ---- counted bodies: a count that exceeds the bytes present ---- *)
Theorem dcmipower_count_exceeds : forall old bs, (4 <= length bs)%nat ->
  (length bs < 4 + N.to_nat (nth 3 bs 0%N))%nat -> decode_dcmipower old bs = Err.
Proof.
  intros old bs Hn H. unfold decode_dcmipower.
  destruct (dcmi_header_cases bs) as [->|(mj & mn & rv & -> & Hlen)]; [reflexivity|].
  cbn [bind]. unfold guard.
  assert (Hb : length (skipn 3 bs) = (length bs - 3)%nat) by apply skipn_length.
  destruct (Nat.ltb_spec (length (skipn 3 bs)) 1); [reflexivity|].
  rewrite get_ok' by lia. cbn [bind].
  assert (E : nth 0 (skipn 3 bs) 0 = nth 3 bs 0).
  { rewrite <- (firstn_skipn 3 bs) at 2. rewrite app_nth2 by (rewrite firstn_length; lia).
    rewrite firstn_length. replace (3 - Nat.min 3 (length bs))%nat with 0%nat by lia. reflexivity. }
  rewrite E.
  match goal with |- context [Nat.ltb ?a ?n] => destruct (Nat.ltb_spec a n) end; [reflexivity|lia].
Qed.

Theorem dcmisensor_count_exceeds : forall old bs, (2 <= length bs)%nat ->
  (length bs < 2 + N.to_nat (nth 1 bs 0%N) * 2)%nat -> decode_dcmisensor old bs = Err.
Proof.
  intros old bs Hn H. unfold decode_dcmisensor, guard. cbv zeta.
  destruct (Nat.ltb_spec (length bs) 2); [reflexivity|]. rewrite !get_ok' by lia. cbn [bind].
  match goal with |- context [Nat.ltb ?a ?n] => destruct (Nat.ltb_spec a n) end; [reflexivity|lia].
Qed.

Theorem rakp1_username_too_long : forall old bs, 16 < nth 27 bs 0 -> decode_rakp1 old bs = Err.
Proof.
  intros old bs H. unfold decode_rakp1, guard.
  destruct (Nat.ltb_spec (length bs) 28); [reflexivity|].
  destruct (get_le32_ok 4 bs ltac:(lia)) as [c Hc]. rewrite ?get_ok' by lia. cbn [bind]. rewrite Hc. cbn [bind].
  rewrite slice_ok by lia. cbn [bind]. rewrite ?get_ok' by lia. cbn [bind].
  destruct (N.ltb_spec 16 (nth 27 bs 0)); [reflexivity|lia].
Qed.
Theorem rakp1_username_exceeds : forall old bs,
  (length bs < 28 + N.to_nat (nth 27 bs 0%N))%nat -> decode_rakp1 old bs = Err.
Proof.
  intros old bs H. unfold decode_rakp1, guard.
  destruct (Nat.ltb_spec (length bs) 28); [reflexivity|].
  destruct (get_le32_ok 4 bs ltac:(lia)) as [c Hc]. rewrite ?get_ok' by lia. cbn [bind]. rewrite Hc. cbn [bind].
  rewrite slice_ok by lia. cbn [bind]. rewrite ?get_ok' by lia. cbn [bind].
  destruct (16 <? nth 27 bs 0); [reflexivity|].
  match goal with |- context [Nat.ltb ?a ?n] => destruct (Nat.ltb_spec a n) end; [reflexivity|lia].
Qed.

(* ---- layers whose minimum depends on a status / type byte ---- *)
(* v1.5 wrapper with an authentication type: 16 more bytes of AuthCode *)
Theorem v1session_auth_short : forall old bs, nth 0 bs 0 <> 0 -> (length bs < 26)%nat ->
  decode_v1session old bs = Err.
Proof.
  intros old bs Ha H. unfold decode_v1session, guard.
  destruct (Nat.ltb_spec (length bs) 10); [reflexivity|].
  rewrite get_ok' by lia. rewrite !rj_get_le32 by lia. cbn [bind].
  destruct (N.eqb_spec (nth 0 bs 0) 0); [contradiction|].
  destruct (Nat.ltb_spec (length bs) 26); [reflexivity|lia].
Qed.

(* Open Session Response: one byte (status only) or at least seven *)
Theorem opensessionrsp_short : forall old bs, length bs <> 1%nat -> (length bs < 7)%nat ->
  decode_opensessionrsp old bs = Err.
Proof.
  intros old bs H1 H. unfold decode_opensessionrsp. cbv zeta.
  destruct (Nat.eqb_spec (length bs) 1); [contradiction|].
  unfold guard at 1. destruct (Nat.ltb_spec (length bs) 7); [reflexivity|lia].
Qed.
(* status 0 (byte 0 of a one-byte body, byte 1 otherwise) needs exactly 36 bytes; in particular a one-byte
   "success" is rejected *)
Theorem opensessionrsp_success_wrong_length : forall old bs, length bs <> 36%nat ->
  nth (if Nat.eqb (length bs) 1 then 0 else 1)%nat bs 0 = 0 ->
  decode_opensessionrsp old bs = Err.
Proof.
  intros old bs H36 Hs. unfold decode_opensessionrsp. cbv zeta.
  destruct (Nat.eqb_spec (length bs) 1) as [E1|N1].
  - rewrite get_ok' by lia. cbn [bind]. rewrite Hs. cbn [N.eqb]. unfold guard.
    destruct (Nat.eqb_spec (length bs) 36); [contradiction|reflexivity].
  - unfold guard at 1. destruct (Nat.ltb_spec (length bs) 7); [reflexivity|].
    rewrite !get_ok' by lia. rewrite rj_get_le32 by lia. cbn [bind]. rewrite Hs. cbn [N.eqb]. unfold guard.
    destruct (Nat.eqb_spec (length bs) 36); [contradiction|reflexivity].
Qed.

(* RAKP Message 2 with status 0 carries both 16-byte fields *)
Theorem rakp2_success_short : forall old bs, nth 1 bs 0 = 0 -> (length bs < 40)%nat ->
  decode_rakp2 old bs = Err.
Proof.
  intros old bs Hs H. unfold decode_rakp2, guard.
  destruct (Nat.ltb_spec (length bs) 8); [reflexivity|].
  rewrite !get_ok' by lia. rewrite rj_get_le32 by lia. cbn [bind]. rewrite Hs. cbn [N.eqb].
  destruct (Nat.ltb_spec (length bs) 40); [reflexivity|lia].
Qed.

(* Get Session Info: 3 bytes only when no session is active (handle 0); otherwise at least 6 *)
Theorem sessioninfo_active_short : forall old bs, ~ (nth 0 bs 0 = 0 /\ length bs = 3%nat) ->
  (length bs < 6)%nat -> decode_sessioninfo old bs = Err.
Proof.
  intros old bs Hh H. unfold decode_sessioninfo, guard.
  destruct (Nat.ltb_spec (length bs) 3); [reflexivity|].
  rewrite !get_ok' by lia. cbn [bind].
  destruct (N.eqb_spec (nth 0 bs 0) 0) as [E0|N0]; cbn [andb].
  - destruct (Nat.eqb_spec (length bs) 3) as [E3|N3]; [exfalso; apply Hh; auto|].
    destruct (Nat.ltb_spec (length bs) 6); [reflexivity|lia].
  - destruct (Nat.ltb_spec (length bs) 6); [reflexivity|lia].
Qed.

(* ---- Message: the minimum depends on the NetFn ---- *)
(* a response (odd NetFn) has a completion code; the group-extension NetFns 0x2c/0x2d carry a body code,
   the OEM NetFns 0x2e/0x2f a 3-byte enterprise number *)
Definition message_min_len (fn : N) : nat :=
  (7 + (if (fn mod 2 =? 0)%N then 0 else 1) +
   (if ((fn =? 0x2c)%N || (fn =? 0x2d)%N)%bool then 1
    else if ((fn =? 0x2e)%N || (fn =? 0x2f)%N)%bool then 3 else 0))%nat.

Theorem message_short_for_netfn : forall old bs,
  (length bs < message_min_len (N.shiftr (nth 1 bs 0%N) 2))%nat -> decode_message old bs = Err.
Proof.
  intros old bs H.
  destruct (le_lt_dec 7 (length bs)) as [Hn|Hn]; [|apply message_short; exact Hn].
  unfold message_min_len in H. msg_head.
  rewrite ?get_ok' by lia. rewrite slice_to_ok by lia. cbn [bind].
  destruct (negb _); [reflexivity|]. rewrite slice_ok by lia. cbn [bind].
  destruct (negb _); [reflexivity|].
  set (fn := N.shiftr (nth 1 bs 0) 2) in *.
  destruct (fn mod 2 =? 0) eqn:Ereq; cbn [negb andb].
  - cbn [bind]. rewrite slice_ok by lia. cbn [bind].
    set (data := firstn (length bs - 1 - 6) (skipn 6 bs)).
    assert (Hd : length data = (length bs - 7)%nat) by (subst data; rewrite firstn_length, skipn_length; lia).
    destruct ((fn =? 44) || (fn =? 45))%bool.
    + unfold guard. destruct (Nat.ltb_spec (length data) 1); [reflexivity|lia].
    + destruct ((fn =? 46) || (fn =? 47))%bool.
      * unfold guard. destruct (Nat.ltb_spec (length data) 3); [reflexivity|lia].
      * lia.
  - destruct (Nat.ltb_spec (length bs) 8); [reflexivity|].
    rewrite ?get_ok' by lia. cbn [bind]. rewrite slice_ok by lia. cbn [bind].
    set (data := firstn (length bs - 1 - 7) (skipn 7 bs)).
    assert (Hd : length data = (length bs - 8)%nat) by (subst data; rewrite firstn_length, skipn_length; lia).
    destruct ((fn =? 44) || (fn =? 45))%bool.
    + unfold guard. destruct (Nat.ltb_spec (length data) 1); [reflexivity|lia].
    + destruct ((fn =? 46) || (fn =? 47))%bool.
      * unfold guard. destruct (Nat.ltb_spec (length data) 3); [reflexivity|lia].
      * lia.
Qed.

(* a response of exactly seven bytes has no completion code *)
Theorem message_response_7 : forall old bs, length bs = 7%nat ->
  N.shiftr (nth 1 bs 0) 2 mod 2 <> 0 -> decode_message old bs = Err.
Proof.
  intros old bs H7 Hodd. apply message_short_for_netfn. unfold message_min_len.
  destruct (N.eqb_spec (N.shiftr (nth 1 bs 0) 2 mod 2) 0); [contradiction|].
  destruct (_ || _)%bool; [lia|]. destruct (_ || _)%bool; lia.
Qed.

(* ---- the summary ---- *)
Theorem all_short_rejected :
  (forall old bs, (length bs < 4)%nat -> decode_rmcp old bs = Err) /\
  (forall old bs, (length bs < 1)%nat -> decode_selector old bs = Err) /\
  (forall old bs, (length bs < 10)%nat -> decode_v1session old bs = Err) /\
  (forall old bs, nth 0 bs 0 <> 0 -> (length bs < 26)%nat -> decode_v1session old bs = Err) /\
  (forall sign old bs, (length bs < 12)%nat -> decode_v2session sign old bs = Err) /\
  (forall sign old bs, (length bs < 18)%nat -> N.land (nth 1 bs 0) 0x3f = 2 -> decode_v2session sign old bs = Err) /\
  (forall dec old bs, (length bs < 17)%nat -> decode_aescbc dec old bs = Err) /\
  (forall dec old bs, Nat.modulo (length bs) 16 <> 0%nat -> decode_aescbc dec old bs = Err) /\
  (forall old bs, (length bs < 7)%nat -> decode_message old bs = Err) /\
  (forall old bs, length bs = 7%nat -> N.shiftr (nth 1 bs 0) 2 mod 2 <> 0 -> decode_message old bs = Err) /\
  (forall old bs, (length bs < message_min_len (N.shiftr (nth 1 bs 0%N) 2))%nat -> decode_message old bs = Err) /\
  (forall old bs, length bs <> 1%nat -> (length bs < 7)%nat -> decode_opensessionrsp old bs = Err) /\
  (forall old bs, length bs <> 36%nat -> nth (if Nat.eqb (length bs) 1 then 0 else 1)%nat bs 0 = 0 ->
                  decode_opensessionrsp old bs = Err) /\
  (forall old bs, (length bs < 28)%nat -> decode_rakp1 old bs = Err) /\
  (forall old bs, (length bs < 28 + N.to_nat (nth 27 bs 0%N))%nat -> decode_rakp1 old bs = Err) /\
  (forall old bs, (length bs < 8)%nat -> decode_rakp2 old bs = Err) /\
  (forall old bs, nth 1 bs 0 = 0 -> (length bs < 40)%nat -> decode_rakp2 old bs = Err) /\
  (forall old bs, (length bs < 8)%nat -> decode_rakp4 old bs = Err) /\
  (forall old bs, (length bs < 11)%nat -> decode_deviceid old bs = Err) /\
  (forall old bs, (length bs < 3)%nat -> decode_chassis old bs = Err) /\
  (forall old bs, (length bs < 8)%nat -> decode_authcaps old bs = Err) /\
  (forall old bs, (length bs < 1)%nat -> decode_ciphersuites old bs = Err) /\
  (forall old bs, (length bs < 3)%nat -> decode_sessioninfo old bs = Err) /\
  (forall old bs, ~ (nth 0 bs 0 = 0 /\ length bs = 3%nat) -> (length bs < 6)%nat -> decode_sessioninfo old bs = Err) /\
  (forall old bs, length bs <> 1%nat -> decode_setpriv old bs = Err) /\
  (forall old bs, (length bs < 16)%nat -> decode_guid old bs = Err) /\
  (forall old bs, (length bs < 2)%nat -> decode_reserve old bs = Err) /\
  (forall old bs, (length bs < 2)%nat -> decode_getsdrrsp old bs = Err) /\
  (forall old bs, (length bs < 5)%nat -> decode_sdrhdr old bs = Err) /\
  (forall old bs, (length bs < 14)%nat -> decode_sdrrepoinfo old bs = Err) /\
  (forall old bs, (length bs < 3)%nat -> decode_sensorreading old bs = Err) /\
  (forall old bs, (length bs < 43)%nat -> decode_fsr old bs = Err) /\
  (forall old bs, (length bs < 3 + 3)%nat -> decode_dcmicaps old bs = Err) /\
  (forall old bs, (length bs < 3 + 4)%nat -> decode_dcmimand old bs = Err) /\
  (forall old bs, (length bs < 3 + 2)%nat -> decode_dcmiopt old bs = Err) /\
  (forall old bs, (length bs < 3 + 3)%nat -> decode_dcmimgmt old bs = Err) /\
  (forall old bs, (length bs < 3 + 1)%nat -> decode_dcmipower old bs = Err) /\
  (forall old bs, (4 <= length bs)%nat -> (length bs < 4 + N.to_nat (nth 3 bs 0%N))%nat -> decode_dcmipower old bs = Err) /\
  (forall old bs, (length bs < 17)%nat -> decode_powerreading old bs = Err) /\
  (forall old bs, (length bs < 2)%nat -> decode_dcmisensor old bs = Err) /\
  (forall old bs, (2 <= length bs)%nat -> (length bs < 2 + N.to_nat (nth 1 bs 0%N) * 2)%nat -> decode_dcmisensor old bs = Err).
Proof.
  repeat split.
  - exact rmcp_short.
  - exact selector_short.
  - exact v1session_short.
  - exact v1session_auth_short.
  - exact v2session_short.
  - exact v2session_oem_short.
  - exact aescbc_short.
  - exact aescbc_unaligned.
  - exact message_short.
  - exact message_response_7.
  - exact message_short_for_netfn.
  - exact opensessionrsp_short.
  - exact opensessionrsp_success_wrong_length.
  - exact rakp1_short.
  - exact rakp1_username_exceeds.
  - exact rakp2_short.
  - exact rakp2_success_short.
  - exact rakp4_short.
  - exact deviceid_short.
  - exact chassis_short.
  - exact authcaps_short.
  - exact ciphersuites_short.
  - exact sessioninfo_short.
  - exact sessioninfo_active_short.
  - exact setpriv_wrong_length.
  - exact guid_short.
  - exact reserve_short.
  - exact getsdrrsp_short.
  - exact sdrhdr_short.
  - exact sdrrepoinfo_short.
  - exact sensorreading_short.
  - exact fsr_short.
  - exact dcmicaps_short.
  - exact dcmimand_short.
  - exact dcmiopt_short.
  - exact dcmimgmt_short.
  - exact dcmipower_short.
  - exact dcmipower_count_exceeds.
  - exact powerreading_short.
  - exact dcmisensor_short.
  - exact dcmisensor_count_exceeds.
Qed.

Print Assumptions message_bad_checksum1.
Print Assumptions message_bad_checksum2.
Print Assumptions message_accept_inv.
Print Assumptions message_single_byte_corruption.
Print Assumptions v2session_accept_inv.
Print Assumptions v2session_length_exceeds.
Print Assumptions v2session_length_exceeds_oem_hdr.
Print Assumptions v1session_accept_inv.
Print Assumptions all_short_rejected.
