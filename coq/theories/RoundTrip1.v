(* RoundTrip1.v — response-layer round trips, batch 1: for every layer X of
   the batch, every value the specification encoder SpecEnc.X accepts is
   decoded back to exactly that value by decode_X (for every prior state). *)
From BMC Require Import Base BaseFacts Prim Layers Layers2 SpecLayers LayerTotal.
From Coq Require Import ZifyN ZifyNat ZifyBool.
Ltac Zify.zify_post_hook ::= Z.div_mod_to_equations.

(* ---------- hypothesis normalisation ---------- *)
Ltac norm_bound H :=
  match type of H with
  | _ < ?e => let v := eval vm_compute in e in change e with v in H
  end.

Ltac split_ok :=
  repeat match goal with
  | H : (_ && _)%bool = true |- _ => apply andb_true_iff in H; destruct H
  end;
  repeat match goal with
  | H : fits _ _ = true |- _ => unfold fits in H; apply N.ltb_lt in H; norm_bound H
  | H : (_ <? _) = true |- _ => apply N.ltb_lt in H
  | H : len_is _ _ = true |- _ => unfold len_is in H; apply andb_true_iff in H; destruct H
  | H : Nat.eqb _ _ = true |- _ => apply Nat.eqb_eq in H
  | H : Nat.leb _ _ = true |- _ => apply Nat.leb_le in H
  | H : Nat.ltb _ _ = true |- _ => apply Nat.ltb_lt in H
  | H : (_ =? _) = true |- _ => apply N.eqb_eq in H
  | H : negb _ = true |- _ => apply negb_true_iff in H
  end.

(* replace every non-variable byte of an explicit list by a variable *)
Ltac abs_bytes :=
  repeat match goal with
  | |- context [@cons N ?e _] =>
      tryif is_var e then fail else (let x := fresh "byte" in remember e as x)
  end.

(* evaluate a decoder on an explicit list of (abstract) bytes *)
Ltac run_decoder :=
  cbn [bind get nth_error length Nat.ltb Nat.leb Nat.eqb slice_from slice slice_to skipn firstn
       get_le16 get_le32 Nat.add Nat.sub negb andb orb app guard].

(* ---------- sweeps lifted to equalities ---------- *)
Lemma sweep_eqB (n : nat) (f g : N -> bool) :
  forallb (fun c => Bool.eqb (f c) (g c)) (N_seq n) = true -> forall c, c < N.of_nat n -> f c = g c.
Proof. intros H c Hc. apply eqb_prop. exact (sweep_n n _ H c Hc). Qed.
Lemma sweep_eqN (n : nat) (f g : N -> N) :
  forallb (fun c => f c =? g c) (N_seq n) = true -> forall c, c < N.of_nat n -> f c = g c.
Proof. intros H c Hc. apply N.eqb_eq. exact (sweep_n n _ H c Hc). Qed.

(* the sweep must really evaluate to true (so that Qed cannot fail later) *)
Ltac checked_sweep :=
  lazymatch goal with
  | |- ?l = true =>
      let r := eval vm_compute in l in
      lazymatch r with true => vm_cast_no_check (eq_refl true) end
  end.

Ltac small_bound k :=
  let ok := eval vm_compute in (k <=? 256) in
  lazymatch ok with true => idtac end.

(* close a goal [l = r] (bool or N) mentioning the bounded variable [c] only *)
Ltac sweep_on c H :=
  match type of H with
  | c < ?k =>
      small_bound k;
      let n := eval vm_compute in (N.to_nat k) in
      revert c H;
      first [ refine (sweep_eqB n _ _ _) | refine (sweep_eqN n _ _ _) ];
      checked_sweep
  end.

Lemma sweep2_eqN (n m : nat) (f g : N -> N -> N) :
  forallb (fun a => forallb (fun b => f a b =? g a b) (N_seq m)) (N_seq n) = true ->
  forall a b, a < N.of_nat n -> b < N.of_nat m -> f a b = g a b.
Proof.
  intros H a b Ha Hb. apply N.eqb_eq.
  pose proof (sweep_n n _ H a Ha) as H1. cbv beta in H1.
  exact (sweep_n m _ H1 b Hb).
Qed.

Ltac sweep2_on a Ha b Hb :=
  match type of Ha with
  | a < ?k =>
    match type of Hb with
    | b < ?l =>
      small_bound k; small_bound l;
      let n := eval vm_compute in (N.to_nat k) in
      let m := eval vm_compute in (N.to_nat l) in
      revert a b Ha Hb; refine (sweep2_eqN n m _ _ _); checked_sweep
    end
  end.

(* the context holds exactly one (two) variables of type N *)
Ltac one_N := lazymatch goal with x : N, y : N |- _ => fail | _ => idtac end.
Ltac two_N := lazymatch goal with x : N, y : N, z : N |- _ => fail | _ => idtac end.

(* destruct the booleans the goal mentions *)
Ltac destruct_bools :=
  repeat match goal with
  | b : bool |- _ => lazymatch goal with |- context [b] => destruct b end
  end.

(* one field equation about one byte *)
Ltac byte_field :=
  first
  [ lazymatch goal with |- ?a = ?a => reflexivity end
  | assumption
  | apply le16_put; assumption
  | apply le24_put; assumption
  | apply le32_put; assumption
  | destruct_bools;
    first [ reflexivity
          | match goal with H : ?c < _ |- _ => is_var c; clear - H; one_N; sweep_on c H end
          | match goal with Ha : ?a < _, Hb : ?b < _ |- _ =>
              is_var a; is_var b; clear - Ha Hb; two_N; sweep2_on a Ha b Hb end ] ].

Lemma app_eq {A B} (f g : A -> B) (x y : A) : f = g -> x = y -> f x = g y.
Proof. intros -> ->. reflexivity. Qed.

(* split [C a1 .. an = C b1 .. bn] into the field equations, solving each *)
Ltac peel :=
  lazymatch goal with
  | |- ?c = ?c => reflexivity
  | |- ?f ?x = ?g ?y => apply (app_eq f g x y); [peel | byte_field]
  end.
Ltac fields := apply (f_equal Ok); peel.

Ltac take_ok H :=
  match type of H with
  | (if ?c then _ else _) = Some _ => destruct c eqn:Hok; [|discriminate]; injection H as <-
  end.

(* ===================== RMCP ===================== *)
Ltac proj_rmcp := cbn [rm_version rm_sequence rm_ack rm_class rm_payload] in *.
Theorem rmcp_roundtrip : forall old v bs, SpecEnc.rmcp v = Some bs -> decode_rmcp old bs = Ok v.
Proof.
  intros old v bs. destruct v. unfold SpecEnc.rmcp, opt. proj_rmcp.
  intros H. take_ok H.
  split_ok. unfold bn. abs_bytes. unfold decode_rmcp. run_decoder. subst. fields.
Qed.
Example rmcp_inhabited :
  SpecEnc.rmcp {| rm_version := 6; rm_sequence := 255; rm_ack := true; rm_class := 7; rm_payload := [1;2;3] |}
  = Some [6; 0; 255; 135; 1; 2; 3].
Proof. vm_compute. reflexivity. Qed.

(* ===================== Set Session Privilege Level ===================== *)
Ltac proj_setpriv := cbn [sp_level] in *.
Theorem setpriv_roundtrip : forall old v bs, SpecEnc.setpriv v = Some bs -> decode_setpriv old bs = Ok v.
Proof.
  intros old v bs. destruct v. unfold SpecEnc.setpriv, opt. proj_setpriv.
  intros H. take_ok H.
  split_ok. unfold decode_setpriv. run_decoder. fields.
Qed.
Example setpriv_inhabited : SpecEnc.setpriv {| sp_level := 4 |} = Some [4].
Proof. vm_compute. reflexivity. Qed.

(* ===================== Get System GUID ===================== *)
Theorem guid_roundtrip : forall old v bs, SpecEnc.guid v = Some bs -> decode_guid old bs = Ok v.
Proof.
  intros old v bs. destruct v as [g]. unfold SpecEnc.guid, opt. cbn [gu_guid].
  intros H. take_ok H. split_ok.
  unfold decode_guid, guard.
  match goal with H : length _ = _ |- _ => rewrite H end. cbn [Nat.ltb Nat.leb].
  rewrite slice_to_ok by lia. cbn [bind]. rewrite firstn_all2 by lia. reflexivity.
Qed.
Example guid_inhabited :
  SpecEnc.guid {| gu_guid := [1;2;3;4;5;6;7;8;9;10;11;12;13;14;15;255] |}
  = Some [1;2;3;4;5;6;7;8;9;10;11;12;13;14;15;255].
Proof. vm_compute. reflexivity. Qed.

(* ===================== Reserve SDR Repository ===================== *)
Ltac proj_reserve := cbn [rs_id] in *.
Theorem reserve_roundtrip : forall old v bs, SpecEnc.reserve v = Some bs -> decode_reserve old bs = Ok v.
Proof.
  intros old v bs. destruct v. unfold SpecEnc.reserve, opt. proj_reserve.
  intros H. take_ok H.
  split_ok. unfold put_le16. abs_bytes. unfold decode_reserve. run_decoder. subst. fields.
Qed.
Example reserve_inhabited : SpecEnc.reserve {| rs_id := 0xabcd |} = Some [0xcd; 0xab].
Proof. vm_compute. reflexivity. Qed.

(* ===================== Get SDR response ===================== *)
Ltac proj_getsdrrsp := cbn [gs_next gs_payload] in *.
Theorem getsdrrsp_roundtrip : forall old v bs, SpecEnc.getsdrrsp v = Some bs -> decode_getsdrrsp old bs = Ok v.
Proof.
  intros old v bs. destruct v. unfold SpecEnc.getsdrrsp, opt. proj_getsdrrsp.
  intros H. take_ok H.
  split_ok. unfold put_le16. cbn [app]. abs_bytes. unfold decode_getsdrrsp. run_decoder. subst. fields.
Qed.
Example getsdrrsp_inhabited :
  SpecEnc.getsdrrsp {| gs_next := 0xffff; gs_payload := [9; 8; 7] |} = Some [255; 255; 9; 8; 7].
Proof. vm_compute. reflexivity. Qed.

(* ===================== SDR header ===================== *)
Ltac proj_sdrhdr := cbn [sh_id sh_version sh_type sh_length sh_payload] in *.
Theorem sdrhdr_roundtrip : forall old v bs, SpecEnc.sdrhdr v = Some bs -> decode_sdrhdr old bs = Ok v.
Proof.
  intros old v bs. destruct v. unfold SpecEnc.sdrhdr, opt. proj_sdrhdr.
  intros H. take_ok H.
  split_ok. unfold put_le16. cbn [app]. abs_bytes. unfold decode_sdrhdr. run_decoder. subst. fields.
Qed.
Example sdrhdr_inhabited :
  SpecEnc.sdrhdr {| sh_id := 0x1234; sh_version := 51; sh_type := 1; sh_length := 40; sh_payload := [7] |}
  = Some [0x34; 0x12; 0x15; 1; 40; 7].
Proof. vm_compute. reflexivity. Qed.

(* ===================== Get SDR Repository Info ===================== *)
Ltac proj_sdrrepoinfo :=
  cbn [ri_version ri_records ri_free ri_addition ri_erase ri_overflow ri_modal ri_nonmodal ri_delete
       ri_partial ri_reserve ri_alloc ri_payload] in *.
Theorem sdrrepoinfo_roundtrip : forall old v bs, SpecEnc.sdrrepoinfo v = Some bs -> decode_sdrrepoinfo old bs = Ok v.
Proof.
  intros old v bs. destruct v. unfold SpecEnc.sdrrepoinfo, opt. proj_sdrrepoinfo.
  intros H. take_ok H.
  split_ok. unfold put_le16, put_le32, bn. cbn [app]. abs_bytes. unfold decode_sdrrepoinfo. run_decoder. subst. fields.
Qed.
Example sdrrepoinfo_inhabited :
  SpecEnc.sdrrepoinfo {| ri_version := 51; ri_records := 300; ri_free := 0xfffe; ri_addition := 0x01020304;
    ri_erase := 0xa0b0c0d0; ri_overflow := true; ri_modal := false; ri_nonmodal := true; ri_delete := true;
    ri_partial := false; ri_reserve := true; ri_alloc := true; ri_payload := [5] |}
  = Some [0x15; 44; 1; 0xfe; 0xff; 4; 3; 2; 1; 0xd0; 0xc0; 0xb0; 0xa0; 171; 5].
Proof. vm_compute. reflexivity. Qed.

(* ===================== Get Channel Authentication Capabilities ===================== *)
Ltac proj_authcaps :=
  cbn [ac_channel ac_extended ac_oem ac_password ac_md5 ac_md2 ac_none ac_twokey ac_permsg ac_userlevel
       ac_nonnull ac_null ac_anon ac_v2 ac_v1 ac_oem_id ac_oem_data ac_payload] in *.
Theorem authcaps_roundtrip : forall old v bs, SpecEnc.authcaps v = Some bs -> decode_authcaps old bs = Ok v.
Proof.
  intros old v bs. destruct v. unfold SpecEnc.authcaps, opt. proj_authcaps.
  intros H. take_ok H.
  split_ok. unfold put_le24, bn. cbn [app]. abs_bytes. unfold decode_authcaps. run_decoder. subst. fields.
Qed.
Example authcaps_inhabited :
  SpecEnc.authcaps {| ac_channel := 14; ac_extended := true; ac_oem := false; ac_password := true; ac_md5 := true;
    ac_md2 := false; ac_none := true; ac_twokey := true; ac_permsg := false; ac_userlevel := true; ac_nonnull := true;
    ac_null := false; ac_anon := true; ac_v2 := true; ac_v1 := false; ac_oem_id := 0x0a0b0c; ac_oem_data := 77;
    ac_payload := [1; 2] |}
  = Some [14; 149; 45; 2; 0x0c; 0x0b; 0x0a; 77; 1; 2].
Proof. vm_compute. reflexivity. Qed.

(* ===================== Get Device ID ===================== *)
Ltac proj_deviceid :=
  cbn [di_id di_sdrs di_revision di_available di_fw_major di_fw_minor di_ipmi_major di_ipmi_minor di_chassis
       di_bridge di_evgen di_evrcv di_fru di_sel di_sdrrepo di_sensor di_manufacturer di_product di_aux] in *.
Theorem deviceid_roundtrip : forall shape old v bs,
  SpecEnc.deviceid shape v = Some bs -> decode_deviceid old bs = Ok v.
Proof.
  intros shape old v bs. destruct v. unfold SpecEnc.deviceid, opt. proj_deviceid.
  intros H. destruct shape as [|shape].
  - (* with the auxiliary revision *)
    take_ok H. split_ok. unfold put_le24, put_le16, bcd_enc, bn. cbn [app]. abs_bytes.
    unfold decode_deviceid. run_decoder.
    rewrite copy_into_full by (cbn [zeros repeat length]; lia). subst. fields.
  - take_ok H. split_ok.
    match goal with H : (if list_eq_dec _ _ _ then true else false) = true |- _ =>
      destruct (list_eq_dec N.eq_dec di_aux (zeros 4)) as [->|]; [clear H|discriminate H] end.
    unfold put_le24, put_le16, bcd_enc, bn. cbn [app]. abs_bytes.
    unfold decode_deviceid. run_decoder. cbn [zeros repeat copy_into]. subst. fields.
Qed.
Example deviceid_inhabited_0 :
  SpecEnc.deviceid 0 {| di_id := 32; di_sdrs := true; di_revision := 1; di_available := true; di_fw_major := 3;
    di_fw_minor := 45; di_ipmi_major := 2; di_ipmi_minor := 0; di_chassis := true; di_bridge := false; di_evgen := true;
    di_evrcv := true; di_fru := true; di_sel := true; di_sdrrepo := true; di_sensor := true; di_manufacturer := 674;
    di_product := 256; di_aux := [0; 1; 2; 3] |}
  = Some [32; 129; 3; 0x45; 2; 191; 162; 2; 0; 0; 1; 0; 1; 2; 3].
Proof. vm_compute. reflexivity. Qed.
Example deviceid_inhabited_1 :
  SpecEnc.deviceid 1 {| di_id := 32; di_sdrs := false; di_revision := 15; di_available := false; di_fw_major := 127;
    di_fw_minor := 99; di_ipmi_major := 1; di_ipmi_minor := 5; di_chassis := false; di_bridge := true; di_evgen := false;
    di_evrcv := false; di_fru := false; di_sel := false; di_sdrrepo := false; di_sensor := true; di_manufacturer := 0xffffff;
    di_product := 0xffff; di_aux := [0; 0; 0; 0] |}
  = Some [32; 15; 255; 0x99; 0x51; 65; 255; 255; 255; 255; 255].
Proof. vm_compute. reflexivity. Qed.

Ltac nil_of_length :=
  repeat match goal with
  | H : length ?l = 0%nat |- _ => is_var l; destruct l; [clear H|discriminate H]
  end.

(* ===================== Get Chassis Status ===================== *)
Ltac proj_chassis :=
  cbn [cs_policy cs_ctlfault cs_fault cs_interlock cs_overload cs_on cs_on_ipmi cs_l_fault cs_l_interlock
       cs_l_overload cs_l_supply cs_identify cs_cooling cs_drive cs_lockout cs_intrusion
       cs_b7 cs_b6 cs_b5 cs_b4 cs_b3 cs_b2 cs_b1 cs_b0 cs_payload] in *.
Ltac chassis_ident :=
  match goal with H : (_ || _)%bool = true |- _ =>
    apply orb_true_iff in H; destruct H as [H|H];
    [ apply N.ltb_lt in H;
      match goal with |- context [?x =? 255] => destruct (N.eqb_spec x 255); [lia|] end
    | apply N.eqb_eq in H; subst; rewrite N.eqb_refl ]
  end.
Theorem chassis_roundtrip : forall shape old v bs,
  SpecEnc.chassis shape v = Some bs -> decode_chassis old bs = Ok v.
Proof.
  intros shape old v bs. destruct v. unfold SpecEnc.chassis, opt. proj_chassis.
  intros H. destruct shape as [|shape].
  - (* with the front-panel byte *)
    take_ok H. split_ok. unfold bn. cbn [app].
    chassis_ident; abs_bytes; unfold decode_chassis; run_decoder; subst; fields.
  - take_ok H. split_ok. nil_of_length. unfold bn in *.
    match goal with H : _ = 0 |- _ =>
      destruct cs_b7, cs_b6, cs_b5, cs_b4, cs_b3, cs_b2, cs_b1, cs_b0; try (vm_compute in H; discriminate H); clear H end.
    chassis_ident; abs_bytes; unfold decode_chassis; run_decoder; subst; fields.
Qed.
Example chassis_inhabited_0 :
  SpecEnc.chassis 0 {| cs_policy := 2; cs_ctlfault := true; cs_fault := false; cs_interlock := true; cs_overload := false;
    cs_on := true; cs_on_ipmi := true; cs_l_fault := false; cs_l_interlock := false; cs_l_overload := true;
    cs_l_supply := true; cs_identify := 3; cs_cooling := true; cs_drive := false; cs_lockout := true; cs_intrusion := false;
    cs_b7 := true; cs_b6 := false; cs_b5 := false; cs_b4 := true; cs_b3 := false; cs_b2 := false; cs_b1 := true; cs_b0 := true;
    cs_payload := [9] |}
  = Some [85; 19; 122; 147; 9].
Proof. vm_compute. reflexivity. Qed.
Example chassis_inhabited_1 :
  SpecEnc.chassis 1 {| cs_policy := 1; cs_ctlfault := false; cs_fault := true; cs_interlock := false; cs_overload := true;
    cs_on := false; cs_on_ipmi := false; cs_l_fault := true; cs_l_interlock := true; cs_l_overload := false;
    cs_l_supply := false; cs_identify := 255; cs_cooling := false; cs_drive := true; cs_lockout := false; cs_intrusion := true;
    cs_b7 := false; cs_b6 := false; cs_b5 := false; cs_b4 := false; cs_b3 := false; cs_b2 := false; cs_b1 := false; cs_b0 := false;
    cs_payload := [] |}
  = Some [42; 12; 5].
Proof. vm_compute. reflexivity. Qed.

(* ===================== Get Sensor Reading ===================== *)
Ltac proj_sensorreading := cbn [sr_reading sr_events sr_scanning sr_unavailable sr_payload] in *.
Theorem sensorreading_roundtrip : forall shape old v bs,
  SpecEnc.sensorreading shape v = Some bs -> decode_sensorreading old bs = Ok v.
Proof.
  intros shape old v bs. destruct v. unfold SpecEnc.sensorreading, opt. proj_sensorreading.
  intros H. destruct shape as [|shape].
  - take_ok H. split_ok. nil_of_length. unfold bn. cbn [app].
    abs_bytes; unfold decode_sensorreading; run_decoder; subst; fields.
  - take_ok H. split_ok. unfold bn. cbn [app].
    abs_bytes; unfold decode_sensorreading; run_decoder; subst; fields.
Qed.
Example sensorreading_inhabited_0 :
  SpecEnc.sensorreading 0 {| sr_reading := 200; sr_events := true; sr_scanning := false; sr_unavailable := true; sr_payload := [] |}
  = Some [200; 160; 0].
Proof. vm_compute. reflexivity. Qed.
Example sensorreading_inhabited_1 :
  SpecEnc.sensorreading 1 {| sr_reading := 17; sr_events := false; sr_scanning := true; sr_unavailable := false; sr_payload := [4; 5] |}
  = Some [17; 64; 0; 0; 4; 5].
Proof. vm_compute. reflexivity. Qed.

(* ===================== Get Session Info ===================== *)
Tactic Notation "explode_exact" ident(l) hyp(H) integer(n) :=
  do n (destruct l as [|? l]; [cbn [length] in H; exfalso; lia|]);
  destruct l; [|cbn [length] in H; exfalso; lia].

Ltac proj_sessioninfo :=
  cbn [si_handle si_max si_active si_user si_priv si_v2 si_channel si_ip si_mac si_port si_payload] in *.
(* the shape with the LAN address block *)
Ltac sessioninfo_lan H :=
  take_ok H; split_ok;
  match goal with H : length ?ip = 16%nat |- _ => explode_exact ip H 16 end;
  match goal with H : length ?mac = 6%nat |- _ => explode_exact mac H 6 end;
  match goal with H : (if ?c then true else false) = true |- _ =>
    let E := fresh "E" in
    destruct c as [E|]; [clear H|discriminate H];
    cbn [firstn] in E; injection E as -> -> -> -> -> -> -> -> -> -> -> -> end;
  unfold put_le16; cbn [app skipn]; abs_bytes; unfold decode_sessioninfo; run_decoder;
  rewrite andb_false_r; subst; fields.
Theorem sessioninfo_roundtrip : forall shape old v bs,
  SpecEnc.sessioninfo shape v = Some bs -> decode_sessioninfo old bs = Ok v.
Proof.
  intros shape old v bs. destruct v. unfold SpecEnc.sessioninfo, opt. proj_sessioninfo.
  intros H. destruct shape as [|[p|p|]].
  - (* shape 0: no active session *)
    take_ok H. split_ok. nil_of_length. subst.
    unfold decode_sessioninfo. run_decoder. cbn [N.eqb andb]. run_decoder. reflexivity.
  - sessioninfo_lan H.
  - sessioninfo_lan H.
  - (* shape 1: six bytes and fewer than 12 further bytes *)
    take_ok H. split_ok. nil_of_length. subst. cbn [app].
    abs_bytes. unfold decode_sessioninfo. run_decoder.
    rewrite andb_false_r.
    match goal with |- context [Nat.leb ?a ?b] => destruct (Nat.leb_spec a b); [|lia] end.
    subst. fields.
Qed.
Example sessioninfo_inhabited_0 :
  SpecEnc.sessioninfo 0 {| si_handle := 0; si_max := 5; si_active := 2; si_user := 0; si_priv := 0; si_v2 := false;
    si_channel := 0; si_ip := []; si_mac := []; si_port := 0; si_payload := [] |} = Some [0; 5; 2].
Proof. vm_compute. reflexivity. Qed.
Example sessioninfo_inhabited_1 :
  SpecEnc.sessioninfo 1 {| si_handle := 3; si_max := 5; si_active := 2; si_user := 63; si_priv := 4; si_v2 := true;
    si_channel := 14; si_ip := []; si_mac := []; si_port := 0; si_payload := [7; 7] |}
  = Some [3; 5; 2; 63; 4; 30; 7; 7].
Proof. vm_compute. reflexivity. Qed.
Example sessioninfo_inhabited_2 :
  SpecEnc.sessioninfo 2 {| si_handle := 3; si_max := 5; si_active := 2; si_user := 2; si_priv := 4; si_v2 := false;
    si_channel := 1; si_ip := [0;0;0;0;0;0;0;0;0;0;255;255;10;0;0;1]; si_mac := [1;2;3;4;5;6]; si_port := 623;
    si_payload := [9] |}
  = Some [3; 5; 2; 2; 4; 1; 10; 0; 0; 1; 1; 2; 3; 4; 5; 6; 111; 2; 9].
Proof. vm_compute. reflexivity. Qed.

(* ===================== Get Channel Cipher Suites ===================== *)
Theorem ciphersuites_roundtrip : forall old v bs,
  SpecEnc.ciphersuites v = Some bs -> decode_ciphersuites old bs = Ok v.
Proof.
  intros old v bs. destruct v as [ch chunk payload]. unfold SpecEnc.ciphersuites, opt.
  cbn [cc_channel cc_chunk cc_payload]. intros H. take_ok H. split_ok. cbn [app].
  match goal with H : (_ || _)%bool = true |- _ => apply orb_true_iff in H; rewrite !Nat.eqb_eq in H end.
  unfold decode_ciphersuites, guard.
  set (bs := ch :: chunk ++ payload).
  assert (Hl : length bs = S (length chunk + length payload)) by (subst bs; cbn [length]; rewrite app_length; reflexivity).
  destruct (Nat.ltb_spec (length bs) 1); [lia|].
  destruct (Nat.ltb_spec 17 (length bs)).
  - rewrite slice_from_ok by lia. rewrite slice_ok by lia. subst bs. cbn [get nth_error bind Nat.sub].
    change (skipn 17 (ch :: chunk ++ payload)) with (skipn 16 (chunk ++ payload)).
    change (skipn 1 (ch :: chunk ++ payload)) with (chunk ++ payload).
    assert (Hc : length chunk = 16%nat) by lia.
    rewrite skipn_app, firstn_app.
    rewrite (skipn_all2 chunk) by lia. rewrite (firstn_all2 chunk) by lia.
    rewrite Hc. cbn [Nat.sub skipn firstn app]. rewrite app_nil_r. reflexivity.
  - assert (Hp : length payload = 0%nat) by lia. rewrite Hp in Hl.
    rewrite slice_from_ok by lia. rewrite slice_ok by lia. rewrite skipn_all.
    replace (length bs - 1)%nat with (length chunk) by lia.
    destruct payload; [|discriminate Hp].
    subst bs. rewrite app_nil_r. cbn [get nth_error bind].
    change (skipn 1 (ch :: chunk)) with chunk. rewrite firstn_all. reflexivity.
Qed.
Example ciphersuites_inhabited :
  SpecEnc.ciphersuites {| cc_channel := 1; cc_chunk := [192;1;2;3;4;5;6;7;8;9;10;11;12;13;14;15]; cc_payload := [33; 34] |}
  = Some [1;192;1;2;3;4;5;6;7;8;9;10;11;12;13;14;15;33;34].
Proof. vm_compute. reflexivity. Qed.
Example ciphersuites_inhabited_short :
  SpecEnc.ciphersuites {| cc_channel := 1; cc_chunk := [192;1;2]; cc_payload := [] |} = Some [1;192;1;2].
Proof. vm_compute. reflexivity. Qed.
