(* Shared helpers for the executable crypto models (Md5, Sha1, Sha256, Aes):
   32-bit word arithmetic on [N], byte <-> word packing, chunking,
   Merkle-Damgard padding, and small test utilities (hex / ASCII -> bytes).

   A byte is an [N] (< 256); a 32-bit word is an [N] (< 2^32); a byte
   string is a [list N].  All word operations below assume their word
   arguments are already < 2^32 and return a result < 2^32. *)

From Coq Require Import List NArith Lia.
Import ListNotations.
Local Open Scope N_scope.

(* ------------------------------------------------------------------ *)
(* 32-bit words                                                        *)
(* ------------------------------------------------------------------ *)

Definition mask32 : N := 0xffffffff.

Definition w32 (x : N) : N := N.land x mask32.

Definition add32 (a b : N) : N := w32 (a + b).

Definition not32 (x : N) : N := N.lxor x mask32.

Definition shr32 (x n : N) : N := N.shiftr x n.

(* Rotations, for 0 < n < 32 and x < 2^32: split [x] at bit [n] and swap the
   two parts.  (Masking the low part first keeps every intermediate value
   below 2^32, which matters for speed with binary [N].) *)
Definition rotr32 (x n : N) : N :=
  N.lor (N.shiftr x n) (N.shiftl (N.land x (N.ones n)) (32 - n)).

Definition rotl32 (x n : N) : N := rotr32 x (32 - n).

(* ------------------------------------------------------------------ *)
(* Bytes <-> words                                                     *)
(* ------------------------------------------------------------------ *)

Definition byte (x : N) : N := N.land x 0xff.

Definition be_bytes32 (w : N) : list N :=
  [byte (N.shiftr w 24); byte (N.shiftr w 16); byte (N.shiftr w 8); byte w].

Definition le_bytes32 (w : N) : list N :=
  [byte w; byte (N.shiftr w 8); byte (N.shiftr w 16); byte (N.shiftr w 24)].

Definition be_bytes64 (w : N) : list N :=
  be_bytes32 (N.shiftr w 32) ++ be_bytes32 w.

Definition le_bytes64 (w : N) : list N :=
  le_bytes32 w ++ le_bytes32 (N.shiftr w 32).

Definition be_word32 (b0 b1 b2 b3 : N) : N :=
  N.lor (N.lor (N.shiftl b0 24) (N.shiftl b1 16)) (N.lor (N.shiftl b2 8) b3).

Definition le_word32 (b0 b1 b2 b3 : N) : N := be_word32 b3 b2 b1 b0.

(* Trailing 1..3 bytes (never present for padded input) are dropped. *)
Fixpoint be_words (l : list N) : list N :=
  match l with
  | b0 :: b1 :: b2 :: b3 :: r => be_word32 b0 b1 b2 b3 :: be_words r
  | _ => []
  end.

Fixpoint le_words (l : list N) : list N :=
  match l with
  | b0 :: b1 :: b2 :: b3 :: r => le_word32 b0 b1 b2 b3 :: le_words r
  | _ => []
  end.

Lemma be_bytes32_length : forall w, length (be_bytes32 w) = 4%nat.
Proof. reflexivity. Qed.

Lemma le_bytes32_length : forall w, length (le_bytes32 w) = 4%nat.
Proof. reflexivity. Qed.

Lemma be_bytes64_length : forall w, length (be_bytes64 w) = 8%nat.
Proof. reflexivity. Qed.

Lemma le_bytes64_length : forall w, length (le_bytes64 w) = 8%nat.
Proof. reflexivity. Qed.

(* ------------------------------------------------------------------ *)
(* Chunking                                                            *)
(* ------------------------------------------------------------------ *)

(* [chunks n l] splits [l] into consecutive blocks of [n] elements (the last
   one possibly shorter).  Structural on [l], linear time.  [n] must be > 0
   (n = 0 behaves like n = 1). *)
Fixpoint chunks_aux {A : Type} (n k : nat) (acc : list A) (l : list A)
  : list (list A) :=
  match l with
  | [] => match acc with [] => [] | _ => [rev acc] end
  | x :: r =>
      match k with
      | S (S k') => chunks_aux n (S k') (x :: acc) r
      | _ => rev (x :: acc) :: chunks_aux n n [] r
      end
  end.

Definition chunks {A : Type} (n : nat) (l : list A) : list (list A) :=
  chunks_aux n n [] l.

(* ------------------------------------------------------------------ *)
(* Merkle-Damgard padding for 64-byte blocks (MD5 / SHA-1 / SHA-256)   *)
(* ------------------------------------------------------------------ *)

(* Number of zero bytes after the 0x80 marker so that
   len + 1 + zeros + 8 = 0 (mod 64).  Always < 64. *)
Definition md_pad_zeros (len : N) : nat :=
  N.to_nat ((119 - len mod 64) mod 64).

(* Message bit length, mod 2^64. *)
Definition md_bitlen (len : N) : N :=
  N.land (N.shiftl len 3) 0xffffffffffffffff.

(* [enc] serialises the 64-bit bit length (be_bytes64 or le_bytes64). *)
Definition md_pad (enc : N -> list N) (m : list N) : list N :=
  let len := N.of_nat (length m) in
  m ++ 0x80 :: repeat 0 (md_pad_zeros len) ++ enc (md_bitlen len).

(* ------------------------------------------------------------------ *)
(* Test utilities (used only by the Examples in the other files)       *)
(* ------------------------------------------------------------------ *)

From Coq Require Import Ascii String.

Module TestUtil.

  Fixpoint bytes_of_string (s : string) : list N :=
    match s with
    | EmptyString => []
    | String c r => N_of_ascii c :: bytes_of_string r
    end.

  (* '0'-'9', 'a'-'f', 'A'-'F'; anything else maps to 0 *)
  Definition nibble (c : ascii) : N :=
    let n := N_of_ascii c in
    if andb (48 <=? n) (n <=? 57) then n - 48
    else if andb (97 <=? n) (n <=? 102) then n - 87
    else if andb (65 <=? n) (n <=? 70) then n - 55
    else 0.

  Fixpoint bytes_of_hex (s : string) : list N :=
    match s with
    | String h (String l r) => (16 * nibble h + nibble l) :: bytes_of_hex r
    | _ => []
    end.

End TestUtil.
