(* RequestProofs.v — C06: what the library sends is what the specification
   defines.  Every request body, session-setup payload, IPMI LAN message and
   sessionless datagram produced by the serialisers of Serialize.v / Packet.v
   is read back by the independent specification parser of SpecRequests.v as
   exactly the request the caller asked for. *)
From BMC Require Import Base BaseFacts Prim PrimProofs Layers Layers2 Serialize SpecRequests Packet.
From Coq Require Import ZifyN ZifyNat ZifyBool.
Ltac Zify.zify_post_hook ::= Z.div_mod_to_equations.
Import SpecParse.

(* ---------- small helpers ---------- *)
Lemma Ok_inj {A} (a b : A) : Ok a = Ok b -> a = b.
Proof. intros H. congruence. Qed.

Ltac split_wf H :=
  repeat match type of H with
         | (_ && _)%bool = true => let H' := fresh H in apply andb_true_iff in H; destruct H as [H H']; split_wf H'
         end.

(* decide every [if a =? b] / [<?] / [<=?] in the goal, discarding impossible branches by lia *)
Ltac ifs :=
  repeat match goal with
         | |- context [if ?a =? ?b then _ else _] => destruct (N.eqb_spec a b); try lia
         | |- context [if ?a <? ?b then _ else _] => destruct (N.ltb_spec a b); try lia
         | |- context [if ?a <=? ?b then _ else _] => destruct (N.leb_spec a b); try lia
         end.

Lemma u8_small x : x < 256 -> u8 x = x.
Proof. intros. unfold u8. apply N.mod_small. assumption. Qed.
Lemma u16_small x : x < 65536 -> u16 x = x.
Proof. intros. unfold u16. apply N.mod_small. assumption. Qed.
Lemma u32_small x : x < 4294967296 -> u32 x = x.
Proof. intros. unfold u32. apply N.mod_small. assumption. Qed.

(* bit-or / bit-and with disjoint masks, by sweeps *)
Lemma lor16_sweep : forallb (fun c => (N.lor c 128 =? c + 128) && (N.land c 15 =? c) && (N.lor c 16 =? c + 16)) (N_seq 16) = true.
Proof. vm_cast_no_check (eq_refl true). Qed.
Lemma lor16 c : c < 16 -> N.lor c 128 = c + 128 /\ N.land c 15 = c /\ N.lor c 16 = c + 16.
Proof.
  intros H. pose proof (sweep_n 16 _ lor16_sweep c H) as P.
  apply andb_true_iff in P. destruct P as [P P3]. apply andb_true_iff in P. destruct P as [P1 P2].
  apply N.eqb_eq in P1, P2, P3. auto.
Qed.
Lemma land64_sweep : forallb (fun c => (N.land c 63 =? c) && (N.lor 128 c =? c + 128)) (N_seq 64) = true.
Proof. vm_cast_no_check (eq_refl true). Qed.
Lemma land64 c : c < 64 -> N.land c 63 = c /\ N.lor 128 c = c + 128.
Proof.
  intros H. pose proof (sweep_n 64 _ land64_sweep c H) as P.
  apply andb_true_iff in P. destruct P as [P1 P2]. apply N.eqb_eq in P1, P2. auto.
Qed.

(* ---------- request bodies, one constructor at a time ---------- *)
Lemma rb_none bs : ser_request RqNone [] = Ok bs -> request_body KNone bs = Some RqNone.
Proof. cbn [ser_request]. intros H. apply Ok_inj in H; subst bs. reflexivity. Qed.

Lemma rb_authcaps ext ch mp bs : wf_request (RqAuthCaps ext ch mp) = true ->
  ser_request (RqAuthCaps ext ch mp) [] = Ok bs -> request_body KAuthCaps bs = Some (RqAuthCaps ext ch mp).
Proof.
  cbv beta iota delta [wf_request ser_request app]. intros W S. split_wf W. apply Ok_inj in S; subst bs.
  rewrite !u8_small by lia. destruct (lor16 ch ltac:(lia)) as [E _].
  destruct ext; [rewrite E|rewrite N.lor_0_r]; cbn [request_body]; ifs; repeat f_equal; lia.
Qed.

Lemma rb_ciphersuites ch pt idx bs : wf_request (RqCipherSuites ch pt idx) = true ->
  ser_request (RqCipherSuites ch pt idx) [] = Ok bs -> request_body KCipherSuites bs = Some (RqCipherSuites ch pt idx).
Proof.
  cbv beta iota delta [wf_request ser_request app]. intros W S. split_wf W. apply Ok_inj in S; subst bs.
  rewrite !u8_small by lia.
  destruct (lor16 ch ltac:(lia)) as [_ [-> _]].
  destruct (land64 pt ltac:(lia)) as [-> _].
  destruct (land64 idx ltac:(lia)) as [-> ->].
  cbn [request_body].
  replace ((ch <? 16) && (pt <? 64) && (128 <=? idx + 128) && (idx + 128 <? 192))%bool with true by lia.
  repeat f_equal; lia.
Qed.

Lemma rb_sessioninfo idx h id bs : wf_request (RqSessionInfo idx h id) = true ->
  ser_request (RqSessionInfo idx h id) [] = Ok bs -> request_body KSessionInfo bs = Some (RqSessionInfo idx h id).
Proof.
  cbv beta iota delta [wf_request ser_request]. intros W S. split_wf W. apply Ok_inj in S; subst bs.
  change (2 ^ 32) with 4294967296 in *.
  rewrite !(u8_small idx) by lia.
  destruct (N.eqb_spec idx 254) as [->|N1].
  - split_wf W0. rewrite u8_small by lia. cbn [app request_body]. change (254 =? 254) with true. cbv iota.
    repeat f_equal; lia.
  - destruct (N.eqb_spec idx 255) as [->|N2].
    + split_wf W0. rewrite u32_small by lia. unfold put_le32. cbn [app request_body].
      change (255 =? 255) with true. cbv iota. rewrite le32_put by lia. repeat f_equal; lia.
    + split_wf W0. cbn [app request_body].
      replace ((idx =? 254) || (idx =? 255))%bool with false by lia. repeat f_equal; lia.
Qed.

Lemma rb_setpriv l bs : wf_request (RqSetPriv l) = true ->
  ser_request (RqSetPriv l) [] = Ok bs -> request_body KSetPriv bs = Some (RqSetPriv l).
Proof.
  cbv beta iota delta [wf_request ser_request]. intros W S. split_wf W.
  rewrite u8_small in S by lia. destruct (N.eqb_spec l 1); [discriminate|].
  apply Ok_inj in S; subst bs. destruct (lor16 l ltac:(lia)) as [_ [-> _]]. cbn [app request_body].
  replace ((l <? 16) && negb (l =? 1))%bool with true by lia. reflexivity.
Qed.

Lemma rb_closesession id h bs : wf_request (RqCloseSession id h) = true ->
  ser_request (RqCloseSession id h) [] = Ok bs -> request_body KCloseSession bs = Some (RqCloseSession id h).
Proof.
  cbv beta iota delta [wf_request ser_request]. intros W S. split_wf W. apply Ok_inj in S; subst bs.
  change (2 ^ 32) with 4294967296 in *. rewrite !u32_small by lia. unfold put_le32.
  destruct (N.eqb_spec id 0) as [->|N0].
  - rewrite u8_small by lia. cbn [app request_body]. rewrite le32_put by lia.
    change (0 =? 0) with true. cbv iota. reflexivity.
  - cbn [app request_body]. rewrite le32_put by lia.
    destruct (N.eqb_spec id 0); [lia|]. repeat f_equal; lia.
Qed.

Lemma rb_chassiscontrol c bs : wf_request (RqChassisControl c) = true ->
  ser_request (RqChassisControl c) [] = Ok bs -> request_body KChassisControl bs = Some (RqChassisControl c).
Proof.
  cbv beta iota delta [wf_request ser_request app]. intros W S. apply Ok_inj in S; subst bs. rewrite u8_small by lia.
  cbn [request_body]. rewrite W. reflexivity.
Qed.

Lemma rb_getsdr rs rc off len bs : wf_request (RqGetSDR rs rc off len) = true ->
  ser_request (RqGetSDR rs rc off len) [] = Ok bs -> request_body KGetSDR bs = Some (RqGetSDR rs rc off len).
Proof.
  cbv beta iota delta [wf_request ser_request]. intros W S. split_wf W. apply Ok_inj in S; subst bs.
  rewrite !u16_small, !u8_small by lia. unfold put_le16. cbn [app request_body].
  rewrite !le16_put by lia. reflexivity.
Qed.

Lemma rb_sensorreading n bs : wf_request (RqSensorReading n) = true ->
  ser_request (RqSensorReading n) [] = Ok bs -> request_body KSensorReading bs = Some (RqSensorReading n).
Proof.
  cbv beta iota delta [wf_request ser_request app]. intros W S. apply Ok_inj in S; subst bs. rewrite u8_small by lia. reflexivity.
Qed.

Lemma rb_dcmicaps p bs : wf_request (RqDCMICaps p) = true ->
  ser_request (RqDCMICaps p) [] = Ok bs -> request_body KDCMICaps bs = Some (RqDCMICaps p).
Proof.
  cbv beta iota delta [wf_request ser_request app]. intros W S. apply Ok_inj in S; subst bs. rewrite u8_small by lia. reflexivity.
Qed.

Lemma rb_powerreading mode per bs : wf_request (RqPowerReading mode per) = true ->
  ser_request (RqPowerReading mode per) [] = Ok bs -> request_body KPowerReading bs = Some (RqPowerReading mode per).
Proof.
  cbv beta iota delta [wf_request ser_request app]. intros W S. split_wf W. apply Ok_inj in S; subst bs.
  rewrite !u8_small by lia. cbn [request_body]. change (0 =? 0) with true. cbv iota.
  destruct (N.eqb_spec mode 2) as [->|N2].
  - rewrite rolling_byte_correct. apply N.eqb_eq in W0. rewrite W0. reflexivity.
  - change (0 =? 0) with true. cbv iota. apply N.eqb_eq in W0. rewrite W0. reflexivity.
Qed.

Lemma rb_dcmisensorinfo t e i st bs : wf_request (RqDCMISensorInfo t e i st) = true ->
  ser_request (RqDCMISensorInfo t e i st) [] = Ok bs ->
  request_body KDCMISensorInfo bs = Some (RqDCMISensorInfo t e i st).
Proof.
  cbv beta iota delta [wf_request ser_request app]. intros W S. split_wf W. apply Ok_inj in S; subst bs.
  rewrite !(u8_small t), !(u8_small e), !(u8_small i) by lia.
  destruct (N.eqb_spec i 0) as [->|N0].
  - rewrite u8_small by lia. cbn [request_body]. change (0 =? 0) with true. reflexivity.
  - apply N.eqb_eq in W0. subst st. cbn [request_body]. change (0 =? 0) with true.
    rewrite andb_false_r. reflexivity.
Qed.

Lemma rb_raw b bs : ser_request (RqRaw b) [] = Ok bs -> request_body KRaw bs = Some (RqRaw b).
Proof.
  cbn [ser_request]. rewrite app_nil_r. intros S. apply Ok_inj in S; subst bs. reflexivity.
Qed.

Theorem request_body_roundtrip : forall r bs,
  wf_request r = true -> ser_request r [] = Ok bs -> request_body (kind_of r) bs = Some r.
Proof.
  intros r bs W S. destruct r; cbn [kind_of].
  - apply rb_none; assumption.
  - apply rb_authcaps; assumption.
  - apply rb_ciphersuites; assumption.
  - apply rb_sessioninfo; assumption.
  - apply rb_setpriv; assumption.
  - apply rb_closesession; assumption.
  - apply rb_chassiscontrol; assumption.
  - apply rb_getsdr; assumption.
  - apply rb_sensorreading; assumption.
  - apply rb_dcmicaps; assumption.
  - apply rb_powerreading; assumption.
  - apply rb_dcmisensorinfo; assumption.
  - apply rb_raw; assumption.
Qed.

Theorem setpriv_callback_refused : ser_request (RqSetPriv 1) [] = Err.
Proof. reflexivity. Qed.

(* ---------- session-setup payloads ---------- *)
Lemma firstn_exact {A} n (l r : list A) : length l = n -> firstn n (l ++ r) = l.
Proof. intros <-. rewrite firstn_app, Nat.sub_diag, firstn_all, firstn_O, app_nil_r. reflexivity. Qed.
Lemma skipn_exact {A} n (l r : list A) : length l = n -> skipn n (l ++ r) = r.
Proof. intros <-. rewrite skipn_app, Nat.sub_diag, skipn_all. reflexivity. Qed.

Lemma alg_payload_ser tag a : a < 64 ->
  alg_payload tag (ser_algpayload tag {| ap_wildcard := false; ap_alg := a |}) = Some a.
Proof.
  intros H. cbv beta iota delta [ser_algpayload ap_wildcard ap_alg]. rewrite u8_small by lia.
  cbv beta iota delta [alg_payload]. rewrite N.eqb_refl. apply N.ltb_lt in H. rewrite H. reflexivity.
Qed.

Theorem open_request_roundtrip : forall v bs,
  oq_tag v < 256 -> oq_maxpriv v < 16 -> oq_id v < 4294967296 ->
  ap_wildcard (oq_auth v) = false -> ap_alg (oq_auth v) < 64 ->
  ap_wildcard (oq_integ v) = false -> ap_alg (oq_integ v) < 64 ->
  ap_wildcard (oq_conf v) = false -> ap_alg (oq_conf v) < 64 ->
  ser_opensessionreq v [] = Ok bs -> open_session_request bs = Some v.
Proof.
  intros [tag mp id [wa a] [wi i] [wc c]] bs. cbn [oq_tag oq_maxpriv oq_id oq_auth oq_integ oq_conf ap_wildcard ap_alg].
  intros Ht Hm Hid -> Ha -> Hi -> Hc S. unfold ser_opensessionreq in S. apply Ok_inj in S. subst bs.
  cbn [oq_tag oq_maxpriv oq_id oq_auth oq_integ oq_conf].
  rewrite !u8_small by lia. destruct (lor16 mp Hm) as [_ [-> _]].
  pose proof (alg_payload_ser 0 a Ha) as Pa. pose proof (alg_payload_ser 1 i Hi) as Pi.
  pose proof (alg_payload_ser 2 c Hc) as Pc.
  unfold put_le32.
  set (A := ser_algpayload 0 _) in *. set (B := ser_algpayload 1 _) in *. set (C := ser_algpayload 2 _) in *.
  assert (LA : length A = 8%nat) by reflexivity. assert (LB : length B = 8%nat) by reflexivity.
  assert (LC : length C = 8%nat) by reflexivity.
  cbn [app]. cbv beta iota delta [open_session_request].
  apply N.ltb_lt in Hm. rewrite Hm. rewrite !app_length, LA, LB, LC. cbn [Nat.add Nat.eqb andb].
  rewrite (firstn_exact 8 A _ LA).
  replace (skipn 16 (A ++ B ++ C)) with C
    by (rewrite app_assoc; symmetry; apply skipn_exact; rewrite app_length, LA, LB; reflexivity).
  rewrite (skipn_exact 8 A _ LA). rewrite (firstn_exact 8 B _ LB).
  rewrite Pa, Pi, Pc. rewrite le32_put by assumption. reflexivity.
Qed.

Theorem rakp1_roundtrip : forall v bs,
  r1_tag v < 256 -> r1_maxpriv v < 16 -> r1_bmc_id v < 4294967296 ->
  length (r1_random v) = 16%nat -> (length (r1_username v) <= 16)%nat ->
  ser_rakp1 v [] = Ok bs -> rakp_message_1 bs = Some v.
Proof.
  intros [tag id rnd lk mp un] bs. cbn [r1_tag r1_bmc_id r1_random r1_lookup r1_maxpriv r1_username].
  intros Ht Hm Hid Hr Hu S. unfold ser_rakp1 in S.
  cbn [r1_tag r1_bmc_id r1_random r1_lookup r1_maxpriv r1_username] in S.
  destruct (Nat.ltb_spec 16 (length un)); [lia|]. apply Ok_inj in S. subst bs.
  rewrite copy_into_full by (unfold zeros; rewrite repeat_length; exact Hr).
  rewrite app_nil_r. rewrite !u8_small by lia. unfold put_le32, role_byte. rewrite u8_small by lia.
  destruct (lor16 mp Hm) as [_ [-> E16]].
  set (role := N.lor mp (if lk then 0 else 16)).
  assert (Hrole : role = if lk then mp else mp + 16) by (subst role; destruct lk; [apply N.lor_0_r|exact E16]).
  clearbody role.
  cbn [app]. cbv beta iota zeta delta [rakp_message_1].
  rewrite (skipn_exact 16 rnd _ Hr), (firstn_exact 16 rnd _ Hr).
  rewrite Nat2N.id, Hr, !Nat.eqb_refl. rewrite le32_put by assumption.
  replace (role <? 32) with true by (destruct lk; lia).
  replace (N.of_nat (length un) <=? 16) with true by lia. cbn [andb].
  replace (role / 16 =? 0) with lk by (destruct lk; lia).
  replace (role mod 16) with mp by (destruct lk; lia). reflexivity.
Qed.

Theorem rakp3_roundtrip : forall v bs,
  r3_tag v < 256 -> r3_status v < 256 -> r3_bmc_id v < 4294967296 ->
  (r3_authcode v <> [] -> r3_status v = 0) ->
  ser_rakp3 v [] = Ok bs -> rakp_message_3 bs = Some v.
Proof.
  intros [tag st id code] bs. cbn [r3_tag r3_status r3_bmc_id r3_authcode].
  intros Ht Hs Hid Hc S. unfold ser_rakp3 in S. cbn [r3_tag r3_status r3_bmc_id r3_authcode] in S.
  apply Ok_inj in S. subst bs. rewrite !u8_small by lia. rewrite app_nil_r. unfold put_le32.
  destruct (N.eqb_spec st 0) as [->|N0].
  - cbn [app]. cbv beta iota delta [rakp_message_3]. change (0 =? 0) with true. cbn [orb].
    rewrite le32_put by assumption. reflexivity.
  - assert (code = []) as -> by (destruct code; [reflexivity|exfalso; apply N0, Hc; discriminate]).
    cbn [app]. cbv beta iota delta [rakp_message_3]. cbn [length Nat.eqb]. rewrite orb_true_r.
    rewrite le32_put by assumption. reflexivity.
Qed.

Theorem rakp1_long_username_refused : forall v buf,
  (16 < length (r1_username v))%nat -> ser_rakp1 v buf = Err.
Proof.
  intros v buf H. unfold ser_rakp1. destruct (Nat.ltb_spec 16 (length (r1_username v))); [reflexivity|lia].
Qed.

(* ---------- IPMI LAN request message ---------- *)
Definition expected_lanreq (o : operation) (lun : N) (body : bytes) : lanreq :=
  {| lr_rsaddr := 0x20; lr_netfn := op_fn o; lr_rslun := lun; lr_rqaddr := 0x81; lr_rqseq := 1; lr_rqlun := 0;
     lr_cmd := op_cmd o; lr_body := if op_fn o =? 0x2c then Some (op_body o) else None; lr_data := body |}.

Lemma netfn_lun_sweep :
  forallb (fun fn => forallb (fun lun => N.lor (u8 (N.shiftl (u8 fn) 2)) (u8 lun) =? 4 * fn + lun) (N_seq 4)) (N_seq 64) = true.
Proof. vm_cast_no_check (eq_refl true). Qed.
Lemma netfn_lun fn lun : fn < 64 -> lun < 4 -> N.lor (u8 (N.shiftl (u8 fn) 2)) (u8 lun) = 4 * fn + lun.
Proof.
  intros Hf Hl. pose proof (sweep_n 64 _ netfn_lun_sweep fn Hf) as P. cbv beta in P.
  apply N.eqb_eq. exact (sweep_n 4 _ P lun Hl).
Qed.

Lemma chk_ok_checksum data : chk_ok data (Impl.checksum data) = true.
Proof. unfold chk_ok. destruct (checksum_correct data) as [-> _]. reflexivity. Qed.

(* the exact bytes of a request message *)
Lemma ser_message_request_bytes o lun body m bs :
  op_fn o < 64 -> op_fn o mod 2 = 0 -> op_fn o <> 0x2e -> op_cmd o < 256 -> lun < 4 ->
  (op_fn o = 0x2c -> op_body o < 256) ->
  ser_message (request_message o lun) body = Ok (m, bs) ->
  let ext := if op_fn o =? 0x2c then [op_body o] else [] in
  let nf := 4 * op_fn o + lun in
  bs = 32 :: nf :: Impl.checksum [32; nf] :: 129 :: 4 :: op_cmd o
          :: (ext ++ body) ++ [Impl.checksum (129 :: 4 :: op_cmd o :: ext ++ body)].
Proof.
  destruct o as [fn bd ent cmd]. cbn [op_fn op_body op_ent op_cmd]. intros Hf He H2e Hc Hl Hb S. cbv zeta.
  unfold ser_message, request_message in S.
  cbn [m_function m_body m_enterprise m_command m_remote_addr m_remote_lun m_checksum1 m_local_addr
       m_local_lun m_sequence m_code m_checksum2 m_payload op_fn op_body op_ent op_cmd] in S.
  apply Ok_inj in S. apply (f_equal snd) in S. cbn [snd] in S. subst bs.
  rewrite netfn_lun by assumption.
  change (u8 32) with 32. change (u8 129) with 129.
  change (N.lor (u8 (N.shiftl (u8 1) 2)) (u8 0)) with 4.
  rewrite (u8_small cmd) by assumption.
  replace (msg_is_req fn) with true by (unfold msg_is_req; rewrite u8_small by lia; rewrite He; reflexivity).
  destruct (N.eqb_spec fn 44) as [->|N2c].
  - rewrite u8_small by (apply Hb; reflexivity). cbn [orb app]. reflexivity.
  - replace (fn =? 45) with false by lia. replace (fn =? 46) with false by lia.
    replace (fn =? 47) with false by lia. cbn [orb app]. reflexivity.
Qed.

Lemma lan_request_bytes fn lun cmd ext body :
  fn < 64 -> fn mod 2 = 0 -> lun < 4 ->
  let nf := 4 * fn + lun in
  lan_request (32 :: nf :: Impl.checksum [32; nf] :: 129 :: 4 :: cmd
                  :: (ext ++ body) ++ [Impl.checksum (129 :: 4 :: cmd :: ext ++ body)])
  = if fn =? 0x2c then
      match ext ++ body with
      | b :: d => Some {| lr_rsaddr := 32; lr_netfn := fn; lr_rslun := lun; lr_rqaddr := 129; lr_rqseq := 1; lr_rqlun := 0;
                          lr_cmd := cmd; lr_body := Some b; lr_data := d |}
      | [] => None
      end
    else Some {| lr_rsaddr := 32; lr_netfn := fn; lr_rslun := lun; lr_rqaddr := 129; lr_rqseq := 1; lr_rqlun := 0;
                 lr_cmd := cmd; lr_body := None; lr_data := ext ++ body |}.
Proof.
  intros Hf He Hl nf. cbv beta iota delta [lan_request].
  rewrite rev_unit. cbv beta iota zeta. rewrite rev_involutive. rewrite !chk_ok_checksum. cbn [andb].
  assert (E1 : nf / 4 = fn) by (subst nf; lia). assert (E2 : nf mod 4 = lun) by (subst nf; lia).
  rewrite E1, E2, He. change (0 =? 0) with true. cbv iota.
  change (4 / 4) with 1. change (4 mod 4) with 0. reflexivity.
Qed.

Theorem lan_request_roundtrip : forall o lun body m bs,
  op_fn o < 64 -> op_fn o mod 2 = 0 -> op_fn o <> 0x2e -> op_cmd o < 256 -> lun < 4 ->
  (op_fn o = 0x2c -> op_body o < 256) ->
  ser_message (request_message o lun) body = Ok (m, bs) ->
  lan_request bs = Some (expected_lanreq o lun body).
Proof.
  intros o lun body m bs Hf He H2e Hc Hl Hb S.
  rewrite (ser_message_request_bytes o lun body m bs Hf He H2e Hc Hl Hb S).
  rewrite lan_request_bytes by assumption. unfold expected_lanreq.
  destruct (op_fn o =? 44); reflexivity.
Qed.

(* ---------- RMCP + null RMCP+ session wrapper ---------- *)
Lemma payload_packet_bytes ptype buf pkt :
  ptype < 64 -> ptype <> 2 -> N.of_nat (length buf) < 65536 ->
  payload_packet ptype buf = Ok pkt ->
  let L := N.of_nat (length buf) in
  pkt = 6 :: 0 :: 255 :: 7 :: 6 :: ptype :: 0 :: 0 :: 0 :: 0 :: 0 :: 0 :: 0 :: 0
          :: (L mod 256) :: ((L / 256) mod 256) :: buf.
Proof.
  intros Hp H2 Hlen S. cbv zeta. unfold payload_packet, ser_v2session, v2_flags in S. cbv zeta in S.
  cbn [v2_ptype v2_enterprise v2_pid v2_encrypted v2_authenticated v2_id v2_sequence v2_length v2_pad
       v2_signature v2_payload] in S.
  rewrite !u8_small in S by lia. rewrite !N.lor_0_r in S.
  replace (ptype =? 2) with false in S by lia.
  rewrite u16_small in S by assumption.
  cbn [bind] in S. unfold ser_rmcp, rmcp_out in S. cbn [rm_version rm_sequence rm_ack rm_class] in S.
  apply Ok_inj in S. subst pkt.
  change (u8 6) with 6. change (u8 255) with 255.
  change (N.lor (u8 (N.shiftl (b2n false) 7)) (u8 7)) with 7.
  change (put_le32 0) with [0; 0; 0; 0]. unfold put_le16. cbn [app]. reflexivity.
Qed.

Lemma datagram_bytes ptype buf :
  ptype < 64 -> ptype <> 2 -> N.of_nat (length buf) < 65536 ->
  let L := N.of_nat (length buf) in
  datagram (6 :: 0 :: 255 :: 7 :: 6 :: ptype :: 0 :: 0 :: 0 :: 0 :: 0 :: 0 :: 0 :: 0
              :: (L mod 256) :: ((L / 256) mod 256) :: buf)
  = Some {| w_ptype := ptype; w_encrypted := false; w_authenticated := false; w_id := 0; w_seq := 0;
            w_payload := buf; w_trailer := [] |}.
Proof.
  intros Hp H2 Hlen L. cbv beta iota zeta delta [datagram].
  rewrite le16_put by assumption. subst L. rewrite Nat2N.id.
  replace (ptype mod 64) with ptype by lia. replace (ptype =? 2) with false by lia.
  rewrite Nat.ltb_irrefl, Nat.eqb_refl. replace ((ptype / 64) mod 2 =? 1) with false by lia.
  cbn [negb andb]. rewrite firstn_all, skipn_all. replace (128 <=? ptype) with false by lia.
  change (le32 0 0 0 0) with 0. reflexivity.
Qed.

Lemma sessionless_datagram_msg : forall o lun body m msg pkt,
  op_fn o < 64 -> op_fn o mod 2 = 0 -> op_fn o <> 0x2e -> op_cmd o < 256 -> lun < 4 ->
  (op_fn o = 0x2c -> op_body o < 256) ->
  ser_message (request_message o lun) body = Ok (m, msg) -> N.of_nat (length msg) < 65536 ->
  sessionless_command_packet o lun body = Ok pkt ->
  exists w, datagram pkt = Some w /\ w_ptype w = 0 /\ w_id w = 0 /\ w_seq w = 0 /\
            w_encrypted w = false /\ w_authenticated w = false /\ w_trailer w = [] /\
            lan_request (w_payload w) = Some (expected_lanreq o lun body).
Proof.
  intros o lun body m msg pkt Hf He H2e Hc Hl Hb Sm Hlen S.
  assert (Sp : payload_packet 0 msg = Ok pkt).
  { unfold sessionless_command_packet in S. rewrite Sm in S. exact S. }
  rewrite (payload_packet_bytes 0 msg pkt ltac:(lia) ltac:(lia) Hlen Sp).
  eexists. split; [apply datagram_bytes; [lia|lia|assumption]|].
  cbn [w_ptype w_id w_seq w_encrypted w_authenticated w_trailer w_payload].
  repeat split; try reflexivity.
  exact (lan_request_roundtrip o lun body m msg Hf He H2e Hc Hl Hb Sm).
Qed.

(* length of a request message: 6 header bytes, the group body code if any, the body, checksum 2 *)
Definition request_message_length (o : operation) (body : bytes) : N :=
  N.of_nat (length body) + (if op_fn o =? 0x2c then 8 else 7).

Lemma request_message_length_ok o lun body m msg :
  op_fn o < 64 -> op_fn o mod 2 = 0 -> op_fn o <> 0x2e -> op_cmd o < 256 -> lun < 4 ->
  (op_fn o = 0x2c -> op_body o < 256) ->
  ser_message (request_message o lun) body = Ok (m, msg) ->
  N.of_nat (length msg) = request_message_length o body.
Proof.
  intros Hf He H2e Hc Hl Hb Sm.
  rewrite (ser_message_request_bytes o lun body m msg Hf He H2e Hc Hl Hb Sm). cbv zeta.
  unfold request_message_length. cbn [length]. rewrite !app_length.
  destruct (op_fn o =? 44); cbn [length]; lia.
Qed.

Theorem sessionless_datagram : forall o lun body pkt,
  op_fn o < 64 -> op_fn o mod 2 = 0 -> op_fn o <> 0x2e -> op_cmd o < 256 -> lun < 4 ->
  (op_fn o = 0x2c -> op_body o < 256) ->
  request_message_length o body < 65536 ->
  sessionless_command_packet o lun body = Ok pkt ->
  exists w, datagram pkt = Some w /\ w_ptype w = 0 /\ w_id w = 0 /\ w_seq w = 0 /\
            w_encrypted w = false /\ w_authenticated w = false /\ w_trailer w = [] /\
            lan_request (w_payload w) = Some (expected_lanreq o lun body).
Proof.
  intros o lun body pkt Hf He H2e Hc Hl Hb Hlen S.
  destruct (ser_message (request_message o lun) body) as [[m msg]| |] eqn:Sm;
    [|unfold sessionless_command_packet in S; rewrite Sm in S; discriminate S ..].
  apply (sessionless_datagram_msg o lun body m msg pkt); try assumption.
  rewrite (request_message_length_ok o lun body m msg); assumption.
Qed.

Theorem setup_datagram : forall ptype payload pkt,
  ptype = 0x10 \/ ptype = 0x12 \/ ptype = 0x14 ->
  N.of_nat (length payload) < 65536 ->
  payload_packet ptype payload = Ok pkt ->
  exists w, datagram pkt = Some w /\ w_ptype w = ptype /\ w_id w = 0 /\ w_seq w = 0 /\
            w_encrypted w = false /\ w_authenticated w = false /\ w_trailer w = [] /\
            w_payload w = payload.
Proof.
  intros ptype payload pkt Hp Hlen S.
  assert (H64 : ptype < 64) by lia. assert (H2 : ptype <> 2) by lia.
  rewrite (payload_packet_bytes ptype payload pkt H64 H2 Hlen S).
  eexists. split; [apply datagram_bytes; assumption|]. cbn [w_ptype w_id w_seq w_encrypted w_authenticated w_trailer w_payload].
  repeat split; reflexivity.
Qed.
