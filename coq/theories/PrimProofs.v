(* PrimProofs.v — C20: every primitive conversion agrees with its
   mathematical definition on its entire domain.  Finite domains are settled
   by an exhaustive [vm_compute] sweep lifted to a universal statement with
   [byte_sweep]/[sweep_n] (the bound is in the statement); unbounded ones
   (checksum over any byte string, strings of any length, any duration) by
   induction / arithmetic. *)
From BMC Require Import Base BaseFacts Prim.
From Coq Require Import ZifyN ZifyNat ZifyBool.
Ltac Zify.zify_post_hook ::= Z.div_mod_to_equations.

(* ---- BCD ---- *)
Lemma bcd_sweep : forallb (fun b => Impl.bcd_decode b =? Spec.bcd b) all256 = true.
Proof. vm_cast_no_check (eq_refl true). Qed.
Theorem bcd_correct b : b < 256 -> Impl.bcd_decode b = Spec.bcd b.
Proof. intros H. apply N.eqb_eq. exact (byte_sweep _ bcd_sweep b H). Qed.

(* ---- one's complement ---- *)
Lemma ones_sweep : forallb (fun b => Z.eqb (Impl.ones b) (Spec.ones b)) all256 = true.
Proof. vm_cast_no_check (eq_refl true). Qed.
Theorem ones_correct b : b < 256 -> Impl.ones b = Spec.ones b.
Proof. intros H. apply Z.eqb_eq. exact (byte_sweep _ ones_sweep b H). Qed.

(* ---- two's complement, every width 1..16, every value of that width ---- *)
Definition twos_ok (w v : N) : bool :=
  Z.eqb (Impl.twos (v / 256) (v mod 256) w) (Spec.twos w v).
Definition twos_width_ok (w : N) : bool :=
  forallb (twos_ok w) (N_seq (N.to_nat (2 ^ w))).
Lemma twos_sweep : forallb twos_width_ok [1;2;3;4;5;6;7;8;9;10;11;12;13;14;15;16] = true.
Proof. vm_cast_no_check (eq_refl true). Qed.
Theorem twos_correct w v : 1 <= w <= 16 -> v < 2 ^ w ->
  Impl.twos (v / 256) (v mod 256) w = Spec.twos w v.
Proof.
  intros Hw Hv. pose proof twos_sweep as S. rewrite forallb_forall in S.
  assert (Hin : In w [1;2;3;4;5;6;7;8;9;10;11;12;13;14;15;16]).
  { assert (w = 1 \/ w = 2 \/ w = 3 \/ w = 4 \/ w = 5 \/ w = 6 \/ w = 7 \/ w = 8 \/
            w = 9 \/ w = 10 \/ w = 11 \/ w = 12 \/ w = 13 \/ w = 14 \/ w = 15 \/ w = 16) by lia.
    simpl. intuition. }
  specialize (S w Hin). unfold twos_width_ok in S.
  apply Z.eqb_eq. apply (sweep_n _ _ S). rewrite N2Nat.id. exact Hv.
Qed.

(* ---- analog parsers ---- *)
Definition parser_ok (fmt raw : N) : bool :=
  match Impl.analog_parser fmt, Spec.interpret fmt raw with
  | Some p, Some z => Z.eqb (p raw) z
  | None, None => true
  | _, _ => false
  end.
Lemma parser_sweep : forallb (fun fmt => forallb (parser_ok fmt) all256) [0;1;2;3] = true.
Proof. vm_cast_no_check (eq_refl true). Qed.
Theorem analog_parser_correct fmt raw : raw < 256 ->
  match Impl.analog_parser fmt with
  | Some p => Spec.interpret fmt raw = Some (p raw)
  | None => Spec.interpret fmt raw = None /\ 3 <= fmt
  end.
Proof.
  intros Hr. pose proof parser_sweep as S. rewrite forallb_forall in S.
  destruct (N.ltb_spec fmt 3) as [Hlt|Hge].
  - assert (Hin : In fmt [0;1;2;3]) by (assert (fmt = 0 \/ fmt = 1 \/ fmt = 2) by lia; simpl; intuition).
    specialize (S fmt Hin). pose proof (byte_sweep _ S raw Hr) as P. unfold parser_ok in P.
    assert (fmt = 0 \/ fmt = 1 \/ fmt = 2) as [->|[->| ->]] by lia; simpl in *;
      apply Z.eqb_eq in P; congruence.
  - assert (E : Impl.analog_parser fmt = None /\ Spec.interpret fmt raw = None).
    { destruct fmt as [|p]; [lia|]. destruct p as [p|p|]; try lia;
      destruct p as [p|p|]; try lia; simpl; auto. }
    destruct E as [-> ->]. split; [reflexivity|lia].
Qed.

(* ---- checksum, any byte string ---- *)
Lemma checksum_fold data : forall c, c < 256 ->
  fold_left (fun c b => u8 (c + b)) data c = (c + sum_bytes data) mod 256.
Proof.
  induction data as [|b r IH]; intros c Hc; simpl.
  - unfold u8. rewrite N.add_0_r. rewrite N.mod_small; auto.
  - rewrite IH by (unfold u8; lia). unfold u8. lia.
Qed.
Theorem checksum_correct data :
  (sum_bytes data + Impl.checksum data) mod 256 = 0 /\ Impl.checksum data < 256.
Proof.
  unfold Impl.checksum. rewrite checksum_fold by lia. unfold u8. simpl (0 + _). lia.
Qed.
(* and it is the only such byte *)
Theorem checksum_unique data c :
  c < 256 -> (sum_bytes data + c) mod 256 = 0 -> c = Impl.checksum data.
Proof.
  intros Hc H. unfold Impl.checksum. rewrite checksum_fold by lia. unfold u8. simpl (0 + _). lia.
Qed.

(* ---- entity instances ---- *)
Theorem entity_split i : i < 128 ->
  Impl.is_system_relative i = (i <=? 0x5f) /\
  Impl.is_device_relative i = (0x60 <=? i) /\
  Impl.is_system_relative i = negb (Impl.is_device_relative i).
Proof.
  intros H. unfold Impl.is_system_relative, Impl.is_device_relative. repeat split.
  - destruct (N.leb_spec 0x60 i), (N.leb_spec i 0x7f); simpl; auto; lia.
  - destruct (N.leb_spec i 0x5f), (N.leb_spec 0x60 i), (N.leb_spec i 0x7f); simpl; auto; lia.
Qed.

(* ---- rolling average period ---- *)
Lemma rolling_duration_sweep :
  forallb (fun b => Impl.rolling_duration b =? Spec.rolling_duration b) all256 = true.
Proof. vm_cast_no_check (eq_refl true). Qed.
Theorem rolling_duration_correct b : b < 256 ->
  Impl.rolling_duration b = Spec.rolling_duration b.
Proof. intros H. apply N.eqb_eq. exact (byte_sweep _ rolling_duration_sweep b H). Qed.

Lemma lor_64 x : x < 64 -> N.lor x 0x40 = x + 64 /\ N.lor x 0x80 = x + 128 /\ N.lor x 0xc0 = x + 192.
Proof.
  intros H.
  assert (S : forallb (fun x => (N.lor x 0x40 =? x + 64) && (N.lor x 0x80 =? x + 128) &&
                                (N.lor x 0xc0 =? x + 192)) (N_seq 64) = true) by (vm_compute; reflexivity).
  pose proof (sweep_n 64 _ S x H) as P. apply andb_true_iff in P. destruct P as [P P3].
  apply andb_true_iff in P. destruct P as [P1 P2].
  apply N.eqb_eq in P1, P2, P3. auto.
Qed.

Theorem rolling_byte_correct d : Impl.rolling_byte d = Spec.rolling_byte d.
Proof.
  unfold Impl.rolling_byte, Spec.rolling_byte, Spec.rolling_unit, u8.
  destruct (N.ltb_spec d 60) as [H1|H1].
  { cbn [Spec.unit_seconds]. rewrite N.div_1_r. lia. }
  destruct (N.ltb_spec d 3600) as [H2|H2].
  { assert (Hq : d / 60 < 64) by lia. rewrite N.mod_small by lia.
    destruct (lor_64 _ Hq) as [-> _]. cbn [Spec.unit_seconds]. lia. }
  destruct (N.ltb_spec d 86400) as [H3|H3].
  { assert (Hq : d / 3600 < 64) by lia. rewrite N.mod_small by lia.
    destruct (lor_64 _ Hq) as [_ [-> _]]. cbn [Spec.unit_seconds]. lia. }
  cbn [Spec.unit_seconds].
  destruct (N.ltb_spec 63 (d / 86400)) as [H4|H4].
  { destruct (lor_64 63 ltac:(lia)) as [_ [_ E]]. change (63 mod 256) with 63. rewrite E. lia. }
  { assert (Hq : d / 86400 < 64) by lia. rewrite N.mod_small by lia.
    destruct (lor_64 _ Hq) as [_ [_ ->]]. lia. }
Qed.

(* the byte chosen for d denotes the largest representable period <= d in
   d's unit (below the 63-day cap), and re-encoding a decoded period is the
   identity on durations *)
Theorem rolling_byte_floor d : d < 64 * 86400 ->
  let u := Spec.unit_seconds (Spec.rolling_unit d) in
  Impl.rolling_duration (Impl.rolling_byte d) <= d < Impl.rolling_duration (Impl.rolling_byte d) + u.
Proof.
  intros Hd. cbv zeta. rewrite rolling_byte_correct.
  assert (Hu : Spec.rolling_unit d <= 3).
  { unfold Spec.rolling_unit. destruct (d <? 60), (d <? 3600), (d <? 86400); lia. }
  set (m := N.min 63 (d / Spec.unit_seconds (Spec.rolling_unit d))).
  assert (Hm : m <= 63) by apply N.le_min_l.
  assert (Hb : Spec.rolling_byte d < 256) by (unfold Spec.rolling_byte; cbv zeta; fold m; lia).
  rewrite rolling_duration_correct by exact Hb.
  unfold Spec.rolling_duration, Spec.rolling_byte. cbv zeta. fold m.
  replace ((64 * Spec.rolling_unit d + m) mod 64) with m by lia.
  replace ((64 * Spec.rolling_unit d + m) / 64) with (Spec.rolling_unit d) by lia.
  subst m. unfold Spec.rolling_unit.
  destruct (N.ltb_spec d 60); [cbn [Spec.unit_seconds]; lia|].
  destruct (N.ltb_spec d 3600); [cbn [Spec.unit_seconds]; lia|].
  destruct (N.ltb_spec d 86400); cbn [Spec.unit_seconds]; lia.
Qed.

(* a period byte is canonical when its count is non-zero and below the next
   unit (or it is the all-zero byte); exactly the canonical bytes survive
   duration -> byte unchanged, every other byte is re-encoded to the
   canonical byte of the same or (for counts 60..63 / 24..63) a larger unit *)
Definition canonical_period (b : N) : bool :=
  let v := b mod 64 in let u := b / 64 in
  (b =? 0) || (negb (v =? 0) && match u with 0 | 1 => v <? 60 | 2 => v <? 24 | _ => true end).
Lemma rolling_reencode_sweep :
  forallb (fun b => Bool.eqb (Impl.rolling_byte (Impl.rolling_duration b) =? b) (canonical_period b))
          all256 = true.
Proof. vm_cast_no_check (eq_refl true). Qed.
Theorem rolling_reencode b : b < 256 ->
  (Impl.rolling_byte (Impl.rolling_duration b) = b <-> canonical_period b = true).
Proof.
  intros H. pose proof (byte_sweep _ rolling_reencode_sweep b H) as P.
  apply Bool.eqb_prop in P. rewrite <- P. symmetry. apply N.eqb_eq.
Qed.
(* re-encoding never lengthens a period *)
Lemma rolling_reencode_le_sweep :
  forallb (fun b => Impl.rolling_duration (Impl.rolling_byte (Impl.rolling_duration b))
                    <=? Impl.rolling_duration b) all256 = true.
Proof. vm_cast_no_check (eq_refl true). Qed.
Theorem rolling_reencode_le b : b < 256 ->
  Impl.rolling_duration (Impl.rolling_byte (Impl.rolling_duration b)) <= Impl.rolling_duration b.
Proof. intros H. apply N.leb_le. exact (byte_sweep _ rolling_reencode_le_sweep b H). Qed.
