(* Dispatch.v — uniform entry points used by the extracted oracle. *)
From BMC Require Import Base Prim Layers Layers2 SpecLayers Hmac Aes.

(* decode [bs] into a value that earlier decoded [old] (if given); the outer
   option is None when the earlier decode itself failed (the model then has no
   prediction: the state left behind by a failed decode is not modelled) *)
Definition run_decode {L} (dec : L -> bytes -> res L) (zero : L) (show : L -> list tok)
           (old : option bytes) (bs : bytes) : option (res (list tok)) :=
  match old with
  | None => Some (do v <- dec zero bs; Ok (show v))
  | Some ob => match dec zero ob with
               | Ok ov => Some (do v <- dec ov bs; Ok (show v))
               | _ => None
               end
  end.

Definition aes_dec (key : bytes) : bytes -> bytes := aes128_decrypt_block key.
Definition aes_enc (key : bytes) : bytes -> bytes := aes128_encrypt_block key.

(* C07 generator: a field record is obtained by decoding arbitrary bytes with
   the model (every well-formed record arises this way); the specification's
   encoding of that record is what the implementation must decode back *)
Definition c07_case {L} (dec : L -> bytes -> res L) (zero : L) (show : L -> list tok)
           (enc : L -> option bytes) (bs : bytes) : option (bytes * list tok) :=
  match dec zero bs with
  | Ok v => match enc v with Some e => Some (e, show v) | None => None end
  | _ => None
  end.

(* ---------- connection-level entry points ---------- *)
From BMC Require Import Serialize SpecRequests Packet Conn Handshake SpecBmc.

Definition mk_session (integ : N) (k1 aeskey : bytes) (local remote : N) : option session :=
  match integrity_sign integ k1 with
  | Some sg => Some {| s_local_id := local; s_remote_id := remote; s_sign := sg;
                       s_enc := aes128_encrypt_block aeskey; s_dec := aes128_decrypt_block aeskey |}
  | None => None
  end.

Definition mk_active (integ conf : N) (k1 k2 : bytes) (console bmc : N) : Bmc.active :=
  {| Bmc.a_console_id := console; Bmc.a_bmc_id := bmc; Bmc.a_integ := integ; Bmc.a_conf := conf;
     Bmc.a_sik := []; Bmc.a_k1 := k1; Bmc.a_k2 := k2 |}.

Definition outcome_code (o : outcome) : N :=
  match o with OFinal _ => 0 | OExpired => 1 | OTransport => 2 | OSerialize => 3 | OFault => 4 end.

Definition show_lanreq (r : SpecParse.lanreq) : list tok :=
  [TN (SpecParse.lr_rsaddr r); TN (SpecParse.lr_netfn r); TN (SpecParse.lr_rslun r); TN (SpecParse.lr_rqaddr r);
   TN (SpecParse.lr_rqseq r); TN (SpecParse.lr_rqlun r); TN (SpecParse.lr_cmd r);
   TN (match SpecParse.lr_body r with Some b => b | None => 256 end); TY (SpecParse.lr_data r)].

(* the specification's reading of a session-less datagram carrying an IPMI request *)
Definition spec_sessionless (dg : bytes) : option (list tok) :=
  match SpecParse.datagram dg with
  | Some w =>
      if (SpecParse.w_ptype w =? 0) && negb (SpecParse.w_encrypted w) && negb (SpecParse.w_authenticated w)
      then match SpecParse.lan_request (SpecParse.w_payload w) with
           | Some r => Some ([TN (SpecParse.w_id w); TN (SpecParse.w_seq w)] ++ show_lanreq r)
           | None => None
           end
      else None
  | None => None
  end.
(* ... carrying a session-setup payload *)
Definition spec_setup (dg : bytes) : option (N * N * N * bytes) :=
  match SpecParse.datagram dg with
  | Some w => if negb (SpecParse.w_encrypted w) && negb (SpecParse.w_authenticated w)
              then Some (SpecParse.w_ptype w, SpecParse.w_id w, SpecParse.w_seq w, SpecParse.w_payload w) else None
  | None => None
  end.

Definition show_request (r : request) : list tok :=
  match r with
  | RqNone => [TN 0]
  | RqAuthCaps e c m => [TN 1; TB e; TN c; TN m]
  | RqCipherSuites c p i => [TN 2; TN c; TN p; TN i]
  | RqSessionInfo i h d => [TN 3; TN i; TN h; TN d]
  | RqSetPriv l => [TN 4; TN l]
  | RqCloseSession i h => [TN 5; TN i; TN h]
  | RqChassisControl c => [TN 6; TN c]
  | RqGetSDR a b c d => [TN 7; TN a; TN b; TN c; TN d]
  | RqSensorReading n => [TN 8; TN n]
  | RqDCMICaps p => [TN 9; TN p]
  | RqPowerReading m p => [TN 10; TN m; TN p]
  | RqDCMISensorInfo a b c d => [TN 11; TN a; TN b; TN c; TN d]
  | RqRaw b => [TN 12; TY b]
  end.

(* ---------- procedures ---------- *)
From BMC Require Import Proc.
From Coq Require Import QArith.
Local Close Scope Q_scope.
Local Open Scope N_scope.

Definition serve_chunks (chunks : list (option bytes)) (idx : N) : option bytes :=
  match nth_error chunks (N.to_nat idx) with Some c => c | None => None end.

(* a DCMI server from per-entity record-ID lists and a page size; [fail] = entities that answer with an error *)
Definition serve_dcmi (tbl : list (N * list N)) (fail : list N) (page : nat) (entity start : N) : option (N * list N) :=
  if existsb (N.eqb entity) fail then None else
  match find (fun e => fst e =? entity) tbl with
  | Some (_, ids) => Some (N.of_nat (length ids) mod 256, firstn page (skipn (N.to_nat start - 1) ids))
  | None => Some (0, [])
  end.

(* an SDR repository server: records (id, full record bytes incl. header) in storage order *)
Fixpoint sdr_lookup (recs : list (N * bytes)) (rec : N) (first : bool) : option (bytes * N) :=
  match recs with
  | [] => None
  | (id, data) :: rest =>
      if (first && (rec =? 0)) || (id =? rec) then
        Some (data, match rest with (nid, _) :: _ => nid | [] => 0xffff end)
      else sdr_lookup rest rec false
  end.
Definition serve_sdr (recs : list (N * bytes)) : sdr_server :=
  fun res rec off len =>
    match sdr_lookup recs rec true with
    | Some (data, next) => Some (next, firstn (N.to_nat len) (skipn (N.to_nat off) data))
    | None => None
    end.

(* ---------- C08: decode, re-serialise, decode again ---------- *)
Definition rt_generic {L} (dec : L -> bytes -> res L) (zero : L) (show : L -> list tok)
           (ser : L -> res bytes) (bs : bytes) : option (res (bytes * list tok * option (list tok))) :=
  match dec zero bs with
  | Ok v => Some (match ser v with
                  | Ok out => Ok (out, show v, match dec zero out with Ok v2 => Some (show v2) | _ => None end)
                  | Err => Err | Fault => Fault end)
  | Err => None
  | Fault => Some Fault
  end.
Definition rt_message := rt_generic decode_message message_zero show_message
  (fun m => do '(_, out) <- ser_message m (m_payload m); Ok out).
Definition rt_v1session := rt_generic decode_v1session v1session_zero show_v1session
  (fun v => do '(_, out) <- ser_v1session v (v1_payload v); Ok out).
Definition rt_v2session (sign : bytes -> bytes) := rt_generic (decode_v2session sign) v2session_zero show_v2session
  (fun v => do '(_, out) <- ser_v2session sign v (v2_payload v); Ok out).
Definition rt_rakp1 := rt_generic decode_rakp1 rakp1_zero show_rakp1 (fun v => ser_rakp1 v []).
(* AES: the re-serialisation uses the IV the implementation drew *)
Definition rt_aes (key iv : bytes) (bs : bytes) : option (res (bytes * bytes)) :=
  match decode_aescbc (aes128_decrypt_block key) aescbc_zero bs with
  | Ok a => Some (do out <- ser_aescbc (aes128_encrypt_block key) iv (ae_payload a); Ok (out, ae_payload a))
  | Err => None
  | Fault => Some Fault
  end.
