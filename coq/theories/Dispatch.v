(* Dispatch.v — uniform entry points used by the extracted oracle. *)
From BMC Require Import Base Prim Layers Layers2 SpecLayers Hmac Aes.

(* decode [bs] into a value that earlier decoded [old] (if given); the outer
   option is None when the earlier decode itself failed (the model then has no
   prediction: the state left behind by a failed decode is not modelled) *)
Definition run_decode {L} (dec : L -> bytes -> res L) (zero : L) (show : L -> list tok)
           (old : option bytes) (bs : bytes) : option (res (list tok)) :=
  match old with
  | None => Some (do v <- dec zero bs; Ok (show v))
  | Some ob => match dec zero ob with
               | Ok ov => Some (do v <- dec ov bs; Ok (show v))
               | _ => None
               end
  end.

Definition aes_dec (key : bytes) : bytes -> bytes := aes128_decrypt_block key.
Definition aes_enc (key : bytes) : bytes -> bytes := aes128_encrypt_block key.

(* C07 generator: a field record is obtained by decoding arbitrary bytes with
   the model (every well-formed record arises this way); the specification's
   encoding of that record is what the implementation must decode back *)
Definition c07_case {L} (dec : L -> bytes -> res L) (zero : L) (show : L -> list tok)
           (enc : L -> option bytes) (bs : bytes) : option (bytes * list tok) :=
  match dec zero bs with
  | Ok v => match enc v with Some e => Some (e, show v) | None => None end
  | _ => None
  end.
