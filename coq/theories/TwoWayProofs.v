(* TwoWayProofs.v — C08: for the layers that are both serialised and decoded
   (Message, V1Session, V2Session, RAKP Message 1, AES-128-CBC),
   decode (serialise v p) = v-with-payload-p, and serialise (decode bs) = bs. *)
From BMC Require Import Base BaseFacts Prim PrimProofs Layers Layers2 Serialize LayerTotal.
From Coq Require Import ZifyN ZifyNat ZifyBool.
Ltac Zify.zify_post_hook ::= Z.div_mod_to_equations.

(* ---------- generic accessor facts, stated with explicit decompositions ---------- *)
Lemma get_eq i bs xs y zs : bs = xs ++ y :: zs -> i = length xs -> get i bs = Ok y.
Proof.
  intros -> ->. unfold get. rewrite nth_error_app2 by lia. rewrite Nat.sub_diag. reflexivity.
Qed.

Lemma slice_eq a b bs xs ys zs :
  bs = xs ++ ys ++ zs -> a = length xs -> b = (a + length ys)%nat -> slice a b bs = Ok ys.
Proof.
  intros -> -> ->. rewrite slice_ok; [|lia|rewrite !app_length; lia].
  rewrite skipn_app, skipn_all, Nat.sub_diag. cbn [skipn app].
  replace (length xs + length ys - length xs)%nat with (length ys + 0)%nat by lia.
  rewrite firstn_app_2. cbn [firstn]. rewrite app_nil_r. reflexivity.
Qed.

Lemma slice_from_eq a bs xs ys : bs = xs ++ ys -> a = length xs -> slice_from a bs = Ok ys.
Proof.
  intros -> ->. rewrite slice_from_ok by (rewrite app_length; lia).
  rewrite skipn_app, skipn_all, Nat.sub_diag. reflexivity.
Qed.

Lemma slice_to_eq b bs xs ys : bs = xs ++ ys -> b = length xs -> slice_to b bs = Ok xs.
Proof.
  intros -> ->. rewrite slice_to_ok by (rewrite app_length; lia).
  replace (length xs) with (length xs + 0)%nat by lia.
  rewrite firstn_app_2. cbn [firstn]. rewrite app_nil_r. reflexivity.
Qed.

Lemma u8_small x : x < 256 -> u8 x = x.
Proof. unfold u8. intros. apply N.mod_small. assumption. Qed.
Lemma u8_lt x : u8 x < 256.
Proof. unfold u8. lia. Qed.

Ltac len := cbn [length app]; rewrite ?app_length; cbn [length]; lia.

Tactic Notation "explode_eq" ident(bs) integer(n) :=
  do n (destruct bs as [|? bs]; [discriminate|]).

(* ===================================================================== *)
(* V1Session                                                              *)
(* ===================================================================== *)
Definition v1_set_payload (v : v1session) (p : bytes) : v1session :=
  {| v1_authtype := v1_authtype v; v1_sequence := v1_sequence v; v1_id := v1_id v;
     v1_authcode := v1_authcode v; v1_length := v1_length v; v1_payload := p |}.
Definition v1_set_authcode (v : v1session) (a : bytes) : v1session :=
  {| v1_authtype := v1_authtype v; v1_sequence := v1_sequence v; v1_id := v1_id v;
     v1_authcode := a; v1_length := v1_length v; v1_payload := v1_payload v |}.

(* precise form: an unauthenticated packet does not carry the AuthCode, the
   decoder yields sixteen zero bytes whatever the serialised value held *)
Theorem v1session_roundtrip_gen v p old v' bs :
  v1_authtype v < 256 -> v1_sequence v < 4294967296 -> v1_id v < 4294967296 ->
  length (v1_authcode v) = 16%nat ->
  ser_v1session v p = Ok (v', bs) ->
  decode_v1session old bs =
    Ok (v1_set_authcode (v1_set_payload v' p)
          (if v1_authtype v =? 0 then zeros 16 else v1_authcode v)).
Proof.
  intros Hat Hsq Hid Hac. unfold ser_v1session. rewrite (u8_small _ Hat).
  destruct v as [at_ sq id ac l pl]. cbn [v1_authtype v1_sequence v1_id v1_authcode v1_payload] in *.
  rewrite (copy_into_full (zeros 16) ac) by (rewrite Hac; reflexivity).
  destruct (N.eqb_spec at_ 0) as [E|NE]; intros H; injection H as <- <-.
  - subst at_. unfold put_le32. cbn [app].
    unfold decode_v1session, guard. cbn [length Nat.ltb Nat.leb].
    unfold get_le32. cbn [get nth_error Nat.add bind].
    rewrite !le32_put by assumption. cbn [N.eqb].
    unfold slice_from. cbn [length Nat.leb skipn bind].
    reflexivity.
  -     do 16 (destruct ac as [|? ac]; [discriminate|]). destruct ac; [|discriminate].
    unfold put_le32. cbn [app].
    unfold decode_v1session, guard. cbn [length Nat.ltb Nat.leb].
    unfold get_le32. cbn [get nth_error Nat.add bind].
    rewrite !le32_put by assumption.
    destruct (N.eqb_spec at_ 0); [contradiction|].
    unfold slice_from, slice. cbn [length Nat.leb Nat.sub skipn firstn andb bind get nth_error].
    reflexivity.
Qed.

Theorem v1session_roundtrip v p old v' bs :
  v1_authtype v < 256 -> v1_sequence v < 4294967296 -> v1_id v < 4294967296 ->
  length (v1_authcode v) = 16%nat ->
  (v1_authtype v = 0 -> v1_authcode v = zeros 16) ->
  ser_v1session v p = Ok (v', bs) ->
  decode_v1session old bs = Ok (v1_set_payload v' p).
Proof.
  intros Hat Hsq Hid Hac Hz H.
  rewrite (v1session_roundtrip_gen v p old v' bs Hat Hsq Hid Hac H).
  unfold ser_v1session in H.
  assert (Ev : v1_authcode v' = v1_authcode v).
  { destruct (u8 (v1_authtype v) =? 0); injection H as <- _; reflexivity. }
  f_equal. unfold v1_set_authcode, v1_set_payload. cbn. f_equal.
  destruct (N.eqb_spec (v1_authtype v) 0) as [E|NE]; [rewrite Ev; symmetry; auto|auto].
Qed.

(* splitting [all_bytes (b0 :: b1 :: ... :: rest) = true] into bounds *)
Lemma all_bytes_cons b r : all_bytes (b :: r) = true -> b < 256 /\ all_bytes r = true.
Proof.
  unfold all_bytes. cbn [forallb]. intros H. apply andb_true_iff in H. destruct H as [H1 H2].
  unfold is_byte in H1. split; [lia|exact H2].
Qed.
Ltac split_bytes H :=
  repeat (let Hb := fresh "Hb" in apply all_bytes_cons in H; destruct H as [Hb H]).

(* the decoder does not compare the Length byte with the number of bytes that
   follow, so re-serialising reproduces the datagram only when they agree *)
Theorem v1session_reserialise old bs v :
  all_bytes bs = true ->
  decode_v1session old bs = Ok v ->
  v1_length v = u8 (N.of_nat (length (v1_payload v))) ->
  ser_v1session v (v1_payload v) = Ok (v, bs).
Proof.
  intros Hall. unfold decode_v1session, guard. guard_len.
  do 10 (destruct bs as [|? bs]; [simpl in *; lia|]).
  unfold get_le32. cbn [get nth_error Nat.add bind].
  split_bytes Hall.
  destruct (N.eqb_spec n 0) as [E|NE].
  - unfold slice_from. cbn [length Nat.leb skipn bind get nth_error].
    intros Hd; injection Hd as <-. cbn [v1_length v1_payload]. intros Hl.
    unfold ser_v1session. cbn [v1_authtype v1_sequence v1_id v1_authcode v1_payload].
    rewrite u8_small by assumption. subst n. cbn [N.eqb].
    rewrite !put_le32_get by assumption. rewrite <- Hl. reflexivity.
  - destruct (Nat.ltb_spec (length (n :: n0 :: n1 :: n2 :: n3 :: n4 :: n5 :: n6 :: n7 :: n8 :: bs)) 26) as [|Hlen];
      [discriminate|].
    do 16 (destruct bs as [|? bs]; [simpl in Hlen; lia|]).
    unfold slice_from, slice. cbn [length Nat.leb Nat.sub skipn firstn andb bind get nth_error].
    intros Hd; injection Hd as <-. cbn [v1_length v1_payload]. intros Hl.
    unfold ser_v1session. cbn [v1_authtype v1_sequence v1_id v1_authcode v1_payload].
    rewrite u8_small by assumption.
    destruct (N.eqb_spec n 0); [contradiction|].
    rewrite !put_le32_get by assumption. rewrite <- Hl. reflexivity.
Qed.

(* counter-example to the unqualified statement: Length = 5, no payload *)
Example v1session_reserialise_needs_length :
  let bs := [0;0;0;0;0;0;0;0;0;5] in
  exists v, decode_v1session v1session_zero bs = Ok v /\
            ser_v1session v (v1_payload v) <> Ok (v, bs).
Proof. eexists. split; [vm_compute; reflexivity|vm_compute; discriminate]. Qed.

(* ===================================================================== *)
(* RAKP Message 1                                                         *)
(* ===================================================================== *)
Lemma role_byte_sweep :
  forallb (fun mp => forallb (fun l =>
     Bool.eqb (N.land (role_byte mp l) 0x10 =? 0) l && (N.land (role_byte mp l) 0xf =? mp)
     && (role_byte mp l <? 32))
     [true; false]) (N_seq 16) = true.
Proof. vm_cast_no_check (eq_refl true). Qed.
Lemma role_byte_dec mp l : mp < 16 ->
  (N.land (role_byte mp l) 0x10 =? 0) = l /\ N.land (role_byte mp l) 0xf = mp.
Proof.
  intros H. pose proof (sweep_n 16 _ role_byte_sweep mp H) as P. cbv beta in P.
  rewrite forallb_forall in P. specialize (P l ltac:(destruct l; simpl; auto)).
  apply andb_true_iff in P. destruct P as [P _]. apply andb_true_iff in P. destruct P as [P1 P2].
  apply Bool.eqb_prop in P1. apply N.eqb_eq in P2. auto.
Qed.

Theorem rakp1_roundtrip v p old bs :
  r1_tag v < 256 -> r1_bmc_id v < 4294967296 -> length (r1_random v) = 16%nat ->
  r1_maxpriv v < 16 -> (length (r1_username v) <= 16)%nat ->
  ser_rakp1 v p = Ok bs -> decode_rakp1 old bs = Ok v.
Proof.
  intros Ht Hid Hr Hmp Hun. unfold ser_rakp1.
  destruct (Nat.ltb_spec 16 (length (r1_username v))); [lia|].
  destruct v as [tag id rnd lk mp un].
  cbn [r1_tag r1_bmc_id r1_random r1_lookup r1_maxpriv r1_username] in *.
  rewrite (copy_into_full (zeros 16) rnd) by (rewrite Hr; reflexivity).
  rewrite (u8_small tag) by assumption.
  assert (Hul : u8 (N.of_nat (length un)) = N.of_nat (length un)) by (apply u8_small; lia).
  rewrite Hul.
  do 16 (destruct rnd as [|? rnd]; [discriminate|]). destruct rnd; [|discriminate].
  unfold put_le32. cbn [app]. intros Hs; injection Hs as <-.
  unfold decode_rakp1, guard.
  match goal with |- context [Nat.ltb ?a 28] => destruct (Nat.ltb_spec a 28) as [Hl|_] end.
  { exfalso. revert Hl. len. }
  unfold get_le32, slice at 1. cbn [get nth_error Nat.add bind length Nat.leb andb skipn firstn Nat.sub].
  rewrite le32_put by assumption.
  destruct (N.ltb_spec 16 (N.of_nat (length un))); [lia|].
  rewrite Nat2N.id.
  match goal with |- context [Nat.ltb ?a ?b] => destruct (Nat.ltb_spec a b) as [Hl|Hl] end.
  { exfalso. revert Hl. len. }
  erewrite (slice_eq _ _ _ [_;_;_;_;_;_;_;_;_;_;_;_;_;_;_;_;_;_;_;_;_;_;_;_;_;_;_;_] un p);
    [|reflexivity|reflexivity|reflexivity].
  cbn [bind]. destruct (role_byte_dec mp lk Hmp) as [-> ->]. reflexivity.
Qed.

Lemma role_byte_enc_sweep :
  forallb (fun b => negb (N.land b 0xe0 =? 0) ||
     (role_byte (N.land b 0xf) (N.land b 0x10 =? 0) =? b)) all256 = true.
Proof. vm_cast_no_check (eq_refl true). Qed.
Lemma role_byte_enc b : b < 256 -> N.land b 0xe0 = 0 ->
  role_byte (N.land b 0xf) (N.land b 0x10 =? 0) = b.
Proof.
  intros H E. pose proof (byte_sweep _ role_byte_enc_sweep b H) as P. cbv beta in P.
  rewrite E in P. cbn [N.eqb negb orb] in P. apply N.eqb_eq in P. exact P.
Qed.

(* the decoder ignores the three reserved bytes after the tag, the two after
   the role byte, the top three bits of the role byte and whatever follows the
   user name; [rest] is that trailing data, handed back as the buffer *)
Theorem rakp1_reserialise old bs v :
  all_bytes bs = true ->
  nth 1 bs 0 = 0 -> nth 2 bs 0 = 0 -> nth 3 bs 0 = 0 ->
  N.land (nth 24 bs 0) 0xe0 = 0 -> nth 25 bs 0 = 0 -> nth 26 bs 0 = 0 ->
  decode_rakp1 old bs = Ok v ->
  ser_rakp1 v (skipn (28 + length (r1_username v)) bs) = Ok bs.
Proof.
  intros Hall R1 R2 R3 R24 R25 R26. unfold decode_rakp1, guard. guard_len.
  do 28 (destruct bs as [|? bs]; [simpl in *; lia|]).
  cbn [nth] in R1, R2, R3, R24, R25, R26. subst.
  split_bytes Hall.
  unfold get_le32, slice at 1. cbn [get nth_error Nat.add bind length Nat.leb andb skipn firstn Nat.sub].
  destruct (N.ltb_spec 16 n26) as [|Hul]; [discriminate|].
  match goal with |- context [Nat.ltb ?a ?b] => destruct (Nat.ltb_spec a b) as [|Hl] end; [discriminate|].
  rewrite slice_ok by (cbn [length]; lia).
  cbn [skipn Nat.sub bind].
  replace (N.to_nat n26 - 0)%nat with (N.to_nat n26) by lia.
  intros Hd; injection Hd as <-.
  assert (Hlen : length (firstn (N.to_nat n26) bs) = N.to_nat n26) by (rewrite firstn_length; lia).
  unfold ser_rakp1. cbn [r1_tag r1_bmc_id r1_random r1_lookup r1_maxpriv r1_username].
  rewrite Hlen. destruct (Nat.ltb_spec 16 (N.to_nat n26)); [lia|].
  rewrite copy_into_full by reflexivity.
  rewrite u8_small by assumption. rewrite put_le32_get by assumption.
  rewrite role_byte_enc by assumption.
  rewrite N2Nat.id, u8_small by assumption.
  cbn [Nat.add skipn app]. rewrite firstn_skipn. reflexivity.
Qed.

(* ===================================================================== *)
(* Message                                                                *)
(* ===================================================================== *)
Lemma ok_pair_inj {A B} (a c : A) (b d : B) : Ok (a, b) = Ok (c, d) -> a = c /\ b = d.
Proof. intros H. injection H. auto. Qed.

Definition m_set_payload (m : message) (p : bytes) : message :=
  {| m_function := m_function m; m_body := m_body m; m_enterprise := m_enterprise m; m_command := m_command m;
     m_remote_addr := m_remote_addr m; m_remote_lun := m_remote_lun m; m_checksum1 := m_checksum1 m;
     m_local_addr := m_local_addr m; m_local_lun := m_local_lun m; m_sequence := m_sequence m;
     m_code := m_code m; m_checksum2 := m_checksum2 m; m_payload := p |}.

Definition pack62 (hi lo : N) : N := N.lor (u8 (N.shiftl hi 2)) (u8 lo).
Lemma pack62_sweep :
  forallb (fun hi => forallb (fun lo =>
    (N.shiftr (pack62 hi lo) 2 =? hi) && (N.land (pack62 hi lo) 3 =? lo) && (pack62 hi lo <? 256))
    (N_seq 4)) (N_seq 64) = true.
Proof. vm_cast_no_check (eq_refl true). Qed.
Lemma pack62_dec hi lo : hi < 64 -> lo < 4 ->
  N.shiftr (pack62 hi lo) 2 = hi /\ N.land (pack62 hi lo) 3 = lo /\ pack62 hi lo < 256.
Proof.
  intros H1 H2. pose proof (sweep_n 64 _ pack62_sweep hi H1) as P. cbv beta in P.
  pose proof (sweep_n 4 _ P lo H2) as Q. cbv beta in Q.
  apply andb_true_iff in Q. destruct Q as [Q Q3]. apply andb_true_iff in Q. destruct Q as [Q1 Q2].
  apply N.eqb_eq in Q1, Q2. apply N.ltb_lt in Q3. auto.
Qed.

Record msg_in_range (m : message) : Prop := {
  mr_fn : m_function m < 64; mr_rl : m_remote_lun m < 4; mr_ll : m_local_lun m < 4;
  mr_sq : m_sequence m < 64; mr_ra : m_remote_addr m < 256; mr_la : m_local_addr m < 256;
  mr_cmd : m_command m < 256; mr_code : m_code m < 256; mr_body : m_body m < 256;
  mr_ent : m_enterprise m < 16777216;
  mr_body0 : m_function m <> 0x2c -> m_function m <> 0x2d -> m_body m = 0;
  mr_ent0 : m_function m <> 0x2e -> m_function m <> 0x2f -> m_enterprise m = 0;
  mr_code0 : m_function m mod 2 = 0 -> m_code m = 0 }.

Lemma ent_bytes e : e < 16777216 ->
  le24 (u8 e) (u8 (N.shiftr (u32 e) 8)) (u8 (N.shiftr (u32 e) 16)) = e.
Proof.
  intros H. unfold u32. rewrite N.mod_small by lia. rewrite !N.shiftr_div_pow2.
  change (2 ^ 8) with 256. change (2 ^ 16) with 65536. unfold u8. apply le24_put. exact H.
Qed.


(* one step of the decoder on  ra :: b1 :: c1 :: la :: b4 :: cmd :: ccl ++ extl ++ p ++ [c2] *)
Ltac msg_front ra b1 la b4 cmd c1 c2 bs Ebs n En :=
  unfold decode_message, guard; cbv zeta;
  set (c1 := Impl.checksum [ra; b1]);
  match goal with |- context [?q ++ [Impl.checksum ?l]] => set (c2 := Impl.checksum l) end;
  match goal with |- context [length ?l] => remember l as bs eqn:Ebs end;
  remember (length bs) as n eqn:En;
  destruct (Nat.ltb_spec n 7); [exfalso; revert En; rewrite Ebs; len|];
  erewrite (get_eq 0 bs [] ra); [|exact Ebs|reflexivity];
  erewrite (get_eq 1 bs [_] b1); [|exact Ebs|reflexivity];
  erewrite (get_eq 2 bs [_;_] c1); [|exact Ebs|reflexivity];
  erewrite (slice_to_eq 2 bs [ra;b1]); [|exact Ebs|reflexivity];
  cbn [bind]; fold c1; rewrite N.eqb_refl; cbn [negb];
  erewrite (get_eq 3 bs [_;_;_] la); [|exact Ebs|reflexivity];
  erewrite (get_eq 4 bs [_;_;_;_] b4); [|exact Ebs|reflexivity];
  erewrite (get_eq 5 bs [_;_;_;_;_] cmd); [|exact Ebs|reflexivity];
  cbn [bind].
Ltac nlen En Ebs := rewrite En, Ebs; len.

Ltac msg_back ra b1 c1 la b4 cmd c2 bs Ebs n En ccl extl p :=
  erewrite (get_eq (n-1) bs ([ra;b1;c1;la;b4;cmd] ++ ccl ++ extl ++ p) c2 []); [|exact Ebs|nlen En Ebs];
  erewrite (slice_eq 3 (n-1) bs [_;_;_] ([la;b4;cmd] ++ ccl ++ extl ++ p) [c2]); [|exact Ebs|reflexivity|nlen En Ebs];
  cbn [bind app]; fold c2; rewrite N.eqb_refl; cbn [negb].
Ltac msg_data ra b1 c1 la b4 cmd c2 bs Ebs n En ccl extl p :=
  erewrite (slice_eq _ (n-1) bs ([ra;b1;c1;la;b4;cmd] ++ ccl) (extl ++ p) [c2]); [|exact Ebs|reflexivity|nlen En Ebs];
  cbn [app bind length Nat.ltb Nat.leb get nth_error Nat.add];
  erewrite (slice_eq _ (n-1) bs ([ra;b1;c1;la;b4;cmd] ++ ccl ++ extl) p [c2]); [|exact Ebs|reflexivity|nlen En Ebs];
  cbn [bind].
Ltac msg_projs :=
  unfold m_set_payload;
  cbn [m_function m_body m_enterprise m_command m_remote_addr m_remote_lun m_checksum1 m_local_addr
       m_local_lun m_sequence m_code m_checksum2 m_payload].
Theorem message_roundtrip m p old m' bs :
  msg_in_range m -> ser_message m p = Ok (m', bs) ->
  decode_message old bs = Ok (m_set_payload m' p).
Proof.
  intros [Hfn Hrl Hll Hsq Hra Hla Hcmd Hcode Hbody Hent Hb0 He0 Hc0].
  destruct m as [fn body ent cmd ra rl ck1 la ll sq code ck2 pl].
  cbn [m_function m_body m_enterprise m_command m_remote_addr m_remote_lun m_checksum1 m_local_addr
       m_local_lun m_sequence m_code m_checksum2 m_payload] in *.
  unfold ser_message. cbv zeta.
  cbn [m_function m_body m_enterprise m_command m_remote_addr m_remote_lun m_checksum1 m_local_addr
       m_local_lun m_sequence m_code m_checksum2 m_payload].
  unfold msg_is_req. rewrite (u8_small fn), (u8_small sq) by lia.
  rewrite (u8_small ra), (u8_small la), (u8_small cmd), (u8_small code), (u8_small body) by assumption.
  fold (pack62 fn rl). fold (pack62 sq ll).
  destruct (pack62_dec fn rl Hfn Hrl) as (F1 & F2 & F3).
  destruct (pack62_dec sq ll Hsq Hll) as (S1 & S2 & S3).
  set (b1 := pack62 fn rl) in *. set (b4 := pack62 sq ll) in *.
  destruct (N.eqb_spec (fn mod 2) 0) as [Er|Er].
  - (* requests *)
    pose proof (proj2 (N.eqb_eq _ _) Er) as Erb.
    destruct ((fn =? 44) || (fn =? 45))%bool eqn:Eg; [|destruct ((fn =? 46) || (fn =? 47))%bool eqn:Eo];
      cbn [app]; intros H; apply ok_pair_inj in H; destruct H as [<- <-];
      msg_front ra b1 la b4 cmd c1 c2 bb Ebs n En.
    + msg_back ra b1 c1 la b4 cmd c2 bb Ebs n En (@nil N) [body] p.
      rewrite F1, Erb, Eg. cbn [negb andb bind].
      msg_data ra b1 c1 la b4 cmd c2 bb Ebs n En (@nil N) [body] p.
      rewrite F2, S1, S2. msg_projs. rewrite (Hc0 Er). rewrite He0 by lia. reflexivity.
    + msg_back ra b1 c1 la b4 cmd c2 bb Ebs n En (@nil N)
        [u8 ent; u8 (N.shiftr (u32 ent) 8); u8 (N.shiftr (u32 ent) 16)] p.
      rewrite F1, Erb, Eg, Eo. cbn [negb andb bind].
      msg_data ra b1 c1 la b4 cmd c2 bb Ebs n En (@nil N)
        [u8 ent; u8 (N.shiftr (u32 ent) 8); u8 (N.shiftr (u32 ent) 16)] p.
      rewrite F2, S1, S2, ent_bytes by assumption. msg_projs.
      rewrite (Hc0 Er). rewrite Hb0 by lia. reflexivity.
    + msg_back ra b1 c1 la b4 cmd c2 bb Ebs n En (@nil N) (@nil N) p.
      rewrite F1, Erb, Eg, Eo. cbn [negb andb bind].
      msg_data ra b1 c1 la b4 cmd c2 bb Ebs n En (@nil N) (@nil N) p.
      rewrite F2, S1, S2. msg_projs.
      rewrite (Hc0 Er). rewrite Hb0, He0 by lia. reflexivity.
  - (* responses *)
    pose proof (proj2 (N.eqb_neq _ _) Er) as Erb.
    destruct ((fn =? 44) || (fn =? 45))%bool eqn:Eg; [|destruct ((fn =? 46) || (fn =? 47))%bool eqn:Eo];
      cbn [app]; intros H; apply ok_pair_inj in H; destruct H as [<- <-];
      msg_front ra b1 la b4 cmd c1 c2 bb Ebs n En.
    + msg_back ra b1 c1 la b4 cmd c2 bb Ebs n En [code] [body] p.
      rewrite F1, Erb, Eg. cbn [negb andb].
      destruct (Nat.ltb_spec n 8); [exfalso; revert En; rewrite Ebs; len|].
      erewrite (get_eq 6 bb [_;_;_;_;_;_] code); [|exact Ebs|reflexivity]. cbn [bind].
      msg_data ra b1 c1 la b4 cmd c2 bb Ebs n En [code] [body] p.
      rewrite F2, S1, S2. msg_projs. rewrite He0 by lia. reflexivity.
    + msg_back ra b1 c1 la b4 cmd c2 bb Ebs n En [code]
        [u8 ent; u8 (N.shiftr (u32 ent) 8); u8 (N.shiftr (u32 ent) 16)] p.
      rewrite F1, Erb, Eg, Eo. cbn [negb andb].
      destruct (Nat.ltb_spec n 8); [exfalso; revert En; rewrite Ebs; len|].
      erewrite (get_eq 6 bb [_;_;_;_;_;_] code); [|exact Ebs|reflexivity]. cbn [bind].
      msg_data ra b1 c1 la b4 cmd c2 bb Ebs n En [code]
        [u8 ent; u8 (N.shiftr (u32 ent) 8); u8 (N.shiftr (u32 ent) 16)] p.
      rewrite F2, S1, S2, ent_bytes by assumption. msg_projs.
      rewrite Hb0 by lia. reflexivity.
    + msg_back ra b1 c1 la b4 cmd c2 bb Ebs n En [code] (@nil N) p.
      rewrite F1, Erb, Eg, Eo. cbn [negb andb].
      destruct (Nat.ltb_spec n 8); [exfalso; revert En; rewrite Ebs; len|].
      erewrite (get_eq 6 bb [_;_;_;_;_;_] code); [|exact Ebs|reflexivity]. cbn [bind].
      msg_data ra b1 c1 la b4 cmd c2 bb Ebs n En [code] (@nil N) p.
      rewrite F2, S1, S2. msg_projs.
      rewrite Hb0, He0 by lia. reflexivity.
Qed.

Lemma ok_inj {A} (a b : A) : Ok a = Ok b -> a = b.
Proof. intros H. injection H. auto. Qed.

Lemma unpack62_sweep :
  forallb (fun b => (pack62 (N.shiftr b 2) (N.land b 3) =? b) && (N.shiftr b 2 <? 64) && (N.land b 3 <? 4))
    all256 = true.
Proof. vm_cast_no_check (eq_refl true). Qed.
Lemma unpack62 b : b < 256 ->
  pack62 (N.shiftr b 2) (N.land b 3) = b /\ N.shiftr b 2 < 64 /\ N.land b 3 < 4.
Proof.
  intros H. pose proof (byte_sweep _ unpack62_sweep b H) as P. cbv beta in P.
  apply andb_true_iff in P. destruct P as [P P3]. apply andb_true_iff in P. destruct P as [P1 P2].
  apply N.eqb_eq in P1. apply N.ltb_lt in P2, P3. auto.
Qed.

Lemma le24_bytes a b c : a < 256 -> b < 256 -> c < 256 ->
  [u8 (le24 a b c); u8 (N.shiftr (u32 (le24 a b c)) 8); u8 (N.shiftr (u32 (le24 a b c)) 16)] = [a; b; c].
Proof.
  intros Ha Hb Hc. set (e := le24 a b c). assert (He : e < 16777216) by (unfold e, le24; lia).
  unfold u32. rewrite N.mod_small by lia. rewrite !N.shiftr_div_pow2.
  change (2 ^ 8) with 256. change (2 ^ 16) with 65536. unfold u8, e, le24.
  f_equal; [lia|f_equal; [lia|f_equal; lia]].
Qed.

Lemma all_bytes_snoc xs y : all_bytes (xs ++ [y]) = true -> all_bytes xs = true /\ y < 256.
Proof.
  rewrite all_bytes_app. intros H. apply andb_true_iff in H. destruct H as [H1 H2].
  apply all_bytes_cons in H2. tauto.
Qed.


Ltac msg_reser_fin b0 b1 b3 b4 b5 fn Hm m P1 Q1 Ebs E1 E2 :=
  cbn [bind]; intros Hm; apply ok_inj in Hm; subst m;
  unfold ser_message, msg_is_req; cbv zeta;
  cbn [m_function m_body m_enterprise m_command m_remote_addr m_remote_lun m_checksum1 m_local_addr
       m_local_lun m_sequence m_code m_checksum2 m_payload];
  rewrite (u8_small fn), (u8_small (N.shiftr b4 2)) by lia;
  rewrite (u8_small b0), (u8_small b3), (u8_small b5) by assumption;
  fold (pack62 fn (N.land b1 3)); fold (pack62 (N.shiftr b4 2) (N.land b4 3)); rewrite P1, Q1.
Theorem message_reserialise old bs m :
  all_bytes bs = true -> decode_message old bs = Ok m ->
  ser_message m (m_payload m) = Ok (m, bs).
Proof.
  intros Hall. unfold decode_message, guard. cbv zeta. guard_len.
  do 6 (destruct bs as [|? bs]; [simpl in *; lia|]).
  destruct (exists_last (l := bs)) as (r & last & Er); [intros ->; simpl in *; lia|].
  subst bs. clear H. rename n into b0, n0 into b1, n1 into b2, n2 into b3, n3 into b4, n4 into b5.
  split_bytes Hall. apply all_bytes_snoc in Hall. destruct Hall as [Hr Hlast].
  match goal with |- context [length ?l] => remember l as bs eqn:Ebs end.
  remember (length bs) as n eqn:En.
  erewrite (get_eq 0 bs [] b0); [|exact Ebs|reflexivity].
  erewrite (get_eq 1 bs [_] b1); [|exact Ebs|reflexivity].
  erewrite (get_eq 2 bs [_;_] b2); [|exact Ebs|reflexivity].
  erewrite (slice_to_eq 2 bs [b0;b1]); [|exact Ebs|reflexivity].
  cbn [bind]. destruct (N.eqb_spec b2 (Impl.checksum [b0; b1])) as [E1|]; [|discriminate]. cbn [negb].
  erewrite (get_eq 3 bs [_;_;_] b3); [|exact Ebs|reflexivity].
  erewrite (get_eq 4 bs [_;_;_;_] b4); [|exact Ebs|reflexivity].
  erewrite (get_eq 5 bs [_;_;_;_;_] b5); [|exact Ebs|reflexivity].
  erewrite (get_eq (n-1) bs ([b0;b1;b2;b3;b4;b5] ++ r) last []); [|exact Ebs|nlen En Ebs].
  erewrite (slice_eq 3 (n-1) bs [_;_;_] ([b3;b4;b5] ++ r) [last]); [|exact Ebs|reflexivity|nlen En Ebs].
  cbn [bind app].
  destruct (N.eqb_spec last (Impl.checksum (b3 :: b4 :: b5 :: r))) as [E2|]; [|discriminate]. cbn [negb].
  destruct (unpack62 b1 Hb0) as (P1 & P2 & P3). destruct (unpack62 b4 Hb3) as (Q1 & Q2 & Q3).
  set (fn := N.shiftr b1 2) in *.
  destruct (N.eqb_spec (fn mod 2) 0) as [Erq|Erq]; cbn [negb andb bind].
  - (* request *)
    pose proof (proj2 (N.eqb_eq _ _) Erq) as Erqb.
    erewrite (slice_eq 6 (n-1) bs [b0;b1;b2;b3;b4;b5] r [last]); [|exact Ebs|reflexivity|nlen En Ebs].
    cbn [bind].
    destruct ((fn =? 44) || (fn =? 45))%bool eqn:Eg; [|destruct ((fn =? 46) || (fn =? 47))%bool eqn:Eo].
    + destruct r as [|d0 p]; [discriminate|]. apply all_bytes_cons in Hr. destruct Hr as [Hd0 Hp].
      cbn [length Nat.ltb Nat.leb get nth_error bind Nat.add].
      erewrite (slice_eq 7 (n-1) bs [b0;b1;b2;b3;b4;b5;d0] p [last]); [|exact Ebs|reflexivity|nlen En Ebs].
      msg_reser_fin b0 b1 b3 b4 b5 fn Hm m P1 Q1 Ebs E1 E2.
      rewrite Erqb, Eg. cbn [app]. rewrite ?u8_small by assumption. rewrite <- E1, <- E2, Ebs. reflexivity.
    + destruct (Nat.ltb_spec (length r) 3) as [|Hl3]; [discriminate|].
      destruct r as [|d0 [|d1 [|d2 p]]]; try (simpl in Hl3; lia).
      apply all_bytes_cons in Hr. destruct Hr as [Hd0 Hr].
      apply all_bytes_cons in Hr. destruct Hr as [Hd1 Hr].
      apply all_bytes_cons in Hr. destruct Hr as [Hd2 Hp].
      cbn [get nth_error bind Nat.add].
      erewrite (slice_eq 9 (n-1) bs [b0;b1;b2;b3;b4;b5;d0;d1;d2] p [last]); [|exact Ebs|reflexivity|nlen En Ebs].
      msg_reser_fin b0 b1 b3 b4 b5 fn Hm m P1 Q1 Ebs E1 E2.
      rewrite Erqb, Eg, Eo. rewrite le24_bytes by assumption.
      cbn [app]. rewrite <- E1, <- E2, Ebs. reflexivity.
    + cbn [bind Nat.add].
      erewrite (slice_eq 6 (n-1) bs [b0;b1;b2;b3;b4;b5] r [last]); [|exact Ebs|reflexivity|nlen En Ebs].
      msg_reser_fin b0 b1 b3 b4 b5 fn Hm m P1 Q1 Ebs E1 E2.
      rewrite Erqb, Eg, Eo.
      cbn [app]. rewrite <- E1, <- E2, Ebs. reflexivity.
  - (* response *)
    pose proof (proj2 (N.eqb_neq _ _) Erq) as Erqb.
    destruct (Nat.ltb_spec n 8) as [|Hn8]; [discriminate|].
    destruct r as [|code r]; [exfalso; revert Hn8; nlen En Ebs|].
    apply all_bytes_cons in Hr. destruct Hr as [Hcode Hr].
    erewrite (get_eq 6 bs [_;_;_;_;_;_] code); [|exact Ebs|reflexivity]. cbn [bind].
    erewrite (slice_eq 7 (n-1) bs [b0;b1;b2;b3;b4;b5;code] r [last]); [|exact Ebs|reflexivity|nlen En Ebs].
    cbn [bind].
    destruct ((fn =? 44) || (fn =? 45))%bool eqn:Eg; [|destruct ((fn =? 46) || (fn =? 47))%bool eqn:Eo].
    + destruct r as [|d0 p]; [discriminate|]. apply all_bytes_cons in Hr. destruct Hr as [Hd0 Hp].
      cbn [length Nat.ltb Nat.leb get nth_error bind Nat.add].
      erewrite (slice_eq 8 (n-1) bs [b0;b1;b2;b3;b4;b5;code;d0] p [last]); [|exact Ebs|reflexivity|nlen En Ebs].
      msg_reser_fin b0 b1 b3 b4 b5 fn Hm m P1 Q1 Ebs E1 E2.
      rewrite Erqb, Eg. cbn [app]. rewrite ?u8_small by assumption. rewrite <- E1, <- E2, Ebs. reflexivity.
    + destruct (Nat.ltb_spec (length r) 3) as [|Hl3]; [discriminate|].
      destruct r as [|d0 [|d1 [|d2 p]]]; try (simpl in Hl3; lia).
      apply all_bytes_cons in Hr. destruct Hr as [Hd0 Hr].
      apply all_bytes_cons in Hr. destruct Hr as [Hd1 Hr].
      apply all_bytes_cons in Hr. destruct Hr as [Hd2 Hp].
      cbn [get nth_error bind Nat.add].
      erewrite (slice_eq 10 (n-1) bs [b0;b1;b2;b3;b4;b5;code;d0;d1;d2] p [last]); [|exact Ebs|reflexivity|nlen En Ebs].
      msg_reser_fin b0 b1 b3 b4 b5 fn Hm m P1 Q1 Ebs E1 E2.
      rewrite Erqb, Eg, Eo. rewrite le24_bytes by assumption.
      cbn [app]. rewrite ?u8_small by assumption. rewrite <- E1, <- E2, Ebs. reflexivity.
    + cbn [bind Nat.add].
      erewrite (slice_eq 7 (n-1) bs [b0;b1;b2;b3;b4;b5;code] r [last]); [|exact Ebs|reflexivity|nlen En Ebs].
      msg_reser_fin b0 b1 b3 b4 b5 fn Hm m P1 Q1 Ebs E1 E2.
      rewrite Erqb, Eg, Eo.
      cbn [app]. rewrite ?u8_small by assumption. rewrite <- E1, <- E2, Ebs. reflexivity.
Qed.

(* ===================================================================== *)
(* V2Session                                                              *)
(* ===================================================================== *)
Definition v2_set_payload (v : v2session) (p : bytes) : v2session :=
  {| v2_ptype := v2_ptype v; v2_enterprise := v2_enterprise v; v2_pid := v2_pid v;
     v2_encrypted := v2_encrypted v; v2_authenticated := v2_authenticated v; v2_id := v2_id v;
     v2_sequence := v2_sequence v; v2_length := v2_length v; v2_pad := v2_pad v;
     v2_signature := v2_signature v; v2_payload := p |}.
(* what the decoder reports for an unauthenticated packet: no pad, no signature *)
Definition v2_clear_trailer (v : v2session) : v2session :=
  {| v2_ptype := v2_ptype v; v2_enterprise := v2_enterprise v; v2_pid := v2_pid v;
     v2_encrypted := v2_encrypted v; v2_authenticated := v2_authenticated v; v2_id := v2_id v;
     v2_sequence := v2_sequence v; v2_length := v2_length v; v2_pad := 0;
     v2_signature := []; v2_payload := v2_payload v |}.

Definition flags_of (pt : N) (enc auth : bool) : N :=
  N.lor (N.lor (u8 pt) (if enc then 128 else 0)) (if auth then 64 else 0).
Lemma flags_sweep :
  forallb (fun pt => forallb (fun enc => forallb (fun auth =>
     let f := flags_of pt enc auth in
     (N.land f 0x3f =? pt) && Bool.eqb (tbit 7 f) enc && Bool.eqb (tbit 6 f) auth)
     [true; false]) [true; false]) (N_seq 64) = true.
Proof. vm_cast_no_check (eq_refl true). Qed.
Lemma flags_dec pt enc auth : pt < 64 ->
  N.land (flags_of pt enc auth) 0x3f = pt /\ tbit 7 (flags_of pt enc auth) = enc /\
  tbit 6 (flags_of pt enc auth) = auth.
Proof.
  intros H. pose proof (sweep_n 64 _ flags_sweep pt H) as P. cbv beta in P.
  rewrite forallb_forall in P. specialize (P enc ltac:(destruct enc; simpl; auto)).
  rewrite forallb_forall in P. specialize (P auth ltac:(destruct auth; simpl; auto)).
  cbv zeta in P.
  apply andb_true_iff in P. destruct P as [P P3]. apply andb_true_iff in P. destruct P as [P1 P2].
  apply N.eqb_eq in P1. apply Bool.eqb_prop in P2, P3. auto.
Qed.

(* the pad scan, on the trailer alone *)
Lemma leading_ff_repeat k b rest : b <> 0xff ->
  leading_ff (repeat 0xff k ++ b :: rest) = k.
Proof.
  intros Hb. induction k as [|k IH]; cbn [repeat app leading_ff].
  - destruct (N.eqb_spec b 0xff); [contradiction|reflexivity].
  - change (255 =? 255) with true. cbv iota. f_equal. exact IH.
Qed.
Lemma leading_ff_trailer pad sg : pad <= 3 ->
  leading_ff (repeat 0xff (N.to_nat pad) ++ [pad; 7] ++ sg) = N.to_nat pad.
Proof. intros H. apply leading_ff_repeat. lia. Qed.

Record v2_in_range (v : v2session) : Prop := {
  vr_pt : v2_ptype v < 64;
  vr_oem : v2_ptype v = 2 -> v2_enterprise v < 4294967296 /\ v2_pid v < 65536;
  vr_std : v2_ptype v <> 2 -> v2_enterprise v = 0 /\ v2_pid v = 0;
  vr_id : v2_id v < 4294967296; vr_sq : v2_sequence v < 4294967296 }.


Ltac v2_projs := cbn [v2_ptype v2_enterprise v2_pid v2_encrypted v2_authenticated v2_id v2_sequence v2_length v2_pad
       v2_signature v2_payload].
Ltac v2_guard :=
  match goal with |- context [Nat.ltb ?a ?b] =>
    let Hl := fresh "Hl" in destruct (Nat.ltb_spec a b) as [Hl|_];
    [exfalso; revert Hl; cbn [length app Nat.add]; rewrite ?app_length, ?repeat_length; cbn [length]; lia|] end.
Ltac v2_head G1 G2 G3 Eb :=
  unfold decode_v2session, guard; cbv zeta; unfold put_le32, put_le16; cbn [app];
  v2_guard; cbn [get nth_error bind]; change (6 =? 6) with true; cbn [negb];
  rewrite G1, G2, G3, Eb.
Ltac v2_fields :=
  unfold get_le32, get_le16; cbn [get nth_error bind Nat.add];
  rewrite ?le32_put, ?le16_put by assumption; rewrite Nat2N.id.
Theorem v2session_roundtrip_unauth sign v p old v' bs :
  v2_in_range v -> N.of_nat (length p) < 65536 -> v2_authenticated v = false ->
  ser_v2session sign v p = Ok (v', bs) ->
  decode_v2session sign old bs = Ok (v2_clear_trailer (v2_set_payload v' p)).
Proof.
  intros [Hpt Hoem Hstd Hid Hsq] Hp Hau.
  destruct v as [pt ent pid enc auth id sq l pad sg pl].
  cbn [v2_ptype v2_enterprise v2_pid v2_encrypted v2_authenticated v2_id v2_sequence v2_length v2_pad
       v2_signature v2_payload] in *. subst auth.
  unfold ser_v2session, v2_flags. cbv zeta.
  cbn [v2_ptype v2_enterprise v2_pid v2_encrypted v2_authenticated v2_id v2_sequence v2_length v2_pad
       v2_signature v2_payload].
  fold (flags_of pt enc false). destruct (flags_dec pt enc false Hpt) as (G1 & G2 & G3).
  set (fl := flags_of pt enc false) in *.
  rewrite (u8_small pt) by lia.
  assert (Hlen : u16 (N.of_nat (length p)) = N.of_nat (length p)) by (unfold u16; apply N.mod_small; lia).
  rewrite Hlen.
  intros H. apply ok_pair_inj in H. destruct H as [<- <-].
  destruct (N.eqb_spec pt 2) as [E2|E2].
  - destruct (Hoem E2) as [He Hpi].
    v2_head G1 G2 G3 (proj2 (N.eqb_eq _ _) E2). v2_guard. v2_fields. v2_guard.
    erewrite (slice_eq _ _ _ [_;_;_;_;_;_;_;_;_;_;_;_;_;_;_;_;_;_] p []);
      [|rewrite app_nil_r; reflexivity|reflexivity|reflexivity].
    cbn [bind negb]. reflexivity.
  - destruct (Hstd E2) as [-> ->].
    v2_head G1 G2 G3 (proj2 (N.eqb_neq _ _) E2). cbn [bind]. v2_fields. v2_guard.
    erewrite (slice_eq _ _ _ [_;_;_;_;_;_;_;_;_;_;_;_] p []);
      [|rewrite app_nil_r; reflexivity|reflexivity|reflexivity].
    cbn [bind negb]. reflexivity.
Qed.

Ltac len2 := cbn [length app Nat.add]; rewrite ?app_length, ?repeat_length; cbn [length]; lia.
Ltac assoc_refl := cbn [app]; rewrite <- ?app_assoc; cbn [app]; reflexivity.

Theorem v2session_roundtrip_auth sign v p old v' bs :
  v2_in_range v -> N.of_nat (length p) < 65536 -> v2_authenticated v = true ->
  ser_v2session sign v p = Ok (v', bs) ->
  decode_v2session sign old bs = Ok (v2_set_payload v' p).
Proof.
  intros [Hpt Hoem Hstd Hid Hsq] Hp Hau.
  destruct v as [pt ent pid enc auth id sq l pad0 sg0 pl].
  v2_projs. cbn [v2_ptype v2_enterprise v2_pid v2_encrypted v2_authenticated v2_id v2_sequence v2_length v2_pad
       v2_signature v2_payload] in *. subst auth.
  unfold ser_v2session, v2_flags. cbv zeta. v2_projs.
  fold (flags_of pt enc true). destruct (flags_dec pt enc true Hpt) as (G1 & G2 & G3).
  set (fl := flags_of pt enc true) in *.
  rewrite (u8_small pt) by lia.
  assert (Hlen : u16 (N.of_nat (length p)) = N.of_nat (length p)) by (unfold u16; apply N.mod_small; lia).
  rewrite Hlen. rewrite !Nat2N.id.
  destruct (N.eqb_spec pt 2) as [E2|E2].
  - destruct (Hoem E2) as [He Hpi]. cbv iota.
    remember ((4 - (18 + length p + 2) mod 4) mod 4)%nat as padn eqn:Epad.
    assert (Hpad : (padn < 4)%nat) by (rewrite Epad; apply Nat.mod_upper_bound; lia).
    clear Epad.
    match goal with |- context [sign ?b] => set (sg := sign b) end.
    intros H. apply ok_pair_inj in H. destruct H as [<- <-].
    rewrite <- !app_assoc.
    v2_head G1 G2 G3 (proj2 (N.eqb_eq _ _) E2). v2_guard. v2_fields. v2_guard.
    set (pad := N.of_nat padn) in *.
    erewrite (slice_eq _ _ _ [_;_;_;_;_;_;_;_;_;_;_;_;_;_;_;_;_;_] p (repeat 255 padn ++ pad :: 7 :: sg));
      [|reflexivity|reflexivity|reflexivity].
    cbn [bind negb].
    erewrite (slice_from_eq _ _ ([_;_;_;_;_;_;_;_;_;_;_;_;_;_;_;_;_;_] ++ p) (repeat 255 padn ++ pad :: 7 :: sg));
      [|assoc_refl|len].
    cbn [bind].
    rewrite leading_ff_repeat by (subst pad; lia).
    destruct (Nat.eqb_spec padn (length (repeat 255 padn ++ pad :: 7 :: sg))) as [Heq|_];
      [exfalso; revert Heq; len2|].
    v2_guard.
    erewrite (slice_from_eq _ _ ([_;_;_;_;_;_;_;_;_;_;_;_;_;_;_;_;_;_] ++ p ++ repeat 255 padn ++ [pad; 7]) sg);
      [|assoc_refl|len2].
    erewrite (slice_to_eq _ _ ([_;_;_;_;_;_;_;_;_;_;_;_;_;_;_;_;_;_] ++ p ++ repeat 255 padn ++ [pad; 7]) sg);
      [|assoc_refl|len2].
    cbn [bind].
    match goal with |- context [list_eq_dec N.eq_dec ?a ?b] =>
      destruct (list_eq_dec N.eq_dec a b) as [_|Hne]; [|exfalso; apply Hne; reflexivity] end.
    cbn [negb]. rewrite u8_small by (subst pad; lia). reflexivity.
  - destruct (Hstd E2) as [-> ->]. cbv iota.
    remember ((4 - (12 + length p + 2) mod 4) mod 4)%nat as padn eqn:Epad.
    assert (Hpad : (padn < 4)%nat) by (rewrite Epad; apply Nat.mod_upper_bound; lia).
    clear Epad.
    match goal with |- context [sign ?b] => set (sg := sign b) end.
    intros H. apply ok_pair_inj in H. destruct H as [<- <-].
    rewrite <- !app_assoc.
    v2_head G1 G2 G3 (proj2 (N.eqb_neq _ _) E2). cbn [bind]. v2_fields. v2_guard.
    set (pad := N.of_nat padn) in *.
    erewrite (slice_eq _ _ _ [_;_;_;_;_;_;_;_;_;_;_;_] p (repeat 255 padn ++ pad :: 7 :: sg));
      [|reflexivity|reflexivity|reflexivity].
    cbn [bind negb].
    erewrite (slice_from_eq _ _ ([_;_;_;_;_;_;_;_;_;_;_;_] ++ p) (repeat 255 padn ++ pad :: 7 :: sg));
      [|assoc_refl|len].
    cbn [bind].
    rewrite leading_ff_repeat by (subst pad; lia).
    destruct (Nat.eqb_spec padn (length (repeat 255 padn ++ pad :: 7 :: sg))) as [Heq|_];
      [exfalso; revert Heq; len2|].
    v2_guard.
    erewrite (slice_from_eq _ _ ([_;_;_;_;_;_;_;_;_;_;_;_] ++ p ++ repeat 255 padn ++ [pad; 7]) sg);
      [|assoc_refl|len2].
    erewrite (slice_to_eq _ _ ([_;_;_;_;_;_;_;_;_;_;_;_] ++ p ++ repeat 255 padn ++ [pad; 7]) sg);
      [|assoc_refl|len2].
    cbn [bind].
    match goal with |- context [list_eq_dec N.eq_dec ?a ?b] =>
      destruct (list_eq_dec N.eq_dec a b) as [_|Hne]; [|exfalso; apply Hne; reflexivity] end.
    cbn [negb]. rewrite u8_small by (subst pad; lia). reflexivity.
Qed.

(* the statement as requested holds when an unauthenticated value carries
   neither pad nor signature (the serialiser copies both fields through, the
   decoder reports 0 and the empty signature) *)
Theorem v2session_roundtrip sign v p old v' bs :
  v2_in_range v -> N.of_nat (length p) < 65536 ->
  (v2_authenticated v = false -> v2_pad v = 0 /\ v2_signature v = []) ->
  ser_v2session sign v p = Ok (v', bs) ->
  decode_v2session sign old bs = Ok (v2_set_payload v' p).
Proof.
  intros Hr Hp Hz Hs. destruct (v2_authenticated v) eqn:Ea.
  - eapply v2session_roundtrip_auth; eauto.
  - rewrite (v2session_roundtrip_unauth sign v p old v' bs Hr Hp Ea Hs). f_equal.
    destruct (Hz eq_refl) as [Hpad Hsig].
    unfold ser_v2session in Hs. rewrite Ea in Hs. apply ok_pair_inj in Hs. destruct Hs as [<- _].
    unfold v2_clear_trailer, v2_set_payload. v2_projs. rewrite Hpad, Hsig. reflexivity.
Qed.

(* counter-example to the unqualified statement *)
Example v2session_roundtrip_needs_clear_trailer :
  let v := {| v2_ptype := 0; v2_enterprise := 0; v2_pid := 0; v2_encrypted := false;
              v2_authenticated := false; v2_id := 0; v2_sequence := 0; v2_length := 0; v2_pad := 1;
              v2_signature := []; v2_payload := [] |} in
  exists v' bs, ser_v2session (fun _ => []) v [] = Ok (v', bs) /\
    decode_v2session (fun _ => []) v2session_zero bs <> Ok (v2_set_payload v' []).
Proof. do 2 eexists. split; [vm_compute; reflexivity|vm_compute; discriminate]. Qed.

(* ===================================================================== *)
(* AES-128-CBC over an abstract block function                            *)
(* ===================================================================== *)
Lemma xor_bytes_length a : forall b, length a = length b -> length (xor_bytes a b) = length a.
Proof.
  induction a as [|x a IH]; intros [|y b] H; cbn [xor_bytes length] in *; try lia.
  f_equal. apply IH. lia.
Qed.
Lemma xor_bytes_cancel a : forall b, length a = length b -> xor_bytes (xor_bytes a b) b = a.
Proof.
  induction a as [|x a IH]; intros [|y b] H; cbn [xor_bytes length] in *; try lia; try reflexivity.
  f_equal.
  - rewrite N.lxor_assoc, N.lxor_nilpotent, N.lxor_0_r. reflexivity.
  - apply IH. lia.
Qed.

Lemma firstn_app_exact {A} (xs ys : list A) n : n = length xs -> firstn n (xs ++ ys) = xs.
Proof.
  intros ->. replace (length xs) with (length xs + 0)%nat by lia.
  rewrite firstn_app_2. cbn [firstn]. apply app_nil_r.
Qed.
Lemma skipn_app_exact {A} (xs ys : list A) n : n = length xs -> skipn n (xs ++ ys) = ys.
Proof. intros ->. rewrite skipn_app, skipn_all, Nat.sub_diag. reflexivity. Qed.


(* the AES trailer: 1, 2, ..., padlen, padlen *)
Definition aes_padlen (n : nat) : nat := (15 - Nat.modulo n 16)%nat.
Definition aes_padbytes (n : nat) : bytes := map (fun i => N.of_nat (i + 1)) (seq 0 (aes_padlen n)).
Lemma aes_padlen_le n : (aes_padlen n <= 15)%nat.
Proof. unfold aes_padlen. lia. Qed.
Lemma aes_trailer_eq n : aes_trailer n = aes_padbytes n ++ [N.of_nat (aes_padlen n)].
Proof.
  unfold aes_trailer, aes_padbytes. cbv zeta. fold (aes_padlen n). pose proof (aes_padlen_le n) as Hl.
  f_equal.
  - apply map_ext_in. intros i Hi. apply in_seq in Hi. apply u8_small. lia.
  - f_equal. apply u8_small. lia.
Qed.
Lemma aes_padbytes_length n : length (aes_padbytes n) = aes_padlen n.
Proof. unfold aes_padbytes. rewrite map_length, seq_length. reflexivity. Qed.
Lemma pad_ok_seq k : forall s, pad_ok (map (fun i => N.of_nat (i + 1)) (seq s k)) (N.of_nat (s + 1)) = true.
Proof.
  induction k as [|k IH]; intros s; cbn [seq map pad_ok]; [reflexivity|].
  rewrite N.eqb_refl. cbn [andb].
  replace (N.of_nat (s + 1) + 1) with (N.of_nat (S s + 1)) by lia. apply IH.
Qed.
Lemma aes_padbytes_ok n : pad_ok (aes_padbytes n) 1 = true.
Proof. unfold aes_padbytes. exact (pad_ok_seq (aes_padlen n) 0). Qed.
(* the padded plaintext is a positive whole number of blocks *)
Lemma aes_padded_length n : (n + aes_padlen n + 1 = 16 * (Nat.div n 16 + 1))%nat.
Proof. unfold aes_padlen. lia. Qed.

Section AesRoundtrip.
Variables enc dec : bytes -> bytes.
Hypothesis dec_enc : forall b, length b = 16%nat -> dec (enc b) = b.
Hypothesis enc_length : forall b, length (enc b) = 16%nat.

Lemma cbc_encrypt_blocks_length k : forall prev pt,
  length (cbc_encrypt_blocks enc prev pt k) = (16 * k)%nat.
Proof.
  induction k as [|k IH]; intros prev pt; cbn [cbc_encrypt_blocks]; [reflexivity|].
  cbv zeta. rewrite app_length, enc_length, IH. lia.
Qed.

Lemma cbc_blocks_roundtrip k : forall prev pt,
  length pt = (16 * k)%nat -> length prev = 16%nat ->
  cbc_decrypt_blocks dec prev (cbc_encrypt_blocks enc prev pt k) k = pt.
Proof.
  induction k as [|k IH]; intros prev pt Hpt Hprev; cbn [cbc_encrypt_blocks cbc_decrypt_blocks].
  - destruct pt; [reflexivity|cbn [length] in Hpt; lia].
  - cbv zeta.
    assert (Hf : length (firstn 16 pt) = 16%nat) by (rewrite firstn_length; lia).
    assert (Hx : length (xor_bytes (firstn 16 pt) prev) = 16%nat)
      by (rewrite xor_bytes_length; lia).
    set (c := enc (xor_bytes (firstn 16 pt) prev)).
    assert (Hc : length c = 16%nat) by apply enc_length.
    rewrite firstn_app_exact by (symmetry; exact Hc).
    rewrite skipn_app_exact by (symmetry; exact Hc).
    unfold c at 1. rewrite dec_enc by exact Hx.
    rewrite xor_bytes_cancel by lia.
    rewrite IH; [apply firstn_skipn|rewrite skipn_length; lia|exact Hc].
Qed.

Lemma cbc_roundtrip iv pt k :
  length pt = (16 * k)%nat -> length iv = 16%nat ->
  cbc_decrypt dec iv (cbc_encrypt enc iv pt) = pt.
Proof.
  intros Hpt Hiv. unfold cbc_decrypt, cbc_encrypt.
  assert (Hd : Nat.div (length pt) 16 = k) by (rewrite Hpt; lia).
  rewrite Hd, cbc_encrypt_blocks_length.
  assert (Hd' : Nat.div (16 * k) 16 = k) by lia.
  rewrite Hd'. apply cbc_blocks_roundtrip; assumption.
Qed.


Theorem aes_roundtrip iv p old bs :
  length iv = 16%nat ->
  ser_aescbc enc iv p = Ok bs ->
  decode_aescbc dec old bs = Ok {| ae_payload := p |}.
Proof.
  intros Hiv. unfold ser_aescbc. cbv zeta. intros H. apply ok_inj in H. subst bs.
  rewrite aes_trailer_eq.
  set (pl := aes_padlen (length p)). set (pb := aes_padbytes (length p)).
  assert (Hpl : (pl <= 15)%nat) by apply aes_padlen_le.
  assert (Hpb : length pb = pl) by apply aes_padbytes_length.
  set (k := (Nat.div (length p) 16 + 1)%nat).
  assert (Hk : (length p + pl + 1 = 16 * k)%nat) by apply aes_padded_length.
  set (pt := p ++ pb ++ [N.of_nat pl]).
  assert (Hpt : length pt = (16 * k)%nat) by (unfold pt; rewrite !app_length; cbn [length]; lia).
  set (ct := cbc_encrypt enc iv pt).
  assert (Hct : length ct = (16 * k)%nat).
  { unfold ct, cbc_encrypt. rewrite cbc_encrypt_blocks_length.
    assert (Nat.div (length pt) 16 = k) by (rewrite Hpt; lia). lia. }
  unfold decode_aescbc, guard. cbv zeta.
  remember (length (iv ++ ct)) as n eqn:En.
  assert (En' : n = (16 + 16 * k)%nat) by (rewrite En, app_length; lia).
  assert (Hm : Nat.modulo n 16 = 0%nat) by lia.
  destruct (Nat.ltb_spec n 17); [lia|]. rewrite Hm. cbn [Nat.eqb negb orb].
  erewrite (slice_to_eq 16 _ iv ct); [|reflexivity|lia].
  erewrite (slice_from_eq 16 _ iv ct); [|reflexivity|lia].
  cbn [bind].
  assert (Hdec : cbc_decrypt dec iv ct = pt) by (apply (cbc_roundtrip iv pt k Hpt Hiv)).
  rewrite Hdec.
  erewrite (get_eq (n - 1) _ (iv ++ p ++ pb) (N.of_nat pl) []);
    [|unfold pt; rewrite <- !app_assoc; reflexivity|rewrite ?app_length; lia].
  cbn [bind]. destruct (N.ltb_spec 16 (N.of_nat pl)); [lia|].
  rewrite Nat2N.id.
  destruct (Nat.ltb_spec (n - pl - 1) 16); [lia|].
  erewrite (slice_eq _ _ _ (iv ++ p) pb [N.of_nat pl]);
    [|unfold pt; rewrite <- !app_assoc; reflexivity|rewrite ?app_length; lia|rewrite ?app_length; lia].
  cbn [bind]. unfold pb at 1. rewrite aes_padbytes_ok. cbn [negb].
  erewrite (slice_eq 16 _ _ iv p (pb ++ [N.of_nat pl])); [|reflexivity|lia|lia].
  reflexivity.
Qed.

End AesRoundtrip.

(* ===================================================================== *)
(* the serialisers only fill in the computed fields                       *)
(* ===================================================================== *)
Lemma ser_message_fields m p m' bs : ser_message m p = Ok (m', bs) ->
  m' = {| m_function := m_function m; m_body := m_body m; m_enterprise := m_enterprise m;
          m_command := m_command m; m_remote_addr := m_remote_addr m; m_remote_lun := m_remote_lun m;
          m_checksum1 := m_checksum1 m'; m_local_addr := m_local_addr m; m_local_lun := m_local_lun m;
          m_sequence := m_sequence m; m_code := m_code m; m_checksum2 := m_checksum2 m';
          m_payload := m_payload m |}.
Proof. unfold ser_message. intros H. apply ok_pair_inj in H. destruct H as [<- _]. reflexivity. Qed.
