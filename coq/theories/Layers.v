(* Layers.v — every response/two-way layer decoder (DecodeFromBytes) of
   pkg/ipmi and pkg/dcmi as [decode_into old bs : res L]: fields the Go code
   does not assign on a path keep [old]'s value.  Accessors are checked
   ([get]/[slice]) exactly where Go indexes or slices, so "no panic, no
   over-read" is [decode_into old bs <> Fault].  Field order of each record =
   declaration order of the Go struct (embedded structs inlined, BaseLayer
   and interface-typed fields omitted); [payload] is BaseLayer.Payload for the
   layers that assign it.  Go's copy() of a 16-byte slice into a [16]byte array
   is modelled as plain assignment (the array's length is fixed by its type);
   the one short copy (Get Device ID's auxiliary revision) is [copy_into].
   [show_*] flattens a value to the token list the Go
   harness prints by reflection. *)
From BMC Require Import Base Prim.

Inductive tok := TN (n : N) | TZ (z : Z) | TB (b : bool) | TY (bs : bytes).

Definition tbit (k : N) (x : N) : bool := N.testbit x k.
Definition guard {A} (c : bool) (k : res A) : res A := if c then Err else k.

(* ===================== RMCP (gopacket/layers/rmcp.go) ===================== *)
Record rmcp := { rm_version : N; rm_sequence : N; rm_ack : bool; rm_class : N; rm_payload : bytes }.
Definition rmcp_zero := {| rm_version := 0; rm_sequence := 0; rm_ack := false; rm_class := 0; rm_payload := [] |}.
Definition decode_rmcp (old : rmcp) (bs : bytes) : res rmcp :=
  guard (Nat.ltb (length bs) 4)
  (do b0 <- get 0 bs; do b2 <- get 2 bs; do b3 <- get 3 bs; do p <- slice_from 4 bs;
   Ok {| rm_version := b0; rm_sequence := b2; rm_ack := tbit 7 b3; rm_class := N.land b3 0xf; rm_payload := p |}).
Definition show_rmcp (v : rmcp) := [TN (rm_version v); TN (rm_sequence v); TB (rm_ack v); TN (rm_class v); TY (rm_payload v)].

(* ===================== SessionSelector ===================== *)
Record selector := { sel_plus : bool; sel_payload : bytes }.
Definition selector_zero := {| sel_plus := false; sel_payload := [] |}.
Definition decode_selector (old : selector) (bs : bytes) : res selector :=
  guard (Nat.ltb (length bs) 1)
  (do b0 <- get 0 bs; Ok {| sel_plus := b0 =? 6; sel_payload := bs |}).
Definition show_selector v := [TB (sel_plus v); TY (sel_payload v)].

(* ===================== V1Session ===================== *)
Record v1session := { v1_authtype : N; v1_sequence : N; v1_id : N; v1_authcode : bytes; v1_length : N;
                      v1_payload : bytes }.
Definition v1session_zero := {| v1_authtype := 0; v1_sequence := 0; v1_id := 0; v1_authcode := zeros 16;
                                v1_length := 0; v1_payload := [] |}.
Definition decode_v1session (old : v1session) (bs : bytes) : res v1session :=
  guard (Nat.ltb (length bs) 10)
  (do at_ <- get 0 bs; do sq <- get_le32 1 bs; do id <- get_le32 5 bs;
   if at_ =? 0 then
     do p <- slice_from 10 bs; do l <- get 9 bs;
     (* repaired (finding F9): the AuthCode of an unauthenticated packet is all zero *)
     Ok {| v1_authtype := at_; v1_sequence := sq; v1_id := id; v1_authcode := zeros 16; v1_length := l; v1_payload := p |}
   else
     guard (Nat.ltb (length bs) 26)
     (do p <- slice_from 26 bs; do ac <- slice 9 25 bs; do l <- get 25 bs;
      Ok {| v1_authtype := at_; v1_sequence := sq; v1_id := id; v1_authcode := ac;
            v1_length := l; v1_payload := p |})).
Definition show_v1session v := [TN (v1_authtype v); TN (v1_sequence v); TN (v1_id v); TY (v1_authcode v); TN (v1_length v); TY (v1_payload v)].

(* ===================== Message ===================== *)
Record message := { m_function : N; m_body : N; m_enterprise : N; m_command : N;
                    m_remote_addr : N; m_remote_lun : N; m_checksum1 : N;
                    m_local_addr : N; m_local_lun : N; m_sequence : N;
                    m_code : N; m_checksum2 : N; m_payload : bytes }.
Definition message_zero := {| m_function := 0; m_body := 0; m_enterprise := 0; m_command := 0;
  m_remote_addr := 0; m_remote_lun := 0; m_checksum1 := 0; m_local_addr := 0; m_local_lun := 0;
  m_sequence := 0; m_code := 0; m_checksum2 := 0; m_payload := [] |}.

Definition decode_message (old : message) (bs : bytes) : res message :=
  let n := length bs in
  guard (Nat.ltb n 7)
  (do b0 <- get 0 bs; do b1 <- get 1 bs; do b2 <- get 2 bs;
   do h2 <- slice_to 2 bs;
   guard (negb (b2 =? Impl.checksum h2))
   (do b3 <- get 3 bs; do b4 <- get 4 bs; do b5 <- get 5 bs;
    do last <- get (n - 1) bs;
    do mid <- slice 3 (n - 1) bs;
    guard (negb (last =? Impl.checksum mid))
    (let fn := N.shiftr b1 2 in
     let is_req := (fn mod 2 =? 0) in
     (* repaired (finding F1): a response needs its completion code byte *)
     guard (negb is_req && Nat.ltb n 8)
     (do code <- (if is_req then Ok 0 else get 6 bs);
      let start := if is_req then 6%nat else 7%nat in
      do data <- slice start (n - 1) bs;
      do '(consumed, body, ent) <-
        (if (fn =? 0x2c) || (fn =? 0x2d) then
           guard (Nat.ltb (length data) 1) (do d0 <- get 0 data; Ok (1%nat, d0, 0))
         else if (fn =? 0x2e) || (fn =? 0x2f) then
           guard (Nat.ltb (length data) 3)
             (do d0 <- get 0 data; do d1 <- get 1 data; do d2 <- get 2 data; Ok (3%nat, 0, le24 d0 d1 d2))
         else Ok (0%nat, 0, 0));
      do p <- slice (start + consumed) (n - 1) bs;
      Ok {| m_function := fn; m_body := body; m_enterprise := ent; m_command := b5;
            m_remote_addr := b0; m_remote_lun := N.land b1 3; m_checksum1 := b2;
            m_local_addr := b3; m_local_lun := N.land b4 3; m_sequence := N.shiftr b4 2;
            m_code := code; m_checksum2 := last; m_payload := p |})))).
Definition show_message v :=
  [TN (m_function v); TN (m_body v); TN (m_enterprise v); TN (m_command v); TN (m_remote_addr v);
   TN (m_remote_lun v); TN (m_checksum1 v); TN (m_local_addr v); TN (m_local_lun v); TN (m_sequence v);
   TN (m_code v); TN (m_checksum2 v); TY (m_payload v)].

(* ===================== OpenSessionRsp ===================== *)
Record algpayload := { ap_wildcard : bool; ap_alg : N }.
Definition algpayload_zero := {| ap_wildcard := false; ap_alg := 0 |}.
(* {Authentication,Integrity,Confidentiality}Payload.Deserialise; tag = 0/1/2 *)
Definition deserialise_alg (tag : N) (d : bytes) : res algpayload :=
  guard (Nat.ltb (length d) 8)
  (do d0 <- get 0 d; guard (negb (d0 =? tag))
   (do d3 <- get 3 d; do d4 <- get 4 d;
    let w := d3 =? 0 in let a := N.land d4 0x3f in
    guard (w && negb (a =? 0)) (Ok {| ap_wildcard := w; ap_alg := a |}))).

Record opensessionrsp := { os_tag : N; os_status : N; os_maxpriv : N; os_console_id : N; os_bmc_id : N;
                           os_auth : algpayload; os_integ : algpayload; os_conf : algpayload }.
Definition opensessionrsp_zero := {| os_tag := 0; os_status := 0; os_maxpriv := 0; os_console_id := 0;
  os_bmc_id := 0; os_auth := algpayload_zero; os_integ := algpayload_zero; os_conf := algpayload_zero |}.
Definition decode_opensessionrsp (old : opensessionrsp) (bs : bytes) : res opensessionrsp :=
  let n := length bs in
  do '(tag, status, cid) <-
    (if Nat.eqb n 1 then do b0 <- get 0 bs; Ok (0, b0, 0)
     else guard (Nat.ltb n 7) (do b0 <- get 0 bs; do b1 <- get 1 bs; do c <- get_le32 3 bs; Ok (b0, b1, c)));
  if status =? 0 then
    guard (negb (Nat.eqb n 36))
    (do mp <- get 2 bs; do cid' <- get_le32 4 bs; do bid <- get_le32 8 bs;
     do s1 <- slice 12 20 bs; do a <- deserialise_alg 0 s1;
     do s2 <- slice 20 28 bs; do i <- deserialise_alg 1 s2;
     do s3 <- slice 28 36 bs; do c <- deserialise_alg 2 s3;
     Ok {| os_tag := tag; os_status := status; os_maxpriv := mp; os_console_id := cid'; os_bmc_id := bid;
           os_auth := a; os_integ := i; os_conf := c |})
  else
    Ok {| os_tag := tag; os_status := status; os_maxpriv := 0; os_console_id := cid; os_bmc_id := 0;
          os_auth := algpayload_zero; os_integ := algpayload_zero; os_conf := algpayload_zero |}.
Definition show_alg a := [TB (ap_wildcard a); TN (ap_alg a)].
Definition show_opensessionrsp v :=
  [TN (os_tag v); TN (os_status v); TN (os_maxpriv v); TN (os_console_id v); TN (os_bmc_id v)]
  ++ show_alg (os_auth v) ++ show_alg (os_integ v) ++ show_alg (os_conf v).

(* ===================== RAKP messages ===================== *)
Record rakp1 := { r1_tag : N; r1_bmc_id : N; r1_random : bytes; r1_lookup : bool; r1_maxpriv : N; r1_username : bytes }.
Definition rakp1_zero := {| r1_tag := 0; r1_bmc_id := 0; r1_random := zeros 16; r1_lookup := false; r1_maxpriv := 0; r1_username := [] |}.
Definition decode_rakp1 (old : rakp1) (bs : bytes) : res rakp1 :=
  guard (Nat.ltb (length bs) 28)
  (do tag <- get 0 bs; do id <- get_le32 4 bs; do rnd <- slice 8 24 bs; do b24 <- get 24 bs; do ul <- get 27 bs;
   guard (16 <? ul)
   (guard (Nat.ltb (length bs) (28 + N.to_nat ul))
    (do un <- slice 28 (28 + N.to_nat ul) bs;
     Ok {| r1_tag := tag; r1_bmc_id := id; r1_random := rnd;
           r1_lookup := N.land b24 0x10 =? 0; r1_maxpriv := N.land b24 0xf; r1_username := un |}))).
Definition show_rakp1 v := [TN (r1_tag v); TN (r1_bmc_id v); TY (r1_random v); TB (r1_lookup v); TN (r1_maxpriv v); TY (r1_username v)].

Record rakp2 := { r2_tag : N; r2_status : N; r2_console_id : N; r2_random : bytes; r2_guid : bytes; r2_authcode : bytes }.
Definition rakp2_zero := {| r2_tag := 0; r2_status := 0; r2_console_id := 0; r2_random := zeros 16; r2_guid := zeros 16; r2_authcode := [] |}.
Definition decode_rakp2 (old : rakp2) (bs : bytes) : res rakp2 :=
  guard (Nat.ltb (length bs) 8)
  (do tag <- get 0 bs; do st <- get 1 bs; do cid <- get_le32 4 bs;
   if st =? 0 then
     (* repaired (finding F2): a successful RAKP 2 carries both 16-byte fields *)
     guard (Nat.ltb (length bs) 40)
     (do rnd <- slice 8 24 bs; do guid <- slice 24 40 bs;
      do ac <- (if Nat.ltb 40 (length bs) then slice_from 40 bs else Ok []);
      Ok {| r2_tag := tag; r2_status := st; r2_console_id := cid; r2_random := rnd;
            r2_guid := guid; r2_authcode := ac |})
   else Ok {| r2_tag := tag; r2_status := st; r2_console_id := cid; r2_random := zeros 16; r2_guid := zeros 16; r2_authcode := [] |}).
Definition show_rakp2 v := [TN (r2_tag v); TN (r2_status v); TN (r2_console_id v); TY (r2_random v); TY (r2_guid v); TY (r2_authcode v)].

Record rakp4 := { r4_tag : N; r4_status : N; r4_console_id : N; r4_icv : bytes }.
Definition rakp4_zero := {| r4_tag := 0; r4_status := 0; r4_console_id := 0; r4_icv := [] |}.
Definition decode_rakp4 (old : rakp4) (bs : bytes) : res rakp4 :=
  guard (Nat.ltb (length bs) 8)
  (do tag <- get 0 bs; do st <- get 1 bs; do cid <- get_le32 4 bs;
   do icv <- (if (st =? 0) && Nat.ltb 8 (length bs) then slice_from 8 bs else Ok []);
   Ok {| r4_tag := tag; r4_status := st; r4_console_id := cid; r4_icv := icv |}).
Definition show_rakp4 v := [TN (r4_tag v); TN (r4_status v); TN (r4_console_id v); TY (r4_icv v)].

(* ===================== Get Device ID ===================== *)
Record deviceid := { di_id : N; di_sdrs : bool; di_revision : N; di_available : bool; di_fw_major : N; di_fw_minor : N;
  di_ipmi_major : N; di_ipmi_minor : N; di_chassis : bool; di_bridge : bool; di_evgen : bool; di_evrcv : bool;
  di_fru : bool; di_sel : bool; di_sdrrepo : bool; di_sensor : bool; di_manufacturer : N; di_product : N; di_aux : bytes }.
Definition deviceid_zero := {| di_id := 0; di_sdrs := false; di_revision := 0; di_available := false; di_fw_major := 0;
  di_fw_minor := 0; di_ipmi_major := 0; di_ipmi_minor := 0; di_chassis := false; di_bridge := false; di_evgen := false;
  di_evrcv := false; di_fru := false; di_sel := false; di_sdrrepo := false; di_sensor := false; di_manufacturer := 0;
  di_product := 0; di_aux := zeros 4 |}.
Definition decode_deviceid (old : deviceid) (bs : bytes) : res deviceid :=
  guard (Nat.ltb (length bs) 11)
  (do d0 <- get 0 bs; do d1 <- get 1 bs; do d2 <- get 2 bs; do d3 <- get 3 bs; do d4 <- get 4 bs; do d5 <- get 5 bs;
   do d6 <- get 6 bs; do d7 <- get 7 bs; do d8 <- get 8 bs; do prod <- get_le16 9 bs;
   do tail <- slice_from 11 bs;
   (* repaired (finding F9): the array is cleared before the (possibly short) copy *)
   let aux := copy_into (zeros 4) tail in
   Ok {| di_id := d0; di_sdrs := tbit 7 d1; di_revision := N.land d1 0x0f; di_available := negb (tbit 7 d2);
         di_fw_major := N.land d2 0x7f; di_fw_minor := Impl.bcd_decode d3; di_ipmi_major := N.land d4 0xf;
         di_ipmi_minor := N.shiftr d4 4; di_chassis := tbit 7 d5; di_bridge := tbit 6 d5; di_evgen := tbit 5 d5;
         di_evrcv := tbit 4 d5; di_fru := tbit 3 d5; di_sel := tbit 2 d5; di_sdrrepo := tbit 1 d5; di_sensor := tbit 0 d5;
         di_manufacturer := le24 d6 d7 d8; di_product := prod; di_aux := aux |}).
Definition show_deviceid v :=
  [TN (di_id v); TB (di_sdrs v); TN (di_revision v); TB (di_available v); TN (di_fw_major v); TN (di_fw_minor v);
   TN (di_ipmi_major v); TN (di_ipmi_minor v); TB (di_chassis v); TB (di_bridge v); TB (di_evgen v); TB (di_evrcv v);
   TB (di_fru v); TB (di_sel v); TB (di_sdrrepo v); TB (di_sensor v); TN (di_manufacturer v); TN (di_product v); TY (di_aux v)].

(* ===================== Get Chassis Status ===================== *)
Record chassis := { cs_policy : N; cs_ctlfault : bool; cs_fault : bool; cs_interlock : bool; cs_overload : bool;
  cs_on : bool; cs_on_ipmi : bool; cs_l_fault : bool; cs_l_interlock : bool; cs_l_overload : bool; cs_l_supply : bool;
  cs_identify : N; cs_cooling : bool; cs_drive : bool; cs_lockout : bool; cs_intrusion : bool;
  cs_b7 : bool; cs_b6 : bool; cs_b5 : bool; cs_b4 : bool; cs_b3 : bool; cs_b2 : bool; cs_b1 : bool; cs_b0 : bool;
  cs_payload : bytes }.
Definition chassis_zero := {| cs_policy := 0; cs_ctlfault := false; cs_fault := false; cs_interlock := false;
  cs_overload := false; cs_on := false; cs_on_ipmi := false; cs_l_fault := false; cs_l_interlock := false;
  cs_l_overload := false; cs_l_supply := false; cs_identify := 0; cs_cooling := false; cs_drive := false;
  cs_lockout := false; cs_intrusion := false; cs_b7 := false; cs_b6 := false; cs_b5 := false; cs_b4 := false;
  cs_b3 := false; cs_b2 := false; cs_b1 := false; cs_b0 := false; cs_payload := [] |}.
Definition decode_chassis (old : chassis) (bs : bytes) : res chassis :=
  guard (Nat.ltb (length bs) 3)
  (do d0 <- get 0 bs; do d1 <- get 1 bs; do d2 <- get 2 bs;
   let ident := if tbit 6 d2 then N.shiftr (N.land d2 0x30) 4 else 0xff in
   do d3 <- (if Nat.ltb 3 (length bs) then get 3 bs else Ok 0);
   do p <- (if Nat.ltb 3 (length bs) then slice_from 4 bs else slice_from 3 bs);
   Ok {| cs_policy := N.shiftr (N.land d0 0x60) 5; cs_ctlfault := tbit 4 d0; cs_fault := tbit 3 d0;
         cs_interlock := tbit 2 d0; cs_overload := tbit 1 d0; cs_on := tbit 0 d0; cs_on_ipmi := tbit 4 d1;
         cs_l_fault := tbit 3 d1; cs_l_interlock := tbit 2 d1; cs_l_overload := tbit 1 d1; cs_l_supply := tbit 0 d1;
         cs_identify := ident; cs_cooling := tbit 3 d2; cs_drive := tbit 2 d2; cs_lockout := tbit 1 d2;
         cs_intrusion := tbit 0 d2; cs_b7 := tbit 7 d3; cs_b6 := tbit 6 d3; cs_b5 := tbit 5 d3; cs_b4 := tbit 4 d3;
         cs_b3 := tbit 3 d3; cs_b2 := tbit 2 d3; cs_b1 := tbit 1 d3; cs_b0 := tbit 0 d3; cs_payload := p |}).
Definition show_chassis v :=
  [TN (cs_policy v); TB (cs_ctlfault v); TB (cs_fault v); TB (cs_interlock v); TB (cs_overload v); TB (cs_on v);
   TB (cs_on_ipmi v); TB (cs_l_fault v); TB (cs_l_interlock v); TB (cs_l_overload v); TB (cs_l_supply v);
   TN (cs_identify v); TB (cs_cooling v); TB (cs_drive v); TB (cs_lockout v); TB (cs_intrusion v);
   TB (cs_b7 v); TB (cs_b6 v); TB (cs_b5 v); TB (cs_b4 v); TB (cs_b3 v); TB (cs_b2 v); TB (cs_b1 v); TB (cs_b0 v);
   TY (cs_payload v)].

(* ===================== Get Channel Authentication Capabilities ===================== *)
Record authcaps := { ac_channel : N; ac_extended : bool; ac_oem : bool; ac_password : bool; ac_md5 : bool; ac_md2 : bool;
  ac_none : bool; ac_twokey : bool; ac_permsg : bool; ac_userlevel : bool; ac_nonnull : bool; ac_null : bool; ac_anon : bool;
  ac_v2 : bool; ac_v1 : bool; ac_oem_id : N; ac_oem_data : N; ac_payload : bytes }.
Definition authcaps_zero := {| ac_channel := 0; ac_extended := false; ac_oem := false; ac_password := false; ac_md5 := false;
  ac_md2 := false; ac_none := false; ac_twokey := false; ac_permsg := false; ac_userlevel := false; ac_nonnull := false;
  ac_null := false; ac_anon := false; ac_v2 := false; ac_v1 := false; ac_oem_id := 0; ac_oem_data := 0; ac_payload := [] |}.
Definition decode_authcaps (old : authcaps) (bs : bytes) : res authcaps :=
  guard (Nat.ltb (length bs) 8)
  (do p <- slice_from 8 bs;
   do d0 <- get 0 bs; do d1 <- get 1 bs; do d2 <- get 2 bs; do d3 <- get 3 bs; do d4 <- get 4 bs; do d5 <- get 5 bs;
   do d6 <- get 6 bs; do d7 <- get 7 bs;
   Ok {| ac_channel := d0; ac_extended := tbit 7 d1; ac_oem := tbit 5 d1; ac_password := tbit 4 d1; ac_md5 := tbit 2 d1;
         ac_md2 := tbit 1 d1; ac_none := tbit 0 d1; ac_twokey := tbit 5 d2; ac_permsg := tbit 4 d2; ac_userlevel := tbit 3 d2;
         ac_nonnull := tbit 2 d2; ac_null := tbit 1 d2; ac_anon := tbit 0 d2; ac_v2 := tbit 1 d3; ac_v1 := tbit 0 d3;
         ac_oem_id := le24 d4 d5 d6; ac_oem_data := d7; ac_payload := p |}).
Definition show_authcaps v :=
  [TN (ac_channel v); TB (ac_extended v); TB (ac_oem v); TB (ac_password v); TB (ac_md5 v); TB (ac_md2 v); TB (ac_none v);
   TB (ac_twokey v); TB (ac_permsg v); TB (ac_userlevel v); TB (ac_nonnull v); TB (ac_null v); TB (ac_anon v);
   TB (ac_v2 v); TB (ac_v1 v); TN (ac_oem_id v); TN (ac_oem_data v); TY (ac_payload v)].

(* ===================== Get Channel Cipher Suites ===================== *)
Record ciphersuites := { cc_channel : N; cc_chunk : bytes; cc_payload : bytes }.
Definition ciphersuites_zero := {| cc_channel := 0; cc_chunk := []; cc_payload := [] |}.
Definition decode_ciphersuites (old : ciphersuites) (bs : bytes) : res ciphersuites :=
  guard (Nat.ltb (length bs) 1)
  (let e := if Nat.ltb 17 (length bs) then 17%nat else length bs in
   do p <- slice_from e bs; do d0 <- get 0 bs; do chunk <- slice 1 e bs;
   Ok {| cc_channel := d0; cc_chunk := chunk; cc_payload := p |}).
Definition show_ciphersuites v := [TN (cc_channel v); TY (cc_chunk v); TY (cc_payload v)].

(* ===================== Get Session Info ===================== *)
Record sessioninfo := { si_handle : N; si_max : N; si_active : N; si_user : N; si_priv : N; si_v2 : bool; si_channel : N;
  si_ip : bytes; si_mac : bytes; si_port : N; si_payload : bytes }.
Definition sessioninfo_zero := {| si_handle := 0; si_max := 0; si_active := 0; si_user := 0; si_priv := 0; si_v2 := false;
  si_channel := 0; si_ip := []; si_mac := []; si_port := 0; si_payload := [] |}.
Definition decode_sessioninfo (old : sessioninfo) (bs : bytes) : res sessioninfo :=
  guard (Nat.ltb (length bs) 3)
  (do h <- get 0 bs; do mx <- get 1 bs; do act <- get 2 bs;
   if (h =? 0) && Nat.eqb (length bs) 3 then
     do p <- slice_from 3 bs;
     Ok {| si_handle := h; si_max := mx; si_active := act; si_user := 0; si_priv := 0; si_v2 := false; si_channel := 0;
           si_ip := []; si_mac := []; si_port := 0; si_payload := p |}
   else guard (Nat.ltb (length bs) 6)
   (do d3 <- get 3 bs; do d4 <- get 4 bs; do d5 <- get 5 bs;
    let user := N.land d3 0x3f in let pr := N.land d4 0xf in
    let v2 := N.shiftr (N.land d5 0xf0) 4 =? 1 in let chn := N.land d5 0xf in
    if Nat.ltb (length bs) 18 then
      do p <- slice_from 6 bs;
      Ok {| si_handle := h; si_max := mx; si_active := act; si_user := user; si_priv := pr; si_v2 := v2; si_channel := chn;
            si_ip := []; si_mac := []; si_port := 0; si_payload := p |}
    else
      do ip4 <- slice 6 10 bs; do mac <- slice 10 16 bs; do port <- get_le16 16 bs; do p <- slice_from 18 bs;
      Ok {| si_handle := h; si_max := mx; si_active := act; si_user := user; si_priv := pr; si_v2 := v2; si_channel := chn;
            si_ip := [0;0;0;0;0;0;0;0;0;0;0xff;0xff] ++ ip4; si_mac := mac; si_port := port; si_payload := p |})).
Definition show_sessioninfo v :=
  [TN (si_handle v); TN (si_max v); TN (si_active v); TN (si_user v); TN (si_priv v); TB (si_v2 v); TN (si_channel v);
   TY (si_ip v); TY (si_mac v); TN (si_port v); TY (si_payload v)].

(* ===================== small bodies ===================== *)
Record setpriv := { sp_level : N }.
Definition setpriv_zero := {| sp_level := 0 |}.
Definition decode_setpriv (old : setpriv) (bs : bytes) : res setpriv :=
  guard (negb (Nat.eqb (length bs) 1)) (do d0 <- get 0 bs; Ok {| sp_level := N.land d0 0xf |}).
Definition show_setpriv v := [TN (sp_level v)].

Record guid := { gu_guid : bytes }.
Definition guid_zero := {| gu_guid := zeros 16 |}.
Definition decode_guid (old : guid) (bs : bytes) : res guid :=
  guard (Nat.ltb (length bs) 16) (do g <- slice_to 16 bs; Ok {| gu_guid := g |}).
Definition show_guid v := [TY (gu_guid v)].

Record reserve := { rs_id : N }.
Definition reserve_zero := {| rs_id := 0 |}.
Definition decode_reserve (old : reserve) (bs : bytes) : res reserve :=
  guard (Nat.ltb (length bs) 2) (do x <- get_le16 0 bs; Ok {| rs_id := x |}).
Definition show_reserve v := [TN (rs_id v)].

Record getsdrrsp := { gs_next : N; gs_payload : bytes }.
Definition getsdrrsp_zero := {| gs_next := 0; gs_payload := [] |}.
Definition decode_getsdrrsp (old : getsdrrsp) (bs : bytes) : res getsdrrsp :=
  guard (Nat.ltb (length bs) 2) (do p <- slice_from 2 bs; do x <- get_le16 0 bs; Ok {| gs_next := x; gs_payload := p |}).
Definition show_getsdrrsp v := [TN (gs_next v); TY (gs_payload v)].

(* bcd.Decode(b&0xf)*10 + bcd.Decode(b>>4), uint8 *)
Definition sdr_version (b : N) : N :=
  u8 (u8 (Impl.bcd_decode (N.land b 0xf) * 10) + Impl.bcd_decode (N.shiftr b 4)).

Record sdrhdr := { sh_id : N; sh_version : N; sh_type : N; sh_length : N; sh_payload : bytes }.
Definition sdrhdr_zero := {| sh_id := 0; sh_version := 0; sh_type := 0; sh_length := 0; sh_payload := [] |}.
Definition decode_sdrhdr (old : sdrhdr) (bs : bytes) : res sdrhdr :=
  guard (Nat.ltb (length bs) 5)
  (do id <- get_le16 0 bs; do d2 <- get 2 bs; do d3 <- get 3 bs; do d4 <- get 4 bs; do p <- slice_from 5 bs;
   Ok {| sh_id := id; sh_version := sdr_version d2; sh_type := d3; sh_length := d4; sh_payload := p |}).
Definition show_sdrhdr v := [TN (sh_id v); TN (sh_version v); TN (sh_type v); TN (sh_length v); TY (sh_payload v)].

Record sdrrepoinfo := { ri_version : N; ri_records : N; ri_free : N; ri_addition : N; ri_erase : N; ri_overflow : bool;
  ri_modal : bool; ri_nonmodal : bool; ri_delete : bool; ri_partial : bool; ri_reserve : bool; ri_alloc : bool;
  ri_payload : bytes }.
Definition sdrrepoinfo_zero := {| ri_version := 0; ri_records := 0; ri_free := 0; ri_addition := 0; ri_erase := 0;
  ri_overflow := false; ri_modal := false; ri_nonmodal := false; ri_delete := false; ri_partial := false;
  ri_reserve := false; ri_alloc := false; ri_payload := [] |}.
Definition decode_sdrrepoinfo (old : sdrrepoinfo) (bs : bytes) : res sdrrepoinfo :=
  guard (Nat.ltb (length bs) 14)
  (do p <- slice_from 14 bs; do d0 <- get 0 bs; do recs <- get_le16 1 bs; do free <- get_le16 3 bs;
   do add <- get_le32 5 bs; do er <- get_le32 9 bs; do d13 <- get 13 bs;
   Ok {| ri_version := sdr_version d0; ri_records := recs; ri_free := free; ri_addition := add; ri_erase := er;
         ri_overflow := tbit 7 d13; ri_modal := tbit 6 d13; ri_nonmodal := tbit 5 d13; ri_delete := tbit 3 d13;
         ri_partial := tbit 2 d13; ri_reserve := tbit 1 d13; ri_alloc := tbit 0 d13; ri_payload := p |}).
Definition show_sdrrepoinfo v :=
  [TN (ri_version v); TN (ri_records v); TN (ri_free v); TN (ri_addition v); TN (ri_erase v); TB (ri_overflow v);
   TB (ri_modal v); TB (ri_nonmodal v); TB (ri_delete v); TB (ri_partial v); TB (ri_reserve v); TB (ri_alloc v);
   TY (ri_payload v)].

Record sensorreading := { sr_reading : N; sr_events : bool; sr_scanning : bool; sr_unavailable : bool; sr_payload : bytes }.
Definition sensorreading_zero := {| sr_reading := 0; sr_events := false; sr_scanning := false; sr_unavailable := false; sr_payload := [] |}.
Definition decode_sensorreading (old : sensorreading) (bs : bytes) : res sensorreading :=
  guard (Nat.ltb (length bs) 3)
  (do d0 <- get 0 bs; do d1 <- get 1 bs;
   do p <- (if Nat.ltb 3 (length bs) then slice_from 4 bs else slice_from 3 bs);
   Ok {| sr_reading := d0; sr_events := tbit 7 d1; sr_scanning := tbit 6 d1; sr_unavailable := tbit 5 d1; sr_payload := p |}).
Definition show_sensorreading v := [TN (sr_reading v); TB (sr_events v); TB (sr_scanning v); TB (sr_unavailable v); TY (sr_payload v)].

(* ===================== Full Sensor Record ===================== *)
Record fsr := { f_owner : N; f_channel : N; f_lun : N; f_number : N;
  f_m : Z; f_b : Z; f_bexp : Z; f_rexp : Z;
  f_container : bool; f_entity : N; f_instance : N; f_ignore : bool; f_sensortype : N; f_outputtype : N;
  f_format : N; f_rate : N; f_percentage : bool; f_baseunit : N; f_modunit : N; f_linearisation : N;
  f_tolerance : N; f_accuracy : Z; f_accexp : N; f_direction : N;
  f_nominal_spec : bool; f_normmin_spec : bool; f_normmax_spec : bool;
  f_nominal : N; f_normmin : N; f_normmax : N; f_sensormin : N; f_sensormax : N;
  f_identity : bytes; f_payload : bytes }.
Definition fsr_zero := {| f_owner := 0; f_channel := 0; f_lun := 0; f_number := 0; f_m := 0%Z; f_b := 0%Z; f_bexp := 0%Z;
  f_rexp := 0%Z; f_container := false; f_entity := 0; f_instance := 0; f_ignore := false; f_sensortype := 0;
  f_outputtype := 0; f_format := 0; f_rate := 0; f_percentage := false; f_baseunit := 0; f_modunit := 0;
  f_linearisation := 0; f_tolerance := 0; f_accuracy := 0%Z; f_accexp := 0; f_direction := 0; f_nominal_spec := false;
  f_normmin_spec := false; f_normmax_spec := false; f_nominal := 0; f_normmin := 0; f_normmax := 0; f_sensormin := 0;
  f_sensormax := 0; f_identity := []; f_payload := [] |}.
Definition decode_fsr (old : fsr) (bs : bytes) : res fsr :=
  guard (Nat.ltb (length bs) 43)
  (do d0 <- get 0 bs; do d1 <- get 1 bs; do d2 <- get 2 bs; do d3 <- get 3 bs; do d4 <- get 4 bs; do d6 <- get 6 bs;
   do d7 <- get 7 bs; do d8 <- get 8 bs; do d15 <- get 15 bs; do d16 <- get 16 bs; do d17 <- get 17 bs; do d18 <- get 18 bs;
   do d19 <- get 19 bs; do d20 <- get 20 bs; do d21 <- get 21 bs; do d22 <- get 22 bs; do d23 <- get 23 bs; do d24 <- get 24 bs;
   do d25 <- get 25 bs; do d26 <- get 26 bs; do d27 <- get 27 bs; do d28 <- get 28 bs; do d29 <- get 29 bs; do d30 <- get 30 bs;
   do d42 <- get 42 bs;
   match Impl.string_decoder (N.shiftr d42 6) with
   | None => Err
   | Some dec =>
     do rest <- slice_from 43 bs;
     do '(ident, consumed) <- dec rest (N.to_nat (N.land d42 0x1f));
     do p <- slice_from (43 + consumed) bs;
     Ok {| f_owner := d0; f_channel := N.shiftr d1 4; f_lun := N.land d1 3; f_number := d2;
           f_m := Impl.twos (N.shiftr d20 6) d19 10;
           f_b := Impl.twos (N.shiftr d22 6) d21 10;
           f_bexp := Impl.twos 0 (N.land d24 0xf) 4;
           f_rexp := Impl.twos 0 (N.shiftr d24 4) 4;
           f_container := tbit 7 d4; f_entity := d3; f_instance := N.land d4 0x7f; f_ignore := tbit 7 d6;
           f_sensortype := d7; f_outputtype := d8; f_format := N.shiftr d15 6; f_rate := N.shiftr (N.land d15 0x38) 3;
           f_percentage := tbit 0 d15; f_baseunit := d16; f_modunit := d17; f_linearisation := N.land d18 0x7f;
           f_tolerance := N.land d20 0x3f;
           f_accuracy := Impl.twos (N.shiftr (N.land d23 0xf0) 6)
                                   (N.lor (N.land d22 0x3f) (u8 (N.shiftl (N.land d23 0xf0) 2))) 10;
           f_accexp := N.shiftr (N.land d23 0xc) 2; f_direction := N.land d23 3;
           f_nominal_spec := tbit 0 d25; f_normmin_spec := tbit 2 d25; f_normmax_spec := tbit 1 d25;
           f_nominal := d26; f_normmin := d28; f_normmax := d27; f_sensormin := d30; f_sensormax := d29;
           f_identity := ident; f_payload := p |}
   end).
Definition show_fsr v :=
  [TN (f_owner v); TN (f_channel v); TN (f_lun v); TN (f_number v); TZ (f_m v); TZ (f_b v); TZ (f_bexp v); TZ (f_rexp v);
   TB (f_container v); TN (f_entity v); TN (f_instance v); TB (f_ignore v); TN (f_sensortype v); TN (f_outputtype v);
   TN (f_format v); TN (f_rate v); TB (f_percentage v); TN (f_baseunit v); TN (f_modunit v); TN (f_linearisation v);
   TN (f_tolerance v); TZ (f_accuracy v); TN (f_accexp v); TN (f_direction v); TB (f_nominal_spec v); TB (f_normmin_spec v);
   TB (f_normmax_spec v); TN (f_nominal v); TN (f_normmin v); TN (f_normmax v); TN (f_sensormin v); TN (f_sensormax v);
   TY (f_identity v); TY (f_payload v)].
