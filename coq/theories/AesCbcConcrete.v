(* AesCbcConcrete.v — the AES-128-CBC layer instantiated with the concrete
   AES-128 of Aes.v.  TwoWayProofs.AesRoundtrip assumes dec (enc b) = b for
   every 16-element block; the concrete cipher satisfies that only for blocks
   whose elements are bytes (< 256).  Here the CBC round trips are re-proved
   under that restricted hypothesis (carrying "all bytes" through the chain),
   and then instantiated, with no premise left about the cipher. *)
From BMC Require Import Base BaseFacts Prim PrimProofs Layers Layers2 Serialize TwoWayProofs.
From BMC Require Aes AesInverse.
From Coq Require Import ZifyN ZifyNat ZifyBool.
Ltac Zify.zify_post_hook ::= Z.div_mod_to_equations.

Local Notation byte := AesInverse.byte.

(* Layers2.xor_bytes and Aes.xor_bytes are the same function *)
Lemma xor_bytes_aes_eq : forall a b, Layers2.xor_bytes a b = Aes.xor_bytes a b.
Proof.
  induction a as [|x a IH]; intros [|y b]; cbn [Layers2.xor_bytes Aes.xor_bytes];
    try reflexivity; f_equal; apply IH.
Qed.

Lemma xor_bytes_byte a b :
  Forall byte a -> Forall byte b -> Forall byte (Layers2.xor_bytes a b).
Proof. rewrite xor_bytes_aes_eq. apply AesInverse.xor_bytes_byte. Qed.

Lemma Forall_firstn_skipn {A} (P : A -> Prop) n (l : list A) :
  Forall P l -> Forall P (firstn n l) /\ Forall P (skipn n l).
Proof. intros H. rewrite <- (firstn_skipn n l) in H. apply Forall_app in H. exact H. Qed.

Lemma aes_padbytes_byte n : Forall byte (aes_padbytes n).
Proof.
  unfold aes_padbytes. pose proof (aes_padlen_le n) as Hl.
  apply Forall_forall. intros x Hx. apply in_map_iff in Hx.
  destruct Hx as [i [<- Hi]]. apply in_seq in Hi. unfold AesInverse.byte. lia.
Qed.

Lemma aes_trailer_byte n : Forall byte (aes_trailer n).
Proof.
  rewrite aes_trailer_eq. apply Forall_app. split; [apply aes_padbytes_byte|].
  apply Forall_cons; [|apply Forall_nil].
  pose proof (aes_padlen_le n). unfold AesInverse.byte. lia.
Qed.

(* ===================================================================== *)
(* CBC over a block function that inverts on byte blocks                  *)
(* ===================================================================== *)
Section AesRoundtripBytes.
Variables enc dec : bytes -> bytes.
Hypothesis dec_enc : forall b, length b = 16%nat -> Forall (fun x => x < 256) b ->
  dec (enc b) = b.
Hypothesis enc_bytes : forall b, length b = 16%nat -> Forall (fun x => x < 256) b ->
  length (enc b) = 16%nat /\ Forall (fun x => x < 256) (enc b).

(* the ciphertext blocks: right length, all bytes *)
Lemma cbc_encrypt_blocks_bytes k : forall prev pt,
  length pt = (16 * k)%nat -> length prev = 16%nat ->
  Forall byte prev -> Forall byte pt ->
  length (cbc_encrypt_blocks enc prev pt k) = (16 * k)%nat /\
  Forall byte (cbc_encrypt_blocks enc prev pt k).
Proof using enc enc_bytes.
  clear dec_enc dec.
  induction k as [|k IH]; intros prev pt Hpt Hprev Fprev Fpt; cbn [cbc_encrypt_blocks].
  - split; [reflexivity|apply Forall_nil].
  - cbv zeta.
    destruct (Forall_firstn_skipn byte 16 pt Fpt) as [Ff Fs].
    assert (Hf : length (firstn 16 pt) = 16%nat) by (rewrite firstn_length; lia).
    assert (Hx : length (xor_bytes (firstn 16 pt) prev) = 16%nat)
      by (rewrite xor_bytes_length; lia).
    assert (Fx : Forall byte (xor_bytes (firstn 16 pt) prev))
      by (apply xor_bytes_byte; assumption).
    destruct (enc_bytes _ Hx Fx) as [Hc Fc].
    set (c := enc (xor_bytes (firstn 16 pt) prev)) in *.
    destruct (IH c (skipn 16 pt)) as [Hl Fl];
      [rewrite skipn_length; lia|exact Hc|exact Fc|exact Fs|].
    split.
    + rewrite app_length, Hc, Hl. lia.
    + apply Forall_app. split; [exact Fc|exact Fl].
Qed.

Lemma cbc_blocks_roundtrip_bytes k : forall prev pt,
  length pt = (16 * k)%nat -> length prev = 16%nat ->
  Forall byte prev -> Forall byte pt ->
  cbc_decrypt_blocks dec prev (cbc_encrypt_blocks enc prev pt k) k = pt.
Proof.
  induction k as [|k IH]; intros prev pt Hpt Hprev Fprev Fpt;
    cbn [cbc_encrypt_blocks cbc_decrypt_blocks].
  - destruct pt; [reflexivity|cbn [length] in Hpt; lia].
  - cbv zeta.
    destruct (Forall_firstn_skipn byte 16 pt Fpt) as [Ff Fs].
    assert (Hf : length (firstn 16 pt) = 16%nat) by (rewrite firstn_length; lia).
    assert (Hx : length (xor_bytes (firstn 16 pt) prev) = 16%nat)
      by (rewrite xor_bytes_length; lia).
    assert (Fx : Forall byte (xor_bytes (firstn 16 pt) prev))
      by (apply xor_bytes_byte; assumption).
    destruct (enc_bytes _ Hx Fx) as [Hc Fc].
    pose proof (dec_enc _ Hx Fx) as Hde.
    set (c := enc (xor_bytes (firstn 16 pt) prev)) in *.
    rewrite firstn_app_exact by (symmetry; exact Hc).
    rewrite skipn_app_exact by (symmetry; exact Hc).
    rewrite Hde.
    rewrite xor_bytes_cancel by lia.
    rewrite IH; [apply firstn_skipn|rewrite skipn_length; lia|exact Hc|exact Fc|exact Fs].
Qed.

Lemma cbc_encrypt_bytes iv pt k :
  length pt = (16 * k)%nat -> length iv = 16%nat ->
  Forall byte iv -> Forall byte pt ->
  length (cbc_encrypt enc iv pt) = length pt /\ Forall byte (cbc_encrypt enc iv pt).
Proof using enc enc_bytes.
  clear dec_enc dec.
  intros Hpt Hiv Fiv Fpt. unfold cbc_encrypt.
  assert (Hd : Nat.div (length pt) 16 = k) by (rewrite Hpt; lia).
  rewrite Hd, Hpt. apply cbc_encrypt_blocks_bytes; assumption.
Qed.

Lemma cbc_roundtrip_bytes iv pt k :
  length pt = (16 * k)%nat -> length iv = 16%nat ->
  Forall byte iv -> Forall byte pt ->
  cbc_decrypt dec iv (cbc_encrypt enc iv pt) = pt.
Proof.
  intros Hpt Hiv Fiv Fpt.
  destruct (cbc_encrypt_bytes iv pt k Hpt Hiv Fiv Fpt) as [Hl _].
  unfold cbc_decrypt. rewrite Hl. unfold cbc_encrypt.
  assert (Hd : Nat.div (length pt) 16 = k) by (rewrite Hpt; lia).
  rewrite Hd. apply cbc_blocks_roundtrip_bytes; assumption.
Qed.

Theorem aes_roundtrip_bytes iv p old bs :
  length iv = 16%nat -> Forall byte iv -> Forall byte p ->
  ser_aescbc enc iv p = Ok bs ->
  decode_aescbc dec old bs = Ok {| ae_payload := p |}.
Proof.
  intros Hiv Fiv Fp. unfold ser_aescbc. cbv zeta. intros H. apply ok_inj in H. subst bs.
  assert (Ftr : Forall byte (p ++ aes_trailer (length p)))
    by (apply Forall_app; split; [exact Fp|apply aes_trailer_byte]).
  rewrite aes_trailer_eq in *.
  set (pl := aes_padlen (length p)) in *. set (pb := aes_padbytes (length p)) in *.
  assert (Hpl : (pl <= 15)%nat) by apply aes_padlen_le.
  assert (Hpb : length pb = pl) by apply aes_padbytes_length.
  set (k := (Nat.div (length p) 16 + 1)%nat).
  assert (Hk : (length p + pl + 1 = 16 * k)%nat) by apply aes_padded_length.
  set (pt := p ++ pb ++ [N.of_nat pl]) in *.
  assert (Hpt : length pt = (16 * k)%nat) by (unfold pt; rewrite !app_length; cbn [length]; lia).
  set (ct := cbc_encrypt enc iv pt).
  assert (Hct : length ct = (16 * k)%nat).
  { unfold ct. destruct (cbc_encrypt_bytes iv pt k Hpt Hiv Fiv Ftr) as [-> _]. exact Hpt. }
  unfold decode_aescbc, guard. cbv zeta.
  remember (length (iv ++ ct)) as n eqn:En.
  assert (En' : n = (16 + 16 * k)%nat) by (rewrite En, app_length; lia).
  assert (Hm : Nat.modulo n 16 = 0%nat) by lia.
  destruct (Nat.ltb_spec n 17); [lia|]. rewrite Hm. cbn [Nat.eqb negb orb].
  erewrite (slice_to_eq 16 _ iv ct); [|reflexivity|lia].
  erewrite (slice_from_eq 16 _ iv ct); [|reflexivity|lia].
  cbn [bind].
  assert (Hdec : cbc_decrypt dec iv ct = pt)
    by (apply (cbc_roundtrip_bytes iv pt k Hpt Hiv Fiv Ftr)).
  rewrite Hdec.
  erewrite (get_eq (n - 1) _ (iv ++ p ++ pb) (N.of_nat pl) []);
    [|unfold pt; rewrite <- !app_assoc; reflexivity|rewrite ?app_length; lia].
  cbn [bind]. destruct (N.ltb_spec 16 (N.of_nat pl)); [lia|].
  rewrite Nat2N.id.
  destruct (Nat.ltb_spec (n - pl - 1) 16); [lia|].
  erewrite (slice_eq _ _ _ (iv ++ p) pb [N.of_nat pl]);
    [|unfold pt; rewrite <- !app_assoc; reflexivity|rewrite ?app_length; lia|rewrite ?app_length; lia].
  cbn [bind]. unfold pb at 1. rewrite aes_padbytes_ok. cbn [negb].
  erewrite (slice_eq 16 _ _ iv p (pb ++ [N.of_nat pl])); [|reflexivity|lia|lia].
  reflexivity.
Qed.

End AesRoundtripBytes.

(* ===================================================================== *)
(* the concrete AES-128                                                   *)
(* ===================================================================== *)
Lemma aes128_dec_enc key : length key = 16%nat -> Forall byte key ->
  forall b, length b = 16%nat -> Forall (fun x => x < 256) b ->
  Aes.aes128_decrypt_block key (Aes.aes128_encrypt_block key b) = b.
Proof.
  intros Hk Fk b Hb Fb. apply AesInverse.aes128_decrypt_encrypt; assumption.
Qed.

Lemma aes128_enc_bytes key : length key = 16%nat -> Forall byte key ->
  forall b, length b = 16%nat -> Forall (fun x => x < 256) b ->
  length (Aes.aes128_encrypt_block key b) = 16%nat /\
  Forall (fun x => x < 256) (Aes.aes128_encrypt_block key b).
Proof.
  intros Hk Fk b Hb Fb. split.
  - apply Aes.aes128_encrypt_block_length.
  - apply AesInverse.aes128_encrypt_block_bytes; assumption.
Qed.

Theorem aes128_cbc_decrypt_encrypt : forall key iv pt k,
  length key = 16%nat -> Forall byte key ->
  length iv = 16%nat -> Forall byte iv ->
  length pt = (16 * k)%nat -> Forall byte pt ->
  cbc_decrypt (Aes.aes128_decrypt_block key) iv
              (cbc_encrypt (Aes.aes128_encrypt_block key) iv pt) = pt.
Proof.
  intros key iv pt k Hk Fk Hiv Fiv Hpt Fpt.
  apply (cbc_roundtrip_bytes _ _ (aes128_dec_enc key Hk Fk) (aes128_enc_bytes key Hk Fk)
                             iv pt k); assumption.
Qed.

Theorem aes128_cbc_encrypt_bytes : forall key iv pt k,
  length key = 16%nat -> Forall byte key ->
  length iv = 16%nat -> Forall byte iv ->
  length pt = (16 * k)%nat -> Forall byte pt ->
  length (cbc_encrypt (Aes.aes128_encrypt_block key) iv pt) = length pt /\
  Forall byte (cbc_encrypt (Aes.aes128_encrypt_block key) iv pt).
Proof.
  intros key iv pt k Hk Fk Hiv Fiv Hpt Fpt.
  apply (cbc_encrypt_bytes _ (aes128_enc_bytes key Hk Fk) iv pt k); assumption.
Qed.

Theorem aes128_cbc_roundtrip : forall key iv p old bs,
  length key = 16%nat -> Forall byte key ->
  length iv = 16%nat -> Forall byte iv -> Forall byte p ->
  ser_aescbc (Aes.aes128_encrypt_block key) iv p = Ok bs ->
  decode_aescbc (Aes.aes128_decrypt_block key) old bs = Ok {| ae_payload := p |}.
Proof.
  intros key iv p old bs Hk Fk Hiv Fiv Fp H.
  apply (aes_roundtrip_bytes _ _ (aes128_dec_enc key Hk Fk) (aes128_enc_bytes key Hk Fk)
                             iv p old bs); assumption.
Qed.

(* the serialised packet: iv followed by a whole number of byte blocks *)
Theorem aes128_ser_aescbc_bytes : forall key iv p bs,
  length key = 16%nat -> Forall byte key ->
  length iv = 16%nat -> Forall byte iv -> Forall byte p ->
  ser_aescbc (Aes.aes128_encrypt_block key) iv p = Ok bs ->
  length bs = (16 + 16 * (Nat.div (length p) 16 + 1))%nat /\ Forall byte bs.
Proof.
  intros key iv p bs Hk Fk Hiv Fiv Fp. unfold ser_aescbc. cbv zeta.
  intros H. apply ok_inj in H. subst bs.
  assert (Ftr : Forall byte (p ++ aes_trailer (length p)))
    by (apply Forall_app; split; [exact Fp|apply aes_trailer_byte]).
  assert (Hpt : length (p ++ aes_trailer (length p))
                = (16 * (Nat.div (length p) 16 + 1))%nat).
  { rewrite aes_trailer_eq, !app_length, aes_padbytes_length. cbn [length].
    pose proof (aes_padded_length (length p)). lia. }
  destruct (aes128_cbc_encrypt_bytes key iv _ _ Hk Fk Hiv Fiv Hpt Ftr) as [Hl Fl].
  split.
  - rewrite app_length, Hl, Hpt, Hiv. reflexivity.
  - apply Forall_app. split; assumption.
Qed.

Print Assumptions aes128_cbc_decrypt_encrypt.
Print Assumptions aes128_cbc_encrypt_bytes.
Print Assumptions aes128_cbc_roundtrip.
Print Assumptions aes128_ser_aescbc_bytes.
