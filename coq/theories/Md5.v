(* Executable model of MD5 (RFC 1321).
   Bytes and 32-bit words are [N]; byte strings are [list N]. *)

From Coq Require Import List NArith Lia.
Import ListNotations.
From BMC Require Import Word.
Local Open Scope N_scope.

(* K[i] = floor (2^32 * |sin (i + 1)|) *)
Definition md5_K : list N :=
  [
   0xd76aa478; 0xe8c7b756; 0x242070db; 0xc1bdceee;
   0xf57c0faf; 0x4787c62a; 0xa8304613; 0xfd469501;
   0x698098d8; 0x8b44f7af; 0xffff5bb1; 0x895cd7be;
   0x6b901122; 0xfd987193; 0xa679438e; 0x49b40821;
   0xf61e2562; 0xc040b340; 0x265e5a51; 0xe9b6c7aa;
   0xd62f105d; 0x02441453; 0xd8a1e681; 0xe7d3fbc8;
   0x21e1cde6; 0xc33707d6; 0xf4d50d87; 0x455a14ed;
   0xa9e3e905; 0xfcefa3f8; 0x676f02d9; 0x8d2a4c8a;
   0xfffa3942; 0x8771f681; 0x6d9d6122; 0xfde5380c;
   0xa4beea44; 0x4bdecfa9; 0xf6bb4b60; 0xbebfbc70;
   0x289b7ec6; 0xeaa127fa; 0xd4ef3085; 0x04881d05;
   0xd9d4d039; 0xe6db99e5; 0x1fa27cf8; 0xc4ac5665;
   0xf4292244; 0x432aff97; 0xab9423a7; 0xfc93a039;
   0x655b59c3; 0x8f0ccc92; 0xffeff47d; 0x85845dd1;
   0x6fa87e4f; 0xfe2ce6e0; 0xa3014314; 0x4e0811a1;
   0xf7537e82; 0xbd3af235; 0x2ad7d2bb; 0xeb86d391
  ].

(* per-step left-rotation amounts *)
Definition md5_S : list N :=
  [
   7; 12; 17; 22; 7; 12; 17; 22; 7; 12; 17; 22; 7; 12; 17; 22;
   5; 9; 14; 20; 5; 9; 14; 20; 5; 9; 14; 20; 5; 9; 14; 20;
   4; 11; 16; 23; 4; 11; 16; 23; 4; 11; 16; 23; 4; 11; 16; 23;
   6; 10; 15; 21; 6; 10; 15; 21; 6; 10; 15; 21; 6; 10; 15; 21
  ].

(* Index of the message word used at step i. *)
Definition md5_g (i : N) : N :=
  match i / 16 with
  | 0 => i
  | 1 => (5 * i + 1) mod 16
  | 2 => (3 * i + 5) mod 16
  | _ => (7 * i) mod 16
  end.

(* One entry per step: (stage = i / 16, K[i], S[i], message word index). *)
Definition md5_steps : list (N * N * N * nat) :=
  map (fun i : nat =>
         let n := N.of_nat i in
         (n / 16, nth i md5_K 0, nth i md5_S 0, N.to_nat (md5_g n)))
      (seq 0 64).

(* a, b, c, d *)
Definition md5_state : Type := (N * N * N * N)%type.

Definition md5_H0 : md5_state :=
  (0x67452301, 0xefcdab89, 0x98badcfe, 0x10325476).

Definition md5_f (stage b c d : N) : N :=
  match stage with
  | 0 => N.lor (N.land b c) (N.land (not32 b) d)
  | 1 => N.lor (N.land d b) (N.land (not32 d) c)
  | 2 => N.lxor (N.lxor b c) d
  | _ => N.lxor c (N.lor b (not32 d))
  end.

(* [mw] : the 16 little-endian message words of the current block *)
Definition md5_step (mw : list N) (s : md5_state) (e : N * N * N * nat) : md5_state :=
  let '(a, b, c, d) := s in
  let '(stage, k, sh, g) := e in
  let f := w32 (md5_f stage b c d + a + k + nth g mw 0) in
  (d, add32 b (rotl32 f sh), b, c).

(* [blk] : 64 bytes *)
Definition md5_compress (H : md5_state) (blk : list N) : md5_state :=
  let '(a, b, c, d) := H in
  let '(a', b', c', d') := fold_left (md5_step (le_words blk)) md5_steps H in
  (add32 a a', add32 b b', add32 c c', add32 d d').

Definition md5_digest_of_state (s : md5_state) : list N :=
  let '(a, b, c, d) := s in
  le_bytes32 a ++ le_bytes32 b ++ le_bytes32 c ++ le_bytes32 d.

Definition md5 (m : list N) : list N :=
  md5_digest_of_state
    (fold_left md5_compress (chunks 64 (md_pad le_bytes64 m)) md5_H0).

Lemma md5_digest_of_state_length : forall s, length (md5_digest_of_state s) = 16%nat.
Proof.
  intros [[[a b] c] d]. reflexivity.
Qed.

Lemma md5_length : forall m, length (md5 m) = 16%nat.
Proof.
  intros m. unfold md5. apply md5_digest_of_state_length.
Qed.

(* ------------------------------------------------------------------ *)
(* Test vectors (RFC 1321, A.5)                                        *)
(* ------------------------------------------------------------------ *)

From Coq Require Import String.
Import TestUtil.

Example md5_empty :
  md5 [] = bytes_of_hex "d41d8cd98f00b204e9800998ecf8427e".
Proof. vm_compute; reflexivity. Qed.

Example md5_abc :
  md5 (bytes_of_string "abc") = bytes_of_hex "900150983cd24fb0d6963f7d28e17f72".
Proof. vm_compute; reflexivity. Qed.

(* 62 bytes: padding spills into a second block *)
Example md5_alnum62 :
  md5 (bytes_of_string
         "ABCDEFGHIJKLMNOPQRSTUVWXYZabcdefghijklmnopqrstuvwxyz0123456789")
  = bytes_of_hex "d174ab98d277d9f5a5611c2c9f419d9f".
Proof. vm_compute; reflexivity. Qed.
