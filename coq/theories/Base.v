(* Base.v — shared conventions of the model (DESIGN.md §3).
   A byte is an [N] below 256, a datagram a [list N].  Outcomes are
   [Ok v | Err | Fault]: [Err] is a returned Go error, [Fault] is what the Go
   program does when an index or slice bound is wrong (panic on an
   exact-capacity slice / silent read past len otherwise). *)
From Coq Require Export List NArith ZArith Bool Lia.
Export ListNotations.
Open Scope N_scope.

Definition bytes := list N.

Inductive res (A : Type) : Type :=
| Ok (a : A)
| Err
| Fault.
Arguments Ok {A} a.
Arguments Err {A}.
Arguments Fault {A}.

Definition bind {A B} (r : res A) (f : A -> res B) : res B :=
  match r with Ok a => f a | Err => Err | Fault => Fault end.
Notation "'do' x <- r ; k" := (bind r (fun x => k))
  (at level 200, x name, r at level 100, k at level 200, right associativity).
Notation "'do' ' p <- r ; k" := (bind r (fun x => let p := x in k))
  (at level 200, p pattern, r at level 100, k at level 200, right associativity).

Definition is_ok {A} (r : res A) : bool := match r with Ok _ => true | _ => false end.
Definition is_fault {A} (r : res A) : bool := match r with Fault => true | _ => false end.

(* checked accessors: exactly where Go indexes or slices *)
Definition get (i : nat) (bs : bytes) : res N :=
  match nth_error bs i with Some b => Ok b | None => Fault end.

(* Go's bs[a:b] on a slice whose capacity equals its length *)
Definition slice (a b : nat) (bs : bytes) : res bytes :=
  if (Nat.leb a b && Nat.leb b (length bs))%bool
  then Ok (firstn (b - a) (skipn a bs)) else Fault.
(* bs[a:] *)
Definition slice_from (a : nat) (bs : bytes) : res bytes :=
  if Nat.leb a (length bs) then Ok (skipn a bs) else Fault.
(* bs[:b] *)
Definition slice_to (b : nat) (bs : bytes) : res bytes :=
  if Nat.leb b (length bs) then Ok (firstn b bs) else Fault.

Definition b2n (b : bool) : N := if b then 1 else 0.
Definition bit (k : N) (x : N) : bool := N.testbit x k.

(* little-endian integers *)
Definition le16 (b0 b1 : N) : N := b0 + 256 * b1.
Definition le24 (b0 b1 b2 : N) : N := b0 + 256 * b1 + 65536 * b2.
Definition le32 (b0 b1 b2 b3 : N) : N := b0 + 256 * b1 + 65536 * b2 + 16777216 * b3.
Definition put_le16 (x : N) : bytes := [x mod 256; (x / 256) mod 256].
Definition put_le24 (x : N) : bytes := [x mod 256; (x / 256) mod 256; (x / 65536) mod 256].
Definition put_le32 (x : N) : bytes :=
  [x mod 256; (x / 256) mod 256; (x / 65536) mod 256; (x / 16777216) mod 256].

Definition get_le16 (i : nat) (bs : bytes) : res N :=
  do b0 <- get i bs; do b1 <- get (i+1) bs; Ok (le16 b0 b1).
Definition get_le32 (i : nat) (bs : bytes) : res N :=
  do b0 <- get i bs; do b1 <- get (i+1) bs; do b2 <- get (i+2) bs; do b3 <- get (i+3) bs;
  Ok (le32 b0 b1 b2 b3).

Definition is_byte (b : N) : bool := b <? 256.
Definition all_bytes (bs : bytes) : bool := forallb is_byte bs.

Fixpoint sum_bytes (bs : bytes) : N :=
  match bs with [] => 0 | b :: r => b + sum_bytes r end.

(* Go's copy(dst, src): overwrite a prefix of dst, never grow *)
Fixpoint copy_into (dst src : bytes) : bytes :=
  match dst, src with
  | d :: dr, s :: sr => s :: copy_into dr sr
  | _, _ => dst
  end.

Definition zeros (n : nat) : bytes := repeat 0 n.

(* all values of a byte, for finite sweeps *)
Fixpoint N_seq_from (start : N) (n : nat) : list N :=
  match n with O => [] | S k => start :: N_seq_from (N.succ start) k end.
Definition N_seq (n : nat) : list N := N_seq_from 0 n.
Definition all256 : list N := N_seq 256.
