(* SessionUse.v — C01, last sentence: every command sent on the session the handshake returns passes the
   BMC's integrity check and decryption and is understood as the command the caller asked for.
   key_agreement (both sides hold the same keys) + established_session_accepted (what a session with the BMC's
   keys sends is accepted) + HashBytes (keys are byte strings of at least 16 bytes). *)
From BMC Require Import Base Prim Layers Layers2 Serialize SpecRequests Packet Conn Hmac HashBytes Handshake HandshakeProofs
                        SpecBmc RequestProofs KeyAgreement SentPacketProofs.

Theorem established_commands_accepted :
  forall (o : session_opts) (s : suite) (random rc : bytes) (new_id : N) (cfg : Bmc.config)
         (supported : N -> N -> N -> bool) (pwb : bytes),
  In (su_auth s) [1; 2; 3] -> In (su_integ s) [1; 2; 4] -> su_conf s = 1 ->
  supported (su_auth s) (su_integ s) (su_conf s) = true ->
  so_priv o < 16 -> (length (so_user o) <= 16)%nat -> length random = 16%nat -> length rc = 16%nat ->
  length (Bmc.guid cfg) = 16%nat -> new_id < 4294967296 ->
  Bmc.find_user cfg (role_of o) (so_user o) = Some pwb ->
  Bmc.pad20 pwb = Bmc.pad20 (so_password o) ->
  (length pwb <= 20)%nat /\ (length (so_password o) <= 20)%nat ->
  Bmc.kg cfg = so_kg o /\ (so_kg o = [] \/ length (so_kg o) = 20%nat) ->
  exists d1 d2 d3 sent e act sess,
    (* the handshake of C01_key_agreement: console session [e], BMC session [act] *)
    new_session o s random [Some d1] [Some d2] [Some d3] = (sent, inl e) /\
    es_sik e = Bmc.a_sik act /\ es_k1 e = Bmc.a_k1 act /\ es_k2 e = Bmc.a_k2 act /\
    session_of e = Some sess /\
    (* every command on it *)
    forall seq iv op lun body pkt,
      seq < 4294967296 -> length iv = 16%nat -> Forall (fun b => b < 256) iv -> Forall (fun b => b < 256) body ->
      op_fn op < 64 -> op_fn op mod 2 = 0 -> op_fn op <> 0x2e -> op_cmd op < 256 -> lun < 4 ->
      (op_fn op = 0x2c -> op_body op < 256) -> request_message_length op body < 65504 ->
      session_command_packet sess seq iv op lun body = Ok pkt ->
      Bmc.accept act pkt = Some (iv, seq, expected_lanreq op lun body).
Proof.
  intros o s random rc new_id cfg supported pwb Hauth Hinteg Hconf Hsup Hpriv Huser Hrandom Hrc Hguid Hid Hfind Hpw Hpwlen Hkg.
  destruct (key_agreement o s random rc new_id cfg supported pwb Hauth Hinteg Hconf Hsup Hpriv Huser Hrandom Hrc Hguid Hid
                          Hfind Hpw Hpwlen Hkg)
    as (q1 & r1 & pend & d1 & q2 & r2 & half & d2 & q3 & r4 & act & d3 & sent & e & k1 & k2 & k3 & F).
  destruct F as (_ & _ & _ & _ & _ & _ & _ & _ & _ & _ & _ & _ & NS & Esik & Ek1 & Ek2 & Erid & _ & Esuite & Einteg & _ & Ebid & Eaes).
  assert (IS : exists sg, integrity_sign (su_integ (es_suite e)) (es_k1 e) = Some sg).
  { rewrite Esuite. unfold integrity_sign, integrity_params. destruct Hinteg as [<-|[<-|[<-|[]]]]; eauto. }
  destruct IS as [sg IS].
  assert (SO : exists sess, session_of e = Some sess) by (unfold session_of; rewrite IS; eauto).
  destruct SO as [sess SO].
  exists d1, d2, d3, sent, e, act, sess. repeat split; auto.
  (* K2 is an HMAC output under one of the three authentication algorithms *)
  destruct (new_session_ok_inv _ _ _ _ _ _ _ _ NS) as [rsp [m2 [m4 [h [icvlen [b1 [p1 [b2 [p2 [b3 [p3 G]]]]]]]]]]].
  destruct G as (_ & _ & _ & _ & _ & _ & _ & AP & _ & _ & _ & (_ & K2) & _).
  assert (Hh : In h [1; 2; 3]).
  { destruct Hauth as [E|[E|[E|[]]]]; rewrite <- E in AP; cbn in AP; injection AP as <- _; cbn; tauto. }
  intros seq iv op lun body pkt Hs Hiv Biv Bb Hf He H2e Hc Hl Hb Hlen P.
  eapply (established_session_accepted e sess act); eauto.
  - rewrite Einteg, Esuite. reflexivity.
  - rewrite Esuite. exact Hinteg.
  - rewrite K2. apply hmac_alg_length16. exact Hh.
  - rewrite K2. apply hmac_alg_bytes.
  - rewrite Erid, Ebid. exact Hid.
Qed.
