(* FsrProofs.v — the Full Sensor Record decoder inverts the specification's
   encoder, for every string encoding and identity string of every length. *)
From BMC Require Import Base BaseFacts Prim PrimProofs Layers Layers2 SpecLayers StringProofs.
From Coq Require Import ZifyN ZifyNat ZifyBool.
Ltac Zify.zify_post_hook ::= Z.div_mod_to_equations.

(* ---------- two's complement fields ---------- *)
Lemma twos_utwos w z : 1 <= w -> fitz w z = true -> Spec.twos w (utwos w z) = z.
Proof.
  intros Hw H. unfold fitz in H. unfold Spec.twos, utwos.
  assert (E : 2 ^ w = 2 * 2 ^ (w - 1)).
  { replace w with (N.succ (w - 1)) at 1 by lia. apply N.pow_succ_r'. }
  set (p := 2 ^ (w - 1)) in *. rewrite E. clearbody p. clear E.
  apply andb_true_iff in H. destruct H as [H1 H2]. apply Z.leb_le in H1. apply Z.ltb_lt in H2.
  destruct (Z.ltb_spec z 0) as [Hneg|Hpos].
  - assert (Em : (z mod Z.of_N (2 * p) = z + Z.of_N (2 * p))%Z).
    { symmetry. apply (Z.mod_unique_pos _ _ (-1)%Z); lia. }
    rewrite Em. destruct (N.ltb_spec (Z.to_N (z + Z.of_N (2 * p))) p); lia.
  - rewrite Z.mod_small by lia. destruct (N.ltb_spec (Z.to_N z) p); lia.
Qed.

Lemma utwos_bound w z : utwos w z < 2 ^ w.
Proof.
  unfold utwos. assert (0 < 2 ^ w) by (apply N.neq_0_lt_0, N.pow_nonzero; discriminate).
  pose proof (Z.mod_pos_bound z (Z.of_N (2 ^ w)) ltac:(lia)). lia.
Qed.

Lemma impl_twos_utwos w z : 1 <= w <= 16 -> fitz w z = true ->
  Impl.twos (utwos w z / 256) (utwos w z mod 256) w = z.
Proof.
  intros Hw H. rewrite twos_correct by (try apply utwos_bound; lia). apply twos_utwos; [lia|exact H].
Qed.

(* ---------- the identity string ---------- *)
Lemma bcd_code_inv r c : Spec.bcd_plus_code r = Some c -> c < 16 /\ Spec.bcd_plus_rune c = r.
Proof.
  destruct r as [|p]; [discriminate|].
  do 7 (try (destruct p as [p|p|]; try discriminate));
    intros H; injection H as <-; (split; [lia|reflexivity]).
Qed.

Definition bcd_code_of (r : N) : N := match Spec.bcd_plus_code r with Some c => c | None => 0 end.

Lemma bcd_codes_ok s :
  forallb (fun r => match Spec.bcd_plus_code r with Some _ => true | None => false end) s = true ->
  Forall (fun n => n < 16) (map bcd_code_of s) /\ map Spec.bcd_plus_rune (map bcd_code_of s) = s.
Proof.
  induction s as [|r s IH]; cbn [forallb map]; intros H; [split; [constructor|reflexivity]|].
  apply andb_true_iff in H. destruct H as [Hr Hs]. destruct (IH Hs) as [IH1 IH2].
  unfold bcd_code_of at 1 3. destruct (Spec.bcd_plus_code r) as [c|] eqn:E; [|discriminate].
  destruct (bcd_code_inv r c E) as [Hc Hrune].
  split; [constructor; assumption|]. rewrite Hrune, IH2. reflexivity.
Qed.

Lemma p6_codes_ok s :
  forallb (fun r => (0x20 <=? r) && (r <? 0x60)) s = true ->
  Forall (fun c => c < 64) (map (fun r => r - 0x20) s) /\
  map (fun c => c + 0x20) (map (fun r => r - 0x20) s) = s.
Proof.
  induction s as [|r s IH]; cbn [forallb map]; intros H; [split; [constructor|reflexivity]|].
  apply andb_true_iff in H. destruct H as [Hr Hs]. destruct (IH Hs) as [IH1 IH2].
  split; [constructor; [lia|assumption]|]. rewrite IH2. f_equal. lia.
Qed.

Lemma latin1_case s e (Hdec : Impl.string_decoder e = Some Impl.decode_latin1) :
  e <= 3 -> N.of_nat (length s) < 32 ->
  (byte_list s && negb (N.of_nat (length s) =? 1))%bool = true ->
  exists e' dec body, e' <= 3 /\ N.of_nat (length s) < 32 /\
    (64 * e + N.of_nat (length s)) :: s = (64 * e' + N.of_nat (length s)) :: body /\
    Impl.string_decoder e' = Some dec /\
    forall tail, dec (body ++ tail) (length s) = Ok (s, length body).
Proof.
  intros He Hn H. exists e, Impl.decode_latin1, s. repeat split; try assumption.
  intros tail. apply latin1_roundtrip. apply andb_true_iff in H. lia.
Qed.

Lemma idstring_spec enc s ids : SpecEnc.idstring enc s = Some ids ->
  exists e dec body, e <= 3 /\ N.of_nat (length s) < 32 /\
    ids = (64 * e + N.of_nat (length s)) :: body /\
    Impl.string_decoder e = Some dec /\
    forall tail, dec (body ++ tail) (length s) = Ok (s, length body).
Proof.
  unfold SpecEnc.idstring. cbv zeta.
  destruct (N.ltb_spec (N.of_nat (length s)) 32) as [Hn|]; [|discriminate]. cbn [negb].
  assert (Hlat : forall e, Impl.string_decoder e = Some Impl.decode_latin1 -> e <= 3 ->
     (if (byte_list s && negb (N.of_nat (length s) =? 1))%bool
      then Some ((64 * e + N.of_nat (length s)) :: s) else None) = Some ids ->
     exists e' dec body, e' <= 3 /\ N.of_nat (length s) < 32 /\
       ids = (64 * e' + N.of_nat (length s)) :: body /\
       Impl.string_decoder e' = Some dec /\
       forall tail, dec (body ++ tail) (length s) = Ok (s, length body)).
  { intros e Hdec He H. destruct (byte_list s && _)%bool eqn:E; [|discriminate].
    injection H as <-. apply latin1_case; assumption. }
  destruct enc as [|[[q|q|]|[q|q|]|]]; cbv iota; intros H;
    try (apply (Hlat 0); [reflexivity|lia|exact H]).
  - (* 3 *) apply (Hlat 3); [reflexivity|lia|exact H].
  - (* 2 *) destruct (forallb _ s) eqn:E; [|discriminate]. injection H as <-.
    destruct (p6_codes_ok s E) as [HF Hmap].
    exists 2, Impl.decode_packed6, (Spec.pack6 (map (fun r => r - 0x20) s)).
    repeat split; try assumption; try lia. intros tail.
    rewrite <- (map_length (fun r => r - 0x20) s) at 1.
    rewrite packed6_roundtrip by exact HF. rewrite Hmap, pack6_length. reflexivity.
  - (* 1 *) destruct (forallb _ s) eqn:E; [|discriminate]. injection H as <-.
    destruct (bcd_codes_ok s E) as [HF Hmap].
    exists 1, Impl.decode_bcd_plus, (Spec.pack_nibbles (map bcd_code_of s)).
    repeat split; try assumption; try lia. intros tail.
    rewrite <- (map_length bcd_code_of s) at 1.
    rewrite bcd_plus_roundtrip by exact HF. rewrite Hmap, pack_nibbles_length. reflexivity.
Qed.

(* ---------- the fixed part of the record ---------- *)
Definition mk_fsr (d0 d1 d2 d3 d4 d6 d7 d8 d15 d16 d17 d18 d19 d20 d21 d22 d23 d24 d25 d26 d27 d28 d29 d30 : N)
    (ident p : bytes) : fsr :=
  {| f_owner := d0; f_channel := N.shiftr d1 4; f_lun := N.land d1 3; f_number := d2;
     f_m := Impl.twos (N.shiftr d20 6) d19 10;
     f_b := Impl.twos (N.shiftr d22 6) d21 10;
     f_bexp := Impl.twos 0 (N.land d24 0xf) 4;
     f_rexp := Impl.twos 0 (N.shiftr d24 4) 4;
     f_container := tbit 7 d4; f_entity := d3; f_instance := N.land d4 0x7f; f_ignore := tbit 7 d6;
     f_sensortype := d7; f_outputtype := d8; f_format := N.shiftr d15 6; f_rate := N.shiftr (N.land d15 0x38) 3;
     f_percentage := tbit 0 d15; f_baseunit := d16; f_modunit := d17; f_linearisation := N.land d18 0x7f;
     f_tolerance := N.land d20 0x3f;
     f_accuracy := Impl.twos (N.shiftr (N.land d23 0xf0) 6)
                             (N.lor (N.land d22 0x3f) (u8 (N.shiftl (N.land d23 0xf0) 2))) 10;
     f_accexp := N.shiftr (N.land d23 0xc) 2; f_direction := N.land d23 3;
     f_nominal_spec := tbit 0 d25; f_normmin_spec := tbit 2 d25; f_normmax_spec := tbit 1 d25;
     f_nominal := d26; f_normmin := d28; f_normmax := d27; f_sensormin := d30; f_sensormax := d29;
     f_identity := ident; f_payload := p |}.

Lemma decode_fsr_cons old b0 b1 b2 b3 b4 b5 b6 b7 b8 b9 b10 b11 b12 b13 b14 b15 b16 b17 b18 b19 b20 b21 b22 b23 b24 b25 b26 b27 b28 b29 b30 b31 b32 b33 b34 b35 b36 b37 b38 b39 b40 b41 d42 rest dec :
  Impl.string_decoder (N.shiftr d42 6) = Some dec ->
  decode_fsr old (b0 :: b1 :: b2 :: b3 :: b4 :: b5 :: b6 :: b7 :: b8 :: b9 :: b10 :: b11 :: b12 :: b13 :: b14 :: b15 :: b16 :: b17 :: b18 :: b19 :: b20 :: b21 :: b22 :: b23 :: b24 :: b25 :: b26 :: b27 :: b28 :: b29 :: b30 :: b31 :: b32 :: b33 :: b34 :: b35 :: b36 :: b37 :: b38 :: b39 :: b40 :: b41 :: d42 :: rest) =
  do '(ident, consumed) <- dec rest (N.to_nat (N.land d42 0x1f));
  do p <- slice_from consumed rest;
  Ok (mk_fsr b0 b1 b2 b3 b4 b6 b7 b8 b15 b16 b17 b18 b19 b20 b21 b22 b23 b24 b25 b26 b27 b28 b29 b30 ident p).
Proof.
  intros H. unfold decode_fsr, guard.
  cbn [length Nat.ltb Nat.leb get nth_error bind]. rewrite H.
  cbn [slice_from length Nat.leb skipn bind].
  destruct (dec rest (N.to_nat (N.land d42 31))) as [[ident consumed]| |]; cbn [bind]; try reflexivity.
Qed.

Lemma slice_from_app (xs ys : bytes) : slice_from (length xs) (xs ++ ys) = Ok ys.
Proof.
  unfold slice_from. rewrite app_length.
  destruct (Nat.leb_spec (length xs) (length xs + length ys)); [|lia].
  f_equal. rewrite skipn_app, Nat.sub_diag, skipn_all. reflexivity.
Qed.

Lemma some_inj {A} (a b : A) : Some a = Some b -> a = b.
Proof. congruence. Qed.

Lemma fits_lt w x : fits w x = true -> x < 2 ^ w.
Proof. unfold fits. apply N.ltb_lt. Qed.

Ltac norm_pow :=
  change (2 ^ 8) with 256 in *; change (2 ^ 7) with 128 in *; change (2 ^ 6) with 64 in *;
  change (2 ^ 4) with 16 in *; change (2 ^ 3) with 8 in *; change (2 ^ 2) with 4 in *.

(* masked fields of one byte, by sweep *)
Lemma mask_sweep :
  forallb (fun x => (N.shiftr (N.land x 0x38) 3 =? (x / 8) mod 8) &&
                    (N.shiftr (N.land x 0xc) 2 =? (x / 4) mod 4) &&
                    (N.shiftr (N.land x 0xf0) 6 =? x / 64)) all256 = true.
Proof. vm_cast_no_check (eq_refl true). Qed.
Lemma mask_eq x : x < 256 ->
  N.shiftr (N.land x 0x38) 3 = (x / 8) mod 8 /\ N.shiftr (N.land x 0xc) 2 = (x / 4) mod 4 /\
  N.shiftr (N.land x 0xf0) 6 = x / 64.
Proof.
  intros H. pose proof (byte_sweep _ mask_sweep x H) as P.
  apply andb_true_iff in P. destruct P as [P P3]. apply andb_true_iff in P. destruct P as [P1 P2].
  apply N.eqb_eq in P1, P2, P3. auto.
Qed.
(* the low byte of the 10-bit accuracy, from two bytes *)
Lemma acc_lo_sweep :
  forallb (fun x => forallb (fun y =>
     N.lor (N.land y 0x3f) (u8 (N.shiftl (N.land x 0xf0) 2)) =? y mod 64 + 64 * ((x / 16) mod 4))
     all256) all256 = true.
Proof. vm_cast_no_check (eq_refl true). Qed.
Lemma acc_lo_eq x y : x < 256 -> y < 256 ->
  N.lor (N.land y 0x3f) (u8 (N.shiftl (N.land x 0xf0) 2)) = y mod 64 + 64 * ((x / 16) mod 4).
Proof.
  intros Hx Hy. pose proof (byte_sweep _ acc_lo_sweep x Hx) as P. cbn beta in P.
  apply N.eqb_eq. exact (byte_sweep _ P y Hy).
Qed.

Lemma shiftr_div x k d : 2 ^ k = d -> N.shiftr x k = x / d.
Proof. intros <-. apply N.shiftr_div_pow2. Qed.
Lemma land_mod x k d : 2 ^ k = d -> N.land x (N.ones k) = x mod d.
Proof. intros <-. apply N.land_ones. Qed.
Lemma tbit_div k x d : 2 ^ k = d -> tbit k x = (((x / d) mod 2) =? 1).
Proof. intros <-. unfold tbit. apply N.testbit_eqb. Qed.

Lemma tbit_bn k d (c : bool) x : 2 ^ k = d -> (x / d) mod 2 = bn c -> tbit k x = c.
Proof. intros H H0. rewrite (tbit_div k x d H), H0. destruct c; reflexivity. Qed.

Lemma impl_twos_utwos4 z : fitz 4 z = true -> Impl.twos 0 (utwos 4 z) 4 = z.
Proof.
  intros H. pose proof (impl_twos_utwos 4 z ltac:(lia) H) as T. pose proof (utwos_bound 4 z) as B.
  change (2 ^ 4) with 16 in B.
  replace (utwos 4 z / 256) with 0 in T by lia. replace (utwos 4 z mod 256) with (utwos 4 z) in T by lia.
  exact T.
Qed.

Theorem fsr_roundtrip : forall enc old v bs, SpecEnc.fsr enc v = Some bs -> decode_fsr old bs = Ok v.
Proof.
  intros enc old v bs H.
  destruct v as [owner channel lun number vm vb bexp rexp container entity instance ignore sensortype
    outputtype format rate percentage baseunit modunit linearisation tolerance accuracy accexp direction
    nominal_spec normmin_spec normmax_spec nominal normmin normmax sensormin sensormax identity payload].
  unfold SpecEnc.fsr in H.
  cbn [f_owner f_channel f_lun f_number f_m f_b f_bexp f_rexp f_container f_entity f_instance f_ignore
       f_sensortype f_outputtype f_format f_rate f_percentage f_baseunit f_modunit f_linearisation
       f_tolerance f_accuracy f_accexp f_direction f_nominal_spec f_normmin_spec f_normmax_spec
       f_nominal f_normmin f_normmax f_sensormin f_sensormax f_identity f_payload] in H.
  cbv zeta in H.
  destruct (SpecEnc.idstring enc identity) as [ids|] eqn:Hid; [|discriminate].
  unfold opt in H.
  match type of H with (if ?c then _ else _) = _ => destruct c eqn:Hok; [|discriminate] end.
  apply some_inj in H. subst bs.
  destruct (idstring_spec _ _ _ Hid) as (e & dec & body & He & Hn & -> & Hdec & Hrt).
  repeat (apply andb_true_iff in Hok; let H' := fresh "K" in destruct Hok as [Hok H']).
  repeat match goal with K : fits _ _ = true |- _ => apply fits_lt in K end.
  norm_pow.
  cbn [app].
  assert (E6 : N.shiftr (64 * e + N.of_nat (length identity)) 6 = e).
  { rewrite N.shiftr_div_pow2. norm_pow. lia. }
  assert (E5 : N.to_nat (N.land (64 * e + N.of_nat (length identity)) 0x1f) = length identity).
  { change 0x1f with (N.ones 5). rewrite N.land_ones. change (2 ^ 5) with 32. lia. }
  rewrite (decode_fsr_cons _ _ _ _ _ _ _ _ _ _ _ _ _ _ _ _ _ _ _ _ _ _ _ _ _ _ _ _ _ _ _ _ _ _ _ _ _ _ _ _ _ _ _ _ _ dec)
    by (rewrite E6; exact Hdec).
  rewrite E5, Hrt. cbn [bind]. rewrite slice_from_app. cbn [bind].
  unfold mk_fsr.
  pose proof (impl_twos_utwos 10 vm ltac:(lia) K21) as Tm. pose proof (utwos_bound 10 vm) as Bm.
  pose proof (impl_twos_utwos 10 vb ltac:(lia) K20) as Tb. pose proof (utwos_bound 10 vb) as Bb.
  pose proof (impl_twos_utwos 10 accuracy ltac:(lia) K7) as Ta. pose proof (utwos_bound 10 accuracy) as Ba.
  pose proof (impl_twos_utwos4 bexp K19) as Tbe. pose proof (utwos_bound 4 bexp) as Bbe.
  pose proof (impl_twos_utwos4 rexp K18) as Tre. pose proof (utwos_bound 4 rexp) as Bre.
  change (2 ^ 10) with 1024 in *. change (2 ^ 4) with 16 in *.
  set (m := utwos 10 vm) in *. set (b := utwos 10 vb) in *. set (a := utwos 10 accuracy) in *.
  set (ube := utwos 4 bexp) in *. set (ure := utwos 4 rexp) in *.
  clearbody m b a ube ure.
  assert (Bc : forall c : bool, bn c < 2) by (intros []; cbv; reflexivity).
  pose proof (Bc container) as Bc1. pose proof (Bc ignore) as Bc2. pose proof (Bc percentage) as Bc3.
  pose proof (Bc nominal_spec) as Bc4. pose proof (Bc normmin_spec) as Bc5. pose proof (Bc normmax_spec) as Bc6.
  assert (F1 : N.shiftr (16 * channel + lun) 4 = channel) by (rewrite (shiftr_div _ 4 16 eq_refl); lia).
  assert (F2 : N.land (16 * channel + lun) 3 = lun) by (rewrite (land_mod _ 2 4 eq_refl); lia).
  assert (F3 : N.shiftr (64 * (m / 256) + tolerance) 6 = m / 256) by (rewrite (shiftr_div _ 6 64 eq_refl); lia).
  assert (F4 : N.shiftr (64 * (b / 256) + a mod 64) 6 = b / 256) by (rewrite (shiftr_div _ 6 64 eq_refl); lia).
  assert (F5 : N.land (16 * ure + ube) 15 = ube) by (rewrite (land_mod _ 4 16 eq_refl); lia).
  assert (F6 : N.shiftr (16 * ure + ube) 4 = ure) by (rewrite (shiftr_div _ 4 16 eq_refl); lia).
  assert (F7 : tbit 7 (128 * bn container + instance) = container) by (apply (tbit_bn 7 128); [reflexivity|lia]).
  assert (F8 : N.land (128 * bn container + instance) 127 = instance) by (rewrite (land_mod _ 7 128 eq_refl); lia).
  assert (F9 : tbit 7 (128 * bn ignore) = ignore) by (apply (tbit_bn 7 128); [reflexivity|lia]).
  set (u1 := 64 * format + 8 * rate + bn percentage).
  assert (Bu1 : u1 < 256) by (subst u1; lia).
  assert (F10 : N.shiftr u1 6 = format) by (rewrite (shiftr_div _ 6 64 eq_refl); subst u1; lia).
  assert (F11 : N.shiftr (N.land u1 56) 3 = rate).
  { destruct (mask_eq u1 Bu1) as [-> _]. subst u1; lia. }
  assert (F12 : tbit 0 u1 = percentage) by (apply (tbit_bn 0 1); [reflexivity|subst u1; lia]).
  assert (F13 : N.land linearisation 127 = linearisation) by (rewrite (land_mod _ 7 128 eq_refl); lia).
  assert (F14 : N.land (64 * (m / 256) + tolerance) 63 = tolerance) by (rewrite (land_mod _ 6 64 eq_refl); lia).
  set (x := 16 * (a / 64) + 4 * accexp + direction).
  set (y := 64 * (b / 256) + a mod 64).
  assert (Bx : x < 256) by (subst x; lia). assert (By : y < 256) by (subst y; lia).
  assert (F15 : N.shiftr (N.land x 240) 6 = a / 256).
  { destruct (mask_eq x Bx) as [_ [_ ->]]. subst x; lia. }
  assert (F16 : N.lor (N.land y 63) (u8 (N.shiftl (N.land x 240) 2)) = a mod 256).
  { rewrite (acc_lo_eq x y Bx By). subst x y; lia. }
  assert (F17 : N.shiftr (N.land x 12) 2 = accexp).
  { destruct (mask_eq x Bx) as [_ [-> _]]. subst x; lia. }
  assert (F18 : N.land x 3 = direction) by (rewrite (land_mod _ 2 4 eq_refl); subst x; lia).
  set (fl := 4 * bn normmin_spec + 2 * bn normmax_spec + bn nominal_spec).
  assert (F19 : tbit 0 fl = nominal_spec) by (apply (tbit_bn 0 1); [reflexivity|subst fl; lia]).
  assert (F20 : tbit 2 fl = normmin_spec) by (apply (tbit_bn 2 4); [reflexivity|subst fl; lia]).
  assert (F21 : tbit 1 fl = normmax_spec) by (apply (tbit_bn 1 2); [reflexivity|subst fl; lia]).
  subst u1 x y fl.
  rewrite F1, F2, F3, F4, F5, F6, F7, F8, F9, F10, F11, F12, F13, F14, F15, F16, F17, F18, F19, F20, F21.
  rewrite Tm, Tb, Ta, Tbe, Tre. reflexivity.
Qed.

(* Bit 5 of the ID string type/length byte is reserved (IPMI v2.0 43.1, byte 48): a record in which a BMC sets it decodes
   to the same value as the record with the bit clear - the length is bits 4:0, the type bits 7:6. *)
Lemma typelen_reserved_bit (d : N) : d < 256 -> N.testbit d 5 = false ->
  N.shiftr (d + 32) 6 = N.shiftr d 6 /\ N.land (d + 32) 0x1f = N.land d 0x1f.
Proof.
  intros H T.
  assert (S : forallb (fun d => implb (negb (N.testbit d 5)) ((N.shiftr (d + 32) 6 =? N.shiftr d 6) && (N.land (d + 32) 0x1f =? N.land d 0x1f)))
                      (map N.of_nat (seq 0 256)) = true) by (vm_compute; reflexivity).
  rewrite forallb_forall in S. specialize (S d).
  assert (I : In d (map N.of_nat (seq 0 256))).
  { apply in_map_iff. exists (N.to_nat d). split; [lia|]. apply in_seq. lia. }
  specialize (S I). rewrite T in S. cbn [negb implb] in S.
  apply andb_true_iff in S. destruct S as [A B]. apply N.eqb_eq in A, B. auto.
Qed.

Theorem fsr_reserved_bit_ignored old b0 b1 b2 b3 b4 b5 b6 b7 b8 b9 b10 b11 b12 b13 b14 b15 b16 b17 b18 b19 b20 b21 b22 b23 b24 b25 b26 b27 b28 b29 b30 b31 b32 b33 b34 b35 b36 b37 b38 b39 b40 b41 d42 rest :
  d42 < 256 -> N.testbit d42 5 = false ->
  decode_fsr old (b0 :: b1 :: b2 :: b3 :: b4 :: b5 :: b6 :: b7 :: b8 :: b9 :: b10 :: b11 :: b12 :: b13 :: b14 :: b15 :: b16 :: b17 :: b18 :: b19 :: b20 :: b21 :: b22 :: b23 :: b24 :: b25 :: b26 :: b27 :: b28 :: b29 :: b30 :: b31 :: b32 :: b33 :: b34 :: b35 :: b36 :: b37 :: b38 :: b39 :: b40 :: b41 :: (d42 + 32) :: rest) =
  decode_fsr old (b0 :: b1 :: b2 :: b3 :: b4 :: b5 :: b6 :: b7 :: b8 :: b9 :: b10 :: b11 :: b12 :: b13 :: b14 :: b15 :: b16 :: b17 :: b18 :: b19 :: b20 :: b21 :: b22 :: b23 :: b24 :: b25 :: b26 :: b27 :: b28 :: b29 :: b30 :: b31 :: b32 :: b33 :: b34 :: b35 :: b36 :: b37 :: b38 :: b39 :: b40 :: b41 :: d42 :: rest).
Proof.
  intros H T. destruct (typelen_reserved_bit d42 H T) as [A B].
  unfold decode_fsr, guard. cbn [length Nat.ltb Nat.leb get nth_error bind]. rewrite A, B. reflexivity.
Qed.
