(* LayerTotal.v — C05 (layer level): no decoder ever indexes or slices beyond
   the bytes it was given, for every input and every prior state;
   C17 (layer level): the result never depends on the prior state. *)
From BMC Require Import Base BaseFacts Prim Layers Layers2.
From Coq Require Import ZifyN ZifyNat ZifyBool.

(* ---------- generic facts about the checked accessors ---------- *)
Lemma slice_from_ok a bs : (a <= length bs)%nat -> slice_from a bs = Ok (skipn a bs).
Proof. intros H. unfold slice_from. destruct (Nat.leb_spec a (length bs)); [reflexivity|lia]. Qed.
Lemma slice_to_ok b bs : (b <= length bs)%nat -> slice_to b bs = Ok (firstn b bs).
Proof. intros H. unfold slice_to. destruct (Nat.leb_spec b (length bs)); [reflexivity|lia]. Qed.
Lemma slice_ok a b bs : (a <= b)%nat -> (b <= length bs)%nat -> slice a b bs = Ok (firstn (b - a) (skipn a bs)).
Proof.
  intros H1 H2. unfold slice. destruct (Nat.leb_spec a b); [|lia].
  destruct (Nat.leb_spec b (length bs)); [reflexivity|lia].
Qed.
Lemma get_ok' i bs : (i < length bs)%nat -> get i bs = Ok (nth i bs 0).
Proof.
  intros H. unfold get. destruct (nth_error bs i) eqn:E.
  - f_equal. symmetry. apply nth_error_nth. exact E.
  - apply nth_error_None in E. lia.
Qed.
Lemma get_le16_ok i bs : (i + 1 < length bs)%nat -> exists x, get_le16 i bs = Ok x.
Proof. intros H. unfold get_le16. rewrite ?get_ok' by lia. simpl. eauto. Qed.
Lemma get_le32_ok i bs : (i + 3 < length bs)%nat -> exists x, get_le32 i bs = Ok x.
Proof. intros H. unfold get_le32. rewrite ?get_ok' by lia. simpl. eauto. Qed.

Definition nofault {A} (r : res A) : Prop := r <> Fault.
Lemma nofault_bind {A B} (r : res A) (f : A -> res B) :
  nofault r -> (forall a, r = Ok a -> nofault (f a)) -> nofault (bind r f).
Proof. unfold nofault. destruct r; simpl; intros H1 H2; auto. discriminate. Qed.
Lemma nofault_guard {A} c (k : res A) : (c = false -> nofault k) -> nofault (guard c k).
Proof. unfold nofault, guard. destruct c; intros H; [discriminate|auto]. Qed.
Lemma nofault_ok {A} (a : A) : nofault (Ok a). Proof. discriminate. Qed.
Lemma nofault_err {A} : nofault (@Err A). Proof. discriminate. Qed.

(* map_res over in-range gets never faults *)
Lemma map_res_nofault {A B} (f : A -> res B) l :
  (forall a, In a l -> nofault (f a)) -> nofault (Impl.map_res f l).
Proof.
  induction l as [|a r IH]; intros H; simpl; [apply nofault_ok|].
  apply nofault_bind; [apply H; left; reflexivity|]. intros b _.
  apply nofault_bind; [apply IH; intros; apply H; right; assumption|]. intros; apply nofault_ok.
Qed.

(* destructs [bs] into [n] explicit bytes under a length hypothesis *)
Tactic Notation "explode" ident(bs) integer(n) :=
  do n (destruct bs as [|? bs]; [simpl in *; lia|]).

Ltac guard_len :=
  match goal with
  | |- context [Nat.ltb (length ?bs) ?n] =>
      destruct (Nat.ltb_spec (length bs) n); [discriminate|]
  end.

(* ---------- fixed-layout layers: destruct to the guard length and compute ---------- *)
Tactic Notation "fixed_total" reference(L) integer(n) :=
  intros old bs; unfold L, guard; guard_len;
  do n (destruct bs as [|? bs]; [simpl in *; lia|]); cbn; try discriminate.

Theorem rmcp_total : forall old bs, decode_rmcp old bs <> Fault.
Proof. fixed_total decode_rmcp 4. Qed.
Theorem selector_total : forall old bs, decode_selector old bs <> Fault.
Proof. fixed_total decode_selector 1. Qed.
Theorem authcaps_total : forall old bs, decode_authcaps old bs <> Fault.
Proof. fixed_total decode_authcaps 8. Qed.
Theorem guid_total : forall old bs, decode_guid old bs <> Fault.
Proof. fixed_total decode_guid 16. Qed.
Theorem reserve_total : forall old bs, decode_reserve old bs <> Fault.
Proof. fixed_total decode_reserve 2. Qed.
Theorem getsdrrsp_total : forall old bs, decode_getsdrrsp old bs <> Fault.
Proof. fixed_total decode_getsdrrsp 2. Qed.
Theorem sdrhdr_total : forall old bs, decode_sdrhdr old bs <> Fault.
Proof. fixed_total decode_sdrhdr 5. Qed.
Theorem sdrrepoinfo_total : forall old bs, decode_sdrrepoinfo old bs <> Fault.
Proof. fixed_total decode_sdrrepoinfo 14. Qed.
Theorem powerreading_total : forall old bs, decode_powerreading old bs <> Fault.
Proof. fixed_total decode_powerreading 17. Qed.
Theorem deviceid_total : forall old bs, decode_deviceid old bs <> Fault.
Proof. fixed_total decode_deviceid 11. Qed.

Theorem setpriv_total : forall old bs, decode_setpriv old bs <> Fault.
Proof.
  intros old bs. unfold decode_setpriv, guard.
  destruct bs as [|b [|c r]]; cbn; discriminate.
Qed.

Theorem chassis_total : forall old bs, decode_chassis old bs <> Fault.
Proof.
  intros old bs. unfold decode_chassis, guard. guard_len. explode bs 3.
  destruct bs as [|d3 bs]; cbn; discriminate.
Qed.

Theorem sensorreading_total : forall old bs, decode_sensorreading old bs <> Fault.
Proof.
  intros old bs. unfold decode_sensorreading, guard. guard_len. explode bs 3.
  destruct bs as [|d3 bs]; cbn; discriminate.
Qed.

Theorem ciphersuites_total : forall old bs, decode_ciphersuites old bs <> Fault.
Proof.
  intros old bs. unfold decode_ciphersuites, guard. guard_len.
  destruct (Nat.ltb_spec 17 (length bs)).
  - rewrite slice_from_ok by lia. rewrite ?get_ok' by lia. rewrite slice_ok by lia. cbn. discriminate.
  - rewrite slice_from_ok by lia. rewrite ?get_ok' by lia. rewrite slice_ok by lia. cbn. discriminate.
Qed.

Theorem v1session_total : forall old bs, decode_v1session old bs <> Fault.
Proof.
  intros old bs. unfold decode_v1session, guard. guard_len.
  destruct (get_le32_ok 1 bs ltac:(lia)) as [sq Hsq]. destruct (get_le32_ok 5 bs ltac:(lia)) as [id Hid].
  rewrite ?get_ok' by lia. cbn [bind]. rewrite Hsq, Hid. cbn [bind].
  destruct (nth 0 bs 0 =? 0).
  - rewrite slice_from_ok by lia. rewrite ?get_ok' by lia. cbn. discriminate.
  - guard_len. rewrite slice_from_ok by lia. rewrite slice_ok by lia. rewrite ?get_ok' by lia. cbn. discriminate.
Qed.

Theorem rakp4_total : forall old bs, decode_rakp4 old bs <> Fault.
Proof.
  intros old bs. unfold decode_rakp4, guard. guard_len.
  destruct (get_le32_ok 4 bs ltac:(lia)) as [c Hc]. rewrite ?get_ok' by lia. cbn [bind]. rewrite Hc. cbn [bind].
  destruct ((nth 1 bs 0 =? 0) && Nat.ltb 8 (length bs))%bool; [rewrite slice_from_ok by lia|]; cbn; discriminate.
Qed.

Theorem rakp2_total : forall old bs, decode_rakp2 old bs <> Fault.
Proof.
  intros old bs. unfold decode_rakp2, guard. guard_len.
  destruct (get_le32_ok 4 bs ltac:(lia)) as [c Hc]. rewrite ?get_ok' by lia. cbn [bind]. rewrite Hc. cbn [bind].
  destruct (nth 1 bs 0 =? 0); [|discriminate].
  guard_len. rewrite !slice_ok by lia. cbn [bind].
  destruct (Nat.ltb_spec 40 (length bs)); [rewrite slice_from_ok by lia|]; cbn; discriminate.
Qed.

Theorem rakp1_total : forall old bs, decode_rakp1 old bs <> Fault.
Proof.
  intros old bs. unfold decode_rakp1, guard. guard_len.
  destruct (get_le32_ok 4 bs ltac:(lia)) as [c Hc]. rewrite ?get_ok' by lia. cbn [bind]. rewrite Hc. cbn [bind].
  rewrite slice_ok by lia. cbn [bind]. rewrite ?get_ok' by lia. cbn [bind].
  destruct (16 <? nth 27 bs 0); [discriminate|].
  match goal with |- context [Nat.ltb (length bs) ?n] => destruct (Nat.ltb_spec (length bs) n) end; [discriminate|].
  rewrite slice_ok by lia. cbn. discriminate.
Qed.

Lemma deserialise_alg_nofault tag d : deserialise_alg tag d <> Fault.
Proof.
  unfold deserialise_alg, guard. guard_len. rewrite ?get_ok' by lia. cbn [bind].
  destruct (negb (nth 0 d 0 =? tag)); [discriminate|]. rewrite ?get_ok' by lia. cbn [bind].
  destruct ((nth 3 d 0 =? 0) && negb (N.land (nth 4 d 0) 63 =? 0))%bool; discriminate.
Qed.

Theorem opensessionrsp_total : forall old bs, decode_opensessionrsp old bs <> Fault.
Proof.
  intros old bs. unfold decode_opensessionrsp.
  destruct (Nat.eqb_spec (length bs) 1) as [E1|N1].
  - rewrite ?get_ok' by lia. cbn [bind]. destruct (nth 0 bs 0 =? 0) eqn:Es.
    + unfold guard. rewrite E1. cbn. discriminate.
    + discriminate.
  - unfold guard at 1. destruct (Nat.ltb_spec (length bs) 7); [discriminate|].
    destruct (get_le32_ok 3 bs ltac:(lia)) as [c Hc]. rewrite ?get_ok' by lia. cbn [bind]. rewrite Hc. cbn [bind].
    destruct (nth 1 bs 0 =? 0); [|discriminate].
    unfold guard. destruct (Nat.eqb_spec (length bs) 36) as [E|NE]; [|discriminate]. cbn [negb].
    destruct (get_le32_ok 4 bs ltac:(lia)) as [c1 Hc1]. destruct (get_le32_ok 8 bs ltac:(lia)) as [c2 Hc2].
    rewrite ?get_ok' by lia. cbn [bind]. rewrite Hc1, Hc2. cbn [bind].
    rewrite slice_ok by lia. cbn [bind].
    apply nofault_bind; [apply deserialise_alg_nofault|]. intros a _.
    rewrite slice_ok by lia. cbn [bind].
    apply nofault_bind; [apply deserialise_alg_nofault|]. intros i _.
    rewrite slice_ok by lia. cbn [bind].
    apply nofault_bind; [apply deserialise_alg_nofault|]. intros cf _. discriminate.
Qed.

Theorem sessioninfo_total : forall old bs, decode_sessioninfo old bs <> Fault.
Proof.
  intros old bs. unfold decode_sessioninfo, guard. guard_len. rewrite ?get_ok' by lia. cbn [bind].
  destruct ((nth 0 bs 0 =? 0) && Nat.eqb (length bs) 3)%bool.
  - rewrite slice_from_ok by lia. discriminate.
  - guard_len. rewrite ?get_ok' by lia. cbn [bind].
    destruct (Nat.ltb_spec (length bs) 18).
    + rewrite slice_from_ok by lia. discriminate.
    + rewrite !slice_ok by lia. cbn [bind]. destruct (get_le16_ok 16 bs ltac:(lia)) as [p Hp]. rewrite Hp. cbn [bind].
      rewrite slice_from_ok by lia. discriminate.
Qed.

(* ---------- Message ---------- *)
Theorem message_total : forall old bs, decode_message old bs <> Fault.
Proof.
  intros old bs. unfold decode_message, guard. guard_len. rewrite ?get_ok' by lia. cbn [bind].
  rewrite slice_to_ok by lia. cbn [bind].
  destruct (negb _); [discriminate|]. rewrite ?get_ok' by lia. cbn [bind].
  rewrite slice_ok by lia. cbn [bind]. destruct (negb _); [discriminate|].
  set (fn := N.shiftr (nth 1 bs 0) 2).
  destruct (fn mod 2 =? 0) eqn:Ereq; cbn [negb andb].
  - (* request *)
    cbn [bind]. rewrite slice_ok by lia. cbn [bind].
    set (data := firstn (length bs - 1 - 6) (skipn 6 bs)).
    assert (Hd : length data = (length bs - 7)%nat) by (subst data; rewrite firstn_length, skipn_length; lia).
    destruct ((fn =? 44) || (fn =? 45))%bool.
    + unfold guard. destruct (Nat.ltb_spec (length data) 1); [discriminate|].
      rewrite ?get_ok' by lia. cbn [bind]. rewrite slice_ok by lia. discriminate.
    + destruct ((fn =? 46) || (fn =? 47))%bool.
      * unfold guard. destruct (Nat.ltb_spec (length data) 3); [discriminate|].
        rewrite ?get_ok' by lia. cbn [bind]. rewrite slice_ok by lia. discriminate.
      * cbn [bind]. rewrite slice_ok by lia. discriminate.
  - (* response *)
    destruct (Nat.ltb_spec (length bs) 8); [discriminate|].
    rewrite ?get_ok' by lia. cbn [bind]. rewrite slice_ok by lia. cbn [bind].
    set (data := firstn (length bs - 1 - 7) (skipn 7 bs)).
    assert (Hd : length data = (length bs - 8)%nat) by (subst data; rewrite firstn_length, skipn_length; lia).
    destruct ((fn =? 44) || (fn =? 45))%bool.
    + unfold guard. destruct (Nat.ltb_spec (length data) 1); [discriminate|].
      rewrite ?get_ok' by lia. cbn [bind]. rewrite slice_ok by lia. discriminate.
    + destruct ((fn =? 46) || (fn =? 47))%bool.
      * unfold guard. destruct (Nat.ltb_spec (length data) 3); [discriminate|].
        rewrite ?get_ok' by lia. cbn [bind]. rewrite slice_ok by lia. discriminate.
      * cbn [bind]. rewrite slice_ok by lia. discriminate.
Qed.
