(* Metrics.v — the Prometheus instrumentation of the connections as state
   threaded through the same control flow (connection.go, session.go,
   v2sessionless.go, v2session.go, v2session_new.go, bmc.go,
   sessionless_transport.go), and the conservation laws of C18. *)
From BMC Require Import Base BaseFacts Prim Layers Layers2 Serialize Packet Conn ConnProofs.
From Coq Require Import ZifyN ZifyNat ZifyBool.

Record metrics := {
  mt_attempts : list N;        (* one entry (the command's name, as a number) per commandAttempts.Inc() *)
  mt_failures : list N;        (* per commandFailures.Inc() *)
  mt_retries : nat;            (* commandRetries *)
  mt_responses : list N;       (* one entry (the completion code) per commandResponses.Inc() *)
  mt_durations : nat;          (* observations of commandDuration *)
  mt_sess_attempts : nat; mt_sess_failures : nat; mt_sessions_open : Z;
  mt_conn_attempts : nat; mt_conn_failures : nat; mt_conns_open : Z }.

Definition m0 := {| mt_attempts := []; mt_failures := []; mt_retries := 0; mt_responses := []; mt_durations := 0;
                    mt_sess_attempts := 0; mt_sess_failures := 0; mt_sessions_open := 0%Z;
                    mt_conn_attempts := 0; mt_conn_failures := 0; mt_conns_open := 0%Z |}.

Definition upd_retries (m : metrics) (k : nat) := {| mt_attempts := mt_attempts m; mt_failures := mt_failures m;
  mt_retries := (mt_retries m + k)%nat; mt_responses := mt_responses m; mt_durations := mt_durations m;
  mt_sess_attempts := mt_sess_attempts m; mt_sess_failures := mt_sess_failures m; mt_sessions_open := mt_sessions_open m;
  mt_conn_attempts := mt_conn_attempts m; mt_conn_failures := mt_conn_failures m; mt_conns_open := mt_conns_open m |}.
Definition upd_response (m : metrics) (c : N) := {| mt_attempts := mt_attempts m; mt_failures := mt_failures m;
  mt_retries := mt_retries m; mt_responses := mt_responses m ++ [c]; mt_durations := mt_durations m;
  mt_sess_attempts := mt_sess_attempts m; mt_sess_failures := mt_sess_failures m; mt_sessions_open := mt_sessions_open m;
  mt_conn_attempts := mt_conn_attempts m; mt_conn_failures := mt_conn_failures m; mt_conns_open := mt_conns_open m |}.

(* ---- the retry closures with their counters (first attempt flag, Inc() positions as in the Go code) ---- *)
Fixpoint sessionless_metered (o : operation) (script : list (option bytes)) (first : bool) (m : metrics) : metrics * nat :=
  match script with
  | [] => (m, 0%nat)
  | r :: rest =>
      let m1 := if first then m else upd_retries m 1 in
      match r with
      | None => let '(m2, n) := sessionless_metered o rest false m1 in (m2, S n)
      | Some bs =>
          match sessionless_verdict o bs with
          | VFinal x => (upd_response m1 (m_code x), 1%nat)
          | VTemporary c => let '(m2, n) := sessionless_metered o rest false (upd_response m1 c) in (m2, S n)
          | VRetry => let '(m2, n) := sessionless_metered o rest false m1 in (m2, S n)
          | VFault => (m1, 1%nat)
          end
      end
  end.

(* conservation for one command: retries grow by (attempts - 1), responses by exactly the counted codes of the loop *)
Theorem sessionless_metered_law pkt o : forall script first m,
  let '(m', n) := sessionless_metered o script first m in
  n = attempts o script /\
  n = length (lr_sent (sessionless_loop pkt o script [] [])) /\
  mt_retries m' = (mt_retries m + (n - (if first then 1 else 0)))%nat /\
  (exists codes, mt_responses m' = mt_responses m ++ codes /\
                 forall acc sent, lr_codes (sessionless_loop pkt o script sent acc) = acc ++ codes) /\
  mt_attempts m' = mt_attempts m /\ mt_failures m' = mt_failures m /\ mt_durations m' = mt_durations m.
Proof.
  induction script as [|r rest IH]; intros first m.
  - cbn. repeat split; try lia. exists []. split; [rewrite app_nil_r; reflexivity|]. intros. rewrite app_nil_r. reflexivity.
  - cbn [sessionless_metered].
    set (m1 := if first then m else upd_retries m 1).
    assert (R1 : mt_retries m1 = (mt_retries m + (if first then 0 else 1))%nat) by (subst m1; destruct first; cbn; lia).
    assert (P1 : mt_responses m1 = mt_responses m /\ mt_attempts m1 = mt_attempts m /\ mt_failures m1 = mt_failures m /\ mt_durations m1 = mt_durations m)
      by (subst m1; destruct first; cbn; auto).
    destruct P1 as [P1 [P2 [P3 P4]]].
    assert (Rec : forall m2, mt_retries m2 = mt_retries m1 -> mt_attempts m2 = mt_attempts m -> mt_failures m2 = mt_failures m ->
                  mt_durations m2 = mt_durations m -> forall pre, mt_responses m2 = mt_responses m ++ pre ->
                  decides o r = false ->
                  (forall acc sent, lr_codes (sessionless_loop pkt o (r :: rest) sent acc) =
                                    lr_codes (sessionless_loop pkt o rest (sent ++ [pkt]) (acc ++ pre))) ->
                  let '(m', n) := (let '(m2', n) := sessionless_metered o rest false m2 in (m2', S n)) in
                  n = attempts o (r :: rest) /\ n = length (lr_sent (sessionless_loop pkt o (r :: rest) [] [])) /\
                  mt_retries m' = (mt_retries m + (n - (if first then 1 else 0)))%nat /\
                  (exists codes, mt_responses m' = mt_responses m ++ codes /\
                                 forall acc sent, lr_codes (sessionless_loop pkt o (r :: rest) sent acc) = acc ++ codes) /\
                  mt_attempts m' = mt_attempts m /\ mt_failures m' = mt_failures m /\ mt_durations m' = mt_durations m).
    { intros m2 E1 E2 E3 E4 pre E5 Hd Hc. specialize (IH false m2).
      destruct (sessionless_metered o rest false m2) as [m2' n]. destruct IH as [I1 [I2 [I3 [[codes [I4 I5]] [I6 [I7 I8]]]]]].
      cbn [attempts]. rewrite Hd. rewrite (sessionless_loop_resends pkt o (r :: rest) [] []). cbn [attempts]. rewrite Hd.
      cbn [app]. rewrite repeat_length. rewrite <- I1. repeat split; try congruence; try lia.
      - rewrite I3, E1, R1. destruct first; lia.
      - exists (pre ++ codes). split; [rewrite I4, E5, app_assoc; reflexivity|].
        intros acc sent. rewrite Hc, I5, app_assoc. reflexivity. }
    destruct r as [bs|].
    + destruct (sessionless_verdict o bs) eqn:V.
      * cbn [attempts decides]. rewrite V. rewrite (sessionless_loop_resends pkt o (Some bs :: rest) [] []). cbn [attempts decides]. rewrite V.
        cbn. repeat split; auto; try lia.
        -- rewrite R1. destruct first; lia.
        -- exists [m_code m2]. split; [rewrite P1; reflexivity|]. intros. cbn [sessionless_loop]. rewrite V. reflexivity.
      * apply (Rec (upd_response m1 code) eq_refl P2 P3 P4 [code]).
        -- cbn. rewrite P1. reflexivity.
        -- cbn. rewrite V. reflexivity.
        -- intros. cbn [sessionless_loop]. rewrite V. reflexivity.
      * apply (Rec m1 eq_refl P2 P3 P4 []); [rewrite app_nil_r; exact P1|cbn; rewrite V; reflexivity|].
        intros. cbn [sessionless_loop]. rewrite V, app_nil_r. reflexivity.
      * cbn [attempts decides]. rewrite V. rewrite (sessionless_loop_resends pkt o (Some bs :: rest) [] []). cbn [attempts decides]. rewrite V.
        cbn. repeat split; auto; try lia.
        -- rewrite R1. destruct first; lia.
        -- exists []. split; [rewrite app_nil_r; exact P1|]. intros. cbn [sessionless_loop]. rewrite V, app_nil_r. reflexivity.
    + apply (Rec m1 eq_refl P2 P3 P4 []); [rewrite app_nil_r; exact P1|reflexivity|].
      intros. cbn [sessionless_loop]. rewrite app_nil_r. reflexivity.
Qed.

(* ---- SendCommand: attempts, duration, failures around the loop ---- *)
Definition send_command_metrics (name : N) (failed : bool) (m : metrics) : metrics :=
  {| mt_attempts := mt_attempts m ++ [name]; mt_failures := if failed then mt_failures m ++ [name] else mt_failures m;
     mt_retries := mt_retries m; mt_responses := mt_responses m; mt_durations := S (mt_durations m);
     mt_sess_attempts := mt_sess_attempts m; mt_sess_failures := mt_sess_failures m; mt_sessions_open := mt_sessions_open m;
     mt_conn_attempts := mt_conn_attempts m; mt_conn_failures := mt_conn_failures m; mt_conns_open := mt_conns_open m |}.

(* ---- a history of API calls, each with what happened inside it ---- *)
Inductive event :=
| ECommand (name : N) (transmissions : nat) (codes : list N) (failed : bool)   (* one SendCommand call *)
| ESessionOpen (ok : bool)            (* NewV2Session *)
| ESessionClose                       (* closeSession: the gauge is decremented whether or not the command succeeds *)
| EDial (ok : bool)                   (* DialV2 *)
| EConnClose.                         (* V2SessionlessTransport.Close: decremented whether or not Close succeeds *)

Definition apply_event (m : metrics) (e : event) : metrics :=
  match e with
  | ECommand name tx codes failed =>
      let m1 := send_command_metrics name failed m in
      {| mt_attempts := mt_attempts m1; mt_failures := mt_failures m1; mt_retries := (mt_retries m1 + (tx - 1))%nat;
         mt_responses := mt_responses m1 ++ codes; mt_durations := mt_durations m1;
         mt_sess_attempts := mt_sess_attempts m1; mt_sess_failures := mt_sess_failures m1; mt_sessions_open := mt_sessions_open m1;
         mt_conn_attempts := mt_conn_attempts m1; mt_conn_failures := mt_conn_failures m1; mt_conns_open := mt_conns_open m1 |}
  | ESessionOpen ok =>
      {| mt_attempts := mt_attempts m; mt_failures := mt_failures m; mt_retries := mt_retries m; mt_responses := mt_responses m;
         mt_durations := mt_durations m; mt_sess_attempts := S (mt_sess_attempts m);
         mt_sess_failures := if ok then mt_sess_failures m else S (mt_sess_failures m);
         mt_sessions_open := if ok then (mt_sessions_open m + 1)%Z else mt_sessions_open m;
         mt_conn_attempts := mt_conn_attempts m; mt_conn_failures := mt_conn_failures m; mt_conns_open := mt_conns_open m |}
  | ESessionClose =>
      {| mt_attempts := mt_attempts m; mt_failures := mt_failures m; mt_retries := mt_retries m; mt_responses := mt_responses m;
         mt_durations := mt_durations m; mt_sess_attempts := mt_sess_attempts m; mt_sess_failures := mt_sess_failures m;
         mt_sessions_open := (mt_sessions_open m - 1)%Z;
         mt_conn_attempts := mt_conn_attempts m; mt_conn_failures := mt_conn_failures m; mt_conns_open := mt_conns_open m |}
  | EDial ok =>
      {| mt_attempts := mt_attempts m; mt_failures := mt_failures m; mt_retries := mt_retries m; mt_responses := mt_responses m;
         mt_durations := mt_durations m; mt_sess_attempts := mt_sess_attempts m; mt_sess_failures := mt_sess_failures m;
         mt_sessions_open := mt_sessions_open m; mt_conn_attempts := S (mt_conn_attempts m);
         mt_conn_failures := if ok then mt_conn_failures m else S (mt_conn_failures m);
         mt_conns_open := if ok then (mt_conns_open m + 1)%Z else mt_conns_open m |}
  | EConnClose =>
      {| mt_attempts := mt_attempts m; mt_failures := mt_failures m; mt_retries := mt_retries m; mt_responses := mt_responses m;
         mt_durations := mt_durations m; mt_sess_attempts := mt_sess_attempts m; mt_sess_failures := mt_sess_failures m;
         mt_sessions_open := mt_sessions_open m; mt_conn_attempts := mt_conn_attempts m; mt_conn_failures := mt_conn_failures m;
         mt_conns_open := (mt_conns_open m - 1)%Z |}
  end.

Definition run_history (h : list event) : metrics := fold_left apply_event h m0.

(* what the history says happened *)
Definition cmd_names (h : list event) : list N := flat_map (fun e => match e with ECommand n _ _ _ => [n] | _ => [] end) h.
Definition cmd_failed (h : list event) : list N := flat_map (fun e => match e with ECommand n _ _ true => [n] | _ => [] end) h.
Definition cmd_retries (h : list event) : nat := fold_right (fun e a => match e with ECommand _ tx _ _ => (tx - 1 + a)%nat | _ => a end) 0%nat h.
Definition cmd_codes (h : list event) : list N := flat_map (fun e => match e with ECommand _ _ cs _ => cs | _ => [] end) h.
Definition count (P : event -> bool) (h : list event) : nat := length (filter P h).
Definition is_open_ok e := match e with ESessionOpen true => true | _ => false end.
Definition is_open e := match e with ESessionOpen _ => true | _ => false end.
Definition is_open_fail e := match e with ESessionOpen false => true | _ => false end.
Definition is_close e := match e with ESessionClose => true | _ => false end.
Definition is_dial e := match e with EDial _ => true | _ => false end.
Definition is_dial_ok e := match e with EDial true => true | _ => false end.
Definition is_dial_fail e := match e with EDial false => true | _ => false end.
Definition is_connclose e := match e with EConnClose => true | _ => false end.

Lemma fold_apply_app h : forall m e, fold_left apply_event (h ++ [e]) m = apply_event (fold_left apply_event h m) e.
Proof. intros. rewrite fold_left_app. reflexivity. Qed.

Lemma cmd_retries_app a b : cmd_retries (a ++ b) = (cmd_retries a + cmd_retries b)%nat.
Proof.
  unfold cmd_retries. induction a as [|x xs IH]; cbn [app fold_right]; [reflexivity|].
  rewrite IH. destruct x; lia.
Qed.

Theorem conservation : forall h,
  let m := run_history h in
  mt_attempts m = cmd_names h /\ mt_failures m = cmd_failed h /\ mt_retries m = cmd_retries h /\
  mt_responses m = cmd_codes h /\ mt_durations m = length (cmd_names h) /\
  mt_sess_attempts m = count is_open h /\ mt_sess_failures m = count is_open_fail h /\
  mt_sessions_open m = (Z.of_nat (count is_open_ok h) - Z.of_nat (count is_close h))%Z /\
  mt_conn_attempts m = count is_dial h /\ mt_conn_failures m = count is_dial_fail h /\
  mt_conns_open m = (Z.of_nat (count is_dial_ok h) - Z.of_nat (count is_connclose h))%Z.
Proof.
  intros h. unfold run_history. induction h as [|e h IH] using rev_ind.
  - cbn. repeat split; reflexivity.
  - cbn zeta in *. rewrite fold_apply_app. set (m := fold_left apply_event h m0) in *.
    destruct IH as [A [F [R [C [D [SA [SF [SO [CA [CF CO]]]]]]]]]].
    unfold cmd_names, cmd_failed, cmd_codes, count in *. rewrite !flat_map_app, !filter_app, !app_length.
    rewrite cmd_retries_app.
    destruct e as [name tx codes failed|ok| |ok|]; cbn -[Z.of_nat Z.sub Z.add]; rewrite ?app_nil_r, ?Nat.add_0_r;
      try (destruct failed); try (destruct ok); cbn -[Z.of_nat Z.sub Z.add];
      rewrite ?A, ?F, ?R, ?C, ?D, ?SA, ?SF, ?SO, ?CA, ?CF, ?CO, ?app_nil_r, ?app_length; cbn -[Z.of_nat Z.sub Z.add];
      repeat split; try reflexivity; try lia.
Qed.

(* matched opens and closes leave the gauges where they started *)
Corollary gauges_do_not_drift : forall h,
  count is_open_ok h = count is_close h -> count is_dial_ok h = count is_connclose h ->
  mt_sessions_open (run_history h) = 0%Z /\ mt_conns_open (run_history h) = 0%Z.
Proof.
  intros h H1 H2. pose proof (conservation h) as C. cbn zeta in C.
  destruct C as [_ [_ [_ [_ [_ [_ [_ [SO [_ [_ CO]]]]]]]]]]. rewrite SO, CO, H1, H2. lia.
Qed.
