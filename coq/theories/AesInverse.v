(* AES-128 (Aes.v): decryption inverts encryption, for all keys and blocks. *)

From Coq Require Import List NArith Lia Bool Btauto.
From BMC Require Import Aes.
Import ListNotations.
Local Open Scope N_scope.

(* ------------------------------------------------------------------ *)
(* Bytes and exhaustive sweeps                                         *)
(* ------------------------------------------------------------------ *)

Definition byte (x : N) : Prop := x < 256.

Fixpoint N_seq_from (n : nat) (s : N) : list N :=
  match n with
  | O => []
  | S k => s :: N_seq_from k (N.succ s)
  end.

Definition bytes256 : list N := N_seq_from 256 0.

Lemma N_seq_from_In : forall n s x,
  s <= x -> x < s + N.of_nat n -> In x (N_seq_from n s).
Proof.
  induction n as [|n IH]; intros s x Hl Hu.
  - cbn in Hu. lia.
  - rewrite Nat2N.inj_succ in Hu. cbn [N_seq_from].
    destruct (N.eq_dec s x) as [->|Hne].
    + left; reflexivity.
    + right. apply IH; lia.
Qed.

Lemma bytes256_In : forall x, byte x -> In x bytes256.
Proof.
  intros x Hx. unfold bytes256. apply N_seq_from_In.
  - lia.
  - unfold byte in Hx. change (N.of_nat 256) with 256. lia.
Qed.

Lemma sweep : forall f : N -> bool,
  forallb f bytes256 = true -> forall x, byte x -> f x = true.
Proof.
  intros f H x Hx. rewrite forallb_forall in H. apply H, bytes256_In, Hx.
Qed.

Lemma sweep2 : forall f : N -> N -> bool,
  forallb (fun a => forallb (f a) bytes256) bytes256 = true ->
  forall a b, byte a -> byte b -> f a b = true.
Proof.
  intros f H a b Ha Hb.
  apply (sweep (f a)); [|exact Hb].
  apply (sweep (fun a => forallb (f a) bytes256)); assumption.
Qed.

Ltac sweep1 :=
  let a := fresh "a" in let Ha := fresh "Ha" in
  intros a Ha; apply N.eqb_eq; revert a Ha;
  match goal with
  | |- forall a, byte a -> @?g a = true => apply (sweep g)
  end;
  vm_compute; reflexivity.

Ltac sweep2t :=
  let a := fresh "a" in let b := fresh "b" in
  let Ha := fresh "Ha" in let Hb := fresh "Hb" in
  intros a b Ha Hb; apply N.eqb_eq; revert a b Ha Hb;
  match goal with
  | |- forall a b, byte a -> byte b -> @?g a b = true => apply (sweep2 g)
  end;
  vm_compute; reflexivity.

(* ------------------------------------------------------------------ *)
(* Byte-level facts                                                    *)
(* ------------------------------------------------------------------ *)

Lemma inv_sub_byte_sub_byte : forall x, byte x -> inv_sub_byte (sub_byte x) = x.
Proof. sweep1. Qed.

Lemma sub_byte_inv_sub_byte : forall x, byte x -> sub_byte (inv_sub_byte x) = x.
Proof. sweep1. Qed.

Lemma sub_byte_byte : forall x, byte x -> byte (sub_byte x).
Proof.
  intros x Hx. apply N.ltb_lt. revert x Hx.
  apply (sweep (fun x => sub_byte x <? 256)). vm_compute; reflexivity.
Qed.

Lemma inv_sub_byte_byte : forall x, byte x -> byte (inv_sub_byte x).
Proof.
  intros x Hx. apply N.ltb_lt. revert x Hx.
  apply (sweep (fun x => inv_sub_byte x <? 256)). vm_compute; reflexivity.
Qed.

Lemma xtime_byte : forall x, byte x -> byte (xtime x).
Proof.
  intros x Hx. apply N.ltb_lt. revert x Hx.
  apply (sweep (fun x => xtime x <? 256)). vm_compute; reflexivity.
Qed.

Lemma lxor_byte : forall a b, byte a -> byte b -> byte (N.lxor a b).
Proof.
  intros a b Ha Hb. apply N.ltb_lt. revert a b Ha Hb.
  apply (sweep2 (fun a b => N.lxor a b <? 256)). vm_compute; reflexivity.
Qed.

Lemma byte_0 : byte 0.
Proof. reflexivity. Qed.

Lemma xor3_byte : forall a b c, byte a -> byte b -> byte c -> byte (xor3 a b c).
Proof. intros; unfold xor3; auto using lxor_byte. Qed.

Lemma xor4_byte : forall a b c d,
  byte a -> byte b -> byte c -> byte d -> byte (xor4 a b c d).
Proof. intros; unfold xor4; auto using lxor_byte. Qed.

Lemma mul2_byte : forall a, byte a -> byte (mul2 a).
Proof. intros; unfold mul2; auto using xtime_byte. Qed.

Lemma mul3_byte : forall a, byte a -> byte (mul3 a).
Proof. intros; unfold mul3; auto using xtime_byte, lxor_byte. Qed.

Create HintDb bytedb.
#[local] Hint Resolve sub_byte_byte inv_sub_byte_byte xtime_byte lxor_byte byte_0
  xor3_byte xor4_byte mul2_byte mul3_byte : bytedb.

(* GF(2)-linearity of the inverse MixColumns multipliers on bytes *)

Lemma xtime_lin : forall a b, byte a -> byte b ->
  xtime (N.lxor a b) = N.lxor (xtime a) (xtime b).
Proof. sweep2t. Qed.

Lemma mul9_lin : forall a b, byte a -> byte b ->
  mul9 (N.lxor a b) = N.lxor (mul9 a) (mul9 b).
Proof. sweep2t. Qed.

Lemma mul11_lin : forall a b, byte a -> byte b ->
  mul11 (N.lxor a b) = N.lxor (mul11 a) (mul11 b).
Proof. sweep2t. Qed.

Lemma mul13_lin : forall a b, byte a -> byte b ->
  mul13 (N.lxor a b) = N.lxor (mul13 a) (mul13 b).
Proof. sweep2t. Qed.

Lemma mul14_lin : forall a b, byte a -> byte b ->
  mul14 (N.lxor a b) = N.lxor (mul14 a) (mul14 b).
Proof. sweep2t. Qed.

Lemma lin_xor4 : forall f : N -> N,
  (forall a b, byte a -> byte b -> f (N.lxor a b) = N.lxor (f a) (f b)) ->
  forall p q r s, byte p -> byte q -> byte r -> byte s ->
  f (xor4 p q r s) = xor4 (f p) (f q) (f r) (f s).
Proof.
  intros f Hf p q r s Hp Hq Hr Hs. unfold xor4.
  rewrite Hf by auto with bytedb.
  rewrite (Hf p q), (Hf r s) by assumption. reflexivity.
Qed.

Lemma xor4_transpose : forall a0 a1 a2 a3 b0 b1 b2 b3 c0 c1 c2 c3 d0 d1 d2 d3,
  xor4 (xor4 a0 a1 a2 a3) (xor4 b0 b1 b2 b3) (xor4 c0 c1 c2 c3) (xor4 d0 d1 d2 d3)
  = xor4 (xor4 a0 b0 c0 d0) (xor4 a1 b1 c1 d1) (xor4 a2 b2 c2 d2) (xor4 a3 b3 c3 d3).
Proof.
  intros. unfold xor4. apply N.bits_inj. intro n.
  rewrite !N.lxor_spec. btauto.
Qed.

(* The 16 entries of InvMixColumns * MixColumns, each a function of one byte. *)

Lemma mc_0_0 : forall a, byte a ->
  xor4 (mul14 (mul2 a)) (mul11 a) (mul13 a) (mul9 (mul3 a)) = a.
Proof. sweep1. Qed.

Lemma mc_0_1 : forall a, byte a ->
  xor4 (mul14 (mul3 a)) (mul11 (mul2 a)) (mul13 a) (mul9 a) = 0.
Proof. sweep1. Qed.

Lemma mc_0_2 : forall a, byte a ->
  xor4 (mul14 a) (mul11 (mul3 a)) (mul13 (mul2 a)) (mul9 a) = 0.
Proof. sweep1. Qed.

Lemma mc_0_3 : forall a, byte a ->
  xor4 (mul14 a) (mul11 a) (mul13 (mul3 a)) (mul9 (mul2 a)) = 0.
Proof. sweep1. Qed.

Lemma mc_1_0 : forall a, byte a ->
  xor4 (mul9 (mul2 a)) (mul14 a) (mul11 a) (mul13 (mul3 a)) = 0.
Proof. sweep1. Qed.

Lemma mc_1_1 : forall a, byte a ->
  xor4 (mul9 (mul3 a)) (mul14 (mul2 a)) (mul11 a) (mul13 a) = a.
Proof. sweep1. Qed.

Lemma mc_1_2 : forall a, byte a ->
  xor4 (mul9 a) (mul14 (mul3 a)) (mul11 (mul2 a)) (mul13 a) = 0.
Proof. sweep1. Qed.

Lemma mc_1_3 : forall a, byte a ->
  xor4 (mul9 a) (mul14 a) (mul11 (mul3 a)) (mul13 (mul2 a)) = 0.
Proof. sweep1. Qed.

Lemma mc_2_0 : forall a, byte a ->
  xor4 (mul13 (mul2 a)) (mul9 a) (mul14 a) (mul11 (mul3 a)) = 0.
Proof. sweep1. Qed.

Lemma mc_2_1 : forall a, byte a ->
  xor4 (mul13 (mul3 a)) (mul9 (mul2 a)) (mul14 a) (mul11 a) = 0.
Proof. sweep1. Qed.

Lemma mc_2_2 : forall a, byte a ->
  xor4 (mul13 a) (mul9 (mul3 a)) (mul14 (mul2 a)) (mul11 a) = a.
Proof. sweep1. Qed.

Lemma mc_2_3 : forall a, byte a ->
  xor4 (mul13 a) (mul9 a) (mul14 (mul3 a)) (mul11 (mul2 a)) = 0.
Proof. sweep1. Qed.

Lemma mc_3_0 : forall a, byte a ->
  xor4 (mul11 (mul2 a)) (mul13 a) (mul9 a) (mul14 (mul3 a)) = 0.
Proof. sweep1. Qed.

Lemma mc_3_1 : forall a, byte a ->
  xor4 (mul11 (mul3 a)) (mul13 (mul2 a)) (mul9 a) (mul14 a) = 0.
Proof. sweep1. Qed.

Lemma mc_3_2 : forall a, byte a ->
  xor4 (mul11 a) (mul13 (mul3 a)) (mul9 (mul2 a)) (mul14 a) = 0.
Proof. sweep1. Qed.

Lemma mc_3_3 : forall a, byte a ->
  xor4 (mul11 a) (mul13 a) (mul9 (mul3 a)) (mul14 (mul2 a)) = a.
Proof. sweep1. Qed.

(* InvMixColumns (MixColumns column) = column, componentwise *)

Lemma col_0 : forall a0 a1 a2 a3, byte a0 -> byte a1 -> byte a2 -> byte a3 ->
  xor4 (mul14 (xor4 (mul2 a0) (mul3 a1) a2 a3))
       (mul11 (xor4 a0 (mul2 a1) (mul3 a2) a3))
       (mul13 (xor4 a0 a1 (mul2 a2) (mul3 a3)))
       (mul9 (xor4 (mul3 a0) a1 a2 (mul2 a3))) = a0.
Proof.
  intros a0 a1 a2 a3 H0 H1 H2 H3.
  rewrite
    (lin_xor4 mul14 mul14_lin),
    (lin_xor4 mul11 mul11_lin),
    (lin_xor4 mul13 mul13_lin),
    (lin_xor4 mul9 mul9_lin)
    by auto with bytedb.
  rewrite xor4_transpose.
  rewrite mc_0_0, mc_0_1, mc_0_2, mc_0_3 by assumption.
  unfold xor4. rewrite ?N.lxor_0_r, ?N.lxor_0_l. reflexivity.
Qed.

Lemma col_1 : forall a0 a1 a2 a3, byte a0 -> byte a1 -> byte a2 -> byte a3 ->
  xor4 (mul9 (xor4 (mul2 a0) (mul3 a1) a2 a3))
       (mul14 (xor4 a0 (mul2 a1) (mul3 a2) a3))
       (mul11 (xor4 a0 a1 (mul2 a2) (mul3 a3)))
       (mul13 (xor4 (mul3 a0) a1 a2 (mul2 a3))) = a1.
Proof.
  intros a0 a1 a2 a3 H0 H1 H2 H3.
  rewrite
    (lin_xor4 mul9 mul9_lin),
    (lin_xor4 mul14 mul14_lin),
    (lin_xor4 mul11 mul11_lin),
    (lin_xor4 mul13 mul13_lin)
    by auto with bytedb.
  rewrite xor4_transpose.
  rewrite mc_1_0, mc_1_1, mc_1_2, mc_1_3 by assumption.
  unfold xor4. rewrite ?N.lxor_0_r, ?N.lxor_0_l. reflexivity.
Qed.

Lemma col_2 : forall a0 a1 a2 a3, byte a0 -> byte a1 -> byte a2 -> byte a3 ->
  xor4 (mul13 (xor4 (mul2 a0) (mul3 a1) a2 a3))
       (mul9 (xor4 a0 (mul2 a1) (mul3 a2) a3))
       (mul14 (xor4 a0 a1 (mul2 a2) (mul3 a3)))
       (mul11 (xor4 (mul3 a0) a1 a2 (mul2 a3))) = a2.
Proof.
  intros a0 a1 a2 a3 H0 H1 H2 H3.
  rewrite
    (lin_xor4 mul13 mul13_lin),
    (lin_xor4 mul9 mul9_lin),
    (lin_xor4 mul14 mul14_lin),
    (lin_xor4 mul11 mul11_lin)
    by auto with bytedb.
  rewrite xor4_transpose.
  rewrite mc_2_0, mc_2_1, mc_2_2, mc_2_3 by assumption.
  unfold xor4. rewrite ?N.lxor_0_r, ?N.lxor_0_l. reflexivity.
Qed.

Lemma col_3 : forall a0 a1 a2 a3, byte a0 -> byte a1 -> byte a2 -> byte a3 ->
  xor4 (mul11 (xor4 (mul2 a0) (mul3 a1) a2 a3))
       (mul13 (xor4 a0 (mul2 a1) (mul3 a2) a3))
       (mul9 (xor4 a0 a1 (mul2 a2) (mul3 a3)))
       (mul14 (xor4 (mul3 a0) a1 a2 (mul2 a3))) = a3.
Proof.
  intros a0 a1 a2 a3 H0 H1 H2 H3.
  rewrite
    (lin_xor4 mul11 mul11_lin),
    (lin_xor4 mul13 mul13_lin),
    (lin_xor4 mul9 mul9_lin),
    (lin_xor4 mul14 mul14_lin)
    by auto with bytedb.
  rewrite xor4_transpose.
  rewrite mc_3_0, mc_3_1, mc_3_2, mc_3_3 by assumption.
  unfold xor4. rewrite ?N.lxor_0_r, ?N.lxor_0_l. reflexivity.
Qed.

(* ------------------------------------------------------------------ *)
(* States: 16 bytes                                                    *)
(* ------------------------------------------------------------------ *)

Definition good (st : list N) : Prop := length st = 16%nat /\ Forall byte st.

Ltac destr16 st H :=
  do 16 (destruct st as [|? st]; [cbn [length] in H; discriminate H|]);
  destruct st; [|cbn [length] in H; discriminate H].

Ltac inv_forall :=
  repeat match goal with
  | H : Forall _ (_ :: _) |- _ =>
      apply Forall_cons_iff in H; let H1 := fresh "Hb" in destruct H as [H1 H]
  end.

Lemma inv_shift_rows_shift_rows : forall st,
  length st = 16%nat -> inv_shift_rows (shift_rows st) = st.
Proof. intros st H. destr16 st H. reflexivity. Qed.

Lemma shift_rows_inv_shift_rows : forall st,
  length st = 16%nat -> shift_rows (inv_shift_rows st) = st.
Proof. intros st H. destr16 st H. reflexivity. Qed.

Lemma nth_byte : forall st j, Forall byte st -> byte (nth j st 0).
Proof.
  intros st j H. destruct (nth_in_or_default j st 0) as [Hin | ->].
  - rewrite Forall_forall in H. apply H, Hin.
  - apply byte_0.
Qed.

Lemma permute_good : forall idx st,
  length idx = 16%nat -> Forall byte st -> good (permute idx st).
Proof.
  intros idx st Hl Hf. unfold permute. split.
  - rewrite map_length. exact Hl.
  - apply Forall_forall. intros x Hx. apply in_map_iff in Hx.
    destruct Hx as [j [<- _]]. apply nth_byte, Hf.
Qed.

Lemma shift_rows_good : forall st, good st -> good (shift_rows st).
Proof. intros st [_ Hf]. apply permute_good; [reflexivity|exact Hf]. Qed.

Lemma sub_bytes_good : forall st, good st -> good (sub_bytes st).
Proof.
  intros st [Hl Hf]. unfold sub_bytes. split.
  - rewrite map_length. exact Hl.
  - apply Forall_forall. intros x Hx. apply in_map_iff in Hx.
    destruct Hx as [y [<- Hy]]. rewrite Forall_forall in Hf.
    apply sub_byte_byte, Hf, Hy.
Qed.

Lemma inv_sub_bytes_sub_bytes : forall st,
  Forall byte st -> inv_sub_bytes (sub_bytes st) = st.
Proof.
  intros st H. unfold inv_sub_bytes, sub_bytes. rewrite map_map.
  induction H as [|x l Hx Hl IH]; cbn [map].
  - reflexivity.
  - rewrite inv_sub_byte_sub_byte by exact Hx. f_equal. exact IH.
Qed.

Lemma mix_columns_good : forall st, good st -> good (mix_columns st).
Proof.
  intros st [Hl Hf]. destr16 st Hl. inv_forall.
  split; [reflexivity|].
  cbn [mix_columns]. repeat apply Forall_cons; try apply Forall_nil;
    auto with bytedb.
Qed.

Lemma inv_mix_columns_mix_columns : forall st,
  good st -> inv_mix_columns (mix_columns st) = st.
Proof.
  intros st [Hl Hf]. destr16 st Hl. inv_forall.
  cbn [mix_columns inv_mix_columns].
  rewrite !col_0, !col_1, !col_2, !col_3 by assumption. reflexivity.
Qed.

Lemma xor_bytes_length : forall a k,
  length (xor_bytes a k) = Nat.min (length a) (length k).
Proof.
  induction a as [|x a IH]; destruct k as [|y k]; cbn [xor_bytes length Nat.min];
    try reflexivity.
  f_equal. apply IH.
Qed.

Lemma xor_bytes_byte : forall a k,
  Forall byte a -> Forall byte k -> Forall byte (xor_bytes a k).
Proof.
  induction a as [|x a IH]; destruct k as [|y k]; intros Ha Hk;
    cbn [xor_bytes]; try apply Forall_nil.
  apply Forall_cons_iff in Ha. apply Forall_cons_iff in Hk.
  destruct Ha as [Hx Ha], Hk as [Hy Hk].
  apply Forall_cons; [apply lxor_byte; assumption|apply IH; assumption].
Qed.

Lemma xor_bytes_good : forall a k, good a -> good k -> good (xor_bytes a k).
Proof.
  intros a k [La Fa] [Lk Fk]. split.
  - rewrite xor_bytes_length, La, Lk. reflexivity.
  - apply xor_bytes_byte; assumption.
Qed.

(* AddRoundKey is an involution *)
Lemma xor_bytes_cancel : forall a k,
  (length a <= length k)%nat -> xor_bytes (xor_bytes a k) k = a.
Proof.
  induction a as [|x a IH]; destruct k as [|y k]; cbn [xor_bytes length];
    intros H; try reflexivity.
  - lia.
  - rewrite N.lxor_assoc, N.lxor_nilpotent, N.lxor_0_r. f_equal.
    apply IH. lia.
Qed.

Lemma norm16_id : forall l, length l = 16%nat -> norm16 l = l.
Proof.
  intros l H. unfold norm16. rewrite firstn_app, H.
  change (16 - 16)%nat with 0%nat.
  change (firstn 0 (repeat 0 16)) with (@nil N).
  rewrite app_nil_r. apply firstn_all2. rewrite H. apply le_n.
Qed.

(* ------------------------------------------------------------------ *)
(* Rounds                                                              *)
(* ------------------------------------------------------------------ *)

Lemma enc_round_good : forall st rk, good st -> good rk -> good (enc_round st rk).
Proof.
  intros st rk Hs Hk. unfold enc_round.
  apply xor_bytes_good; [|exact Hk].
  apply mix_columns_good, shift_rows_good, sub_bytes_good, Hs.
Qed.

Lemma enc_final_round_good : forall st rk,
  good st -> good rk -> good (enc_final_round st rk).
Proof.
  intros st rk Hs Hk. unfold enc_final_round.
  apply xor_bytes_good; [|exact Hk].
  apply shift_rows_good, sub_bytes_good, Hs.
Qed.

Lemma inv_sub_shift_sub_shift : forall st,
  good st -> inv_sub_bytes (inv_shift_rows (shift_rows (sub_bytes st))) = st.
Proof.
  intros st [Hl Hf].
  rewrite inv_shift_rows_shift_rows
    by (unfold sub_bytes; rewrite map_length; exact Hl).
  apply inv_sub_bytes_sub_bytes, Hf.
Qed.

(* One inverse-cipher round undoes one cipher round (in the shifted frame
   in which the straightforward inverse cipher of FIPS-197 5.3 operates). *)
Lemma dec_round_enc_round : forall st rk, good st -> good rk ->
  dec_round (shift_rows (sub_bytes (enc_round st rk))) rk
  = shift_rows (sub_bytes st).
Proof.
  intros st rk Hs Hk.
  pose proof (enc_round_good st rk Hs Hk) as He.
  unfold dec_round. rewrite inv_sub_shift_sub_shift by exact He.
  unfold enc_round.
  assert (Hm : good (mix_columns (shift_rows (sub_bytes st))))
    by (apply mix_columns_good, shift_rows_good, sub_bytes_good, Hs).
  rewrite xor_bytes_cancel
    by (destruct Hm as [-> _]; destruct Hk as [-> _]; apply le_n).
  apply inv_mix_columns_mix_columns, shift_rows_good, sub_bytes_good, Hs.
Qed.

Lemma dec_final_round_enc_first : forall b k, good b -> good k ->
  dec_final_round (shift_rows (sub_bytes (xor_bytes b k))) k = b.
Proof.
  intros b k Hb Hk. unfold dec_final_round.
  rewrite inv_sub_shift_sub_shift by (apply xor_bytes_good; assumption).
  apply xor_bytes_cancel.
  destruct Hb as [-> _]; destruct Hk as [-> _]; apply le_n.
Qed.

Lemma fold_enc_good : forall mids st,
  Forall good mids -> good st -> good (fold_left enc_round mids st).
Proof.
  induction mids as [|rk mids IH]; intros st Hm Hs; cbn [fold_left].
  - exact Hs.
  - apply Forall_cons_iff in Hm. destruct Hm as [Hk Hm].
    apply IH; [exact Hm|]. apply enc_round_good; assumption.
Qed.

Lemma fold_dec_fold_enc : forall mids st,
  Forall good mids -> good st ->
  fold_left dec_round (rev mids)
            (shift_rows (sub_bytes (fold_left enc_round mids st)))
  = shift_rows (sub_bytes st).
Proof.
  induction mids as [|rk mids IH]; intros st Hm Hs; cbn [fold_left rev].
  - reflexivity.
  - apply Forall_cons_iff in Hm. destruct Hm as [Hk Hm].
    rewrite fold_left_app. cbn [fold_left].
    rewrite IH by (try exact Hm; apply enc_round_good; assumption).
    apply dec_round_enc_round; assumption.
Qed.

(* The cipher structure, for any list of at least two good round keys *)
Lemma run_rounds_enc : forall k0 mids kl b,
  run_rounds enc_round enc_final_round (k0 :: mids ++ [kl]) b
  = enc_final_round (fold_left enc_round mids (xor_bytes b k0)) kl.
Proof.
  intros. unfold run_rounds. rewrite removelast_last, last_last. reflexivity.
Qed.

Lemma run_rounds_dec : forall k0 mids kl c,
  run_rounds dec_round dec_final_round (rev (k0 :: mids ++ [kl])) c
  = dec_final_round (fold_left dec_round (rev mids) (xor_bytes c kl)) k0.
Proof.
  intros. cbn [rev]. rewrite rev_unit. cbn [app]. unfold run_rounds.
  rewrite removelast_last, last_last. reflexivity.
Qed.

Lemma run_rounds_enc_good : forall k0 mids kl b,
  good k0 -> Forall good mids -> good kl -> good b ->
  good (run_rounds enc_round enc_final_round (k0 :: mids ++ [kl]) b).
Proof.
  intros k0 mids kl b H0 Hm Hl Hb. rewrite run_rounds_enc.
  apply enc_final_round_good; [|exact Hl].
  apply fold_enc_good; [exact Hm|]. apply xor_bytes_good; assumption.
Qed.

Theorem run_rounds_dec_enc : forall k0 mids kl b,
  good k0 -> Forall good mids -> good kl -> good b ->
  run_rounds dec_round dec_final_round (rev (k0 :: mids ++ [kl]))
    (run_rounds enc_round enc_final_round (k0 :: mids ++ [kl]) b) = b.
Proof.
  intros k0 mids kl b H0 Hm Hl Hb.
  rewrite run_rounds_dec, run_rounds_enc.
  assert (Hs0 : good (xor_bytes b k0)) by (apply xor_bytes_good; assumption).
  pose proof (fold_enc_good mids _ Hm Hs0) as Hs9.
  unfold enc_final_round at 1.
  rewrite xor_bytes_cancel.
  - rewrite fold_dec_fold_enc by assumption.
    apply dec_final_round_enc_first; assumption.
  - destruct (shift_rows_good _ (sub_bytes_good _ Hs9)) as [-> _].
    destruct Hl as [-> _]. apply le_n.
Qed.

(* ------------------------------------------------------------------ *)
(* Key schedule                                                        *)
(* ------------------------------------------------------------------ *)

Lemma next_round_key_good : forall k rc,
  good k -> byte rc -> good (next_round_key k rc).
Proof.
  intros k rc [Hl Hf] Hrc. destr16 k Hl. inv_forall.
  unfold next_round_key. cbn [firstn skipn xor_bytes app].
  split; [reflexivity|].
  repeat apply Forall_cons; try apply Forall_nil; auto 10 with bytedb.
Qed.

Lemma key_schedule_shape : forall rcs rc k,
  Forall byte (rc :: rcs) -> good k ->
  exists mids kl,
    key_schedule k (rc :: rcs) = k :: mids ++ [kl] /\
    Forall good mids /\ good kl.
Proof.
  induction rcs as [|rc' rcs IH]; intros rc k HF Hk;
    apply Forall_cons_iff in HF; destruct HF as [Hrc HF].
  - exists [], (next_round_key k rc). split; [reflexivity|].
    split; [apply Forall_nil|]. apply next_round_key_good; assumption.
  - destruct (IH rc' (next_round_key k rc) HF
                 (next_round_key_good k rc Hk Hrc))
      as (mids & kl & E & Hm & Hl).
    exists (next_round_key k rc :: mids), kl.
    change (key_schedule k (rc :: rc' :: rcs))
      with (k :: key_schedule (next_round_key k rc) (rc' :: rcs)).
    rewrite E. split; [reflexivity|]. split; [|exact Hl].
    apply Forall_cons; [|exact Hm]. apply next_round_key_good; assumption.
Qed.

Lemma rcon_bytes : Forall byte rcon.
Proof. unfold rcon. repeat apply Forall_cons; try apply Forall_nil; reflexivity. Qed.

Lemma key_schedule_rcon_shape : forall key, good key ->
  exists mids kl,
    key_schedule key rcon = key :: mids ++ [kl] /\
    Forall good mids /\ good kl.
Proof.
  intros key Hk. unfold rcon at 1. apply key_schedule_shape; [|exact Hk].
  exact rcon_bytes.
Qed.

(* ------------------------------------------------------------------ *)
(* Main theorems                                                       *)
(* ------------------------------------------------------------------ *)

Theorem aes128_encrypt_block_good : forall key b,
  good key -> good b -> good (aes128_encrypt_block key b).
Proof.
  intros key b Hk Hb.
  destruct (key_schedule_rcon_shape key Hk) as (mids & kl & E & Hm & Hl).
  unfold aes128_encrypt_block. rewrite E.
  pose proof (run_rounds_enc_good key mids kl b Hk Hm Hl Hb) as Hg.
  rewrite norm16_id by apply Hg. exact Hg.
Qed.

Theorem aes128_encrypt_block_bytes : forall key b,
  length key = 16%nat -> length b = 16%nat ->
  Forall (fun x => x < 256) key -> Forall (fun x => x < 256) b ->
  Forall (fun x => x < 256) (aes128_encrypt_block key b).
Proof.
  intros key b Lk Lb Fk Fb.
  apply (aes128_encrypt_block_good key b); split; assumption.
Qed.

Theorem aes128_decrypt_encrypt : forall key b,
  length key = 16%nat -> length b = 16%nat ->
  Forall (fun x => x < 256) key -> Forall (fun x => x < 256) b ->
  aes128_decrypt_block key (aes128_encrypt_block key b) = b.
Proof.
  intros key b Lk Lb Fk Fb.
  assert (Hk : good key) by (split; assumption).
  assert (Hb : good b) by (split; assumption).
  destruct (key_schedule_rcon_shape key Hk) as (mids & kl & E & Hm & Hl).
  unfold aes128_decrypt_block, aes128_encrypt_block. rewrite E.
  pose proof (run_rounds_enc_good key mids kl b Hk Hm Hl Hb) as Hg.
  rewrite (norm16_id (run_rounds enc_round enc_final_round _ b)) by apply Hg.
  rewrite run_rounds_dec_enc by assumption.
  apply norm16_id, Lb.
Qed.

Print Assumptions aes128_decrypt_encrypt.
