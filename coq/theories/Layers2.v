(* Layers2.v — the RMCP+ session wrapper, the AES-128-CBC confidentiality
   layer (over an abstract block cipher) and the DCMI response layers. *)
From BMC Require Import Base Prim Layers.

(* ===================== V2Session (pkg/ipmi/v2session.go) ===================== *)
Record v2session := { v2_ptype : N; v2_enterprise : N; v2_pid : N; v2_encrypted : bool; v2_authenticated : bool;
  v2_id : N; v2_sequence : N; v2_length : N; v2_pad : N; v2_signature : bytes; v2_payload : bytes }.
Definition v2session_zero := {| v2_ptype := 0; v2_enterprise := 0; v2_pid := 0; v2_encrypted := false;
  v2_authenticated := false; v2_id := 0; v2_sequence := 0; v2_length := 0; v2_pad := 0; v2_signature := []; v2_payload := [] |}.

Fixpoint leading_ff (bs : bytes) : nat :=
  match bs with b :: r => if b =? 0xff then S (leading_ff r) else O | [] => O end.

(* [sign]: executeHash(s.IntegrityAlgorithm, ·); a nil algorithm is [fun _ => []] *)
Definition decode_v2session (sign : bytes -> bytes) (old : v2session) (bs : bytes) : res v2session :=
  let n := length bs in
  guard (Nat.ltb n 12)
  (do d0 <- get 0 bs; guard (negb (d0 =? 6))
   (do d1 <- get 1 bs;
    let enc := tbit 7 d1 in let auth := tbit 6 d1 in let pt := N.land d1 0x3f in
    do '(offset, ent, pid) <-
      (if pt =? 2 then guard (Nat.ltb n 18) (do e <- get_le32 2 bs; do p <- get_le16 6 bs; Ok (8%nat, e, p))
       else Ok (2%nat, 0, 0));
    do id <- get_le32 offset bs; do sq <- get_le32 (offset + 4) bs; do len <- get_le16 (offset + 8) bs;
    let offset := (offset + 10)%nat in
    guard (Nat.ltb n (offset + N.to_nat len))
    (do payload <- slice offset (offset + N.to_nat len) bs;
     let offset := (offset + N.to_nat len)%nat in
     if negb auth then
       Ok {| v2_ptype := pt; v2_enterprise := ent; v2_pid := pid; v2_encrypted := enc; v2_authenticated := auth;
             v2_id := id; v2_sequence := sq; v2_length := len; v2_pad := 0; v2_signature := []; v2_payload := payload |}
     else
       do rem <- slice_from offset bs;
       let k := leading_ff rem in
       (* the scan stops on the first byte that is not 0xFF (the pad-length byte)
          or at the end of the datagram; offset-- ; offset += 2 *)
       let sigstart := if Nat.eqb k (length rem) then (n + 1)%nat else (offset + k + 2)%nat in
       guard (Nat.ltb n sigstart)
       (do sg <- slice_from sigstart bs; do signed <- slice_to sigstart bs;
        guard (negb (if list_eq_dec N.eq_dec sg (sign signed) then true else false))
        (Ok {| v2_ptype := pt; v2_enterprise := ent; v2_pid := pid; v2_encrypted := enc; v2_authenticated := auth;
               v2_id := id; v2_sequence := sq; v2_length := len;
               v2_pad := u8 (N.of_nat (if Nat.eqb k (length rem) then (n - 1 - offset) else k));
               v2_signature := sg; v2_payload := payload |}))))).
Definition show_v2session v :=
  [TN (v2_ptype v); TN (v2_enterprise v); TN (v2_pid v); TB (v2_encrypted v); TB (v2_authenticated v); TN (v2_id v);
   TN (v2_sequence v); TN (v2_length v); TN (v2_pad v); TY (v2_signature v); TY (v2_payload v)].

(* ===================== AES-128-CBC (pkg/ipmi/aes_128_cbc.go) ===================== *)
Fixpoint xor_bytes (a b : bytes) : bytes :=
  match a, b with x :: ar, y :: br => N.lxor x y :: xor_bytes ar br | _, _ => [] end.

(* CBC over an abstract 16-byte block function; fuel = number of blocks *)
Fixpoint cbc_decrypt_blocks (dec : bytes -> bytes) (prev : bytes) (ct : bytes) (fuel : nat) : bytes :=
  match fuel with
  | O => []
  | S f => let blk := firstn 16 ct in
           xor_bytes (dec blk) prev ++ cbc_decrypt_blocks dec blk (skipn 16 ct) f
  end.
Fixpoint cbc_encrypt_blocks (enc : bytes -> bytes) (prev : bytes) (pt : bytes) (fuel : nat) : bytes :=
  match fuel with
  | O => []
  | S f => let c := enc (xor_bytes (firstn 16 pt) prev) in
           c ++ cbc_encrypt_blocks enc c (skipn 16 pt) f
  end.
Definition cbc_decrypt dec iv ct := cbc_decrypt_blocks dec iv ct (Nat.div (length ct) 16).
Definition cbc_encrypt enc iv pt := cbc_encrypt_blocks enc iv pt (Nat.div (length pt) 16).

Fixpoint pad_ok (bs : bytes) (v : N) : bool :=   (* bs = v, v+1, v+2, ... *)
  match bs with [] => true | b :: r => (b =? v) && pad_ok r (v + 1) end.

Record aescbc := { ae_payload : bytes }.
Definition aescbc_zero := {| ae_payload := [] |}.
Definition decode_aescbc (dec : bytes -> bytes) (old : aescbc) (bs : bytes) : res aescbc :=
  let n := length bs in
  guard (Nat.ltb n 17 || negb (Nat.eqb (Nat.modulo n 16) 0))
  (do iv <- slice_to 16 bs; do ct <- slice_from 16 bs;
   let data := iv ++ cbc_decrypt dec iv ct in       (* decrypted in place *)
   do padb <- get (n - 1) data;
   guard (16 <? padb)
   (let padstart := (n - N.to_nat padb - 1)%nat in
    (* repaired (finding F12): the pad must lie inside the ciphertext *)
    guard (Nat.ltb padstart 16)
    (do pad <- slice padstart (padstart + N.to_nat padb) data;
     guard (negb (pad_ok pad 1))
     (do p <- slice 16 padstart data; Ok {| ae_payload := p |})))).
Definition show_aescbc v := [TY (ae_payload v)].

(* ===================== DCMI ===================== *)
(* getDCMICapabilitiesInfoRspHeader.Decode *)
Definition dcmi_header (bs : bytes) : res (N * N * N * bytes) :=
  guard (Nat.ltb (length bs) 3)
  (do a <- get 0 bs; do b <- get 1 bs; do c <- get 2 bs; do body <- slice_from 3 bs; Ok (a, b, c, body)).

Record dcmicaps := { dc_major : N; dc_minor : N; dc_rev : N; dc_temp : bool; dc_chassis : bool; dc_sel : bool;
  dc_ident : bool; dc_power : bool; dc_vlan : bool; dc_sol : bool; dc_oob1 : bool; dc_oob2 : bool; dc_serial : bool;
  dc_kcs : bool; dc_sysif : bool; dc_payload : bytes }.
Definition dcmicaps_zero := {| dc_major := 0; dc_minor := 0; dc_rev := 0; dc_temp := false; dc_chassis := false;
  dc_sel := false; dc_ident := false; dc_power := false; dc_vlan := false; dc_sol := false; dc_oob1 := false;
  dc_oob2 := false; dc_serial := false; dc_kcs := false; dc_sysif := false; dc_payload := [] |}.
Definition decode_dcmicaps (old : dcmicaps) (bs : bytes) : res dcmicaps :=
  do '(mj, mn, rv, body) <- dcmi_header bs;
  guard (Nat.ltb (length body) 3)
  (do b0 <- get 0 body; do b1 <- get 1 body; do b2 <- get 2 body; do p <- slice_from 3 body;
   let v10 := (mj =? 1) && (mn =? 0) in
   Ok {| dc_major := mj; dc_minor := mn; dc_rev := rv;
         dc_temp := if v10 then tbit 3 b0 else true; dc_chassis := if v10 then tbit 2 b0 else true;
         dc_sel := if v10 then tbit 1 b0 else true; dc_ident := if v10 then tbit 0 b0 else true;
         dc_power := tbit 0 b1;
         dc_vlan := if v10 then tbit 5 b2 else true; dc_sol := if v10 then tbit 4 b2 else true;
         dc_oob1 := if v10 then tbit 3 b2 else true; dc_oob2 := tbit 2 b2; dc_serial := tbit 1 b2;
         dc_kcs := if v10 then tbit 0 b2 else true; dc_sysif := if v10 then false else tbit 0 b2;
         dc_payload := p |}).
Definition show_dcmicaps v :=
  [TN (dc_major v); TN (dc_minor v); TN (dc_rev v); TB (dc_temp v); TB (dc_chassis v); TB (dc_sel v); TB (dc_ident v);
   TB (dc_power v); TB (dc_vlan v); TB (dc_sol v); TB (dc_oob1 v); TB (dc_oob2 v); TB (dc_serial v); TB (dc_kcs v);
   TB (dc_sysif v); TY (dc_payload v)].

Record dcmimand := { dm_major : N; dm_minor : N; dm_rev : N; dm_rollover : bool; dm_flush : bool; dm_recflush : bool;
  dm_maxentries : N; dm_asset : bool; dm_dhcp : bool; dm_guid : bool; dm_baseboard : bool; dm_proc : bool; dm_inlet : bool;
  dm_freq : Z (* ns *); dm_payload : bytes }.
Definition dcmimand_zero := {| dm_major := 0; dm_minor := 0; dm_rev := 0; dm_rollover := false; dm_flush := false;
  dm_recflush := false; dm_maxentries := 0; dm_asset := false; dm_dhcp := false; dm_guid := false; dm_baseboard := false;
  dm_proc := false; dm_inlet := false; dm_freq := 0%Z; dm_payload := [] |}.
Definition decode_dcmimand (old : dcmimand) (bs : bytes) : res dcmimand :=
  do '(mj, mn, rv, body) <- dcmi_header bs;
  guard (Nat.ltb (length body) 4)
  (let v10 := Nat.eqb (length body) 4 || ((mj =? 1) && (mn =? 0)) in
   do b0 <- get 0 body; do b1 <- get 1 body; do b2 <- get 2 body; do b3 <- get 3 body;
   do b4 <- (if v10 then Ok 0 else get 4 body);
   do p <- slice_from (if v10 then 4 else 5) body;
   Ok {| dm_major := mj; dm_minor := mn; dm_rev := rv; dm_rollover := tbit 7 b0;
         dm_flush := if v10 then false else tbit 6 b0; dm_recflush := if v10 then false else tbit 5 b0;
         dm_maxentries := le16 (N.land b0 0xf) b1;
         dm_asset := if v10 then tbit 2 b2 else true; dm_dhcp := if v10 then tbit 1 b2 else true;
         dm_guid := if v10 then tbit 0 b2 else true; dm_baseboard := if v10 then tbit 2 b3 else true;
         dm_proc := if v10 then tbit 1 b3 else true; dm_inlet := if v10 then tbit 0 b3 else true;
         dm_freq := if v10 then 0%Z else (1000000000 * Z.of_N b4)%Z; dm_payload := p |}).
Definition show_dcmimand v :=
  [TN (dm_major v); TN (dm_minor v); TN (dm_rev v); TB (dm_rollover v); TB (dm_flush v); TB (dm_recflush v);
   TN (dm_maxentries v); TB (dm_asset v); TB (dm_dhcp v); TB (dm_guid v); TB (dm_baseboard v); TB (dm_proc v);
   TB (dm_inlet v); TZ (dm_freq v); TY (dm_payload v)].

Record dcmiopt := { do_major : N; do_minor : N; do_rev : N; do_slave : N; do_channel : N; do_pmrev : N; do_payload : bytes }.
Definition dcmiopt_zero := {| do_major := 0; do_minor := 0; do_rev := 0; do_slave := 0; do_channel := 0; do_pmrev := 0; do_payload := [] |}.
Definition decode_dcmiopt (old : dcmiopt) (bs : bytes) : res dcmiopt :=
  do '(mj, mn, rv, body) <- dcmi_header bs;
  guard (Nat.ltb (length body) 2)
  (do b0 <- get 0 body; do b1 <- get 1 body; do p <- slice_from 2 body;
   Ok {| do_major := mj; do_minor := mn; do_rev := rv; do_slave := N.shiftr b0 1; do_channel := N.shiftr b1 4;
         do_pmrev := N.land b1 0xf; do_payload := p |}).
Definition show_dcmiopt v := [TN (do_major v); TN (do_minor v); TN (do_rev v); TN (do_slave v); TN (do_channel v); TN (do_pmrev v); TY (do_payload v)].

Record dcmimgmt := { dg_major : N; dg_minor : N; dg_rev : N; dg_primary : N; dg_secondary : N; dg_serial : N; dg_payload : bytes }.
Definition dcmimgmt_zero := {| dg_major := 0; dg_minor := 0; dg_rev := 0; dg_primary := 0; dg_secondary := 0; dg_serial := 0; dg_payload := [] |}.
Definition decode_dcmimgmt (old : dcmimgmt) (bs : bytes) : res dcmimgmt :=
  do '(mj, mn, rv, body) <- dcmi_header bs;
  guard (Nat.ltb (length body) 3)
  (do b0 <- get 0 body; do b1 <- get 1 body; do b2 <- get 2 body; do p <- slice_from 3 body;
   Ok {| dg_major := mj; dg_minor := mn; dg_rev := rv; dg_primary := b0; dg_secondary := b1; dg_serial := b2; dg_payload := p |}).
Definition show_dcmimgmt v := [TN (dg_major v); TN (dg_minor v); TN (dg_rev v); TN (dg_primary v); TN (dg_secondary v); TN (dg_serial v); TY (dg_payload v)].

Record dcmipower := { dp_major : N; dp_minor : N; dp_rev : N; dp_periods : list N (* seconds *); dp_payload : bytes }.
Definition dcmipower_zero := {| dp_major := 0; dp_minor := 0; dp_rev := 0; dp_periods := []; dp_payload := [] |}.
Definition decode_dcmipower (old : dcmipower) (bs : bytes) : res dcmipower :=
  do '(mj, mn, rv, body) <- dcmi_header bs;
  guard (Nat.ltb (length body) 1)
  (do cnt <- get 0 body;
   guard (Nat.ltb (length body) (1 + N.to_nat cnt))
   (do ps <- Impl.map_res (fun i => do x <- get (1 + i) body; Ok (Impl.rolling_duration x)) (seq 0 (N.to_nat cnt));
    do p <- slice_from (1 + N.to_nat cnt) body;
    Ok {| dp_major := mj; dp_minor := mn; dp_rev := rv; dp_periods := ps; dp_payload := p |})).
Definition show_dcmipower v :=
  [TN (dp_major v); TN (dp_minor v); TN (dp_rev v); TN (N.of_nat (length (dp_periods v)))]
  ++ map (fun s => TZ (1000000000 * Z.of_N s)%Z) (dp_periods v) ++ [TY (dp_payload v)].

Record powerreading := { pr_inst : N; pr_min : N; pr_max : N; pr_avg : N; pr_timestamp : N; pr_period_ms : N; pr_active : bool }.
Definition powerreading_zero := {| pr_inst := 0; pr_min := 0; pr_max := 0; pr_avg := 0; pr_timestamp := 0; pr_period_ms := 0; pr_active := false |}.
Definition decode_powerreading (old : powerreading) (bs : bytes) : res powerreading :=
  guard (Nat.ltb (length bs) 17)
  (do a <- get_le16 0 bs; do b <- get_le16 2 bs; do c <- get_le16 4 bs; do d <- get_le16 6 bs;
   do ts <- get_le32 8 bs; do pm <- get_le32 12 bs; do d16 <- get 16 bs;
   Ok {| pr_inst := a; pr_min := b; pr_max := c; pr_avg := d; pr_timestamp := ts; pr_period_ms := pm; pr_active := tbit 6 d16 |}).
Definition show_powerreading v :=
  [TN (pr_inst v); TN (pr_min v); TN (pr_max v); TN (pr_avg v); TN (pr_timestamp v);
   TZ (1000000 * Z.of_N (pr_period_ms v))%Z; TB (pr_active v)].

Record dcmisensor := { ds_instances : N; ds_ids : list N; ds_payload : bytes }.
Definition dcmisensor_zero := {| ds_instances := 0; ds_ids := []; ds_payload := [] |}.
Definition decode_dcmisensor (old : dcmisensor) (bs : bytes) : res dcmisensor :=
  guard (Nat.ltb (length bs) 2)
  (do inst <- get 0 bs; do cnt <- get 1 bs;
   let expect := (2 + N.to_nat cnt * 2)%nat in
   guard (Nat.ltb (length bs) expect)
   (do p <- slice_from expect bs;
    do ids <- Impl.map_res (fun i => get_le16 (2 + i * 2) bs) (seq 0 (N.to_nat cnt));
    Ok {| ds_instances := inst; ds_ids := ids; ds_payload := p |})).
Definition show_dcmisensor v :=
  [TN (ds_instances v); TN (N.of_nat (length (ds_ids v)))] ++ map TN (ds_ids v) ++ [TY (ds_payload v)].
