(* HandshakeProofs.v — what a successful newV2Session implies (C02, C12) and
   the cipher-suite selection rule (C12), for all inputs. *)
From BMC Require Import Base BaseFacts Prim Layers Layers2 Serialize Packet Conn Hmac Handshake.

(* ---------- determineCipherSuite ---------- *)
Definition advertised (a : list suite) (x : suite) : bool := existsb (suite_eqb x) a.

Lemma find_first {A} (f : A -> bool) l x :
  find f l = Some x -> exists pre post, l = pre ++ x :: post /\ Forall (fun y => f y = false) pre /\ f x = true.
Proof.
  induction l as [|y r IH]; simpl; [discriminate|]. destruct (f y) eqn:E.
  - intros H. injection H as <-. exists [], r. repeat split; auto.
  - intros H. destruct (IH H) as [pre [post [-> [F T]]]]. exists (y :: pre), post. repeat split; auto.
Qed.
Lemma find_none {A} (f : A -> bool) l : find f l = None -> Forall (fun y => f y = false) l.
Proof. induction l as [|y r IH]; simpl; [constructor|]. destruct (f y) eqn:E; [discriminate|]. intros H. constructor; auto. Qed.

Theorem determine_single : forall x a, determine [x] a = Chosen x false.
Proof. reflexivity. Qed.

Theorem determine_default : forall a, determine [] a = determine default_suites a.
Proof. reflexivity. Qed.

Theorem determine_first_supported : forall x y rest a s d,
  determine (x :: y :: rest) a = Chosen s d ->
  d = true /\ exists pre post, x :: y :: rest = pre ++ s :: post /\
                               Forall (fun z => advertised a z = false) pre /\ advertised a s = true.
Proof.
  intros x y rest a s d H. unfold determine in H.
  destruct (find (fun z => existsb (suite_eqb z) a) (x :: y :: rest)) as [s'|] eqn:F; [|discriminate].
  injection H as <- <-. split; [reflexivity|]. apply find_first in F. exact F.
Qed.

Theorem determine_none : forall x y rest a,
  determine (x :: y :: rest) a = NoSupportedSuite <-> Forall (fun z => advertised a z = false) (x :: y :: rest).
Proof.
  intros x y rest a. unfold determine. split.
  - destruct (find _ _) eqn:F; [discriminate|]. intros _. apply find_none in F. exact F.
  - intros H. destruct (find (fun z => existsb (suite_eqb z) a) (x :: y :: rest)) as [s|] eqn:F; [|reflexivity].
    apply find_first in F. destruct F as [pre [post [E [_ T]]]].
    rewrite Forall_forall in H. assert (In s (x :: y :: rest)) by (rewrite E; apply in_or_app; right; left; reflexivity).
    specialize (H s H0). unfold advertised in H. congruence.
Qed.

(* ---------- what a successful handshake implies ---------- *)
Lemma exchange_done ptype payload script which sent p :
  exchange ptype payload script which = (sent, inl p) ->
  exists bs, In (Some bs) script /\ payload_verdict bs = PAccept p.
Proof.
  unfold exchange. destruct payload as [pl| |]; try (intros H; discriminate H).
  destruct (payload_packet ptype pl) as [pkt| |]; try (intros H; discriminate H).
  assert (G : forall script n m o, payload_loop pkt script n = (m, o) ->
              match o with PDone r => exists bs, In (Some bs) script /\ payload_verdict bs = PAccept r | _ => True end).
  { induction script0 as [|r rest IH]; intros n m o H; cbn [payload_loop] in H.
    - injection H as <- <-. exact I.
    - destruct r as [bs|].
      + destruct (payload_verdict bs) eqn:V.
        * injection H as <- <-. exists bs. split; [left; reflexivity|exact V].
        * specialize (IH _ _ _ H). destruct o; auto. destruct IH as [b [Hin Vb]]. exists b. split; [right; exact Hin|exact Vb].
        * injection H as <- <-. exact I.
      + specialize (IH _ _ _ H). destruct o; auto. destruct IH as [b [Hin Vb]]. exists b. split; [right; exact Hin|exact Vb]. }
  destruct (payload_loop pkt script 0) as [n o] eqn:L. specialize (G _ _ _ _ L).
  destruct o; intros H; try discriminate H. injection H as <- <-. exact G.
Qed.

Lemma bytes_eqb_true a b : bytes_eqb a b = true -> a = b.
Proof. unfold bytes_eqb. destruct (list_eq_dec N.eq_dec a b); [auto|discriminate]. Qed.

Lemma suite_eqb_true a b : suite_eqb a b = true -> su_auth a = su_auth b /\ su_integ a = su_integ b /\ su_conf a = su_conf b.
Proof.
  unfold suite_eqb. intros H. apply andb_true_iff in H. destruct H as [H H3]. apply andb_true_iff in H. destruct H as [H1 H2].
  apply N.eqb_eq in H1, H2, H3. auto.
Qed.

Definition icv_of (h : N) (icvlen : nat) (sik : bytes) (m1 : rakp1) (m2 : rakp2) : bytes :=
  let full := hmac_alg h sik (icv_input m1 m2) in if Nat.eqb icvlen 0 then full else firstn icvlen full.

(* everything a returned session implies about what was received *)
Theorem new_session_ok_inv : forall o s random sc1 sc2 sc3 sent e,
  new_session o s random sc1 sc2 sc3 = (sent, inl e) ->
  exists rsp m2 m4 h icvlen b1 p1 b2 p2 b3 p3,
    (In (Some b1) sc1 /\ payload_verdict b1 = PAccept p1 /\ decode_opensessionrsp opensessionrsp_zero p1 = Ok rsp) /\
    (In (Some b2) sc2 /\ payload_verdict b2 = PAccept p2 /\ decode_rakp2 rakp2_zero p2 = Ok m2) /\
    (In (Some b3) sc3 /\ payload_verdict b3 = PAccept p3 /\ decode_rakp4 rakp4_zero p3 = Ok m4) /\
    (os_tag rsp = 0 /\ os_status rsp = 0) /\
    (ap_alg (os_auth rsp) = su_auth s /\ ap_alg (os_integ rsp) = su_integ s /\ ap_alg (os_conf rsp) = su_conf s) /\
    (r2_tag m2 = 0 /\ r2_status m2 = 0) /\ (r4_tag m4 = 0 /\ r4_status m4 = 0) /\
    auth_params (su_auth s) = Some (h, icvlen) /\
    r2_authcode m2 = hmac_alg h (so_password o) (rakp2_authcode_input (rakp1_request o rsp random) m2) /\
    es_sik e = hmac_alg h (if Nat.eqb (length (so_kg o)) 0 then so_password o else so_kg o)
                          (sik_input (rakp1_request o rsp random) m2) /\
    r4_icv m4 = icv_of h icvlen (es_sik e) (rakp1_request o rsp random) m2 /\
    (es_k1 e = hmac_alg h (es_sik e) (k_const 1) /\ es_k2 e = hmac_alg h (es_sik e) (k_const 2)) /\
    (es_local_id e = os_console_id rsp /\ es_remote_id e = os_bmc_id rsp) /\
    (es_suite e = s /\ su_conf s = 1 /\ su_integ s <> 0).
Proof.
  intros o s random sc1 sc2 sc3 sent e H. unfold new_session in H.
  destruct (exchange 16 (ser_opensessionreq (open_request o s) []) sc1 1) as [sent1 r1] eqn:X1.
  destruct r1 as [p1|e1]; [|discriminate].
  destruct (decode_opensessionrsp opensessionrsp_zero p1) as [rsp| |] eqn:D1; try discriminate.
  destruct (negb (os_tag rsp =? 0)) eqn:T1; [discriminate|].
  destruct (negb (os_status rsp =? 0)) eqn:S1; [discriminate|].
  destruct (negb (suite_eqb _ s)) eqn:A1; [discriminate|].
  destruct (exchange 18 (ser_rakp1 (rakp1_request o rsp random) []) sc2 2) as [sent2 r2] eqn:X2.
  destruct r2 as [p2|e2]; [|discriminate].
  destruct (decode_rakp2 rakp2_zero p2) as [m2| |] eqn:D2; try discriminate.
  destruct (negb (r2_tag m2 =? 0)) eqn:T2; [discriminate|].
  destruct (negb (r2_status m2 =? 0)) eqn:S2; [discriminate|].
  destruct (auth_params (ap_alg (os_auth rsp))) as [[h icvlen]|] eqn:AP; [|discriminate].
  destruct (negb (bytes_eqb (r2_authcode m2) _)) eqn:C2; [discriminate|].
  match type of H with context [exchange 20 ?pl sc3 3] => destruct (exchange 20 pl sc3 3) as [sent3 r3] eqn:X3 end.
  destruct r3 as [p3|e3]; [|discriminate].
  destruct (decode_rakp4 rakp4_zero p3) as [m4| |] eqn:D4; try discriminate.
  destruct (negb (r4_tag m4 =? 0)) eqn:T4; [discriminate|].
  destruct (negb (r4_status m4 =? 0)) eqn:S4; [discriminate|].
  destruct (negb (bytes_eqb (r4_icv m4) _)) eqn:C4; [discriminate|].
  destruct (integrity_sign (ap_alg (os_integ rsp)) _) eqn:IS; [|discriminate].
  destruct (ap_alg (os_integ rsp) =? 0) eqn:I0; [discriminate|].
  destruct (negb (ap_alg (os_conf rsp) =? 1)) eqn:CF; [discriminate|].
  injection H as <- <-.
  apply negb_false_iff in T1, S1, A1, T2, S2, C2, T4, S4, C4, CF.
  apply N.eqb_eq in T1, S1, T2, S2, T4, S4, CF. apply N.eqb_neq in I0.
  apply suite_eqb_true in A1. cbn [su_auth su_integ su_conf] in A1. destruct A1 as [A1 [A2 A3]].
  apply bytes_eqb_true in C2, C4.
  destruct (exchange_done _ _ _ _ _ _ X1) as [b1 [In1 V1]].
  destruct (exchange_done _ _ _ _ _ _ X2) as [b2 [In2 V2]].
  destruct (exchange_done _ _ _ _ _ _ X3) as [b3 [In3 V3]].
  exists rsp, m2, m4, h, icvlen, b1, p1, b2, p2, b3, p3. cbn [es_sik es_k1 es_k2 es_local_id es_remote_id es_suite].
  rewrite <- A1. repeat split; auto; try congruence.
Qed.

(* a session is only ever returned for an implemented suite: authentication 1..3, integrity 1, 2 or 4, AES-CBC-128 *)
Theorem new_session_implemented : forall o s random sc1 sc2 sc3 sent e,
  new_session o s random sc1 sc2 sc3 = (sent, inl e) ->
  In (su_auth s) [1; 2; 3] /\ In (su_integ s) [1; 2; 4] /\ su_conf s = 1.
Proof.
  intros o s random sc1 sc2 sc3 sent e H. unfold new_session in H.
  destruct (exchange 16 (ser_opensessionreq (open_request o s) []) sc1 1) as [sent1 r1] eqn:X1.
  destruct r1 as [p1|e1]; [|discriminate].
  destruct (decode_opensessionrsp opensessionrsp_zero p1) as [rsp| |] eqn:D1; try discriminate.
  destruct (negb (os_tag rsp =? 0)) eqn:T1; [discriminate|].
  destruct (negb (os_status rsp =? 0)) eqn:S1; [discriminate|].
  destruct (negb (suite_eqb _ s)) eqn:A1; [discriminate|].
  destruct (exchange 18 (ser_rakp1 (rakp1_request o rsp random) []) sc2 2) as [sent2 r2] eqn:X2.
  destruct r2 as [p2|e2]; [|discriminate].
  destruct (decode_rakp2 rakp2_zero p2) as [m2| |] eqn:D2; try discriminate.
  destruct (negb (r2_tag m2 =? 0)) eqn:T2; [discriminate|].
  destruct (negb (r2_status m2 =? 0)) eqn:S2; [discriminate|].
  destruct (auth_params (ap_alg (os_auth rsp))) as [[h icvlen]|] eqn:AP; [|discriminate].
  destruct (negb (bytes_eqb (r2_authcode m2) _)) eqn:C2; [discriminate|].
  match type of H with context [exchange 20 ?pl sc3 3] => destruct (exchange 20 pl sc3 3) as [sent3 r3] eqn:X3 end.
  destruct r3 as [p3|e3]; [|discriminate].
  destruct (decode_rakp4 rakp4_zero p3) as [m4| |] eqn:D4; try discriminate.
  destruct (negb (r4_tag m4 =? 0)) eqn:T4; [discriminate|].
  destruct (negb (r4_status m4 =? 0)) eqn:S4; [discriminate|].
  destruct (negb (bytes_eqb (r4_icv m4) _)) eqn:C4; [discriminate|].
  destruct (integrity_sign (ap_alg (os_integ rsp)) _) eqn:IS; [|discriminate].
  destruct (ap_alg (os_integ rsp) =? 0) eqn:I0; [discriminate|].
  destruct (negb (ap_alg (os_conf rsp) =? 1)) eqn:CF; [discriminate|].
  apply negb_false_iff in A1, CF. apply N.eqb_eq in CF. apply N.eqb_neq in I0.
  apply suite_eqb_true in A1. cbn [su_auth su_integ su_conf] in A1. destruct A1 as [A1 [A2 A3]].
  rewrite A1 in AP. rewrite A2 in IS, I0. rewrite A3 in CF. clear - AP IS I0 CF.
  split; [|split; [|exact CF]].
  - unfold auth_params in AP. cbn [In].
    destruct (su_auth s) as [|[[|[]|]|[|[]|]|]]; try discriminate; auto.
  - unfold integrity_sign, integrity_params in IS. cbn [In].
    destruct (su_integ s) as [|[[|[]|]|[[|[]|]|[|[]|]|]|]]; try discriminate; try congruence; auto.
Qed.

(* the algorithm number of an Open Session Response payload is the low SIX bits of its byte: bits 7:6 are reserved and
   ignored, bit 5 is part of the number (an answer of "number + 32" is another algorithm, not the proposed one) *)
Theorem alg_number_is_six_bits : forall tag d0 d1 d2 d3 d4 d5 d6 d7 a,
  d4 < 256 ->
  deserialise_alg tag [d0; d1; d2; d3; d4; d5; d6; d7] = Ok a -> ap_alg a = d4 mod 64 /\ ap_alg a < 64.
Proof.
  intros tag d0 d1 d2 d3 d4 d5 d6 d7 a H D. unfold deserialise_alg, guard in D.
  cbn [length Nat.ltb Nat.leb get nth_error bind] in D.
  destruct (negb (d0 =? tag)); [discriminate|].
  destruct ((d3 =? 0) && negb (N.land d4 63 =? 0)); [discriminate|].
  injection D as <-. cbn [ap_alg]. change 63 with (N.ones 6). rewrite N.land_ones. change (2 ^ 6) with 64.
  split; [reflexivity|]. apply N.mod_lt. lia.
Qed.
Corollary alg_reserved_bits_ignored : forall tag d0 d1 d2 d3 d4 d5 d6 d7 hi,
  d4 < 64 -> hi < 4 ->
  deserialise_alg tag [d0; d1; d2; d3; d4 + 64 * hi; d5; d6; d7] = deserialise_alg tag [d0; d1; d2; d3; d4; d5; d6; d7].
Proof.
  intros tag d0 d1 d2 d3 d4 d5 d6 d7 hi H Hh. unfold deserialise_alg, guard.
  cbn [length Nat.ltb Nat.leb get nth_error bind].
  assert (E : N.land (d4 + 64 * hi) 63 = N.land d4 63).
  { change 63 with (N.ones 6). rewrite !N.land_ones. change (2 ^ 6) with 64.
    replace (d4 + 64 * hi) with (d4 + hi * 64) by lia. rewrite N.mod_add by lia. reflexivity. }
  rewrite E. reflexivity.
Qed.
