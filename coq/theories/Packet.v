(* Packet.v — composition of the layers as the connections do it:
   gopacket.SerializeLayers (innermost layer first) for sending and the
   DecodingLayerContainer loop for receiving.
   Mirrors v2sessionless.go (buildAndSendCommand / buildAndSendPayload),
   v2session.go (buildAndSend) and gopacket's LayersDecoder. *)
From BMC Require Import Base Prim Layers Layers2 Serialize.

Record operation := { op_fn : N; op_body : N; op_ent : N; op_cmd : N }.

Definition rmcp_out : rmcp := {| rm_version := 6; rm_sequence := 0xff; rm_ack := false; rm_class := 7; rm_payload := [] |}.
Definition nil_sign : bytes -> bytes := fun _ => [].

Definition request_message (o : operation) (lun : N) : message :=
  {| m_function := op_fn o; m_body := op_body o; m_enterprise := op_ent o; m_command := op_cmd o;
     m_remote_addr := 0x20; m_remote_lun := lun; m_checksum1 := 0; m_local_addr := 0x81; m_local_lun := 0;
     m_sequence := 1; m_code := 0; m_checksum2 := 0; m_payload := [] |}.

(* V2Sessionless.buildAndSendCommand: RMCP | null session wrapper | message | request *)
Definition sessionless_command_packet (o : operation) (lun : N) (body : bytes) : res bytes :=
  do '(_, b1) <- ser_message (request_message o lun) body;
  do '(_, b2) <- ser_v2session nil_sign
        {| v2_ptype := 0; v2_enterprise := 0; v2_pid := 0; v2_encrypted := false; v2_authenticated := false;
           v2_id := 0; v2_sequence := 0; v2_length := 0; v2_pad := 0; v2_signature := []; v2_payload := [] |} b1;
  ser_rmcp rmcp_out b2.

(* V2Sessionless.buildAndSendPayload: RMCP | null session wrapper with the payload's descriptor | payload *)
Definition payload_packet (ptype : N) (payload : bytes) : res bytes :=
  do '(_, b2) <- ser_v2session nil_sign
        {| v2_ptype := ptype; v2_enterprise := 0; v2_pid := 0; v2_encrypted := false; v2_authenticated := false;
           v2_id := 0; v2_sequence := 0; v2_length := 0; v2_pad := 0; v2_signature := []; v2_payload := [] |} payload;
  ser_rmcp rmcp_out b2.

(* what a session needs to build and check packets *)
Record session := { s_local_id : N; s_remote_id : N; s_sign : bytes -> bytes;
                    s_enc : bytes -> bytes; s_dec : bytes -> bytes }.

(* V2Session.buildAndSend, one attempt: RMCP | wrapper(enc, auth, RemoteID, seq) | AES(iv) | message | request *)
Definition session_command_packet (s : session) (seq : N) (iv : bytes) (o : operation) (lun : N) (body : bytes)
  : res bytes :=
  do '(_, b1) <- ser_message (request_message o lun) body;
  do b2 <- ser_aescbc (s_enc s) iv b1;
  do '(_, b3) <- ser_v2session (s_sign s)
        {| v2_ptype := 0; v2_enterprise := 0; v2_pid := 0; v2_encrypted := true; v2_authenticated := true;
           v2_id := s_remote_id s; v2_sequence := seq; v2_length := 0; v2_pad := 0; v2_signature := []; v2_payload := [] |} b2;
  ser_rmcp rmcp_out b3.

(* ---------- receiving: the LayersDecoder loop ---------- *)
Inductive innermost := InRMCP | InSelector | InV2 (w : v2session) | InMessage (w : v2session) (m : message).

(* next layer after the session wrapper: PayloadDescriptor.NextLayerType + the Encrypted special case *)
Inductive after_v2 := NextMessage | NextConf | NextOther.
Definition v2_next (w : v2session) : after_v2 :=
  if (v2_ptype w =? 0) && (v2_enterprise w =? 0) && (v2_pid w =? 0)
  then (if v2_encrypted w then NextConf else NextMessage) else NextOther.

(* [conf]: the confidentiality layer registered in the container, if any *)
Definition receive (sign : bytes -> bytes) (conf : option (bytes -> bytes)) (bs : bytes) : res innermost :=
  do r <- decode_rmcp rmcp_zero bs;
  if Nat.eqb (length (rm_payload r)) 0 then Ok InRMCP else
  if negb (rm_class r =? 7) then Ok InRMCP else
  do sel <- decode_selector selector_zero (rm_payload r);
  if negb (sel_plus sel) then Ok InSelector else
  do w <- decode_v2session sign v2session_zero (sel_payload sel);
  if Nat.eqb (length (v2_payload w)) 0 then Ok (InV2 w) else
  match v2_next w with
  | NextOther => Ok (InV2 w)
  | NextMessage => do m <- decode_message message_zero (v2_payload w); Ok (InMessage w m)
  | NextConf =>
      match conf with
      | None => Ok (InV2 w)
      | Some dec =>
          do a <- decode_aescbc dec aescbc_zero (v2_payload w);
          if Nat.eqb (length (ae_payload a)) 0 then Ok (InV2 w)    (* innermost is the AES layer: not a message *)
          else do m <- decode_message message_zero (ae_payload a); Ok (InMessage w m)
      end
  end.

(* validateResponseOperation *)
Definition response_matches (o : operation) (m : message) : bool :=
  (m_function m =? u8 (op_fn o + 1)) && (m_command m =? op_cmd o) && (m_body m =? op_body o) && (m_enterprise m =? op_ent o).

Definition is_temporary (code : N) : bool := (code =? 0xc0) || (code =? 0xc3).

(* classification of one received datagram by a command's retry closure *)
Inductive verdict := VFinal (m : message) | VTemporary (code : N) | VRetry | VFault.

Definition sessionless_verdict (o : operation) (bs : bytes) : verdict :=
  match receive nil_sign None bs with
  | Ok (InMessage _ m) =>
      if response_matches o m then (if is_temporary (m_code m) then VTemporary (m_code m) else VFinal m) else VRetry
  | Ok _ => VRetry
  | Err => VRetry
  | Fault => VFault
  end.

Definition session_verdict (s : session) (o : operation) (bs : bytes) : verdict :=
  match receive (s_sign s) (Some (s_dec s)) bs with
  | Ok (InMessage w m) =>
      if negb (v2_id w =? s_local_id s) then VRetry
      else if negb (v2_authenticated w) then VRetry
      else if response_matches o m then (if is_temporary (m_code m) then VTemporary (m_code m) else VFinal m) else VRetry
  | Ok (InV2 w) => VRetry
  | Ok _ => VRetry
  | Err => VRetry
  | Fault => VFault
  end.

(* a payload exchange accepts a datagram whose innermost decoded layer is the session wrapper *)
Inductive pverdict := PAccept (payload : bytes) | PRetry | PFault.
Definition payload_verdict (bs : bytes) : pverdict :=
  match receive nil_sign None bs with
  | Ok (InV2 w) => PAccept (v2_payload w)
  | Ok _ => PRetry
  | Err => PRetry
  | Fault => PFault
  end.
