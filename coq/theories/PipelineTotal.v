(* PipelineTotal.v — C05 (pipeline level): no received datagram can make the
   receive path, the retry loops, the session handshake or the cipher-suite
   record parser index or slice out of range. *)
From BMC Require Import Base BaseFacts Prim Layers Layers2 Serialize Packet Conn Hmac Handshake Proc
                        LayerTotal LayerTotal2.
From Coq Require Import ZifyN ZifyNat ZifyBool.
Ltac Zify.zify_post_hook ::= Z.div_mod_to_equations.
Local Open Scope N_scope.

(* ---------- receive: the LayersDecoder loop ---------- *)
(* the confidentiality layer, when registered, is built on a 16-byte block function *)
Definition conf_ok (conf : option (bytes -> bytes)) : Prop :=
  match conf with None => True | Some dec => forall b, length (dec b) = 16%nat end.

Theorem receive_total : forall sign conf bs, conf_ok conf -> receive sign conf bs <> Fault.
Proof.
  intros sign conf bs Hc. unfold receive.
  apply nofault_bind; [apply rmcp_total|]. intros r _.
  destruct (Nat.eqb (length (rm_payload r)) 0); [discriminate|].
  destruct (negb (rm_class r =? 7)); [discriminate|].
  apply nofault_bind; [apply selector_total|]. intros sel _.
  destruct (negb (sel_plus sel)); [discriminate|].
  apply nofault_bind; [apply v2session_total|]. intros w _.
  destruct (Nat.eqb (length (v2_payload w)) 0); [discriminate|].
  destruct (v2_next w).
  - apply nofault_bind; [apply message_total|]. intros m _. discriminate.
  - destruct conf as [dec|]; [|discriminate]. cbn [conf_ok] in Hc.
    apply nofault_bind; [apply aescbc_total; exact Hc|]. intros a _.
    destruct (Nat.eqb (length (ae_payload a)) 0); [discriminate|].
    apply nofault_bind; [apply message_total|]. intros m _. discriminate.
  - discriminate.
Qed.

Theorem sessionless_verdict_total : forall o bs, sessionless_verdict o bs <> VFault.
Proof.
  intros o bs. unfold sessionless_verdict.
  destruct (receive nil_sign None bs) as [i| |] eqn:E.
  - destruct i; try discriminate.
    destruct (response_matches o m); [|discriminate]. destruct (is_temporary (m_code m)); discriminate.
  - discriminate.
  - exfalso. exact (receive_total nil_sign None bs I E).
Qed.

Theorem payload_verdict_total : forall bs, payload_verdict bs <> PFault.
Proof.
  intros bs. unfold payload_verdict.
  destruct (receive nil_sign None bs) as [i| |] eqn:E.
  - destruct i; discriminate.
  - discriminate.
  - exfalso. exact (receive_total nil_sign None bs I E).
Qed.

Theorem session_verdict_total : forall s o bs,
  (forall b, length (s_dec s b) = 16%nat) -> session_verdict s o bs <> VFault.
Proof.
  intros s o bs Hd. unfold session_verdict.
  destruct (receive (s_sign s) (Some (s_dec s)) bs) as [i| |] eqn:E.
  - destruct i; try discriminate.
    destruct (negb (v2_id w =? s_local_id s)); [discriminate|].
    destruct (negb (v2_authenticated w)); [discriminate|].
    destruct (response_matches o m); [|discriminate]. destruct (is_temporary (m_code m)); discriminate.
  - discriminate.
  - exfalso. exact (receive_total (s_sign s) (Some (s_dec s)) bs Hd E).
Qed.

(* the statements in the form "Section over sign and dec" *)
Section OverDec.
Variable sign : bytes -> bytes.
Variable dec : bytes -> bytes.
Hypothesis dec_len : forall b, length (dec b) = 16%nat.

Theorem receive_none_total : forall bs, receive sign None bs <> Fault.
Proof. intros bs. apply receive_total. exact I. Qed.
Theorem receive_some_total : forall bs, receive sign (Some dec) bs <> Fault.
Proof. intros bs. apply receive_total. exact dec_len. Qed.
End OverDec.

(* ---------- the retry loops ---------- *)
Theorem sessionless_loop_no_fault : forall pkt o script sent codes,
  lr_outcome (sessionless_loop pkt o script sent codes) <> OFault.
Proof.
  intros pkt o script. induction script as [|r rest IH]; intros sent codes; cbn [sessionless_loop].
  - cbn [lr_outcome]. discriminate.
  - destruct r as [bs|]; [|apply IH].
    destruct (sessionless_verdict o bs) eqn:V.
    + cbn [lr_outcome]. discriminate.
    + apply IH.
    + apply IH.
    + exfalso. exact (sessionless_verdict_total o bs V).
Qed.

Theorem session_loop_no_fault : forall s o lun body script seq ivs sent codes,
  (forall b, length (s_dec s b) = 16%nat) ->
  lr_outcome (session_loop s o lun body seq ivs script sent codes) <> OFault.
Proof.
  intros s o lun body script. induction script as [|r rest IH]; intros seq ivs sent codes Hd; cbn [session_loop].
  - cbn [lr_outcome]. discriminate.
  - destruct (session_command_packet s (u32 (seq + 1)) (hd (zeros 16) ivs) o lun body) as [pkt| |];
      [|cbn [lr_outcome]; discriminate..].
    destruct r as [bs|]; [|cbn [lr_outcome]; discriminate].
    destruct (session_verdict s o bs) eqn:V.
    + cbn [lr_outcome]. discriminate.
    + apply IH. exact Hd.
    + apply IH. exact Hd.
    + exfalso. exact (session_verdict_total s o bs Hd V).
Qed.

Theorem payload_loop_no_fault : forall pkt script sent,
  snd (payload_loop pkt script sent) <> PFaulted.
Proof.
  intros pkt script. induction script as [|r rest IH]; intros sent; cbn [payload_loop].
  - cbn [snd]. discriminate.
  - destruct r as [bs|]; [|apply IH].
    destruct (payload_verdict bs) eqn:V.
    + cbn [snd]. discriminate.
    + apply IH.
    + exfalso. exact (payload_verdict_total bs V).
Qed.

(* ---------- session establishment ---------- *)
Lemma exchange_no_fault ptype payload script which :
  forall e, snd (exchange ptype payload script which) = inr e -> e <> EFault.
Proof.
  intros e. unfold exchange. destruct payload as [p| |]; [|cbn [snd]; congruence..].
  destruct (payload_packet ptype p) as [pkt| |]; [|cbn [snd]; congruence..].
  pose proof (payload_loop_no_fault pkt script 0) as NF.
  destruct (payload_loop pkt script 0) as [n po]. cbn [snd] in NF.
  destruct po; cbn [snd]; try congruence.
Qed.

Lemma inr_no_fault {A} (e : hs_error) : e <> EFault -> @inr A hs_error e <> inr EFault.
Proof. intros H E. apply H. injection E as ->. reflexivity. Qed.

Ltac ns_step :=
  match goal with
  | |- snd (_, inr ?e) <> inr EFault => cbn [snd]; first [discriminate | assumption]
  | |- snd (_, inl _) <> inr EFault => cbn [snd]; discriminate
  | |- snd (if ?c then _ else _) <> inr EFault => destruct c
  end.

Theorem new_session_no_fault : forall o s random sc1 sc2 sc3,
  snd (new_session o s random sc1 sc2 sc3) <> inr EFault.
Proof.
  intros o s random sc1 sc2 sc3. unfold new_session.
  match goal with |- context [exchange ?a ?b ?c ?d] =>
    pose proof (exchange_no_fault a b c d) as X1; destruct (exchange a b c d) as [sent1 r1] end.
  cbn [snd] in X1. destruct r1 as [p1|e1]; [|cbn [snd]; apply inr_no_fault; exact (X1 e1 eq_refl)].
  destruct (decode_opensessionrsp opensessionrsp_zero p1) as [rsp| |] eqn:D1;
    [|ns_step|exfalso; exact (opensessionrsp_total _ _ D1)].
  repeat ns_step.
  match goal with |- context [exchange ?a ?b ?c ?d] =>
    pose proof (exchange_no_fault a b c d) as X2; destruct (exchange a b c d) as [sent2 r2] end.
  cbn [snd] in X2. destruct r2 as [p2|e2]; [|cbn [snd]; apply inr_no_fault; exact (X2 e2 eq_refl)].
  destruct (decode_rakp2 rakp2_zero p2) as [m2| |] eqn:D2;
    [|ns_step|exfalso; exact (rakp2_total _ _ D2)].
  repeat ns_step.
  destruct (auth_params (ap_alg (os_auth rsp))) as [[h icvlen]|]; [|ns_step].
  repeat ns_step.
  match goal with |- context [exchange ?a ?b ?c ?d] =>
    pose proof (exchange_no_fault a b c d) as X3; destruct (exchange a b c d) as [sent3 r3] end.
  cbn [snd] in X3. destruct r3 as [p3|e3]; [|cbn [snd]; apply inr_no_fault; exact (X3 e3 eq_refl)].
  destruct (decode_rakp4 rakp4_zero p3) as [m4| |] eqn:D3;
    [|ns_step|exfalso; exact (rakp4_total _ _ D3)].
  repeat ns_step.
Qed.

(* ---------- cipher-suite record parsing ---------- *)
Lemma take_tagged_length tag bs : (length (snd (take_tagged tag bs)) <= length bs)%nat.
Proof.
  induction bs as [|b r IH]; cbn [take_tagged].
  - cbn [snd length]. lia.
  - destruct (N.shiftr b 6 =? tag).
    + destruct (take_tagged tag r) as [xs rest]. cbn [snd length] in *. lia.
    + cbn [snd length]. lia.
Qed.

Lemma parse_records_fuel : forall fuel joined acc, (length joined <= fuel)%nat ->
  parse_records fuel joined acc <> RsFault /\ parse_records fuel joined acc <> RsOutOfFuel.
Proof.
  induction fuel as [|f IH]; intros joined acc Hlen.
  - destruct joined as [|b0 rest]; [cbn [parse_records]; split; discriminate|cbn [length] in Hlen; lia].
  - destruct joined as [|b0 rest]; [cbn [parse_records]; split; discriminate|].
    cbn [parse_records]. set (joined := b0 :: rest) in *.
    destruct (negb (N.shiftr b0 1 =? 96)); [split; discriminate|].
    destruct (N.land b0 1 =? 1); cbv beta iota.
    + destruct (Nat.ltb_spec (length joined) 6); [split; discriminate|].
      rewrite !get_ok' by lia.
      destruct (negb _); [split; discriminate|].
      pose proof (take_tagged_length 1 (skipn 6 joined)) as L1.
      destruct (take_tagged 1 (skipn 6 joined)) as [integs r1].
      pose proof (take_tagged_length 2 r1) as L2.
      destruct (take_tagged 2 r1) as [confs r2]. cbn [snd] in L1, L2. rewrite skipn_length in L1.
      apply IH. lia.
    + destruct (Nat.ltb_spec (length joined) 3); [split; discriminate|].
      rewrite !get_ok' by lia.
      destruct (negb _); [split; discriminate|].
      pose proof (take_tagged_length 1 (skipn 3 joined)) as L1.
      destruct (take_tagged 1 (skipn 3 joined)) as [integs r1].
      pose proof (take_tagged_length 2 r1) as L2.
      destruct (take_tagged 2 r1) as [confs r2]. cbn [snd] in L1, L2. rewrite skipn_length in L1.
      apply IH. lia.
Qed.

Theorem parse_records_total : forall joined acc,
  parse_records (length joined) joined acc <> RsFault /\
  parse_records (length joined) joined acc <> RsOutOfFuel.
Proof. intros joined acc. apply parse_records_fuel. lia. Qed.
