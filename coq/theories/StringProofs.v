(* StringProofs.v — the three ID-string decoders (BCD plus, 6-bit packed
   ASCII, 8-bit ASCII/Latin-1) invert the specification's packing functions
   for character lists of EVERY length (induction on the list, two resp. four
   characters at a time; the only finite sweeps are over single bytes), and
   answer Err when the input is shorter than the byte count they need. *)
From BMC Require Import Base BaseFacts Prim.
From Coq Require Import ZifyN ZifyNat ZifyBool.
Ltac Zify.zify_post_hook ::= Z.div_mod_to_equations.

(* ---------- generic list facts ---------- *)
Lemma map_res_ok {A B} (f : A -> res B) (g : A -> B) l :
  (forall a, In a l -> f a = Ok (g a)) -> Impl.map_res f l = Ok (map g l).
Proof.
  induction l as [|a r IH]; intros H; cbn [Impl.map_res map]; [reflexivity|].
  rewrite H by (left; reflexivity). cbn [bind].
  rewrite IH by (intros; apply H; right; assumption). reflexivity.
Qed.

Lemma map_res_seq {B} (f : nat -> res B) (g : nat -> B) a n :
  (forall i, (a <= i < a + n)%nat -> f i = Ok (g i)) ->
  Impl.map_res f (seq a n) = Ok (map g (seq a n)).
Proof. intros H. apply map_res_ok. intros i Hi. apply in_seq in Hi. apply H. exact Hi. Qed.

Lemma map_nth_seq {A B} (f : A -> B) d l :
  map (fun i => f (nth i l d)) (seq 0 (length l)) = map f l.
Proof.
  induction l as [|a r IH]; cbn [length seq map nth]; [reflexivity|].
  f_equal. rewrite <- seq_shift, map_map. exact IH.
Qed.

Lemma list_ind2 {A} (P : list A -> Prop) :
  P [] -> (forall a, P [a]) -> (forall a b r, P r -> P (a :: b :: r)) -> forall l, P l.
Proof.
  intros H0 H1 H2. fix IH 1. intros [|a [|b r]]; [apply H0|apply H1|apply H2; apply IH].
Qed.

Lemma list_ind4 {A} (P : list A -> Prop) :
  P [] -> (forall a, P [a]) -> (forall a b, P [a; b]) -> (forall a b c, P [a; b; c]) ->
  (forall a b c d r, P r -> P (a :: b :: c :: d :: r)) -> forall l, P l.
Proof.
  intros H0 H1 H2 H3 H4. fix IH 1.
  intros [|a [|b [|c [|d r]]]]; [apply H0|apply H1|apply H2|apply H3|apply H4; apply IH].
Qed.

Lemma get_cons_S k x rest : get (S k) (x :: rest) = get k rest.
Proof. reflexivity. Qed.
Lemma get_cons_0 x rest : get 0 (x :: rest) = Ok x.
Proof. reflexivity. Qed.

(* ====================== BCD plus ====================== *)
(* the per-character function of decodeBCDPlus, named *)
Definition bcd_nib (x shift : N) : res N :=
  match nth_error Impl.bcd_plus_runes (N.to_nat (N.land (N.shiftr x shift) 0xf)) with
  | Some r => Ok r | None => Fault end.
Definition bcd_char (b : bytes) (i : nat) : res N :=
  do x <- get (Nat.div i 2) b; bcd_nib x (if Nat.eqb (Nat.modulo i 2) 0 then 4 else 0).

Lemma decode_bcd_plus_eq b c :
  Impl.decode_bcd_plus b c =
  if Nat.ltb (length b) (Nat.div (c + 1) 2) then Err else
  do runes <- Impl.map_res (bcd_char b) (seq 0 c); Ok (runes, Nat.div (c + 1) 2).
Proof. reflexivity. Qed.

(* byte-level facts, by sweep over the 256 bytes *)
Definition bcd_nib_is (x shift n : N) : bool :=
  match bcd_nib x shift with Ok r => r =? Spec.bcd_plus_rune n | _ => false end.
Lemma bcd_nib_sweep :
  forallb (fun x => bcd_nib_is x 4 (x / 16) && bcd_nib_is x 0 (x mod 16)) all256 = true.
Proof. vm_cast_no_check (eq_refl true). Qed.
Lemma bcd_nib_is_eq x shift n : bcd_nib_is x shift n = true -> bcd_nib x shift = Ok (Spec.bcd_plus_rune n).
Proof.
  unfold bcd_nib_is. destruct (bcd_nib x shift); try discriminate.
  intros H. apply N.eqb_eq in H. congruence.
Qed.
Lemma bcd_nib_hi x : x < 256 -> bcd_nib x 4 = Ok (Spec.bcd_plus_rune (x / 16)).
Proof.
  intros H. pose proof (byte_sweep _ bcd_nib_sweep x H) as P. apply andb_true_iff in P.
  apply bcd_nib_is_eq. apply P.
Qed.
Lemma bcd_nib_lo x : x < 256 -> bcd_nib x 0 = Ok (Spec.bcd_plus_rune (x mod 16)).
Proof.
  intros H. pose proof (byte_sweep _ bcd_nib_sweep x H) as P. apply andb_true_iff in P.
  apply bcd_nib_is_eq. apply P.
Qed.

Lemma bcd_char_0 x rest : bcd_char (x :: rest) 0 = bcd_nib x 4.
Proof. reflexivity. Qed.
Lemma bcd_char_1 x rest : bcd_char (x :: rest) 1 = bcd_nib x 0.
Proof. reflexivity. Qed.
Lemma bcd_char_shift x rest i : bcd_char (x :: rest) (S (S i)) = bcd_char rest i.
Proof.
  unfold bcd_char.
  replace (Nat.modulo (S (S i)) 2) with (Nat.modulo i 2) by lia.
  replace (Nat.div (S (S i)) 2) with (S (Nat.div i 2)) by lia.
  rewrite get_cons_S. reflexivity.
Qed.

Lemma pack_nibbles_length ns : length (Spec.pack_nibbles ns) = Nat.div (length ns + 1) 2.
Proof.
  induction ns as [|a|a b r IH] using list_ind2; [reflexivity|reflexivity|].
  change (Spec.pack_nibbles (a :: b :: r)) with ((16 * a + b) :: Spec.pack_nibbles r).
  cbn [length]. rewrite IH. lia.
Qed.

Lemma bcd_char_pack ns : Forall (fun n => n < 16) ns -> forall tail i, (i < length ns)%nat ->
  bcd_char (Spec.pack_nibbles ns ++ tail) i = Ok (Spec.bcd_plus_rune (nth i ns 0)).
Proof.
  induction ns as [|a|a b r IH] using list_ind2; intros HF tail i Hi.
  - cbn [length] in Hi. lia.
  - pose proof (Forall_inv HF) as Ha. cbn beta in Ha.
    cbn [length] in Hi. assert (i = 0%nat) by lia. subst i.
    change (Spec.pack_nibbles [a] ++ tail) with ((16 * a) :: tail).
    rewrite bcd_char_0, bcd_nib_hi by lia. cbn [nth]. do 2 f_equal. lia.
  - pose proof (Forall_inv HF) as Ha. pose proof (Forall_inv (Forall_inv_tail HF)) as Hb.
    pose proof (Forall_inv_tail (Forall_inv_tail HF)) as Hr. cbn beta in Ha, Hb.
    change (Spec.pack_nibbles (a :: b :: r) ++ tail) with ((16 * a + b) :: (Spec.pack_nibbles r ++ tail)).
    destruct i as [|[|j]].
    + rewrite bcd_char_0, bcd_nib_hi by lia. cbn [nth]. do 2 f_equal. lia.
    + rewrite bcd_char_1, bcd_nib_lo by lia. cbn [nth]. do 2 f_equal. lia.
    + rewrite bcd_char_shift. cbn [nth]. apply IH; [exact Hr|]. cbn [length] in Hi. lia.
Qed.

Theorem bcd_plus_roundtrip : forall ns tail, Forall (fun n => n < 16) ns ->
  Impl.decode_bcd_plus (Spec.pack_nibbles ns ++ tail) (length ns)
  = Ok (map Spec.bcd_plus_rune ns, Nat.div (length ns + 1) 2).
Proof.
  intros ns tail HF. rewrite decode_bcd_plus_eq.
  rewrite app_length, pack_nibbles_length.
  destruct (Nat.ltb_spec (Nat.div (length ns + 1) 2 + length tail) (Nat.div (length ns + 1) 2)); [lia|].
  rewrite (map_res_seq _ (fun i => Spec.bcd_plus_rune (nth i ns 0))).
  - cbn [bind]. rewrite map_nth_seq. reflexivity.
  - intros i Hi. apply bcd_char_pack; [exact HF|lia].
Qed.

Theorem bcd_plus_short : forall b c, (length b < Nat.div (c + 1) 2)%nat -> Impl.decode_bcd_plus b c = Err.
Proof.
  intros b c H. rewrite decode_bcd_plus_eq.
  destruct (Nat.ltb_spec (length b) (Nat.div (c + 1) 2)); [reflexivity|lia].
Qed.

(* ====================== 6-bit packed ASCII ====================== *)
Lemma decode_packed6_eq b c :
  Impl.decode_packed6 b c =
  if Nat.ltb (length b) (c - Nat.div c 4) then Err else
  do runes <- Impl.map_res (Impl.p6_char b) (seq 0 c); Ok (runes, (c - Nat.div c 4)%nat).
Proof. reflexivity. Qed.

(* the four accumulators, at byte level *)
Definition p6_acc0 (x : N) : N := u8 (N.land x 0x3f) + 0x20.
Definition p6_acc1 (x y : N) : N := u8 (N.lor (N.shiftr x 6) (u8 (N.shiftl (N.land y 0xf) 2))) + 0x20.
Definition p6_acc2 (x y : N) : N := u8 (N.lor (N.shiftr x 4) (u8 (N.shiftl (N.land y 0x3) 4))) + 0x20.
Definition p6_acc3 (x : N) : N := u8 (N.shiftr x 2) + 0x20.

Lemma p6_char_0 x rest : Impl.p6_char (x :: rest) 0 = Ok (p6_acc0 x).
Proof. reflexivity. Qed.
Lemma p6_char_1 x y rest : Impl.p6_char (x :: y :: rest) 1 = Ok (p6_acc1 x y).
Proof. reflexivity. Qed.
Lemma p6_char_2 x y z rest : Impl.p6_char (x :: y :: z :: rest) 2 = Ok (p6_acc2 y z).
Proof. reflexivity. Qed.
Lemma p6_char_3 x y z rest : Impl.p6_char (x :: y :: z :: rest) 3 = Ok (p6_acc3 z).
Proof. reflexivity. Qed.

(* p6_offset, explicitly *)
Lemma p6_offset_4q0 q : Impl.p6_offset (4 * q) = (3 * q)%nat.
Proof. unfold Impl.p6_offset. lia. Qed.
Lemma p6_offset_4q1 q : Impl.p6_offset (4 * q + 1) = (3 * q)%nat.
Proof. unfold Impl.p6_offset. lia. Qed.
Lemma p6_offset_4q2 q : Impl.p6_offset (4 * q + 2) = (3 * q + 1)%nat.
Proof. unfold Impl.p6_offset. lia. Qed.
Lemma p6_offset_4q3 q : Impl.p6_offset (4 * q + 3) = (3 * q + 2)%nat.
Proof. unfold Impl.p6_offset. lia. Qed.
Lemma p6_offset_shift j : Impl.p6_offset (S (S (S (S j)))) = S (S (S (Impl.p6_offset j))).
Proof. unfold Impl.p6_offset. lia. Qed.

Lemma p6_char_shift x y z rest j :
  Impl.p6_char (x :: y :: z :: rest) (S (S (S (S j)))) = Impl.p6_char rest j.
Proof.
  unfold Impl.p6_char. rewrite p6_offset_shift.
  replace (Nat.modulo (S (S (S (S j)))) 4) with (Nat.modulo j 4) by lia.
  cbn [Nat.add]. rewrite !get_cons_S. reflexivity.
Qed.

(* byte-level facts: the bit operations as arithmetic (sweeps over one or two bytes) *)
Lemma p6_acc03_sweep :
  forallb (fun x => (p6_acc0 x =? x mod 64 + 32) && (p6_acc3 x =? x / 4 + 32)) all256 = true.
Proof. vm_cast_no_check (eq_refl true). Qed.
Lemma p6_acc12_sweep :
  forallb (fun x => forallb (fun y =>
     (p6_acc1 x y =? x / 64 + 4 * (y mod 16) + 32) && (p6_acc2 x y =? x / 16 + 16 * (y mod 4) + 32))
     all256) all256 = true.
Proof. vm_cast_no_check (eq_refl true). Qed.

Lemma p6_acc0_eq x : x < 256 -> p6_acc0 x = x mod 64 + 32.
Proof.
  intros H. pose proof (byte_sweep _ p6_acc03_sweep x H) as P. apply andb_true_iff in P.
  apply N.eqb_eq. apply P.
Qed.
Lemma p6_acc3_eq x : x < 256 -> p6_acc3 x = x / 4 + 32.
Proof.
  intros H. pose proof (byte_sweep _ p6_acc03_sweep x H) as P. apply andb_true_iff in P.
  apply N.eqb_eq. apply P.
Qed.
Lemma p6_acc1_eq x y : x < 256 -> y < 256 -> p6_acc1 x y = x / 64 + 4 * (y mod 16) + 32.
Proof.
  intros Hx Hy. pose proof (byte_sweep _ p6_acc12_sweep x Hx) as P. cbn beta in P.
  pose proof (byte_sweep _ P y Hy) as Q. apply andb_true_iff in Q. apply N.eqb_eq. apply Q.
Qed.
Lemma p6_acc2_eq x y : x < 256 -> y < 256 -> p6_acc2 x y = x / 16 + 16 * (y mod 4) + 32.
Proof.
  intros Hx Hy. pose proof (byte_sweep _ p6_acc12_sweep x Hx) as P. cbn beta in P.
  pose proof (byte_sweep _ P y Hy) as Q. apply andb_true_iff in Q. apply N.eqb_eq. apply Q.
Qed.

Lemma pack6_length cs : length (Spec.pack6 cs) = (length cs - Nat.div (length cs) 4)%nat.
Proof.
  induction cs as [|a|a b|a b c|a b c d r IH] using list_ind4; try reflexivity.
  change (Spec.pack6 (a :: b :: c :: d :: r))
    with ((a + 64 * (b mod 4)) :: (b / 4 + 16 * (c mod 16)) :: (c / 16 + 4 * d) :: Spec.pack6 r).
  cbn [length]. rewrite IH. lia.
Qed.

Lemma p6_char_pack cs : Forall (fun c => c < 64) cs -> forall tail i, (i < length cs)%nat ->
  Impl.p6_char (Spec.pack6 cs ++ tail) i = Ok (nth i cs 0 + 0x20).
Proof.
  induction cs as [|a|a b|a b c|a b c d r IH] using list_ind4; intros HF tail i Hi.
  - cbn [length] in Hi. lia.
  - pose proof (Forall_inv HF) as Ha. cbn beta in Ha.
    cbn [length] in Hi. assert (i = 0%nat) by lia. subst i.
    change (Spec.pack6 [a] ++ tail) with (a :: tail).
    rewrite p6_char_0, p6_acc0_eq by lia. cbn [nth]. f_equal. lia.
  - pose proof (Forall_inv HF) as Ha. pose proof (Forall_inv (Forall_inv_tail HF)) as Hb.
    cbn beta in Ha, Hb. cbn [length] in Hi.
    change (Spec.pack6 [a; b] ++ tail) with ((a + 64 * (b mod 4)) :: (b / 4) :: tail).
    destruct i as [|[|j]]; [| |lia].
    + rewrite p6_char_0, p6_acc0_eq by lia. cbn [nth]. f_equal. lia.
    + rewrite p6_char_1, p6_acc1_eq by lia. cbn [nth]. f_equal. lia.
  - pose proof (Forall_inv HF) as Ha. pose proof (Forall_inv (Forall_inv_tail HF)) as Hb.
    pose proof (Forall_inv (Forall_inv_tail (Forall_inv_tail HF))) as Hc.
    cbn beta in Ha, Hb, Hc. cbn [length] in Hi.
    change (Spec.pack6 [a; b; c] ++ tail)
      with ((a + 64 * (b mod 4)) :: (b / 4 + 16 * (c mod 16)) :: (c / 16) :: tail).
    destruct i as [|[|[|j]]]; [| | |lia].
    + rewrite p6_char_0, p6_acc0_eq by lia. cbn [nth]. f_equal. lia.
    + rewrite p6_char_1, p6_acc1_eq by lia. cbn [nth]. f_equal. lia.
    + rewrite p6_char_2, p6_acc2_eq by lia. cbn [nth]. f_equal. lia.
  - pose proof (Forall_inv HF) as Ha. pose proof (Forall_inv (Forall_inv_tail HF)) as Hb.
    pose proof (Forall_inv (Forall_inv_tail (Forall_inv_tail HF))) as Hc.
    pose proof (Forall_inv (Forall_inv_tail (Forall_inv_tail (Forall_inv_tail HF)))) as Hd.
    pose proof (Forall_inv_tail (Forall_inv_tail (Forall_inv_tail (Forall_inv_tail HF)))) as Hr.
    cbn beta in Ha, Hb, Hc, Hd. cbn [length] in Hi.
    change (Spec.pack6 (a :: b :: c :: d :: r) ++ tail)
      with ((a + 64 * (b mod 4)) :: (b / 4 + 16 * (c mod 16)) :: (c / 16 + 4 * d) :: (Spec.pack6 r ++ tail)).
    destruct i as [|[|[|[|j]]]].
    + rewrite p6_char_0, p6_acc0_eq by lia. cbn [nth]. f_equal. lia.
    + rewrite p6_char_1, p6_acc1_eq by lia. cbn [nth]. f_equal. lia.
    + rewrite p6_char_2, p6_acc2_eq by lia. cbn [nth]. f_equal. lia.
    + rewrite p6_char_3, p6_acc3_eq by lia. cbn [nth]. f_equal. lia.
    + rewrite p6_char_shift. cbn [nth]. apply IH; [exact Hr|lia].
Qed.

Theorem packed6_roundtrip : forall cs tail, Forall (fun c => c < 64) cs ->
  Impl.decode_packed6 (Spec.pack6 cs ++ tail) (length cs)
  = Ok (map (fun c => c + 0x20) cs, (length cs - Nat.div (length cs) 4)%nat).
Proof.
  intros cs tail HF. rewrite decode_packed6_eq.
  rewrite app_length, pack6_length.
  destruct (Nat.ltb_spec (length cs - Nat.div (length cs) 4 + length tail) (length cs - Nat.div (length cs) 4)); [lia|].
  rewrite (map_res_seq _ (fun i => nth i cs 0 + 0x20)).
  - cbn [bind]. rewrite (map_nth_seq (fun c => c + 0x20)). reflexivity.
  - intros i Hi. apply p6_char_pack; [exact HF|lia].
Qed.

Theorem packed6_short : forall b c, (length b < c - Nat.div c 4)%nat -> Impl.decode_packed6 b c = Err.
Proof.
  intros b c H. rewrite decode_packed6_eq.
  destruct (Nat.ltb_spec (length b) (c - Nat.div c 4)); [reflexivity|lia].
Qed.

(* ====================== 8-bit ASCII + Latin-1 ====================== *)
Theorem latin1_roundtrip : forall s tail, (length s <> 1)%nat ->
  Impl.decode_latin1 (s ++ tail) (length s) = Ok (s, length s).
Proof.
  intros s tail H1. unfold Impl.decode_latin1.
  destruct (Nat.eqb_spec (length s) 0) as [E|NE].
  - destruct s; [reflexivity|discriminate].
  - rewrite app_length.
    destruct (Nat.ltb_spec (length s + length tail) 2); [lia|].
    destruct (Nat.ltb_spec (length s + length tail) (length s)); [lia|].
    unfold slice_to. rewrite app_length.
    destruct (Nat.leb_spec (length s) (length s + length tail)); [|lia].
    cbn [bind]. rewrite firstn_app, Nat.sub_diag, firstn_all. cbn [firstn]. rewrite app_nil_r. reflexivity.
Qed.

(* the excluded length: one character is decoded exactly when something follows it *)
Theorem latin1_roundtrip_1 : forall c tail,
  Impl.decode_latin1 ([c] ++ tail) 1 = match tail with [] => Err | _ => Ok ([c], 1%nat) end.
Proof. intros c [|t tail]; reflexivity. Qed.

(* too short: fewer bytes than characters, or (quirk of the Go code) fewer than two bytes at all *)
Theorem latin1_short : forall b c, (c <> 0)%nat -> (length b < c \/ length b < 2)%nat ->
  Impl.decode_latin1 b c = Err.
Proof.
  intros b c Hc H. unfold Impl.decode_latin1.
  destruct (Nat.eqb_spec c 0); [lia|].
  destruct (Nat.ltb_spec (length b) 2); [reflexivity|].
  destruct (Nat.ltb_spec (length b) c); [reflexivity|lia].
Qed.
