(* RoundTrip2.v — response-layer round trips, batch 2: for every layer X of
   {opensessionrsp, rakp2, rakp4, dcmicaps, dcmimand, dcmiopt, dcmimgmt,
    dcmipower, powerreading, dcmisensor} and every shape the specification
   allows, decoding the specification's encoding of a record returns that
   record:  SpecEnc.X [shape] v = Some bs -> decode_X old bs = Ok v. *)
From BMC Require Import Base BaseFacts Prim PrimProofs Layers Layers2 SpecLayers LayerTotal.
From Coq Require Import ZifyN ZifyNat ZifyBool.
Ltac Zify.zify_post_hook ::= Z.div_mod_to_equations.

(* ---------- generic helpers ---------- *)
Lemma fits_lt w x : fits w x = true -> x < 2 ^ w.
Proof. unfold fits. intros H. apply N.ltb_lt in H. exact H. Qed.
Lemma fits4 x : fits 4 x = true -> x < 16.
Proof. intros H. apply fits_lt in H. exact H. Qed.
Lemma fits6 x : fits 6 x = true -> x < 64.
Proof. intros H. apply fits_lt in H. exact H. Qed.
Lemma fits7 x : fits 7 x = true -> x < 128.
Proof. intros H. apply fits_lt in H. exact H. Qed.
Lemma fits8 x : fits 8 x = true -> x < 256.
Proof. intros H. apply fits_lt in H. exact H. Qed.
Lemma fits16 x : fits 16 x = true -> x < 65536.
Proof. intros H. apply fits_lt in H. exact H. Qed.
Lemma fits32 x : fits 32 x = true -> x < 4294967296.
Proof. intros H. apply fits_lt in H. exact H. Qed.

(* split every boolean conjunction among the hypotheses *)
Ltac split_all :=
  repeat match goal with
         | H : (_ && _)%bool = true |- _ => apply andb_true_iff in H; destruct H
         end.

Lemma Some_inj {A} (a b : A) : Some a = Some b -> a = b.
Proof. congruence. Qed.

(* open an encoder: [opt c l = Some bs] gives [c = true] and [bs = l] *)
Ltac open_opt Hok :=
  unfold opt;
  match goal with
  | |- (if ?c then _ else _) = Some _ -> _ =>
      destruct c eqn:Hok; [|discriminate];
      let E := fresh "E" in intros E; apply Some_inj in E; subst
  end.

(* ===================== DCMI management controller ===================== *)
Lemma decode_dcmimgmt_cons old mj mn rv b0 b1 b2 p :
  decode_dcmimgmt old (mj :: mn :: rv :: b0 :: b1 :: b2 :: p) =
  Ok {| dg_major := mj; dg_minor := mn; dg_rev := rv; dg_primary := b0; dg_secondary := b1;
        dg_serial := b2; dg_payload := p |}.
Proof. reflexivity. Qed.

Theorem dcmimgmt_roundtrip : forall old v bs,
  SpecEnc.dcmimgmt v = Some bs -> decode_dcmimgmt old bs = Ok v.
Proof.
  intros old v bs. unfold SpecEnc.dcmimgmt. open_opt Hok.
  destruct v; reflexivity.
Qed.

Example dcmimgmt_inhabited :
  SpecEnc.dcmimgmt {| dg_major := 1; dg_minor := 5; dg_rev := 2; dg_primary := 0x20; dg_secondary := 0x22;
                      dg_serial := 0x24; dg_payload := [7; 9] |} = Some [1; 5; 2; 0x20; 0x22; 0x24; 7; 9].
Proof. vm_compute. reflexivity. Qed.

(* ===================== DCMI optional platform attributes ===================== *)
Lemma decode_dcmiopt_cons old mj mn rv b0 b1 p :
  decode_dcmiopt old (mj :: mn :: rv :: b0 :: b1 :: p) =
  Ok {| do_major := mj; do_minor := mn; do_rev := rv; do_slave := N.shiftr b0 1; do_channel := N.shiftr b1 4;
        do_pmrev := N.land b1 0xf; do_payload := p |}.
Proof. reflexivity. Qed.

Lemma shiftr1_double x : N.shiftr (2 * x) 1 = x.
Proof. rewrite N.shiftr_div_pow2. change (2 ^ 1) with 2. lia. Qed.
Lemma nibbles_hi a b : b < 16 -> N.shiftr (16 * a + b) 4 = a.
Proof. intros H. rewrite N.shiftr_div_pow2. change (2 ^ 4) with 16. lia. Qed.
Lemma nibbles_lo a b : b < 16 -> N.land (16 * a + b) 0xf = b.
Proof. intros H. change 0xf with (N.ones 4). rewrite N.land_ones. change (2 ^ 4) with 16. lia. Qed.

Theorem dcmiopt_roundtrip : forall old v bs,
  SpecEnc.dcmiopt v = Some bs -> decode_dcmiopt old bs = Ok v.
Proof.
  intros old v bs. unfold SpecEnc.dcmiopt. open_opt Hok. split_all.
  destruct v as [mj mn rv sl ch pm p]. cbn [do_major do_minor do_rev do_slave do_channel do_pmrev do_payload] in *.
  cbn [app]. rewrite decode_dcmiopt_cons.
  match goal with H : fits 4 pm = true |- _ => apply fits4 in H end.
  rewrite shiftr1_double, nibbles_hi, nibbles_lo by assumption. reflexivity.
Qed.

Example dcmiopt_inhabited :
  SpecEnc.dcmiopt {| do_major := 1; do_minor := 5; do_rev := 2; do_slave := 0x10; do_channel := 0xf; do_pmrev := 3;
                     do_payload := [1] |} = Some [1; 5; 2; 0x20; 0xf3; 1].
Proof. vm_compute. reflexivity. Qed.

(* ===================== DCMI power reading ===================== *)
Lemma decode_powerreading_cons old a0 a1 b0 b1 c0 c1 d0 d1 t0 t1 t2 t3 p0 p1 p2 p3 f :
  decode_powerreading old [a0; a1; b0; b1; c0; c1; d0; d1; t0; t1; t2; t3; p0; p1; p2; p3; f] =
  Ok {| pr_inst := le16 a0 a1; pr_min := le16 b0 b1; pr_max := le16 c0 c1; pr_avg := le16 d0 d1;
        pr_timestamp := le32 t0 t1 t2 t3; pr_period_ms := le32 p0 p1 p2 p3; pr_active := tbit 6 f |}.
Proof. reflexivity. Qed.

Lemma tbit6_64 b : tbit 6 (64 * bn b) = b.
Proof. destruct b; reflexivity. Qed.

Theorem powerreading_roundtrip : forall old v bs,
  SpecEnc.powerreading v = Some bs -> decode_powerreading old bs = Ok v.
Proof.
  intros old v bs. unfold SpecEnc.powerreading. open_opt Hok. split_all.
  destruct v as [a b c d ts pm act].
  cbn [pr_inst pr_min pr_max pr_avg pr_timestamp pr_period_ms pr_active] in *.
  unfold put_le16, put_le32. cbn [app]. rewrite decode_powerreading_cons.
  repeat match goal with
         | H : fits 16 _ = true |- _ => apply fits16 in H
         | H : fits 32 _ = true |- _ => apply fits32 in H
         end.
  rewrite !le16_put, !le32_put, tbit6_64 by assumption. reflexivity.
Qed.

Example powerreading_inhabited :
  SpecEnc.powerreading {| pr_inst := 300; pr_min := 2; pr_max := 65535; pr_avg := 257; pr_timestamp := 0x12345678;
                          pr_period_ms := 1000; pr_active := true |}
  = Some [44; 1; 2; 0; 255; 255; 1; 1; 0x78; 0x56; 0x34; 0x12; 232; 3; 0; 0; 64].
Proof. vm_compute. reflexivity. Qed.

(* ===================== DCMI capabilities: supported capabilities ===================== *)
Lemma decode_dcmicaps_cons old mj mn rv b0 b1 b2 p :
  decode_dcmicaps old (mj :: mn :: rv :: b0 :: b1 :: b2 :: p) =
  let v10 := (mj =? 1) && (mn =? 0) in
  Ok {| dc_major := mj; dc_minor := mn; dc_rev := rv;
        dc_temp := if v10 then tbit 3 b0 else true; dc_chassis := if v10 then tbit 2 b0 else true;
        dc_sel := if v10 then tbit 1 b0 else true; dc_ident := if v10 then tbit 0 b0 else true;
        dc_power := tbit 0 b1;
        dc_vlan := if v10 then tbit 5 b2 else true; dc_sol := if v10 then tbit 4 b2 else true;
        dc_oob1 := if v10 then tbit 3 b2 else true; dc_oob2 := tbit 2 b2; dc_serial := tbit 1 b2;
        dc_kcs := if v10 then tbit 0 b2 else true; dc_sysif := if v10 then false else tbit 0 b2;
        dc_payload := p |}.
Proof. reflexivity. Qed.

Lemma bits4 a b c d : let x := 8 * bn a + 4 * bn b + 2 * bn c + bn d in
  tbit 3 x = a /\ tbit 2 x = b /\ tbit 1 x = c /\ tbit 0 x = d.
Proof. destruct a, b, c, d; vm_compute; auto. Qed.
Lemma bits6 a b c d e f : let x := 32 * bn a + 16 * bn b + 8 * bn c + 4 * bn d + 2 * bn e + bn f in
  tbit 5 x = a /\ tbit 4 x = b /\ tbit 3 x = c /\ tbit 2 x = d /\ tbit 1 x = e /\ tbit 0 x = f.
Proof. destruct a, b, c, d, e, f; vm_compute; auto 10. Qed.
Lemma bits3 a b c : let x := 4 * bn a + 2 * bn b + bn c in
  tbit 2 x = a /\ tbit 1 x = b /\ tbit 0 x = c.
Proof. destruct a, b, c; vm_compute; auto. Qed.
Lemma bit0_bn a : tbit 0 (bn a) = a.
Proof. destruct a; reflexivity. Qed.

Theorem dcmicaps_roundtrip : forall old v bs,
  SpecEnc.dcmicaps v = Some bs -> decode_dcmicaps old bs = Ok v.
Proof.
  intros old v bs. unfold SpecEnc.dcmicaps, SpecEnc.v10. cbv zeta.
  destruct v as [mj mn rv te chs sel idt pw vl sol o1 o2 ser kcs sif p].
  cbn [dc_major dc_minor dc_rev dc_temp dc_chassis dc_sel dc_ident dc_power dc_vlan dc_sol dc_oob1 dc_oob2
       dc_serial dc_kcs dc_sysif dc_payload].
  destruct ((mj =? 1) && (mn =? 0)) eqn:Hold.
  - open_opt Hok. cbn [app]. rewrite decode_dcmicaps_cons. cbv zeta. rewrite Hold. split_all.
    destruct (bits4 te chs sel idt) as (-> & -> & -> & ->).
    destruct (bits6 vl sol o1 o2 ser kcs) as (-> & -> & -> & -> & -> & ->).
    rewrite bit0_bn. destruct sif; [discriminate|]. reflexivity.
  - open_opt Hok. cbn [app]. rewrite decode_dcmicaps_cons. cbv zeta. rewrite Hold. split_all.
    destruct (bits3 o2 ser sif) as (-> & -> & ->). rewrite bit0_bn. subst. reflexivity.
Qed.

Example dcmicaps_inhabited_v10 :
  SpecEnc.dcmicaps {| dc_major := 1; dc_minor := 0; dc_rev := 1; dc_temp := true; dc_chassis := false; dc_sel := true;
    dc_ident := false; dc_power := true; dc_vlan := true; dc_sol := false; dc_oob1 := false; dc_oob2 := true;
    dc_serial := false; dc_kcs := true; dc_sysif := false; dc_payload := [3] |} = Some [1; 0; 1; 10; 1; 37; 3].
Proof. vm_compute. reflexivity. Qed.
Example dcmicaps_inhabited_v15 :
  SpecEnc.dcmicaps {| dc_major := 1; dc_minor := 5; dc_rev := 2; dc_temp := true; dc_chassis := true; dc_sel := true;
    dc_ident := true; dc_power := true; dc_vlan := true; dc_sol := true; dc_oob1 := true; dc_oob2 := false;
    dc_serial := true; dc_kcs := true; dc_sysif := true; dc_payload := [] |} = Some [1; 5; 2; 0; 1; 3].
Proof. vm_compute. reflexivity. Qed.

(* ===================== DCMI capabilities: mandatory platform attributes ===================== *)
Lemma decode_dcmimand_old old mj mn rv b0 b1 b2 b3 p :
  (mj =? 1) && (mn =? 0) = true ->
  decode_dcmimand old (mj :: mn :: rv :: b0 :: b1 :: b2 :: b3 :: p) =
  Ok {| dm_major := mj; dm_minor := mn; dm_rev := rv; dm_rollover := tbit 7 b0;
        dm_flush := false; dm_recflush := false; dm_maxentries := le16 (N.land b0 0xf) b1;
        dm_asset := tbit 2 b2; dm_dhcp := tbit 1 b2; dm_guid := tbit 0 b2; dm_baseboard := tbit 2 b3;
        dm_proc := tbit 1 b3; dm_inlet := tbit 0 b3; dm_freq := 0%Z; dm_payload := p |}.
Proof.
  intros H. unfold decode_dcmimand.
  cbn [dcmi_header guard length Nat.ltb Nat.leb Nat.eqb get nth_error bind slice_from skipn].
  rewrite H, orb_true_r. reflexivity.
Qed.

Lemma decode_dcmimand_new old mj mn rv b0 b1 b2 b3 b4 p :
  (mj =? 1) && (mn =? 0) = false ->
  decode_dcmimand old (mj :: mn :: rv :: b0 :: b1 :: b2 :: b3 :: b4 :: p) =
  Ok {| dm_major := mj; dm_minor := mn; dm_rev := rv; dm_rollover := tbit 7 b0;
        dm_flush := tbit 6 b0; dm_recflush := tbit 5 b0; dm_maxentries := le16 (N.land b0 0xf) b1;
        dm_asset := true; dm_dhcp := true; dm_guid := true; dm_baseboard := true;
        dm_proc := true; dm_inlet := true; dm_freq := (1000000000 * Z.of_N b4)%Z; dm_payload := p |}.
Proof.
  intros H. unfold decode_dcmimand.
  cbn [dcmi_header guard length Nat.ltb Nat.leb Nat.eqb get nth_error bind slice_from skipn orb].
  rewrite H. reflexivity.
Qed.

Lemma mand_b0_old_sweep r :
  forallb (fun x => Bool.eqb (tbit 7 (128 * bn r + x)) r && (N.land (128 * bn r + x) 0xf =? x)) (N_seq 16) = true.
Proof. destruct r; vm_cast_no_check (eq_refl true). Qed.
Lemma mand_b0_old r x : x < 16 -> tbit 7 (128 * bn r + x) = r /\ N.land (128 * bn r + x) 0xf = x.
Proof.
  intros H. pose proof (sweep_n 16 _ (mand_b0_old_sweep r) x H) as P. cbv beta in P.
  apply andb_true_iff in P. destruct P as [P1 P2]. apply Bool.eqb_prop in P1. apply N.eqb_eq in P2. auto.
Qed.
Lemma mand_b0_new_sweep r f g :
  forallb (fun x => let y := 128 * bn r + 64 * bn f + 32 * bn g + x in
                    Bool.eqb (tbit 7 y) r && Bool.eqb (tbit 6 y) f && Bool.eqb (tbit 5 y) g && (N.land y 0xf =? x))
          (N_seq 16) = true.
Proof. destruct r, f, g; vm_cast_no_check (eq_refl true). Qed.
Lemma mand_b0_new r f g x : x < 16 -> let y := 128 * bn r + 64 * bn f + 32 * bn g + x in
  tbit 7 y = r /\ tbit 6 y = f /\ tbit 5 y = g /\ N.land y 0xf = x.
Proof.
  intros H. pose proof (sweep_n 16 _ (mand_b0_new_sweep r f g) x H) as P. cbv beta zeta in P.
  cbv zeta. repeat (apply andb_true_iff in P; let Q := fresh in destruct P as [P Q]).
  repeat match goal with H : Bool.eqb _ _ = true |- _ => apply Bool.eqb_prop in H end.
  match goal with H : (_ =? _) = true |- _ => apply N.eqb_eq in H end. auto.
Qed.

Theorem dcmimand_roundtrip : forall old v bs,
  SpecEnc.dcmimand v = Some bs -> decode_dcmimand old bs = Ok v.
Proof.
  intros old v bs. unfold SpecEnc.dcmimand, SpecEnc.v10. cbv zeta.
  destruct v as [mj mn rv ro fl rf me ast dh gu bb pc il fq p].
  cbn [dm_major dm_minor dm_rev dm_rollover dm_flush dm_recflush dm_maxentries dm_asset dm_dhcp dm_guid
       dm_baseboard dm_proc dm_inlet dm_freq dm_payload].
  destruct ((mj =? 1) && (mn =? 0)) eqn:Hold.
  - open_opt Hok. cbn [app]. rewrite (decode_dcmimand_old _ _ _ _ _ _ _ _ _ Hold). split_all.
    match goal with H : (me mod 256 <? 16) = true |- _ => apply N.ltb_lt in H; rename H into Hlo end.
    match goal with H : fits 16 me = true |- _ => apply fits16 in H end.
    destruct (mand_b0_old ro _ Hlo) as (-> & ->).
    destruct (bits3 ast dh gu) as (-> & -> & ->). destruct (bits3 bb pc il) as (-> & -> & ->).
    destruct fl; [discriminate|]. destruct rf; [discriminate|].
    match goal with H : (fq =? 0)%Z = true |- _ => apply Z.eqb_eq in H; subst fq end.
    replace (le16 (me mod 256) (me / 256)) with me by (unfold le16; lia). reflexivity.
  - open_opt Hok. cbn [app]. rewrite (decode_dcmimand_new _ _ _ _ _ _ _ _ _ _ Hold). split_all.
    match goal with H : (me mod 256 <? 16) = true |- _ => apply N.ltb_lt in H; rename H into Hlo end.
    match goal with H : fits 16 me = true |- _ => apply fits16 in H end.
    destruct (mand_b0_new ro fl rf _ Hlo) as (-> & -> & -> & ->).
    replace (le16 (me mod 256) (me / 256)) with me by (unfold le16; lia).
    replace (1000000000 * Z.of_N (Z.to_N (fq / 1000000000)))%Z with fq by lia.
    subst. reflexivity.
Qed.

Example dcmimand_inhabited_v10 :
  SpecEnc.dcmimand {| dm_major := 1; dm_minor := 0; dm_rev := 1; dm_rollover := true; dm_flush := false;
    dm_recflush := false; dm_maxentries := 0x305; dm_asset := true; dm_dhcp := false; dm_guid := true;
    dm_baseboard := false; dm_proc := true; dm_inlet := false; dm_freq := 0%Z; dm_payload := [9] |}
  = Some [1; 0; 1; 133; 3; 5; 2; 9].
Proof. vm_compute. reflexivity. Qed.
Example dcmimand_inhabited_v15 :
  SpecEnc.dcmimand {| dm_major := 1; dm_minor := 5; dm_rev := 2; dm_rollover := false; dm_flush := true;
    dm_recflush := true; dm_maxentries := 0x20f; dm_asset := true; dm_dhcp := true; dm_guid := true;
    dm_baseboard := true; dm_proc := true; dm_inlet := true; dm_freq := 5000000000%Z; dm_payload := [] |}
  = Some [1; 5; 2; 111; 2; 0; 0; 5].
Proof. vm_compute. reflexivity. Qed.

(* ===================== RAKP message 4 ===================== *)
Lemma decode_rakp4_cons old t s x2 x3 c0 c1 c2 c3 icv :
  decode_rakp4 old (t :: s :: x2 :: x3 :: c0 :: c1 :: c2 :: c3 :: icv) =
  Ok {| r4_tag := t; r4_status := s; r4_console_id := le32 c0 c1 c2 c3; r4_icv := if s =? 0 then icv else [] |}.
Proof.
  unfold decode_rakp4.
  cbn [guard length Nat.ltb Nat.leb get get_le32 Nat.add nth_error bind].
  destruct (s =? 0); destruct icv; reflexivity.
Qed.

Theorem rakp4_roundtrip_success : forall old v bs,
  SpecEnc.rakp4 0 v = Some bs -> decode_rakp4 old bs = Ok v.
Proof.
  intros old v bs. unfold SpecEnc.rakp4. cbv zeta. open_opt Hok. split_all.
  destruct v as [t s c icv]. cbn [r4_tag r4_status r4_console_id r4_icv] in *.
  unfold put_le32. cbn [app]. rewrite decode_rakp4_cons.
  match goal with H : fits 32 c = true |- _ => apply fits32 in H end.
  match goal with H : (s =? 0) = true |- _ => rewrite H end.
  rewrite le32_put by assumption. reflexivity.
Qed.

Theorem rakp4_roundtrip_error : forall old v bs,
  SpecEnc.rakp4 1 v = Some bs -> decode_rakp4 old bs = Ok v.
Proof.
  intros old v bs. unfold SpecEnc.rakp4. cbv zeta. open_opt Hok. split_all.
  destruct v as [t s c icv]. cbn [r4_tag r4_status r4_console_id r4_icv] in *.
  unfold put_le32. cbn [app]. rewrite decode_rakp4_cons.
  match goal with H : fits 32 c = true |- _ => apply fits32 in H end.
  match goal with H : negb (s =? 0) = true |- _ => apply negb_true_iff in H; rewrite H end.
  rewrite le32_put by assumption.
  destruct icv; [reflexivity|discriminate].
Qed.

(* every shape other than 0 is the error shape *)
Theorem rakp4_roundtrip : forall shape old v bs,
  SpecEnc.rakp4 shape v = Some bs -> decode_rakp4 old bs = Ok v.
Proof.
  intros [|p] old v bs H; [exact (rakp4_roundtrip_success old v bs H)|].
  apply rakp4_roundtrip_error. exact H.
Qed.

Example rakp4_inhabited_success :
  SpecEnc.rakp4 0 {| r4_tag := 7; r4_status := 0; r4_console_id := 0xa0b0c0d; r4_icv := [1; 2; 3] |}
  = Some [7; 0; 0; 0; 0xd; 0xc; 0xb; 0xa; 1; 2; 3].
Proof. vm_compute. reflexivity. Qed.
Example rakp4_inhabited_error :
  SpecEnc.rakp4 1 {| r4_tag := 7; r4_status := 2; r4_console_id := 0xa0b0c0d; r4_icv := [] |}
  = Some [7; 2; 0; 0; 0xd; 0xc; 0xb; 0xa].
Proof. vm_compute. reflexivity. Qed.

(* ===================== RAKP message 2 ===================== *)
Lemma len16_explode (l : bytes) : length l = 16%nat ->
  exists a0 a1 a2 a3 a4 a5 a6 a7 a8 a9 a10 a11 a12 a13 a14 a15,
    l = [a0; a1; a2; a3; a4; a5; a6; a7; a8; a9; a10; a11; a12; a13; a14; a15].
Proof.
  intros H.
  do 16 (destruct l as [|? l]; [discriminate H|]).
  destruct l; [|discriminate H]. repeat eexists.
Qed.

Lemma len_is_length n l : len_is n l = true -> length l = n.
Proof. unfold len_is. intros H. apply andb_true_iff in H. destruct H as [H _]. apply Nat.eqb_eq in H. exact H. Qed.

Lemma decode_rakp2_error old t s x2 x3 c0 c1 c2 c3 rest :
  (s =? 0) = false ->
  decode_rakp2 old (t :: s :: x2 :: x3 :: c0 :: c1 :: c2 :: c3 :: rest) =
  Ok {| r2_tag := t; r2_status := s; r2_console_id := le32 c0 c1 c2 c3; r2_random := zeros 16;
        r2_guid := zeros 16; r2_authcode := [] |}.
Proof.
  intros H. unfold decode_rakp2.
  cbn [guard length Nat.ltb Nat.leb get get_le32 Nat.add nth_error bind]. rewrite H. reflexivity.
Qed.

Lemma decode_rakp2_success old t x2 x3 c0 c1 c2 c3 rnd guid ac :
  length rnd = 16%nat -> length guid = 16%nat ->
  decode_rakp2 old (t :: 0 :: x2 :: x3 :: c0 :: c1 :: c2 :: c3 :: rnd ++ guid ++ ac) =
  Ok {| r2_tag := t; r2_status := 0; r2_console_id := le32 c0 c1 c2 c3; r2_random := rnd;
        r2_guid := guid; r2_authcode := ac |}.
Proof.
  intros Hr Hg.
  destruct (len16_explode _ Hr) as (r0&r1&r2&r3&r4&r5&r6&r7&r8&r9&r10&r11&r12&r13&r14&r15&->).
  destruct (len16_explode _ Hg) as (g0&g1&g2&g3&g4&g5&g6&g7&g8&g9&g10&g11&g12&g13&g14&g15&->).
  cbn [app]. destruct ac; reflexivity.
Qed.

Theorem rakp2_roundtrip_success : forall old v bs,
  SpecEnc.rakp2 0 v = Some bs -> decode_rakp2 old bs = Ok v.
Proof.
  intros old v bs. unfold SpecEnc.rakp2. cbv zeta. open_opt Hok. split_all.
  destruct v as [t s c rnd guid ac]. cbn [r2_tag r2_status r2_console_id r2_random r2_guid r2_authcode] in *.
  match goal with H : (s =? 0) = true |- _ => apply N.eqb_eq in H; subst s end.
  unfold put_le32. cbn [app].
  rewrite decode_rakp2_success by (apply len_is_length; assumption).
  match goal with H : fits 32 c = true |- _ => apply fits32 in H end.
  rewrite le32_put by assumption. reflexivity.
Qed.

Theorem rakp2_roundtrip_error : forall old v bs,
  SpecEnc.rakp2 1 v = Some bs -> decode_rakp2 old bs = Ok v.
Proof.
  intros old v bs. unfold SpecEnc.rakp2. cbv zeta. open_opt Hok. split_all.
  destruct v as [t s c rnd guid ac]. cbn [r2_tag r2_status r2_console_id r2_random r2_guid r2_authcode] in *.
  match goal with H : negb (s =? 0) = true |- _ => apply negb_true_iff in H; rename H into Hs end.
  unfold put_le32. cbn [app]. rewrite (decode_rakp2_error _ _ _ _ _ _ _ _ _ _ Hs).
  match goal with H : fits 32 c = true |- _ => apply fits32 in H end.
  rewrite le32_put by assumption.
  destruct (list_eq_dec N.eq_dec rnd (zeros 16)) as [->|]; [|discriminate].
  destruct (list_eq_dec N.eq_dec guid (zeros 16)) as [->|]; [|discriminate].
  destruct ac; [reflexivity|discriminate].
Qed.

Theorem rakp2_roundtrip : forall shape old v bs,
  SpecEnc.rakp2 shape v = Some bs -> decode_rakp2 old bs = Ok v.
Proof.
  intros [|p] old v bs H; [exact (rakp2_roundtrip_success old v bs H)|].
  apply rakp2_roundtrip_error. exact H.
Qed.

Example rakp2_inhabited_success :
  SpecEnc.rakp2 0 {| r2_tag := 7; r2_status := 0; r2_console_id := 0x01020304;
                     r2_random := [1;2;3;4;5;6;7;8;9;10;11;12;13;14;15;16];
                     r2_guid := [16;15;14;13;12;11;10;9;8;7;6;5;4;3;2;1]; r2_authcode := [0xaa; 0xbb] |}
  = Some ([7; 0; 0; 0; 4; 3; 2; 1] ++ [1;2;3;4;5;6;7;8;9;10;11;12;13;14;15;16]
          ++ [16;15;14;13;12;11;10;9;8;7;6;5;4;3;2;1] ++ [0xaa; 0xbb]).
Proof. vm_compute. reflexivity. Qed.
Example rakp2_inhabited_error :
  SpecEnc.rakp2 1 {| r2_tag := 7; r2_status := 0x12; r2_console_id := 0x01020304; r2_random := zeros 16;
                     r2_guid := zeros 16; r2_authcode := [] |}
  = Some [7; 0x12; 0; 0; 4; 3; 2; 1].
Proof. vm_compute. reflexivity. Qed.

(* ===================== RMCP+ Open Session Response ===================== *)
Lemma land63 x : x < 64 -> N.land x 0x3f = x.
Proof. intros H. change 0x3f with (N.ones 6). rewrite N.land_ones. change (2 ^ 6) with 64. lia. Qed.

Lemma deserialise_alg_enc tag a :
  fits 6 (ap_alg a) = true -> (negb (ap_wildcard a) || (ap_alg a =? 0)) = true ->
  deserialise_alg tag (SpecEnc.algpayload tag a) = Ok a.
Proof.
  destruct a as [w alg]. cbn [ap_alg ap_wildcard]. intros Hf Hw. apply fits6 in Hf.
  unfold deserialise_alg, SpecEnc.algpayload. cbn [ap_alg ap_wildcard].
  cbn [guard length Nat.ltb Nat.leb get nth_error bind]. rewrite N.eqb_refl. cbn [negb].
  rewrite land63 by assumption.
  destruct w.
  - cbn [negb orb] in Hw. rewrite Hw. reflexivity.
  - reflexivity.
Qed.

Lemma decode_opensessionrsp_success old t mp x3 c0 c1 c2 c3 b0 b1 b2 b3 a i c :
  decode_opensessionrsp old
    (t :: 0 :: mp :: x3 :: c0 :: c1 :: c2 :: c3 :: b0 :: b1 :: b2 :: b3 ::
     SpecEnc.algpayload 0 a ++ SpecEnc.algpayload 1 i ++ SpecEnc.algpayload 2 c) =
  (do a' <- deserialise_alg 0 (SpecEnc.algpayload 0 a);
   do i' <- deserialise_alg 1 (SpecEnc.algpayload 1 i);
   do c' <- deserialise_alg 2 (SpecEnc.algpayload 2 c);
   Ok {| os_tag := t; os_status := 0; os_maxpriv := mp; os_console_id := le32 c0 c1 c2 c3;
         os_bmc_id := le32 b0 b1 b2 b3; os_auth := a'; os_integ := i'; os_conf := c' |}).
Proof. reflexivity. Qed.

Theorem opensessionrsp_roundtrip_success : forall old v bs,
  SpecEnc.opensessionrsp 0 v = Some bs -> decode_opensessionrsp old bs = Ok v.
Proof.
  intros old v bs. unfold SpecEnc.opensessionrsp. cbv zeta beta. open_opt Hok. split_all.
  destruct v as [t s mp cid bid a i c].
  cbn [os_tag os_status os_maxpriv os_console_id os_bmc_id os_auth os_integ os_conf] in *.
  match goal with H : (s =? 0) = true |- _ => apply N.eqb_eq in H; subst s end.
  unfold put_le32. cbn [app]. rewrite decode_opensessionrsp_success.
  rewrite !deserialise_alg_enc by assumption. cbn [bind].
  repeat match goal with H : fits 32 _ = true |- _ => apply fits32 in H end.
  rewrite !le32_put by assumption. reflexivity.
Qed.

Lemma decode_opensessionrsp_err8 old t s x2 c0 c1 c2 c3 x7 :
  (s =? 0) = false ->
  decode_opensessionrsp old [t; s; x2; c0; c1; c2; c3; x7] =
  Ok {| os_tag := t; os_status := s; os_maxpriv := 0; os_console_id := le32 c0 c1 c2 c3; os_bmc_id := 0;
        os_auth := algpayload_zero; os_integ := algpayload_zero; os_conf := algpayload_zero |}.
Proof.
  intros H. unfold decode_opensessionrsp.
  cbn [guard length Nat.eqb Nat.ltb Nat.leb get get_le32 Nat.add nth_error bind]. rewrite H. reflexivity.
Qed.

Lemma decode_opensessionrsp_err1 old s :
  (s =? 0) = false ->
  decode_opensessionrsp old [s] =
  Ok {| os_tag := 0; os_status := s; os_maxpriv := 0; os_console_id := 0; os_bmc_id := 0;
        os_auth := algpayload_zero; os_integ := algpayload_zero; os_conf := algpayload_zero |}.
Proof.
  intros H. unfold decode_opensessionrsp.
  cbn [guard length Nat.eqb Nat.ltb Nat.leb get get_le32 Nat.add nth_error bind]. rewrite H. reflexivity.
Qed.

Lemma alg_zero a : (negb (ap_wildcard a) && (ap_alg a =? 0)) = true -> a = algpayload_zero.
Proof.
  destruct a as [w alg]. cbn [ap_wildcard ap_alg]. intros H. apply andb_true_iff in H. destruct H as [H1 H2].
  apply negb_true_iff in H1. apply N.eqb_eq in H2. subst. reflexivity.
Qed.

Theorem opensessionrsp_roundtrip_error8 : forall old v bs,
  SpecEnc.opensessionrsp 1 v = Some bs -> decode_opensessionrsp old bs = Ok v.
Proof.
  intros old v bs. unfold SpecEnc.opensessionrsp. cbv zeta beta. open_opt Hok.
  destruct v as [t s mp cid bid a i c].
  cbn [os_tag os_status os_maxpriv os_console_id os_bmc_id os_auth os_integ os_conf] in *.
  repeat (apply andb_true_iff in Hok; let Q := fresh "Q" in destruct Hok as [Hok Q]).
  apply alg_zero in Q, Q0, Q1. subst a i c.
  apply N.eqb_eq in Q2, Q5. subst bid mp. apply fits32 in Q4. apply negb_true_iff in Q6.
  unfold put_le32. cbn [app]. rewrite (decode_opensessionrsp_err8 _ _ _ _ _ _ _ _ _ Q6).
  rewrite le32_put by assumption. reflexivity.
Qed.

Theorem opensessionrsp_roundtrip_error1 : forall old v bs,
  SpecEnc.opensessionrsp 2 v = Some bs -> decode_opensessionrsp old bs = Ok v.
Proof.
  intros old v bs. unfold SpecEnc.opensessionrsp. cbv zeta beta. open_opt Hok.
  destruct v as [t s mp cid bid a i c].
  cbn [os_tag os_status os_maxpriv os_console_id os_bmc_id os_auth os_integ os_conf] in *.
  repeat (apply andb_true_iff in Hok; let Q := fresh "Q" in destruct Hok as [Hok Q]).
  apply alg_zero in Q, Q0, Q1. subst a i c.
  apply N.eqb_eq in Q2, Q3, Q4, Hok. subst bid cid mp t. apply negb_true_iff in Q5.
  rewrite (decode_opensessionrsp_err1 _ _ Q5). reflexivity.
Qed.

(* shape 0: success; 1: 8-byte error; every other shape: status-only error *)
Theorem opensessionrsp_roundtrip : forall shape old v bs,
  SpecEnc.opensessionrsp shape v = Some bs -> decode_opensessionrsp old bs = Ok v.
Proof.
  intros [|[p|p|]] old v bs H.
  - exact (opensessionrsp_roundtrip_success old v bs H).
  - apply opensessionrsp_roundtrip_error1. exact H.
  - apply opensessionrsp_roundtrip_error1. exact H.
  - exact (opensessionrsp_roundtrip_error8 old v bs H).
Qed.

Example opensessionrsp_inhabited_success :
  SpecEnc.opensessionrsp 0 {| os_tag := 9; os_status := 0; os_maxpriv := 4; os_console_id := 0xa4a3a2a1;
    os_bmc_id := 0x02003400; os_auth := {| ap_wildcard := false; ap_alg := 1 |};
    os_integ := {| ap_wildcard := false; ap_alg := 1 |}; os_conf := {| ap_wildcard := true; ap_alg := 0 |} |}
  = Some [9; 0; 4; 0; 0xa1; 0xa2; 0xa3; 0xa4; 0; 0x34; 0; 2;
          0; 0; 0; 8; 1; 0; 0; 0;  1; 0; 0; 8; 1; 0; 0; 0;  2; 0; 0; 0; 0; 0; 0; 0].
Proof. vm_compute. reflexivity. Qed.
Example opensessionrsp_inhabited_error8 :
  SpecEnc.opensessionrsp 1 {| os_tag := 9; os_status := 0x11; os_maxpriv := 0; os_console_id := 0xa4a3a200;
    os_bmc_id := 0; os_auth := algpayload_zero; os_integ := algpayload_zero; os_conf := algpayload_zero |}
  = Some [9; 0x11; 0; 0; 0xa2; 0xa3; 0xa4; 0].
Proof. vm_compute. reflexivity. Qed.
Example opensessionrsp_inhabited_error1 :
  SpecEnc.opensessionrsp 2 {| os_tag := 0; os_status := 0x11; os_maxpriv := 0; os_console_id := 0;
    os_bmc_id := 0; os_auth := algpayload_zero; os_integ := algpayload_zero; os_conf := algpayload_zero |}
  = Some [0x11].
Proof. vm_compute. reflexivity. Qed.

(* ===================== DCMI power capabilities: rolling average periods ===================== *)
Lemma get_app_at pre l j : get (length pre + j) (pre ++ l) = get j l.
Proof.
  unfold get. rewrite nth_error_app2 by lia. replace (length pre + j - length pre)%nat with j by lia. reflexivity.
Qed.

(* reading [length xs] consecutive bytes that follow a prefix, through [f] *)
Lemma map_res_get_seq {B} (f : N -> B) c (xs : bytes) : forall pre tail n, n = length xs ->
  Impl.map_res (fun i => do x <- get (1 + i) (c :: pre ++ xs ++ tail); Ok (f x)) (seq (length pre) n)
  = Ok (map f xs).
Proof.
  induction xs as [|x xs IH]; intros pre tail n ->.
  - reflexivity.
  - cbn [length seq Impl.map_res map].
    change (get (1 + length pre) (c :: pre ++ (x :: xs) ++ tail)) with (get (length pre) (pre ++ (x :: xs) ++ tail)).
    rewrite <- (Nat.add_0_r (length pre)) at 1. rewrite get_app_at. cbn [app get nth_error bind].
    specialize (IH (pre ++ [x]) tail (length xs) eq_refl).
    rewrite app_length in IH. cbn [length] in IH. rewrite Nat.add_1_r in IH.
    rewrite <- app_assoc in IH. cbn [app] in IH. rewrite IH. reflexivity.
Qed.

Lemma spec_rolling_byte_lt d : Spec.rolling_byte d < 256.
Proof.
  unfold Spec.rolling_byte, Spec.rolling_unit. cbv zeta.
  destruct (d <? 60); [lia|]. destruct (d <? 3600); [lia|]. destruct (d <? 86400); lia.
Qed.

Lemma periods_decode ps :
  forallb (fun s => Spec.rolling_duration (Spec.rolling_byte s) =? s) ps = true ->
  map Impl.rolling_duration (map Spec.rolling_byte ps) = ps.
Proof.
  induction ps as [|s ps IH]; intros H; [reflexivity|].
  cbn [forallb] in H. apply andb_true_iff in H. destruct H as [H1 H2]. apply N.eqb_eq in H1.
  cbn [map]. rewrite IH by assumption.
  rewrite rolling_duration_correct by apply spec_rolling_byte_lt. rewrite H1. reflexivity.
Qed.

Lemma decode_dcmipower_enc old mj mn rv (xs : bytes) p :
  (length xs < 256)%nat ->
  decode_dcmipower old (mj :: mn :: rv :: N.of_nat (length xs) :: xs ++ p) =
  Ok {| dp_major := mj; dp_minor := mn; dp_rev := rv; dp_periods := map Impl.rolling_duration xs; dp_payload := p |}.
Proof.
  intros Hlen. unfold decode_dcmipower.
  change (dcmi_header (mj :: mn :: rv :: N.of_nat (length xs) :: xs ++ p))
    with (Ok (mj, mn, rv, N.of_nat (length xs) :: xs ++ p)).
  cbn [bind].
  pose proof (map_res_get_seq Impl.rolling_duration (N.of_nat (length xs)) xs [] p (length xs) eq_refl) as M.
  cbn [app length] in M.
  set (body := N.of_nat (length xs) :: xs ++ p) in *.
  assert (Hb : length body = S (length xs + length p)).
  { subst body. cbn [length]. rewrite app_length. reflexivity. }
  change (get 0 body) with (Ok (N.of_nat (length xs))). cbn [bind]. rewrite Nat2N.id.
  unfold guard.
  destruct (Nat.ltb_spec (length body) 1) as [Hc|_]; [lia|].
  destruct (Nat.ltb_spec (length body) (1 + length xs)) as [Hc|_]; [lia|].
  rewrite M. cbn [bind]. rewrite slice_from_ok by lia. cbn [bind].
  subst body. change (skipn (1 + length xs) (N.of_nat (length xs) :: xs ++ p)) with (skipn (length xs) (xs ++ p)).
  rewrite skipn_app, skipn_all, Nat.sub_diag. reflexivity.
Qed.

Theorem dcmipower_roundtrip : forall old v bs,
  SpecEnc.dcmipower v = Some bs -> decode_dcmipower old bs = Ok v.
Proof.
  intros old v bs. unfold SpecEnc.dcmipower. open_opt Hok. split_all.
  destruct v as [mj mn rv ps p]. cbn [dp_major dp_minor dp_rev dp_periods dp_payload] in *.
  cbn [app]. rewrite <- (map_length Spec.rolling_byte ps).
  rewrite decode_dcmipower_enc.
  - rewrite periods_decode by assumption. reflexivity.
  - rewrite map_length. match goal with H : Nat.ltb _ 256 = true |- _ => apply Nat.ltb_lt in H; exact H end.
Qed.

Example dcmipower_inhabited :
  SpecEnc.dcmipower {| dp_major := 1; dp_minor := 5; dp_rev := 2; dp_periods := [5; 120; 7200; 172800; 0];
                       dp_payload := [0xee] |}
  = Some [1; 5; 2; 5; 5; 66; 130; 194; 0; 0xee].
Proof. vm_compute. reflexivity. Qed.

(* ===================== DCMI sensor info ===================== *)
Lemma flat_put_le16_length ids : length (flat_map put_le16 ids) = (length ids * 2)%nat.
Proof. induction ids as [|x ids IH]; [reflexivity|]. cbn [flat_map length app put_le16]. rewrite IH. reflexivity. Qed.

Lemma map_res_le16_seq ids : forall pre tail k n,
  length pre = (2 + k * 2)%nat -> n = length ids -> forallb (fits 16) ids = true ->
  Impl.map_res (fun i => get_le16 (2 + i * 2) (pre ++ flat_map put_le16 ids ++ tail)) (seq k n) = Ok ids.
Proof.
  induction ids as [|x ids IH]; intros pre tail k n Hp -> Hf.
  - reflexivity.
  - cbn [forallb] in Hf. apply andb_true_iff in Hf. destruct Hf as [Hx Hf]. apply fits16 in Hx.
    cbn [length seq Impl.map_res flat_map].
    unfold get_le16 at 1. rewrite <- Hp.
    rewrite <- (Nat.add_0_r (length pre)) at 1. rewrite !get_app_at.
    change (put_le16 x) with [x mod 256; (x / 256) mod 256]. cbn [app get nth_error bind].
    rewrite le16_put by assumption.
    specialize (IH (pre ++ [x mod 256; (x / 256) mod 256]) tail (S k) (length ids)).
    rewrite <- app_assoc in IH. cbn [app] in IH. rewrite IH; [reflexivity| |reflexivity|assumption].
    rewrite app_length. cbn [length]. lia.
Qed.

Lemma decode_dcmisensor_enc old inst ids p :
  (length ids < 256)%nat -> forallb (fits 16) ids = true ->
  decode_dcmisensor old (inst :: N.of_nat (length ids) :: flat_map put_le16 ids ++ p) =
  Ok {| ds_instances := inst; ds_ids := ids; ds_payload := p |}.
Proof.
  intros Hlen Hf. unfold decode_dcmisensor.
  pose proof (map_res_le16_seq ids [inst; N.of_nat (length ids)] p 0 (length ids) eq_refl eq_refl Hf) as M.
  cbn [app] in M.
  set (bs := inst :: N.of_nat (length ids) :: flat_map put_le16 ids ++ p) in *.
  assert (Hb : length bs = (2 + length ids * 2 + length p)%nat).
  { subst bs. cbn [length]. rewrite app_length, flat_put_le16_length. lia. }
  change (get 0 bs) with (Ok inst). change (get 1 bs) with (Ok (N.of_nat (length ids))).
  cbn [bind]. rewrite Nat2N.id. unfold guard.
  destruct (Nat.ltb_spec (length bs) 2) as [Hc|_]; [lia|].
  destruct (Nat.ltb_spec (length bs) (2 + length ids * 2)) as [Hc|_]; [lia|].
  rewrite slice_from_ok by lia. cbn [bind]. rewrite M. cbn [bind].
  subst bs.
  change (skipn (2 + length ids * 2) (inst :: N.of_nat (length ids) :: flat_map put_le16 ids ++ p))
    with (skipn (length ids * 2) (flat_map put_le16 ids ++ p)).
  rewrite <- flat_put_le16_length. rewrite skipn_app, skipn_all, Nat.sub_diag. reflexivity.
Qed.

Theorem dcmisensor_roundtrip : forall old v bs,
  SpecEnc.dcmisensor v = Some bs -> decode_dcmisensor old bs = Ok v.
Proof.
  intros old v bs. unfold SpecEnc.dcmisensor. open_opt Hok. split_all.
  destruct v as [inst ids p]. cbn [ds_instances ds_ids ds_payload] in *.
  cbn [app]. apply decode_dcmisensor_enc; [|assumption].
  match goal with H : Nat.ltb _ 256 = true |- _ => apply Nat.ltb_lt in H; exact H end.
Qed.

Example dcmisensor_inhabited :
  SpecEnc.dcmisensor {| ds_instances := 3; ds_ids := [0x0102; 0xffff; 7]; ds_payload := [0xee] |}
  = Some [3; 3; 2; 1; 255; 255; 7; 0; 0xee].
Proof. vm_compute. reflexivity. Qed.
