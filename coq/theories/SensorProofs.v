(* SensorProofs.v — C15: the sensor-reading conversion formula, the choice of
   reader made by NewSensorReader, and the flag handling of Read. *)
From BMC Require Import Base BaseFacts Prim PrimProofs Layers Layers2 Proc.
From Coq Require Import QArith Lia.
Local Close Scope Q_scope.
Local Open Scope N_scope.

(* ===================== pow10 ===================== *)

Lemma pow10_nonneg k : (0 <= k)%Z -> pow10 k = inject_Z (10 ^ k).
Proof. intros H. unfold pow10. destruct (Z.leb_spec 0 k); [reflexivity|lia]. Qed.

Lemma pow10_neg k : (k < 0)%Z -> pow10 k = (/ inject_Z (10 ^ (- k)))%Q.
Proof. intros H. unfold pow10. destruct (Z.leb_spec 0 k); [lia|reflexivity]. Qed.

Lemma pow10_0 : pow10 0 = 1%Q.
Proof. reflexivity. Qed.

Lemma pow10Z_pos k : (0 <= k)%Z -> (0 < 10 ^ k)%Z.
Proof. intros H. apply Z.pow_pos_nonneg; lia. Qed.

Lemma inject_pow10_nz k : (0 <= k)%Z -> ~ (inject_Z (10 ^ k) == 0)%Q.
Proof.
  intros H E. pose proof (pow10Z_pos k H) as P.
  unfold Qeq in E. simpl in E. lia.
Qed.

(* pow10 k is never zero, and is positive *)
Lemma pow10_pos k : (0 < pow10 k)%Q.
Proof.
  destruct (Z.leb_spec 0 k) as [H|H].
  - rewrite pow10_nonneg by exact H. pose proof (pow10Z_pos k H) as P.
    unfold Qlt. simpl. lia.
  - rewrite pow10_neg by exact H. apply Qinv_lt_0_compat.
    pose proof (pow10Z_pos (- k) ltac:(lia)) as P. unfold Qlt. simpl. lia.
Qed.

(* 10^k * 10^(-k) = 1, all k *)
Theorem pow10_inverse k : (pow10 k * pow10 (- k) == 1)%Q.
Proof.
  destruct (Z.lt_trichotomy k 0) as [H|[H|H]].
  - rewrite (pow10_neg k) by exact H. rewrite (pow10_nonneg (- k)) by lia.
    rewrite Qmult_comm. apply Qmult_inv_r. apply inject_pow10_nz. lia.
  - subst k. reflexivity.
  - rewrite (pow10_nonneg k) by lia. rewrite (pow10_neg (- k)) by lia.
    rewrite Z.opp_involutive. apply Qmult_inv_r. apply inject_pow10_nz. lia.
Qed.

(* 10^(k+1) = 10 * 10^k, all k *)
Theorem pow10_succ k : (pow10 (k + 1) == inject_Z 10 * pow10 k)%Q.
Proof.
  destruct (Z.leb_spec 0 k) as [H|H].
  - rewrite (pow10_nonneg k) by exact H. rewrite (pow10_nonneg (k + 1)) by lia.
    rewrite Z.pow_add_r by lia. rewrite Z.pow_1_r. rewrite Z.mul_comm.
    rewrite inject_Z_mult. reflexivity.
  - rewrite (pow10_neg k) by exact H.
    destruct (Z.eq_dec k (-1)) as [->|Hne].
    + reflexivity.
    + rewrite (pow10_neg (k + 1)) by lia.
      replace (- k)%Z with (- (k + 1) + 1)%Z by lia.
      set (j := (- (k + 1))%Z). assert (Hj : (0 <= j)%Z) by (subst j; lia).
      rewrite Z.pow_add_r by lia. rewrite Z.pow_1_r.
      rewrite inject_Z_mult.
      pose proof (inject_pow10_nz j Hj) as Hnz.
      field. exact Hnz.
Qed.

(* the general exponent law, by integer induction from pow10_succ *)
Theorem pow10_add j k : (pow10 (j + k) == pow10 j * pow10 k)%Q.
Proof.
  induction k using Z.peano_ind.
  - rewrite Z.add_0_r, pow10_0. ring.
  - replace (j + Z.succ k)%Z with ((j + k) + 1)%Z by lia.
    replace (Z.succ k) with (k + 1)%Z by lia.
    rewrite !pow10_succ, IHk. ring.
  - pose proof (pow10_succ (j + Z.pred k)) as E1.
    replace (j + Z.pred k + 1)%Z with (j + k)%Z in E1 by lia.
    pose proof (pow10_succ (Z.pred k)) as E2.
    replace (Z.pred k + 1)%Z with k in E2 by lia.
    rewrite IHk, E2 in E1.
    apply (Qmult_inj_l _ _ (inject_Z 10)); [discriminate|].
    rewrite <- E1. ring.
Qed.

(* ===================== the conversion formula ===================== *)

Theorem convert_formula m b k1 k2 x :
  (convert_reading m b k1 k2 x ==
   (inject_Z m * inject_Z x + inject_Z b * pow10 k1) * pow10 k2)%Q.
Proof.
  unfold convert_reading. rewrite inject_Z_mult. reflexivity.
Qed.

(* ===================== reader selection ===================== *)

Lemma analog_parser_none fmt : Impl.analog_parser fmt = None <-> 3 <= fmt.
Proof.
  destruct fmt as [|p]; [simpl; split; [discriminate|lia]|].
  destruct p as [p|p|]; try (simpl; split; [discriminate|lia]);
    destruct p as [p|p|]; simpl; split; try discriminate; try lia; auto.
Qed.

Lemma analog_parser_some fmt : fmt < 3 -> exists p, Impl.analog_parser fmt = Some p.
Proof.
  intros H. destruct (Impl.analog_parser fmt) eqn:E; [eauto|].
  apply analog_parser_none in E. lia.
Qed.

Theorem reader_selection_none r :
  new_sensor_reader r = RNone <-> (12 <= f_linearisation r \/ 3 <= f_format r).
Proof.
  unfold new_sensor_reader. cbv zeta.
  destruct (N.eqb_spec (f_linearisation r) 0) as [E0|N0].
  - destruct (Impl.analog_parser (f_format r)) eqn:Ep.
    + split; [discriminate|]. intros [H|H]; [lia|].
      apply analog_parser_none in H. congruence.
    + split; [|reflexivity]. intros _. right. apply analog_parser_none. exact Ep.
  - destruct (N.ltb_spec 0 (f_linearisation r)) as [H1|H1]; [|lia].
    destruct (N.ltb_spec (f_linearisation r) 12) as [H2|H2]; cbn [andb].
    + destruct (Impl.analog_parser (f_format r)) eqn:Ep.
      * split; [discriminate|]. intros [H|H]; [lia|].
        apply analog_parser_none in H. congruence.
      * split; [|reflexivity]. intros _. right. apply analog_parser_none. exact Ep.
    + split; [|reflexivity]. intros _. left. exact H2.
Qed.

(* linear iff linearisation code 0 (and a known analog format); the parser is
   the one analogDataFormatParsers gives for the record's format *)
Theorem reader_selection_linear r p :
  new_sensor_reader r = RLinear p <->
  (f_linearisation r = 0 /\ Impl.analog_parser (f_format r) = Some p).
Proof.
  unfold new_sensor_reader. cbv zeta.
  destruct (N.eqb_spec (f_linearisation r) 0) as [E0|N0].
  - destruct (Impl.analog_parser (f_format r)) eqn:Ep.
    + split; [intros H; inversion H; auto|intros [_ H]; inversion H; reflexivity].
    + split; [discriminate|intros [_ H]; discriminate].
  - split; [|intros [H _]; contradiction].
    destruct ((0 <? f_linearisation r) && (f_linearisation r <? 12))%bool; [|discriminate].
    destruct (Impl.analog_parser (f_format r)); discriminate.
Qed.

Corollary reader_selection_linear_ex r :
  (exists p, new_sensor_reader r = RLinear p) <-> (f_linearisation r = 0 /\ f_format r < 3).
Proof.
  split.
  - intros [p H]. apply reader_selection_linear in H. destruct H as [H0 Hp]. split; [exact H0|].
    destruct (N.ltb_spec (f_format r) 3); [assumption|].
    assert (Impl.analog_parser (f_format r) = None) by (apply analog_parser_none; assumption). congruence.
  - intros [H0 Hf]. destruct (analog_parser_some _ Hf) as [p Hp]. exists p.
    apply reader_selection_linear. auto.
Qed.

(* linearised, carrying exactly the record's code, iff the code is 1..11 *)
Theorem reader_selection_linearised r p c :
  new_sensor_reader r = RLinearised p c <->
  (c = f_linearisation r /\ 1 <= f_linearisation r <= 11 /\ Impl.analog_parser (f_format r) = Some p).
Proof.
  unfold new_sensor_reader. cbv zeta.
  destruct (N.eqb_spec (f_linearisation r) 0) as [E0|N0].
  - split; [|intros [_ [H _]]; lia].
    destruct (Impl.analog_parser (f_format r)); discriminate.
  - destruct (N.ltb_spec 0 (f_linearisation r)) as [H1|H1]; [|lia].
    destruct (N.ltb_spec (f_linearisation r) 12) as [H2|H2]; cbn [andb].
    + destruct (Impl.analog_parser (f_format r)) eqn:Ep.
      * split; [intros H; inversion H; repeat split; lia
               |intros [-> [_ H]]; inversion H; reflexivity].
      * split; [discriminate|intros [_ [_ H]]; discriminate].
    + split; [discriminate|intros [_ [H _]]; lia].
Qed.

Corollary reader_selection_linearised_ex r :
  (exists p c, new_sensor_reader r = RLinearised p c) <->
  (1 <= f_linearisation r <= 11 /\ f_format r < 3).
Proof.
  split.
  - intros [p [c H]]. apply reader_selection_linearised in H. destruct H as [_ [Hl Hp]]. split; [exact Hl|].
    destruct (N.ltb_spec (f_format r) 3); [assumption|].
    assert (Impl.analog_parser (f_format r) = None) by (apply analog_parser_none; assumption). congruence.
  - intros [Hl Hf]. destruct (analog_parser_some _ Hf) as [p Hp]. exists p, (f_linearisation r).
    apply reader_selection_linearised. auto.
Qed.

(* the three statements together *)
Theorem reader_selection r :
  (new_sensor_reader r = RNone <-> (12 <= f_linearisation r \/ 3 <= f_format r)) /\
  ((exists p, new_sensor_reader r = RLinear p) <-> (f_linearisation r = 0 /\ f_format r < 3)) /\
  ((exists p c, new_sensor_reader r = RLinearised p c) <-> (1 <= f_linearisation r <= 11 /\ f_format r < 3)) /\
  (forall p c, new_sensor_reader r = RLinearised p c -> c = f_linearisation r).
Proof.
  split; [apply reader_selection_none|]. split; [apply reader_selection_linear_ex|].
  split; [apply reader_selection_linearised_ex|].
  intros p c H. apply reader_selection_linearised in H. tauto.
Qed.

(* ===================== flags of a reading ===================== *)

Definition reader_parser (rd : reader) : option (N -> Z) :=
  match rd with RLinear p | RLinearised p _ => Some p | RNone => None end.
Definition reader_code (rd : reader) : N :=
  match rd with RLinearised _ c => c | _ => 0 end.

Theorem read_none r rsp : read_sensor r RNone rsp = None.
Proof. reflexivity. Qed.

(* the complete case analysis of Read, for a reader with parser [p] *)
Theorem read_sensor_cases r rd rsp p :
  reader_parser rd = Some p ->
  read_sensor r rd rsp =
    Some (if sr_unavailable rsp then RdUnavailable
          else if sr_scanning rsp then
            RdValue (convert_reading (f_m r) (f_b r) (f_bexp r) (f_rexp r) (p (sr_reading rsp))) (reader_code rd)
          else RdScanningDisabled).
Proof.
  intros Hp. destruct rd as [q|q c|]; simpl in Hp; [| |discriminate];
    inversion Hp; subst q; unfold read_sensor, reader_code;
    destruct (sr_unavailable rsp), (sr_scanning rsp); reflexivity.
Qed.

Theorem read_unavailable r rd rsp :
  rd <> RNone ->
  (read_sensor r rd rsp = Some RdUnavailable <-> sr_unavailable rsp = true).
Proof.
  intros Hrd. destruct rd as [q|q c|]; [| |contradiction];
    unfold read_sensor; destruct (sr_unavailable rsp), (sr_scanning rsp); cbn [negb];
    split; intros H; try reflexivity; try discriminate.
Qed.

Theorem read_scanning_disabled r rd rsp :
  rd <> RNone ->
  (read_sensor r rd rsp = Some RdScanningDisabled <->
   sr_unavailable rsp = false /\ sr_scanning rsp = false).
Proof.
  intros Hrd. destruct rd as [q|q c|]; [| |contradiction];
    unfold read_sensor; destruct (sr_unavailable rsp), (sr_scanning rsp); cbn [negb];
    split; intros H; try (split; reflexivity); try reflexivity; try discriminate;
    destruct H; discriminate.
Qed.

Theorem read_value r rd rsp p :
  reader_parser rd = Some p ->
  sr_unavailable rsp = false -> sr_scanning rsp = true ->
  read_sensor r rd rsp =
    Some (RdValue (convert_reading (f_m r) (f_b r) (f_bexp r) (f_rexp r) (p (sr_reading rsp))) (reader_code rd)).
Proof.
  intros Hp Hu Hs. rewrite (read_sensor_cases r rd rsp p Hp). rewrite Hu, Hs. reflexivity.
Qed.

(* a value is returned only when the flags allow it *)
Theorem read_value_inv r rd rsp q c :
  read_sensor r rd rsp = Some (RdValue q c) ->
  sr_unavailable rsp = false /\ sr_scanning rsp = true /\ c = reader_code rd /\
  exists p, reader_parser rd = Some p /\
            q = convert_reading (f_m r) (f_b r) (f_bexp r) (f_rexp r) (p (sr_reading rsp)).
Proof.
  destruct rd as [p|p c'|]; [| |discriminate];
    unfold read_sensor; destruct (sr_unavailable rsp), (sr_scanning rsp); cbn [negb];
    intros H; try discriminate; inversion H; subst;
    (split; [reflexivity|split; [reflexivity|split; [reflexivity|exists p; split; reflexivity]]]).
Qed.

(* the reader NewSensorReader builds parses with the format's parser *)
Lemma new_reader_parser r p :
  reader_parser (new_sensor_reader r) = Some p -> Impl.analog_parser (f_format r) = Some p.
Proof.
  unfold new_sensor_reader. cbv zeta.
  destruct (f_linearisation r =? 0).
  - destruct (Impl.analog_parser (f_format r)); simpl; congruence.
  - destruct ((0 <? f_linearisation r) && (f_linearisation r <? 12))%bool; [|discriminate].
    destruct (Impl.analog_parser (f_format r)); simpl; congruence.
Qed.

Lemma new_reader_code r :
  new_sensor_reader r <> RNone -> reader_code (new_sensor_reader r) = f_linearisation r.
Proof.
  unfold new_sensor_reader. cbv zeta.
  destruct (N.eqb_spec (f_linearisation r) 0) as [E|E].
  - destruct (Impl.analog_parser (f_format r)); simpl; congruence.
  - destruct ((0 <? f_linearisation r) && (f_linearisation r <? 12))%bool; [|congruence].
    destruct (Impl.analog_parser (f_format r)); simpl; congruence.
Qed.

(* read_flags: the whole behaviour of Read for the reader NewSensorReader chose,
   with the converted value expressed through the specification's
   interpretation of the raw byte *)
Theorem read_flags r rsp :
  sr_reading rsp < 256 ->
  new_sensor_reader r <> RNone ->
  (* 1. unavailable flag wins *)
  (read_sensor r (new_sensor_reader r) rsp = Some RdUnavailable <-> sr_unavailable rsp = true) /\
  (* 2. otherwise, scanning disabled iff the scanning flag is clear *)
  (sr_unavailable rsp = false ->
   (read_sensor r (new_sensor_reader r) rsp = Some RdScanningDisabled <-> sr_scanning rsp = false)) /\
  (* 3. otherwise the converted value of the specification's interpretation *)
  (sr_unavailable rsp = false -> sr_scanning rsp = true ->
   exists x, Spec.interpret (f_format r) (sr_reading rsp) = Some x /\
     read_sensor r (new_sensor_reader r) rsp =
       Some (RdValue (convert_reading (f_m r) (f_b r) (f_bexp r) (f_rexp r) x) (f_linearisation r)) /\
     (convert_reading (f_m r) (f_b r) (f_bexp r) (f_rexp r) x ==
      (inject_Z (f_m r) * inject_Z x + inject_Z (f_b r) * pow10 (f_bexp r)) * pow10 (f_rexp r))%Q).
Proof.
  intros Hraw Hrd. split; [apply read_unavailable; exact Hrd|]. split.
  - intros Hu. rewrite (read_scanning_disabled r _ rsp Hrd). rewrite Hu. tauto.
  - intros Hu Hs.
    destruct (reader_parser (new_sensor_reader r)) as [p|] eqn:Ep.
    + pose proof (new_reader_parser r p Ep) as Hp.
      pose proof (analog_parser_correct (f_format r) (sr_reading rsp) Hraw) as C. rewrite Hp in C.
      exists (p (sr_reading rsp)). split; [exact C|]. split.
      * rewrite (read_value r _ rsp p Ep Hu Hs). rewrite new_reader_code by exact Hrd. reflexivity.
      * apply convert_formula.
    + destruct (new_sensor_reader r); simpl in Ep; try discriminate. contradiction.
Qed.

(* no reader, no reading: the unsupported cases of reader_selection *)
Theorem read_flags_none r rsp :
  (12 <= f_linearisation r \/ 3 <= f_format r) -> read_sensor r (new_sensor_reader r) rsp = None.
Proof. intros H. apply reader_selection_none in H. rewrite H. reflexivity. Qed.
