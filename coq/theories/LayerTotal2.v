(* LayerTotal2.v — C05 (layer level), remaining decoders: the DCMI responses,
   the Full Sensor Record with its three string decoders, the RMCP+ session
   wrapper and the AES-128-CBC confidentiality layer (over any 16-byte block
   function) never index or slice beyond the bytes they were given. *)
From BMC Require Import Base BaseFacts Prim Layers Layers2 LayerTotal.
From Coq Require Import ZifyN ZifyNat ZifyBool.
Ltac Zify.zify_post_hook ::= Z.div_mod_to_equations.

(* ---------- DCMI ---------- *)
Lemma dcmi_header_cases bs :
  dcmi_header bs = Err \/
  exists a b c, dcmi_header bs = Ok (a, b, c, skipn 3 bs) /\ (3 <= length bs)%nat.
Proof.
  unfold dcmi_header, guard. destruct (Nat.ltb_spec (length bs) 3); [left; reflexivity|right].
  rewrite ?get_ok' by lia. rewrite slice_from_ok by lia. cbn [bind]. eauto 6.
Qed.

Ltac dcmi_hdr bs body Hb :=
  destruct (dcmi_header_cases bs) as [->|(mj & mn & rv & -> & Hlen)]; [cbn; discriminate|];
  cbn [bind]; set (body := skipn 3 bs);
  assert (Hb : length body = (length bs - 3)%nat) by (subst body; apply skipn_length).

Theorem dcmicaps_total : forall old bs, decode_dcmicaps old bs <> Fault.
Proof.
  intros old bs. unfold decode_dcmicaps. dcmi_hdr bs body Hb.
  unfold guard. guard_len. rewrite ?get_ok' by lia. rewrite slice_from_ok by lia. cbn [bind]. discriminate.
Qed.

Theorem dcmimand_total : forall old bs, decode_dcmimand old bs <> Fault.
Proof.
  intros old bs. unfold decode_dcmimand. dcmi_hdr bs body Hb.
  unfold guard. guard_len. rewrite ?get_ok' by lia. cbn [bind].
  destruct (Nat.eqb_spec (length body) 4) as [E|NE]; cbn [orb].
  - rewrite slice_from_ok by lia. cbn [bind]. discriminate.
  - destruct ((mj =? 1) && (mn =? 0))%bool.
    + rewrite slice_from_ok by lia. cbn [bind]. discriminate.
    + rewrite ?get_ok' by lia. rewrite slice_from_ok by lia. cbn [bind]. discriminate.
Qed.

Theorem dcmiopt_total : forall old bs, decode_dcmiopt old bs <> Fault.
Proof.
  intros old bs. unfold decode_dcmiopt. dcmi_hdr bs body Hb.
  unfold guard. guard_len. rewrite ?get_ok' by lia. rewrite slice_from_ok by lia. cbn [bind]. discriminate.
Qed.

Theorem dcmimgmt_total : forall old bs, decode_dcmimgmt old bs <> Fault.
Proof.
  intros old bs. unfold decode_dcmimgmt. dcmi_hdr bs body Hb.
  unfold guard. guard_len. rewrite ?get_ok' by lia. rewrite slice_from_ok by lia. cbn [bind]. discriminate.
Qed.

Theorem dcmipower_total : forall old bs, decode_dcmipower old bs <> Fault.
Proof.
  intros old bs. unfold decode_dcmipower. dcmi_hdr bs body Hb.
  unfold guard. guard_len. rewrite ?get_ok' by lia. cbn [bind].
  set (cnt := N.to_nat (nth 0 body 0)).
  destruct (Nat.ltb_spec (length body) (1 + cnt)); [discriminate|].
  apply nofault_bind.
  - apply map_res_nofault. intros i Hi. apply in_seq in Hi.
    rewrite get_ok' by lia. cbn [bind]. apply nofault_ok.
  - intros ps _. rewrite slice_from_ok by lia. cbn [bind]. apply nofault_ok.
Qed.

Theorem dcmisensor_total : forall old bs, decode_dcmisensor old bs <> Fault.
Proof.
  intros old bs. unfold decode_dcmisensor, guard. guard_len. rewrite ?get_ok' by lia. cbn [bind].
  set (cnt := N.to_nat (nth 1 bs 0)).
  destruct (Nat.ltb_spec (length bs) (2 + cnt * 2)); [discriminate|].
  rewrite slice_from_ok by lia. cbn [bind].
  apply nofault_bind.
  - apply map_res_nofault. intros i Hi. apply in_seq in Hi.
    destruct (get_le16_ok (2 + i * 2) bs ltac:(lia)) as [x ->]. apply nofault_ok.
  - intros ids _. apply nofault_ok.
Qed.

(* ---------- the ID-string decoders ---------- *)
(* a decoder never faults, and consumes no more than it was given *)
Definition str_spec (dec : bytes -> nat -> res (bytes * nat)) : Prop :=
  forall b c, dec b c <> Fault /\ forall s k, dec b c = Ok (s, k) -> (k <= length b)%nat.

Lemma latin1_spec : str_spec Impl.decode_latin1.
Proof.
  intros b c. unfold Impl.decode_latin1.
  destruct (Nat.eqb_spec c 0) as [E|NE].
  - split; [discriminate|]. intros s k Hq. inversion Hq. lia.
  - destruct (Nat.ltb_spec (length b) 2); [split; [discriminate|intros s k Hq; discriminate]|].
    destruct (Nat.ltb_spec (length b) c); [split; [discriminate|intros s k Hq; discriminate]|].
    rewrite slice_to_ok by lia. cbn [bind]. split; [discriminate|]. intros s k Hq. inversion Hq. lia.
Qed.

Lemma land_15_lt x : N.land x 15 < 16.
Proof. change 15 with (N.ones 4). rewrite N.land_ones. apply N.mod_lt. discriminate. Qed.

Lemma bcd_rune_some n : n < 16 -> exists r, nth_error Impl.bcd_plus_runes (N.to_nat n) = Some r.
Proof.
  intros H. destruct (nth_error Impl.bcd_plus_runes (N.to_nat n)) eqn:E; [eauto|].
  apply nth_error_None in E. change (length Impl.bcd_plus_runes) with 16%nat in E. lia.
Qed.

Lemma bcd_plus_spec : str_spec Impl.decode_bcd_plus.
Proof.
  intros b c. unfold Impl.decode_bcd_plus.
  destruct (Nat.ltb_spec (length b) (Nat.div (c + 1) 2)) as [Hlt|Hge].
  { split; [discriminate|intros s k Hq; discriminate]. }
  match goal with |- context [Impl.map_res ?f ?l] =>
    assert (NF : nofault (Impl.map_res f l)) end.
  { apply map_res_nofault. intros i Hi. apply in_seq in Hi.
    rewrite get_ok' by lia. cbn [bind].
    match goal with |- context [nth_error Impl.bcd_plus_runes (N.to_nat ?n)] =>
      destruct (bcd_rune_some n (land_15_lt _)) as [r ->] end.
    apply nofault_ok. }
  split.
  - apply nofault_bind; [exact NF|]. intros; apply nofault_ok.
  - intros s k Hq. destruct (Impl.map_res _ _); cbn [bind] in Hq; try discriminate. injection Hq as _ <-. exact Hge.
Qed.

Lemma p6_char_nofault b c i : (i < c)%nat -> (c - Nat.div c 4 <= length b)%nat -> nofault (Impl.p6_char b i).
Proof.
  intros Hi Hc. unfold Impl.p6_char.
  assert (O : (Nat.modulo i 4 = 3 -> Impl.p6_offset i < length b)%nat /\
              (Nat.modulo i 4 = 0 -> Impl.p6_offset i < length b)%nat /\
              (Nat.modulo i 4 = 1 -> Impl.p6_offset i + 1 < length b)%nat /\
              (Nat.modulo i 4 = 2 -> Impl.p6_offset i + 1 < length b)%nat).
  { unfold Impl.p6_offset. repeat split; intros; lia. }
  destruct O as (O3 & O0 & O1 & O2).
  apply nofault_bind; [|intros; apply nofault_ok].
  destruct (Nat.modulo i 4) as [|[|[|m]]] eqn:E.
  - rewrite get_ok' by lia. cbn [bind]. apply nofault_ok.
  - rewrite !get_ok' by lia. cbn [bind]. apply nofault_ok.
  - rewrite !get_ok' by lia. cbn [bind]. apply nofault_ok.
  - assert (m = 0)%nat by (pose proof (Nat.mod_upper_bound i 4); lia). subst m.
    rewrite get_ok' by lia. cbn [bind]. apply nofault_ok.
Qed.

Lemma packed6_spec : str_spec Impl.decode_packed6.
Proof.
  intros b c. unfold Impl.decode_packed6.
  destruct (Nat.ltb_spec (length b) (c - Nat.div c 4)) as [Hlt|Hge].
  { split; [discriminate|intros s k Hq; discriminate]. }
  assert (NF : nofault (Impl.map_res (Impl.p6_char b) (seq 0 c))).
  { apply map_res_nofault. intros i Hi. apply in_seq in Hi. apply (p6_char_nofault b c i); lia. }
  split.
  - apply nofault_bind; [exact NF|]. intros; apply nofault_ok.
  - intros s k Hq. destruct (Impl.map_res _ _); cbn [bind] in Hq; try discriminate. injection Hq as _ <-. exact Hge.
Qed.

Lemma string_decoder_spec enc dec : Impl.string_decoder enc = Some dec -> str_spec dec.
Proof.
  unfold Impl.string_decoder. intros H.
  destruct enc as [|[[p|p|]|[p|p|]|]]; inversion H; subst;
    first [apply latin1_spec | apply bcd_plus_spec | apply packed6_spec].
Qed.

(* ---------- Full Sensor Record ---------- *)
Theorem fsr_total : forall old bs, decode_fsr old bs <> Fault.
Proof.
  intros old bs. unfold decode_fsr, guard. guard_len. rewrite ?get_ok' by lia. cbn [bind].
  destruct (Impl.string_decoder _) as [dec|] eqn:Ed; [|discriminate].
  rewrite slice_from_ok by lia. cbn [bind].
  destruct (string_decoder_spec _ _ Ed (skipn 43 bs) (N.to_nat (N.land (nth 42 bs 0) 31))) as [NF Hk].
  apply nofault_bind; [exact NF|]. intros [ident consumed] E. apply Hk in E. rewrite skipn_length in E.
  rewrite slice_from_ok by lia. cbn [bind]. discriminate.
Qed.

(* ---------- RMCP+ session wrapper ---------- *)
Ltac nf_le32 := apply nofault_bind;
  [match goal with |- nofault (get_le32 ?i ?bs) =>
     destruct (get_le32_ok i bs ltac:(lia)) as [? ->]; apply nofault_ok end | intros ? _].
Ltac nf_le16 := apply nofault_bind;
  [match goal with |- nofault (get_le16 ?i ?bs) =>
     destruct (get_le16_ok i bs ltac:(lia)) as [? ->]; apply nofault_ok end | intros ? _].

Ltac v2_tail :=
  nf_le32; nf_le32; nf_le16;
  match goal with |- context [Nat.ltb (length ?bs) ?n] => destruct (Nat.ltb_spec (length bs) n) end;
  [apply nofault_err|];
  rewrite slice_ok by lia; cbn [bind];
  match goal with |- context [negb ?a] => destruct (negb a) end; [apply nofault_ok|];
  rewrite slice_from_ok by lia; cbn [bind];
  match goal with |- context [Nat.eqb ?k ?l] => destruct (Nat.eqb k l) end;
  (match goal with |- context [Nat.ltb (length ?bs) ?n] => destruct (Nat.ltb_spec (length bs) n) end;
   [apply nofault_err|];
   rewrite slice_from_ok by lia; rewrite slice_to_ok by lia; cbn [bind];
   match goal with |- context [negb ?a] => destruct (negb a) end; [apply nofault_err|apply nofault_ok]).

Theorem v2session_total : forall sign old bs, decode_v2session sign old bs <> Fault.
Proof.
  intros sign old bs. unfold decode_v2session, guard. guard_len. rewrite ?get_ok' by lia. cbn [bind].
  destruct (negb (nth 0 bs 0 =? 6)); [discriminate|]. rewrite ?get_ok' by lia. cbn [bind].
  destruct (N.land (nth 1 bs 0) 63 =? 2).
  - destruct (Nat.ltb_spec (length bs) 18); [discriminate|].
    destruct (get_le32_ok 2 bs ltac:(lia)) as [e ->]. destruct (get_le16_ok 6 bs ltac:(lia)) as [p ->].
    cbn [bind]. fold (nofault (A := v2session)). v2_tail.
  - cbn [bind]. v2_tail.
Qed.

(* ---------- AES-128-CBC over an abstract 16-byte block function ---------- *)
Lemma xor_bytes_length a : forall b, length (xor_bytes a b) = Nat.min (length a) (length b).
Proof.
  induction a as [|x ar IH]; intros [|y br]; cbn [xor_bytes length]; try reflexivity.
  rewrite IH. reflexivity.
Qed.

Section AesCbc.
Variable dec : bytes -> bytes.
Hypothesis dec_len : forall b, length (dec b) = 16%nat.

Lemma cbc_decrypt_blocks_length fuel : forall prev ct,
  length prev = 16%nat -> (16 * fuel <= length ct)%nat ->
  length (cbc_decrypt_blocks dec prev ct fuel) = (16 * fuel)%nat.
Proof.
  induction fuel as [|f IH]; intros prev ct Hp Hc; cbn [cbc_decrypt_blocks].
  - reflexivity.
  - rewrite app_length, xor_bytes_length, dec_len, Hp.
    rewrite IH; [lia| |].
    + rewrite firstn_length. lia.
    + rewrite skipn_length. lia.
Qed.

Lemma cbc_decrypt_length iv ct :
  length iv = 16%nat -> Nat.modulo (length ct) 16 = 0%nat ->
  length (cbc_decrypt dec iv ct) = length ct.
Proof.
  intros Hi Hm. unfold cbc_decrypt. rewrite cbc_decrypt_blocks_length; lia.
Qed.

Theorem aescbc_total : forall old bs, decode_aescbc dec old bs <> Fault.
Proof.
  intros old bs. unfold decode_aescbc, guard.
  destruct (Nat.ltb_spec (length bs) 17) as [|Hn]; [discriminate|].
  destruct (Nat.eqb_spec (Nat.modulo (length bs) 16) 0) as [Hm|]; [|discriminate]. cbn [negb orb].
  rewrite slice_to_ok by lia. rewrite slice_from_ok by lia. cbn [bind].
  set (data := firstn 16 bs ++ cbc_decrypt dec (firstn 16 bs) (skipn 16 bs)).
  assert (Hd : length data = length bs).
  { subst data. rewrite app_length, cbc_decrypt_length.
    - rewrite firstn_length, skipn_length. lia.
    - rewrite firstn_length. lia.
    - rewrite skipn_length. lia. }
  rewrite get_ok' by lia. cbn [bind].
  set (padb := nth (length bs - 1) data 0).
  destruct (N.ltb_spec 16 padb); [discriminate|].
  destruct (Nat.ltb_spec (length bs - N.to_nat padb - 1) 16); [discriminate|].
  rewrite slice_ok by lia. cbn [bind].
  destruct (negb _); [discriminate|].
  rewrite slice_ok by lia. cbn [bind]. discriminate.
Qed.

End AesCbc.
