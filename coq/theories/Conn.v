(* Conn.v — the retry loops of the connections (backoff.Retry around one
   write + one read per attempt), over a script: the list of what each
   attempt's read returned ([None] = the transport reported an error: lost
   reply / timeout).  An exhausted script is the caller's context expiring.
   Mirrors V2Sessionless.{SendCommand, buildAndSendCommand, buildAndSendPayload}
   and V2Session.{SendCommand, buildAndSend}. *)
From BMC Require Import Base Prim Layers Layers2 Serialize Packet.

Inductive outcome :=
| OFinal (m : message)        (* a valid response with a non-temporary code *)
| OExpired                    (* context expired while retrying *)
| OTransport                  (* in-session transport failure: terminal *)
| OSerialize                  (* the request could not be serialised *)
| OFault.

Record loop_result := { lr_sent : list bytes;        (* every datagram transmitted, in order *)
                        lr_codes : list N;           (* completion codes counted as responses *)
                        lr_outcome : outcome;
                        lr_seq : N }.                (* session: last sequence number used *)

(* ---- session-less command: the packet is serialised once and re-sent ---- *)
Fixpoint sessionless_loop (pkt : bytes) (o : operation) (script : list (option bytes))
         (sent : list bytes) (codes : list N) : loop_result :=
  match script with
  | [] => {| lr_sent := sent; lr_codes := codes; lr_outcome := OExpired; lr_seq := 0 |}
  | r :: rest =>
      let sent' := sent ++ [pkt] in
      match r with
      | None => sessionless_loop pkt o rest sent' codes
      | Some bs =>
          match sessionless_verdict o bs with
          | VFinal m => {| lr_sent := sent'; lr_codes := codes ++ [m_code m]; lr_outcome := OFinal m; lr_seq := 0 |}
          | VTemporary c => sessionless_loop pkt o rest sent' (codes ++ [c])
          | VRetry => sessionless_loop pkt o rest sent' codes
          | VFault => {| lr_sent := sent'; lr_codes := codes; lr_outcome := OFault; lr_seq := 0 |}
          end
      end
  end.

Definition sessionless_send (o : operation) (lun : N) (r : request) (script : list (option bytes)) : loop_result :=
  match ser_request r [] with
  | Ok body =>
      match sessionless_command_packet o lun body with
      | Ok pkt => sessionless_loop pkt o script [] []
      | _ => {| lr_sent := []; lr_codes := []; lr_outcome := OSerialize; lr_seq := 0 |}
      end
  | _ => {| lr_sent := []; lr_codes := []; lr_outcome := OSerialize; lr_seq := 0 |}
  end.

(* ---- in-session command: every attempt that produces a datagram takes the next sequence number and a fresh IV;
   a request that cannot be serialised sends nothing and takes none ---- *)
Fixpoint session_loop (s : session) (o : operation) (lun : N) (body : bytes) (seq : N) (ivs : list bytes)
         (script : list (option bytes)) (sent : list bytes) (codes : list N) : loop_result :=
  match script with
  | [] => {| lr_sent := sent; lr_codes := codes; lr_outcome := OExpired; lr_seq := seq |}
  | r :: rest =>
      let seq' := u32 (seq + 1) in
      let iv := hd (zeros 16) ivs in
      match session_command_packet s seq' iv o lun body with
      | Ok pkt =>
          let sent' := sent ++ [pkt] in
          match r with
          | None => {| lr_sent := sent'; lr_codes := codes; lr_outcome := OTransport; lr_seq := seq' |}
          | Some bs =>
              match session_verdict s o bs with
              | VFinal m => {| lr_sent := sent'; lr_codes := codes ++ [m_code m]; lr_outcome := OFinal m; lr_seq := seq' |}
              | VTemporary c => session_loop s o lun body seq' (tl ivs) rest sent' (codes ++ [c])
              | VRetry => session_loop s o lun body seq' (tl ivs) rest sent' codes
              | VFault => {| lr_sent := sent'; lr_codes := codes; lr_outcome := OFault; lr_seq := seq' |}
              end
          end
      | _ => {| lr_sent := sent; lr_codes := codes; lr_outcome := OSerialize; lr_seq := seq |}
      end
  end.

Definition session_send (s : session) (seq : N) (ivs : list bytes) (o : operation) (lun : N) (r : request)
           (script : list (option bytes)) : loop_result :=
  match ser_request r [] with
  | Ok body => session_loop s o lun body seq ivs script [] []
  | _ => {| lr_sent := []; lr_codes := []; lr_outcome := OSerialize; lr_seq := seq |}   (* nothing sent: no number taken *)
  end.

(* ---- V2Session.Close / closeSession: Close Session (NetFn App, 3Ch) naming the managed system's session ID ---- *)
Definition op_close_session : operation := {| op_fn := 6; op_body := 0; op_ent := 0; op_cmd := 0x3c |}.
Definition close_request (s : session) : request := RqCloseSession (s_remote_id s) 0.
Definition session_close (s : session) (seq : N) (ivs : list bytes) (script : list (option bytes)) : loop_result :=
  session_send s seq ivs op_close_session 0 (close_request s) script.

(* ---- session-setup payload exchange ---- *)
Inductive poutcome := PDone (payload : bytes) | PExpired | PSerialize | PFaulted.
Fixpoint payload_loop (pkt : bytes) (script : list (option bytes)) (sent : nat) : nat * poutcome :=
  match script with
  | [] => (sent, PExpired)
  | r :: rest =>
      match r with
      | None => payload_loop pkt rest (S sent)
      | Some bs =>
          match payload_verdict bs with
          | PAccept p => (S sent, PDone p)
          | PRetry => payload_loop pkt rest (S sent)
          | PFault => (S sent, PFaulted)
          end
      end
  end.

(* what SendCommand hands back: (completion code, response payload) or an error *)
Definition send_result (lr : loop_result) : option (N * bytes) :=
  match lr_outcome lr with OFinal m => Some (m_code m, m_payload m) | _ => None end.
