(* SpecBmc.v — a BMC that follows IPMI v2.0 (13.17-13.23, 13.28-13.32, 13.6,
   13.8): the RAKP handshake as the *managed system* performs it and the checks
   it applies to every in-session packet.  Written from the specification
   (DESIGN.md appendix A), independently of the console code: keys are derived
   from the BMC's own view of the exchange (its stored user key zero-padded to
   20 bytes, its own random number and session ID, the bytes it received). *)
From BMC Require Import Base Prim Layers Layers2 Serialize SpecRequests Hmac Aes.

Module Bmc.

Record config := { users : list (bytes * bytes * N) (* name, password, max privilege *);
                   kg : bytes (* [] = not set *); guid : bytes }.

(* K_UID: the user key is a 20-byte value, shorter passwords zero-padded (13.31) *)
Definition pad20 (k : bytes) : bytes := k ++ repeat 0 (20 - length k).

Record pending := { p_console_id : N; p_bmc_id : N; p_auth : N; p_integ : N; p_conf : N }.

(* RMCP+ Open Session Request -> Response (13.17/13.18) *)
Definition open_session (supported : N -> N -> N -> bool) (req : bytes) (new_id : N) : option (bytes * option pending) :=
  match SpecParse.open_session_request req with
  | None => None
  | Some q =>
      let a := ap_alg (oq_auth q) in let i := ap_alg (oq_integ q) in let c := ap_alg (oq_conf q) in
      if supported a i c then
        Some ([oq_tag q; 0; oq_maxpriv q; 0] ++ put_le32 (oq_id q) ++ put_le32 new_id
              ++ [0; 0; 0; 8; a; 0; 0; 0] ++ [1; 0; 0; 8; i; 0; 0; 0] ++ [2; 0; 0; 8; c; 0; 0; 0],
              Some {| p_console_id := oq_id q; p_bmc_id := new_id; p_auth := a; p_integ := i; p_conf := c |})
      else Some ([oq_tag q; 0x11; 0; 0] ++ put_le32 (oq_id q), None)
  end.

Record half := { h_pending : pending; h_rm : bytes; h_rc : bytes; h_role : N; h_name : bytes; h_kuid : bytes }.

Definition find_user (cfg : config) (role : N) (name : bytes) : option bytes :=
  match find (fun u => let '(n, _, mp) := u in
                       (if list_eq_dec N.eq_dec n name then true else false)
                       && ((16 <=? role) || (role mod 16 <=? mp))) (users cfg) with
  | Some (_, pw, _) => Some pw
  | None => None
  end.

(* RAKP Message 1 -> RAKP Message 2 (13.20/13.21); [rc] is the BMC's random number *)
Definition rakp1 (cfg : config) (p : pending) (msg : bytes) (rc : bytes) : option (bytes * option half) :=
  match SpecParse.rakp_message_1 msg with
  | None => None
  | Some m =>
      if negb (r1_bmc_id m =? p_bmc_id p) then Some ([r1_tag m; 0x02; 0; 0] ++ put_le32 (p_console_id p), None) else
      let role := 16 * (if r1_lookup m then 0 else 1) + r1_maxpriv m in
      match find_user cfg role (r1_username m) with
      | None => Some ([r1_tag m; 0x0d; 0; 0] ++ put_le32 (p_console_id p), None)
      | Some pw =>
          let kuid := pad20 pw in
          let code := hmac_alg (p_auth p) kuid
                        (put_le32 (p_console_id p) ++ put_le32 (p_bmc_id p) ++ r1_random m ++ rc ++ guid cfg
                         ++ [role; N.of_nat (length (r1_username m))] ++ r1_username m) in
          Some ([r1_tag m; 0; 0; 0] ++ put_le32 (p_console_id p) ++ rc ++ guid cfg ++ code,
                Some {| h_pending := p; h_rm := r1_random m; h_rc := rc; h_role := role; h_name := r1_username m; h_kuid := kuid |})
      end
  end.

Record active := { a_console_id : N; a_bmc_id : N; a_integ : N; a_conf : N; a_sik : bytes; a_k1 : bytes; a_k2 : bytes }.

Definition icv_len (auth : N) : nat := match auth with 1 => 12%nat | 2 => 16%nat | _ => 16%nat end.

(* RAKP Message 3 -> RAKP Message 4 (13.22/13.23) *)
Definition rakp3 (cfg : config) (h : half) (msg : bytes) : option (bytes * option active) :=
  match SpecParse.rakp_message_3 msg with
  | None => None
  | Some m =>
      let p := h_pending h in
      let user := [h_role h; N.of_nat (length (h_name h))] ++ h_name h in
      let expect := hmac_alg (p_auth p) (h_kuid h) (h_rc h ++ put_le32 (p_console_id p) ++ user) in
      if negb (r3_status m =? 0) then None else
      if negb (if list_eq_dec N.eq_dec (r3_authcode m) expect then true else false)
      then Some ([r3_tag m; 0x0f; 0; 0] ++ put_le32 (p_console_id p), None) else
      let kgk := match kg cfg with [] => h_kuid h | k => pad20 k end in
      let sik := hmac_alg (p_auth p) kgk (h_rm h ++ h_rc h ++ user) in
      let icv := firstn (icv_len (p_auth p)) (hmac_alg (p_auth p) sik (h_rm h ++ put_le32 (p_bmc_id p) ++ guid cfg)) in
      Some ([r3_tag m; 0; 0; 0] ++ put_le32 (p_console_id p) ++ icv,
            Some {| a_console_id := p_console_id p; a_bmc_id := p_bmc_id p; a_integ := p_integ p; a_conf := p_conf p;
                    a_sik := sik; a_k1 := hmac_alg (p_auth p) sik (repeat 1 20);
                    a_k2 := hmac_alg (p_auth p) sik (repeat 2 20) |})
  end.

(* ---- in-session packets (13.6, 13.28, 13.29, 13.8) ---- *)
Definition authcode (integ : N) (k1 : bytes) (m : bytes) : option bytes :=
  match integ with
  | 1 => Some (firstn 12 (hmac_alg 1 k1 m))
  | 2 => Some (hmac_alg 2 k1 m)
  | 4 => Some (firstn 16 (hmac_alg 3 k1 m))
  | _ => None
  end.
Definition authcode_len (integ : N) : nat := match integ with 1 => 12%nat | _ => 16%nat end.

Fixpoint counts_up (bs : bytes) (v : N) : bool :=
  match bs with [] => true | b :: r => (b =? v) && counts_up r (v + 1) end.

(* the confidentiality payload: IV, then AES-CBC of data ‖ 01 02 .. n ‖ n, n in 0..15 (13.29) *)
Definition decrypt_payload (k2 : bytes) (p : bytes) : option (bytes * bytes) :=
  let iv := firstn 16 p in let ct := skipn 16 p in
  if Nat.ltb (length p) 32 || negb (Nat.eqb (Nat.modulo (length p) 16) 0) then None else
  let pt := cbc_decrypt (aes128_decrypt_block (firstn 16 k2)) iv ct in
  match rev pt with
  | n :: _ =>
      if (n <? 16) && Nat.leb (N.to_nat n + 1)%nat (length pt) then
        let data := firstn (length pt - 1 - N.to_nat n)%nat pt in
        let pad := firstn (N.to_nat n) (skipn (length data) pt) in
        if counts_up pad 1 then Some (iv, data) else None
      else None
  | [] => None
  end.

(* everything a conforming BMC checks before executing an in-session request; returns the IV and the request *)
Definition accept (a : active) (dg : bytes) : option (bytes * N * SpecParse.lanreq) :=
  match SpecParse.datagram dg with
  | None => None
  | Some w =>
      if negb (SpecParse.w_ptype w =? 0) then None else
      if negb (SpecParse.w_id w =? a_bmc_id a) then None else
      if negb (SpecParse.w_authenticated w) || negb (SpecParse.w_encrypted w) then None else
      let t := SpecParse.w_trailer w in
      let plen := (length t - 2 - authcode_len (a_integ a))%nat in
      (* integrity pad: plen bytes of 0xFF, the pad length, next header 07, AuthCode; the authenticated
         range (auth type .. next header) must be a multiple of 4 bytes *)
      if Nat.ltb (length t) (2 + authcode_len (a_integ a))%nat then None else
      if negb (Nat.ltb plen 4) then None else
      let covered := firstn (length dg - 4 - authcode_len (a_integ a))%nat (skipn 4 dg) in
      if negb (Nat.eqb (Nat.modulo (length covered) 4) 0) then None else
      if negb (forallb (fun b => b =? 0xff) (firstn plen t)) then None else
      match skipn plen t with
      | pl :: nh :: code =>
          if negb (pl =? N.of_nat plen) || negb (nh =? 7) then None else
          match authcode (a_integ a) (a_k1 a) covered with
          | Some c =>
              if negb (if list_eq_dec N.eq_dec code c then true else false) then None else
              match decrypt_payload (a_k2 a) (SpecParse.w_payload w) with
              | Some (iv, msg) =>
                  match SpecParse.lan_request msg with
                  | Some r => Some (iv, SpecParse.w_seq w, r)
                  | None => None
                  end
              | None => None
              end
          | None => None
          end
      | _ => None
      end
  end.

End Bmc.
