(* Proc.v — the multi-request procedures: cipher-suite discovery
   (cipher_suites.go), DCMI sensor-info enumeration (pkg/dcmi/sensor_info.go),
   the SDR repository walk (sdr_repository.go) and the sensor reader
   (sensor_reader.go, conversion_factors.go), over abstract servers: a server
   answers one validated command ([None] = the command failed or returned a
   non-normal completion code). *)
From BMC Require Import Base Prim Layers Layers2.
From Coq Require Import QArith.
Local Close Scope Q_scope.
Local Open Scope N_scope.

(* ===================== cipher suite records ===================== *)
Record csrecord := { cr_id : N; cr_auth : N; cr_integ : N; cr_conf : N; cr_enterprise : N }.

Fixpoint take_tagged (tag : N) (bs : bytes) : list N * bytes :=
  match bs with
  | b :: r => if N.shiftr b 6 =? tag then let '(xs, rest) := take_tagged tag r in (N.land b 0x3f :: xs, rest) else ([], bs)
  | [] => ([], [])
  end.

Inductive pres := RsOk (rs : list csrecord) | RsErr | RsFault | RsOutOfFuel.

(* parseCipherSuiteRecordData; one record per unit of fuel *)
Fixpoint parse_records (fuel : nat) (joined : bytes) (acc : list csrecord) : pres :=
  match joined with
  | [] => RsOk acc
  | b0 :: _ =>
    match fuel with
    | O => RsOutOfFuel
    | S f =>
      if negb (N.shiftr b0 1 =? 0x60) then RsErr else
      let oem := N.land b0 1 =? 1 in
      if (if oem then Nat.ltb (length joined) 6 else Nat.ltb (length joined) 3) then RsErr else
      match get 1 joined with
      | Ok id =>
        let offset := if oem then 5%nat else 2%nat in
        let ent := if oem then le24 (nth 2 joined 0) (nth 3 joined 0) (nth 4 joined 0) else 0 in
        match get offset joined with
        | Ok a =>
          if negb (N.shiftr a 6 =? 0) then RsErr else
          let '(integs, r1) := take_tagged 1 (skipn (S offset) joined) in
          let '(confs, r2) := take_tagged 2 r1 in
          let integs := match integs with [] => [0] | _ => integs end in
          let confs := match confs with [] => [0] | _ => confs end in
          let recs := flat_map (fun i => map (fun c => {| cr_id := id; cr_auth := a; cr_integ := i; cr_conf := c; cr_enterprise := ent |}) confs) integs in
          parse_records f r2 (acc ++ recs)
        | _ => RsFault
        end
      | _ => RsFault
      end
    end
  end.

(* RetrieveSupportedCipherSuites: [serve idx] answers Get Channel Cipher Suites with list index [idx land 0x3f]
   on the wire; gives the record chunk *)
Fixpoint retrieve_chunks (serve : N -> option bytes) (idx : N) (fuel : nat) (acc : bytes) (requests : nat)
  : option (bytes * nat) :=
  match fuel with
  | O => Some (acc, requests)
  | S f =>
      match serve (N.land idx 0x3f) with
      | None => None
      | Some chunk =>
          let acc' := acc ++ chunk in
          if (idx =? 64) || Nat.ltb (length chunk) 16 then Some (acc', S requests)
          else retrieve_chunks serve (idx + 1) f acc' (S requests)
      end
  end.
Definition retrieve_cipher_suites (serve : N -> option bytes) : option pres :=
  match retrieve_chunks serve 0 65 [] 0 with
  | None => None
  | Some (data, _) => Some (parse_records (length data) data [])
  end.

(* ===================== DCMI sensor info ===================== *)
(* [serve entity start] answers Get DCMI Sensor Info (instance 0): (total instances, record IDs of this page) *)
Fixpoint entity_instances (serve : N -> option (N * list N)) (ids : list N) (fuel : nat) (requests : nat)
  : option (list N * nat) :=
  match fuel with
  | O => Some (ids, requests)
  | S f =>
      match serve (u8 (N.of_nat (length ids) + 1)) with
      | None => None
      | Some (total, page) =>
          let ids' := ids ++ page in
          if Nat.eqb (length page) 0 || Nat.eqb (length ids') 255 then Some (ids', S requests)
          else if Nat.ltb (length ids') (N.to_nat total) then entity_instances serve ids' f (S requests)
          else Some (ids', S requests)
      end
  end.
Definition get_entity_instances (serve : N -> option (N * list N)) := entity_instances serve [] 256 0.

Definition ipmi_entities : list N := [0x37; 0x03; 0x07].
Definition dcmi_entities : list N := [0x40; 0x41; 0x42].
Fixpoint sensor_map (serve : N -> N -> option (N * list N)) (entities : list N) : option (list (list N)) :=
  match entities with
  | [] => Some []
  | e :: rest => match get_entity_instances (serve e) with
                 | None => None
                 | Some (ids, _) => match sensor_map serve rest with None => None | Some m => Some (ids :: m) end
                 end
  end.
(* GetSensorInfo: [inlet; cpu; baseboard] *)
Definition get_sensor_info (serve : N -> N -> option (N * list N)) : option (list (list N)) :=
  match sensor_map serve ipmi_entities with
  | Some m => if Nat.ltb 0 (length (concat m)) then Some m else sensor_map serve dcmi_entities
  | None => sensor_map serve dcmi_entities
  end.

(* ===================== SDR repository walk ===================== *)
(* [get res rec off len] answers Get SDR: (next record ID, bytes) *)
Definition sdr_server := N -> N -> N -> N -> option (N * bytes).

Inductive wres := WOk (m : list (N * fsr)) | WErr | WOutOfFuel.
Fixpoint walk (get : sdr_server) (res : N) (rec : N) (fuel : nat) (acc : list (N * fsr)) : wres :=
  if rec =? 0xffff then WOk acc else
  match fuel with
  | O => WOutOfFuel
  | S f =>
      match get res rec 0 5 with
      | None => WErr
      | Some (next, hdr) =>
          match decode_sdrhdr sdrhdr_zero hdr with
          | Ok h =>
              if sh_type h =? 0x01 then
                if 64 <? sh_length h then WErr else
                match get res rec 5 (sh_length h) with
                | None => WErr
                | Some (next2, body) =>
                    match decode_fsr fsr_zero body with
                    | Ok r =>
                        (* map assignment: a later record with the same key replaces an earlier one *)
                        let acc' := filter (fun kv => negb (fst kv =? sh_id h)) acc ++ [(sh_id h, r)] in
                        walk get res next2 f acc'
                    | _ => WErr
                    end
                end
              else walk get res next f acc
          | _ => WErr
          end
      end
  end.

(* RetrieveSDRRepository, one round: info, reserve, walk, info; [None] when the round must be retried.
   [info0], [info1]: the BMC's answers to the Get SDR Repository Info before and after the walk *)
Definition retrieve_round (info0 info1 : option (N * N)) (reserve : unit -> option N) (get : sdr_server) (fuel : nat)
  : option (list (N * fsr)) :=
  match info0 with
  | None => None
  | Some (add0, erase0) =>
      match reserve tt with
      | None => None
      | Some rid =>
          match walk get rid 0 fuel [] with
          | WOk m =>
              match info1 with
              | Some (add1, erase1) => if (add0 <? add1) || (erase0 <? erase1) then None else Some m
              | None => None
              end
          | _ => None
          end
      end
  end.

(* ===================== sensor reading ===================== *)
Definition pow10 (k : Z) : Q := if (0 <=? k)%Z then inject_Z (10 ^ k) else (/ inject_Z (10 ^ (- k)))%Q.
(* ConversionFactors.ConvertReading, exact arithmetic: (M*raw + B*10^BExp) * 10^RExp *)
Definition convert_reading (m b bexp rexp : Z) (raw : Z) : Q :=
  ((inject_Z (m * raw) + inject_Z b * pow10 bexp) * pow10 rexp)%Q.

Inductive reader := RLinear (parse : N -> Z) | RLinearised (parse : N -> Z) (code : N) | RNone.
(* NewSensorReader *)
Definition new_sensor_reader (r : fsr) : reader :=
  let lin := f_linearisation r in
  if lin =? 0 then match Impl.analog_parser (f_format r) with Some p => RLinear p | None => RNone end
  else if (0 <? lin) && (lin <? 12) then match Impl.analog_parser (f_format r) with Some p => RLinearised p lin | None => RNone end
  else RNone.

Inductive reading := RdValue (linear : Q) (lineariser : N) | RdUnavailable | RdScanningDisabled.
(* linearSensorReader.Read / linearisedSensorReader.Read after a successful Get Sensor Reading *)
Definition read_sensor (r : fsr) (rd : reader) (rsp : sensorreading) : option reading :=
  match rd with
  | RNone => None
  | RLinear p | RLinearised p _ =>
      if sr_unavailable rsp then Some RdUnavailable
      else if negb (sr_scanning rsp) then Some RdScanningDisabled
      else Some (RdValue (convert_reading (f_m r) (f_b r) (f_bexp r) (f_rexp r) (p (sr_reading rsp)))
                         (match rd with RLinearised _ c => c | _ => 0 end))
  end.
