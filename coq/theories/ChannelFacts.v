(* ChannelFacts.v — facts used by the handshake theorems: a session-setup
   payload sent by the other side in a well-formed datagram is what the
   console's receive loop hands on; HMAC does not distinguish a key from the
   same key zero-padded (within the block size). *)
From BMC Require Import Base BaseFacts Prim Layers Layers2 Serialize Packet Conn Hmac LayerTotal.
From Coq Require Import ZifyN ZifyNat ZifyBool.
Ltac Zify.zify_post_hook ::= Z.div_mod_to_equations.

(* ---------- HMAC and zero-padded keys ---------- *)
Lemma repeat_app_plus {A} (x : A) a b : repeat x a ++ repeat x b = repeat x (a + b).
Proof. induction a; simpl; [reflexivity|]. f_equal. exact IHa. Qed.

Lemma hmac_key_zero_pad H k n :
  (length k + n <= 64)%nat -> hmac_key H (k ++ repeat 0 n) = hmac_key H k.
Proof.
  intros Hl. unfold hmac_key, hmac_block. rewrite app_length, repeat_length.
  destruct (Nat.ltb_spec 64 (length k + n)); [lia|]. destruct (Nat.ltb_spec 64 (length k)); [lia|].
  rewrite <- app_assoc, repeat_app_plus. f_equal. f_equal. rewrite app_length, repeat_length. lia.
Qed.

Theorem hmac_zero_pad H k n m : (length k + n <= 64)%nat -> hmac H (k ++ repeat 0 n) m = hmac H k m.
Proof. intros Hl. unfold hmac. rewrite hmac_key_zero_pad by exact Hl. reflexivity. Qed.

(* ---------- a setup payload in a null-session datagram is accepted as such ---------- *)
Lemma slice_app_mid (pre p post : bytes) :
  slice (length pre) (length pre + length p) (pre ++ p ++ post) = Ok p.
Proof.
  unfold slice. destruct (Nat.leb_spec (length pre) (length pre + length p)); [|lia].
  rewrite !app_length. destruct (Nat.leb_spec (length pre + length p) (length pre + (length p + length post))); [|lia].
  cbn [andb]. f_equal. rewrite skipn_app, skipn_all, Nat.sub_diag. cbn [skipn app].
  replace (length pre + length p - length pre)%nat with (length p) by lia.
  rewrite firstn_app, firstn_all, Nat.sub_diag. cbn [firstn]. apply app_nil_r.
Qed.

Lemma put_le16_len n : n < 65536 -> le16 (n mod 256) ((n / 256) mod 256) = n.
Proof. exact (le16_put n). Qed.

Lemma small_ptype_bits pt : pt < 64 -> tbit 7 pt = false /\ tbit 6 pt = false /\ N.land pt 63 = pt.
Proof.
  intros H.
  assert (S : forallb (fun x => negb (tbit 7 x) && negb (tbit 6 x) && (N.land x 63 =? x)) (N_seq 64) = true)
    by (vm_cast_no_check (eq_refl true)).
  pose proof (sweep_n 64 _ S pt H) as P. apply andb_true_iff in P. destruct P as [P P3].
  apply andb_true_iff in P. destruct P as [P1 P2]. apply negb_true_iff in P1, P2. apply N.eqb_eq in P3. auto.
Qed.

(* an unauthenticated, non-OEM wrapper decodes to its fields and payload, whatever follows the payload is ignored *)
Lemma decode_v2_plain sign old pt id sq p :
  pt < 64 -> pt <> 2 -> id < 4294967296 -> sq < 4294967296 -> N.of_nat (length p) < 65536 ->
  decode_v2session sign old ([6; pt] ++ put_le32 id ++ put_le32 sq ++ put_le16 (N.of_nat (length p)) ++ p) =
  Ok {| v2_ptype := pt; v2_enterprise := 0; v2_pid := 0; v2_encrypted := false; v2_authenticated := false;
        v2_id := id; v2_sequence := sq; v2_length := N.of_nat (length p); v2_pad := 0; v2_signature := []; v2_payload := p |}.
Proof.
  intros Hpt Hne Hid Hsq Hl. destruct (small_ptype_bits pt Hpt) as [B7 [B6 BL]].
  set (len := N.of_nat (length p)) in *.
  unfold decode_v2session, guard, put_le32, put_le16. cbn [app length].
  destruct (Nat.ltb_spec (S (S (S (S (S (S (S (S (S (S (S (S (length p))))))))))))) 12); [lia|].
  cbn [get nth_error bind]. cbn [N.eqb Pos.eqb negb]. rewrite B7, B6, BL.
  destruct (pt =? 2) eqn:E2; [apply N.eqb_eq in E2; contradiction|].
  cbn [bind]. unfold get_le32, get_le16. cbn [get nth_error bind Nat.add].
  rewrite (le32_put id Hid), (le32_put sq Hsq), (le16_put len Hl). cbn [negb].
  assert (Hn : N.to_nat len = length p) by (subst len; apply Nat2N.id). rewrite Hn.
  rewrite Nat.ltb_irrefl.
  pose proof (slice_app_mid [6; pt; id mod 256; (id / 256) mod 256; (id / 65536) mod 256; (id / 16777216) mod 256;
                             sq mod 256; (sq / 256) mod 256; (sq / 65536) mod 256; (sq / 16777216) mod 256;
                             len mod 256; (len / 256) mod 256] p []) as S.
  rewrite app_nil_r in S. cbn [length app Nat.add] in S. rewrite S. reflexivity.
Qed.

Theorem setup_payload_accepted ptype p :
  In ptype [0x11; 0x13; 0x15] -> N.of_nat (length p) < 65536 ->
  exists pkt, payload_packet ptype p = Ok pkt /\ payload_verdict pkt = PAccept p.
Proof.
  intros Hin Hl.
  assert (Hpt : ptype < 64 /\ ptype <> 2 /\ ptype <> 0) by (destruct Hin as [<-|[<-|[<-|[]]]]; repeat split; lia).
  destruct Hpt as [Hpt [Hne2 Hne0]].
  set (w := [6; ptype] ++ put_le32 0 ++ put_le32 0 ++ put_le16 (N.of_nat (length p)) ++ p).
  assert (E : payload_packet ptype p = Ok ([6; 0; 0xff; 7] ++ w)).
  { unfold payload_packet, ser_v2session, ser_rmcp, w. unfold u16. rewrite (N.mod_small (N.of_nat (length p))) by lia.
    destruct Hin as [<-|[<-|[<-|[]]]]; reflexivity. }
  exists ([6; 0; 0xff; 7] ++ w). split; [exact E|].
  assert (Hw : (12 <= length w)%nat) by (unfold w, put_le32, put_le16; cbn [app length]; lia).
  assert (W0 : exists r, w = 6 :: r) by (unfold w; cbn [app]; eauto). destruct W0 as [wr Wr].
  unfold payload_verdict, receive.
  assert (R : decode_rmcp rmcp_zero ([6; 0; 255; 7] ++ w) =
              Ok {| rm_version := 6; rm_sequence := 255; rm_ack := false; rm_class := 7; rm_payload := w |}).
  { unfold decode_rmcp, guard. cbn [app length]. destruct (Nat.ltb_spec (S (S (S (S (length w))))) 4); [lia|]. reflexivity. }
  rewrite R. cbn [bind rm_payload rm_class].
  destruct (Nat.eqb (length w) 0) eqn:Z; [apply Nat.eqb_eq in Z; lia|].
  cbn [N.eqb Pos.eqb negb].
  assert (Sel : decode_selector selector_zero w = Ok {| sel_plus := true; sel_payload := w |}).
  { unfold decode_selector, guard. destruct (Nat.ltb_spec (length w) 1); [lia|]. rewrite Wr. reflexivity. }
  rewrite Sel. cbn [bind sel_plus sel_payload negb].
  unfold w at 1. rewrite (decode_v2_plain nil_sign v2session_zero ptype 0 0 p Hpt Hne2 ltac:(lia) ltac:(lia) Hl).
  cbn [bind v2_payload]. destruct (Nat.eqb (length p) 0); [reflexivity|].
  unfold v2_next. cbn [v2_ptype v2_enterprise v2_pid v2_encrypted].
  destruct (ptype =? 0) eqn:E0; [apply N.eqb_eq in E0; contradiction|]. reflexivity.
Qed.
