(* SpecLayers.v — the specification side of the response layers: for every
   layer the wire encoding of a field record, written from the IPMI v2.0 /
   DCMI 1.5 tables with plain arithmetic (positional weights), independently
   of the bit operations of the decoders.  [shape] selects among the optional
   / variable tails the specification allows; an encoder returns None when the
   value is not representable in that shape (or a field is out of range). *)
From BMC Require Import Base Prim Layers Layers2.

Definition bn := b2n.
Definition fits (w : N) (x : N) : bool := x <? 2 ^ w.
Definition byte_list (bs : bytes) : bool := all_bytes bs.
Definition len_is (n : nat) (bs : bytes) : bool := Nat.eqb (length bs) n && all_bytes bs.
Definition opt (c : bool) (bs : bytes) : option bytes := if c then Some bs else None.

(* two's complement field of width w holding z *)
Definition fitz (w : N) (z : Z) : bool := ((- Z.of_N (2 ^ (w - 1)) <=? z) && (z <? Z.of_N (2 ^ (w - 1))))%Z.
Definition utwos (w : N) (z : Z) : N := Z.to_N (z mod Z.of_N (2 ^ w)).

(* BCD: two decimal digits *)
Definition bcd_enc (x : N) : N := 16 * (x / 10) + x mod 10.

Module SpecEnc.

Definition rmcp (v : rmcp) : option bytes :=
  opt (fits 8 (rm_version v) && fits 8 (rm_sequence v) && fits 4 (rm_class v) && byte_list (rm_payload v))
      ([rm_version v; 0; rm_sequence v; 128 * bn (rm_ack v) + rm_class v] ++ rm_payload v).

(* Get Device ID (IPMI 20.1); shape 0: with the 4 auxiliary bytes, 1: without *)
Definition deviceid (shape : N) (v : deviceid) : option bytes :=
  let ok := fits 8 (di_id v) && fits 4 (di_revision v) && fits 7 (di_fw_major v) && (di_fw_minor v <? 100)
            && fits 4 (di_ipmi_major v) && fits 4 (di_ipmi_minor v) && fits 24 (di_manufacturer v)
            && fits 16 (di_product v) && len_is 4 (di_aux v) in
  let body :=
    [di_id v; 128 * bn (di_sdrs v) + di_revision v; 128 * bn (negb (di_available v)) + di_fw_major v;
     bcd_enc (di_fw_minor v); 16 * di_ipmi_minor v + di_ipmi_major v;
     128 * bn (di_chassis v) + 64 * bn (di_bridge v) + 32 * bn (di_evgen v) + 16 * bn (di_evrcv v)
       + 8 * bn (di_fru v) + 4 * bn (di_sel v) + 2 * bn (di_sdrrepo v) + bn (di_sensor v)]
    ++ put_le24 (di_manufacturer v) ++ put_le16 (di_product v) in
  match shape with
  | 0 => opt ok (body ++ di_aux v)
  | _ => opt (ok && (if list_eq_dec N.eq_dec (di_aux v) (zeros 4) then true else false)) body
  end.

(* Get Chassis Status (28.2); shape 0: with the front-panel byte, 1: without *)
Definition chassis (shape : N) (v : chassis) : option bytes :=
  let ident_ok := (cs_identify v <? 4) || (cs_identify v =? 0xff) in
  let b2 := (if cs_identify v =? 0xff then 0 else 64 + 16 * cs_identify v)
            + 8 * bn (cs_cooling v) + 4 * bn (cs_drive v) + 2 * bn (cs_lockout v) + bn (cs_intrusion v) in
  let b3 := 128 * bn (cs_b7 v) + 64 * bn (cs_b6 v) + 32 * bn (cs_b5 v) + 16 * bn (cs_b4 v) + 8 * bn (cs_b3 v)
            + 4 * bn (cs_b2 v) + 2 * bn (cs_b1 v) + bn (cs_b0 v) in
  let body :=
    [32 * cs_policy v + 16 * bn (cs_ctlfault v) + 8 * bn (cs_fault v) + 4 * bn (cs_interlock v)
       + 2 * bn (cs_overload v) + bn (cs_on v);
     16 * bn (cs_on_ipmi v) + 8 * bn (cs_l_fault v) + 4 * bn (cs_l_interlock v) + 2 * bn (cs_l_overload v)
       + bn (cs_l_supply v);
     b2] in
  let ok := fits 2 (cs_policy v) && ident_ok && byte_list (cs_payload v) in
  match shape with
  | 0 => opt ok (body ++ [b3] ++ cs_payload v)
  | _ => opt (ok && (b3 =? 0) && Nat.eqb (length (cs_payload v)) 0) body
  end.

(* Get Channel Authentication Capabilities (22.13); flag fields are the raw
   bits as the library names them (DESIGN.md observation O5) *)
Definition authcaps (v : authcaps) : option bytes :=
  opt (fits 8 (ac_channel v) && fits 24 (ac_oem_id v) && fits 8 (ac_oem_data v) && byte_list (ac_payload v))
  ([ac_channel v;
    128 * bn (ac_extended v) + 32 * bn (ac_oem v) + 16 * bn (ac_password v) + 4 * bn (ac_md5 v) + 2 * bn (ac_md2 v) + bn (ac_none v);
    32 * bn (ac_twokey v) + 16 * bn (ac_permsg v) + 8 * bn (ac_userlevel v) + 4 * bn (ac_nonnull v) + 2 * bn (ac_null v) + bn (ac_anon v);
    2 * bn (ac_v2 v) + bn (ac_v1 v)] ++ put_le24 (ac_oem_id v) ++ [ac_oem_data v] ++ ac_payload v).

(* Get Channel Cipher Suites (22.15): channel then up to 16 record bytes *)
Definition ciphersuites (v : ciphersuites) : option bytes :=
  opt (fits 8 (cc_channel v) && Nat.leb (length (cc_chunk v)) 16 && byte_list (cc_chunk v) && byte_list (cc_payload v)
       && (Nat.eqb (length (cc_payload v)) 0 || Nat.eqb (length (cc_chunk v)) 16))
      ([cc_channel v] ++ cc_chunk v ++ cc_payload v).

(* Get Session Info (22.20); shape 0: no active session (3 bytes), 1: 6 bytes, 2: with LAN address block *)
Definition sessioninfo (shape : N) (v : sessioninfo) : option bytes :=
  let head := [si_handle v; si_max v; si_active v] in
  let mid := [si_user v; si_priv v; 16 * (if si_v2 v then 1 else 0) + si_channel v] in
  let ok3 := fits 8 (si_handle v) && fits 8 (si_max v) && fits 8 (si_active v) in
  let ok6 := ok3 && fits 6 (si_user v) && fits 4 (si_priv v) && fits 4 (si_channel v) in
  match shape with
  | 0 => opt (ok3 && (si_handle v =? 0) && (si_user v =? 0) && (si_priv v =? 0) && negb (si_v2 v) && (si_channel v =? 0)
              && Nat.eqb (length (si_ip v)) 0 && Nat.eqb (length (si_mac v)) 0 && (si_port v =? 0)
              && Nat.eqb (length (si_payload v)) 0) head
  | 1 => opt (ok6 && Nat.eqb (length (si_ip v)) 0 && Nat.eqb (length (si_mac v)) 0 && (si_port v =? 0)
              && Nat.ltb (length (si_payload v)) 12 && byte_list (si_payload v)) (head ++ mid ++ si_payload v)
  | _ => opt (ok6 && len_is 16 (si_ip v) && (if list_eq_dec N.eq_dec (firstn 12 (si_ip v)) [0;0;0;0;0;0;0;0;0;0;0xff;0xff] then true else false)
              && len_is 6 (si_mac v) && fits 16 (si_port v) && byte_list (si_payload v))
             (head ++ mid ++ skipn 12 (si_ip v) ++ si_mac v ++ put_le16 (si_port v) ++ si_payload v)
  end.

Definition setpriv (v : setpriv) : option bytes := opt (fits 4 (sp_level v)) [sp_level v].
Definition guid (v : guid) : option bytes := opt (len_is 16 (gu_guid v)) (gu_guid v).
Definition reserve (v : reserve) : option bytes := opt (fits 16 (rs_id v)) (put_le16 (rs_id v)).
Definition getsdrrsp (v : getsdrrsp) : option bytes :=
  opt (fits 16 (gs_next v) && byte_list (gs_payload v)) (put_le16 (gs_next v) ++ gs_payload v).

(* SDR header (43.1 bytes 1..5): version byte holds BCD major in the low nibble, minor in the high *)
Definition sdrhdr (v : sdrhdr) : option bytes :=
  opt (fits 16 (sh_id v) && (sh_version v <? 100) && fits 8 (sh_type v) && fits 8 (sh_length v) && byte_list (sh_payload v))
      (put_le16 (sh_id v) ++ [16 * (sh_version v mod 10) + sh_version v / 10; sh_type v; sh_length v] ++ sh_payload v).

Definition sdrrepoinfo (v : sdrrepoinfo) : option bytes :=
  opt ((ri_version v <? 100) && fits 16 (ri_records v) && fits 16 (ri_free v) && fits 32 (ri_addition v)
       && fits 32 (ri_erase v) && byte_list (ri_payload v))
      ([16 * (ri_version v mod 10) + ri_version v / 10] ++ put_le16 (ri_records v) ++ put_le16 (ri_free v)
       ++ put_le32 (ri_addition v) ++ put_le32 (ri_erase v)
       ++ [128 * bn (ri_overflow v) + 64 * bn (ri_modal v) + 32 * bn (ri_nonmodal v) + 8 * bn (ri_delete v)
           + 4 * bn (ri_partial v) + 2 * bn (ri_reserve v) + bn (ri_alloc v)] ++ ri_payload v).

(* Get Sensor Reading (35.14): reading, flags, then 1 or 2 state bytes (contents not decoded; emitted as zero) *)
Definition sensorreading (shape : N) (v : sensorreading) : option bytes :=
  let head := [sr_reading v; 128 * bn (sr_events v) + 64 * bn (sr_scanning v) + 32 * bn (sr_unavailable v)] in
  match shape with
  | 0 => opt (fits 8 (sr_reading v) && Nat.eqb (length (sr_payload v)) 0) (head ++ [0])
  | _ => opt (fits 8 (sr_reading v) && byte_list (sr_payload v)) (head ++ [0; 0] ++ sr_payload v)
  end.

(* ID string field: type/length byte and data, for a string given as the
   characters the library returns *)
Definition idstring (enc : N) (s : bytes) : option bytes :=
  let n := N.of_nat (length s) in
  if negb (n <? 32) then None else
  match enc with
  | 1 => (* BCD plus *)
      if forallb (fun r => match Spec.bcd_plus_code r with Some _ => true | None => false end) s
      then Some ((64 * 1 + n) :: Spec.pack_nibbles (map (fun r => match Spec.bcd_plus_code r with Some c => c | None => 0 end) s))
      else None
  | 2 => if forallb (fun r => (0x20 <=? r) && (r <? 0x60)) s
         then Some ((64 * 2 + n) :: Spec.pack6 (map (fun r => r - 0x20) s)) else None
  | 3 => if byte_list s && negb (n =? 1) then Some ((64 * 3 + n) :: s) else None
  | _ => if byte_list s && negb (n =? 1) then Some ((64 * 0 + n) :: s) else None
  end.

(* Full Sensor Record body (43.1, record bytes 6..) with the given string encoding;
   bytes the library does not decode are emitted as zero *)
Definition fsr (enc : N) (v : fsr) : option bytes :=
  let m := utwos 10 (f_m v) in let b := utwos 10 (f_b v) in let a := utwos 10 (f_accuracy v) in
  match idstring enc (f_identity v) with
  | None => None
  | Some ids =>
    opt (fits 8 (f_owner v) && fits 4 (f_channel v) && fits 2 (f_lun v) && fits 8 (f_number v)
         && fitz 10 (f_m v) && fitz 10 (f_b v) && fitz 4 (f_bexp v) && fitz 4 (f_rexp v)
         && fits 8 (f_entity v) && fits 7 (f_instance v) && fits 8 (f_sensortype v) && fits 8 (f_outputtype v)
         && fits 2 (f_format v) && fits 3 (f_rate v) && fits 8 (f_baseunit v) && fits 8 (f_modunit v)
         && fits 7 (f_linearisation v) && fits 6 (f_tolerance v) && fitz 10 (f_accuracy v) && fits 2 (f_accexp v)
         && fits 2 (f_direction v) && fits 8 (f_nominal v) && fits 8 (f_normmin v) && fits 8 (f_normmax v)
         && fits 8 (f_sensormin v) && fits 8 (f_sensormax v) && byte_list (f_payload v))
    ([f_owner v; 16 * f_channel v + f_lun v; f_number v;                         (* 6 7 8 *)
      f_entity v; 128 * bn (f_container v) + f_instance v;                        (* 9 10 *)
      0; 128 * bn (f_ignore v); f_sensortype v; f_outputtype v;                   (* 11 12 13 14 *)
      0; 0; 0; 0; 0; 0;                                                           (* 15..20 masks *)
      64 * f_format v + 8 * f_rate v + bn (f_percentage v);                       (* 21 units 1 *)
      f_baseunit v; f_modunit v; f_linearisation v;                               (* 22 23 24 *)
      m mod 256; 64 * (m / 256) + f_tolerance v;                                  (* 25 26 *)
      b mod 256; 64 * (b / 256) + a mod 64;                                       (* 27 28 *)
      16 * (a / 64) + 4 * f_accexp v + f_direction v;                             (* 29 *)
      16 * utwos 4 (f_rexp v) + utwos 4 (f_bexp v);                               (* 30 *)
      4 * bn (f_normmin_spec v) + 2 * bn (f_normmax_spec v) + bn (f_nominal_spec v);   (* 31 *)
      f_nominal v; f_normmax v; f_normmin v; f_sensormax v; f_sensormin v;        (* 32..36 *)
      0; 0; 0; 0; 0; 0; 0; 0; 0; 0; 0]                                            (* 37..47 *)
     ++ ids ++ f_payload v)
  end.

(* RMCP+ Open Session Response (13.18); shape 0: success (36 bytes), 1: error, 8 bytes, 2: error, status only *)
Definition algpayload (tag : N) (a : algpayload) : bytes :=
  [tag; 0; 0; if ap_wildcard a then 0 else 8; ap_alg a; 0; 0; 0].
Definition opensessionrsp (shape : N) (v : opensessionrsp) : option bytes :=
  let algok a := fits 6 (ap_alg a) && (negb (ap_wildcard a) || (ap_alg a =? 0)) in
  let zero a := negb (ap_wildcard a) && (ap_alg a =? 0) in
  match shape with
  | 0 => opt (fits 8 (os_tag v) && (os_status v =? 0) && fits 8 (os_maxpriv v) && fits 32 (os_console_id v)
              && fits 32 (os_bmc_id v) && algok (os_auth v) && algok (os_integ v) && algok (os_conf v))
             ([os_tag v; 0; os_maxpriv v; 0] ++ put_le32 (os_console_id v) ++ put_le32 (os_bmc_id v)
              ++ algpayload 0 (os_auth v) ++ algpayload 1 (os_integ v) ++ algpayload 2 (os_conf v))
  | 1 => opt (fits 8 (os_tag v) && fits 8 (os_status v) && negb (os_status v =? 0) && (os_maxpriv v =? 0)
              && fits 32 (os_console_id v) && (os_console_id v mod 256 =? 0) && (os_bmc_id v =? 0)
              && zero (os_auth v) && zero (os_integ v) && zero (os_conf v))
             (* the library reads the ID from bytes 3..6 of an error response (DESIGN.md observation O6) *)
             ([os_tag v; os_status v; 0] ++ put_le32 (os_console_id v) ++ [0])
  | _ => opt ((os_tag v =? 0) && fits 8 (os_status v) && negb (os_status v =? 0) && (os_maxpriv v =? 0)
              && (os_console_id v =? 0) && (os_bmc_id v =? 0) && zero (os_auth v) && zero (os_integ v) && zero (os_conf v))
             [os_status v]
  end.

(* RAKP 2 (13.21), RAKP 4 (13.23); shape 0: success, 1: error (8 bytes) *)
Definition rakp2 (shape : N) (v : rakp2) : option bytes :=
  let head := [r2_tag v; r2_status v; 0; 0] ++ put_le32 (r2_console_id v) in
  let hok := fits 8 (r2_tag v) && fits 8 (r2_status v) && fits 32 (r2_console_id v) in
  match shape with
  | 0 => opt (hok && (r2_status v =? 0) && len_is 16 (r2_random v) && len_is 16 (r2_guid v) && byte_list (r2_authcode v))
             (head ++ r2_random v ++ r2_guid v ++ r2_authcode v)
  | _ => opt (hok && negb (r2_status v =? 0) && (if list_eq_dec N.eq_dec (r2_random v) (zeros 16) then true else false)
              && (if list_eq_dec N.eq_dec (r2_guid v) (zeros 16) then true else false) && Nat.eqb (length (r2_authcode v)) 0) head
  end.
Definition rakp4 (shape : N) (v : rakp4) : option bytes :=
  let head := [r4_tag v; r4_status v; 0; 0] ++ put_le32 (r4_console_id v) in
  let hok := fits 8 (r4_tag v) && fits 8 (r4_status v) && fits 32 (r4_console_id v) in
  match shape with
  | 0 => opt (hok && (r4_status v =? 0) && byte_list (r4_icv v)) (head ++ r4_icv v)
  | _ => opt (hok && negb (r4_status v =? 0) && Nat.eqb (length (r4_icv v)) 0) head
  end.

(* DCMI Get Capabilities Info (DCMI 6.1): version prefix then the parameter's bytes.
   For versions other than 1.0 fields the specification defines as reserved /
   mandatory are not transmitted (emitted as 0) and must hold the value the
   specification implies. *)
Definition v10 (mj mn : N) : bool := (mj =? 1) && (mn =? 0).
Definition dcmicaps (v : dcmicaps) : option bytes :=
  let old := v10 (dc_major v) (dc_minor v) in
  let hdr_ok := fits 8 (dc_major v) && fits 8 (dc_minor v) && fits 8 (dc_rev v) && byte_list (dc_payload v) in
  if old then
    opt (hdr_ok && negb (dc_sysif v))
      ([dc_major v; dc_minor v; dc_rev v;
        8 * bn (dc_temp v) + 4 * bn (dc_chassis v) + 2 * bn (dc_sel v) + bn (dc_ident v);
        bn (dc_power v);
        32 * bn (dc_vlan v) + 16 * bn (dc_sol v) + 8 * bn (dc_oob1 v) + 4 * bn (dc_oob2 v) + 2 * bn (dc_serial v) + bn (dc_kcs v)]
       ++ dc_payload v)
  else
    opt (hdr_ok && dc_temp v && dc_chassis v && dc_sel v && dc_ident v && dc_vlan v && dc_sol v && dc_oob1 v && dc_kcs v)
      ([dc_major v; dc_minor v; dc_rev v; 0; bn (dc_power v);
        4 * bn (dc_oob2 v) + 2 * bn (dc_serial v) + bn (dc_sysif v)] ++ dc_payload v).

Definition dcmimand (v : dcmimand) : option bytes :=
  let old := v10 (dm_major v) (dm_minor v) in
  (* SEL entry count: low nibble of the first byte and the whole second byte, as
     the library documents it (DESIGN.md observation O2) *)
  let hdr_ok := fits 8 (dm_major v) && fits 8 (dm_minor v) && fits 8 (dm_rev v) && fits 16 (dm_maxentries v)
                && (dm_maxentries v mod 256 <? 16) && byte_list (dm_payload v) in
  if old then
    opt (hdr_ok && negb (dm_flush v) && negb (dm_recflush v) && (dm_freq v =? 0)%Z)
      ([dm_major v; dm_minor v; dm_rev v;
        128 * bn (dm_rollover v) + dm_maxentries v mod 256; dm_maxentries v / 256;
        4 * bn (dm_asset v) + 2 * bn (dm_dhcp v) + bn (dm_guid v);
        4 * bn (dm_baseboard v) + 2 * bn (dm_proc v) + bn (dm_inlet v)] ++ dm_payload v)
  else
    opt (hdr_ok && dm_asset v && dm_dhcp v && dm_guid v && dm_baseboard v && dm_proc v && dm_inlet v
         && (0 <=? dm_freq v)%Z && (dm_freq v <? 256000000000)%Z && (dm_freq v mod 1000000000 =? 0)%Z)
      ([dm_major v; dm_minor v; dm_rev v;
        128 * bn (dm_rollover v) + 64 * bn (dm_flush v) + 32 * bn (dm_recflush v) + dm_maxentries v mod 256;
        dm_maxentries v / 256; 0; 0; Z.to_N (dm_freq v / 1000000000)] ++ dm_payload v).

Definition dcmiopt (v : dcmiopt) : option bytes :=
  opt (fits 8 (do_major v) && fits 8 (do_minor v) && fits 8 (do_rev v) && fits 7 (do_slave v) && fits 4 (do_channel v)
       && fits 4 (do_pmrev v) && byte_list (do_payload v))
      ([do_major v; do_minor v; do_rev v; 2 * do_slave v; 16 * do_channel v + do_pmrev v] ++ do_payload v).
Definition dcmimgmt (v : dcmimgmt) : option bytes :=
  opt (fits 8 (dg_major v) && fits 8 (dg_minor v) && fits 8 (dg_rev v) && fits 8 (dg_primary v) && fits 8 (dg_secondary v)
       && fits 8 (dg_serial v) && byte_list (dg_payload v))
      ([dg_major v; dg_minor v; dg_rev v; dg_primary v; dg_secondary v; dg_serial v] ++ dg_payload v).
(* rolling-average periods are given in seconds; only canonical periods are encodable *)
Definition dcmipower (v : dcmipower) : option bytes :=
  opt (fits 8 (dp_major v) && fits 8 (dp_minor v) && fits 8 (dp_rev v) && Nat.ltb (length (dp_periods v)) 256
       && forallb (fun s => Spec.rolling_duration (Spec.rolling_byte s) =? s) (dp_periods v) && byte_list (dp_payload v))
      ([dp_major v; dp_minor v; dp_rev v; N.of_nat (length (dp_periods v))] ++ map Spec.rolling_byte (dp_periods v) ++ dp_payload v).
Definition powerreading (v : powerreading) : option bytes :=
  opt (fits 16 (pr_inst v) && fits 16 (pr_min v) && fits 16 (pr_max v) && fits 16 (pr_avg v) && fits 32 (pr_timestamp v)
       && fits 32 (pr_period_ms v))
      (put_le16 (pr_inst v) ++ put_le16 (pr_min v) ++ put_le16 (pr_max v) ++ put_le16 (pr_avg v)
       ++ put_le32 (pr_timestamp v) ++ put_le32 (pr_period_ms v) ++ [64 * bn (pr_active v)]).
Definition dcmisensor (v : dcmisensor) : option bytes :=
  opt (fits 8 (ds_instances v) && Nat.ltb (length (ds_ids v)) 256 && forallb (fits 16) (ds_ids v) && byte_list (ds_payload v))
      ([ds_instances v; N.of_nat (length (ds_ids v))] ++ flat_map put_le16 (ds_ids v) ++ ds_payload v).

End SpecEnc.
