(* Hmac.v — HMAC (RFC 2104) defined over an abstract hash with 64-byte
   blocks, instantiated with the executable MD5 / SHA-1 / SHA-256, plus the
   algorithm tables of authenticator.go / hasher.go as they are used by the
   model (the tables themselves are tied to the source through Generated.v). *)
From BMC Require Import Base Md5 Sha1 Sha256.

Section HMAC.
  Variable H : bytes -> bytes.
  Definition hmac_block : nat := 64.
  Definition hmac_key (key : bytes) : bytes :=
    let k := if Nat.ltb hmac_block (length key) then H key else key in
    k ++ repeat 0 (hmac_block - length k).
  Definition hmac (key msg : bytes) : bytes :=
    let k := hmac_key key in
    H (map (N.lxor 0x5c) k ++ H (map (N.lxor 0x36) k ++ msg)).
End HMAC.

(* hash algorithms: 1 = SHA-1, 2 = MD5, 3 = SHA-256 (numbered as the IPMI
   authentication algorithms that use them) *)
Definition hash_of (a : N) : bytes -> bytes :=
  match a with 1 => sha1 | 2 => md5 | 3 => sha256 | _ => fun _ => [] end.
Definition hmac_alg (a : N) (key msg : bytes) : bytes := hmac (hash_of a) key msg.

(* RFC 2202 / RFC 4231 vectors *)
Definition ascii (s : list N) := s.
Example hmac_md5_rfc2202_1 :
  hmac md5 (repeat 0x0b 16) [72;105;32;84;104;101;114;101] =
  [0x92;0x94;0x72;0x7a;0x36;0x38;0xbb;0x1c;0x13;0xf4;0x8e;0xf8;0x15;0x8b;0xfc;0x9d].
Proof. vm_compute. reflexivity. Qed.
Example hmac_sha1_rfc2202_1 :
  hmac sha1 (repeat 0x0b 20) [72;105;32;84;104;101;114;101] =
  [0xb6;0x17;0x31;0x86;0x55;0x05;0x72;0x64;0xe2;0x8b;0xc0;0xb6;0xfb;0x37;0x8c;0x8e;0xf1;0x46;0xbe;0x00].
Proof. vm_compute. reflexivity. Qed.
Example hmac_sha256_rfc4231_1 :
  hmac sha256 (repeat 0x0b 20) [72;105;32;84;104;101;114;101] =
  [0xb0;0x34;0x4c;0x61;0xd8;0xdb;0x38;0x53;0x5c;0xa8;0xaf;0xce;0xaf;0x0b;0xf1;0x2b;
   0x88;0x1d;0xc2;0x00;0xc9;0x83;0x3d;0xa7;0x26;0xe9;0x37;0x6c;0x2e;0x32;0xcf;0xf7].
Proof. vm_compute. reflexivity. Qed.
(* key longer than the block (RFC 4231 test 6) *)
Example hmac_sha256_rfc4231_6_prefix :
  firstn 4 (hmac sha256 (repeat 0xaa 131)
    [84;101;115;116;32;85;115;105;110;103;32;76;97;114;103;101;114;32;84;104;97;110;32;66;108;111;99;107;45;83;105;122;101;
     32;75;101;121;32;45;32;72;97;115;104;32;75;101;121;32;70;105;114;115;116]) = [0x60;0xe4;0x31;0x59].
Proof. vm_compute. reflexivity. Qed.

(* algorithmHasher (hasher.go): integrity algorithm -> (hash, truncation) *)
Definition integrity_params (alg : N) : option (option (N * nat)) :=
  match alg with
  | 0 => Some None                   (* IntegrityAlgorithmNone: nil hash *)
  | 1 => Some (Some (1, 12%nat))     (* HMAC-SHA1-96 *)
  | 2 => Some (Some (2, 16%nat))     (* HMAC-MD5-128 *)
  | 4 => Some (Some (3, 16%nat))     (* HMAC-SHA256-128 *)
  | _ => None
  end.
(* the signing function of a session: executeHash(hasher, ·) *)
Definition integrity_sign (alg : N) (k1 : bytes) : option (bytes -> bytes) :=
  match integrity_params alg with
  | Some None => Some (fun _ => [])
  | Some (Some (h, t)) => Some (fun m => firstn t (hmac_alg h k1 m))
  | None => None
  end.

(* algorithmAuthenticationHashGenerator (authenticator.go): (hash, ICV length; 0 = untruncated) *)
Definition auth_params (alg : N) : option (N * nat) :=
  match alg with
  | 1 => Some (1, 12%nat)
  | 3 => Some (3, 16%nat)
  | 2 => Some (2, 0%nat)
  | _ => None
  end.
