(* SdrProofs.v — C14: the SDR repository walk over a well-formed repository
   retrieves exactly the Full Sensor Records, in storage order, without
   exhausting its fuel; and the consistency check of one retrieval round.

   Two deviations from the statement as first posed (both have machine-checked
   counter-examples below):
     * the empty repository makes the walk fail (WErr), not return [];
     * a record other than the first whose ID is 0x0000 sends the walk back to
       the first record (0x0000 is the "first record" address), so the walk
       never terminates: WOutOfFuel for every fuel.
   [walkable] collects the two extra hypotheses. *)
From BMC Require Import Base BaseFacts Prim Layers Layers2 LayerTotal Proc Dispatch.
From Coq Require Import ZifyN ZifyNat ZifyBool.
Ltac Zify.zify_post_hook ::= Z.div_mod_to_equations.

(* ===================== well-formed repositories ===================== *)

Definition sdr_rec := (N * bytes)%type.

(* the decoded record of a body the decoder accepts *)
Definition fsr_of (body : bytes) : fsr :=
  match decode_fsr fsr_zero body with Ok r => r | _ => fsr_zero end.

Definition wf_rec (kv : sdr_rec) : Prop :=
  let '(id, data) := kv in
  id < 0xFFFF /\
  all_bytes data = true /\
  exists ver ty len rest,
    data = [id mod 256; id / 256; ver; ty; len] ++ rest /\
    len = N.of_nat (length rest) /\ len < 256 /\
    (ty = 0x01 -> len <= 64 /\ is_ok (decode_fsr fsr_zero rest) = true).

Definition wf_repo (recs : list sdr_rec) : Prop :=
  NoDup (map fst recs) /\ Forall wf_rec recs.

(* what the walk additionally needs: at least one record, and 0x0000 is not
   the ID of a record other than the first *)
Definition walkable (recs : list sdr_rec) : Prop :=
  recs <> [] /\ Forall (fun kv => fst kv <> 0) (tl recs).

Definition rec_type (data : bytes) : N := nth 3 data 0.
Definition rec_body (data : bytes) : bytes := skipn 5 data.

(* the Full Sensor Records of a repository, in storage order *)
Definition full_records (recs : list sdr_rec) : list (N * fsr) :=
  flat_map (fun kv => if rec_type (snd kv) =? 0x01 then [(fst kv, fsr_of (rec_body (snd kv)))] else []) recs.

Definition next_id (post : list sdr_rec) : N :=
  match post with (nid, _) :: _ => nid | [] => 0xffff end.

(* ===================== the server ===================== *)

Lemma sdr_lookup_cons id data post rec first :
  sdr_lookup ((id, data) :: post) rec first =
  if (first && (rec =? 0)) || (id =? rec) then Some (data, next_id post)
  else sdr_lookup post rec false.
Proof. destruct post as [|[nid nd] post']; reflexivity. Qed.

(* the first record is addressed as 0, whatever its own ID *)
Lemma lookup_first id data post :
  sdr_lookup ((id, data) :: post) 0 true = Some (data, next_id post).
Proof. rewrite sdr_lookup_cons. reflexivity. Qed.

(* a record is found by its ID when no earlier record has that ID and, if it
   is not the first record, its ID is not the "first record" address *)
Lemma lookup_mid id data post : forall pre first,
  ~ In id (map fst pre) ->
  (first = true -> pre <> [] -> id <> 0) ->
  sdr_lookup (pre ++ (id, data) :: post) id first = Some (data, next_id post).
Proof.
  induction pre as [|[i0 d0] pre IH]; intros first Hnin Hz.
  - cbn [app]. rewrite sdr_lookup_cons. rewrite N.eqb_refl, orb_true_r. reflexivity.
  - cbn [app]. rewrite sdr_lookup_cons.
    assert (Hne : i0 <> id) by (intro E; apply Hnin; left; exact E).
    apply N.eqb_neq in Hne. rewrite Hne.
    assert (Hf : (first && (id =? 0))%bool = false).
    { destruct first; [|reflexivity]. cbn [andb]. apply N.eqb_neq. apply Hz; [reflexivity|discriminate]. }
    rewrite Hf. cbn [orb]. apply IH.
    + intro Hin. apply Hnin. right. exact Hin.
    + discriminate.
Qed.

(* ===================== one step of the walk ===================== *)

Lemma walk_S get rid rec f acc :
  walk get rid rec (S f) acc =
  if rec =? 0xffff then WOk acc else
  match get rid rec 0 5 with
  | None => WErr
  | Some (next, hdr) =>
      match decode_sdrhdr sdrhdr_zero hdr with
      | Ok h =>
          if sh_type h =? 0x01 then
            if 64 <? sh_length h then WErr else
            match get rid rec 5 (sh_length h) with
            | None => WErr
            | Some (next2, body) =>
                match decode_fsr fsr_zero body with
                | Ok r => walk get rid next2 f (filter (fun kv => negb (fst kv =? sh_id h)) acc ++ [(sh_id h, r)])
                | _ => WErr
                end
            end
          else walk get rid next f acc
      | _ => WErr
      end
  end.
Proof. reflexivity. Qed.

Lemma walk_stop get rid f acc : walk get rid 0xffff f acc = WOk acc.
Proof. destruct f; reflexivity. Qed.

Lemma decode_sdrhdr_5 old a b v t l :
  decode_sdrhdr old [a; b; v; t; l] =
  Ok {| sh_id := le16 a b; sh_version := sdr_version v; sh_type := t; sh_length := l; sh_payload := [] |}.
Proof. reflexivity. Qed.

Lemma le16_split id : le16 (id mod 256) (id / 256) = id.
Proof. unfold le16. lia. Qed.

Lemma serve_sdr_hdr recs rid rec data nxt a b v t l rest :
  sdr_lookup recs rec true = Some (data, nxt) ->
  data = [a; b; v; t; l] ++ rest ->
  serve_sdr recs rid rec 0 5 = Some (nxt, [a; b; v; t; l]).
Proof.
  intros Hl ->. unfold serve_sdr. rewrite Hl.
  change (N.to_nat 5) with 5%nat. change (N.to_nat 0) with 0%nat. reflexivity.
Qed.

Lemma serve_sdr_body recs rid rec data nxt a b v t l rest :
  sdr_lookup recs rec true = Some (data, nxt) ->
  data = [a; b; v; t; l] ++ rest ->
  l = N.of_nat (length rest) ->
  serve_sdr recs rid rec 5 l = Some (nxt, rest).
Proof.
  intros Hl -> ->. unfold serve_sdr. rewrite Hl.
  change (N.to_nat 5) with 5%nat. rewrite Nat2N.id.
  cbn [app skipn]. rewrite firstn_all. reflexivity.
Qed.

Lemma rec_type_wf a b v t l rest : rec_type ([a; b; v; t; l] ++ rest) = t.
Proof. reflexivity. Qed.
Lemma rec_body_wf a b v t l rest : rec_body ([a; b; v; t; l] ++ rest) = rest.
Proof. reflexivity. Qed.

(* a full-sensor step and an other-type step *)
Lemma walk_step recs rid rec id data nxt f acc :
  wf_rec (id, data) ->
  rec <> 0xffff ->
  sdr_lookup recs rec true = Some (data, nxt) ->
  walk (serve_sdr recs) rid rec (S f) acc =
  if rec_type data =? 0x01
  then walk (serve_sdr recs) rid nxt f
            (filter (fun kv => negb (fst kv =? id)) acc ++ [(id, fsr_of (rec_body data))])
  else walk (serve_sdr recs) rid nxt f acc.
Proof.
  intros [Hid [Hbytes [ver [ty [len [rest [Hd [Hlen [Hlt Hfull]]]]]]]]] Hrec Hl.
  rewrite walk_S. apply N.eqb_neq in Hrec. rewrite Hrec.
  rewrite (serve_sdr_hdr recs rid rec data nxt _ _ _ _ _ rest Hl Hd).
  rewrite decode_sdrhdr_5. cbn [sh_type sh_length sh_id].
  rewrite le16_split.
  rewrite Hd at 1. rewrite rec_type_wf.
  destruct (N.eqb_spec ty 1) as [Ety|Nty]; [|reflexivity].
  destruct (Hfull Ety) as [H64 Hok].
  destruct (N.ltb_spec 64 len) as [Hbad|_]; [lia|].
  rewrite (serve_sdr_body recs rid rec data nxt _ _ _ _ _ rest Hl Hd Hlen).
  rewrite Hd. rewrite rec_body_wf. unfold fsr_of.
  destruct (decode_fsr fsr_zero rest); [reflexivity|discriminate|discriminate].
Qed.

(* ===================== the accumulator ===================== *)

(* the map assignment deletes nothing when the key is new *)
Lemma filter_fresh (id : N) (acc : list (N * fsr)) :
  ~ In id (map fst acc) ->
  filter (fun kv => negb (fst kv =? id)) acc = acc.
Proof.
  induction acc as [|[k r] acc IH]; intros Hnin; [reflexivity|].
  cbn [filter fst]. assert (Hne : k <> id) by (intro E; apply Hnin; left; exact E).
  apply N.eqb_neq in Hne. rewrite Hne. cbn [negb]. f_equal. apply IH.
  intro Hin. apply Hnin. right. exact Hin.
Qed.

Lemma full_records_keys recs k : In k (map fst (full_records recs)) -> In k (map fst recs).
Proof.
  induction recs as [|[id data] recs IH]; [auto|].
  unfold full_records. cbn [flat_map fst snd map].
  destruct (rec_type data =? 1); cbn [app map fst In]; intros H.
  - destruct H as [H|H]; [left; exact H|right; apply IH; exact H].
  - right. apply IH. exact H.
Qed.

Lemma full_records_app xs ys : full_records (xs ++ ys) = full_records xs ++ full_records ys.
Proof. unfold full_records. apply flat_map_app. Qed.

Lemma full_records_single id data :
  full_records [(id, data)] = if rec_type data =? 0x01 then [(id, fsr_of (rec_body data))] else [].
Proof.
  unfold full_records. cbn [flat_map fst snd]. destruct (rec_type data =? 1); reflexivity.
Qed.

(* ===================== the generalised walk ===================== *)

(* walking from the address of the first record of [post], having accumulated
   the full records of [pre] *)
Lemma walk_from rid : forall post pre rec f id data post',
  post = (id, data) :: post' ->
  NoDup (map fst (pre ++ post)) ->
  Forall wf_rec (pre ++ post) ->
  Forall (fun kv => fst kv <> 0) post' ->
  rec <> 0xffff ->
  sdr_lookup (pre ++ post) rec true = Some (data, next_id post') ->
  (length post <= f)%nat ->
  walk (serve_sdr (pre ++ post)) rid rec f (full_records pre) = WOk (full_records (pre ++ post)).
Proof.
  induction post as [|kv post0 IH]; intros pre rec f id data post' Hpost Hnd Hwf Hnz Hrec Hl Hf;
    [discriminate|].
  inversion Hpost; subst kv post0. clear Hpost.
  destruct f as [|f]; [cbn [length] in Hf; lia|].
  assert (Hwfr : wf_rec (id, data)).
  { rewrite Forall_forall in Hwf. apply Hwf. apply in_or_app. right. left. reflexivity. }
  rewrite (walk_step _ rid rec id data (next_id post') f _ Hwfr Hrec Hl).
  (* the accumulator after this record *)
  assert (Hfresh : ~ In id (map fst (full_records pre))).
  { intro Hin. apply full_records_keys in Hin.
    rewrite map_app in Hnd. cbn [map fst] in Hnd. apply NoDup_remove_2 in Hnd.
    apply Hnd. apply in_or_app. left. exact Hin. }
  rewrite (filter_fresh id _ Hfresh).
  assert (Hacc : (if rec_type data =? 1 then full_records pre ++ [(id, fsr_of (rec_body data))] else full_records pre)
                 = full_records (pre ++ [(id, data)])).
  { rewrite full_records_app, full_records_single.
    destruct (rec_type data =? 1); [reflexivity|]. rewrite app_nil_r. reflexivity. }
  assert (Hgoal : walk (serve_sdr (pre ++ (id, data) :: post')) rid (next_id post') f
                       (full_records (pre ++ [(id, data)]))
                  = WOk (full_records (pre ++ (id, data) :: post'))).
  { destruct post' as [|[id' data'] post''].
    - (* last record: next is 0xffff *)
      cbn [next_id]. apply walk_stop.
    - cbn [next_id].
      replace (pre ++ (id, data) :: (id', data') :: post'')
        with ((pre ++ [(id, data)]) ++ (id', data') :: post'')
        in * by (rewrite <- app_assoc; reflexivity).
      assert (Hwf' : wf_rec (id', data')).
      { rewrite Forall_forall in Hwf. apply Hwf. apply in_or_app. right. left. reflexivity. }
      apply (IH (pre ++ [(id, data)]) id' f id' data' post'').
      + reflexivity.
      + exact Hnd.
      + exact Hwf.
      + apply Forall_inv_tail in Hnz. exact Hnz.
      + destruct Hwf' as [Hlt _]. lia.
      + apply lookup_mid.
        * rewrite map_app in Hnd. cbn [map fst] in Hnd. apply NoDup_remove_2 in Hnd.
          intro Hin. apply Hnd. apply in_or_app. left. exact Hin.
        * intros _ _. apply Forall_inv in Hnz. exact Hnz.
      + cbn [length] in *. lia. }
  rewrite <- Hacc in Hgoal.
  destruct (rec_type data =? 1); exact Hgoal.
Qed.

(* ===================== the theorems ===================== *)

(* any fuel of at least the number of records is enough *)
Theorem walk_complete_fuel recs rid f :
  wf_repo recs -> walkable recs -> (length recs <= f)%nat ->
  walk (serve_sdr recs) rid 0 f [] = WOk (full_records recs).
Proof.
  intros [Hnd Hwf] [Hne Hnz] Hf.
  destruct recs as [|[id data] post']; [contradiction|].
  cbn [tl] in Hnz.
  apply (walk_from rid ((id, data) :: post') [] 0 f id data post'); auto.
  - discriminate.
Qed.

Theorem walk_complete recs rid :
  wf_repo recs -> walkable recs ->
  walk (serve_sdr recs) rid 0 (length recs + 1) [] = WOk (full_records recs).
Proof. intros Hwf Hw. apply walk_complete_fuel; auto. lia. Qed.

Theorem walk_fuel recs rid :
  wf_repo recs -> walkable recs ->
  walk (serve_sdr recs) rid 0 (length recs + 1) [] <> WOutOfFuel.
Proof. intros Hwf Hw. rewrite walk_complete by assumption. discriminate. Qed.

(* the result is the records of type 0x01, in storage order, each once *)
Lemma full_records_spec recs :
  full_records recs =
  map (fun kv => (fst kv, fsr_of (rec_body (snd kv))))
      (filter (fun kv => rec_type (snd kv) =? 0x01) recs).
Proof.
  induction recs as [|[id data] recs IH]; [reflexivity|].
  unfold full_records in *. cbn [flat_map filter fst snd].
  destruct (rec_type data =? 1); cbn [app map fst snd]; rewrite IH; reflexivity.
Qed.

Lemma NoDup_map_filter {A} (f : A -> N) (p : A -> bool) l :
  NoDup (map f l) -> NoDup (map f (filter p l)).
Proof.
  induction l as [|a l IH]; intros H; [constructor|].
  cbn [map] in H. inversion H as [|x xs Hnin Hnd]; subst.
  cbn [filter]. destruct (p a); [|apply IH; exact Hnd].
  cbn [map]. constructor; [|apply IH; exact Hnd].
  intro Hin. apply Hnin. rewrite in_map_iff in *. destruct Hin as [y [Hy Hin]].
  exists y. split; [exact Hy|]. apply filter_In in Hin. tauto.
Qed.

Theorem full_records_nodup recs : wf_repo recs -> NoDup (map fst (full_records recs)).
Proof.
  intros [Hnd _]. rewrite full_records_spec. rewrite map_map. cbn [fst].
  apply NoDup_map_filter. exact Hnd.
Qed.

(* the decoded record is the decoder's answer on the record's body *)
Theorem full_records_decoded recs id r :
  wf_repo recs -> In (id, r) (full_records recs) ->
  exists data, In (id, data) recs /\ rec_type data = 0x01 /\
               decode_fsr fsr_zero (rec_body data) = Ok r.
Proof.
  intros [_ Hwf] Hin. rewrite full_records_spec in Hin. apply in_map_iff in Hin.
  destruct Hin as [[id' data] [Heq Hin]]. cbn [fst snd] in Heq. inversion Heq; subst id' r. clear Heq.
  apply filter_In in Hin. destruct Hin as [Hin Hty]. cbn [snd] in Hty. apply N.eqb_eq in Hty.
  exists data. split; [exact Hin|]. split; [exact Hty|].
  rewrite Forall_forall in Hwf. specialize (Hwf _ Hin).
  destruct Hwf as [_ [_ [ver [ty [len [rest [Hd [_ [_ Hfull]]]]]]]]].
  subst data. rewrite rec_type_wf in Hty. rewrite rec_body_wf.
  destruct (Hfull Hty) as [_ Hok]. unfold fsr_of.
  destruct (decode_fsr fsr_zero rest); [reflexivity|discriminate|discriminate].
Qed.

(* ===================== counter-examples to the unrestricted statement ===================== *)

(* 1. the empty repository: wf_repo holds, the walk errs *)
Theorem walk_empty_repo rid f : walk (serve_sdr []) rid 0 (S f) [] = WErr.
Proof. reflexivity. Qed.
Lemma wf_repo_nil : wf_repo [].
Proof. split; constructor. Qed.

(* 2. a later record with ID 0: every hypothesis of wf_repo holds, the walk
   revisits the first record for ever *)
Definition cx_repo : list sdr_rec := [(1, [1; 0; 0x51; 2; 0]); (0, [0; 0; 0x51; 2; 0])].

Lemma wf_rec_small id v :
  id < 256 -> v < 256 -> wf_rec (id, [id; 0; v; 2; 0]).
Proof.
  intros Hid Hv. unfold wf_rec. split; [lia|]. split.
  - unfold all_bytes, is_byte. cbn [forallb]. rewrite !andb_true_iff. repeat split; lia.
  - exists v, 2, 0, []. split; [|split; [reflexivity|split; [lia|intros H; discriminate]]].
    cbn [app]. repeat f_equal; lia.
Qed.

Lemma wf_cx_repo : wf_repo cx_repo.
Proof.
  split.
  - cbn [cx_repo map fst]. constructor; [|constructor; [|constructor]]; cbn [In]; intuition discriminate.
  - unfold cx_repo. constructor; [apply (wf_rec_small 1 0x51); lia|].
    constructor; [apply (wf_rec_small 0 0x51); lia|constructor].
Qed.

Theorem walk_cx_repo_loops rid : forall f acc, walk (serve_sdr cx_repo) rid 0 f acc = WOutOfFuel.
Proof.
  induction f as [|f IH]; intros acc; [reflexivity|].
  rewrite walk_S. exact (IH acc).
Qed.

Theorem walk_complete_needs_walkable :
  exists recs, wf_repo recs /\ recs <> [] /\
    forall rid, walk (serve_sdr recs) rid 0 (length recs + 1) [] = WOutOfFuel.
Proof.
  exists cx_repo. split; [exact wf_cx_repo|]. split; [discriminate|].
  intros rid. apply walk_cx_repo_loops.
Qed.

(* ===================== one retrieval round ===================== *)


(* a newer addition or erase timestamp in the second answer: retry *)
Theorem retrieve_round_stale add0 erase0 add1 erase1 reserve get fuel :
  add0 < add1 \/ erase0 < erase1 ->
  retrieve_round (Some (add0, erase0)) (Some (add1, erase1)) reserve get fuel = None.
Proof.
  intros H. unfold retrieve_round.
  destruct (reserve tt) as [rid|]; [|reflexivity].
  destruct (walk get rid 0 fuel []); try reflexivity.
  assert (E : ((add0 <? add1) || (erase0 <? erase1))%bool = true).
  { apply orb_true_iff. destruct H; [left|right]; apply N.ltb_lt; assumption. }
  rewrite E. reflexivity.
Qed.

(* no newer timestamp and a successful walk: the walk's result *)
Theorem retrieve_round_fresh add0 erase0 add1 erase1 reserve get fuel rid m :
  add1 <= add0 -> erase1 <= erase0 ->
  reserve tt = Some rid ->
  walk get rid 0 fuel [] = WOk m ->
  retrieve_round (Some (add0, erase0)) (Some (add1, erase1)) reserve get fuel = Some m.
Proof.
  intros Ha He Hr Hw. unfold retrieve_round. rewrite Hr, Hw.
  destruct (N.ltb_spec add0 add1); [lia|]. destruct (N.ltb_spec erase0 erase1); [lia|]. reflexivity.
Qed.

(* the round returns a result only if the walk succeeded with that result and
   the timestamps did not advance *)
Theorem retrieve_round_some info0 info1 reserve get fuel m :
  retrieve_round info0 info1 reserve get fuel = Some m ->
  exists add0 erase0 add1 erase1 rid,
    info0 = Some (add0, erase0) /\ info1 = Some (add1, erase1) /\
    add1 <= add0 /\ erase1 <= erase0 /\
    reserve tt = Some rid /\ walk get rid 0 fuel [] = WOk m.
Proof.
  unfold retrieve_round. destruct info0 as [[a0 e0]|]; [|discriminate].
  destruct (reserve tt) as [rid|]; [|discriminate].
  destruct (walk get rid 0 fuel []) as [m'| |] eqn:Hw; try discriminate.
  destruct info1 as [[a1 e1]|]; [|discriminate].
  destruct (N.ltb_spec a0 a1) as [|Ha]; [discriminate|].
  destruct (N.ltb_spec e0 e1) as [|He]; [discriminate|].
  cbn [orb]. intros Hm. inversion Hm; subst m'.
  exists a0, e0, a1, e1, rid. repeat split; auto.
Qed.

(* unchanged answers: the round returns exactly the walk's result *)
Theorem retrieve_round_consistent info reserve get fuel add erase rid :
  info = Some (add, erase) -> reserve tt = Some rid ->
  retrieve_round info info reserve get fuel =
  match walk get rid 0 fuel [] with WOk m => Some m | _ => None end.
Proof.
  intros Hi Hr. unfold retrieve_round. rewrite Hi, Hr.
  destruct (walk get rid 0 fuel []); try reflexivity.
  rewrite !N.ltb_irrefl. reflexivity.
Qed.

Theorem retrieve_round_failures info0 info1 reserve get fuel :
  info0 = None \/ reserve tt = None -> retrieve_round info0 info1 reserve get fuel = None.
Proof.
  intros [Hf|Hf]; unfold retrieve_round; rewrite Hf; [reflexivity|].
  destruct info0 as [[a e]|]; reflexivity.
Qed.

(* a round against a well-formed repository yields its Full Sensor Records *)
Theorem retrieve_round_repo recs info reserve add erase rid :
  wf_repo recs -> walkable recs ->
  info = Some (add, erase) -> reserve tt = Some rid ->
  retrieve_round info info reserve (serve_sdr recs) (length recs + 1) = Some (full_records recs).
Proof.
  intros Hwf Hw Hi Hr. rewrite (retrieve_round_consistent _ _ _ _ _ _ _ Hi Hr).
  rewrite walk_complete by assumption. reflexivity.
Qed.

(* ===================== non-vacuity ===================== *)
(* a repository whose first record has ID 0 and is a Full Sensor Record,
   followed by a record of another type and a second Full Sensor Record:
   the hypotheses are satisfiable and the theorem's answer is the computed one *)
Definition ex_body : bytes := zeros 43.
Definition ex_repo : list sdr_rec :=
  [(0, [0; 0; 0x51; 1; 43] ++ ex_body); (7, [7; 0; 0x51; 2; 0]); (3, [3; 0; 0x51; 1; 43] ++ ex_body)].

Lemma ex_repo_wf : wf_repo ex_repo /\ walkable ex_repo.
Proof.
  assert (Hfull : forall id, id < 256 -> wf_rec (id, [id; 0; 0x51; 1; 43] ++ ex_body)).
  { intros id Hid. unfold wf_rec. split; [lia|]. split.
    - assert (E : all_bytes ([0; 0x51; 1; 43] ++ ex_body) = true) by (vm_compute; reflexivity).
      change ((is_byte id && all_bytes ([0; 0x51; 1; 43] ++ ex_body))%bool = true).
      rewrite E, andb_true_r. unfold is_byte. lia.
    - exists 0x51, 1, 43, ex_body. split; [|split; [reflexivity|split; [lia|]]].
      + cbn [app]. repeat f_equal; lia.
      + intros _. split; [lia|]. vm_compute. reflexivity. }
  split; [split|split].
  - cbn [ex_repo map fst]. constructor; [|constructor; [|constructor; [|constructor]]]; cbn [In];
      intuition discriminate.
  - unfold ex_repo. constructor; [apply (Hfull 0); lia|].
    constructor; [apply (wf_rec_small 7 0x51); lia|].
    constructor; [apply (Hfull 3); lia|constructor].
  - discriminate.
  - cbn [ex_repo tl]. constructor; [cbn [fst]; discriminate|]. constructor; [cbn [fst]; discriminate|constructor].
Qed.

Lemma ex_repo_walk rid :
  walk (serve_sdr ex_repo) rid 0 (length ex_repo + 1) [] = WOk [(0, fsr_of ex_body); (3, fsr_of ex_body)].
Proof. destruct ex_repo_wf as [Hwf Hw]. rewrite (walk_complete _ rid Hwf Hw). reflexivity. Qed.

(* ===================== the outer retry loop ===================== *)
(* RetrieveSDRRepository: rounds are attempted until one succeeds or the context ends ([rounds] exhausted).
   A round is what the BMC served during it: the two info answers, the reservation, the Get SDR server. *)
Record round := { rd_info0 : option (N * N); rd_info1 : option (N * N); rd_reserve : unit -> option N; rd_get : sdr_server }.
Fixpoint retrieve (rounds : list round) (fuel : nat) : option (list (N * fsr)) :=
  match rounds with
  | [] => None
  | r :: rest =>
      match retrieve_round (rd_info0 r) (rd_info1 r) (rd_reserve r) (rd_get r) fuel with
      | Some m => Some m
      | None => retrieve rest fuel
      end
  end.

(* whatever happened in earlier rounds (modifications, lost reservations, errors), what is returned is the result of
   ONE round, in which both info answers arrived, no timestamp advanced, the walk ran under one reservation and
   succeeded - never a mixture of rounds, and every earlier round was discarded entirely *)
Theorem retrieve_is_one_round rounds fuel m :
  retrieve rounds fuel = Some m ->
  exists pre r post add0 erase0 add1 erase1 rid,
    rounds = pre ++ r :: post /\
    Forall (fun q => retrieve_round (rd_info0 q) (rd_info1 q) (rd_reserve q) (rd_get q) fuel = None) pre /\
    rd_info0 r = Some (add0, erase0) /\ rd_info1 r = Some (add1, erase1) /\ add1 <= add0 /\ erase1 <= erase0 /\
    rd_reserve r tt = Some rid /\ walk (rd_get r) rid 0 fuel [] = WOk m.
Proof.
  induction rounds as [|q rest IH]; cbn [retrieve]; [discriminate|].
  destruct (retrieve_round (rd_info0 q) (rd_info1 q) (rd_reserve q) (rd_get q) fuel) as [m'|] eqn:E.
  - intros H. injection H as <-.
    destruct (retrieve_round_some _ _ _ _ _ _ E) as (a0 & e0 & a1 & e1 & rid & H0 & H1 & Ha & He & Hr & Hw).
    exists [], q, rest, a0, e0, a1, e1, rid. repeat split; auto.
  - intros H. destruct (IH H) as (pre & r & post & a0 & e0 & a1 & e1 & rid & -> & F & R).
    exists (q :: pre), r, post, a0, e0, a1, e1, rid. split; [reflexivity|]. split; [constructor; assumption|exact R].
Qed.

(* against a repository that holds still for one round, that round's result is the repository's records *)
Theorem retrieve_quiet_round pre recs info reserve add erase rid post :
  wf_repo recs -> walkable recs -> info = Some (add, erase) -> reserve tt = Some rid ->
  Forall (fun q => retrieve_round (rd_info0 q) (rd_info1 q) (rd_reserve q) (rd_get q) (length recs + 1) = None) pre ->
  retrieve (pre ++ {| rd_info0 := info; rd_info1 := info; rd_reserve := reserve; rd_get := serve_sdr recs |} :: post)
           (length recs + 1) = Some (full_records recs).
Proof.
  intros Hwf Hw Hi Hr F. induction pre as [|q pre IH]; cbn [app retrieve].
  - cbn [rd_info0 rd_info1 rd_reserve rd_get]. rewrite (retrieve_round_repo recs info reserve add erase rid Hwf Hw Hi Hr). reflexivity.
  - inversion F as [|? ? Hq F']; subst. rewrite Hq. apply IH. exact F'.
Qed.
