(* ConnProofs.v — theorems about the retry loops: sequence numbers (C09),
   retransmission and result (C10), origin of a result (C11), for every
   script of per-attempt outcomes (induction on the script). *)
From BMC Require Import Base BaseFacts Prim Layers Layers2 Serialize Packet Conn.
From BMC Require SpecRequests RequestProofs.
From Coq Require Import ZifyN ZifyNat ZifyBool.
Ltac Zify.zify_post_hook ::= Z.div_mod_to_equations.

(* ---------- the wrapper fields of a transmitted datagram, read positionally ---------- *)
Definition id_field (dg : bytes) : N := le32 (nth 6 dg 0) (nth 7 dg 0) (nth 8 dg 0) (nth 9 dg 0).
Definition seq_field (dg : bytes) : N := le32 (nth 10 dg 0) (nth 11 dg 0) (nth 12 dg 0) (nth 13 dg 0).

Lemma le32_of_put x : x < 4294967296 ->
  le32 (x mod 256) ((x / 256) mod 256) ((x / 65536) mod 256) ((x / 16777216) mod 256) = x.
Proof. exact (le32_put x). Qed.

Lemma session_packet_shape s q iv o lun body :
  exists rest fl,
    session_command_packet s q iv o lun body =
    Ok ([6; 0; 0xff; 7; 6; fl] ++ put_le32 (s_remote_id s) ++ put_le32 q ++ rest).
Proof.
  unfold session_command_packet, ser_message, ser_aescbc, ser_v2session, ser_rmcp. cbn -[put_le32 put_le16 N.lor N.shiftl Impl.checksum cbc_encrypt aes_trailer u8 u16].
  eexists. eexists. rewrite <- !app_assoc. cbn -[put_le32 put_le16 N.lor N.shiftl Impl.checksum cbc_encrypt aes_trailer u8 u16].
  reflexivity.
Qed.

Lemma session_packet_fields s q iv o lun body pkt :
  s_remote_id s < 4294967296 -> q < 4294967296 ->
  session_command_packet s q iv o lun body = Ok pkt ->
  id_field pkt = s_remote_id s /\ seq_field pkt = q.
Proof.
  intros Hid Hq H. destruct (session_packet_shape s q iv o lun body) as [rest [fl E]].
  rewrite E in H. injection H as <-. unfold id_field, seq_field, put_le32. cbn [app nth].
  split; apply le32_put; assumption.
Qed.

Lemma session_packet_always_ok s q iv o lun body : exists pkt, session_command_packet s q iv o lun body = Ok pkt.
Proof. destruct (session_packet_shape s q iv o lun body) as [rest [fl E]]. eauto. Qed.

Fixpoint count_from (start : N) (n : nat) : list N :=
  match n with O => [] | S k => start :: count_from (start + 1) k end.

Lemma count_from_app a n m : count_from a (n + m) = count_from a n ++ count_from (a + N.of_nat n) m.
Proof.
  revert a; induction n as [|n IH]; intros a; simpl.
  - rewrite N.add_0_r. reflexivity.
  - rewrite IH. f_equal. f_equal. f_equal. lia.
Qed.

(* C09: whatever each attempt's read returns, the datagrams of one command carry
   seq+1, seq+2, ... and the counter ends at seq + (number transmitted) *)
Theorem session_loop_seq s o lun body : forall script seq ivs sent codes,
  s_remote_id s < 4294967296 -> seq + N.of_nat (length script) < 4294967296 ->
  let r := session_loop s o lun body seq ivs script sent codes in
  exists new, lr_sent r = sent ++ new /\
              map seq_field new = count_from (seq + 1) (length new) /\
              Forall (fun dg => id_field dg = s_remote_id s) new /\
              lr_seq r = seq + N.of_nat (length new) /\ (length new <= length script)%nat.
Proof.
  induction script as [|a rest IH]; intros seq ivs sent codes Hid Hb; cbn zeta.
  - exists []. simpl. rewrite app_nil_r, N.add_0_r. repeat split; auto.
  - cbn [session_loop]. set (seq' := u32 (seq + 1)).
    assert (Hs' : seq' = seq + 1) by (unfold seq', u32; cbn [length] in Hb; rewrite N.mod_small; lia).
    destruct (session_packet_always_ok s seq' (hd (zeros 16) ivs) o lun body) as [pkt Hp]. rewrite Hp.
    destruct (session_packet_fields s seq' _ o lun body pkt Hid ltac:(cbn [length] in Hb; lia) Hp) as [Fid Fseq].
    assert (One : forall codes' oc, exists new,
               lr_sent {| lr_sent := sent ++ [pkt]; lr_codes := codes'; lr_outcome := oc; lr_seq := seq' |} = sent ++ new /\
               map seq_field new = count_from (seq + 1) (length new) /\
               Forall (fun dg => id_field dg = s_remote_id s) new /\
               seq' = seq + N.of_nat (length new) /\ (length new <= length (a :: rest))%nat).
    { intros. exists [pkt]. cbn. rewrite Fseq, Hs'. repeat split; auto. lia. }
    assert (Rec : forall codes', exists new,
               lr_sent (session_loop s o lun body seq' (tl ivs) rest (sent ++ [pkt]) codes') = sent ++ new /\
               map seq_field new = count_from (seq + 1) (length new) /\
               Forall (fun dg => id_field dg = s_remote_id s) new /\
               lr_seq (session_loop s o lun body seq' (tl ivs) rest (sent ++ [pkt]) codes') = seq + N.of_nat (length new) /\
               (length new <= length (a :: rest))%nat).
    { intros codes'. specialize (IH seq' (tl ivs) (sent ++ [pkt]) codes' Hid ltac:(cbn [length] in Hb; lia)).
      cbn zeta in IH. destruct IH as [new [E1 [E2 [E3 [E4 E5]]]]].
      exists (pkt :: new). split; [rewrite E1, <- app_assoc; reflexivity|].
      split; [cbn [map length count_from]; rewrite E2, Fseq, <- Hs'; reflexivity|].
      split; [constructor; assumption|].
      split; [rewrite E4; cbn [length]; lia|cbn [length]; lia]. }
    destruct a as [bs|].
    + destruct (session_verdict s o bs).
      * destruct (One (codes ++ [m_code m]) (OFinal m)) as [new H]. exists new. exact H.
      * apply Rec.
      * apply Rec.
      * destruct (One codes OFault) as [new H]. exists new. exact H.
    + destruct (One codes OTransport) as [new H]. exists new. exact H.
Qed.

(* ---------- C10 / C11: session-less loop ---------- *)
(* an attempt decides the command when its read returned a valid response with a final code (or faulted) *)
Definition decides (o : operation) (r : option bytes) : bool :=
  match r with
  | None => false
  | Some bs => match sessionless_verdict o bs with VFinal _ | VFault => true | _ => false end
  end.
Fixpoint attempts (o : operation) (script : list (option bytes)) : nat :=
  match script with [] => O | r :: rest => if decides o r then 1%nat else S (attempts o rest) end.

Theorem sessionless_loop_resends pkt o : forall script sent codes,
  lr_sent (sessionless_loop pkt o script sent codes) = sent ++ repeat pkt (attempts o script).
Proof.
  induction script as [|r rest IH]; intros sent codes; cbn [sessionless_loop attempts].
  - simpl. rewrite app_nil_r. reflexivity.
  - destruct r as [bs|]; cbn [decides].
    + destruct (sessionless_verdict o bs); cbn [lr_sent repeat]; try reflexivity;
        rewrite IH, <- app_assoc; reflexivity.
    + rewrite IH, <- app_assoc. reflexivity.
Qed.

(* the result is the first deciding attempt's response *)
Theorem sessionless_loop_origin pkt o : forall script sent codes m,
  lr_outcome (sessionless_loop pkt o script sent codes) = OFinal m ->
  exists pre bs post, script = pre ++ Some bs :: post /\
                      Forall (fun r => decides o r = false) pre /\
                      sessionless_verdict o bs = VFinal m.
Proof.
  induction script as [|r rest IH]; intros sent codes m H; cbn [sessionless_loop] in H; [discriminate|].
  destruct r as [bs|].
  - destruct (sessionless_verdict o bs) eqn:V; cbn [lr_outcome] in H.
    + injection H as <-. exists [], bs, rest. repeat split; auto.
    + destruct (IH _ _ _ H) as [pre [b [post [E [F Vb]]]]]. exists (Some bs :: pre), b, post. subst rest.
      repeat split; auto. constructor; auto. cbn [decides]. rewrite V. reflexivity.
    + destruct (IH _ _ _ H) as [pre [b [post [E [F Vb]]]]]. exists (Some bs :: pre), b, post. subst rest.
      repeat split; auto. constructor; auto. cbn [decides]. rewrite V. reflexivity.
    + discriminate.
  - destruct (IH _ _ _ H) as [pre [b [post [E [F Vb]]]]]. exists (None :: pre), b, post. subst rest.
    repeat split; auto.
Qed.

(* C11: a final verdict only comes from a message that answers the request *)
Lemma sessionless_verdict_final o bs m :
  sessionless_verdict o bs = VFinal m ->
  response_matches o m = true /\ is_temporary (m_code m) = false /\
  exists w, receive nil_sign None bs = Ok (InMessage w m).
Proof.
  unfold sessionless_verdict. destruct (receive nil_sign None bs) as [i| |] eqn:R; try discriminate.
  destruct i as [| |w|w m']; try discriminate.
  destruct (response_matches o m') eqn:RM; [|discriminate].
  destruct (is_temporary (m_code m')) eqn:T; [discriminate|].
  intros H. injection H as <-. repeat split; auto. eauto.
Qed.

Lemma session_verdict_final s o bs m :
  session_verdict s o bs = VFinal m ->
  response_matches o m = true /\ is_temporary (m_code m) = false /\
  exists w, receive (s_sign s) (Some (s_dec s)) bs = Ok (InMessage w m) /\
            v2_id w = s_local_id s /\ v2_authenticated w = true.
Proof.
  unfold session_verdict. destruct (receive (s_sign s) (Some (s_dec s)) bs) as [i| |] eqn:R; try discriminate.
  destruct i as [| |w|w m']; try discriminate.
  destruct (v2_id w =? s_local_id s) eqn:I; cbn [negb]; [|discriminate].
  destruct (v2_authenticated w) eqn:A; cbn [negb]; [|discriminate].
  destruct (response_matches o m') eqn:RM; [|discriminate].
  destruct (is_temporary (m_code m')) eqn:T; [discriminate|].
  intros H. injection H as <-. repeat split; auto. exists w. repeat split; auto. apply N.eqb_eq. exact I.
Qed.

Lemma response_matches_spec o m : response_matches o m = true ->
  m_function m = u8 (op_fn o + 1) /\ m_command m = op_cmd o /\ m_body m = op_body o /\ m_enterprise m = op_ent o.
Proof.
  unfold response_matches. intros H. repeat (apply andb_true_iff in H; destruct H as [H ?]).
  repeat split; apply N.eqb_eq; assumption.
Qed.

(* in-session: a final outcome comes from an attempt whose read returned a matching, authenticated response *)
Theorem session_loop_origin s o lun body : forall script seq ivs sent codes m,
  lr_outcome (session_loop s o lun body seq ivs script sent codes) = OFinal m ->
  exists bs, In (Some bs) script /\ session_verdict s o bs = VFinal m.
Proof.
  induction script as [|r rest IH]; intros seq ivs sent codes m H; cbn [session_loop] in H; [discriminate|].
  destruct (session_command_packet s (u32 (seq + 1)) (hd (zeros 16) ivs) o lun body); try discriminate.
  destruct r as [bs|]; [|discriminate].
  destruct (session_verdict s o bs) eqn:V; cbn [lr_outcome] in H.
  - injection H as <-. exists bs. split; [left; reflexivity|exact V].
  - destruct (IH _ _ _ _ _ H) as [b [Hin Vb]]. exists b. split; [right; exact Hin|exact Vb].
  - destruct (IH _ _ _ _ _ H) as [b [Hin Vb]]. exists b. split; [right; exact Hin|exact Vb].
  - discriminate.
Qed.

(* in-session: a lost reply ends the command at once, nothing further is transmitted *)
Theorem session_loop_lost_terminal s o lun body seq ivs rest sent codes :
  lr_outcome (session_loop s o lun body seq ivs (None :: rest) sent codes) = OTransport /\
  length (lr_sent (session_loop s o lun body seq ivs (None :: rest) sent codes)) = S (length sent).
Proof.
  cbn [session_loop]. destruct (session_packet_always_ok s (u32 (seq + 1)) (hd (zeros 16) ivs) o lun body) as [pkt ->].
  cbn. rewrite app_length. simpl. split; [reflexivity|lia].
Qed.

(* ---------- session-less datagrams carry the null session header ---------- *)
Lemma sessionless_packet_null o lun body pkt :
  sessionless_command_packet o lun body = Ok pkt -> id_field pkt = 0 /\ seq_field pkt = 0.
Proof.
  unfold sessionless_command_packet, ser_message, ser_v2session, ser_rmcp.
  cbn -[put_le16 N.lor N.shiftl Impl.checksum u8 u16]. intros H. injection H as <-.
  unfold id_field, seq_field. cbn. split; reflexivity.
Qed.

Lemma payload_packet_null ptype payload pkt :
  In ptype [0x10; 0x12; 0x14] ->
  payload_packet ptype payload = Ok pkt -> id_field pkt = 0 /\ seq_field pkt = 0.
Proof.
  intros Hin. unfold payload_packet, ser_v2session, ser_rmcp.
  destruct Hin as [<-|[<-|[<-|[]]]]; cbn -[put_le16 u16]; intros H; injection H as <-;
    unfold id_field, seq_field; cbn; split; reflexivity.
Qed.

(* the same at the level of requests: a request that cannot be serialised sends nothing and leaves the counter alone *)
Theorem session_send_seq s o lun r : forall script seq ivs,
  s_remote_id s < 4294967296 -> seq + N.of_nat (length script) < 4294967296 ->
  let res := session_send s seq ivs o lun r script in
  map seq_field (lr_sent res) = count_from (seq + 1) (length (lr_sent res)) /\
  Forall (fun dg => id_field dg = s_remote_id s) (lr_sent res) /\
  lr_seq res = seq + N.of_nat (length (lr_sent res)) /\ (length (lr_sent res) <= length script)%nat.
Proof.
  intros script seq ivs Hid Hb. cbn zeta. unfold session_send.
  destruct (ser_request r []) as [body| |].
  - destruct (session_loop_seq s o lun body script seq ivs [] [] Hid Hb) as [new [E1 [E2 [E3 [E4 E5]]]]].
    cbn [app] in E1. rewrite E1. auto.
  - cbn [lr_sent lr_seq map length count_from]. rewrite N.add_0_r. repeat split; auto. lia.
  - cbn [lr_sent lr_seq map length count_from]. rewrite N.add_0_r. repeat split; auto. lia.
Qed.

Theorem session_send_refused s o lun r script seq ivs :
  (forall body, ser_request r [] <> Ok body) ->
  lr_sent (session_send s seq ivs o lun r script) = [] /\ lr_seq (session_send s seq ivs o lun r script) = seq /\
  lr_outcome (session_send s seq ivs o lun r script) = OSerialize.
Proof.
  intros H. unfold session_send. destruct (ser_request r []) as [body| |]; [exfalso; apply (H body); reflexivity| |]; auto.
Qed.

(* V2Session.Close: the request data of the Close Session it sends is the managed system's session ID, which the
   specification's parser (22.19) reads back as "close the session with this ID" *)
Theorem close_names_bmc_session : forall s,
  0 < s_remote_id s < 4294967296 ->
  ser_request (close_request s) [] = Ok (put_le32 (s_remote_id s)) /\
  SpecRequests.SpecParse.request_body SpecRequests.SpecParse.KCloseSession (put_le32 (s_remote_id s)) = Some (RqCloseSession (s_remote_id s) 0).
Proof.
  intros s H. assert (S : ser_request (close_request s) [] = Ok (put_le32 (s_remote_id s))).
  { unfold close_request, ser_request. rewrite RequestProofs.u32_small by lia.
    destruct (N.eqb_spec (s_remote_id s) 0); [lia|]. cbn [app]. rewrite app_nil_r. reflexivity. }
  split; [exact S|]. apply RequestProofs.rb_closesession; [|exact S].
  unfold SpecRequests.SpecParse.wf_request. change (2 ^ 32) with 4294967296.
  destruct (N.ltb_spec (s_remote_id s) 4294967296); [|lia].
  destruct (N.eqb_spec (s_remote_id s) 0); [lia|]. reflexivity.
Qed.

Theorem session_close_seq : forall s script seq ivs,
  s_remote_id s < 4294967296 -> seq + N.of_nat (length script) < 4294967296 ->
  let res := session_close s seq ivs script in
  map seq_field (lr_sent res) = count_from (seq + 1) (length (lr_sent res)) /\
  Forall (fun dg => id_field dg = s_remote_id s) (lr_sent res) /\
  lr_seq res = seq + N.of_nat (length (lr_sent res)).
Proof.
  intros s script seq ivs Hid Hb. cbn zeta. unfold session_close.
  destruct (session_send_seq s op_close_session 0 (close_request s) script seq ivs Hid Hb) as [A [B [C _]]]. auto.
Qed.
